import H5V.Lemmas.HtmlTBSafeRules0
/-!
# Tree-builder safety, part 10: the `InHead` rules, the EOF arm of `InTemplate`, the `AfterHead` block

`stepInHead_explicit`: what `stepInHead` does, arm by arm (`HeadOut`); `stepInHead_spec : HeadSpec` follows
from it, and so does `afterHeadBlock_spec` (`push(head); step(InHead, token); remove_from_stack(head)`),
because the description is stable under removing the pushed head element again (`HeadOut.unpush`).
-/
namespace H5V.Lemmas.TBSafe
open H5V.Model.HtmlTB
open H5V.Model.Dom (Id QualName Attr NodeOrText SinkOp Output ElementFlags QuirksMode Dom NodeData Node)

variable {al : Allow}

/-! ### small facts -/

theorem sat_extractEncoding {c : Str} {s : State} : Sat (extractEncoding c) s (fun _ s' => s' = s) := by
  unfold extractEncoding
  cases h : H5V.Model.Meta.extract (utf8Bytes c) with
  | error e => exact sat_throw (Benign.metaExtract e)
  | ok o =>
    cases o with
    | none => exact sat_pure rfl
    | some bytes =>
      dsimp only
      cases h2 : String.fromUTF8? (ByteArray.mk bytes.toArray) with
      | none => exact sat_throw Benign.metaUtf8
      | some str => exact sat_pure rfl

theorem sat_sinkBool_const {op : SinkOp} {b : Bool} {s : State} (h : s.dom.apply op = .ok (s.dom, .bool b)) :
    Sat (sinkBool op) s (fun r s' => r = b ∧ QF s s') := by
  unfold sinkBool
  refine Sat.bind (sat_sink (Q := fun o s' => o = .bool b ∧ QF s s') (Or.inr ⟨_, _, h⟩) ?_) ?_
  · intro d' out h1
    have h' := h1
    rw [h] at h1; cases h1
    exact ⟨rfl, qf_of_apply h'⟩
  · rintro o s' ⟨rfl, hq⟩; exact sat_pure ⟨rfl, hq⟩

theorem preRoot_of_origOk {m : Mode} (h : origOk m = true) : preRoot m = false := by
  revert h; cases m <;> decide

theorem ne_inTableText_of_origOk {m : Mode} (h : origOk m = true) : m ≠ .inTableText := by
  rintro rfl; revert h; decide

theorem split_unique {h : Id} : ∀ {a b c d : List Id}, a ++ h :: b = c ++ h :: d → h ∉ b → h ∉ d → a = c ∧ b = d := by
  intro a
  induction a with
  | nil =>
    intro b c d he hb hd
    cases c with
    | nil => simp at he; exact ⟨rfl, he⟩
    | cons c0 c' =>
      simp only [List.nil_append, List.cons_append, List.cons.injEq] at he
      exact absurd (by rw [he.2]; simp) hb
  | cons a0 a' ih =>
    intro b c d he hb hd
    cases c with
    | nil =>
      simp only [List.nil_append, List.cons_append, List.cons.injEq] at he
      exact absurd (by rw [← he.2]; simp) hd
    | cons c0 c' =>
      simp only [List.cons_append, List.cons.injEq] at he
      obtain ⟨h1, h2⟩ := ih he.2 hb hd
      exact ⟨by rw [he.1, h1], h2⟩

/-! ### tag names -/

theorem isOneOf_cases {n : Str} {l : List String} (h : isOneOf n l = true) : ∃ x ∈ l, n = x.toList := by
  unfold isOneOf at h
  rw [List.any_eq_true] at h
  obtain ⟨x, hx, hn⟩ := h
  exact ⟨x, hx, (beq_iff_eq.mp hn).symm⟩

theorem isOneOf_false_of {n : Str} {l l' : List String} (h : isOneOf n l = true)
    (hd : ∀ x ∈ l, isOneOf x.toList l' = false) : isOneOf n l' = false := by
  obtain ⟨x, hx, rfl⟩ := isOneOf_cases h
  exact hd x hx

theorem isStart_name {tag : Tag} {l : List String} (h : tag.isStart l = true) : isOneOf tag.name l = true := by
  simp only [Tag.isStart, Bool.and_eq_true] at h; exact h.2

theorem isEnd_name {tag : Tag} {l : List String} (h : tag.isEnd l = true) : isOneOf tag.name l = true := by
  simp only [Tag.isEnd, Bool.and_eq_true] at h; exact h.2

theorem isEnd_kind {tag : Tag} {l : List String} (h : tag.isEnd l = true) : tag.kind = .endTag := by
  simp only [Tag.isEnd, Bool.and_eq_true, beq_iff_eq] at h; exact h.1

theorem newOk_of_isOneOf {n : Str} {l : List String} (h : isOneOf n l = true)
    (h1 : isOneOf "template".toList l = false) (h2 : isOneOf "head".toList l = false) : NewOk ⟨nsHtml, n⟩ := by
  constructor
  · intro e
    simp only [tmplName, EName.mk.injEq, true_and] at e
    rw [e, h1] at h; cases h
  · intro e
    simp only [headName, EName.mk.injEq, true_and] at e
    rw [e, h2] at h; cases h

def delegNames : List String :=
  ["base", "basefont", "bgsound", "link", "meta", "noframes", "script", "style", "template", "title"]

theorem headDeleg_tag (tag : Tag) : headDeleg (.tag tag) = (tag.isStart delegNames || tag.isEnd ["template"]) := rfl
theorem afterHeadDeleg_tag (tag : Tag) : afterHeadDeleg (.tag tag) = tag.isStart delegNames := rfl

theorem deleg_cases {tag : Tag} (h : tag.isStart delegNames = true) :
    tag.isStart ["base", "basefont", "bgsound", "link", "meta"] = true ∨ tag.isStart ["title"] = true ∨
    tag.isStart ["noframes", "style", "noscript"] = true ∨ tag.isStart ["script"] = true ∨
    tag.isStart ["template"] = true := by
  simp only [Tag.isStart, Bool.and_eq_true] at h ⊢
  obtain ⟨hk, hn⟩ := h
  obtain ⟨x, hx, hn⟩ := isOneOf_cases hn
  rw [hn]
  simp only [delegNames, List.mem_cons, List.not_mem_nil, or_false] at hx
  rcases hx with rfl | rfl | rfl | rfl | rfl | rfl | rfl | rfl | rfl | rfl
  all_goals first
    | exact Or.inl ⟨hk, by decide⟩
    | exact Or.inr (Or.inl ⟨hk, by decide⟩)
    | exact Or.inr (Or.inr (Or.inl ⟨hk, by decide⟩))
    | exact Or.inr (Or.inr (Or.inr (Or.inl ⟨hk, by decide⟩)))
    | exact Or.inr (Or.inr (Or.inr (Or.inr ⟨hk, by decide⟩)))

/-- an end tag that is not `</template>` is not delegated -/
theorem deleg_false_of_end {tag : Tag} (hk : tag.kind = .endTag) (hn : isOneOf tag.name ["template"] = false) :
    headDeleg (.tag tag) = false ∧ afterHeadDeleg (.tag tag) = false := by
  rw [headDeleg_tag, afterHeadDeleg_tag]
  simp [Tag.isStart, Tag.isEnd, hk, hn]

theorem deleg_false_of_name {tag : Tag} (h1 : isOneOf tag.name delegNames = false)
    (h2 : isOneOf tag.name ["template"] = false) :
    headDeleg (.tag tag) = false ∧ afterHeadDeleg (.tag tag) = false := by
  rw [headDeleg_tag, afterHeadDeleg_tag]
  simp [Tag.isStart, Tag.isEnd, h1, h2]

theorem afterHeadDeleg_end {tag : Tag} (hk : tag.kind = .endTag) : afterHeadDeleg (.tag tag) = false := by
  rw [afterHeadDeleg_tag]
  simp [Tag.isStart, hk]

/-! ### composing `Inserted` -/

theorem Inserted.same {s s' : State} {r : Id} {ns n : Str} (h : Inserted s s' r ns n false) : Same s s' :=
  ⟨h.fr, by simpa using h.openElems, h.af⟩

theorem Inserted.open_true {s s' : State} {r : Id} {ns n : Str} (h : Inserted s s' r ns n true) :
    s'.openElems = s.openElems ++ [r] := by simpa using h.openElems

theorem Inserted.of_qf_left {a b c : State} {r : Id} {ns n : Str} {p : Bool} (hq : QF a b)
    (h : Inserted b c r ns n p) : Inserted a c r ns n p :=
  ⟨hq.fr.trans h.fr, h.af.trans hq.activeFormatting, by rw [h.openElems, hq.openElems],
   fun x hx => h.fresh x (hx.ext hq.ext), h.el, h.nm, h.tc⟩

theorem Inserted.of_qf_right {a b c : State} {r : Id} {ns n : Str} {p : Bool}
    (h : Inserted a b r ns n p) (hq : QF b c) : Inserted a c r ns n p :=
  ⟨h.fr.trans hq.fr, hq.activeFormatting.trans h.af, by rw [hq.openElems]; exact h.openElems,
   h.fresh, h.el.ext hq.ext, by rw [nm_ext hq.ext h.el]; exact h.nm, h.tc.ext hq.ext h.el⟩

/-- push, pop again, push another one -/
theorem Inserted.pop_reinsert {a b c d : State} {t r : Id} {ns n ns' n' : Str}
    (h1 : Inserted a b t ns n true) (st : St b c b.openElems.dropLast) (h2 : Inserted c d r ns' n' true) :
    Inserted a d r ns' n' true :=
  ⟨h1.fr.trans (st.fr.trans h2.fr), h2.af.trans (st.af.trans h1.af),
   by rw [h2.open_true, st.openElems, h1.open_true, List.dropLast_concat]; rfl,
   fun x hx => h2.fresh x ((hx.ext h1.fr.ext).ext st.fr.ext), h2.el, h2.nm, h2.tc⟩

theorem Inserted.toText {s s1 : State} {r : Id} {ns n : Str} (h : Inserted s s1 r ns n true) :
    Inserted { s with origMode := some s.mode, mode := .text } { s1 with origMode := some s1.mode, mode := .text }
      r ns n true :=
  ⟨⟨rfl, by show some s1.mode = some s.mode; rw [h.fr.mode], h.fr.templateModes, h.fr.pendingTableText,
    h.fr.headElem, h.fr.formElem, h.fr.contextElem, h.fr.docHandle, h.fr.opts, h.fr.ext⟩,
   h.af, h.openElems, h.fresh, h.el, h.nm, h.tc⟩

/-- the element pushed before (`head`) is removed from under the inserted element -/
theorem Inserted.unpush {a a0 s1 s2 : State} {head r : Id} {ns n : Str}
    (hfr : Fr a a0) (ho : a0.openElems = a.openElems ++ [head]) (haf : a0.activeFormatting = a.activeFormatting)
    (hdom : a0.dom = a.dom) (hhead : IsEl a.dom head)
    (ins : Inserted a0 s1 r ns n true)
    (hrem : (head ∉ s1.openElems ∧ Same s1 s2) ∨
      (∃ pre post, s1.openElems = pre ++ head :: post ∧ head ∉ post ∧ St s1 s2 (pre ++ post))) :
    Inserted a s2 r ns n true := by
  have ho1 : s1.openElems = a.openElems ++ head :: [r] := by rw [ins.open_true, ho]; simp
  rcases hrem with ⟨hnot, _⟩ | ⟨pre, post, heq, hpost, st⟩
  · exact absurd (by rw [ho1]; simp) hnot
  · have hne : head ≠ r := ins.fresh head (by rw [hdom]; exact hhead)
    rw [ho1] at heq
    obtain ⟨h1, h2⟩ := split_unique heq (by simpa using hne) hpost
    subst h1; subst h2
    exact ⟨hfr.trans (ins.fr.trans st.fr), st.af.trans (ins.af.trans haf), by rw [st.openElems]; rfl,
      fun x hx => ins.fresh x (by rw [hdom]; exact hx), ins.el.ext st.fr.ext,
      by rw [nm_ext st.fr.ext ins.el]; exact ins.nm, ins.tc.ext st.fr.ext ins.el⟩

theorem same_unpush {a a0 s1 s2 : State} {head : Id}
    (hfr : Fr a a0) (ho : a0.openElems = a.openElems ++ [head]) (haf : a0.activeFormatting = a.activeFormatting)
    (st1 : Same a0 s1)
    (hrem : (head ∉ s1.openElems ∧ Same s1 s2) ∨
      (∃ pre post, s1.openElems = pre ++ head :: post ∧ head ∉ post ∧ St s1 s2 (pre ++ post))) :
    Same a s2 := by
  have ho1 : s1.openElems = a.openElems ++ head :: [] := by rw [st1.openElems, ho]
  rcases hrem with ⟨hnot, _⟩ | ⟨pre, post, heq, hpost, st⟩
  · exact absurd (by rw [ho1]; simp) hnot
  · rw [ho1] at heq
    obtain ⟨h1, h2⟩ := split_unique heq (by simp) hpost
    subst h1; subst h2
    exact ⟨hfr.trans (st1.fr.trans st.fr), by rw [st.openElems]; simp, st.af.trans (st1.af.trans haf)⟩

/-! ### what `stepInHead` does -/

/-- the outcome of `stepInHead tok` run from `s`: an arm that the `AfterHead` block never takes (and that
re-establishes the invariant), an arm that leaves stack and modes alone, raw text entered, `<template>` -/
inductive HeadOut (tok : Token) (s : State) (res : ProcessResult) (s' : State) : Prop
  | other (hd : afterHeadDeleg tok = false) (hp : StepPost tok res s')
  | same (st : Same s s') (hn : ∀ m, nextMode res m = m) (hr : ResOk tok res)
  | raw (r : Id) (name : Str) (k : H5V.Model.HtmlTok.RawKind)
      (ins : Inserted { s with origMode := some s.mode, mode := .text } s' r nsHtml name true)
      (hnew : NewOk ⟨nsHtml, name⟩) (hres : res = .toRawData k) (hc : isCharsTok tok = false)
  | tmpl (r : Id)
      (ins : Inserted { s with activeFormatting := s.activeFormatting ++ [.marker], framesetOk := false,
                               mode := .inTemplate, templateModes := s.templateModes ++ [.inTemplate] }
        s' r nsHtml "template".toList true)
      (hres : res = .done)

theorem stepPost_raw {tok : Token} {res : ProcessResult} {s s' : State} {r : Id} {name : Str}
    {k : H5V.Model.HtmlTok.RawKind} (ht : TI s) (ho : origOk s.mode = true)
    (ins : Inserted { s with origMode := some s.mode, mode := .text } s' r nsHtml name true)
    (hnew : NewOk ⟨nsHtml, name⟩) (hres : res = .toRawData k) (hc : isCharsTok tok = false) :
    StepPost tok res s' := by
  subst hres
  have hpre := preRoot_of_origOk ho
  have hroot := ht.s.root hpre
  have hi0 : HInv { s with origMode := some s.mode, mode := .text } :=
    ⟨ht.h.open_el, ht.h.open_tc, ht.h.af, ht.h.head, ht.h.form, ht.h.ctx⟩
  have hopen : s'.openElems = s.openElems ++ [r] := ins.open_true
  have hext : Ext s.dom s'.dom := ins.fr.ext
  have hmode : s'.mode = .text := ins.fr.mode
  have hhead : s'.headElem = s.headElem := ins.fr.headElem
  refine ⟨ins.hinv hi0, ?_, hc⟩
  show SInv s'.mode s'
  rw [hmode]
  refine
    { root := fun _ => by rw [hopen]; exact hroot.append_ext hext ht.h.open_el
      stack := ?_
      head := fun h => absurd h (by decide)
      headIn := ?_
      text := fun _ => ⟨s.mode, ins.fr.origMode, ho, ?_, ?_, fun h => by rw [hhead]; exact ht.s.head h⟩
      tableText := fun h => by cases h
      pending := fun _ => by
        rw [ins.fr.pendingTableText]; exact ht.s.pending (ne_inTableText_of_origOk ho)
      tmpl := ?_
      tmodes := by rw [ins.fr.templateModes]; exact ht.s.tmodes }
  · show ∃ t, s'.openElems.getLast? = some t ∧ (nm s'.dom t).ns = nsHtml
    exact ⟨r, by rw [hopen]; simp, by rw [ins.nm]⟩
  · rintro ⟨x, hx, hn⟩
    rw [hopen] at hx
    rcases List.mem_append.mp hx with hx | hx
    · rw [hhead]
      exact ht.s.headIn ⟨x, hx, by rw [← nm_ext hext (ht.h.open_el x hx)]; exact hn⟩
    · rw [List.mem_singleton.mp hx, ins.nm] at hn; exact absurd hn hnew.2
  · obtain ⟨r0, rest, hl, _⟩ := hroot
    rw [hopen, hl]; simp
  · rw [hopen, List.dropLast_concat]
    exact ht.s.stack.ext hext ht.h.open_el
  · have h0 : tcount s'.dom [r] = 0 := tcount_zero_of_not (by
      intro x hx; rw [List.mem_singleton.mp hx, ins.nm]; exact hnew.1)
    have hc : ctxTmpl s' = ctxTmpl s := (ctxTmpl_fr hi0 ins.fr).trans rfl
    have htm : s'.templateModes = s.templateModes := ins.fr.templateModes
    rw [hopen, tcount_append, tcount_ext hext ht.h.open_el, hc, htm, h0]
    exact ht.s.tmpl

theorem stepPost_tmpl {tok : Token} {res : ProcessResult} {s s' : State} {r : Id}
    (ht : TI s) (ho : origOk s.mode = true)
    (ins : Inserted { s with activeFormatting := s.activeFormatting ++ [.marker], framesetOk := false,
                             mode := .inTemplate, templateModes := s.templateModes ++ [.inTemplate] }
      s' r nsHtml "template".toList true)
    (hres : res = .done) : StepPost tok res s' := by
  subst hres
  have hpre := preRoot_of_origOk ho
  have hroot := ht.s.root hpre
  have hi0 : HInv { s with activeFormatting := s.activeFormatting ++ [.marker], framesetOk := false,
                           mode := .inTemplate, templateModes := s.templateModes ++ [.inTemplate] } := by
    refine ⟨ht.h.open_el, ht.h.open_tc, ?_, ht.h.head, ht.h.form, ht.h.ctx⟩
    intro h t hm
    rcases List.mem_append.mp hm with hm | hm
    · exact ht.h.af h t hm
    · simp at hm
  have hopen : s'.openElems = s.openElems ++ [r] := ins.open_true
  have hext : Ext s.dom s'.dom := ins.fr.ext
  have hmode : s'.mode = .inTemplate := ins.fr.mode
  have hhead : s'.headElem = s.headElem := ins.fr.headElem
  refine ⟨ins.hinv hi0, ?_, trivial⟩
  show SInv s'.mode s'
  rw [hmode]
  refine
    { root := fun _ => by rw [hopen]; exact hroot.append_ext hext ht.h.open_el
      stack := trivial
      head := fun h => absurd h (by decide)
      headIn := ?_
      text := fun h => by cases h
      tableText := fun h => by cases h
      pending := fun _ => by
        rw [ins.fr.pendingTableText]; exact ht.s.pending (ne_inTableText_of_origOk ho)
      tmpl := ?_
      tmodes := ?_ }
  · rintro ⟨x, hx, hn⟩
    rw [hopen] at hx
    rcases List.mem_append.mp hx with hx | hx
    · rw [hhead]
      exact ht.s.headIn ⟨x, hx, by rw [← nm_ext hext (ht.h.open_el x hx)]; exact hn⟩
    · rw [List.mem_singleton.mp hx, ins.nm] at hn; exact absurd hn (by decide)
  · have h0 : tcount s'.dom [r] = 1 := by
      unfold tcount; simp [isTmpl, ins.nm, tmplName]
    have hc : ctxTmpl s' = ctxTmpl s := (ctxTmpl_fr hi0 ins.fr).trans rfl
    have htm : s'.templateModes = s.templateModes ++ [.inTemplate] := ins.fr.templateModes
    rw [hopen, tcount_append, tcount_ext hext ht.h.open_el, hc, htm, h0, List.length_append]
    have := ht.s.tmpl
    simp only [List.length_cons, List.length_nil]
    omega
  · rw [ins.fr.templateModes]
    intro x hx
    rcases List.mem_append.mp hx with hx | hx
    · exact ht.s.tmodes x hx
    · rw [List.mem_singleton.mp hx]; rfl

theorem HeadOut.stepPost {tok : Token} {res : ProcessResult} {s s' : State} (ht : TI s)
    (ho : origOk s.mode = true) (h : HeadOut tok s res s') : StepPost tok res s' := by
  cases h with
  | other _ hp => exact hp
  | same st hn hr => exact StepPost.of_same ht st (hn _) hr
  | raw r name k ins hnew hres hc => exact stepPost_raw ht ho ins hnew hres hc
  | tmpl r ins hres => exact stepPost_tmpl ht ho ins hres

/-- the outcome seen from the state before `push(head)`, after `remove_from_stack(head)` -/
theorem HeadOut.unpush {tok : Token} {res : ProcessResult} {s s1 s2 : State} {head : Id}
    (hhead : IsEl s.dom head) (hd : afterHeadDeleg tok = true)
    (h : HeadOut tok { s with openElems := s.openElems ++ [head] } res s1)
    (hrem : (head ∉ s1.openElems ∧ Same s1 s2) ∨
      (∃ pre post, s1.openElems = pre ++ head :: post ∧ head ∉ post ∧ St s1 s2 (pre ++ post))) :
    HeadOut tok s res s2 := by
  cases h with
  | other hd' _ => rw [hd] at hd'; cases hd'
  | same st hn hr =>
    exact .same (same_unpush (a := s) (a0 := { s with openElems := s.openElems ++ [head] })
      ⟨rfl, rfl, rfl, rfl, rfl, rfl, rfl, rfl, rfl, Ext.refl _⟩ rfl rfl st hrem) hn hr
  | raw r name k ins hnew hres hc =>
    refine .raw r name k ?_ hnew hres hc
    exact Inserted.unpush (a := { s with origMode := some s.mode, mode := .text })
      (a0 := { s with openElems := s.openElems ++ [head], origMode := some s.mode, mode := .text })
      ⟨rfl, rfl, rfl, rfl, rfl, rfl, rfl, rfl, rfl, Ext.refl _⟩ rfl rfl rfl hhead ins hrem
  | tmpl r ins hres =>
    refine .tmpl r ?_ hres
    exact Inserted.unpush
      (a := { s with activeFormatting := s.activeFormatting ++ [.marker], framesetOk := false,
                     mode := .inTemplate, templateModes := s.templateModes ++ [.inTemplate] })
      (a0 := { s with openElems := s.openElems ++ [head], activeFormatting := s.activeFormatting ++ [.marker],
                      framesetOk := false, mode := .inTemplate, templateModes := s.templateModes ++ [.inTemplate] })
      ⟨rfl, rfl, rfl, rfl, rfl, rfl, rfl, rfl, rfl, Ext.refl _⟩ rfl rfl rfl hhead ins hrem

/-! ### closing a `template` -/

/-- `reset_insertion_mode` from a state satisfying the invariant of some mode: the invariant of the
resulting mode holds -/
theorem sat_reset_sinv {m : Mode} {s : State} (hi : HInv s) (hs : SInv m s) (hm : m ≠ .inTableText)
    (hr : Rooted s.dom s.openElems) :
    Sat resetInsertionMode s (fun m2 s' => QF s s' ∧ SInv m2 s' ∧ m2 ≠ .inTableText ∧ m2 ≠ .text) := by
  refine (sat_resetInsertionMode hi hs.tmodes hs.tmpl hs.headIn).mono ?_
  rintro m2 s' ⟨hq, rk⟩
  have hs' : SInv m s' := hs.of_qf hi hq
  have hr' : Rooted s'.dom s'.openElems := by rw [hq.openElems]; exact hr.ext hq.ext hi.open_el
  exact ⟨hq, hs'.chmode hm (fun _ => hr') rk.stack rk.head rk.notSpecial.1 rk.notSpecial.2.1,
    rk.notSpecial.2.1, rk.notSpecial.1⟩

/-- the state after the stack was cut below a `template`, the list of active formatting elements
cleared to the last marker and the template insertion mode popped -/
@[reducible] def tmplClosed (s1 : State) : State :=
  { s1 with activeFormatting := clearedAF s1.activeFormatting, templateModes := s1.templateModes.dropLast }

theorem sinv_afterTemplatePop {s s1 : State} {pre post : List Id} {x : Id} (ht : TI s)
    (ho : origOk s.mode = true) (heq : s.openElems = pre ++ x :: post) (hx : nm s.dom x = tmplName)
    (st : St s s1 pre) :
    HInv (tmplClosed s1) ∧ SInv .inBody (tmplClosed s1) ∧ Rooted (tmplClosed s1).dom (tmplClosed s1).openElems := by
  have hroot := ht.s.root (preRoot_of_origOk ho)
  have hne : pre ≠ [] := by
    rintro rfl
    obtain ⟨r0, rest, hl, hn⟩ := hroot
    rw [hl] at heq
    simp only [List.nil_append, List.cons.injEq] at heq
    rw [heq.1, hx] at hn
    exact absurd hn (by decide)
  have b : BStep s s1 := BStep.of_st ht.h hroot heq hne st
  have hsub : ∀ y ∈ pre, y ∈ s.openElems := fun y hy => by rw [heq]; exact List.mem_append_left _ hy
  have hi1 : HInv { s1 with activeFormatting := clearedAF s1.activeFormatting } :=
    b.hinv.withAF_sub _ (fun e he => mem_clearedAF he)
  have hi2 : HInv (tmplClosed s1) := ⟨hi1.open_el, hi1.open_tc, hi1.af, hi1.head, hi1.form, hi1.ctx⟩
  refine ⟨hi2, ?_, b.rooted⟩
  refine
    { root := fun _ => b.rooted
      stack := trivial
      head := fun h => absurd h (by decide)
      headIn := ?_
      text := fun h => by cases h
      tableText := fun h => by cases h
      pending := fun _ => by
        show s1.pendingTableText = []
        rw [b.pendingTableText]; exact ht.s.pending (ne_inTableText_of_origOk ho)
      tmpl := ?_
      tmodes := ?_ }
  · rintro ⟨y, hy, hn⟩
    show s1.headElem.isSome = true
    rw [b.headElem]
    have hy' : y ∈ pre := by rw [← st.openElems]; exact hy
    refine ht.s.headIn ⟨y, hsub y hy', ?_⟩
    rw [← nm_ext b.ext (ht.h.open_el y (hsub y hy'))]; exact hn
  · show tcount s1.dom s1.openElems + ctxTmpl (tmplClosed s1) ≤ s1.templateModes.dropLast.length
    have hc : ctxTmpl (tmplClosed s1) = ctxTmpl s :=
      (show ctxTmpl (tmplClosed s1) = ctxTmpl s1 from rfl).trans (ctxTmpl_fr ht.h st.fr)
    have h1 : tcount s1.dom s1.openElems = tcount s.dom pre := by
      rw [st.openElems]; exact tcount_ext st.fr.ext (ht.h.open_el.sub hsub)
    have h2 : 1 ≤ tcount s.dom (x :: post) := by
      unfold tcount; rw [List.countP_cons]; simp [isTmpl, hx]
    have h3 := ht.s.tmpl
    rw [heq, tcount_append] at h3
    rw [hc, h1, List.length_dropLast, st.fr.templateModes]
    omega
  · intro y hy
    have : y ∈ s1.templateModes := List.dropLast_subset _ hy
    rw [st.fr.templateModes] at this
    exact ht.s.tmodes y this

/-- the `</template>` end tag when a `template` is open -/
theorem sat_closeTemplate {s : State} (ht : TI s) (ho : origOk s.mode = true)
    (hex : ∃ x ∈ s.openElems, namedP s.dom "template".toList x = true) :
    Sat (do
      generateImpliedEndTags thoroughImpliedEnd
      expectToClose "template"
      clearActiveFormattingToMarker
      modS fun s => { s with templateModes := s.templateModes.dropLast }
      setMode (← resetInsertionMode)
      pure ProcessResult.done) s (fun res s' => res = .done ∧ HInv s' ∧ SInv s'.mode s') := by
  obtain ⟨pre', post, x, hl, hlast, hpx, hpost⟩ := split_last_sat (p := namedP s.dom "template".toList) hex
  obtain ⟨pre, rfl⟩ := List.getLast?_eq_some_iff.mp hlast
  have heq : s.openElems = pre ++ x :: post := by rw [hl]; simp
  have hxn : nm s.dom x = tmplName := namedP_tmpl hpx
  have hxs : thoroughImpliedEnd (nm s.dom x) = false := by rw [hxn]; decide
  refine (sat_generateImpliedEndTags_keep ht.h.open_el heq hxs).bind ?_
  rintro _ s1 ⟨post0, post1, hp, st, _⟩
  have hsub : ∀ z ∈ pre ++ x :: post0, z ∈ s.openElems := by
    intro z hz
    rw [heq, hp]
    rcases List.mem_append.mp hz with h | h
    · exact List.mem_append_left _ h
    · rcases List.mem_cons.mp h with h | h
      · exact List.mem_append_right _ (by rw [h]; exact List.mem_cons_self)
      · exact List.mem_append_right _ (List.mem_cons_of_mem _ (List.mem_append_left _ h))
  have hall1 : AllEl s1.dom s1.openElems := by
    rw [st.openElems]; exact (ht.h.open_el.sub hsub).ext st.fr.ext
  have hnm : ∀ z ∈ pre ++ x :: post0, nm s1.dom z = nm s.dom z :=
    fun z hz => (ht.h.open_el.sub hsub).nm_eq st.fr.ext hz
  unfold expectToClose
  refine (sat_expectToCloseS hall1 st.openElems ?_ ?_).bind ?_
  · unfold namedP; rw [hnm x (by simp)]; exact hpx
  · intro y hy
    unfold namedP; rw [hnm y (by simp [hy])]
    exact hpost y (by rw [hp]; exact List.mem_append_left _ hy)
  rintro _ s2 st2
  have st' : St s s2 pre := ⟨st.fr.trans st2.fr, st2.openElems, st2.af.trans st.af⟩
  refine sat_clearActiveFormattingToMarker.bind ?_
  rintro _ s3 rfl
  refine sat_modS_bind ?_
  obtain ⟨hi2, hs2, hr2⟩ := sinv_afterTemplatePop ht ho heq hxn st'
  refine (sat_reset_sinv hi2 hs2 (by decide) hr2).bind ?_
  rintro m s4 ⟨hq, hs4, _⟩
  refine sat_setMode.bind ?_
  rintro _ s5 rfl
  exact sat_pure ⟨rfl, (hi2.of_qf hq).withMode m, hs4.withMode m⟩

theorem hasNamed_ex {d : Dom} {l : List Id} {name : Str} (h : hasNamed d l name = true) :
    ∃ x ∈ l, namedP d name x = true := by
  unfold hasNamed at h
  rw [List.any_eq_true] at h
  exact h

/-- the EOF arm of `InTemplate` -/
theorem inTemplateEof_spec : TemplateEofSpec := by
  intro s ht ho
  unfold inTemplateEof
  refine (sat_inHtmlElemNamed ht.h.open_el).bind ?_
  rintro b s1 ⟨rfl, hq1⟩
  by_cases hb : (!hasNamed s.dom s.openElems "template".toList) = true
  · rw [if_pos hb]
    exact sat_pure (StepPost.of_qf ht hq1 rfl trivial)
  rw [if_neg hb]
  have hhas : hasNamed s.dom s.openElems "template".toList = true := by simpa using hb
  obtain ⟨pre', post, x, hl, hlast, hpx, hpost⟩ :=
    split_last_sat (p := namedP s.dom "template".toList) (hasNamed_ex hhas)
  obtain ⟨pre, rfl⟩ := List.getLast?_eq_some_iff.mp hlast
  have heq : s.openElems = pre ++ x :: post := by rw [hl]; simp
  have hxn : nm s.dom x = tmplName := namedP_tmpl hpx
  refine sat_unexpected.bind ?_
  rintro _ s2 ⟨-, hq2⟩
  have hq := hq1.trans hq2
  have hall2 : AllEl s2.dom s2.openElems := by rw [hq.openElems]; exact ht.h.open_el.ext hq.ext
  unfold popUntilNamed
  refine (sat_popUntilNamedS (pre := pre) (x := x) (post := post) hall2 (by rw [hq.openElems]; exact heq) ?_ ?_).bind ?_
  · unfold namedP; rw [ht.h.open_el.nm_eq hq.ext (by rw [heq]; simp)]; exact hpx
  · intro y hy
    unfold namedP; rw [ht.h.open_el.nm_eq hq.ext (by rw [heq]; simp [hy])]
    exact hpost y hy
  rintro _ s3 ⟨st3, -⟩
  have st' : St s s3 pre := hq.same.st_left st3
  refine sat_clearActiveFormattingToMarker.bind ?_
  rintro _ s4 rfl
  refine sat_modS_bind ?_
  obtain ⟨hi2, hs2, hr2⟩ := sinv_afterTemplatePop ht ho heq hxn st'
  refine (sat_reset_sinv hi2 hs2 (by decide) hr2).bind ?_
  rintro m s5 ⟨hq5, hs5, hm5⟩
  refine sat_setMode.bind ?_
  rintro _ s6 rfl
  have hi5 : HInv s5 := hi2.of_qf hq5
  have hr5 : Rooted s5.dom s5.openElems := by rw [hq5.openElems]; exact hr2.ext hq5.ext hi2.open_el
  refine (sat_reset_sinv (hi5.withMode m) (hs5.withMode m) hm5.1 hr5).bind ?_
  rintro m2 s7 ⟨hq7, hs7, hm7⟩
  exact sat_pure ⟨(hi5.withMode m).of_qf hq7, hs7, rfl, hm7.2⟩

/-! ### the arms of `stepInHead` -/

/-- `</head>` and "anything else" in `InHead`: the popped element is not the root -/
theorem afterHead_of_pop {s s1 : State} (ht : TI s) (hm : s.mode = .inHead)
    (st : St s s1 s.openElems.dropLast) : HInv s1 ∧ SInv .afterHead s1 := by
  have hs : SInv .inHead s := hm ▸ ht.s
  have hroot := hs.root rfl
  have hne0 : s.openElems ≠ [] := by obtain ⟨r0, rest, hl, _⟩ := hroot; rw [hl]; simp
  obtain ⟨h0, hlast⟩ := getLast?_of_ne_nil hne0
  have heq : s.openElems = s.openElems.dropLast ++ [h0] := dropLast_append_getLast hlast
  have hne : s.openElems.dropLast ≠ [] := by
    intro hnil
    rw [hnil] at heq
    obtain ⟨x, hx, hxn⟩ : ∃ x ∈ s.openElems, nm s.dom x = headName := hs.stack
    obtain ⟨r0, rest, hl, hrn⟩ := hroot
    rw [heq] at hx hl
    simp only [List.nil_append, List.mem_singleton] at hx
    simp only [List.nil_append, List.cons.injEq] at hl
    rw [hx, hl.1, hrn] at hxn
    exact absurd hxn (by decide)
  have b : BStep s s1 := BStep.of_st ht.h hroot heq hne st
  refine ⟨b.hinv, ?_⟩
  exact
    { root := fun _ => b.rooted
      stack := trivial
      head := fun _ => by rw [b.headElem]; exact hs.head rfl
      headIn := fun _ => by rw [b.headElem]; exact hs.head rfl
      text := fun h => by cases h
      tableText := fun h => by cases h
      pending := fun _ => by rw [b.pendingTableText]; exact hs.pending (by decide)
      tmpl := by
        rw [ctxTmpl_fr ht.h st.fr, b.templateModes]
        exact Nat.le_trans (Nat.add_le_add_right b.tcnt _) hs.tmpl
      tmodes := by rw [b.templateModes]; exact hs.tmodes }

/-- `<noscript>` with scripting disabled, in `InHead` -/
theorem noscript_post {tok : Token} {s s1 : State} {r : Id} {name : Str} (ht : TI s) (hm : s.mode = .inHead)
    (ins : Inserted s s1 r nsHtml name true) (hnew : NewOk ⟨nsHtml, name⟩) :
    StepPost tok .done { s1 with mode := .inHeadNoscript } := by
  have hs : SInv .inHead s := hm ▸ ht.s
  have hroot := hs.root rfl
  have b : BStep s s1 := BStep.of_inserted ht.h hroot ins hnew
  have hs1 : SInv .inHead s1 := hs.of_bstep ht.h b rfl (Keeps.of_inserted ins)
  have hstack : ModeStack s1.dom .inHeadNoscript s1.openElems := by
    show (∃ x ∈ s1.openElems.dropLast, nm s1.dom x = headName) ∧
      ∃ t, s1.openElems.getLast? = some t ∧ (nm s1.dom t).ns = nsHtml
    rw [ins.open_true, List.dropLast_concat]
    obtain ⟨x, hx, hxn⟩ : ∃ x ∈ s.openElems, nm s.dom x = headName := hs.stack
    exact ⟨⟨x, hx, by rw [nm_ext b.ext (ht.h.open_el x hx)]; exact hxn⟩, r, by simp, by rw [ins.nm]⟩
  have hs2 : SInv .inHeadNoscript s1 :=
    hs1.chmode (by decide) (fun _ => b.rooted) hstack (fun _ => hs1.head rfl) (by decide) (by decide)
  exact ⟨b.hinv.withMode _, hs2.withMode _, trivial⟩

theorem sat_shouldAttachDeclarativeShadow {tag : Tag} {s : State} (hp : PlaceOk s none) :
    Sat (shouldAttachDeclarativeShadow tag) s (fun _ s' => QF s s') := by
  unfold shouldAttachDeclarativeShadow
  refine (sat_appropriatePlaceForInsertion hp).bind ?_
  intro loc s1 hq1
  dsimp only
  refine (sat_sinkBool_const (apply_allow _ _)).bind ?_
  rintro allow s2 ⟨-, hq2⟩
  refine sat_getS_bind ?_
  exact sat_pure (hq1.trans hq2)

/-- the insertion part of the `<template>` start tag: exactly one new element ends up pushed
(rules.rs:276/278 are not reached: the stack is not empty, and `context_elem` is tested before) -/
theorem sat_templateInsert {tag : Tag} {a : State} (hia : HInv a) (hra : Rooted a.dom a.openElems) :
    Sat (do
      if ← shouldAttachDeclarativeShadow tag then
        let s ← getS
        let shadowHost ← match s.openElems.getLast? with
          | some h => pure h
          | none => panicAt "unwrap-none" "rules.rs:276" "open_elems.last().unwrap()"
        let shadowHost ←
          if s.contextElem.isSome && s.openElems.length == 1 then
            match s.contextElem with
            | some c => pure c
            | none => panicAt "unwrap-none" "rules.rs:278" "context_elem unwrap"
          else pure shadowHost
        let template ← insertForeignElement tag nsHtml true
        let succeeded ← sinkBool (.attachDeclarativeShadow shadowHost template tag.attrs)
        if !succeeded then
          let _ ← pop
          let _ ← insertElementFor tag
      else
        let _ ← insertElementFor tag
      pure ProcessResult.done : M ProcessResult) a
      (fun res s' => res = .done ∧ ∃ r, Inserted a s' r nsHtml tag.name true) := by
  have hpa : PlaceOk a none := PlaceOk.of_hinv hia hra
  refine (sat_shouldAttachDeclarativeShadow hpa).bind ?_
  intro b s1 hq1
  dsimp only
  have hi1 : HInv s1 := hia.of_qf hq1
  have hr1 : Rooted s1.dom s1.openElems := by rw [hq1.openElems]; exact hra.ext hq1.ext hia.open_el
  by_cases hb : b = true
  · rw [if_pos hb]
    refine sat_getS_bind ?_
    have htail : ∀ (shadowHost : Id),
        Sat (do
          let template ← insertForeignElement tag nsHtml true
          let succeeded ← sinkBool (SinkOp.attachDeclarativeShadow shadowHost template tag.attrs)
          if (!succeeded) = true then do
              let _ ← pop
              let _ ← insertElementFor tag
              pure ProcessResult.done
            else pure ProcessResult.done) s1
          (fun res s' => res = .done ∧ ∃ r, Inserted a s' r nsHtml tag.name true) := by
      intro shadowHost
      refine (sat_insertForeignElement (PlaceOk.of_hinv hi1 hr1)).bind ?_
      intro t s2 ins1
      refine (sat_sinkBool_const (apply_attach _ _ _ _)).bind ?_
      rintro succ s3 ⟨-, hq3⟩
      have ins3 : Inserted s1 s3 t nsHtml tag.name true := ins1.of_qf_right hq3
      by_cases hs : (!succ) = true
      · rw [if_pos hs]
        have hl3 : s3.openElems.getLast? = some t := by rw [ins3.open_true]; simp
        refine (sat_pop hl3).bind ?_
        rintro _ s4 ⟨-, st4⟩
        have hi3 : HInv s3 := ins3.hinv hi1
        have hi4 : HInv s4 := hi3.of_st st4 (fun x hx => List.dropLast_subset _ hx)
        have hr4 : Rooted s4.dom s4.openElems := by
          rw [st4.openElems, ins3.open_true, List.dropLast_concat]
          exact hr1.ext (ins3.fr.ext.trans st4.fr.ext) hi1.open_el
        refine (sat_insertElementFor (PlaceOk.of_hinv hi4 hr4)).bind ?_
        intro r s5 ins5
        exact sat_pure ⟨rfl, r, (ins3.pop_reinsert st4 ins5).of_qf_left hq1⟩
      · rw [if_neg hs]
        exact sat_pure ⟨rfl, t, ins3.of_qf_left hq1⟩
    obtain ⟨top, htop⟩ := getLast?_of_ne_nil (l := s1.openElems)
      (by obtain ⟨r0, rest, hl, _⟩ := hr1; rw [hl]; simp)
    simp only [htop]
    refine Sat.bind (Q := fun _ s' => s1 = s') (sat_pure rfl) ?_
    rintro sh s1' rfl
    by_cases hc : (s1.contextElem.isSome && s1.openElems.length == 1) = true
    · rw [if_pos hc]
      cases hctx : s1.contextElem with
      | none => rw [hctx] at hc; simp at hc
      | some c =>
        dsimp only
        refine Sat.bind (Q := fun _ s' => s1 = s') (sat_pure rfl) ?_
        rintro sh2 s1'' rfl
        exact htail sh2
    · rw [if_neg hc]
      refine Sat.bind (Q := fun _ s' => s1 = s') (sat_pure rfl) ?_
      rintro sh2 s1'' rfl
      exact htail sh2
  · rw [if_neg hb]
    refine (sat_insertElementFor (PlaceOk.of_hinv hi1 hr1)).bind ?_
    intro r s2 ins
    exact sat_pure ⟨rfl, r, ins.of_qf_left hq1⟩

/-! ### `stepInHead` -/

theorem stepInHead_explicit (tok : Token) (s : State) (ht : TI s) (ho : origOk s.mode = true)
    (hd : s.mode = .inHead ∨ headDeleg tok = true) : Sat (stepInHead tok) s (HeadOut tok s) := by
  have hpre := preRoot_of_origOk ho
  have hroot := ht.rooted hpre
  have hplace := ht.place hpre
  obtain ⟨top, htop⟩ := getLast?_of_ne_nil (l := s.openElems)
    (by obtain ⟨r0, rest, hl, _⟩ := hroot; rw [hl]; simp)
  have hmode : headDeleg tok = false → s.mode = .inHead := fun h1 => hd.resolve_right (by rw [h1]; decide)
  -- "anything else"
  have helse : headDeleg tok = false → afterHeadDeleg tok = false →
      Sat (do let _ ← pop; pure (ProcessResult.reprocess .afterHead tok)) s (HeadOut tok s) := by
    intro h1 h2
    refine (sat_pop htop).bind ?_
    rintro _ s1 ⟨-, st⟩
    obtain ⟨hi1, hs1⟩ := afterHead_of_pop ht (hmode h1) st
    exact sat_pure (.other h2 ⟨hi1, hs1, rfl, by decide⟩)
  unfold stepInHead
  cases tok with
  | chars st text =>
    cases st with
    | notSplit => exact sat_pure (.same (Same.refl s) (fun _ => rfl) trivial)
    | whitespace =>
      refine (sat_appendText hplace).mono ?_
      rintro res s' ⟨rfl, hq⟩
      exact .same hq.same (fun _ => rfl) trivial
    | notWhitespace => exact helse rfl rfl
  | comment text =>
    refine (sat_appendComment hplace).mono ?_
    rintro res s' ⟨rfl, hq⟩
    exact .same hq.same (fun _ => rfl) trivial
  | nullChar => exact helse rfl rfl
  | eof => exact helse rfl rfl
  | tag tag =>
    dsimp only
    -- `<html>`
    by_cases h1 : tag.isStart ["html"] = true
    · rw [if_pos h1]
      refine (sat_inBodyHtml ht.h hroot).mono ?_
      rintro res s' ⟨rfl, hq⟩
      exact .same hq.same (fun _ => rfl) trivial
    rw [if_neg h1]
    -- `<base> <basefont> <bgsound> <link> <meta>`
    by_cases h2 : tag.isStart ["base", "basefont", "bgsound", "link", "meta"] = true
    · rw [if_pos h2]
      refine (sat_insertAndPopElementFor hplace).bind ?_
      intro r s1 ins
      have finD : ∀ (s2 : State), s1 = s2 →
          Sat (pure ProcessResult.doneAckSelfClosing : M ProcessResult) s2 (HeadOut (.tag tag) s) := by
        rintro s2 rfl
        exact sat_pure (.same ins.same (fun _ => rfl) trivial)
      have finE : ∀ (c : Str) (s2 : State), s1 = s2 →
          Sat (pure (ProcessResult.encodingIndicator c) : M ProcessResult) s2 (HeadOut (.tag tag) s) := by
        rintro c s2 rfl
        exact sat_pure (.same ins.same (fun _ => rfl) trivial)
      repeat' split
      all_goals first
        | exact finD _ rfl
        | exact finE _ _ rfl
        | (refine sat_extractEncoding.bind ?_
           rintro o s2 hs2
           split
           · exact finE _ _ hs2.symm
           · exact finD _ hs2.symm)
    rw [if_neg h2]
    -- `<title>`
    by_cases h3 : tag.isStart ["title"] = true
    · rw [if_pos h3]
      refine (sat_parseRawData hplace).mono ?_
      rintro res s' ⟨rfl, s1, r, ins, rfl⟩
      exact .raw r tag.name _ ins.toText
        (newOk_of_isOneOf (isStart_name h3) (by decide) (by decide)) rfl rfl
    rw [if_neg h3]
    -- `<noframes> <style> <noscript>`
    by_cases h4 : tag.isStart ["noframes", "style", "noscript"] = true
    · rw [if_pos h4]
      refine sat_getS_bind ?_
      have hnew : NewOk ⟨nsHtml, tag.name⟩ := newOk_of_isOneOf (isStart_name h4) (by decide) (by decide)
      by_cases hc : (!s.opts.scriptingEnabled && isName tag.name "noscript") = true
      · rw [if_pos hc]
        have hname : tag.name = "noscript".toList := by
          simp only [Bool.and_eq_true] at hc; exact isName_eq hc.2
        obtain ⟨hd1, hd2⟩ := deleg_false_of_name (tag := tag) (by rw [hname]; decide) (by rw [hname]; decide)
        refine (sat_insertElementFor hplace).bind ?_
        intro r s1 ins
        refine sat_setMode.bind ?_
        rintro _ s2 rfl
        exact sat_pure (.other hd2 (noscript_post ht (hmode hd1) ins hnew))
      · rw [if_neg hc]
        refine (sat_parseRawData hplace).mono ?_
        rintro res s' ⟨rfl, s1, r, ins, rfl⟩
        exact .raw r tag.name _ ins.toText hnew rfl rfl
    rw [if_neg h4]
    -- `<script>`
    by_cases h5 : tag.isStart ["script"] = true
    · rw [if_pos h5]
      refine sat_createElementWithFlags.bind ?_
      intro elem s1 hc
      refine sat_isFragment.bind ?_
      rintro b s1' ⟨-, hs1'⟩
      rw [hs1']
      have htail : ∀ s2, QF s1 s2 →
          Sat (do
            insertAppropriately (NodeOrText.node elem) none
            push elem
            toRawTextMode H5V.Model.HtmlTok.RawKind.scriptData) s2 (HeadOut (.tag tag) s) := by
        intro s2 hq2
        have hq : QF s s2 := hc.qf.trans hq2
        refine (sat_insertAppropriately (hplace.of_qf hq)).bind ?_
        intro _ s3 hq3
        refine sat_push.bind ?_
        rintro _ s4 rfl
        refine sat_toRawTextMode.mono ?_
        rintro res s5 ⟨rfl, rfl⟩
        have hq' : QF s s3 := hq.trans hq3
        have hel : IsEl s3.dom elem := hc.el.ext (hq2.trans hq3).ext
        have hnm : nm s3.dom elem = ⟨nsHtml, "script".toList⟩ := by
          rw [nm_ext (hq2.trans hq3).ext hc.el]; exact hc.nm
        have ins : Inserted s { s3 with openElems := s3.openElems ++ [elem] } elem nsHtml "script".toList true :=
          ⟨hq'.fr.withOpen _, hq'.activeFormatting, by simp [hq'.openElems], fun x hx => hc.ne hx, hel, hnm,
           fun hn => by rw [hnm] at hn; exact absurd hn (by decide)⟩
        exact .raw elem _ _ ins.toText ⟨by decide, by decide⟩ rfl rfl
      by_cases hb : b = true
      · rw [if_pos hb]
        refine (sat_sinkUnit_total ⟨_, _, apply_mark _ _⟩).bind ?_
        intro _ s2 hq2
        exact htail s2 hq2
      · rw [if_neg hb]
        exact htail s1 (QF.refl _)
    rw [if_neg h5]
    -- `</head>`
    by_cases h6 : tag.isEnd ["head"] = true
    · rw [if_pos h6]
      obtain ⟨hd1, hd2⟩ := deleg_false_of_end (isEnd_kind h6) (isOneOf_false_of (isEnd_name h6) (by decide))
      refine (sat_pop htop).bind ?_
      rintro _ s1 ⟨-, st⟩
      obtain ⟨hi1, hs1⟩ := afterHead_of_pop ht (hmode hd1) st
      refine sat_setMode.bind ?_
      rintro _ s2 rfl
      exact sat_pure (.other hd2 ⟨hi1.withMode _, hs1.withMode _, trivial⟩)
    rw [if_neg h6]
    -- `</body> </html> </br>`
    by_cases h7 : tag.isEnd ["body", "html", "br"] = true
    · rw [if_pos h7]
      obtain ⟨hd1, hd2⟩ := deleg_false_of_end (isEnd_kind h7) (isOneOf_false_of (isEnd_name h7) (by decide))
      exact helse hd1 hd2
    rw [if_neg h7]
    -- `<template>`
    by_cases h8 : tag.isStart ["template"] = true
    · rw [if_pos h8]
      have hname : tag.name = "template".toList := by
        obtain ⟨x, hx, hn⟩ := isOneOf_cases (isStart_name h8)
        simp only [List.mem_cons, List.not_mem_nil, or_false] at hx
        rw [hn, hx]
      unfold pushMarker setFramesetOk setMode
      refine sat_modS_bind ?_
      refine sat_modS_bind ?_
      refine sat_modS_bind ?_
      refine sat_modS_bind ?_
      have hia : HInv { s with activeFormatting := s.activeFormatting ++ [.marker], framesetOk := false, mode := .inTemplate, templateModes := s.templateModes ++ [.inTemplate] } := by
        refine ⟨ht.h.open_el, ht.h.open_tc, ?_, ht.h.head, ht.h.form, ht.h.ctx⟩
        intro h t hm
        rcases List.mem_append.mp hm with hm | hm
        · exact ht.h.af h t hm
        · simp at hm
      refine (sat_templateInsert (tag := tag) hia hroot).mono ?_
      rintro res s' ⟨rfl, r, ins⟩
      rw [hname] at ins
      exact .tmpl r ins rfl
    rw [if_neg h8]
    -- `</template>`
    by_cases h9 : tag.isEnd ["template"] = true
    · rw [if_pos h9]
      refine (sat_inHtmlElemNamed ht.h.open_el).bind ?_
      rintro b s1 ⟨rfl, hq1⟩
      by_cases hb : (!hasNamed s.dom s.openElems "template".toList) = true
      · rw [if_pos hb]
        refine sat_unexpected.bind ?_
        rintro _ s2 ⟨-, hq2⟩
        exact sat_pure (.same (hq1.trans hq2).same (fun _ => rfl) trivial)
      · rw [if_neg hb]
        have hhas : hasNamed s.dom s.openElems "template".toList = true := by simpa using hb
        obtain ⟨x, hx, hpx⟩ := hasNamed_ex hhas
        have ht1 : TI s1 := ht.of_qf hq1
        refine (sat_closeTemplate ht1 (by rw [hq1.mode]; exact ho)
          ⟨x, by rw [hq1.openElems]; exact hx,
            by unfold namedP; rw [nm_ext hq1.ext (ht.h.open_el x hx)]; exact hpx⟩).mono ?_
        rintro res s' ⟨rfl, hi', hs'⟩
        exact .other (afterHeadDeleg_end (isEnd_kind h9)) ⟨hi', hs', trivial⟩
    rw [if_neg h9]
    -- `<head>`, any other end tag
    by_cases h10 : (tag.isStart ["head"] || tag.kind == H5V.Model.HtmlTok.TagKind.endTag) = true
    · rw [if_pos h10]
      refine sat_unexpected.mono ?_
      rintro res s' ⟨rfl, hq⟩
      exact .same hq.same (fun _ => rfl) trivial
    rw [if_neg h10]
    -- anything else
    have hns : tag.isStart delegNames = false := by
      cases hh : tag.isStart delegNames with
      | false => rfl
      | true => rcases deleg_cases hh with h | h | h | h | h <;> contradiction
    exact helse (by rw [headDeleg_tag, hns]; simpa using h9) (by rw [afterHeadDeleg_tag]; exact hns)

theorem stepInHead_spec : HeadSpec := by
  intro tok s ht ho hd
  exact (stepInHead_explicit tok s ht ho hd).mono (fun res s' h => h.stepPost ht ho)

/-! ### `AfterHead`: `push(head); step(InHead, token); remove_from_stack(head)` -/

theorem afterHeadBlock_spec : AfterHeadBlockSpec := by
  intro tok head s ht hm hh hd
  have hs : SInv .afterHead s := hm ▸ ht.s
  have hroot := hs.root rfl
  obtain ⟨hhel, hhnm⟩ := ht.h.head head hh
  refine sat_push.bind ?_
  rintro _ s0 rfl
  have hi0 : HInv { s with openElems := s.openElems ++ [head] } := by
    refine ⟨?_, ?_, ht.h.af, ht.h.head, ht.h.form, ht.h.ctx⟩
    · intro x hx
      rcases List.mem_append.mp hx with hx | hx
      · exact ht.h.open_el x hx
      · rw [List.mem_singleton.mp hx]; exact hhel
    · intro x hx
      rcases List.mem_append.mp hx with hx | hx
      · exact ht.h.open_tc x hx
      · rw [List.mem_singleton.mp hx]
        intro hn
        have hn' : nm s.dom head = tmplName := hn
        rw [hhnm] at hn'; exact absurd hn' (by decide)
  have hs0 : SInv .afterHead { s with openElems := s.openElems ++ [head] } :=
    { root := fun _ => hroot.append_ext (Ext.refl _) ht.h.open_el
      stack := trivial
      head := fun _ => by show s.headElem.isSome = true; rw [hh]; rfl
      headIn := fun _ => by show s.headElem.isSome = true; rw [hh]; rfl
      text := fun h => by cases h
      tableText := fun h => by cases h
      pending := fun _ => hs.pending (by decide)
      tmpl := by
        show tcount s.dom (s.openElems ++ [head]) + ctxTmpl s ≤ s.templateModes.length
        have h0 : tcount s.dom [head] = 0 := tcount_zero_of_not (by
          intro x hx; rw [List.mem_singleton.mp hx, hhnm]; decide)
        rw [tcount_append, h0]
        exact hs.tmpl
      tmodes := hs.tmodes }
  have hs0' : ∀ m, m = Mode.afterHead → SInv m { s with openElems := s.openElems ++ [head] } := by
    rintro m rfl; exact hs0
  have ht0 : TI { s with openElems := s.openElems ++ [head] } := ⟨hi0, hs0' _ hm⟩
  have hdel : headDeleg tok = true := by
    cases tok with
    | tag tag =>
      rw [afterHeadDeleg_tag] at hd
      rw [headDeleg_tag, hd]; rfl
    | _ => cases hd
  refine (stepInHead_explicit tok _ ht0 (by show origOk s.mode = true; rw [hm]; rfl) (Or.inr hdel)).bind ?_
  intro res s1 hout
  refine sat_removeFromStack.bind ?_
  intro _ s2 hrem
  refine sat_pure ?_
  exact (hout.unpush hhel hd hrem).stepPost ht (by rw [hm]; rfl)

end H5V.Lemmas.TBSafe
