import H5V.Model.XmlTBH
/-!
The namespace resolver of `H5V.Model.XmlTB` delivers attribute lists without duplicate keys
(`Dom.attrKeysNodup`, what `create_element` demands) — provided no two *unprefixed*, non-declaration
attributes of the tag token have the same local name (`TagOk`; the tokenizer's duplicate test
guarantees it).  Prefixed attributes are de-duplicated by the tree builder itself
(`check_duplicate_attr`).
-/
namespace H5V.Lemmas.XmlTBH
open H5V.Model.XmlTB (RName RAttr QName Tag TbCfg NsMap bindQName bindAttrs isDeclLike findUri)
open H5V.Model.XmlTBH (toAttr toQual)
open H5V.Model.Dom (Dom)

/-- the local names of the unprefixed attributes -/
def unprefLocs (l : List RAttr) : List (List Char) :=
  (l.filter (fun a => a.name.pfx.isNone)).map (·.name.loc)

/-- the attribute list of a tag token as the tree builder assumes it: no two unprefixed attributes that
are not namespace declarations have the same local name -/
def TagOk (cfg : TbCfg) (t : Tag) : Prop :=
  (unprefLocs (t.attrs.filter (fun a => !isDeclLike cfg a))).Nodup

instance (cfg : TbCfg) (t : Tag) : Decidable (TagOk cfg t) := by unfold TagOk; infer_instance

theorem bindQName_pfx (stack : List NsMap) (cur : NsMap) (n : RName) :
    (bindQName stack cur n).1.pfx = n.pfx ∧ (bindQName stack cur n).1.loc = n.loc := by
  unfold bindQName
  split <;> exact ⟨rfl, rfl⟩

/-- a bound attribute is unprefixed, in no namespace, with a local name from `U` — or prefixed with an
expanded name not in `present` -/
def OKA (present : List (List Char × List Char)) (U : List (List Char)) (as : List H5V.Model.XmlTB.Attr) : Prop :=
  ∀ a ∈ as, (a.name.pfx = none ∧ a.name.ns = [] ∧ a.name.loc ∈ U) ∨
    (a.name.pfx ≠ none ∧ (a.name.ns, a.name.loc) ∉ present)

theorem attrKey_toAttr (a : H5V.Model.XmlTB.Attr) :
    Dom.attrKey (toAttr a) = if a.name.ns = [] then (a.name.pfx, [], a.name.loc) else (none, a.name.ns, a.name.loc) := rfl

theorem not_contains_of_forall {k : Option (List Char) × List Char × List Char}
    {l : List H5V.Model.Dom.Attr} (h : ∀ b ∈ l, Dom.attrKey b ≠ k) : (l.map Dom.attrKey).contains k = false := by
  cases hc : (l.map Dom.attrKey).contains k with
  | false => rfl
  | true =>
    rw [List.contains_iff_mem] at hc
    obtain ⟨b, hb, rfl⟩ := List.mem_map.mp hc
    exact absurd rfl (h b hb)

theorem bindAttrs_ok (stack : List NsMap) (cur : NsMap) : ∀ (l : List RAttr) (present : List (List Char × List Char)),
    (unprefLocs l).Nodup →
    OKA present (unprefLocs l) (bindAttrs stack cur present l).1 ∧
    Dom.attrKeysNodup ((bindAttrs stack cur present l).1.map toAttr) = true := by
  intro l
  induction l with
  | nil => intro present _; exact ⟨fun a ha => by simp [bindAttrs] at ha, rfl⟩
  | cons a rest ih =>
    intro present hnd
    cases hp : a.name.pfx with
    | none =>
      have hU : unprefLocs (a :: rest) = a.name.loc :: unprefLocs rest := by
        simp [unprefLocs, hp]
      rw [hU] at hnd ⊢
      obtain ⟨hnot, hnd'⟩ := List.nodup_cons.mp hnd
      obtain ⟨ih1, ih2⟩ := ih present hnd'
      have hb : (bindAttrs stack cur present (a :: rest)).1 =
          ⟨⟨none, [], a.name.loc⟩, a.value⟩ :: (bindAttrs stack cur present rest).1 := by
        rw [bindAttrs]; simp only [hp]
      rw [hb]
      refine ⟨?_, ?_⟩
      · intro x hx
        rcases List.mem_cons.mp hx with rfl | hx
        · exact Or.inl ⟨rfl, rfl, List.mem_cons_self⟩
        · rcases ih1 x hx with ⟨h1, h2, h3⟩ | h
          · exact Or.inl ⟨h1, h2, List.mem_cons_of_mem _ h3⟩
          · exact Or.inr h
      · simp only [List.map_cons, Dom.attrKeysNodup, Bool.and_eq_true, Bool.not_eq_eq_eq_not, Bool.not_true]
        refine ⟨not_contains_of_forall ?_, ih2⟩
        intro b hb'
        obtain ⟨x, hx, rfl⟩ := List.mem_map.mp hb'
        rw [attrKey_toAttr, attrKey_toAttr]
        simp only [if_true]
        rcases ih1 x hx with ⟨h1, h2, h3⟩ | ⟨h1, _⟩
        · simp only [h2, if_true, h1]
          intro he
          simp only [Prod.mk.injEq, true_and] at he
          exact hnot (he ▸ h3)
        · by_cases hns : x.name.ns = []
          · simp only [hns, if_true]
            intro he
            simp only [Prod.mk.injEq] at he
            exact h1 he.1
          · simp only [hns, if_false]
            intro he
            simp only [Prod.mk.injEq] at he
            exact hns he.2.1
    | some pf =>
      have hU : unprefLocs (a :: rest) = unprefLocs rest := by
        simp [unprefLocs, hp]
      rw [hU] at hnd ⊢
      obtain ⟨hq1, hq2⟩ := bindQName_pfx stack cur a.name
      generalize hq : bindQName stack cur a.name = qe at hq1 hq2
      obtain ⟨q, e⟩ := qe
      simp only at hq1 hq2
      by_cases hpres : present.contains (q.ns, q.loc) = true
      · have hb : (bindAttrs stack cur present (a :: rest)).1 = (bindAttrs stack cur present rest).1 := by
          rw [bindAttrs]; simp only [hp, hq, hpres, if_true]
        rw [hb]
        exact ih present hnd
      · have hb : (bindAttrs stack cur present (a :: rest)).1 =
            ⟨q, a.value⟩ :: (bindAttrs stack cur ((q.ns, q.loc) :: present) rest).1 := by
          rw [bindAttrs]; simp only [hp, hq, hpres]; rfl
        rw [hb]
        obtain ⟨ih1, ih2⟩ := ih ((q.ns, q.loc) :: present) hnd
        have hqp : q.pfx ≠ none := by rw [hq1, hp]; simp
        have hnm : (q.ns, q.loc) ∉ present := by
          intro hm; exact hpres (List.contains_iff_mem.mpr hm)
        refine ⟨?_, ?_⟩
        · intro x hx
          rcases List.mem_cons.mp hx with rfl | hx
          · exact Or.inr ⟨hqp, hnm⟩
          · rcases ih1 x hx with h | ⟨h1, h2⟩
            · exact Or.inl h
            · exact Or.inr ⟨h1, fun hm => h2 (List.mem_cons_of_mem _ hm)⟩
        · simp only [List.map_cons, Dom.attrKeysNodup, Bool.and_eq_true, Bool.not_eq_eq_eq_not, Bool.not_true]
          refine ⟨not_contains_of_forall ?_, ih2⟩
          intro b hb'
          obtain ⟨x, hx, rfl⟩ := List.mem_map.mp hb'
          rw [attrKey_toAttr, attrKey_toAttr]
          show (if x.name.ns = [] then _ else _) ≠ (if q.ns = [] then (q.pfx, [], q.loc) else (none, q.ns, q.loc))
          rcases ih1 x hx with ⟨h1, h2, _⟩ | ⟨_, h2⟩
          · simp only [h2, if_true, h1]
            by_cases hns : q.ns = []
            · simp only [hns, if_true]
              intro he
              simp only [Prod.mk.injEq] at he
              exact hqp he.1.symm
            · simp only [hns, if_false]
              intro he
              simp only [Prod.mk.injEq] at he
              exact hns he.2.1.symm
          · have hne : (x.name.ns, x.name.loc) ≠ (q.ns, q.loc) := fun he => h2 (he ▸ List.mem_cons_self)
            by_cases hx0 : x.name.ns = [] <;> by_cases hq0 : q.ns = []
            · simp only [hx0, hq0, if_true]
              intro he
              simp only [Prod.mk.injEq] at he
              exact hne (by rw [hx0, hq0, he.2.2])
            · simp only [hx0, hq0, if_true, if_false]
              intro he
              simp only [Prod.mk.injEq] at he
              exact hq0 he.2.1.symm
            · simp only [hx0, hq0, if_true, if_false]
              intro he
              simp only [Prod.mk.injEq] at he
              exact hx0 he.2.1
            · simp only [hx0, hq0, if_false]
              intro he
              simp only [Prod.mk.injEq, true_and] at he
              exact hne (by rw [he.1, he.2])

/-- **the attribute list handed to `create_element` has no duplicate keys** -/
theorem processNamespaces_nodup (cfg : TbCfg) (stack : List NsMap) (t : Tag) (h : TagOk cfg t) :
    Dom.attrKeysNodup ((H5V.Model.XmlTB.processNamespaces cfg stack t).attrs.map toAttr) = true := by
  unfold H5V.Model.XmlTB.processNamespaces
  exact (bindAttrs_ok stack _ _ [] h).2

end H5V.Lemmas.XmlTBH
