import H5V.Lemmas.HtmlTBSkelAdjIns
/-!
C06, third invariant layer (adjacent text), part 3b: the early states (Initial, BeforeHtml).  Only
comments, a doctype and finally the `html` element are appended to the document; the stack is empty,
so the invariant is `AdjD d []` (no adjacent text siblings, children point to their parents, no
duplicates in child lists).
-/
namespace H5V.Props.C06
open H5V.Model.Dom hiding Str
open H5V.Model.HtmlTB hiding Str
open H5V.Lemmas.Dom

theorem AdjD.new : AdjD Dom.new [] := by
  have hc : ∀ x, Dom.new.childrenOf x = [] := by
    intro x
    cases x with
    | zero => rfl
    | succ n => exact childrenOf_nil_of_ge (by show 1 ≤ n + 1; omega)
  refine ⟨fun P => (by rw [hc]; rfl), fun P e he => (by rw [hc] at he; cases he), fun P => (by rw [hc]; simp),
    fun e he => (by cases he), fun P e _ he => (by cases he), fun T tc e _ _ _ he => (by cases he),
    fun P x y _ hx => (by cases hx)⟩

/-- a parentless node that is neither text nor on the stack is appended to a node -/
theorem AdjD.appendClosed {d d' : Dom} {O : List Id} {p c : Id} (h : AdjD d O) (hne : p ≠ c)
    (hct : d.isText c = false) (hc : c ∉ O) (e : d.append p (.node c) = .ok d') : AdjD d' O := by
  obtain ⟨hcp, h2, h1, h3⟩ := dom_appendNode_eff e hne
  exact h.insertNode_closed (P := p) (a := d.childrenOf p) (b := []) (by simp) (by simpa using h2) h1 h3 hcp hct hc

/-- programs of the early modes keep the early invariant -/
class KA {α : Type} (prog : M α) : Prop where
  p : ∀ s a s', DomBase s.dom → s.docHandle = 0 → AdjD s.dom [] → prog s = .ok (a, s') →
    DomBase s'.dom ∧ s'.docHandle = 0 ∧ AdjD s'.dom []

instance {α : Type} (a : α) : KA (pure a : M α) :=
  ⟨fun s b s' hb hd h e => by obtain ⟨_, rfl⟩ := pure_ok.mp e; exact ⟨hb, hd, h⟩⟩
instance {α β : Type} (m : M α) (f : α → M β) [h1 : KA m] [h2 : ∀ a, KA (f a)] : KA (m >>= f) :=
  ⟨fun s b s'' hb hd h e => by
    obtain ⟨a, s', e1, e2⟩ := bind_ok.mp e
    obtain ⟨a1, a2, a3⟩ := h1.p s a s' hb hd h e1
    exact (h2 a).p s' b s'' a1 a2 a3 e2⟩
instance {α : Type} (c : Prop) [Decidable c] (a b : M α) [h1 : KA a] [h2 : KA b] : KA (if c then a else b) := by
  by_cases hc : c
  · simp only [hc, if_true]; exact h1
  · simp only [hc, if_false]; exact h2
instance {α : Type} (e : String) : KA (throw e : M α) := ⟨fun _ _ _ _ _ _ h => absurd h throw_ok⟩
instance {α : Type} (c f t : String) : KA (panicAt c f t : M α) := ⟨fun _ _ _ _ _ _ h => absurd h panicAt_ok⟩
instance : KA getS := ⟨fun s a s' hb hd h e => by obtain ⟨_, rfl⟩ := getS_ok.mp e; exact ⟨hb, hd, h⟩⟩

theorem ka_of_nodes {α : Type} {prog : M α}
    (hp : ∀ s a s', prog s = .ok (a, s') → s'.dom.nodes = s.dom.nodes ∧ s'.docHandle = s.docHandle) : KA prog :=
  ⟨fun s a s' hb hd h e => by
    obtain ⟨h1, h2⟩ := hp s a s' e
    exact ⟨hb.sameSk (SameSk.of_nodes h1), h2.trans hd, h.of_nodes h1⟩⟩

instance (op : SinkOp) [q : QuietOp op] : KA (sink op) :=
  ka_of_nodes fun s a s' e => by
    obtain ⟨d, hd, rfl⟩ := sink_ok.mp e
    exact ⟨q.h _ _ _ hd, rfl⟩
instance (op : SinkOp) [QuietOp op] : KA (sinkUnit op) :=
  ⟨fun s a s' hb hd h e => by
    obtain ⟨out, e⟩ := sinkUnit_ok.mp e
    exact (inferInstance : KA (sink op)).p _ _ _ hb hd h e⟩
instance (op : SinkOp) [QuietOp op] : KA (sinkNode op) :=
  ⟨fun s a s' hb hd h e => (inferInstance : KA (sink op)).p _ _ _ hb hd h (sinkNode_ok.mp e)⟩
instance (msg : String) : KA (parseError msg) := by unfold parseError; infer_instance
instance : KA unexpected := by unfold unexpected; infer_instance
instance (m : Mode) : KA (setMode m) :=
  ka_of_nodes fun s a s' e => by unfold setMode at e; rw [modS_ok.mp e]; exact ⟨rfl, rfl⟩
instance (m : QuirksMode) : KA (setQuirksMode m) := by
  unfold setQuirksMode
  have : KA (modS fun s => { s with quirksMode := m }) :=
    ka_of_nodes fun s a s' e => by rw [modS_ok.mp e]; exact ⟨rfl, rfl⟩
  infer_instance
instance (x : Id) : KA (push x) :=
  ka_of_nodes fun s a s' e => by unfold push at e; rw [modS_ok.mp e]; exact ⟨rfl, rfl⟩

/-- `append_comment_to_doc` -/
instance (text : Str) : KA (appendCommentToDoc text) :=
  ⟨fun s a s' hb hd h e => by
    unfold appendCommentToDoc at e
    obtain ⟨c, s1, e1, e2⟩ := bind_ok.mp e
    rw [getS_bind] at e2
    obtain ⟨u, s2, e3, e4⟩ := bind_ok.mp e2
    obtain ⟨_, rfl⟩ := pure_ok.mp e4
    obtain ⟨d1, hd1, rfl⟩ := sink_ok.mp (sinkNode_ok.mp e1)
    obtain ⟨rfl, hout⟩ := apply_createComment hd1
    cases hout
    obtain ⟨hb1, _, _, hid, _, hdat⟩ := createComment_spec hb text
    obtain ⟨n1, n2, n3, n4⟩ := alloc_new s.dom (NodeData.comment text)
    have h1 : AdjD (s.dom.createComment text).1 [] := h.alloc hb (by intro e he; cases he) _
    obtain ⟨out, e3'⟩ := sinkUnit_ok.mp e3
    obtain ⟨d2, hd2, rfl⟩ := sink_ok.mp e3'
    have happ := apply_append hd2
    have hdoc : s.docHandle = 0 := hd
    simp only [hdoc] at happ
    have hcz : (0 : Id) ≠ (s.dom.createComment text).2 := by
      rw [hid]; exact Nat.ne_of_lt hb.size_pos
    obtain ⟨hb2, _, _, _⟩ := append_doc_spec hb1 (by rw [hdat]; simp) happ
    refine ⟨hb2, hd, h1.appendClosed hcz ?_ (by intro hm; cases hm) happ⟩
    unfold Dom.isText; rw [hdat]⟩

/-- the doctype -/
instance (n p sy : Str) : KA (sinkUnit (.appendDoctypeToDocument n p sy)) :=
  ⟨fun s a s' hb hd h e => by
    obtain ⟨out, e'⟩ := sinkUnit_ok.mp e
    obtain ⟨d2, hd2, rfl⟩ := sink_ok.mp e'
    have happ := apply_doctype hd2
    obtain ⟨hb2, _, _, _, _⟩ := appendDoctype_spec hb happ
    refine ⟨hb2, hd, ?_⟩
    have happ' : (s.dom.alloc (.doctype n p sy)).1.append 0 (.node s.dom.size) = .ok d2 := by
      rw [append_node_eq]; exact happ
    have h1 : AdjD (s.dom.alloc (.doctype n p sy)).1 [] := h.alloc hb (by intro e he; cases he) _
    refine h1.appendClosed (Nat.ne_of_lt hb.size_pos) ?_ (by intro hm; cases hm) happ'
    unfold Dom.isText; rw [dataOf_alloc]; simp⟩

/-- `create_root`: afterwards the `html` element is a child of the document and the only open element -/
theorem createRoot_adj {s s' : State} {attrs : List Attr} {u : Unit} (hb : DomBase s.dom) (hd : s.docHandle = 0)
    (h : AdjD s.dom []) (e : createRoot attrs s = .ok (u, s')) :
    DomBase s'.dom ∧ s'.docHandle = 0 ∧ AdjD s'.dom [] ∧ (s.openElems = [] → AdjD s'.dom s'.openElems) := by
  unfold createRoot at e
  obtain ⟨el, s1, e1, e2⟩ := bind_ok.mp e
  obtain ⟨u1, s2, e3, e4⟩ := bind_ok.mp e2
  unfold push at e3
  have hs2 := modS_ok.mp e3
  rw [getS_bind] at e4
  obtain ⟨_, hb1, _, _, _, _, _, _, hdata⟩ := createElementWithFlags_any hb e1
  unfold createElementWithFlags at e1
  obtain ⟨h1, hpar, hkids, htx, htc, hfresh, hch, _, _, hoe1, hdoc1⟩ :=
    sinkCreate_adj' (O := []) hb (by intro e he; cases he) h e1
  obtain ⟨out, e4'⟩ := sinkUnit_ok.mp e4
  obtain ⟨d2, hd2, rfl⟩ := sink_ok.mp e4'
  have hdoc2 : s2.docHandle = 0 := by rw [hs2]; show s1.docHandle = 0; rw [hdoc1, hd]
  have hdom2 : s2.dom = s1.dom := by rw [hs2]
  rw [hdoc2, hdom2] at hd2
  have happ := apply_append hd2
  have hne : (0 : Id) ≠ el := Nat.ne_of_lt (Nat.lt_of_lt_of_le hb.size_pos hfresh)
  obtain ⟨_, k2, p2, d2'⟩ := dom_appendNode_eff happ hne
  have ha : AdjD d2 [] := h1.appendClosed hne htx (by intro hm; cases hm) happ
  obtain ⟨hb2, _, _, _⟩ := append_doc_spec hb1 (by rw [hdata]; simp) happ
  refine ⟨hb2, hdoc2, ha, fun ho => ?_⟩
  have hoe : s2.openElems = [] ++ [el] := by
    rw [hs2]; show s1.openElems ++ [el] = _; rw [hoe1, ho]
  show AdjD d2 s2.openElems
  rw [hoe]
  have hel0 : ∀ Q, el ∉ s1.dom.childrenOf Q := fun Q hm => by
    rw [hch] at hm
    exact Nat.lt_irrefl _ (Nat.lt_of_lt_of_le (hb.kidsValid Q el hm) hfresh)
  refine ha.push_inserted (P := 0) (a := s1.dom.childrenOf 0) (b := []) (by rw [k2]; simp) (hel0 0) (by simp)
    (fun Q hQ => by rw [k2]; simp only [hQ, if_false]; exact hel0 Q) rfl ?_ ?_ (fun _ x _ hx => by cases hx)
  · rw [k2]; simp only [Ne.symm hne, if_false]; exact hkids
  · intro tc htc'
    rw [tc_of_data (d2' el)] at htc'
    obtain ⟨t1, t2⟩ := htc tc htc'
    rw [k2]
    have : tc ≠ 0 := Nat.ne_of_gt (Nat.lt_of_lt_of_le hb.size_pos t2)
    simp only [this, if_false]; exact t1

instance (attrs : List Attr) : KA (createRoot attrs) :=
  ⟨fun s a s' hb hd h e => by
    obtain ⟨h1, h2, h3, _⟩ := createRoot_adj hb hd h e
    exact ⟨h1, h2, h3⟩⟩

instance (tok : Token) : KA (stepInitial tok) := by
  unfold stepInitial
  split <;> infer_instance

instance (tok : Token) : KA (stepBeforeHtml tok) := by
  unfold stepBeforeHtml
  split <;> infer_instance

end H5V.Props.C06
