import H5V.Lemmas.HtmlTBMetaRun
/-!
**The tree builder answers anything but a tag token with `Continue`** (`processToken_nontag_continue`): the
tokenizer's assertion `process_token_and_continue` (tokenizer/mod.rs:257) never fires in the joint model.

The fact is syntactic, like `H5V.Props.C19.ans_processToken` (an encoding indicator only for a `meta` start tag) and
`H5V.Lemmas.ParseSpec.processToken_rawKind`: `ProcessResult.script` / `.toPlaintext` / `.toRawData` /
`.encodingIndicator` are only built in arms of the rules that have matched the token as a tag, and every `Reprocess`
hands on the token the rule was given.  Same walk as `HtmlTBMetaRules.lean` / `HtmlTBMetaRun.lean` (the answer
judgement `H5V.Props.C19.Ans`: tail positions only), with `TOk` for `ROk`.
-/
namespace H5V.Lemmas.JointTotal.A
open H5V.Model.Dom (Id QualName Attr NodeOrText SinkOp Output ElementFlags QuirksMode Dom)
open H5V.Model.HtmlTB
open H5V.Lemmas.TBM
open H5V.Props.C19 (Ans Plain Carried)

def IsTag : Token → Prop
  | .tag _ => True
  | _ => False

/-- an answer that mentions no token and does not pause or switch the tokenizer -/
def Plain3 : ProcessResult → Prop
  | .reprocess _ _ => False
  | .reprocessForeign _ => False
  | .encodingIndicator _ => False
  | .script _ => False
  | .toPlaintext => False
  | .toRawData _ => False
  | _ => True

/-- an acceptable answer of a rule that was handed `tok` -/
def TOk (tok : Token) : ProcessResult → Prop
  | .reprocess _ t => t = tok
  | .reprocessForeign t => t = tok
  | .encodingIndicator _ => IsTag tok
  | .script _ => IsTag tok
  | .toPlaintext => IsTag tok
  | .toRawData _ => IsTag tok
  | _ => True

theorem TOk.of_plain3 {tok : Token} {r : ProcessResult} (h : Plain3 r) : TOk tok r := by
  cases r <;> first | trivial | exact absurd h (by simp [Plain3])

theorem TOk.of_plain_tag {t : Tag} {r : ProcessResult} (h : Plain r) : TOk (.tag t) r := by
  cases r <;> first | trivial | exact absurd h (by simp [Plain])

instance (priority := low) instPlain3 {tok : Token} {m : M ProcessResult} [h : Ans Plain3 m] : Ans (TOk tok) m :=
  h.mono fun _ => TOk.of_plain3

instance (priority := low) instPlainTag {t : Tag} {m : M ProcessResult} [h : Ans Plain m] : Ans (TOk (.tag t)) m :=
  h.mono fun _ => TOk.of_plain_tag

syntax "tk_step" : tactic
macro_rules
  | `(tactic| tk_step) => `(tactic|
    first
      | exact Ans.pure trivial
      | exact Ans.pure rfl
      | exact Ans.pure (by with_reducible assumption)
      | exact Ans.throw _
      | exact Ans.panicAt _ _ _
      | exact Ans.fuelOut _
      | exact inferInstance
      | with_reducible assumption
      | with_reducible apply Ans.pureBind
      | with_reducible apply Ans.bind
      | with_reducible apply Ans.iteH
      | intro _
      | split
      | dsimp only)

syntax "tk_walk" : tactic
macro_rules
  | `(tactic| tk_walk) => `(tactic| repeat' tk_step)

/-! ### helpers -/

instance : Ans Plain3 unexpected := by unfold unexpected; tk_walk
instance (t : Str) : Ans Plain3 (appendText t) := by unfold appendText; tk_walk
instance (t : Str) : Ans Plain3 (appendComment t) := by unfold appendComment; tk_walk
instance (t : Str) : Ans Plain3 (appendCommentToDoc t) := by unfold appendCommentToDoc; tk_walk
instance (t : Str) : Ans Plain3 (appendCommentToHtml t) := by unfold appendCommentToHtml; tk_walk
instance : Ans (TOk .eof) inTemplateEof := by unfold inTemplateEof; tk_walk

/-! ### the insertion modes -/

instance (tok : Token) : Ans (TOk tok) (stepInHead tok) := by unfold stepInHead; tk_walk

theorem ans_stepInHead_bind {β : Type} {Q : β → Prop} {tok : Token} {f : ProcessResult → M β}
    (h : ∀ r, TOk tok r → Ans Q (f r)) : Ans Q (stepInHead tok >>= f) := Ans.bindK inferInstance h

macro_rules
  | `(tactic| tk_step) => `(tactic| with_reducible apply ans_stepInHead_bind)

instance (tok : Token) : Ans (TOk tok) (stepInitial tok) := by unfold stepInitial; tk_walk
instance (tok : Token) : Ans (TOk tok) (stepBeforeHtml tok) := by unfold stepBeforeHtml; tk_walk
instance (tok : Token) : Ans (TOk tok) (stepInBody tok) := by unfold stepInBody; tk_walk
theorem ans_stepInBody_bind {β : Type} {Q : β → Prop} {tok : Token} {f : ProcessResult → M β}
    (h : ∀ r, TOk tok r → Ans Q (f r)) : Ans Q (stepInBody tok >>= f) := Ans.bindK inferInstance h

macro_rules
  | `(tactic| tk_step) => `(tactic| with_reducible apply ans_stepInBody_bind)

instance (tok : Token) : Ans (TOk tok) (stepBeforeHead tok) := by unfold stepBeforeHead; tk_walk
instance (tok : Token) : Ans (TOk tok) (stepInHeadNoscript tok) := by unfold stepInHeadNoscript; tk_walk
instance (tok : Token) : Ans (TOk tok) (stepAfterHead tok) := by unfold stepAfterHead; tk_walk
instance (tok : Token) : Ans (TOk tok) (stepText tok) := by unfold stepText; tk_walk
instance (tok : Token) : Ans (TOk tok) (fosterParentInBody tok) := by unfold fosterParentInBody; tk_walk
instance (tok : Token) : Ans (TOk tok) (processCharsInTable tok) := by unfold processCharsInTable; tk_walk
instance (tok : Token) : Ans (TOk tok) (stepInTable tok) := by unfold stepInTable; tk_walk
instance (tok : Token) : Ans (TOk tok) (stepInTableText tok) := by unfold stepInTableText; tk_walk
instance (tok : Token) : Ans (TOk tok) (stepInCaption tok) := by unfold stepInCaption; tk_walk
instance (tok : Token) : Ans (TOk tok) (stepInColumnGroup tok) := by unfold stepInColumnGroup; tk_walk
instance (tok : Token) : Ans (TOk tok) (stepInTableBody tok) := by unfold stepInTableBody; tk_walk
instance (tok : Token) : Ans (TOk tok) (stepInRow tok) := by unfold stepInRow; tk_walk
instance (tok : Token) : Ans (TOk tok) (stepInCell tok) := by unfold stepInCell; tk_walk
instance (tok : Token) : Ans (TOk tok) (stepInTemplate tok) := by unfold stepInTemplate; tk_walk
instance (tok : Token) : Ans (TOk tok) (stepAfterBody tok) := by unfold stepAfterBody; tk_walk
instance (tok : Token) : Ans (TOk tok) (stepInFrameset tok) := by unfold stepInFrameset; tk_walk
instance (tok : Token) : Ans (TOk tok) (stepAfterFrameset tok) := by unfold stepAfterFrameset; tk_walk
instance (tok : Token) : Ans (TOk tok) (stepAfterAfterBody tok) := by unfold stepAfterAfterBody; tk_walk
instance (tok : Token) : Ans (TOk tok) (stepAfterAfterFrameset tok) := by unfold stepAfterAfterFrameset; tk_walk

instance (mode : Mode) (tok : Token) : Ans (TOk tok) (step mode tok) := by
  cases mode <;> (unfold step; exact inferInstance)

/-! ### foreign content -/

instance (tag : Tag) : Ans (TOk (.tag tag)) (unexpectedStartTagInForeignContent tag) := by
  unfold unexpectedStartTagInForeignContent; tk_walk

theorem ans_foreignEndTagLoop (tag : Tag) : ∀ (i : Nat) (first : Bool), Ans (TOk (.tag tag)) (foreignEndTagLoop tag i first)
  | 0, _ => by unfold foreignEndTagLoop; tk_walk
  | i + 1, first => by
    have ih := ans_foreignEndTagLoop tag i
    unfold foreignEndTagLoop; tk_walk
instance (tag : Tag) (i : Nat) (first : Bool) : Ans (TOk (.tag tag)) (foreignEndTagLoop tag i first) :=
  ans_foreignEndTagLoop tag i first

instance (tok : Token) : Ans (TOk tok) (stepForeign tok) := by unfold stepForeign; tk_walk

/-! ### `process_to_completion` and `process_token` -/

/-- an acceptable answer of `process_token` for `tok0` -/
def SOk (tok0 : Token) (r : SinkResult) : Prop := r ≠ .continue_ → IsTag tok0

theorem IsTag.carried {tok0 t : Token} (h : IsTag t) (hc : Carried tok0 t) : IsTag tok0 := by
  rcases hc with rfl | ⟨st, s, rfl⟩
  · exact h
  · cases h

theorem ans_step_bind {β : Type} {Q : β → Prop} {mode : Mode} {tok : Token} {f : ProcessResult → M β}
    (h : ∀ r, TOk tok r → Ans Q (f r)) : Ans Q (step mode tok >>= f) := Ans.bindK inferInstance h

theorem ans_stepForeign_bind {β : Type} {Q : β → Prop} {tok : Token} {f : ProcessResult → M β}
    (h : ∀ r, TOk tok r → Ans Q (f r)) : Ans Q (stepForeign tok >>= f) := Ans.bindK inferInstance h

macro_rules
  | `(tactic| tk_step) => `(tactic|
      first | with_reducible apply ans_step_bind | with_reducible apply ans_stepForeign_bind)

theorem ans_ptc (tok0 : Token) (fuel : Nat) : ∀ (token : Token) (more : List Token), Carried tok0 token →
    (∀ t ∈ more, Carried tok0 t) → Ans (SOk tok0) (processToCompletion fuel token more) := by
  induction fuel with
  | zero => intro token more _ _; unfold processToCompletion; exact Ans.fuelOut _
  | succ fuel ih =>
    intro token more hc hm
    unfold processToCompletion
    dsimp only
    tk_walk
    all_goals first
      | exact Ans.pure (fun h => absurd rfl h)
      | exact Ans.pure (fun _ => IsTag.carried (by assumption) hc)
      | exact ih _ _ (hm _ List.mem_cons_self) (fun x hx => hm x (List.mem_cons_of_mem _ hx))
      | exact ih _ _ (H5V.Props.C19.carried_eq hc (by assumption)) hm
      | exact ih _ _ (Or.inr ⟨_, _, rfl⟩) hm
      | exact ih _ _ (Or.inr ⟨_, _, rfl⟩) (H5V.Props.C19.carried_snoc hm)

theorem ans_ptc_top (t : Token) (fuel : Nat) : Ans (SOk t) (processToCompletion fuel t []) :=
  ans_ptc t fuel t [] (Or.inl rfl) (fun _ h => nomatch h)

/-- **`process_token`**: anything but `Continue` is answered only to a tag token -/
theorem ans_processToken (tok : TokToken) (line : Nat) :
    Ans (fun r => r ≠ .continue_ → ∃ tag, tok = .tag tag) (processToken tok line) := by
  unfold processToken
  tk_walk
  all_goals first
    | exact Ans.pure (fun h => absurd rfl h)
    | (refine (ans_ptc_top _ _).mono (fun r h hr => ?_)
       have ht := h hr
       first
         | exact ⟨_, rfl⟩
         | (have hn := H5V.Props.C19.charsToken_not_tag ‹charsToken _ _ = some _›
            rename_i t _ _
            cases t <;> first | exact absurd rfl (hn _) | cases ht)
         | (cases ht; done))

theorem processToken_nontag_continue (tok : TokToken) (line : Nat) (s s' : State) (r : SinkResult)
    (h : (processToken tok line).run s = .ok (r, s')) (hnt : ∀ tag, tok ≠ .tag tag) : r = .continue_ := by
  by_cases hr : r = .continue_
  · exact hr
  · obtain ⟨tag, e⟩ := (ans_processToken tok line).h s r s' h hr
    exact absurd e (hnt tag)

end H5V.Lemmas.JointTotal.A
