import H5V.Lemmas.XmlTokRuns
/-!
`exact_errors` never changes what is tokenized (XML tokenizer model).  Port of
`H5V.Lemmas.HtmlTokOptE` to `H5V.Model.XmlTok`.

Two runs of the tokenizer on the same input that differ only in the `Opts` value stay related by
`E`: same machine up to (a) parse-error tokens in the log `out` and (b) a `current_char` that nobody
will read (it is read only after `reconsume` was set, and `reconsume` is only ever set right after a
`get_char`, which synchronises it; the exact `bad_char_error` message mentions it, but that is an
error token).  `E0` is the part of `E` that every transition helper preserves.

Differences from the HTML tokenizer: `discard_char` is `get_char` (so it may log an extra "Bad
character" error with `exact_errors`), `peek` is raw, the `pop_except_from` table does not depend
on the options at all, and the fast path must not skip NUL (replaced by U+FFFD) nor CR — both are in
every set (`setOf_cover`).
-/
namespace H5V.Model.XmlTok

/-- is this log entry a parse-error token? -/
def isErr : Token → Bool
  | .error _ => true
  | _ => false

/-- the token log with the parse-error tokens erased -/
def noErr (out : Out) : Out := out.filter (fun t => !isErr t)

@[simp] theorem noErr_nil : noErr [] = [] := rfl
theorem noErr_cons (p : Token) (x : Out) :
    noErr (p :: x) = if isErr p then noErr x else p :: noErr x := by
  unfold noErr; rw [List.filter_cons]; cases isErr p <;> simp
theorem noErr_cons_congr (p : Token) {x y : Out} (h : noErr x = noErr y) :
    noErr (p :: x) = noErr (p :: y) := by
  rw [noErr_cons, noErr_cons, h]
theorem noErr_err_l (s : Str) {x y : Out} (h : noErr x = noErr y) :
    noErr (Token.error s :: x) = noErr y := by
  rw [noErr_cons]; simpa [isErr] using h
theorem noErr_err_r (s : Str) {x y : Out} (h : noErr x = noErr y) :
    noErr x = noErr (Token.error s :: y) := by
  rw [noErr_cons]; simpa [isErr] using h
theorem noErr_err_lr (s t : Str) {x y : Out} (h : noErr x = noErr y) :
    noErr (Token.error s :: x) = noErr (Token.error t :: y) :=
  noErr_err_l s (noErr_err_r t h)

/-- equal except for parse errors in the log and for `current_char` -/
def E0 (a b : Mach) : Prop :=
  ∃ ob cb, b = { a with out := ob, currentChar := cb } ∧ noErr a.out = noErr ob

theorem E0.refl (a : Mach) : E0 a a := ⟨a.out, a.currentChar, rfl, rfl⟩

theorem E0.symm {a b : Mach} (h : E0 a b) : E0 b a := by
  obtain ⟨ob, cb, rfl, hh⟩ := h
  exact ⟨a.out, a.currentChar, rfl, hh.symm⟩

theorem E0.trans {a b c : Mach} (h1 : E0 a b) (h2 : E0 b c) : E0 a c := by
  obtain ⟨ob, cb, rfl, hh⟩ := h1
  obtain ⟨oc, cc, rfl, hh2⟩ := h2
  exact ⟨oc, cc, rfl, hh.trans hh2⟩

theorem E0.out {a b : Mach} (h : E0 a b) : noErr a.out = noErr b.out := by
  obtain ⟨ob, cb, rfl, h⟩ := h; exact h
theorem E0.state {a b : Mach} (h : E0 a b) : b.state = a.state := by
  obtain ⟨ob, cb, rfl, h⟩ := h; rfl
theorem E0.tempBuf {a b : Mach} (h : E0 a b) : b.tempBuf = a.tempBuf := by
  obtain ⟨ob, cb, rfl, h⟩ := h; rfl
theorem E0.reconsume {a b : Mach} (h : E0 a b) : b.reconsume = a.reconsume := by
  obtain ⟨ob, cb, rfl, h⟩ := h; rfl
theorem E0.ignoreLf {a b : Mach} (h : E0 a b) : b.ignoreLf = a.ignoreLf := by
  obtain ⟨ob, cb, rfl, h⟩ := h; rfl
theorem E0.charRef {a b : Mach} (h : E0 a b) : b.charRef = a.charRef := by
  obtain ⟨ob, cb, rfl, h⟩ := h; rfl
theorem E0.atEof {a b : Mach} (h : E0 a b) : b.atEof = a.atEof := by
  obtain ⟨ob, cb, rfl, h⟩ := h; rfl
theorem E0.discardBom {a b : Mach} (h : E0 a b) : b.discardBom = a.discardBom := by
  obtain ⟨ob, cb, rfl, h⟩ := h; rfl
theorem E0.fuelFor {a b : Mach} (h : E0 a b) (inp : Str) : fuelFor b inp = fuelFor a inp := by
  obtain ⟨ob, cb, rfl, h⟩ := h; rfl

/-- relation between two results of a table transition -/
def RelS (x y : Mach × Sig) : Prop := E0 x.1 y.1 ∧ x.2 = y.2

theorem RelS.symm {x y : Mach × Sig} (h : RelS x y) : RelS y x := ⟨h.1.symm, h.2.symm⟩

/-! ### helper congruences: one per `go!` shorthand used by the transition tables -/

set_option hygiene false in
macro "e0_same" h:ident : tactic =>
  `(tactic| (obtain ⟨ob, cb, rfl, hh⟩ := $h; exact ⟨ob, cb, rfl, hh⟩))

theorem E0_to {a b : Mach} (h : E0 a b) (s : State) : E0 (to s a) (to s b) := by e0_same h
theorem E0_reconsumeTo {a b : Mach} (h : E0 a b) (s : State) : E0 (reconsumeTo s a) (reconsumeTo s b) := by e0_same h
theorem E0_discardTag {a b : Mach} (h : E0 a b) : E0 (discardTag a) (discardTag b) := by e0_same h
theorem E0_createTag {a b : Mach} (h : E0 a b) (k : TagKind) (c : Char) : E0 (createTag k c a) (createTag k c b) := by e0_same h
theorem E0_createPi {a b : Mach} (h : E0 a b) (c : Char) : E0 (createPi c a) (createPi c b) := by e0_same h
theorem E0_pushTag {a b : Mach} (h : E0 a b) (c : Char) : E0 (pushTag c a) (pushTag c b) := by e0_same h
theorem E0_pushPiTarget {a b : Mach} (h : E0 a b) (c : Char) : E0 (pushPiTarget c a) (pushPiTarget c b) := by e0_same h
theorem E0_pushPiData {a b : Mach} (h : E0 a b) (c : Char) : E0 (pushPiData c a) (pushPiData c b) := by e0_same h
theorem E0_setEmptyTag {a b : Mach} (h : E0 a b) : E0 (setEmptyTag a) (setEmptyTag b) := by e0_same h
theorem E0_pushName {a b : Mach} (h : E0 a b) (c : Char) : E0 (pushName c a) (pushName c b) := by e0_same h
theorem E0_pushValue {a b : Mach} (h : E0 a b) (c : Char) : E0 (pushValue c a) (pushValue c b) := by e0_same h
theorem E0_appendValue {a b : Mach} (h : E0 a b) (s : Str) : E0 (appendValue s a) (appendValue s b) := by e0_same h
theorem E0_pushComment {a b : Mach} (h : E0 a b) (c : Char) : E0 (pushComment c a) (pushComment c b) := by e0_same h
theorem E0_appendComment {a b : Mach} (h : E0 a b) (s : String) : E0 (appendComment s a) (appendComment s b) := by e0_same h
theorem E0_clearComment {a b : Mach} (h : E0 a b) : E0 (clearComment a) (clearComment b) := by e0_same h
theorem E0_createDoctype {a b : Mach} (h : E0 a b) : E0 (createDoctype a) (createDoctype b) := by e0_same h
theorem E0_pushDoctypeName {a b : Mach} (h : E0 a b) (c : Char) : E0 (pushDoctypeName c a) (pushDoctypeName c b) := by e0_same h
theorem E0_pushDoctypeId {a b : Mach} (h : E0 a b) (k : DoctypeKind) (c : Char) :
    E0 (pushDoctypeId k c a) (pushDoctypeId k c b) := by cases k <;> e0_same h
theorem E0_clearDoctypeId {a b : Mach} (h : E0 a b) (k : DoctypeKind) :
    E0 (clearDoctypeId k a) (clearDoctypeId k b) := by cases k <;> e0_same h
theorem E0_consumeCharRef {a b : Mach} (h : E0 a b) (x : Option Char) :
    E0 (consumeCharRef x a) (consumeCharRef x b) := by e0_same h
theorem E0_setIgnoreLf {a b : Mach} (h : E0 a b) (x : Bool) : E0 (a.setIgnoreLf x) (b.setIgnoreLf x) := by e0_same h
theorem E0_setReconsume {a b : Mach} (h : E0 a b) (x : Bool) : E0 (a.setReconsume x) (b.setReconsume x) := by e0_same h
theorem E0_setTempBuf {a b : Mach} (h : E0 a b) (x : Str) : E0 (a.setTempBuf x) (b.setTempBuf x) := by e0_same h
theorem E0_setCharRef {a b : Mach} (h : E0 a b) (x : Option CharRefSt) : E0 (a.setCharRef x) (b.setCharRef x) := by e0_same h
theorem E0_setAtEof {a b : Mach} (h : E0 a b) (x : Bool) : E0 (a.setAtEof x) (b.setAtEof x) := by e0_same h
theorem E0_setDiscardBom {a b : Mach} (h : E0 a b) (x : Bool) : E0 (a.setDiscardBom x) (b.setDiscardBom x) := by e0_same h
theorem E0_setCurrentChar {a b : Mach} (h : E0 a b) (x y : Char) : E0 (a.setCurrentChar x) (b.setCurrentChar y) := by
  obtain ⟨ob, cb, rfl, hh⟩ := h; exact ⟨ob, y, rfl, hh⟩
theorem E0_setCC_l {a b : Mach} (h : E0 a b) (x : Char) : E0 (a.setCurrentChar x) b :=
  (E0_setCurrentChar (E0.refl a) a.currentChar x).symm.trans h

theorem E0_emit {a b : Mach} (h : E0 a b) (t : Token) : E0 (emit a t) (emit b t) := by
  obtain ⟨ob, cb, rfl, h⟩ := h
  exact ⟨_, cb, rfl, noErr_cons_congr _ h⟩
theorem E0_emitErr2 {a b : Mach} (h : E0 a b) (s t : Str) : E0 (emit a (.error s)) (emit b (.error t)) := by
  obtain ⟨ob, cb, rfl, h⟩ := h
  exact ⟨_, cb, rfl, noErr_err_lr _ _ h⟩
theorem E0_emitErr_l {a b : Mach} (h : E0 a b) (s : Str) : E0 (emit a (.error s)) b := by
  obtain ⟨ob, cb, rfl, h⟩ := h
  exact ⟨ob, cb, rfl, noErr_err_l _ h⟩
theorem E0_emitErr_r {a b : Mach} (h : E0 a b) (s : Str) : E0 a (emit b (.error s)) := by
  obtain ⟨ob, cb, rfl, h⟩ := h
  exact ⟨_, cb, rfl, noErr_err_r _ h⟩
theorem E0_emitErr {a b : Mach} (h : E0 a b) (s : String) : E0 (emitErr a s) (emitErr b s) := E0_emit h _
theorem E0_emitChars {a b : Mach} (h : E0 a b) (s : Str) : E0 (emitChars a s) (emitChars b s) := E0_emit h _
theorem E0_emitChar {a b : Mach} (h : E0 a b) (c : Char) : E0 (emitChar a c) (emitChar b c) := E0_emit h _
theorem E0_badChar {a b : Mach} (h : E0 a b) (o1 o2 : Opts) : E0 (badChar o1 a) (badChar o2 b) := by
  unfold badChar emitErr
  split <;> split <;> exact E0_emitErr2 h _ _
theorem E0_badEof {a b : Mach} (h : E0 a b) (o1 o2 : Opts) : E0 (badEof o1 a) (badEof o2 b) := by
  unfold badEof emitErr
  split <;> split <;> exact E0_emitErr2 h _ _
theorem E0_emitComment {a b : Mach} (h : E0 a b) : E0 (emitComment a) (emitComment b) := by
  obtain ⟨ob, cb, rfl, h⟩ := h
  exact ⟨_, cb, rfl, noErr_cons_congr _ h⟩
theorem E0_emitDoctype {a b : Mach} (h : E0 a b) : E0 (emitDoctype a) (emitDoctype b) := by
  obtain ⟨ob, cb, rfl, h⟩ := h
  exact ⟨_, cb, rfl, noErr_cons_congr _ h⟩
theorem E0_emitPi {a b : Mach} (h : E0 a b) : E0 (emitPi a) (emitPi b) := by
  obtain ⟨ob, cb, rfl, h⟩ := h
  exact ⟨_, cb, rfl, noErr_cons_congr _ h⟩
theorem E0_ite (c : Prop) [Decidable c] {a b a' b' : Mach} (h1 : E0 a b) (h2 : E0 a' b') :
    E0 (if c then a else a') (if c then b else b') := by
  split <;> assumption

theorem E0_finishAttribute {a b : Mach} (h : E0 a b) : E0 (finishAttribute a) (finishAttribute b) := by
  obtain ⟨ob, cb, rfl, h⟩ := h
  unfold finishAttribute
  dsimp only
  repeat' split
  all_goals
    first
    | exact ⟨ob, cb, rfl, h⟩
    | exact ⟨_, cb, rfl, noErr_err_lr _ _ h⟩
theorem E0_createAttr {a b : Mach} (h : E0 a b) (c : Char) : E0 (createAttr c a) (createAttr c b) := by
  have h1 := E0_finishAttribute h
  unfold createAttr
  dsimp only
  generalize finishAttribute a = x at h1
  generalize finishAttribute b = y at h1
  e0_same h1
theorem E0_emitCurrentTag {a b : Mach} (h : E0 a b) : E0 (emitCurrentTag a) (emitCurrentTag b) := by
  have h1 := E0_finishAttribute h
  unfold emitCurrentTag
  dsimp only
  generalize finishAttribute a = x at h1
  generalize finishAttribute b = y at h1
  obtain ⟨ob, cb, rfl, h⟩ := h1
  dsimp only
  repeat' split
  all_goals
    first
    | exact ⟨_, cb, rfl, noErr_cons_congr _ h⟩
    | exact ⟨_, cb, rfl, noErr_cons_congr _ (noErr_err_lr _ _ h)⟩
theorem E0_emitTag {a b : Mach} (h : E0 a b) (s : State) : E0 (emitTag s a) (emitTag s b) := by
  unfold emitTag; exact E0_emitCurrentTag (E0_to h s)
theorem E0_emitShortTag {a b : Mach} (h : E0 a b) (s : State) : E0 (emitShortTag s a) (emitShortTag s b) := by
  unfold emitShortTag; dsimp only; apply E0_emitCurrentTag; e0_same h
theorem E0_emitEmptyTag {a b : Mach} (h : E0 a b) (s : State) : E0 (emitEmptyTag s a) (emitEmptyTag s b) := by
  unfold emitEmptyTag; dsimp only; apply E0_emitCurrentTag; e0_same h
theorem E0_emitStartTag {a b : Mach} (h : E0 a b) (s : State) : E0 (emitStartTag s a) (emitStartTag s b) := by
  unfold emitStartTag; dsimp only; apply E0_emitCurrentTag; e0_same h

theorem RelS_ok {a b : Mach} (h : E0 a b) : RelS (a, .cont) (b, .cont) := ⟨h, rfl⟩
theorem RelS_panic {a b : Mach} (h : E0 a b) (s : String) : RelS (a, .panic s) (b, .panic s) := ⟨h, rfl⟩

/-- close a table arm by chaining the helper congruences -/
macro "e0_chain" h:ident : tactic =>
  `(tactic| (repeat (first
      | exact $h
      | with_reducible apply RelS_ok | with_reducible apply RelS_panic
      | with_reducible apply E0_emitTag | with_reducible apply E0_emitShortTag | with_reducible apply E0_emitEmptyTag | with_reducible apply E0_emitStartTag
      | with_reducible apply E0_to | with_reducible apply E0_reconsumeTo | with_reducible apply E0_createTag | with_reducible apply E0_createPi | with_reducible apply E0_pushTag
      | with_reducible apply E0_pushPiTarget | with_reducible apply E0_pushPiData | with_reducible apply E0_setEmptyTag
      | with_reducible apply E0_createAttr | with_reducible apply E0_pushName | with_reducible apply E0_pushValue | with_reducible apply E0_appendValue
      | with_reducible apply E0_pushComment | with_reducible apply E0_appendComment | with_reducible apply E0_clearComment | with_reducible apply E0_createDoctype
      | with_reducible apply E0_pushDoctypeName | with_reducible apply E0_pushDoctypeId | with_reducible apply E0_clearDoctypeId | with_reducible apply E0_consumeCharRef
      | with_reducible apply E0_emitChar | with_reducible apply E0_emitChars | with_reducible apply E0_badChar | with_reducible apply E0_badEof | with_reducible apply E0_emitErr
      | with_reducible apply E0_emitComment | with_reducible apply E0_emitDoctype | with_reducible apply E0_emitPi | with_reducible apply E0_emit
      | (e0_same $h))))

/-! ### the transition tables -/

/-- the `get_char!` table: any two option values, `E0`-related machines, same character -/
theorem transChar_E0 (o1 o2 : Opts) {a b : Mach} (h : E0 a b) (c : Char) :
    RelS (transChar o1 a c) (transChar o2 b c) := by
  unfold transChar
  simp only [h.state]
  split <;> (repeat' split) <;> (try dsimp only) <;> e0_chain h

/-- the `pop_except_from` table on the same read result (it does not depend on the options) -/
theorem transSet_E0 {a b : Mach} (h : E0 a b) (r : SetRes) : RelS (transSet a r) (transSet b r) := by
  unfold transSet
  simp only [h.state]
  split <;> (repeat' split) <;> (try dsimp only) <;> e0_chain h

/-- the `eof_step` table (it never reads `current_char` outside an error message, so `E0` suffices) -/
theorem transEof_E0 (o1 o2 : Opts) {a b : Mach} (h : E0 a b) :
    E0 (transEof o1 a).1 (transEof o2 b).1 ∧ (transEof o1 a).2 = (transEof o2 b).2 := by
  unfold transEof
  simp only [h.state]
  split <;> (try dsimp only) <;> refine ⟨?_, rfl⟩ <;> e0_chain h

theorem transChar_cc (o : Opts) (m : Mach) (c : Char) : (transChar o m c).1.currentChar = m.currentChar := by
  unfold transChar; split <;> (repeat' split) <;> simp
theorem transSet_rc (m : Mach) (r : SetRes) : (transSet m r).1.reconsume = m.reconsume := by
  unfold transSet; split <;> (repeat' split) <;> simp

/-! ### `E`: `E0` plus "a pending reconsume sees the same character" -/

/-- the invariant of two runs that differ only in `Opts` -/
def E (a b : Mach) : Prop := E0 a b ∧ (a.reconsume = true → a.currentChar = b.currentChar)

theorem E.refl (a : Mach) : E a a := ⟨E0.refl a, fun _ => rfl⟩
theorem E.symm {a b : Mach} (h : E a b) : E b a :=
  ⟨h.1.symm, fun hr => (h.2 (by rw [← h.1.reconsume]; exact hr)).symm⟩
theorem E.of_nrc {a b : Mach} (h : E0 a b) (hr : a.reconsume = false) : E a b :=
  ⟨h, fun h' => by rw [hr] at h'; cases h'⟩
theorem E.of_cc {a b : Mach} (h : E0 a b) (hc : a.currentChar = b.currentChar) : E a b := ⟨h, fun _ => hc⟩
theorem E.lift {a b a' b' : Mach} (h : E a b) (h0 : E0 a' b') (hr : a'.reconsume = a.reconsume)
    (hc1 : a'.currentChar = a.currentChar) (hc2 : b'.currentChar = b.currentChar) : E a' b' :=
  ⟨h0, fun hr' => by rw [hc1, hc2]; exact h.2 (by rw [← hr]; exact hr')⟩
theorem E.out {a b : Mach} (h : E a b) : noErr a.out = noErr b.out := h.1.out

/-! ### the reader -/

theorem E0_maybeErr (p q : Prop) [Decidable p] [Decidable q] {x y : Mach} (h : E0 x y) (s t : Str) :
    E0 (if p then emit x (.error s) else x) (if q then emit y (.error t) else y) := by
  split <;> split
  · exact E0_emitErr2 h _ _
  · exact E0_emitErr_l h _
  · exact E0_emitErr_r h _
  · exact h

theorem foldChar_E0 (o1 o2 : Opts) {a b : Mach} (h : E0 a b) (c : Char) :
    (foldChar o1 a c).1 = (foldChar o2 b c).1 ∧ E0 (foldChar o1 a c).2 (foldChar o2 b c).2 ∧
    (foldChar o1 a c).2.currentChar = (foldChar o2 b c).2.currentChar := by
  unfold foldChar
  dsimp only
  by_cases hc : c = '\r'
  · simp only [hc, ↓reduceIte]
    refine ⟨trivial, ?_, rfl⟩
    exact E0_setCurrentChar (E0_maybeErr _ _ (E0_setIgnoreLf h true) _ _) _ _
  · simp only [hc, ↓reduceIte]
    refine ⟨trivial, ?_, rfl⟩
    exact E0_setCurrentChar (E0_maybeErr _ _ h _ _) _ _

/-- a character that is neither CR nor NUL: folding it changes only `current_char` and may log an error -/
theorem foldChar_nb (o : Opts) (m : Mach) (c : Char) (h1 : c ≠ '\r') (h2 : c ≠ '\x00') :
    (foldChar o m c).1 = c ∧ E0 (foldChar o m c).2 m := by
  unfold foldChar
  dsimp only
  simp only [h1, h2, ↓reduceIte]
  refine ⟨trivial, ?_⟩
  apply E0_setCC_l
  split
  · exact E0_emitErr_l (E0.refl m) _
  · exact E0.refl m

theorem foldChar_reconsume (o : Opts) (m : Mach) (c : Char) : (foldChar o m c).2.reconsume = m.reconsume :=
  (foldChar_fields o m c).2.2.2.2
theorem foldChar_state (o : Opts) (m : Mach) (c : Char) : (foldChar o m c).2.state = m.state :=
  (foldChar_fields o m c).2.2.1

/-- relation between two `get_char`-style read results -/
def RdC (r1 r2 : Option Char × Mach × Str) : Prop :=
  r1.1 = r2.1 ∧ r1.2.2 = r2.2.2 ∧ E0 r1.2.1 r2.2.1 ∧
  (r1.1.isSome = true → r1.2.1.currentChar = r2.2.1.currentChar)

theorem preprocess_RdC (o1 o2 : Opts) {a b : Mach} (h : E0 a b) (c : Char) (inp : Str) :
    RdC (preprocess o1 a c inp) (preprocess o2 b c inp) := by
  unfold preprocess
  rw [h.ignoreLf]
  split
  · split
    · cases inp with
      | nil => exact ⟨rfl, rfl, E0_setIgnoreLf h false, by simp⟩
      | cons c' rest =>
        obtain ⟨f1, f2, f3⟩ := foldChar_E0 o1 o2 (E0_setIgnoreLf h false) c'
        exact ⟨by simp only [f1], rfl, f2, fun _ => f3⟩
    · obtain ⟨f1, f2, f3⟩ := foldChar_E0 o1 o2 (E0_setIgnoreLf h false) c
      exact ⟨by simp only [f1], rfl, f2, fun _ => f3⟩
  · obtain ⟨f1, f2, f3⟩ := foldChar_E0 o1 o2 h c
    exact ⟨by simp only [f1], rfl, f2, fun _ => f3⟩

theorem preprocess_reconsume (o : Opts) (m : Mach) (c : Char) (inp : Str) :
    (preprocess o m c inp).2.1.reconsume = m.reconsume := by
  unfold preprocess
  split
  · split
    · cases inp with
      | nil => rfl
      | cons c' rest => simp only [foldChar_reconsume]; rfl
    · simp only [foldChar_reconsume]; rfl
  · simp only [foldChar_reconsume]

theorem preprocess_state (o : Opts) (m : Mach) (c : Char) (inp : Str) :
    (preprocess o m c inp).2.1.state = m.state := by
  unfold preprocess
  split
  · split
    · cases inp with
      | nil => rfl
      | cons c' rest => simp only [foldChar_state]; rfl
    · simp only [foldChar_state]; rfl
  · simp only [foldChar_state]

theorem getChar_RdC (o1 o2 : Opts) {a b : Mach} (h : E a b) (inp : Str) :
    RdC (getChar o1 a inp) (getChar o2 b inp) ∧ (getChar o1 a inp).2.1.reconsume = false ∧
    (getChar o1 a inp).2.1.state = a.state := by
  unfold getChar
  rw [h.1.reconsume]
  split
  · rename_i hr
    exact ⟨⟨congrArg some (h.2 hr), rfl, E0_setReconsume h.1 false, fun _ => h.2 hr⟩, rfl, rfl⟩
  · rename_i hr
    cases inp with
    | nil => exact ⟨⟨rfl, rfl, h.1, by simp⟩, by simpa using hr, rfl⟩
    | cons c rest =>
      exact ⟨preprocess_RdC o1 o2 h.1 c rest, by rw [preprocess_reconsume]; simpa using hr,
        preprocess_state _ _ _ _⟩

/-- `get_char` in the shape the callers use: same character, same rest, `E`-related machines -/
theorem getChar_E (o1 o2 : Opts) {a b : Mach} (h : E a b) (inp : Str) :
    (getChar o2 b inp).1 = (getChar o1 a inp).1 ∧ (getChar o2 b inp).2.2 = (getChar o1 a inp).2.2 ∧
    E (getChar o1 a inp).2.1 (getChar o2 b inp).2.1 := by
  obtain ⟨⟨g1, g2, g3, _⟩, g5, _⟩ := getChar_RdC o1 o2 h inp
  exact ⟨g1.symm, g2.symm, E.of_nrc g3 g5⟩

theorem peek_E {a b : Mach} (h : E a b) (inp : Str) : peek b inp = peek a inp := by
  unfold peek
  rw [h.1.reconsume]
  split
  · rename_i hr; rw [h.2 hr]
  · rfl

/-- relation between two `discard_char` results -/
def DE (r1 r2 : Except String (Mach × Str)) : Prop :=
  match r1, r2 with
  | .ok v1, .ok v2 => E v1.1 v2.1 ∧ v1.2 = v2.2
  | .error x, .error y => x = y
  | _, _ => False

theorem discardChar_DE (o1 o2 : Opts) {a b : Mach} (h : E a b) (inp : Str) :
    DE (discardChar o1 a inp) (discardChar o2 b inp) := by
  unfold discardChar
  obtain ⟨g1, g2, g3⟩ := getChar_E o1 o2 h inp
  generalize getChar o1 a inp = r1 at g1 g2 g3
  generalize getChar o2 b inp = r2 at g1 g2 g3
  obtain ⟨c1, m1, i1⟩ := r1
  obtain ⟨c2, m2, i2⟩ := r2
  dsimp only at g1 g2 g3
  subst g1 g2
  cases c2 with
  | none => exact rfl
  | some c => exact ⟨g3, rfl⟩

/-! ### `pop_except_from` -/

/-- read results of `pop_except_from`: equal, or the same character outside the set once as
`FromSet` (slow path) and once as a one-character `NotFromSet` run (fast path) -/
inductive SRel (S : List Char) : Option SetRes → Option SetRes → Prop
  | none : SRel S none none
  | same (r : SetRes) : SRel S (some r) (some r)
  | fs (c : Char) : S.contains c = false → SRel S (some (.fromSet c)) (some (.notFromSet [c]))
  | sf (c : Char) : S.contains c = false → SRel S (some (.notFromSet [c])) (some (.fromSet c))

theorem SRel.symm {S : List Char} {x y : Option SetRes} (h : SRel S x y) : SRel S y x := by
  cases h with
  | none => exact .none
  | same r => exact .same r
  | fs c hc => exact .sf c hc
  | sf c hc => exact .fs c hc

theorem SRel.of_map {S : List Char} {x y : Option Char} (h : x = y) :
    SRel S (x.map .fromSet) (y.map .fromSet) := by
  subst h; cases x with
  | none => exact .none
  | some c => exact .same _

/-- relation between two `pop_except_from` results -/
def RdS (S : List Char) (st : State) (r1 r2 : Option SetRes × Mach × Str) : Prop :=
  SRel S r1.1 r2.1 ∧ r1.2.2 = r2.2.2 ∧ E0 r1.2.1 r2.2.1 ∧ r1.2.1.reconsume = false ∧ r1.2.1.state = st

theorem RdS.symm {S : List Char} {st : State} {r1 r2 : Option SetRes × Mach × Str} (h : RdS S st r1 r2) :
    RdS S st r2 r1 :=
  ⟨h.1.symm, h.2.1.symm, h.2.2.1.symm, by rw [h.2.2.1.reconsume]; exact h.2.2.2.1,
   by rw [h.2.2.1.state]; exact h.2.2.2.2⟩

def popSlow (o : Opts) (m : Mach) (inp : Str) : Option SetRes × Mach × Str :=
  ((getChar o m inp).1.map .fromSet, (getChar o m inp).2)

def popFast (o : Opts) (S : List Char) (m : Mach) (inp : Str) : Option SetRes × Mach × Str :=
  match inp with
  | [] => (none, m, [])
  | c :: rest =>
    if S.contains c then ((preprocess o m c rest).1.map .fromSet, (preprocess o m c rest).2)
    else (some (.notFromSet [c]), m, rest)

theorem popExceptFrom_eq (o : Opts) (S : List Char) (m : Mach) (inp : Str) :
    popExceptFrom o S m inp =
      if o.exactErrors || m.reconsume || m.ignoreLf then popSlow o m inp else popFast o S m inp := by
  unfold popExceptFrom popSlow popFast
  split
  · rfl
  · cases inp <;> rfl

theorem popSlow_slow (o1 o2 : Opts) (S : List Char) {a b : Mach} (h : E a b) (inp : Str) :
    RdS S a.state (popSlow o1 a inp) (popSlow o2 b inp) := by
  obtain ⟨⟨g1, g2, g3, _⟩, g5, g6⟩ := getChar_RdC o1 o2 h inp
  exact ⟨SRel.of_map g1, g2, g3, g5, g6⟩

theorem popFast_fast (o1 o2 : Opts) (S : List Char) {a b : Mach} (h : E0 a b) (hr : a.reconsume = false)
    (inp : Str) : RdS S a.state (popFast o1 S a inp) (popFast o2 S b inp) := by
  unfold popFast
  cases inp with
  | nil => exact ⟨.none, rfl, h, hr, rfl⟩
  | cons c rest =>
    dsimp only
    split
    · obtain ⟨g1, g2, g3, _⟩ := preprocess_RdC o1 o2 h c rest
      exact ⟨SRel.of_map g1, g2, g3, by rw [preprocess_reconsume]; exact hr, preprocess_state _ _ _ _⟩
    · exact ⟨.same _, rfl, h, hr, rfl⟩

theorem popSlow_fast (o1 o2 : Opts) (S : List Char) (hS : S.contains '\r' = true ∧ S.contains '\x00' = true)
    {a b : Mach} (h : E0 a b) (hr : a.reconsume = false) (hil : a.ignoreLf = false) (inp : Str) :
    RdS S a.state (popSlow o1 a inp) (popFast o2 S b inp) := by
  unfold popSlow popFast
  cases inp with
  | nil =>
    have : getChar o1 a [] = (none, a, []) := by simp [getChar, hr]
    rw [this]
    exact ⟨.none, rfl, h, hr, rfl⟩
  | cons c rest =>
    have hg : getChar o1 a (c :: rest) = preprocess o1 a c rest := by simp [getChar, hr]
    rw [hg]
    dsimp only
    split
    · obtain ⟨g1, g2, g3, _⟩ := preprocess_RdC o1 o2 h c rest
      exact ⟨SRel.of_map g1, g2, g3, by rw [preprocess_reconsume]; exact hr, preprocess_state _ _ _ _⟩
    · rename_i hc
      have hc' : S.contains c = false := by simpa using hc
      have h1 : c ≠ '\r' := by intro e; rw [e, hS.1] at hc'; cases hc'
      have h2 : c ≠ '\x00' := by intro e; rw [e, hS.2] at hc'; cases hc'
      rw [preprocess_plain o1 a c rest hil]
      obtain ⟨f1, f2⟩ := foldChar_nb o1 a c h1 h2
      dsimp only
      rw [f1]
      exact ⟨.fs c hc', rfl, f2.trans h, by rw [foldChar_reconsume]; exact hr, foldChar_state _ _ _⟩

theorem popExceptFrom_RdS (o1 o2 : Opts) (S : List Char)
    (hS : S.contains '\r' = true ∧ S.contains '\x00' = true) {a b : Mach} (h : E a b) (inp : Str) :
    RdS S a.state (popExceptFrom o1 S a inp) (popExceptFrom o2 S b inp) := by
  rw [popExceptFrom_eq, popExceptFrom_eq, h.1.reconsume, h.1.ignoreLf]
  by_cases hr : a.reconsume = true
  · simp only [hr, Bool.or_true, Bool.true_or, ↓reduceIte]
    exact popSlow_slow o1 o2 S h inp
  · have hr' : a.reconsume = false := by simpa using hr
    by_cases hil : a.ignoreLf = true
    · simp only [hil, Bool.or_true, ↓reduceIte]
      exact popSlow_slow o1 o2 S h inp
    · have hil' : a.ignoreLf = false := by simpa using hil
      simp only [hr', hil', Bool.or_false]
      cases h1 : o1.exactErrors <;> cases h2 : o2.exactErrors
      · simp only [Bool.false_eq_true, ↓reduceIte]
        exact popFast_fast o1 o2 S h.1 hr' inp
      · simp only [Bool.false_eq_true, ↓reduceIte]
        have := popSlow_fast o2 o1 S hS h.1.symm (by rw [h.1.reconsume]; exact hr')
          (by rw [h.1.ignoreLf]; exact hil') inp
        rw [h.1.state] at this
        exact this.symm
      · simp only [Bool.false_eq_true, ↓reduceIte]
        exact popSlow_fast o1 o2 S hS h.1 hr' hil' inp
      · simp only [↓reduceIte]
        exact popSlow_slow o1 o2 S h inp

theorem setOf_has (s : State) (hk : readKind s = .popExcept) :
    (setOf s).contains '\r' = true ∧ (setOf s).contains '\x00' = true := by
  cases s <;> simp [readKind] at hk
  · decide
  · rename_i k; cases k <;> decide


/-! ### step results -/

/-- relation between two step results: same constructor, same remaining input, `E`-related machines,
same panic -/
def RE : R → R → Prop
  | .cont a i, .cont b j => E a b ∧ i = j
  | .suspend a i, .suspend b j => E a b ∧ i = j
  | .panic x, .panic y => x = y
  | _, _ => False

theorem RE_ofSig {x y : Mach × Sig} (h : RelS x y)
    (he : x.1.reconsume = true → x.1.currentChar = y.1.currentChar) (i : Str) :
    RE (ofSig x i) (ofSig y i) := by
  obtain ⟨x1, x2⟩ := x
  obtain ⟨y1, y2⟩ := y
  obtain ⟨h1, h2⟩ := h
  dsimp only at h1 h2 he
  subst h2
  unfold ofSig
  cases x2 with
  | cont => exact ⟨⟨h1, he⟩, rfl⟩
  | panic e => exact rfl

theorem RE_ofSig' {x y : Mach × Sig} (h1 : E x.1 y.1) (h2 : x.2 = y.2) (i : Str) : RE (ofSig x i) (ofSig y i) :=
  RE_ofSig ⟨h1.1, h2⟩ h1.2 i

theorem contChar_RE (o1 o2 : Opts) {r1 r2 : Option Char × Mach × Str}
    (h : RdC r1 r2) (hr : r1.2.1.reconsume = false) : RE (contChar o1 r1) (contChar o2 r2) := by
  obtain ⟨c1, m1, i1⟩ := r1
  obtain ⟨c2, m2, i2⟩ := r2
  obtain ⟨g1, g2, g3, g4⟩ := h
  dsimp only at g1 g2 g3 g4 hr
  subst g1 g2
  cases c1 with
  | none => exact ⟨E.of_nrc g3 hr, rfl⟩
  | some c =>
    exact RE_ofSig (transChar_E0 o1 o2 g3 c)
      (fun _ => by rw [transChar_cc, transChar_cc]; exact g4 rfl) _

/-- a character outside the set: slow path (`FromSet`) on one side, fast path (`NotFromSet`) on the other -/
theorem transSet_fs {m1 m2 : Mach} (h : E0 m1 m2) (c : Char)
    (hk : readKind m1.state = .popExcept) (hc : (setOf m1.state).contains c = false) :
    RelS (transSet m1 (.fromSet c)) (transSet m2 (.notFromSet [c])) := by
  have hx : c ∉ setOf m1.state := by
    intro hm
    have : (setOf m1.state).contains c = true := by simpa using hm
    rw [hc] at this; cases this
  rw [transSet_dead m1 c hk hx]
  exact transSet_E0 h _

theorem contSet_RE {st : State} (hk : readKind st = .popExcept) {r1 r2 : Option SetRes × Mach × Str}
    (h : RdS (setOf st) st r1 r2) : RE (contSet r1) (contSet r2) := by
  obtain ⟨c1, m1, i1⟩ := r1
  obtain ⟨c2, m2, i2⟩ := r2
  obtain ⟨g1, g2, g3, g4, g5⟩ := h
  dsimp only at g1 g2 g3 g4 g5
  subst g2
  cases g1 with
  | none => exact ⟨E.of_nrc g3 g4, rfl⟩
  | same r =>
    refine RE_ofSig (transSet_E0 g3 r) ?_ _
    intro hr; rw [transSet_rc, g4] at hr; cases hr
  | fs c hc =>
    refine RE_ofSig (transSet_fs g3 c (by rw [g5]; exact hk) (by rw [g5]; exact hc)) ?_ _
    intro hr; rw [transSet_rc, g4] at hr; cases hr
  | sf c hc =>
    have g5' : m2.state = st := by rw [g3.state]; exact g5
    refine RE_ofSig (transSet_fs g3.symm c (by rw [g5']; exact hk) (by rw [g5']; exact hc)).symm ?_ _
    intro hr; rw [transSet_rc, g4] at hr; cases hr

/-! ### E-level congruences for the helpers used outside the tables -/

theorem E0_nameErr {a b : Mach} (h : E0 a b) (o1 o2 : Opts) (nb : Str) : E0 (nameErr o1 a nb) (nameErr o2 b nb) := by
  unfold nameErr emitErr
  split <;> split <;> exact E0_emitErr2 h _ _
@[simp] theorem nameErr_reconsume (o : Opts) (m : Mach) (nb : Str) : (nameErr o m nb).reconsume = m.reconsume := by
  unfold nameErr; split <;> rfl
@[simp] theorem nameErr_currentChar (o : Opts) (m : Mach) (nb : Str) : (nameErr o m nb).currentChar = m.currentChar := by
  unfold nameErr; split <;> rfl

theorem E_emitErr {a b : Mach} (h : E a b) (s : String) : E (emitErr a s) (emitErr b s) :=
  h.lift (E0_emitErr h.1 s) (by simp) (by simp) (by simp)
theorem E_emitErr2 {a b : Mach} (h : E a b) (s t : Str) : E (emit a (.error s)) (emit b (.error t)) :=
  h.lift (E0_emitErr2 h.1 s t) (by simp) (by simp) (by simp)
theorem E_nameErr {a b : Mach} (h : E a b) (o1 o2 : Opts) (nb : Str) : E (nameErr o1 a nb) (nameErr o2 b nb) :=
  h.lift (E0_nameErr h.1 o1 o2 nb) (by simp) (by simp) (by simp)
theorem E_setIgnoreLf {a b : Mach} (h : E a b) (x : Bool) : E (a.setIgnoreLf x) (b.setIgnoreLf x) :=
  h.lift (E0_setIgnoreLf h.1 x) (by simp) (by simp) (by simp)
theorem E_setCharRef {a b : Mach} (h : E a b) (x : Option CharRefSt) : E (a.setCharRef x) (b.setCharRef x) :=
  h.lift (E0_setCharRef h.1 x) (by simp) (by simp) (by simp)
theorem E_setTempBuf {a b : Mach} (h : E a b) (x : Str) : E (a.setTempBuf x) (b.setTempBuf x) :=
  h.lift (E0_setTempBuf h.1 x) (by simp) (by simp) (by simp)
theorem E_setAtEof {a b : Mach} (h : E a b) (x : Bool) : E (a.setAtEof x) (b.setAtEof x) :=
  h.lift (E0_setAtEof h.1 x) (by simp) (by simp) (by simp)
theorem E_setDiscardBom {a b : Mach} (h : E a b) (x : Bool) : E (a.setDiscardBom x) (b.setDiscardBom x) :=
  h.lift (E0_setDiscardBom h.1 x) (by simp) (by simp) (by simp)
theorem E_to {a b : Mach} (h : E a b) (s : State) : E (to s a) (to s b) :=
  h.lift (E0_to h.1 s) (by simp) (by simp) (by simp)
theorem E_clearComment {a b : Mach} (h : E a b) : E (clearComment a) (clearComment b) :=
  h.lift (E0_clearComment h.1) (by simp) (by simp) (by simp)
theorem E_badChar {a b : Mach} (h : E a b) (o1 o2 : Opts) : E (badChar o1 a) (badChar o2 b) :=
  h.lift (E0_badChar h.1 o1 o2) (by simp) (by simp) (by simp)
theorem E_emitChar {a b : Mach} (h : E a b) (c : Char) : E (emitChar a c) (emitChar b c) :=
  h.lift (E0_emitChar h.1 c) (by simp) (by simp) (by simp)
theorem E_pushValue {a b : Mach} (h : E a b) (c : Char) : E (pushValue c a) (pushValue c b) :=
  h.lift (E0_pushValue h.1 c) (by simp) (by simp) (by simp)
theorem E_ite (c : Prop) [Decidable c] {a b a' b' : Mach} (h1 : E a b) (h2 : E a' b') :
    E (if c then a else a') (if c then b else b') := by
  split <;> assumption

theorem unconsume_E {a b : Mach} (h : E a b) (inp buf : Str) :
    E (unconsume a inp buf).1 (unconsume b inp buf).1 ∧ (unconsume b inp buf).2 = (unconsume a inp buf).2 := by
  unfold unconsume
  rw [h.1.ignoreLf]
  split
  · exact ⟨E_setIgnoreLf h false, rfl⟩
  · exact ⟨h, rfl⟩

/-! ### the character-reference sub-tokenizer -/

/-- relation between two char-ref step results -/
def CRE (r1 r2 : CRRes) : Prop :=
  match r1, r2 with
  | .ok v1, .ok v2 => E v1.1 v2.1 ∧ v1.2.1 = v2.2.1 ∧ v1.2.2.1 = v2.2.2.1 ∧ v1.2.2.2 = v2.2.2.2
  | .error x, .error y => x = y
  | _, _ => False

theorem CRE_ok {m1 m2 : Mach} (h : E m1 m2) (i : Str) (c : CharRefSt) (s : CRStatus) :
    CRE (.ok (m1, i, c, s)) (.ok (m2, i, c, s)) := ⟨h, rfl, rfl, rfl⟩
theorem CRE_err (e : String) : CRE (.error e) (.error e) := rfl

theorem finishNumeric_E (o1 o2 : Opts) {a b : Mach} (h : E a b) (cr : CharRefSt) :
    E (finishNumeric o1 a cr).1 (finishNumeric o2 b cr).1 ∧
    (finishNumeric o1 a cr).2 = (finishNumeric o2 b cr).2 := by
  unfold finishNumeric
  dsimp only
  repeat' split
  all_goals
    first
    | exact ⟨h, rfl⟩
    | exact ⟨E_emitErr2 h _ _, rfl⟩

theorem unconsume_CRE (h : E a b) (inp buf : Str) (cr : CharRefSt) (st : CRStatus) :
    CRE (.ok ((unconsume a inp buf).1, (unconsume a inp buf).2, cr, st))
      (.ok ((unconsume b inp buf).1, (unconsume b inp buf).2, cr, st)) := by
  obtain ⟨u1, u2⟩ := unconsume_E h inp buf
  rw [u2]
  exact CRE_ok u1 _ _ _

theorem unconsume_CRE_err (h : E a b) (inp buf : Str) (s : String) (cr : CharRefSt) (st : CRStatus) :
    CRE (.ok (emitErr (unconsume a inp buf).1 s, (unconsume a inp buf).2, cr, st))
      (.ok (emitErr (unconsume b inp buf).1 s, (unconsume b inp buf).2, cr, st)) := by
  obtain ⟨u1, u2⟩ := unconsume_E h inp buf
  rw [u2]
  exact CRE_ok (E_emitErr u1 _) _ _ _

theorem finishNumericStatus_CRE (o1 o2 : Opts) {a b : Mach} (h : E a b) (inp : Str) (cr : CharRefSt) :
    CRE (finishNumericStatus o1 a inp cr) (finishNumericStatus o2 b inp cr) := by
  unfold finishNumericStatus
  obtain ⟨f1, f2⟩ := finishNumeric_E o1 o2 h cr
  generalize finishNumeric o1 a cr = r1 at f1 f2
  generalize finishNumeric o2 b cr = r2 at f1 f2
  obtain ⟨m1, v1⟩ := r1
  obtain ⟨m2, v2⟩ := r2
  dsimp only at f1 f2
  subst f2
  cases v1 with
  | error e => exact CRE_err _
  | ok c => exact CRE_ok f1 _ _ _

theorem unconsumeNumeric_CRE {a b : Mach} (h : E a b) (inp : Str) (cr : CharRefSt) :
    CRE (unconsumeNumeric a inp cr) (unconsumeNumeric b inp cr) := by
  unfold unconsumeNumeric
  dsimp only
  exact unconsume_CRE_err h _ _ _ _ _

theorem unconsumeName_CRE {a b : Mach} (h : E a b) (inp : Str) (cr : CharRefSt) :
    CRE (unconsumeName a inp cr) (unconsumeName b inp cr) := by
  unfold unconsumeName
  split
  · exact CRE_err _
  · dsimp only
    exact unconsume_CRE h _ _ _ _

/-- relation between two results of `namedDecision` -/
def NDE (r1 r2 : Except String (Mach × Option Str)) : Prop :=
  match r1, r2 with
  | .ok v1, .ok v2 => E v1.1 v2.1 ∧ v1.2 = v2.2
  | .error x, .error y => x = y
  | _, _ => False

theorem namedDecision_NDE {a b : Mach} (h : E a b) (cr : CharRefSt) (nb : Str) (c1 c2 : Nat) :
    NDE (namedDecision a cr nb c1 c2) (namedDecision b cr nb c1 c2) := by
  unfold namedDecision
  dsimp only
  repeat' split
  all_goals
    first
    | exact rfl
    | exact ⟨h, rfl⟩
    | exact ⟨E_emitErr h _, rfl⟩

theorem finishNamed_CRE (o1 o2 : Opts) {a b : Mach} (h : E a b) (inp : Str) (cr : CharRefSt) (e : Option Char) :
    CRE (finishNamed o1 a inp cr e) (finishNamed o2 b inp cr e) := by
  unfold finishNamed
  split
  · exact CRE_err _
  · split
    · dsimp only
      repeat' split
      all_goals
        first
        | exact CRE_ok h _ _ _
        | exact unconsumeName_CRE h _ _
        | exact unconsumeName_CRE (E_nameErr h o1 o2 _) _ _
    · rename_i nb _ _ c1 c2 _
      have hn := namedDecision_NDE h cr nb c1 c2
      generalize namedDecision a cr nb c1 c2 = r1 at hn
      generalize namedDecision b cr nb c1 c2 = r2 at hn
      cases r1 with
      | error e1 =>
        cases r2 with
        | error e2 =>
          have : e1 = e2 := hn
          subst this; exact CRE_err _
        | ok v2 => exact hn.elim
      | ok v1 =>
        cases r2 with
        | error e2 => exact hn.elim
        | ok v2 =>
          obtain ⟨x1, y1⟩ := v1
          obtain ⟨x2, y2⟩ := v2
          obtain ⟨g1, g2⟩ := hn
          dsimp only at g1 g2
          subst g2
          cases y1 with
          | none => exact unconsumeName_CRE g1 _ _
          | some chars =>
            dsimp only
            exact unconsume_CRE g1 _ _ _ _

theorem crStep_CRE (o1 o2 : Opts) {a b : Mach} (h : E a b) (inp : Str) (cr : CharRefSt) :
    CRE (crStep o1 a inp cr) (crStep o2 b inp cr) := by
  have hd := discardChar_DE o1 o2 h inp
  obtain ⟨g1, g2, g3⟩ := getChar_E o1 o2 h inp
  unfold crStep
  rw [peek_E h]
  generalize discardChar o1 a inp = d1 at hd
  generalize discardChar o2 b inp = d2 at hd
  generalize getChar o1 a inp = r1 at g1 g2 g3
  generalize getChar o2 b inp = r2 at g1 g2 g3
  obtain ⟨c1, m1, i1⟩ := r1
  obtain ⟨c2, m2, i2⟩ := r2
  dsimp only at g1 g2 g3
  subst g1 g2
  cases d1 with
  | error e1 =>
    cases d2 with
    | ok v2 => exact hd.elim
    | error e2 =>
      have : e1 = e2 := hd
      subst this
      cases c2 <;>
      (dsimp only; split <;> (repeat' split) <;> (try dsimp only) <;>
        first
        | exact CRE_ok h _ _ _
        | exact CRE_ok g3 _ _ _
        | exact CRE_err _
        | exact unconsumeNumeric_CRE h _ _
        | exact unconsumeName_CRE g3 _ _
        | exact unconsumeName_CRE (E_nameErr g3 o1 o2 _) _ _
        | exact finishNumericStatus_CRE o1 o2 (E_emitErr h _) _ _
        | exact finishNamed_CRE o1 o2 g3 _ _ _)
  | ok v1 =>
    cases d2 with
    | error e2 => exact hd.elim
    | ok v2 =>
      obtain ⟨x1, j1⟩ := v1
      obtain ⟨x2, j2⟩ := v2
      obtain ⟨hd1, hd2⟩ := hd
      dsimp only at hd1 hd2
      subst hd2
      cases c2 <;>
      (dsimp only; split <;> (repeat' split) <;> (try dsimp only) <;>
        first
        | exact CRE_ok h _ _ _
        | exact CRE_ok g3 _ _ _
        | exact CRE_ok hd1 _ _ _
        | exact CRE_err _
        | exact unconsumeNumeric_CRE h _ _
        | exact unconsumeName_CRE g3 _ _
        | exact unconsumeName_CRE (E_nameErr g3 o1 o2 _) _ _
        | exact finishNumericStatus_CRE o1 o2 hd1 _ _
        | exact finishNumericStatus_CRE o1 o2 (E_emitErr h _) _ _
        | exact finishNamed_CRE o1 o2 g3 _ _ _)

theorem foldl_emitChar_E (cs : Str) : ∀ {a b : Mach}, E a b → E (cs.foldl emitChar a) (cs.foldl emitChar b) := by
  induction cs with
  | nil => intro a b h; exact h
  | cons c cs ih => intro a b h; exact ih (E_emitChar h c)

theorem foldl_pushValue_E (cs : Str) : ∀ {a b : Mach}, E a b →
    E (cs.foldl (fun m c => pushValue c m) a) (cs.foldl (fun m c => pushValue c m) b) := by
  induction cs with
  | nil => intro a b h; exact h
  | cons c cs ih => intro a b h; exact ih (E_pushValue h c)

theorem processCharRef_E {a b : Mach} (h : E a b) (chars : Str) :
    E (processCharRef a chars).1 (processCharRef b chars).1 ∧
    (processCharRef a chars).2 = (processCharRef b chars).2 := by
  unfold processCharRef
  rw [h.1.state]
  dsimp only
  split
  · exact ⟨foldl_emitChar_E _ h, rfl⟩
  · exact ⟨foldl_emitChar_E _ h, rfl⟩
  · exact ⟨foldl_pushValue_E _ h, rfl⟩
  · exact ⟨h, rfl⟩

theorem stepCharRef_RE (o1 o2 : Opts) {a b : Mach} (h : E a b) (inp : Str) (cr : CharRefSt) :
    RE (stepCharRef o1 a inp cr) (stepCharRef o2 b inp cr) := by
  unfold stepCharRef
  have hc := crStep_CRE o1 o2 h inp cr
  generalize crStep o1 a inp cr = r1 at hc
  generalize crStep o2 b inp cr = r2 at hc
  cases r1 with
  | error e1 =>
    cases r2 with
    | error e2 => exact hc
    | ok v2 => exact hc.elim
  | ok v1 =>
    cases r2 with
    | error e2 => exact hc.elim
    | ok v2 =>
      obtain ⟨m1, i1, c1, s1⟩ := v1
      obtain ⟨m2, i2, c2, s2⟩ := v2
      obtain ⟨g1, g2, g3, g4⟩ := hc
      dsimp only at g1 g2 g3 g4
      subst g2 g3 g4
      cases s1 with
      | stuck => exact ⟨E_setCharRef g1 _, rfl⟩
      | progress => exact ⟨E_setCharRef g1 _, rfl⟩
      | done chars =>
        obtain ⟨p1, p2⟩ := processCharRef_E g1 chars
        exact RE_ofSig' (x := ((processCharRef m1 chars).1.setCharRef none, (processCharRef m1 chars).2))
          (y := ((processCharRef m2 chars).1.setCharRef none, (processCharRef m2 chars).2))
          (E_setCharRef p1 none) p2 _

/-! ### `eat` states -/

theorem eatSkipLf_E (o1 o2 : Opts) {a b : Mach} (h : E a b) (inp : Str) :
    E (eatSkipLf o1 a inp).1 (eatSkipLf o2 b inp).1 ∧ (eatSkipLf o2 b inp).2 = (eatSkipLf o1 a inp).2 := by
  unfold eatSkipLf
  rw [peek_E h, h.1.ignoreLf]
  split
  · split
    · split
      · obtain ⟨_, g2, g3⟩ := getChar_E o1 o2 (E_setIgnoreLf h false) inp
        exact ⟨g3, g2⟩
      · exact ⟨E_setIgnoreLf h false, rfl⟩
    · exact ⟨h, rfl⟩
  · exact ⟨h, rfl⟩

/-- relation between two `eat` results -/
def RdB (r1 r2 : Option Bool × Mach × Str) : Prop := r1.1 = r2.1 ∧ r1.2.2 = r2.2.2 ∧ E r1.2.1 r2.2.1

theorem eat_E (o1 o2 : Opts) {a b : Mach} (h : E a b) (inp pat : Str) :
    RdB (eat o1 a inp pat) (eat o2 b inp pat) := by
  rw [eat_eq_core, eat_eq_core]
  obtain ⟨h1, h2⟩ := eatSkipLf_E o1 o2 h inp
  rw [h2]
  generalize (eatSkipLf o1 a inp).1 = a' at h1
  generalize (eatSkipLf o2 b inp).1 = b' at h1
  generalize (eatSkipLf o1 a inp).2 = i'
  unfold eatCore
  rw [h1.1.tempBuf, h1.1.atEof]
  repeat' split
  all_goals exact ⟨rfl, rfl, E_setTempBuf h1 _⟩

theorem stepMd_RE (o1 o2 : Opts) {a b : Mach} (h : E a b) (inp : Str) :
    RE (stepMd o1 a inp) (stepMd o2 b inp) := by
  unfold stepMd
  have e1 := eat_E o1 o2 h inp kwDashDash
  generalize eat o1 a inp kwDashDash = r1 at e1
  generalize eat o2 b inp kwDashDash = r2 at e1
  obtain ⟨x1, m1, i1⟩ := r1
  obtain ⟨y1, n1, j1⟩ := r2
  obtain ⟨g1, g2, g3⟩ := e1
  dsimp only at g1 g2 g3
  subst g1 g2
  cases x1 with
  | none => exact ⟨g3, rfl⟩
  | some t1 =>
    cases t1 with
    | true => exact ⟨E_to (E_clearComment g3) _, rfl⟩
    | false =>
      dsimp only
      have e2 := eat_E o1 o2 g3 i1 kwCdata
      generalize eat o1 m1 i1 kwCdata = r1 at e2
      generalize eat o2 n1 i1 kwCdata = r2 at e2
      obtain ⟨x2, m2, i2⟩ := r1
      obtain ⟨y2, n2, j2⟩ := r2
      obtain ⟨g1, g2, g4⟩ := e2
      dsimp only at g1 g2 g4
      subst g1 g2
      cases x2 with
      | none => exact ⟨g4, rfl⟩
      | some t2 =>
        cases t2 with
        | true => exact ⟨E_to g4 _, rfl⟩
        | false =>
          dsimp only
          have e3 := eat_E o1 o2 g4 i2 kwDoctype
          generalize eat o1 m2 i2 kwDoctype = r1 at e3
          generalize eat o2 n2 i2 kwDoctype = r2 at e3
          obtain ⟨x3, m3, i3⟩ := r1
          obtain ⟨y3, n3, j3⟩ := r2
          obtain ⟨g1, g2, g5⟩ := e3
          dsimp only at g1 g2 g5
          subst g1 g2
          cases x3 with
          | none => exact ⟨g5, rfl⟩
          | some t3 =>
            cases t3 with
            | true => exact ⟨E_to g5 _, rfl⟩
            | false => exact ⟨E_to (E_badChar g5 o1 o2) _, rfl⟩

theorem stepAdn_RE (o1 o2 : Opts) {a b : Mach} (h : E a b) (inp : Str) :
    RE (stepAdn o1 a inp) (stepAdn o2 b inp) := by
  unfold stepAdn
  have e1 := eat_E o1 o2 h inp kwPublic
  generalize eat o1 a inp kwPublic = r1 at e1
  generalize eat o2 b inp kwPublic = r2 at e1
  obtain ⟨x1, m1, i1⟩ := r1
  obtain ⟨y1, n1, j1⟩ := r2
  obtain ⟨g1, g2, g3⟩ := e1
  dsimp only at g1 g2 g3
  subst g1 g2
  cases x1 with
  | none => exact ⟨g3, rfl⟩
  | some t1 =>
    cases t1 with
    | true => exact ⟨E_to g3 _, rfl⟩
    | false =>
      dsimp only
      have e2 := eat_E o1 o2 g3 i1 kwSystem
      generalize eat o1 m1 i1 kwSystem = r1 at e2
      generalize eat o2 n1 i1 kwSystem = r2 at e2
      obtain ⟨x2, m2, i2⟩ := r1
      obtain ⟨y2, n2, j2⟩ := r2
      obtain ⟨g1, g2, g4⟩ := e2
      dsimp only at g1 g2 g4
      subst g1 g2
      cases x2 with
      | none => exact ⟨g4, rfl⟩
      | some t2 =>
        cases t2 with
        | true => exact ⟨E_to g4 _, rfl⟩
        | false =>
          dsimp only
          obtain ⟨⟨k1, k2, k3, k4⟩, k5, _⟩ := getChar_RdC o1 o2 g4 i2
          generalize getChar o1 m2 i2 = r1 at k1 k2 k3 k4 k5
          generalize getChar o2 n2 i2 = r2 at k1 k2 k3 k4
          have key := contChar_RE o1 o2 (r1 := r1) (r2 := r2) ⟨k1, k2, k3, k4⟩ k5
          obtain ⟨c1, m3, i3⟩ := r1
          obtain ⟨c2, n3, j3⟩ := r2
          cases c1 <;> cases c2 <;> exact key

/-! ### one step, whole runs -/

/-- **one step with any two option values on `E`-related machines gives `E`-related results** -/
theorem step_RE (o1 o2 : Opts) {a b : Mach} (h : E a b) (inp : Str) :
    RE (step o1 a inp) (step o2 b inp) := by
  cases hcr : a.charRef with
  | some cr =>
    rw [step_kind_charRef o1 a inp cr hcr, step_kind_charRef o2 b inp cr (by rw [h.1.charRef]; exact hcr)]
    exact stepCharRef_RE o1 o2 h inp cr
  | none =>
    have hcr' : b.charRef = none := by rw [h.1.charRef]; exact hcr
    cases hrk : readKind a.state with
    | getChar =>
      rw [step_getChar o1 a inp hcr hrk, step_getChar o2 b inp hcr' (by rw [h.1.state]; exact hrk)]
      obtain ⟨k1, k2, _⟩ := getChar_RdC o1 o2 h inp
      exact contChar_RE o1 o2 k1 k2
    | popExcept =>
      rw [step_popExcept o1 a inp hcr hrk, step_popExcept o2 b inp hcr' (by rw [h.1.state]; exact hrk),
        h.1.state]
      exact contSet_RE hrk (popExceptFrom_RdS o1 o2 _ (setOf_has a.state hrk) h inp)
    | eatMd =>
      rw [step_kind_md o1 a inp hcr hrk, step_kind_md o2 b inp hcr' (by rw [h.1.state]; exact hrk)]
      exact stepMd_RE o1 o2 h inp
    | eatAdn =>
      rw [step_kind_adn o1 a inp hcr hrk, step_kind_adn o2 b inp hcr' (by rw [h.1.state]; exact hrk)]
      exact stepAdn_RE o1 o2 h inp

/-- relation between two results of `run` -/
def RunE : RunRes → RunRes → Prop
  | .done a i, .done b j => E a b ∧ i = j
  | .panic x, .panic y => x = y
  | .outOfFuel, .outOfFuel => True
  | _, _ => False

theorem run_RunE (o1 o2 : Opts) (fuel : Nat) :
    ∀ {a b : Mach}, E a b → ∀ inp, RunE (run o1 fuel a inp) (run o2 fuel b inp) := by
  induction fuel with
  | zero => intro a b _ inp; exact True.intro
  | succ n ih =>
    intro a b h inp
    have hs := step_RE o1 o2 h inp
    unfold run
    generalize step o1 a inp = r1 at hs
    generalize step o2 b inp = r2 at hs
    cases r1 <;> cases r2 <;> first | exact hs.elim | skip
    · obtain ⟨g1, g2⟩ := hs; subst g2; exact ih g1 _
    · exact hs
    · exact hs

theorem feedBom_E {a b : Mach} (h : E a b) (inp : Str) :
    E (feedBom a inp).1 (feedBom b inp).1 ∧ (feedBom b inp).2 = (feedBom a inp).2 := by
  unfold feedBom
  cases inp with
  | nil => exact ⟨h, rfl⟩
  | cons c rest =>
    dsimp only
    rw [h.1.discardBom]
    split
    · exact ⟨E_setDiscardBom h false, rfl⟩
    · exact ⟨h, rfl⟩

theorem feed_RunE (o1 o2 : Opts) {a b : Mach} (h : E a b) (inp chunk : Str) :
    RunE (feed o1 a inp chunk) (feed o2 b inp chunk) := by
  unfold feed
  dsimp only
  split
  · exact ⟨h, rfl⟩
  · obtain ⟨h1, h2⟩ := feedBom_E h (inp ++ chunk)
    rw [h2, h1.1.fuelFor]
    exact run_RunE o1 o2 _ h1 _

/-! ### `XmlTokenizer::end` -/

theorem eofLoop_E0 (o1 o2 : Opts) (fuel : Nat) : ∀ {a b : Mach}, E0 a b →
    (eofLoop o1 fuel a).map (fun m => noErr m.out) = (eofLoop o2 fuel b).map (fun m => noErr m.out) := by
  induction fuel with
  | zero => intro a b _; rfl
  | succ n ih =>
    intro a b h
    obtain ⟨t1, t2⟩ := transEof_E0 o1 o2 h
    unfold eofLoop
    generalize transEof o1 a = r1 at t1 t2
    generalize transEof o2 b = r2 at t1 t2
    obtain ⟨m1, s1⟩ := r1
    obtain ⟨m2, s2⟩ := r2
    dsimp only at t1 t2
    subst t2
    cases s1 with
    | cont => exact ih t1
    | done => simp only [Except.map]; rw [t1.out]
    | panic e => rfl

/-- one round of the char-ref tokenizer's `end_of_file` (the local `once` of `crEof`) -/
def crEofOnceE (o : Opts) (m : Mach) (inp : Str) (cr : CharRefSt) : CRRes :=
  match cr.state with
  | .begin => .ok (m, inp, cr, .done [])
  | .numeric _ =>
    if !cr.seenDigit then unconsumeNumeric m inp cr
    else finishNumericStatus o (emitErr m "EOF in numeric character reference") inp cr
  | .numericSemicolon =>
    finishNumericStatus o (emitErr m "EOF in numeric character reference") inp cr
  | .named => finishNamed o m inp cr none
  | .bogusName => unconsumeName m inp cr
  | .octothorpe =>
    let mi := unconsume m inp ['#']
    .ok (emitErr mi.1 "EOF after '#' in character reference", mi.2, cr, .done [])

def crEofLast : CRRes → Except String (Mach × Str × Str)
  | .error e => .error e
  | .ok (m, inp, _, .done chars) => .ok (m, inp, chars)
  | .ok (_, _, _, _) => .error "end_of_file: does not terminate"

def crEofDrive (o : Opts) : CRRes → Except String (Mach × Str × Str)
  | .error e => .error e
  | .ok (m, inp, _, .done chars) => .ok (m, inp, chars)
  | .ok (_, _, _, .stuck) => .error "end_of_file: unexpected Stuck"
  | .ok (m, inp, cr, .progress) => crEofLast (crEofOnceE o m inp cr)

theorem crEof_eqE (o : Opts) (m : Mach) (inp : Str) (cr : CharRefSt) :
    crEof o m inp cr = crEofDrive o (crEofOnceE o m inp cr) := by
  unfold crEof crEofDrive crEofLast crEofOnceE
  rfl

theorem crEofOnce_CRE (o1 o2 : Opts) {a b : Mach} (h : E a b) (inp : Str) (cr : CharRefSt) :
    CRE (crEofOnceE o1 a inp cr) (crEofOnceE o2 b inp cr) := by
  unfold crEofOnceE
  dsimp only
  split <;> (repeat' split) <;>
    first
    | exact CRE_ok h _ _ _
    | exact unconsume_CRE_err h _ _ _ _ _
    | exact unconsumeNumeric_CRE h _ _
    | exact unconsumeName_CRE h _ _
    | exact finishNumericStatus_CRE o1 o2 (E_emitErr h _) _ _
    | exact finishNamed_CRE o1 o2 h _ _ _

/-- relation between two results of `crEof` -/
def CEE (r1 r2 : Except String (Mach × Str × Str)) : Prop :=
  match r1, r2 with
  | .ok v1, .ok v2 => E v1.1 v2.1 ∧ v1.2.1 = v2.2.1 ∧ v1.2.2 = v2.2.2
  | .error x, .error y => x = y
  | _, _ => False

theorem crEofLast_CEE {r1 r2 : CRRes} (h : CRE r1 r2) : CEE (crEofLast r1) (crEofLast r2) := by
  cases r1 with
  | error e1 =>
    cases r2 with
    | error e2 => exact h
    | ok v2 => exact h.elim
  | ok v1 =>
    cases r2 with
    | error e2 => exact h.elim
    | ok v2 =>
      obtain ⟨m1, i1, c1, s1⟩ := v1
      obtain ⟨m2, i2, c2, s2⟩ := v2
      obtain ⟨g1, g2, g3, g4⟩ := h
      dsimp only at g1 g2 g3 g4
      subst g2 g3 g4
      cases s1 with
      | done chars => exact ⟨g1, rfl, rfl⟩
      | stuck => exact rfl
      | progress => exact rfl

theorem crEofDrive_CEE (o1 o2 : Opts) {r1 r2 : CRRes} (h : CRE r1 r2) :
    CEE (crEofDrive o1 r1) (crEofDrive o2 r2) := by
  cases r1 with
  | error e1 =>
    cases r2 with
    | error e2 => exact h
    | ok v2 => exact h.elim
  | ok v1 =>
    cases r2 with
    | error e2 => exact h.elim
    | ok v2 =>
      obtain ⟨m1, i1, c1, s1⟩ := v1
      obtain ⟨m2, i2, c2, s2⟩ := v2
      obtain ⟨g1, g2, g3, g4⟩ := h
      dsimp only at g1 g2 g3 g4
      subst g2 g3 g4
      cases s1 with
      | stuck => exact rfl
      | done chars => exact ⟨g1, rfl, rfl⟩
      | progress => exact crEofLast_CEE (crEofOnce_CRE o1 o2 g1 _ _)

theorem crEof_CEE (o1 o2 : Opts) {a b : Mach} (h : E a b) (inp : Str) (cr : CharRefSt) :
    CEE (crEof o1 a inp cr) (crEof o2 b inp cr) := by
  rw [crEof_eqE, crEof_eqE]
  exact crEofDrive_CEE o1 o2 (crEofOnce_CRE o1 o2 h inp cr)

/-- the part of `XmlTokenizer::end` before the final `run`: finish a pending character reference -/
def finishPreE (o : Opts) (m : Mach) : Except String (Mach × Str) :=
  match m.charRef with
  | none => .ok (m, [])
  | some cr =>
    match crEof o m [] cr with
    | .error e => .error e
    | .ok (m, inp, chars) =>
      match processCharRef (m.setCharRef none) chars with
      | (m, .cont) => .ok (m, inp)
      | (_, .panic e) => .error e

/-- the final `run` and the `eof_step` loop -/
def finishPost (o : Opts) (mi : Mach × Str) : Except String Mach :=
  let m := mi.1.setAtEof true
  match run o (fuelFor m mi.2) m mi.2 with
  | .done m _ => eofLoop o 8 m
  | .panic e => .error e
  | .outOfFuel => .error "run out of fuel"

theorem finish_eqE (o : Opts) (m : Mach) :
    finish o m = match finishPreE o m with
      | .error e => .error e
      | .ok mi => finishPost o mi := by
  unfold finish finishPreE finishPost
  cases m.charRef with
  | none => rfl
  | some cr =>
    dsimp only
    cases crEof o m [] cr with
    | error e => rfl
    | ok v =>
      obtain ⟨m1, i1, ch⟩ := v
      dsimp only
      generalize processCharRef (m1.setCharRef none) ch = p
      obtain ⟨p1, p2⟩ := p
      cases p2 <;> rfl

/-- relation between two results of `finishPreE` -/
def PreE (r1 r2 : Except String (Mach × Str)) : Prop :=
  match r1, r2 with
  | .ok v1, .ok v2 => E v1.1 v2.1 ∧ v1.2 = v2.2
  | .error x, .error y => x = y
  | _, _ => False

theorem finishPre_PreE (o1 o2 : Opts) {a b : Mach} (h : E a b) : PreE (finishPreE o1 a) (finishPreE o2 b) := by
  unfold finishPreE
  rw [h.1.charRef]
  cases a.charRef with
  | none => exact ⟨h, rfl⟩
  | some cr =>
    dsimp only
    have hc := crEof_CEE o1 o2 h [] cr
    generalize crEof o1 a [] cr = r1 at hc
    generalize crEof o2 b [] cr = r2 at hc
    cases r1 with
    | error e1 =>
      cases r2 with
      | error e2 => exact hc
      | ok v2 => exact hc.elim
    | ok v1 =>
      cases r2 with
      | error e2 => exact hc.elim
      | ok v2 =>
        obtain ⟨m1, i1, ch1⟩ := v1
        obtain ⟨m2, i2, ch2⟩ := v2
        obtain ⟨g1, g2, g3⟩ := hc
        dsimp only at g1 g2 g3
        subst g2 g3
        dsimp only
        obtain ⟨p1, p2⟩ := processCharRef_E (E_setCharRef g1 none) ch1
        generalize processCharRef (m1.setCharRef none) ch1 = q1 at p1 p2
        generalize processCharRef (m2.setCharRef none) ch1 = q2 at p1 p2
        obtain ⟨x1, s1⟩ := q1
        obtain ⟨x2, s2⟩ := q2
        dsimp only at p1 p2
        subst p2
        cases s1 with
        | cont => exact ⟨p1, rfl⟩
        | panic e => exact rfl

theorem finishPost_E (o1 o2 : Opts) {a b : Mach} (h : E a b) (inp : Str) :
    (finishPost o1 (a, inp)).map (fun m => noErr m.out) =
    (finishPost o2 (b, inp)).map (fun m => noErr m.out) := by
  unfold finishPost
  dsimp only
  have h1 := E_setAtEof h true
  rw [h1.1.fuelFor]
  have hr := run_RunE o1 o2 (H5V.Model.XmlTok.fuelFor (a.setAtEof true) inp) h1 inp
  generalize run o1 _ (a.setAtEof true) inp = r1 at hr
  generalize run o2 _ (b.setAtEof true) inp = r2 at hr
  cases r1 <;> cases r2 <;> first | exact hr.elim | skip
  · obtain ⟨g1, g2⟩ := hr
    exact eofLoop_E0 o1 o2 8 g1.1
  · have : _ = _ := hr
    subst this; rfl
  · rfl

/-- **`XmlTokenizer::end` on `E`-related machines with any two option values: same failure, or success
with the same tokens up to parse errors** -/
theorem finish_E (o1 o2 : Opts) {a b : Mach} (h : E a b) :
    (finish o1 a).map (fun m => noErr m.out) = (finish o2 b).map (fun m => noErr m.out) := by
  rw [finish_eqE, finish_eqE]
  have hpre := finishPre_PreE o1 o2 h
  generalize finishPreE o1 a = r1 at hpre
  generalize finishPreE o2 b = r2 at hpre
  cases r1 with
  | error e1 =>
    cases r2 with
    | error e2 =>
      have : e1 = e2 := hpre
      subst this; rfl
    | ok v2 => exact hpre.elim
  | ok v1 =>
    cases r2 with
    | error e2 => exact hpre.elim
    | ok v2 =>
      obtain ⟨m1, i1⟩ := v1
      obtain ⟨m2, i2⟩ := v2
      obtain ⟨g1, g2⟩ := hpre
      dsimp only at g1 g2
      subst g2
      exact finishPost_E o1 o2 g1 i1

end H5V.Model.XmlTok
