import H5V.Lemmas.HtmlTBSkelShapeBody3
/-!
C06, second invariant layer, part 17: insertions below the root and below the document
(comments, whitespace text), for the modes in which the root is the current node.
-/
namespace H5V.Props.C06
open H5V.Model.Dom hiding Str
open H5V.Model.HtmlTB hiding Str
open H5V.Lemmas.Dom

/-- the arena changed only in child lists and parent pointers: all node data are the same -/
theorem Core.sameData {s s' : State} {r : Id} {up : List Id} {ph : Phase} (h : Core s r up ph)
    (hl : Late s') (hdo : DomOnly s s') (hdata : ∀ x, s'.dom.dataOf x = s.dom.dataOf x)
    (hk0 : r ∈ s'.dom.childrenOf 0) (hrtu : RTU r s'.dom) (hrnd : (s'.dom.childrenOf r).Nodup)
    (hkids : ∀ c ∈ s'.dom.childrenOf r, c ∈ s.dom.childrenOf r ∨ KidOkR s'.dom c)
    (helems : rootElems s'.dom r = rootElems s.dom r) (hadj : AdjD s'.dom s'.openElems) : Core s' r up ph := by
  have hnm : ∀ x, nm s'.dom x = nm s.dom x := fun x => by unfold nm; rw [hdata]
  have hel : ∀ x, s'.dom.isElement x = s.dom.isElement x := fun x => by unfold Dom.isElement; rw [hdata]
  have hr := hdo
  have e1 : s'.openElems = s.openElems := by rw [hr]
  have e2 : s'.activeFormatting = s.activeFormatting := by rw [hr]
  have e3 : s'.templateModes = s.templateModes := by rw [hr]
  have e4 : s'.formElem = s.formElem := by rw [hr]
  have e5 : s'.headElem = s.headElem := by rw [hr]
  refine ⟨hl, by rw [e1]; exact h.stack, hk0, by rw [e1]; exact h.nodup, ?_, ?_, ?_, by rw [e3]; exact h.tmm, ?_,
    hrtu, hrnd, ?_, ?_, ?_, ?_, hadj⟩
  · rw [e1]; exact h.tg.congr (fun x _ => hnm x)
  · intro x t hx
    rw [e2] at hx
    obtain ⟨a, b, c⟩ := h.afn x t hx
    exact ⟨a, by rw [hnm]; exact b, by rw [hel]; exact c⟩
  · rw [e1, e3]
    unfold tcount
    have : (fun x => nm s'.dom x == hN "template") = (fun x => nm s.dom x == hN "template") := by
      funext x; rw [hnm]
    rw [this]; exact h.tc
  · intro f hf
    rw [e4] at hf
    obtain ⟨a, b⟩ := h.form f hf
    exact ⟨by rw [hnm]; exact a, by rw [hel]; exact b⟩
  · intro c hc
    rcases hkids c hc with h1 | h1
    · rcases h.kids c h1 with k | ⟨t, k⟩ | ⟨t, k, k2⟩
      · exact Or.inl (by rw [hel]; exact k)
      · exact Or.inr (Or.inl ⟨t, by rw [hdata]; exact k⟩)
      · exact Or.inr (Or.inr ⟨t, by rw [hdata]; exact k, k2⟩)
    · exact h1
  · rw [e5]
    have he := h.elems
    cases ph with
    | p0 => exact ⟨he.1, by rw [helems]; exact he.2⟩
    | p1 =>
      obtain ⟨hh, a, b, c⟩ := he
      exact ⟨hh, a, by rw [helems]; exact b, by rw [hnm]; exact c⟩
    | pb b =>
      obtain ⟨hh, a, b', c, d⟩ := he
      exact ⟨hh, a, by rw [helems]; exact b', by rw [hnm]; exact c, by rw [hnm]; exact d⟩
    | pf fs =>
      obtain ⟨hh, ex, a, b', c, d, e⟩ := he
      exact ⟨hh, ex, a, by rw [helems]; exact b', by rw [hnm]; exact c, by rw [hnm]; exact d,
        fun x hx => by rw [hnm]; exact e x hx⟩
  · intro y hy; rw [hnm]; exact h.bh y hy
  · rw [e2]; exact h.afx.congr helems (fun x _ => hnm x) (fun y t hy => ⟨y, hy⟩)

theorem FitsM.sameData {s s' : State} {up : List Id} {ph : Phase} (hf : FitsM s up ph) (hdo : DomOnly s s')
    (hdata : ∀ x, s'.dom.dataOf x = s.dom.dataOf x) : FitsM s' up ph := by
  have hr := hdo
  exact hf.transfer (fun x _ => by unfold nm; rw [hdata]) (by rw [hr]) (by rw [hr]) (by rw [hr])

/-- a fresh comment node becomes the last child of the root -/
theorem rootComment_shape {s s1 s2 : State} {r : Id} {up : List Id} {ph : Phase} {text : Str} {c : Id} {u : Unit}
    (h : ShapeAt s r up ph) (e1 : sinkNode (.createComment text) s = .ok (c, s1))
    (e2 : sinkUnit (.append r (.node c)) s1 = .ok (u, s2)) : ShapeAt s2 r up ph := by
  have hc := h.core
  obtain ⟨hl1, hext1, hc1, hcd1, hfresh1, hdo1⟩ := createComment_run hc.late e1
  have hd1 : s.dom.apply (.createComment text) = .ok (s1.dom, .node c) := (sink_dom (sinkNode_ok.mp e1)).1
  obtain ⟨hdom1, _⟩ := apply_createComment hd1
  obtain ⟨_, _, hk1, hid, hs1, _⟩ := createComment_spec hc.late.base text
  rw [← hdom1] at hk1 hs1
  have hrs1 : RS r s.dom s1.dom := by rw [hdom1]; exact rs_alloc r hc.late.base _
  obtain ⟨hadj1, _, htx1, hcO1⟩ := createComment_adj hc.late hc.adj e1
  have hcore1 : Core s1 r up ph := hc.transfer hl1 hext1.chg hrs1 (by rw [hk1]; exact hc.rdoc)
    (by rw [hdo1]) (by rw [hdo1]) (by rw [hdo1]) (by rw [hdo1]) (by rw [hdo1]) hadj1
  have hfit1 : FitsM s1 up ph := h.fits.transfer (hc.sameNames hext1.chg) (by rw [hdo1]) (by rw [hdo1]) (by rw [hdo1])
  have hnol : ∀ q, c ∉ s1.dom.childrenOf q := fun q hq => by
    rw [hk1] at hq
    exact Nat.lt_irrefl _ (Nat.lt_of_lt_of_le (hc.late.base.kidsValid q _ hq) hfresh1)
  -- the append
  have hrel : s1.dom.isElement r = true := hcore1.late.st.oe r hcore1.root_mem
  have hip : IpOk s1.dom (.lastChild r) := ⟨ne_zero_of_isElement hl1.base hrel, isContainer_of_isElement hrel⟩
  have e2' : H5V.Model.HtmlTB.insertAt (.lastChild r) (.node c) s1 = .ok (u, s2) := e2
  have hch : ChildOk s1.dom (.node c) := ⟨hnol 0, by rw [hcd1]; simp⟩
  obtain ⟨hl2, hext2, hk02, hdo2⟩ := insertAt_spec (child := .node c) hl1 hip hch e2'
  obtain ⟨out, hd2, _⟩ := sinkUnit_dom e2
  have hrc : r ≠ c := by
    rintro rfl
    unfold Dom.isElement at hrel; rw [hcd1] at hrel; cases hrel
  obtain ⟨hkr, hdata, _, _, hrtu⟩ := root_append_node hrc hnol (apply_append hd2)
  have hcn : s1.dom.isElement c = false := by unfold Dom.isElement; rw [hcd1]
  have hadj2 : AdjD s2.dom s2.openElems := by
    have : s2.openElems = s1.openElems := by rw [hdo2]
    rw [this]
    exact hadj1.appendClosed hrc htx1 hcO1 (apply_append hd2)
  refine ⟨hcore1.sameData hl2 hdo2 hdata (by rw [hk02]; exact hcore1.rdoc) (hrtu hcore1.rtu) ?_ ?_ ?_ hadj2,
    hfit1.sameData hdo2 hdata⟩
  · rw [hkr, List.nodup_append]
    exact ⟨hcore1.rnd, by simp, by intro a ha b hb; simp at hb; subst hb; rintro rfl; exact hnol r ha⟩
  · intro x hx
    rw [hkr] at hx
    rcases List.mem_append.mp hx with h1 | h1
    · exact Or.inl h1
    · simp only [List.mem_singleton] at h1
      subst h1
      exact Or.inr (Or.inr (Or.inl ⟨text, by rw [hdata]; exact hcd1⟩))
  · unfold rootElems
    rw [hkr, List.filter_append]
    have hel : ∀ x, s2.dom.isElement x = s1.dom.isElement x := fun x => by unfold Dom.isElement; rw [hdata]
    have : (fun x => s2.dom.isElement x) = (fun x => s1.dom.isElement x) := funext hel
    show List.filter (fun x => s2.dom.isElement x) _ ++ List.filter (fun x => s2.dom.isElement x) [c] = _
    rw [this]
    simp [hcn]

theorem appendCommentToHtml_shape {s s' : State} {r : Id} {up : List Id} {ph : Phase} {text : Str}
    {res : ProcessResult} (h : ShapeAt s r up ph) (e : appendCommentToHtml text s = .ok (res, s')) :
    ShapeAt s' r up ph ∧ res = .done ∧ s'.mode = s.mode := by
  unfold appendCommentToHtml at e
  obtain ⟨t, s0, e0, e1⟩ := bind_ok.mp e
  have ht : s0 = s ∧ t = r := by
    unfold htmlElemFn at e0
    rw [getS_bind, h.core.stack] at e0
    obtain ⟨rfl, rfl⟩ := pure_ok.mp e0
    exact ⟨rfl, rfl⟩
  obtain ⟨rfl, rfl⟩ := ht
  obtain ⟨c, s1, e2, e3⟩ := bind_ok.mp e1
  obtain ⟨u, s2, e4, e5⟩ := bind_ok.mp e3
  obtain ⟨rfl, rfl⟩ := pure_ok.mp e5
  refine ⟨rootComment_shape h e2 e4, rfl, ?_⟩
  obtain ⟨_, f4⟩ := sinkUnit_dom e4
  obtain ⟨_, f2⟩ := sink_dom (sinkNode_ok.mp e2)
  rw [f4.2.mode, f2.mode]


theorem appendCommentToDoc_shape {s s' : State} {r : Id} {up : List Id} {ph : Phase} {text : Str}
    {res : ProcessResult} (h : ShapeAt s r up ph) (e : appendCommentToDoc text s = .ok (res, s')) :
    ShapeAt s' r up ph ∧ res = .done ∧ s'.mode = s.mode := by
  have hc := h.core
  obtain ⟨⟨hl', _⟩, _⟩ := (inferInstance : PresR (appendCommentToDoc text)).p s res s' hc.late e
  unfold appendCommentToDoc at e
  obtain ⟨c, s1, e1, e2⟩ := bind_ok.mp e
  rw [getS_bind] at e2
  obtain ⟨u, s2, e3, e4⟩ := bind_ok.mp e2
  obtain ⟨rfl, rfl⟩ := pure_ok.mp e4
  obtain ⟨hl1, hext1, hc1, hcd1, hfresh1, hdo1⟩ := createComment_run hc.late e1
  have hd1 : s.dom.apply (.createComment text) = .ok (s1.dom, .node c) := (sink_dom (sinkNode_ok.mp e1)).1
  obtain ⟨hdom1, _⟩ := apply_createComment hd1
  obtain ⟨_, _, hk1, hid, hs1, _⟩ := createComment_spec hc.late.base text
  rw [← hdom1] at hk1 hs1
  have hrs1 : RS r s.dom s1.dom := by rw [hdom1]; exact rs_alloc r hc.late.base _
  have hnol : ∀ q, c ∉ s1.dom.childrenOf q := fun q hq => by
    rw [hk1] at hq
    exact Nat.lt_irrefl _ (Nat.lt_of_lt_of_le (hc.late.base.kidsValid q _ hq) hfresh1)
  have hdoc : s1.docHandle = 0 := by rw [hdo1]; exact hc.late.st.doc
  rw [hdoc] at e3
  obtain ⟨out, hd2, f2⟩ := sinkUnit_dom e3
  have happ := apply_append hd2
  have hrel : s.dom.isElement r = true := hc.late.st.oe r hc.root_mem
  have hr0 : (0 : Id) ≠ r := fun h0 => (ne_zero_of_isElement hc.late.base hrel) h0.symm
  have h0c : (0 : Id) ≠ c := by
    intro h0
    have := hfresh1; rw [← h0] at this
    exact Nat.lt_irrefl _ (Nat.lt_of_lt_of_le hc.late.base.size_pos this)
  have hrs2 : RS r s1.dom s2.dom := rs_append_node hl1.base hr0 h0c (hnol r) happ
  obtain ⟨hb2, hchg2, _, hk2⟩ := append_doc_spec hl1.base (by rw [hcd1]; simp) happ
  have hdo2 : DomOnly s1 s2 := by
    obtain ⟨o, e3'⟩ := sinkUnit_ok.mp e3
    obtain ⟨d, _, rfl⟩ := sink_ok.mp e3'
    rfl
  have hdo : DomOnly s s2 := by
    show s2 = { s with dom := s2.dom, traceRev := s2.traceRev }
    rw [hdo2, hdo1]
  have hchg : Chg s.dom s2.dom := hext1.chg.trans hchg2
  obtain ⟨hadj1, _, htx1, hcO1⟩ := createComment_adj hc.late hc.adj e1
  have hadj2 : AdjD s2.dom s2.openElems := by
    have : s2.openElems = s1.openElems := by rw [hdo2]
    rw [this]
    exact hadj1.appendClosed h0c htx1 hcO1 happ
  refine ⟨⟨hc.transfer hl' hchg (hrs1.trans hrs2) (by rw [hk2, hk1]; exact List.mem_append_left _ hc.rdoc)
    (by rw [hdo]) (by rw [hdo]) (by rw [hdo]) (by rw [hdo]) (by rw [hdo]) hadj2,
    h.fits.transfer (hc.sameNames hchg) (by rw [hdo]) (by rw [hdo]) (by rw [hdo])⟩, rfl, by rw [hdo]⟩

end H5V.Props.C06
