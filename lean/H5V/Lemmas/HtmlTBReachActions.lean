import H5V.Lemmas.HtmlTBReachBase
/-!
C18, tree-builder side, part 2: the helper algorithms of `tree_builder/mod.rs` pass only known handles
to the sink (`PV`), one lemma per helper, each registered with the walk (`pv_leaf`).
-/
namespace H5V.Props.C18
open H5V.Model.Dom (Id QualName Attr NodeOrText SinkOp Output ElementFlags QuirksMode Dom)
open H5V.Model.HtmlTB
open H5V.Lemmas.TBM

/-- the handle that is the answer -/
abbrev one : Id → List Id := fun a => [a]

/-! ### sink wrappers -/

theorem pv_sinkUnit {c : List Id} (op : SinkOp) (h : ∀ x ∈ opArgs op, x ∈ c) : PV c (sinkUnit op) nil := by
  unfold sinkUnit
  exact (pv_sink op h).bind fun _ => PV.pure (fun _ hx => nomatch hx)

theorem pv_sinkNode {c : List Id} (op : SinkOp) (h : ∀ x ∈ opArgs op, x ∈ c) : PV c (sinkNode op) one := by
  unfold sinkNode
  refine (pv_sink op h).bind fun out => ?_
  cases out with
  | node id => exact PV.pure (by mem_tac)
  | unit => exact PV.throw _
  | bool b => exact PV.throw _
  | name a b => exact PV.throw _

theorem pv_sinkBool {c : List Id} (op : SinkOp) (h : ∀ x ∈ opArgs op, x ∈ c) : PV c (sinkBool op) nil := by
  unfold sinkBool
  refine (pv_sink op h).bind fun out => ?_
  cases out with
  | bool b => exact PV.pure (fun _ hx => nomatch hx)
  | unit => exact PV.throw _
  | node b => exact PV.throw _
  | name a b => exact PV.throw _

macro_rules | `(tactic| pv_leaf) => `(tactic| (with_reducible apply pv_sinkUnit) <;> mem_tac)
macro_rules | `(tactic| pv_leaf) => `(tactic| (with_reducible apply pv_sinkNode) <;> mem_tac)
macro_rules | `(tactic| pv_leaf) => `(tactic| (with_reducible apply pv_sinkBool) <;> mem_tac)

theorem pv_parseError {c : List Id} (msg : String) : PV c (parseError msg) nil := by
  unfold parseError; exact pv_sinkUnit _ (fun _ hx => nomatch hx)
macro_rules | `(tactic| pv_leaf) => `(tactic| exact pv_parseError _)

theorem pv_elemName {c : List Id} (h : Id) (hm : h ∈ c) : PV c (elemName h) nil := by
  unfold elemName
  refine (pv_sink _ (by mem_tac)).bind fun out => ?_
  cases out with
  | name a b => exact PV.pure (fun _ hx => nomatch hx)
  | unit => exact PV.throw _
  | node b => exact PV.throw _
  | bool b => exact PV.throw _
macro_rules | `(tactic| pv_leaf) => `(tactic| (with_reducible apply pv_elemName) <;> mem_tac)

theorem pv_sameNode {c : List Id} (x y : Id) (hx : x ∈ c) (hy : y ∈ c) : PV c (sameNode x y) nil := by
  unfold sameNode; exact pv_sinkBool _ (by mem_tac)
macro_rules | `(tactic| pv_leaf) => `(tactic| (with_reducible apply pv_sameNode) <;> mem_tac)

/-! ### small accessors -/

theorem pv_htmlElemNamedS {c : List Id} (h : Id) (n : Str) (hm : h ∈ c) : PV c (htmlElemNamedS h n) nil := by
  unfold htmlElemNamedS; pv_walk
macro_rules | `(tactic| pv_leaf) => `(tactic| (with_reducible apply pv_htmlElemNamedS) <;> mem_tac)

theorem pv_htmlElemNamed {c : List Id} (h : Id) (n : String) (hm : h ∈ c) : PV c (htmlElemNamed h n) nil :=
  pv_htmlElemNamedS h _ hm
macro_rules | `(tactic| pv_leaf) => `(tactic| (with_reducible apply pv_htmlElemNamed) <;> mem_tac)

theorem pv_elemIn {c : List Id} (h : Id) (f : EName → Bool) (hm : h ∈ c) : PV c (elemIn h f) nil := by
  unfold elemIn; pv_walk
macro_rules | `(tactic| pv_leaf) => `(tactic| (with_reducible apply pv_elemIn) <;> mem_tac)

theorem pv_currentNode {c : List Id} : PV c currentNode one := by
  unfold currentNode; pv_walk
macro_rules | `(tactic| pv_leaf) => `(tactic| exact pv_currentNode)

theorem pv_adjustedCurrentNode {c : List Id} : PV c adjustedCurrentNode one := by
  unfold adjustedCurrentNode; pv_walk
macro_rules | `(tactic| pv_leaf) => `(tactic| exact pv_adjustedCurrentNode)

theorem pv_currentNodeIn {c : List Id} (f : EName → Bool) : PV c (currentNodeIn f) nil := by
  unfold currentNodeIn; pv_walk
macro_rules | `(tactic| pv_leaf) => `(tactic| exact pv_currentNodeIn _)

theorem pv_currentNodeNamedS {c : List Id} (n : Str) : PV c (currentNodeNamedS n) nil := by
  unfold currentNodeNamedS; pv_walk
macro_rules | `(tactic| pv_leaf) => `(tactic| exact pv_currentNodeNamedS _)

theorem pv_currentNodeNamed {c : List Id} (n : String) : PV c (currentNodeNamed n) nil := pv_currentNodeNamedS _
macro_rules | `(tactic| pv_leaf) => `(tactic| exact pv_currentNodeNamed _)

theorem pv_htmlElem {c : List Id} : PV c htmlElem one := by
  unfold htmlElem; pv_walk
macro_rules | `(tactic| pv_leaf) => `(tactic| exact pv_htmlElem)

theorem pv_htmlElemFn {c : List Id} : PV c htmlElemFn one := by
  unfold htmlElemFn; pv_walk
macro_rules | `(tactic| pv_leaf) => `(tactic| exact pv_htmlElemFn)

theorem pv_isFragment {c : List Id} : PV c isFragment nil := by
  unfold isFragment; pv_walk
macro_rules | `(tactic| pv_leaf) => `(tactic| exact pv_isFragment)

/-- state updates: the handle-holding fields change only by known handles -/
syntax "pv_mod" : tactic
macro_rules
  | `(tactic| pv_mod) => `(tactic|
      first
        | exact pv_modS_free (fun _ => rfl) (fun _ => rfl)
        | (refine pv_modS (fun _ => rfl) ?_; mem_tac))

theorem pv_push {c : List Id} (h : Id) (hm : h ∈ c) : PV c (push h) nil := by
  unfold push; pv_mod
macro_rules | `(tactic| pv_leaf) => `(tactic| (with_reducible apply pv_push) <;> mem_tac)

theorem pv_pop {c : List Id} : PV c pop one := by
  unfold pop; pv_walk
macro_rules | `(tactic| pv_leaf) => `(tactic| exact pv_pop)

theorem pv_popSilently {c : List Id} : PV c popSilently Option.toList := by
  unfold popSilently; pv_walk
macro_rules | `(tactic| pv_leaf) => `(tactic| exact pv_popSilently)

theorem pv_setMode {c : List Id} (m : Mode) : PV c (setMode m) nil := by unfold setMode; pv_mod
macro_rules | `(tactic| pv_leaf) => `(tactic| exact pv_setMode _)
theorem pv_setFramesetOk {c : List Id} (b : Bool) : PV c (setFramesetOk b) nil := by unfold setFramesetOk; pv_mod
macro_rules | `(tactic| pv_leaf) => `(tactic| exact pv_setFramesetOk _)
theorem pv_pushMarker {c : List Id} : PV c pushMarker nil := by
  unfold pushMarker
  refine pv_modS (fun _ => rfl) ?_
  intro s x hx
  simp only [mem_held, mem_afIds, List.mem_append, List.mem_singleton, reduceCtorEq, or_false] at hx ⊢
  exact Or.inl hx
macro_rules | `(tactic| pv_leaf) => `(tactic| exact pv_pushMarker)

/-- the handle an answer of a rule carries (`Script(node)`) -/
@[pv_mem] def prH : ProcessResult → List Id
  | .script n => [n]
  | _ => []

/-- a generic state update met in the rules -/
macro_rules | `(tactic| pv_leaf) => `(tactic| (with_reducible apply pv_modS_free) <;> (intro _; rfl))

theorem pv_unexpected {c : List Id} : PV c unexpected prH := by unfold unexpected; pv_walk
macro_rules | `(tactic| pv_leaf) => `(tactic| exact pv_unexpected)

theorem pv_setQuirksMode {c : List Id} (m : QuirksMode) : PV c (setQuirksMode m) nil := by
  unfold setQuirksMode; pv_walk
macro_rules | `(tactic| pv_leaf) => `(tactic| exact pv_setQuirksMode _)

theorem pv_toRawTextMode {c : List Id} (k : H5V.Model.HtmlTok.RawKind) : PV c (toRawTextMode k) prH := by
  unfold toRawTextMode; pv_walk
macro_rules | `(tactic| pv_leaf) => `(tactic| exact pv_toRawTextMode _)

/-! ### creating and inserting nodes -/

theorem pv_createElementWithFlags {c : List Id} (n : QualName) (a : List Attr) (d : Bool) :
    PV c (createElementWithFlags n a d) one := by
  unfold createElementWithFlags; exact pv_sinkNode _ (fun _ hx => nomatch hx)
macro_rules | `(tactic| pv_leaf) => `(tactic| exact pv_createElementWithFlags _ _ _)

/-- the handles of an insertion point -/
@[pv_mem] def ipH : InsertionPoint → List Id
  | .lastChild p => [p]
  | .beforeSibling s => [s]
  | .tableFosterParenting e p => [e, p]

theorem nodes_fst_mem (ip : InsertionPoint) : ip.nodes.1 ∈ ipH ip := by cases ip <;> simp [InsertionPoint.nodes, ipH]
theorem nodes_snd_mem {ip : InsertionPoint} {x : Id} (h : ip.nodes.2 = some x) : x ∈ ipH ip := by
  cases ip <;> simp_all [InsertionPoint.nodes, ipH]

theorem pv_fosterLoop : ∀ (c : List Id) (l : List Id), (∀ x ∈ l, x ∈ c) → PV c (fosterLoop l) ipH
  | c, [], _ => by unfold fosterLoop; pv_walk
  | c, e :: rest, hl => by
    have ih := fun c' => pv_fosterLoop c' rest
    unfold fosterLoop; pv_walk
    all_goals first | (apply ih; mem_tac) | skip
macro_rules | `(tactic| pv_leaf) => `(tactic| (with_reducible apply pv_fosterLoop) <;> mem_tac)

theorem pv_appropriatePlaceForInsertion {c : List Id} (o : Option Id) (ho : ∀ x ∈ o.toList, x ∈ c) :
    PV c (appropriatePlaceForInsertion o) ipH := by
  unfold appropriatePlaceForInsertion; pv_walk
macro_rules | `(tactic| pv_leaf) => `(tactic| (with_reducible apply pv_appropriatePlaceForInsertion) <;> mem_tac)

theorem pv_insertAt {c : List Id} (p : InsertionPoint) (ch : NodeOrText) (hp : ∀ x ∈ ipH p, x ∈ c)
    (hc : ∀ x ∈ childIds ch, x ∈ c) : PV c (insertAt p ch) nil := by
  cases p <;> (unfold insertAt; pv_walk)
macro_rules | `(tactic| pv_leaf) => `(tactic| (with_reducible apply pv_insertAt) <;> mem_tac)

theorem pv_insertAppropriately {c : List Id} (ch : NodeOrText) (o : Option Id) (ho : ∀ x ∈ o.toList, x ∈ c)
    (hc : ∀ x ∈ childIds ch, x ∈ c) : PV c (insertAppropriately ch o) nil := by
  unfold insertAppropriately; pv_walk
macro_rules | `(tactic| pv_leaf) => `(tactic| (with_reducible apply pv_insertAppropriately) <;> mem_tac)

theorem pv_anyHtmlElemNamed (n : String) : ∀ (c : List Id) (l : List Id), (∀ x ∈ l, x ∈ c) →
    PV c (anyHtmlElemNamed n l) nil
  | c, [], _ => by unfold anyHtmlElemNamed; pv_walk
  | c, e :: rest, hl => by
    have ih := fun c' => pv_anyHtmlElemNamed n c' rest
    unfold anyHtmlElemNamed; pv_walk
    all_goals first | (apply ih; mem_tac) | skip
macro_rules | `(tactic| pv_leaf) => `(tactic| (with_reducible apply pv_anyHtmlElemNamed) <;> mem_tac)

theorem pv_inHtmlElemNamed {c : List Id} (n : String) : PV c (inHtmlElemNamed n) nil := by
  unfold inHtmlElemNamed; pv_walk
macro_rules | `(tactic| pv_leaf) => `(tactic| exact pv_inHtmlElemNamed _)

theorem pv_insertElement {c : List Id} (p : Bool) (ns n : Str) (a : List Attr) (d : Bool) :
    PV c (insertElement p ns n a d) one := by
  unfold insertElement; pv_walk
  all_goals
    rename_i ip _ _ _ _ _ _ _ _ _ _
    have h1 := nodes_fst_mem ip
    have h2 := @nodes_snd_mem ip
    pv_walk
macro_rules | `(tactic| pv_leaf) => `(tactic| exact pv_insertElement _ _ _ _ _)

end H5V.Props.C18
