import H5V.Lemmas.HtmlTBReachBase
/-!
C18, tree-builder side, part 2: the helper algorithms of `tree_builder/mod.rs` pass only known handles
to the sink (`PV`), one lemma per helper, each registered with the walk (`pv_leaf`).
-/
namespace H5V.Props.C18
open H5V.Model.Dom (Id QualName Attr NodeOrText SinkOp Output ElementFlags QuirksMode Dom)
open H5V.Model.HtmlTB
open H5V.Lemmas.TBM

/-! ### sink wrappers -/

theorem pv_sinkUnit {c : List Id} (op : SinkOp) (h : ∀ x ∈ opArgs op, x ∈ c) : PV c (sinkUnit op) nil := by
  unfold sinkUnit
  exact (pv_sink op h).bind fun _ => PV.pure (fun _ hx => nomatch hx)

theorem pv_sinkNode {c : List Id} (op : SinkOp) (h : ∀ x ∈ opArgs op, x ∈ c) : PV c (sinkNode op) one := by
  unfold sinkNode
  refine (pv_sink op h).bind fun out => ?_
  cases out with
  | node id => exact PV.pure (by mem_tac)
  | unit => exact PV.throw _
  | bool b => exact PV.throw _
  | name a b => exact PV.throw _

theorem pv_sinkBool {c : List Id} (op : SinkOp) (h : ∀ x ∈ opArgs op, x ∈ c) : PV c (sinkBool op) nil := by
  unfold sinkBool
  refine (pv_sink op h).bind fun out => ?_
  cases out with
  | bool b => exact PV.pure (fun _ hx => nomatch hx)
  | unit => exact PV.throw _
  | node b => exact PV.throw _
  | name a b => exact PV.throw _

macro_rules | `(tactic| pv_leaf) => `(tactic| (with_reducible apply pv_sinkUnit) <;> mem_tac)
macro_rules | `(tactic| pv_leaf) => `(tactic| (with_reducible apply pv_sinkNode) <;> mem_tac)
macro_rules | `(tactic| pv_leaf) => `(tactic| (with_reducible apply pv_sinkBool) <;> mem_tac)

theorem pv_parseError {c : List Id} (msg : String) : PV c (parseError msg) nil := by
  unfold parseError; exact pv_sinkUnit _ (fun _ hx => nomatch hx)
macro_rules | `(tactic| pv_leaf) => `(tactic| with_reducible exact pv_parseError _)

theorem pv_elemName {c : List Id} (h : Id) (hm : h ∈ c) : PV c (elemName h) nil := by
  unfold elemName
  refine (pv_sink _ (by mem_tac)).bind fun out => ?_
  cases out with
  | name a b => exact PV.pure (fun _ hx => nomatch hx)
  | unit => exact PV.throw _
  | node b => exact PV.throw _
  | bool b => exact PV.throw _
macro_rules | `(tactic| pv_leaf) => `(tactic| (with_reducible apply pv_elemName) <;> mem_tac)

theorem pv_sameNode {c : List Id} (x y : Id) (hx : x ∈ c) (hy : y ∈ c) : PV c (sameNode x y) nil := by
  unfold sameNode; exact pv_sinkBool _ (by mem_tac)
macro_rules | `(tactic| pv_leaf) => `(tactic| (with_reducible apply pv_sameNode) <;> mem_tac)

/-! ### small accessors -/

theorem pv_htmlElemNamedS {c : List Id} (h : Id) (n : Str) (hm : h ∈ c) : PV c (htmlElemNamedS h n) nil := by
  unfold htmlElemNamedS; pv_walk
macro_rules | `(tactic| pv_leaf) => `(tactic| (with_reducible apply pv_htmlElemNamedS) <;> mem_tac)

theorem pv_htmlElemNamed {c : List Id} (h : Id) (n : String) (hm : h ∈ c) : PV c (htmlElemNamed h n) nil :=
  pv_htmlElemNamedS h _ hm
macro_rules | `(tactic| pv_leaf) => `(tactic| (with_reducible apply pv_htmlElemNamed) <;> mem_tac)

theorem pv_elemIn {c : List Id} (h : Id) (f : EName → Bool) (hm : h ∈ c) : PV c (elemIn h f) nil := by
  unfold elemIn; pv_walk
macro_rules | `(tactic| pv_leaf) => `(tactic| (with_reducible apply pv_elemIn) <;> mem_tac)

theorem pv_currentNode {c : List Id} : PV c currentNode one := by
  unfold currentNode; pv_walk
macro_rules | `(tactic| pv_leaf) => `(tactic| with_reducible exact pv_currentNode)

theorem pv_adjustedCurrentNode {c : List Id} : PV c adjustedCurrentNode one := by
  unfold adjustedCurrentNode; pv_walk
macro_rules | `(tactic| pv_leaf) => `(tactic| with_reducible exact pv_adjustedCurrentNode)

theorem pv_currentNodeIn {c : List Id} (f : EName → Bool) : PV c (currentNodeIn f) nil := by
  unfold currentNodeIn; pv_walk
macro_rules | `(tactic| pv_leaf) => `(tactic| with_reducible exact pv_currentNodeIn _)

theorem pv_currentNodeNamedS {c : List Id} (n : Str) : PV c (currentNodeNamedS n) nil := by
  unfold currentNodeNamedS; pv_walk
macro_rules | `(tactic| pv_leaf) => `(tactic| with_reducible exact pv_currentNodeNamedS _)

theorem pv_currentNodeNamed {c : List Id} (n : String) : PV c (currentNodeNamed n) nil := pv_currentNodeNamedS _
macro_rules | `(tactic| pv_leaf) => `(tactic| with_reducible exact pv_currentNodeNamed _)

theorem pv_htmlElem {c : List Id} : PV c htmlElem one := by
  unfold htmlElem; pv_walk
macro_rules | `(tactic| pv_leaf) => `(tactic| with_reducible exact pv_htmlElem)

theorem pv_htmlElemFn {c : List Id} : PV c htmlElemFn one := by
  unfold htmlElemFn; pv_walk
macro_rules | `(tactic| pv_leaf) => `(tactic| with_reducible exact pv_htmlElemFn)

theorem pv_isFragment {c : List Id} : PV c isFragment nil := by
  unfold isFragment; pv_walk
macro_rules | `(tactic| pv_leaf) => `(tactic| with_reducible exact pv_isFragment)

/-- state updates: the handle-holding fields change only by known handles -/
syntax "pv_mod" : tactic
macro_rules
  | `(tactic| pv_mod) => `(tactic|
      first
        | exact pv_modS_free (fun _ => rfl) (fun _ => rfl)
        | (refine pv_modS (fun _ => rfl) ?_; first | held_tac | mem_tac))

theorem pv_push {c : List Id} (h : Id) (hm : h ∈ c) : PV c (push h) nil := by
  unfold push; pv_mod
macro_rules | `(tactic| pv_leaf) => `(tactic| (with_reducible apply pv_push) <;> mem_tac)

theorem pv_pop {c : List Id} : PV c pop one := by
  unfold pop; pv_walk
macro_rules | `(tactic| pv_leaf) => `(tactic| with_reducible exact pv_pop)

theorem pv_popSilently {c : List Id} : PV c popSilently Option.toList := by
  unfold popSilently; pv_walk
macro_rules | `(tactic| pv_leaf) => `(tactic| with_reducible exact pv_popSilently)

theorem pv_setMode {c : List Id} (m : Mode) : PV c (setMode m) nil := by unfold setMode; pv_mod
macro_rules | `(tactic| pv_leaf) => `(tactic| with_reducible exact pv_setMode _)
theorem pv_setFramesetOk {c : List Id} (b : Bool) : PV c (setFramesetOk b) nil := by unfold setFramesetOk; pv_mod
macro_rules | `(tactic| pv_leaf) => `(tactic| with_reducible exact pv_setFramesetOk _)
theorem pv_pushMarker {c : List Id} : PV c pushMarker nil := by
  unfold pushMarker
  refine pv_modS (fun _ => rfl) ?_
  intro s x hx
  simp only [mem_held, mem_afIds, List.mem_append, List.mem_singleton, reduceCtorEq, or_false] at hx ⊢
  exact Or.inl hx
macro_rules | `(tactic| pv_leaf) => `(tactic| with_reducible exact pv_pushMarker)

/-- the handle an answer of a rule carries (`Script(node)`) -/
def prH : ProcessResult → List Id
  | .script n => [n]
  | _ => []

@[pv_mem] theorem prH_script (n : Id) : prH (.script n) = [n] := rfl
@[pv_mem] theorem prH_done : prH .done = [] := rfl
@[pv_mem] theorem prH_doneAck : prH .doneAckSelfClosing = [] := rfl
@[pv_mem] theorem prH_split (s : Str) : prH (.splitWhitespace s) = [] := rfl
@[pv_mem] theorem prH_reprocess (m : Mode) (t : Token) : prH (.reprocess m t) = [] := rfl
@[pv_mem] theorem prH_reprocessForeign (t : Token) : prH (.reprocessForeign t) = [] := rfl
@[pv_mem] theorem prH_toPlaintext : prH .toPlaintext = [] := rfl
@[pv_mem] theorem prH_toRawData (k : H5V.Model.HtmlTok.RawKind) : prH (.toRawData k) = [] := rfl
@[pv_mem] theorem prH_indicator (s : Str) : prH (.encodingIndicator s) = [] := rfl

/-- a generic state update met in the rules -/
macro_rules | `(tactic| pv_leaf) => `(tactic| (with_reducible apply pv_modS_free) <;> (intro _; rfl))

theorem pv_unexpected {c : List Id} : PV c unexpected prH := by unfold unexpected; pv_walk
macro_rules | `(tactic| pv_leaf) => `(tactic| with_reducible exact pv_unexpected)

theorem pv_setQuirksMode {c : List Id} (m : QuirksMode) : PV c (setQuirksMode m) nil := by
  unfold setQuirksMode; pv_walk
macro_rules | `(tactic| pv_leaf) => `(tactic| with_reducible exact pv_setQuirksMode _)

theorem pv_toRawTextMode {c : List Id} (k : H5V.Model.HtmlTok.RawKind) : PV c (toRawTextMode k) prH := by
  unfold toRawTextMode; pv_walk
macro_rules | `(tactic| pv_leaf) => `(tactic| with_reducible exact pv_toRawTextMode _)

/-! ### creating and inserting nodes -/

theorem pv_createElementWithFlags {c : List Id} (n : QualName) (a : List Attr) (d : Bool) :
    PV c (createElementWithFlags n a d) one := by
  unfold createElementWithFlags; exact pv_sinkNode _ (fun _ hx => nomatch hx)
macro_rules | `(tactic| pv_leaf) => `(tactic| with_reducible exact pv_createElementWithFlags _ _ _)

/-- the handles of an insertion point -/
def ipH : InsertionPoint → List Id
  | .lastChild p => [p]
  | .beforeSibling s => [s]
  | .tableFosterParenting e p => [e, p]

@[pv_mem] theorem ipH_lastChild (p : Id) : ipH (.lastChild p) = [p] := rfl
@[pv_mem] theorem ipH_beforeSibling (p : Id) : ipH (.beforeSibling p) = [p] := rfl
@[pv_mem] theorem ipH_foster (e p : Id) : ipH (.tableFosterParenting e p) = [e, p] := rfl

theorem nodes_fst_mem (ip : InsertionPoint) : ip.nodes.1 ∈ ipH ip := by cases ip <;> simp [InsertionPoint.nodes, ipH]
theorem nodes_snd_mem {ip : InsertionPoint} {x : Id} (h : ip.nodes.2 = some x) : x ∈ ipH ip := by
  cases ip <;> simp_all [InsertionPoint.nodes, ipH]

theorem pv_fosterLoop : ∀ (c : List Id) (l : List Id), (∀ x ∈ l, x ∈ c) → PV c (fosterLoop l) ipH
  | c, [], _ => by unfold fosterLoop; pv_walk
  | c, e :: rest, hl => by
    have ih := fun c' => pv_fosterLoop c' rest
    unfold fosterLoop; pv_walk
    all_goals first | (apply ih; mem_tac) | skip
macro_rules | `(tactic| pv_leaf) => `(tactic| (with_reducible apply pv_fosterLoop) <;> mem_tac)

theorem pv_appropriatePlaceForInsertion {c : List Id} (o : Option Id) (ho : ∀ x ∈ o.toList, x ∈ c) :
    PV c (appropriatePlaceForInsertion o) ipH := by
  unfold appropriatePlaceForInsertion; pv_walk
macro_rules | `(tactic| pv_leaf) => `(tactic| (with_reducible apply pv_appropriatePlaceForInsertion) <;> mem_tac)

theorem pv_insertAt {c : List Id} (p : InsertionPoint) (ch : NodeOrText) (hp : ∀ x ∈ ipH p, x ∈ c)
    (hc : ∀ x ∈ childIds ch, x ∈ c) : PV c (insertAt p ch) nil := by
  cases p <;> (unfold insertAt; pv_walk)
macro_rules | `(tactic| pv_leaf) => `(tactic| (with_reducible apply pv_insertAt) <;> mem_tac)

theorem pv_insertAppropriately {c : List Id} (ch : NodeOrText) (o : Option Id) (ho : ∀ x ∈ o.toList, x ∈ c)
    (hc : ∀ x ∈ childIds ch, x ∈ c) : PV c (insertAppropriately ch o) nil := by
  unfold insertAppropriately; pv_walk
macro_rules | `(tactic| pv_leaf) => `(tactic| (with_reducible apply pv_insertAppropriately) <;> mem_tac)

theorem pv_anyHtmlElemNamed (n : String) : ∀ (c : List Id) (l : List Id), (∀ x ∈ l, x ∈ c) →
    PV c (anyHtmlElemNamed n l) nil
  | c, [], _ => by unfold anyHtmlElemNamed; pv_walk
  | c, e :: rest, hl => by
    have ih := fun c' => pv_anyHtmlElemNamed n c' rest
    unfold anyHtmlElemNamed; pv_walk
    all_goals first | (apply ih; mem_tac) | skip
macro_rules | `(tactic| pv_leaf) => `(tactic| (with_reducible apply pv_anyHtmlElemNamed) <;> mem_tac)

theorem pv_inHtmlElemNamed {c : List Id} (n : String) : PV c (inHtmlElemNamed n) nil := by
  unfold inHtmlElemNamed; pv_walk
macro_rules | `(tactic| pv_leaf) => `(tactic| with_reducible exact pv_inHtmlElemNamed _)

theorem pv_insertElement {c : List Id} (p : Bool) (ns n : Str) (a : List Attr) (d : Bool) :
    PV c (insertElement p ns n a d) one := by
  unfold insertElement
  refine PV.bind (pv_appropriatePlaceForInsertion none (by mem_tac)) fun ip => ?_
  have h1 := nodes_fst_mem ip
  have h2 := @nodes_snd_mem ip
  pv_walk
macro_rules | `(tactic| pv_leaf) => `(tactic| with_reducible exact pv_insertElement _ _ _ _ _)

theorem pv_insertElementFor {c : List Id} (t : Tag) : PV c (insertElementFor t) one := pv_insertElement ..
macro_rules | `(tactic| pv_leaf) => `(tactic| with_reducible exact pv_insertElementFor _)
theorem pv_insertAndPopElementFor {c : List Id} (t : Tag) : PV c (insertAndPopElementFor t) one := pv_insertElement ..
macro_rules | `(tactic| pv_leaf) => `(tactic| with_reducible exact pv_insertAndPopElementFor _)
theorem pv_insertPhantom {c : List Id} (n : String) : PV c (insertPhantom n) one := pv_insertElement ..
macro_rules | `(tactic| pv_leaf) => `(tactic| with_reducible exact pv_insertPhantom _)

theorem pv_insertForeignElement {c : List Id} (t : Tag) (ns : Str) (b : Bool) :
    PV c (insertForeignElement t ns b) one := by
  unfold insertForeignElement; pv_walk
macro_rules | `(tactic| pv_leaf) => `(tactic| with_reducible exact pv_insertForeignElement _ _ _)

theorem pv_createRoot {c : List Id} (a : List Attr) : PV c (createRoot a) nil := by
  unfold createRoot; pv_walk
macro_rules | `(tactic| pv_leaf) => `(tactic| with_reducible exact pv_createRoot _)

theorem pv_appendText {c : List Id} (t : Str) : PV c (appendText t) prH := by unfold appendText; pv_walk
macro_rules | `(tactic| pv_leaf) => `(tactic| with_reducible exact pv_appendText _)
theorem pv_appendComment {c : List Id} (t : Str) : PV c (appendComment t) prH := by unfold appendComment; pv_walk
macro_rules | `(tactic| pv_leaf) => `(tactic| with_reducible exact pv_appendComment _)
theorem pv_appendCommentToDoc {c : List Id} (t : Str) : PV c (appendCommentToDoc t) prH := by
  unfold appendCommentToDoc; pv_walk
macro_rules | `(tactic| pv_leaf) => `(tactic| with_reducible exact pv_appendCommentToDoc _)
theorem pv_appendCommentToHtml {c : List Id} (t : Str) : PV c (appendCommentToHtml t) prH := by
  unfold appendCommentToHtml; pv_walk
macro_rules | `(tactic| pv_leaf) => `(tactic| with_reducible exact pv_appendCommentToHtml _)
theorem pv_parseRawData {c : List Id} (t : Tag) (k : H5V.Model.HtmlTok.RawKind) : PV c (parseRawData t k) prH := by
  unfold parseRawData; pv_walk
macro_rules | `(tactic| pv_leaf) => `(tactic| with_reducible exact pv_parseRawData _ _)

/-! ### scope predicates, implied end tags, popping -/

/-- a predicate on handles that only asks the sink about its argument (and handles in flight) -/
def PredOk (c0 : List Id) (pred : Id → M Bool) : Prop := ∀ (c : List Id) (h : Id), h ∈ c → (∀ x ∈ c0, x ∈ c) → PV c (pred h) nil

theorem pv_inScopeLoop (scope : EName → Bool) (pred : Id → M Bool) (c0 : List Id) (hp : PredOk c0 pred) :
    ∀ (c : List Id) (l : List Id), (∀ x ∈ l, x ∈ c) → (∀ x ∈ c0, x ∈ c) → PV c (inScopeLoop scope pred l) nil
  | c, [], _, _ => by unfold inScopeLoop; pv_walk
  | c, e :: rest, hl, h0 => by
    have ih := fun c' => pv_inScopeLoop scope pred c0 hp c' rest
    unfold inScopeLoop
    refine PV.bind (hp c e (hl e (by simp)) h0) fun b => ?_
    pv_walk
    all_goals first | (apply ih <;> mem_tac) | skip

theorem pv_inScope {c : List Id} (scope : EName → Bool) (pred : Id → M Bool) (c0 : List Id) (hp : PredOk c0 pred)
    (h0 : ∀ x ∈ c0, x ∈ c) : PV c (inScope scope pred) nil := by
  unfold inScope
  refine PV.getS_bind fun s => PV.at ?_ s
  exact pv_inScopeLoop scope pred c0 hp _ _ (by mem_tac) (by mem_tac)

theorem predOk_htmlElemNamedS (n : Str) : PredOk [] (fun h => htmlElemNamedS h n) :=
  fun _ h hm _ => pv_htmlElemNamedS h n hm
theorem predOk_elemIn (f : EName → Bool) : PredOk [] (fun h => elemIn h f) :=
  fun _ h hm _ => pv_elemIn h f hm
theorem predOk_sameNode_l (x : Id) : PredOk [x] (fun n => sameNode x n) :=
  fun _ h hm h0 => pv_sameNode x h (h0 x (by simp)) hm
theorem predOk_sameNode_r (x : Id) : PredOk [x] (fun n => sameNode n x) :=
  fun _ h hm h0 => pv_sameNode h x hm (h0 x (by simp))

theorem pv_inScopeNamedS {c : List Id} (scope : EName → Bool) (n : Str) : PV c (inScopeNamedS scope n) nil :=
  pv_inScope scope _ [] (predOk_htmlElemNamedS n) (fun _ h => nomatch h)
macro_rules | `(tactic| pv_leaf) => `(tactic| with_reducible exact pv_inScopeNamedS _ _)
theorem pv_inScopeNamed {c : List Id} (scope : EName → Bool) (n : String) : PV c (inScopeNamed scope n) nil :=
  pv_inScopeNamedS scope _
macro_rules | `(tactic| pv_leaf) => `(tactic| with_reducible exact pv_inScopeNamed _ _)
theorem pv_inScope_elemIn {c : List Id} (scope f : EName → Bool) : PV c (inScope scope (fun n => elemIn n f)) nil :=
  pv_inScope scope _ [] (predOk_elemIn f) (fun _ h => nomatch h)
macro_rules | `(tactic| pv_leaf) => `(tactic| with_reducible exact pv_inScope_elemIn _ _)
theorem pv_inScope_sameNode_l {c : List Id} (scope : EName → Bool) (x : Id) (hx : x ∈ c) :
    PV c (inScope scope (fun n => sameNode x n)) nil :=
  pv_inScope scope _ [x] (predOk_sameNode_l x) (by mem_tac)
macro_rules | `(tactic| pv_leaf) => `(tactic| (with_reducible apply pv_inScope_sameNode_l) <;> mem_tac)
theorem pv_inScope_sameNode_r {c : List Id} (scope : EName → Bool) (x : Id) (hx : x ∈ c) :
    PV c (inScope scope (fun n => sameNode n x)) nil :=
  pv_inScope scope _ [x] (predOk_sameNode_r x) (by mem_tac)
macro_rules | `(tactic| pv_leaf) => `(tactic| (with_reducible apply pv_inScope_sameNode_r) <;> mem_tac)

theorem pv_generateImpliedEndTagsLoop (set : EName → Bool) : ∀ (c : List Id) (fuel : Nat),
    PV c (generateImpliedEndTagsLoop set fuel) nil
  | c, 0 => by unfold generateImpliedEndTagsLoop; pv_walk
  | c, fuel + 1 => by
    have ih := fun c' => pv_generateImpliedEndTagsLoop set c' fuel
    unfold generateImpliedEndTagsLoop; pv_walk
    all_goals first | exact ih _ | skip
macro_rules | `(tactic| pv_leaf) => `(tactic| with_reducible exact pv_generateImpliedEndTagsLoop _ _ _)

theorem pv_generateImpliedEndTags {c : List Id} (set : EName → Bool) : PV c (generateImpliedEndTags set) nil := by
  unfold generateImpliedEndTags; pv_walk
macro_rules | `(tactic| pv_leaf) => `(tactic| with_reducible exact pv_generateImpliedEndTags _)
theorem pv_generateImpliedEndExcept {c : List Id} (e : Str) : PV c (generateImpliedEndExcept e) nil :=
  pv_generateImpliedEndTags _
macro_rules | `(tactic| pv_leaf) => `(tactic| with_reducible exact pv_generateImpliedEndExcept _)

theorem pv_popUntilCurrentLoop (set : EName → Bool) : ∀ (c : List Id) (fuel : Nat),
    PV c (popUntilCurrentLoop set fuel) nil
  | c, 0 => by unfold popUntilCurrentLoop; pv_walk
  | c, fuel + 1 => by
    have ih := fun c' => pv_popUntilCurrentLoop set c' fuel
    unfold popUntilCurrentLoop; pv_walk
    all_goals first | exact ih _ | skip
macro_rules | `(tactic| pv_leaf) => `(tactic| with_reducible exact pv_popUntilCurrentLoop _ _ _)
theorem pv_popUntilCurrent {c : List Id} (set : EName → Bool) : PV c (popUntilCurrent set) nil := by
  unfold popUntilCurrent; pv_walk
macro_rules | `(tactic| pv_leaf) => `(tactic| with_reducible exact pv_popUntilCurrent _)

theorem pv_popUntilLoop (pred : EName → Bool) : ∀ (c : List Id) (fuel n : Nat),
    PV c (popUntilLoop pred fuel n) nil
  | c, 0, _ => by unfold popUntilLoop; pv_walk
  | c, fuel + 1, n => by
    have ih := fun c' => pv_popUntilLoop pred c' fuel
    unfold popUntilLoop; pv_walk
    all_goals first | exact ih _ _ | skip
macro_rules | `(tactic| pv_leaf) => `(tactic| with_reducible exact pv_popUntilLoop _ _ _ _)
theorem pv_popUntil {c : List Id} (pred : EName → Bool) : PV c (popUntil pred) nil := by
  unfold popUntil; pv_walk
macro_rules | `(tactic| pv_leaf) => `(tactic| with_reducible exact pv_popUntil _)
theorem pv_popUntilNamedS {c : List Id} (n : Str) : PV c (popUntilNamedS n) nil := pv_popUntil _
macro_rules | `(tactic| pv_leaf) => `(tactic| with_reducible exact pv_popUntilNamedS _)
theorem pv_popUntilNamed {c : List Id} (n : String) : PV c (popUntilNamed n) nil := pv_popUntil _
macro_rules | `(tactic| pv_leaf) => `(tactic| with_reducible exact pv_popUntilNamed _)
theorem pv_expectToCloseS {c : List Id} (n : Str) : PV c (expectToCloseS n) nil := by
  unfold expectToCloseS; pv_walk
macro_rules | `(tactic| pv_leaf) => `(tactic| with_reducible exact pv_expectToCloseS _)
theorem pv_expectToClose {c : List Id} (n : String) : PV c (expectToClose n) nil := pv_expectToCloseS _
macro_rules | `(tactic| pv_leaf) => `(tactic| with_reducible exact pv_expectToClose _)
theorem pv_closePElement {c : List Id} : PV c closePElement nil := by unfold closePElement; pv_walk
macro_rules | `(tactic| pv_leaf) => `(tactic| with_reducible exact pv_closePElement)
theorem pv_closePElementInButtonScope {c : List Id} : PV c closePElementInButtonScope nil := by
  unfold closePElementInButtonScope; pv_walk
macro_rules | `(tactic| pv_leaf) => `(tactic| with_reducible exact pv_closePElementInButtonScope)

theorem pv_checkBodyEndLoop : ∀ (c : List Id) (l : List Id), (∀ x ∈ l, x ∈ c) → PV c (checkBodyEndLoop l) nil
  | c, [], _ => by unfold checkBodyEndLoop; pv_walk
  | c, e :: rest, hl => by
    have ih := fun c' => pv_checkBodyEndLoop c' rest
    unfold checkBodyEndLoop; pv_walk
    all_goals first | (apply ih; mem_tac) | skip
macro_rules | `(tactic| pv_leaf) => `(tactic| (with_reducible apply pv_checkBodyEndLoop) <;> mem_tac)
theorem pv_checkBodyEnd {c : List Id} : PV c checkBodyEnd nil := by unfold checkBodyEnd; pv_walk
macro_rules | `(tactic| pv_leaf) => `(tactic| with_reducible exact pv_checkBodyEnd)

theorem pv_bodyElem {c : List Id} : PV c bodyElem Option.toList := by unfold bodyElem; pv_walk
macro_rules | `(tactic| pv_leaf) => `(tactic| with_reducible exact pv_bodyElem)

end H5V.Props.C18
