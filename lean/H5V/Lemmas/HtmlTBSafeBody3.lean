import H5V.Lemmas.HtmlTBSafeBody2
/-!
# Tree-builder safety, InBody rules, part 3: the arms that change the insertion mode, enter `Text`, or
delegate; from `BK` to `StepPost`
-/
set_option linter.unusedVariables false
namespace H5V.Lemmas.TBSafe.IB
open H5V.Model.HtmlTB
open H5V.Model.Dom (Id QualName Attr NodeOrText SinkOp Output ElementFlags QuirksMode Dom NodeData Node)

variable {al : Allow}

/-- the situation of an `InBody` rule processing a tag token -/
structure Ctx (s : State) : Prop where
  ti : TI s
  bl : bodyLike s.mode = true
  nh : s.mode ≠ .inHead
  ntt : s.mode ≠ .inTableText

theorem preRoot_of_bodyLike {m : Mode} (h : bodyLike m = true) : preRoot m = false := by
  revert h; cases m <;> decide

theorem Ctx.hi {s : State} (c : Ctx s) : HInv s := c.ti.h
theorem Ctx.hr {s : State} (c : Ctx s) : Rooted s.dom s.openElems := c.ti.rooted (preRoot_of_bodyLike c.bl)

theorem Ctx.origOk {s : State} (c : Ctx s) : origOk s.mode = true := by
  have h1 := c.bl
  have h2 := c.ntt
  revert h1 h2
  cases s.mode <;> simp [bodyLike, preRoot, H5V.Lemmas.TBSafe.origOk]

theorem ti_of_bk {s s' : State} (ht : TI s) (hm : bodyLike s.mode = true) (hnh : s.mode ≠ .inHead)
    (b : BK s s') : TI s' :=
  ⟨b.b.hinv, by rw [b.b.mode]; exact ht.s.of_bstep ht.h b.b hm (Keeps.of_tdTh hnh b.k)⟩

theorem Ctx.of_bk {s s' : State} (c : Ctx s) (b : BK s s') : Ctx s' :=
  ⟨ti_of_bk c.ti c.bl c.nh b, by rw [b.b.mode]; exact c.bl, by rw [b.b.mode]; exact c.nh,
    by rw [b.b.mode]; exact c.ntt⟩

/-- a `BK` step followed by a continuation that needs the whole context -/
theorem ctx_step {α β : Type} {m : M α} {f : α → M β} {s : State} {Q : β → State → Prop} (c : Ctx s)
    (h : Sat m s (fun _ s1 => BK s s1)) (hf : ∀ a s1, Ctx s1 → Sat (f a) s1 Q) : Sat (m >>= f) s Q :=
  h.bind (fun a s1 hb => hf a s1 (c.of_bk hb))

theorem ctx_stepQ {α β : Type} {m : M α} {f : α → M β} {s : State} {P : α → Prop} {Q : β → State → Prop}
    (c : Ctx s) (h : Sat m s (fun a s1 => P a ∧ QF s s1)) (hf : ∀ a s1, P a → QF s s1 → Ctx s1 → Sat (f a) s1 Q) :
    Sat (m >>= f) s Q :=
  h.bind (fun a s1 hb => hf a s1 hb.1 hb.2 (c.of_bk (BK.of_qf c.hi c.hr hb.2)))

/-- the result of an arm that keeps the mode -/
theorem stepPost_of_bk {tok : Token} {res : ProcessResult} {s s' : State} (ht : TI s)
    (hm : bodyLike s.mode = true) (hnh : s.mode ≠ .inHead) (b : BK s s') (hp : PlainRes res)
    (hc : isCharsTok tok = true → res = .done) : StepPost tok res s' := by
  have hk := Keeps.of_tdTh (m := s.mode) hnh b.k
  rcases hp with rfl | rfl | rfl
  · exact StepPost.of_bstep ht hm b.b hk rfl trivial
  · exact StepPost.of_bstep ht hm b.b hk rfl trivial
  · refine StepPost.of_bstep ht hm b.b hk rfl ?_
    show isCharsTok tok = false
    cases h : isCharsTok tok with
    | false => rfl
    | true => cases hc h

/-- from an arm lemma to the statement of `BodySpec` (tag tokens) -/
theorem fin_tag {tag : Tag} {m : M ProcessResult} {s : State} (c : Ctx s)
    (h : Sat m s (fun r s' => PlainRes r ∧ BK s s')) :
    Sat m s (fun res s' => StepPost (.tag tag) res s' ∧ (isCharsTok (.tag tag) = true → res = .done)) :=
  h.mono (fun r s' h => ⟨stepPost_of_bk c.ti c.bl c.nh h.2 h.1 (fun hc => by cases hc), fun hc => by cases hc⟩)

theorem fin_post {tag : Tag} {m : M ProcessResult} {s : State} (h : Sat m s (StepPost (.tag tag))) :
    Sat m s (fun res s' => StepPost (.tag tag) res s' ∧ (isCharsTok (.tag tag) = true → res = .done)) :=
  h.mono (fun r s' h => ⟨h, fun hc => by cases hc⟩)

/-- a `BStep` followed by a switch to a mode without requirements on the stack -/
theorem sinv_to {m m' : Mode} {s s' : State} (hi : HInv s) (h : SInv m s) (hroot : preRoot m = false)
    (b : BStep s s') (hm : m ≠ .inTableText) (hs : ModeStack s'.dom m' s'.openElems)
    (hh : needsHead m' = false) (ht : m' ≠ .text) (htt : m' ≠ .inTableText) : SInv m' s' := by
  have h0 : SInv .inBody s :=
    h.chmode hm (fun _ => h.root hroot) trivial (fun h => absurd h (by decide)) (by decide) (by decide)
  have h1 : SInv .inBody s' := h0.of_bstep hi b rfl (fun x hx hp => by cases hp)
  exact h1.chmode (by decide) (fun _ => b.rooted) hs (fun h => by rw [hh] at h; cases h) ht htt

theorem Ctx.sinv_to {s s' : State} (c : Ctx s) (m' : Mode) (b : BStep s s')
    (hs : ModeStack s'.dom m' s'.openElems) (hh : needsHead m' = false) (ht : m' ≠ .text)
    (htt : m' ≠ .inTableText) : SInv m' s' :=
  IB.sinv_to c.hi c.ti.s (preRoot_of_bodyLike c.bl) b c.ntt hs hh ht htt

/-! ### `<frameset>`, `</body>`, `</html>`, `<table>` -/

theorem arm_frameset {tag : Tag} {s : State} (c : Ctx s) (hn : NewOk ⟨nsHtml, tag.name⟩) :
    Sat (do
      let _ ← unexpected
      if !(← getS).framesetOk then pure .done
      else
        match ← bodyElem with
        | none => pure .done
        | some body =>
          sinkUnit (.removeFromParent body)
          modS fun s => { s with openElems := s.openElems.take 1 }
          let _ ← insertElementFor tag
          setMode .inFrameset
          pure .done) s (StepPost (.tag tag)) := by
  have hdone : ∀ s1, Ctx s1 → Sat (pure ProcessResult.done : M ProcessResult) s1 (StepPost (.tag tag)) := by
    intro s1 c1
    refine sat_pure ?_
    exact stepPost_of_bk c1.ti c1.bl c1.nh (bk_refl c1.hi c1.hr) plain_done (fun h => by cases h)
  refine ctx_step c (bk_unexpected c.hi c.hr) ?_
  intro _ s1 c1
  refine sat_getS_bind ?_
  split
  · exact hdone s1 c1
  · refine ctx_step c1 ((sat_bodyElem c1.hi.open_el).mono (fun _ _ h => BK.of_qf c1.hi c1.hr h.1)) ?_
    intro r s2 c2
    cases r with
    | none => exact hdone s2 c2
    | some body =>
      dsimp only
      refine ctx_step c2 ((sat_sinkUnit_mut (op := SinkOp.removeFromParent body) trivial).mono (fun _ _ h => BK.of_qf c2.hi c2.hr h)) ?_
      intro _ s3 c3
      refine sat_modS_bind ?_
      obtain ⟨r, rest, hl, hnr⟩ := c3.hr
      have hb4 : BStep s3 { s3 with openElems := s3.openElems.take 1 } :=
        BStep.of_st (pre := [r]) (post := rest) c3.hi c3.hr (by rw [hl]; rfl) (by simp)
          ⟨(Fr.refl s3).withOpen _, by rw [hl]; rfl, rfl⟩
      refine (sat_insertElementFor (PlaceOk.of_hinv hb4.hinv hb4.rooted)).bind ?_
      intro _ s5 hins
      have hb5 := BStep.of_inserted hb4.hinv hb4.rooted hins hn
      refine sat_setMode.bind ?_
      rintro _ s6 rfl
      refine sat_pure ?_
      exact ⟨hb5.hinv.withMode _,
        (c3.sinv_to .inFrameset (hb4.trans hb5) trivial rfl (by decide) (by decide)).withMode _, trivial⟩

theorem arm_endBody {tag : Tag} {s : State} (c : Ctx s) :
    Sat (do
      if ← inScopeNamed defaultScope "body" then
        checkBodyEnd
        setMode .afterBody
      else parseError "</body> with no <body> in scope"
      pure .done) s (StepPost (.tag tag)) := by
  refine ctx_step c ((sat_inScopeNamed c.hi.open_el).mono (fun _ _ h => BK.of_qf c.hi c.hr h.2)) ?_
  intro b s1 c1
  split
  · refine ctx_step c1 ((sat_checkBodyEnd c1.hi.open_el).mono (fun _ _ h => BK.of_qf c1.hi c1.hr h)) ?_
    intro _ s2 c2
    refine sat_setMode.bind ?_
    rintro _ s3 rfl
    refine sat_pure ?_
    exact ⟨c2.hi.withMode _,
      (c2.sinv_to .afterBody (bk_refl c2.hi c2.hr).b trivial rfl (by decide) (by decide)).withMode _, trivial⟩
  · refine ctx_step c1 (bk_parseError c1.hi c1.hr) ?_
    intro _ s2 c2
    refine sat_pure ?_
    exact stepPost_of_bk c2.ti c2.bl c2.nh (bk_refl c2.hi c2.hr) plain_done (fun h => by cases h)

theorem arm_endHtml {tag : Tag} {s : State} (c : Ctx s) :
    Sat (do
      if ← inScopeNamed defaultScope "body" then
        checkBodyEnd
        pure (.reprocess .afterBody (.tag tag))
      else
        parseError "</html> with no <body> in scope"
        pure .done) s (StepPost (.tag tag)) := by
  refine ctx_step c ((sat_inScopeNamed c.hi.open_el).mono (fun _ _ h => BK.of_qf c.hi c.hr h.2)) ?_
  intro b s1 c1
  split
  · refine ctx_step c1 ((sat_checkBodyEnd c1.hi.open_el).mono (fun _ _ h => BK.of_qf c1.hi c1.hr h)) ?_
    intro _ s2 c2
    refine sat_pure ?_
    exact ⟨c2.hi, c2.sinv_to .afterBody (bk_refl c2.hi c2.hr).b trivial rfl (by decide) (by decide), rfl, by decide⟩
  · refine ctx_step c1 (bk_parseError c1.hi c1.hr) ?_
    intro _ s2 c2
    refine sat_pure ?_
    exact stepPost_of_bk c2.ti c2.bl c2.nh (bk_refl c2.hi c2.hr) plain_done (fun h => by cases h)

theorem arm_table {tag : Tag} {s : State} (c : Ctx s) (hn : NewOk ⟨nsHtml, tag.name⟩) :
    Sat (do
      if (← getS).quirksMode != .quirks then closePElementInButtonScope
      let _ ← insertElementFor tag
      setFramesetOk false
      setMode .inTable
      pure .done) s (StepPost (.tag tag)) := by
  have hfin : ∀ s1, Ctx s1 →
      Sat (do
        let _ ← insertElementFor tag
        setFramesetOk false
        setMode Mode.inTable
        pure ProcessResult.done) s1 (StepPost (.tag tag)) := by
    intro s1 c1
    refine ctx_step c1 (bk_insertFor c1.hi c1.hr hn) ?_
    intro _ s2 c2
    refine ctx_step c2 (bk_setFramesetOk c2.hi c2.hr) ?_
    intro _ s3 c3
    refine sat_setMode.bind ?_
    rintro _ s4 rfl
    refine sat_pure ?_
    exact ⟨c3.hi.withMode _,
      (c3.sinv_to .inTable (bk_refl c3.hi c3.hr).b trivial rfl (by decide) (by decide)).withMode _, trivial⟩
  refine sat_getS_bind ?_
  split
  · exact ctx_step c (bk_closeP c.hi c.hr) (fun _ s1 c1 => hfin s1 c1)
  · exact hfin s c

/-! ### the arms that switch to `Text` -/

theorem rawData_post {tag : Tag} {k : H5V.Model.HtmlTok.RawKind} {s : State} (c : Ctx s)
    (hn : NewOk ⟨nsHtml, tag.name⟩) : Sat (parseRawData tag k) s (StepPost (.tag tag)) := by
  refine (sat_parseRawData (PlaceOk.of_hinv c.hi c.hr)).mono ?_
  rintro res s' ⟨rfl, s1, r, hins, rfl⟩
  have hb := BStep.of_inserted c.hi c.hr hins hn
  have hs1 : SInv s.mode s1 := c.ti.s.of_bstep c.hi hb c.bl (Keeps.of_inserted hins)
  have ho : s1.openElems = s.openElems ++ [r] := by rw [hins.openElems]; rfl
  refine ⟨⟨hb.hinv.open_el, hb.hinv.open_tc, hb.hinv.af, hb.hinv.head, hb.hinv.form, hb.hinv.ctx⟩, ?_, rfl⟩
  show SInv .text _
  refine ⟨fun _ => hb.rooted, ?_, fun h => absurd h (by decide), hs1.headIn, ?_, (fun h => by cases h),
    fun _ => hs1.pending c.ntt, hs1.tmpl, hs1.tmodes⟩
  · show ∃ t, s1.openElems.getLast? = some t ∧ (nm s1.dom t).ns = nsHtml
    exact ⟨r, by rw [ho]; simp, by rw [hins.nm]⟩
  · intro _
    refine ⟨s1.mode, rfl, ?_, ?_, ?_, ?_⟩
    · rw [hins.fr.mode]; exact c.origOk
    · show 2 ≤ s1.openElems.length
      obtain ⟨r0, rest, hl, _⟩ := c.hr
      rw [ho, hl]; simp
    · show ModeStack s1.dom s1.mode s1.openElems.dropLast
      rw [ho, List.dropLast_concat, hins.fr.mode]
      exact c.ti.s.stack.ext hins.fr.ext c.hi.open_el
    · rw [hins.fr.mode]
      intro h
      show s1.headElem.isSome = true
      rw [hins.fr.headElem]; exact c.ti.s.head h

theorem arm_textarea {tag : Tag} {s : State} (c : Ctx s) (hn : NewOk ⟨nsHtml, tag.name⟩) :
    Sat (do
      modS fun s => { s with ignoreLf := true }
      setFramesetOk false
      parseRawData tag .rcdata) s (StepPost (.tag tag)) := by
  refine ctx_step c (sat_modS (bk_withIgnoreLf c.hi c.hr true)) ?_
  intro _ s1 c1
  refine ctx_step c1 (bk_setFramesetOk c1.hi c1.hr) ?_
  intro _ s2 c2
  exact rawData_post c2 hn

theorem arm_xmp {tag : Tag} {s : State} (c : Ctx s) (hn : NewOk ⟨nsHtml, tag.name⟩) :
    Sat (do
      closePElementInButtonScope
      reconstructActiveFormattingElements
      setFramesetOk false
      parseRawData tag .rawtext) s (StepPost (.tag tag)) := by
  refine ctx_step c (bk_closeP c.hi c.hr) ?_
  intro _ s1 c1
  refine ctx_step c1 (bk_reconstruct c1.hi c1.hr) ?_
  intro _ s2 c2
  refine ctx_step c2 (bk_setFramesetOk c2.hi c2.hr) ?_
  intro _ s3 c3
  exact rawData_post c3 hn

theorem arm_iframe {tag : Tag} {s : State} (c : Ctx s) (hn : NewOk ⟨nsHtml, tag.name⟩) :
    Sat (do
      setFramesetOk false
      parseRawData tag .rawtext) s (StepPost (.tag tag)) := by
  refine ctx_step c (bk_setFramesetOk c.hi c.hr) ?_
  intro _ s1 c1
  exact rawData_post c1 hn

/-- the catch-all start tag -/
theorem arm_otherStart {tag : Tag} {s : State} (c : Ctx s) (hn : NewOk ⟨nsHtml, tag.name⟩) :
    Sat (do
      if (← getS).opts.scriptingEnabled && isName tag.name "noscript" then parseRawData tag .rawtext
      else
        reconstructActiveFormattingElements
        let _ ← insertElementFor tag
        pure .done) s (fun res s' => StepPost (.tag tag) res s' ∧ (isCharsTok (.tag tag) = true → res = .done)) := by
  refine sat_getS_bind ?_
  split
  · exact fin_post (rawData_post c hn)
  · exact fin_tag c (arm_anyStart c.hi c.hr hn)

/-! ### the catch-all end tag -/

theorem modeNeed_false {m : Mode} {n : EName} (h1 : m ≠ .inHead) (h2 : m ≠ .inCell) : modeNeed m n = false := by
  cases m <;> first | rfl | exact absurd rfl h1 | exact absurd rfl h2

theorem arm_otherEnd {tag : Tag} {s : State} (het : EndTagSpec) (c : Ctx s) (hname : tag.name ≠ "html".toList)
    (hcell : s.mode = .inCell → isOneOf tag.name ["td", "th"] = false) :
    Sat (do
      processEndTagInBody tag
      pure .done) s (StepPost (.tag tag)) := by
  refine (het tag s c.hi c.hr hname).bind ?_
  rintro _ s1 ⟨pre, post, heq, st, hne, hp⟩
  refine sat_pure ?_
  have hb : BStep s s1 := BStep.of_st c.hi c.hr heq hne st
  refine StepPost.of_bstep c.ti c.bl hb ?_ rfl trivial
  by_cases hm : s.mode = .inCell
  · refine Keeps.of_tdTh c.nh (Keeps.of_pops heq st.openElems ?_)
    intro y hy
    rcases hp y hy with h | h
    · exact popOk_tdTh (popOk_of_not_special h)
    · rw [namedP_nm h]
      unfold tdTh htmlIn
      rw [hcell hm]; simp
  · intro x hx hP
    rw [modeNeed_false c.nh hm] at hP
    cases hP

end H5V.Lemmas.TBSafe.IB
