import H5V.Lemmas.HtmlTokChunk
/-!
`step` respects the dead-`current_char` simulation; big-step runs; the chunk-merging theorem.
-/
namespace H5V.Model.HtmlTok

/-! ### `step` respects `Sim` -/

theorem preprocess_setCC (o : Opts) (m : Mach) (a x : Char) (xs : Str) :
    preprocess o (m.setCurrentChar a) x xs =
      match preprocess o m x xs with
      | (some c, m', i') => (some c, m', i')
      | (none, m', i') => (none, m'.setCurrentChar a, i') := by
  unfold preprocess
  simp only [setCurrentChar_ignoreLf, setIgnoreLf_setCurrentChar, foldChar_setCurrentChar]
  repeat' split
  all_goals simp_all

theorem getChar_setCC (o : Opts) (m : Mach) (a : Char) (inp : Str) (hr : m.reconsume = false) :
    getChar o (m.setCurrentChar a) inp =
      match getChar o m inp with
      | (some c, m', i') => (some c, m', i')
      | (none, m', i') => (none, m'.setCurrentChar a, i') := by
  unfold getChar
  simp only [setCurrentChar_reconsume, hr, Bool.false_eq_true, ↓reduceIte]
  cases inp with
  | nil => rfl
  | cons x xs => exact preprocess_setCC o m a x xs

/-- how a read result relates when only the (dead) `current_char` differs -/
def liftSetCC (a : Char) (r : Option SetRes × Mach × Str) : Option SetRes × Mach × Str :=
  match r with
  | (some (.fromSet c), m', i') => (some (.fromSet c), m', i')
  | (some (.notFromSet b), m', i') => (some (.notFromSet b), m'.setCurrentChar a, i')
  | (none, m', i') => (none, m'.setCurrentChar a, i')

theorem popExceptFrom_setCC (o : Opts) (S : List Char) (m : Mach) (a : Char) (inp : Str)
    (hr : m.reconsume = false) :
    popExceptFrom o S (m.setCurrentChar a) inp = liftSetCC a (popExceptFrom o S m inp) := by
  unfold popExceptFrom
  simp only [setCurrentChar_reconsume, setCurrentChar_ignoreLf]
  split
  · rw [getChar_setCC o m a inp hr]
    cases hg : getChar o m inp with
    | mk c r => obtain ⟨m1, i1⟩ := r; cases c <;> simp [liftSetCC]
  · cases inp with
    | nil => simp [liftSetCC]
    | cons x xs =>
      simp only
      split
      · rw [preprocess_setCC]
        cases hg : preprocess o m x xs with
        | mk c r => obtain ⟨m1, i1⟩ := r; cases c <;> simp [liftSetCC]
      · simp [liftSetCC]

theorem readData_setCC (o : Opts) (m : Mach) (a : Char) (inp : Str) (hr : m.reconsume = false) :
    readData o (m.setCurrentChar a) inp = liftSetCC a (readData o m inp) := by
  unfold readData
  simp only [setCurrentChar_reconsume, setCurrentChar_ignoreLf]
  split
  · exact popExceptFrom_setCC o _ m a inp hr
  · cases inp with
    | nil => simp [liftSetCC]
    | cons x xs =>
      simp only
      split
      · exact popExceptFrom_setCC o _ m a (x :: xs) hr
      · simp only [liftSetCC]
        split <;> rfl

theorem deadCC_of_fields {m m1 : Mach} (hd : deadCC m) (h1 : m1.state = m.state)
    (h2 : m1.reconsume = false) (h3 : m1.charRef = m.charRef) : deadCC m1 :=
  ⟨h2, by rw [h3]; exact hd.2.1, by rw [h1]; exact hd.2.2⟩

theorem contSet_liftSetCC (o : Opts) (pol : Pol) (m : Mach) (a : Char) (hd : deadCC m)
    (r : Option SetRes × Mach × Str)
    (hok : ∀ s m1 i1, r = (some s, m1, i1) → ReadOk m m1 s)
    (hnone : ∀ m1 i1, r = (none, m1, i1) → m1.state = m.state ∧ m1.reconsume = false ∧ m1.charRef = m.charRef) :
    RSim (contSet o pol r) (contSet o pol (liftSetCC a r)) := by
  obtain ⟨c, m1, i1⟩ := r
  cases c with
  | none =>
    obtain ⟨h1, h2, h3⟩ := hnone m1 i1 rfl
    simp only [liftSetCC, contSet, RSim]
    exact ⟨Or.inr ⟨deadCC_of_fields hd h1 h2 h3, a, rfl⟩, trivial⟩
  | some s =>
    have hro := hok s m1 i1 rfl
    cases s with
    | fromSet c => simp only [liftSetCC]; exact RSim.refl _
    | notFromSet b =>
      simp only [liftSetCC, contSet]
      obtain ⟨hst, hcr, hcc⟩ := transSet_notFromSet o pol m1 b
      rw [hcc a]
      have hrec := transSet_reconsume o pol m1 (.notFromSet b)
      generalize transSet o pol m1 (.notFromSet b) = T at hst hcr hrec ⊢
      obtain ⟨T1, T2⟩ := T
      simp only at hst hcr hrec ⊢
      have hdead : deadCC T1 :=
        deadCC_of_fields hd (hst.trans hro.1) (by rw [hrec, hro.2.2.1]) (hcr.trans hro.2.2.2.1)
      have hsim : Sim T1 (T1.setCurrentChar a) := Or.inr ⟨hdead, a, rfl⟩
      unfold ofSig
      cases T2 <;> simp [RSim, hsim]

/-- **`step` respects the simulation** -/
theorem step_sim (o : Opts) (pol : Pol) (m1 m2 : Mach) (inp : Str) (h : Sim m1 m2) :
    RSim (step o pol m1 inp) (step o pol m2 inp) := by
  rcases h with h | ⟨hd, a, ha⟩
  · subst h; exact RSim.refl _
  · subst ha
    obtain ⟨hr, hcr, hk⟩ := hd
    rcases hk with hk | hk
    · rw [step_popExcept o pol m1 inp hcr hk,
        step_popExcept o pol (m1.setCurrentChar a) inp (by simp [hcr]) (by simp [hk])]
      simp only [setCurrentChar_state]
      rw [popExceptFrom_setCC o _ m1 a inp hr]
      apply contSet_liftSetCC o pol m1 a ⟨hr, hcr, Or.inl hk⟩
      · intro s m' i' heq; exact popExceptFrom_fields o _ m1 m' inp i' s heq
      · intro m' i' heq
        obtain ⟨_, _, g3⟩ := popExceptFrom_none o _ m1 m' inp i' heq
        rcases g3 with ⟨_, g4⟩ | ⟨_, _, g4⟩ <;> subst g4 <;> simp [hr]
    · rw [step_dataSimd o pol m1 inp hcr hk,
        step_dataSimd o pol (m1.setCurrentChar a) inp (by simp [hcr]) (by simp [hk])]
      rw [readData_setCC o m1 a inp hr]
      apply contSet_liftSetCC o pol m1 a ⟨hr, hcr, Or.inr hk⟩
      · intro s m' i' heq; exact readData_fields o m1 m' inp i' s heq
      · intro m' i' heq
        obtain ⟨_, _, g3⟩ := readData_none o m1 m' inp i' heq
        rcases g3 with ⟨_, g4⟩ | ⟨_, _, g4⟩ <;> subst g4 <;> simp [hr]

/-! ### big-step runs (pauses are resumed at once, as `Parser::process` / the harness do) -/

/-- `RunsTo m inp m'`: starting the tokenizer loop on machine `m` with unread input `inp`, resuming
immediately after every Script / EncodingIndicator pause, it consumes all of `inp` and suspends
("needs more input") in machine `m'` -/
inductive RunsTo (o : Opts) (pol : Pol) : Mach → Str → Mach → Prop
  | susp {m inp m'} : step o pol m inp = .suspend m' [] → RunsTo o pol m inp m'
  | cont {m inp m1 i1 m'} : step o pol m inp = .cont m1 i1 → RunsTo o pol m1 i1 m' → RunsTo o pol m inp m'
  | script {m inp m1 i1 m'} : step o pol m inp = .script m1 i1 → RunsTo o pol m1 i1 m' → RunsTo o pol m inp m'
  | indicator {m inp m1 i1 m'} : step o pol m inp = .indicator m1 i1 → RunsTo o pol m1 i1 m' →
      RunsTo o pol m inp m'

/-- one step onward from an `RSim`-related step result -/
theorem runsTo_of_rsim (o : Opts) (pol : Pol) {ma mb : Mach} {ia ib : Str} {m' : Mach}
    (ih : ∀ x y i, Sim x y → RunsTo o pol y i m' → ∃ m'', RunsTo o pol x i m'' ∧ Sim m'' m')
    (hrs : RSim (step o pol ma ia) (step o pol mb ib)) (hrun : RunsTo o pol mb ib m') :
    ∃ m'', RunsTo o pol ma ia m'' ∧ Sim m'' m' := by
  cases hrun with
  | susp hs =>
    rw [hs] at hrs
    cases hsa : step o pol ma ia with
    | suspend x i =>
      rw [hsa] at hrs
      obtain ⟨h1, h2⟩ := hrs
      subst h2
      exact ⟨x, RunsTo.susp hsa, h1⟩
    | cont x i => rw [hsa] at hrs; exact absurd hrs (by simp [RSim])
    | script x i => rw [hsa] at hrs; exact absurd hrs (by simp [RSim])
    | indicator x i => rw [hsa] at hrs; exact absurd hrs (by simp [RSim])
    | panic e => rw [hsa] at hrs; exact absurd hrs (by simp [RSim])
  | cont hs hr =>
    rw [hs] at hrs
    cases hsa : step o pol ma ia with
    | cont x i =>
      rw [hsa] at hrs
      obtain ⟨h1, h2⟩ := hrs
      subst h2
      obtain ⟨m'', hr', hs'⟩ := ih x _ i h1 hr
      exact ⟨m'', RunsTo.cont hsa hr', hs'⟩
    | suspend x i => rw [hsa] at hrs; exact absurd hrs (by simp [RSim])
    | script x i => rw [hsa] at hrs; exact absurd hrs (by simp [RSim])
    | indicator x i => rw [hsa] at hrs; exact absurd hrs (by simp [RSim])
    | panic e => rw [hsa] at hrs; exact absurd hrs (by simp [RSim])
  | script hs hr =>
    rw [hs] at hrs
    cases hsa : step o pol ma ia with
    | script x i =>
      rw [hsa] at hrs
      obtain ⟨h1, h2⟩ := hrs
      subst h2
      obtain ⟨m'', hr', hs'⟩ := ih x _ i h1 hr
      exact ⟨m'', RunsTo.script hsa hr', hs'⟩
    | suspend x i => rw [hsa] at hrs; exact absurd hrs (by simp [RSim])
    | cont x i => rw [hsa] at hrs; exact absurd hrs (by simp [RSim])
    | indicator x i => rw [hsa] at hrs; exact absurd hrs (by simp [RSim])
    | panic e => rw [hsa] at hrs; exact absurd hrs (by simp [RSim])
  | indicator hs hr =>
    rw [hs] at hrs
    cases hsa : step o pol ma ia with
    | indicator x i =>
      rw [hsa] at hrs
      obtain ⟨h1, h2⟩ := hrs
      subst h2
      obtain ⟨m'', hr', hs'⟩ := ih x _ i h1 hr
      exact ⟨m'', RunsTo.indicator hsa hr', hs'⟩
    | suspend x i => rw [hsa] at hrs; exact absurd hrs (by simp [RSim])
    | cont x i => rw [hsa] at hrs; exact absurd hrs (by simp [RSim])
    | script x i => rw [hsa] at hrs; exact absurd hrs (by simp [RSim])
    | panic e => rw [hsa] at hrs; exact absurd hrs (by simp [RSim])

/-- runs from `Sim`-related machines on the same input end in `Sim`-related machines -/
theorem runsTo_sim (o : Opts) (pol : Pol) {y : Mach} {i : Str} {m' : Mach}
    (hrun : RunsTo o pol y i m') : ∀ x, Sim x y → ∃ m'', RunsTo o pol x i m'' ∧ Sim m'' m' := by
  induction hrun with
  | @susp m0 inp0 m0' hs =>
    intro x hsim
    have hrs := step_sim o pol x m0 inp0 hsim
    rw [hs] at hrs
    cases hsa : step o pol x inp0 with
    | suspend x1 i1 =>
      rw [hsa] at hrs
      obtain ⟨h1, h2⟩ := hrs
      subst h2
      exact ⟨x1, RunsTo.susp hsa, h1⟩
    | cont _ _ => rw [hsa] at hrs; exact absurd hrs (by simp [RSim])
    | script _ _ => rw [hsa] at hrs; exact absurd hrs (by simp [RSim])
    | indicator _ _ => rw [hsa] at hrs; exact absurd hrs (by simp [RSim])
    | panic _ => rw [hsa] at hrs; exact absurd hrs (by simp [RSim])
  | @cont m0 inp0 m1 i1 m0' hs hr ih =>
    intro x hsim
    have hrs := step_sim o pol x m0 inp0 hsim
    rw [hs] at hrs
    cases hsa : step o pol x inp0 with
    | cont x1 i1 =>
      rw [hsa] at hrs
      obtain ⟨h1, h2⟩ := hrs
      subst h2
      obtain ⟨m'', hr', hs'⟩ := ih x1 h1
      exact ⟨m'', RunsTo.cont hsa hr', hs'⟩
    | suspend _ _ => rw [hsa] at hrs; exact absurd hrs (by simp [RSim])
    | script _ _ => rw [hsa] at hrs; exact absurd hrs (by simp [RSim])
    | indicator _ _ => rw [hsa] at hrs; exact absurd hrs (by simp [RSim])
    | panic _ => rw [hsa] at hrs; exact absurd hrs (by simp [RSim])
  | @script m0 inp0 m1 i1 m0' hs hr ih =>
    intro x hsim
    have hrs := step_sim o pol x m0 inp0 hsim
    rw [hs] at hrs
    cases hsa : step o pol x inp0 with
    | script x1 i1 =>
      rw [hsa] at hrs
      obtain ⟨h1, h2⟩ := hrs
      subst h2
      obtain ⟨m'', hr', hs'⟩ := ih x1 h1
      exact ⟨m'', RunsTo.script hsa hr', hs'⟩
    | suspend _ _ => rw [hsa] at hrs; exact absurd hrs (by simp [RSim])
    | cont _ _ => rw [hsa] at hrs; exact absurd hrs (by simp [RSim])
    | indicator _ _ => rw [hsa] at hrs; exact absurd hrs (by simp [RSim])
    | panic _ => rw [hsa] at hrs; exact absurd hrs (by simp [RSim])
  | @indicator m0 inp0 m1 i1 m0' hs hr ih =>
    intro x hsim
    have hrs := step_sim o pol x m0 inp0 hsim
    rw [hs] at hrs
    cases hsa : step o pol x inp0 with
    | indicator x1 i1 =>
      rw [hsa] at hrs
      obtain ⟨h1, h2⟩ := hrs
      subst h2
      obtain ⟨m'', hr', hs'⟩ := ih x1 h1
      exact ⟨m'', RunsTo.indicator hsa hr', hs'⟩
    | suspend _ _ => rw [hsa] at hrs; exact absurd hrs (by simp [RSim])
    | cont _ _ => rw [hsa] at hrs; exact absurd hrs (by simp [RSim])
    | script _ _ => rw [hsa] at hrs; exact absurd hrs (by simp [RSim])
    | panic _ => rw [hsa] at hrs; exact absurd hrs (by simp [RSim])

theorem R.isSuspend_cont (m : Mach) (i : Str) : (R.cont m i).isSuspend = false := rfl
theorem R.isSuspend_script (m : Mach) (i : Str) : (R.script m i).isSuspend = false := rfl
theorem R.isSuspend_indicator (m : Mach) (i : Str) : (R.indicator m i).isSuspend = false := rfl

/-- **chunk merging.** If the tokenizer, fed `a`, runs to suspension in `m1`, and then, fed `b`,
runs to suspension in `m2`, then fed `a ++ b` in one piece it runs to suspension in a machine
equal to `m2` up to a dead `current_char` — in particular with the same tokens, parse errors,
line numbers and pauses delivered to the sink. -/
theorem runsTo_chunk (o : Opts) (pol : Pol) {m : Mach} {a : Str} {m1 : Mach}
    (hrun : RunsTo o pol m a m1) :
    Good m → m.atEof = false → ∀ (b : Str) (m2 : Mach), RunsTo o pol m1 b m2 →
      ∃ m2', RunsTo o pol m (a ++ b) m2' ∧ Sim m2' m2 := by
  induction hrun with
  | @susp m0 inp0 m0' hs =>
    intro hg hat b m2 hr2
    obtain ⟨_, hrs, _, _⟩ := step_resume o pol m0 m0' inp0 [] b hg hat hs
    exact runsTo_of_rsim o pol (fun x y i hsim hr => runsTo_sim o pol hr x hsim) hrs hr2
  | @cont m0 inp0 mx ix m0' hs hr ih =>
    intro hg hat b m2 hr2
    have hmono := step_mono o pol m0 inp0 b hg.eatOk hat (by rw [hs]; rfl)
    rw [hs] at hmono
    obtain ⟨hgx, hax⟩ := step_good o pol m0 inp0 hg hat mx (by rw [hs]; rfl)
    obtain ⟨m2', hr', hsim⟩ := ih hgx (by rw [hax, hat]) b m2 hr2
    exact ⟨m2', RunsTo.cont hmono hr', hsim⟩
  | @script m0 inp0 mx ix m0' hs hr ih =>
    intro hg hat b m2 hr2
    have hmono := step_mono o pol m0 inp0 b hg.eatOk hat (by rw [hs]; rfl)
    rw [hs] at hmono
    obtain ⟨hgx, hax⟩ := step_good o pol m0 inp0 hg hat mx (by rw [hs]; rfl)
    obtain ⟨m2', hr', hsim⟩ := ih hgx (by rw [hax, hat]) b m2 hr2
    exact ⟨m2', RunsTo.script hmono hr', hsim⟩
  | @indicator m0 inp0 mx ix m0' hs hr ih =>
    intro hg hat b m2 hr2
    have hmono := step_mono o pol m0 inp0 b hg.eatOk hat (by rw [hs]; rfl)
    rw [hs] at hmono
    obtain ⟨hgx, hax⟩ := step_good o pol m0 inp0 hg hat mx (by rw [hs]; rfl)
    obtain ⟨m2', hr', hsim⟩ := ih hgx (by rw [hax, hat]) b m2 hr2
    exact ⟨m2', RunsTo.indicator hmono hr', hsim⟩

/-- the invariant and `at_eof` at the end of a run -/
theorem runsTo_good (o : Opts) (pol : Pol) {m : Mach} {a : Str} {m1 : Mach}
    (hrun : RunsTo o pol m a m1) : Good m → m.atEof = false → Good m1 ∧ m1.atEof = false := by
  induction hrun with
  | @susp m0 inp0 m0' hs =>
    intro hg hat
    obtain ⟨h1, h2⟩ := step_good o pol m0 inp0 hg hat m0' (by rw [hs]; rfl)
    exact ⟨h1, by rw [h2, hat]⟩
  | @cont m0 inp0 mx ix m0' hs hr ih =>
    intro hg hat
    obtain ⟨hgx, hax⟩ := step_good o pol m0 inp0 hg hat mx (by rw [hs]; rfl)
    exact ih hgx (by rw [hax, hat])
  | @script m0 inp0 mx ix m0' hs hr ih =>
    intro hg hat
    obtain ⟨hgx, hax⟩ := step_good o pol m0 inp0 hg hat mx (by rw [hs]; rfl)
    exact ih hgx (by rw [hax, hat])
  | @indicator m0 inp0 mx ix m0' hs hr ih =>
    intro hg hat
    obtain ⟨hgx, hax⟩ := step_good o pol m0 inp0 hg hat mx (by rw [hs]; rfl)
    exact ih hgx (by rw [hax, hat])

/-- a session: the chunks are fed one after the other, each run to suspension -/
inductive Session (o : Opts) (pol : Pol) : Mach → List Str → Mach → Prop
  | nil {m} : Session o pol m [] m
  | cons {m c m1 cs mf} : RunsTo o pol m c m1 → Session o pol m1 cs mf → Session o pol m (c :: cs) mf

/-- **chunk independence of the tokenizer loop**: whatever the partition of the input into
chunks (empty and one-character chunks included), the one-piece run reaches a machine equal, up
to a dead `current_char`, to the one the chunked session reaches -/
theorem session_flatten (o : Opts) (pol : Pol) {m : Mach} {cs : List Str} {mf : Mach}
    (hs : Session o pol m cs mf) : Good m → m.atEof = false →
    (cs = [] ∧ mf = m) ∨ ∃ mf', RunsTo o pol m cs.flatten mf' ∧ Sim mf' mf := by
  induction hs with
  | nil => intro _ _; exact Or.inl ⟨rfl, rfl⟩
  | @cons m0 c m1 cs0 mf0 hr hsess ih =>
    intro hg hat
    right
    obtain ⟨hg1, hat1⟩ := runsTo_good o pol hr hg hat
    rcases ih hg1 hat1 with ⟨hnil, hmf⟩ | ⟨mf', hr', hsim⟩
    · subst hnil
      rw [hmf]
      exact ⟨m1, by simpa using hr, Sim.refl _⟩
    · obtain ⟨m2', hr2, hsim2⟩ := runsTo_chunk o pol hr hg hat cs0.flatten mf' hr'
      exact ⟨m2', by simpa using hr2, Sim.trans hsim2 hsim⟩

end H5V.Model.HtmlTok
