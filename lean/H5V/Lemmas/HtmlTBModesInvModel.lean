import H5V.Lemmas.HtmlTBModesDefs
import H5V.Lemmas.HtmlTBModesInvAll
import H5V.Lemmas.HtmlTBModesInvNoRH
/-!
C02 (insertion modes), the invariant `Good` of the specification's run: what the MODEL provides for the abstract
state `absF s x` of a state `s` of the model that satisfies the C04 invariant `TI` and `MInv`:

* `Link`: an element's type is a function of the node (the sink's `elem_name`), and the listed formatting elements /
  the form element pointer are what `TI` says;
* `FreshL`: the node ids the sink hands out during a stretch are not elements of the arena at its start;
* in "text" the current node is an HTML element and not the only one (`TI`), so the dispatcher applies the rules of
  "text".

With these, one step of the dispatcher (`dispatchFull`) of the completed specification is a step of the UNMODIFIED
specification and keeps the invariant (`full_done`, `full_reprocess`).
-/
namespace H5V.Lemmas.HtmlTBModes
open H5V.Model.HtmlTB
open H5V.Model.Dom (Id SinkOp Output Dom QualName Attr NodeOrText ElementFlags NodeData QuirksMode)
open H5V.Lemmas.HtmlTBAlgo
open H5V.Lemmas.TBSafe (TI HInv SInv Rooted ForeignTop textTok)
open H5V.Spec.TreeAlgo2 (Elem Entry PState Ctx Edit Place)
open H5V.Spec.TreeModes (STok ETok IMode Config Out TokSwitch XOp Op Step Edition)
open H5V.Lemmas.ModesInv (Good Inv Post PostF WLink FreshL FreshFor LinkFor TextHtml isChar GStep StdLoops stdRule
  bind_ok map_ok pure_ok req_ok useHtml_of_top_html)

/-- `Link` of the specification-side invariant (not the `Link` of `Tr`) -/
abbrev SLink (σ : SState) : Prop := H5V.Lemmas.ModesInv.Link σ

theorem ite_ok {α : Type} {c : Prop} [Decidable c] {a b x : α} (h : (if c then a else b) = x) : a = x ∨ b = x := by
  split at h
  · exact Or.inl h
  · exact Or.inr h

theorem absF_stack {s : State} {x : Aux} (hx : AuxOk s x) : (absF s x).p.stack = absStack s.dom s.openElems := by
  simp only [absF, absP, hx.live, Bool.false_eq_true, if_false]

theorem cfgOf_edition (s : State) : (cfgOf s).edition = .customizableSelect := rfl

/-- `Link` of the abstract state -/
theorem link_absF {s : State} {x : Aux} (ht : TI s) (hx : AuxOk s x) : SLink (absF s x) := by
  constructor
  · intro e he t hmem
    rw [absF_stack hx] at he
    obtain ⟨h, hh, rfl⟩ := List.mem_map.mp he
    have hl : (absF s x).p.list = absListE s.activeFormatting := rfl
    rw [hl] at hmem
    obtain ⟨fe, hfe, hfee⟩ := List.mem_map.mp hmem
    cases fe with
    | marker => cases hfee
    | element h' tag =>
      simp only [entryE, Entry.element.injEq] at hfee
      obtain ⟨h1, h2⟩ := hfee
      have h1' : h' = h := h1
      subst h1'
      subst h2
      have := (ht.h.af h' tag hfe).2.1
      rw [nm_eq_nameOf] at this
      show HtmlTBSpec.toName (nameOf s.dom h') = _
      rw [this]; rfl
  · intro e he hf
    rw [absF_stack hx] at he
    obtain ⟨h, hh, rfl⟩ := List.mem_map.mp he
    have hf' : s.formElem = some h := hf
    have := (ht.h.form h hf').2
    rw [nm_eq_nameOf] at this
    show HtmlTBSpec.toName (nameOf s.dom h) = _
    rw [this]; rfl

/-- freshness of the node ids taken between `x` and `x'` -/
theorem freshL_absF {s : State} {x x' : Aux} (hm : MInv s) (hx : AuxOk s x) (hf : FreshSup s x x') :
    FreshL (absF s x).p.stack x.supply x'.supply := by
  intro used hu n hn e he _ hid
  rw [absF_stack hx] at he
  obtain ⟨h, hh, rfl⟩ := List.mem_map.mp he
  have h1 : s.dom.isElement h = true := hm.elems h hh
  have h2 : s.dom.isElement n = false := hf used hu n hn
  have : h = n := hid
  rw [this, h2] at h1
  cases h1

theorem imode_text {m : Mode} (h : imode m = .text) : m = .text := by cases m <;> first | rfl | cases h

/-- in "text" the dispatcher chooses the rules of the insertion mode -/
theorem textHtml_absF {s : State} {x : Aux} (ht : TI s) (hx : AuxOk s x) (tok : STok) :
    TextHtml (cfgOf s) (absF s x) tok := by
  intro _ hm
  have hm' : s.mode = .text := imode_text hm
  obtain ⟨om, _, _, hlen, _, _⟩ := ht.s.text hm'
  have hst := ht.s.stack
  rw [hm'] at hst
  obtain ⟨t, hlast, hns⟩ := hst
  have hl : (absF s x).p.stack.getLast? = some (elemOf s.dom t) := by
    rw [absF_stack hx]; unfold absStack; rw [List.getLast?_map, hlast]; rfl
  refine useHtml_of_top_html (cfgOf s) (absF s x) hl (Or.inl ?_) ?_ _
  · rw [absF_stack hx]; unfold absStack; rw [List.length_map]; exact hlen
  · show (HtmlTBSpec.toName (nameOf s.dom t)).ns = _
    rw [← nm_eq_nameOf]; exact hns

/-! ### one step of the dispatcher -/

/-- the three facts for the state `σ`, the token and the result of the step -/
structure Side (cfg : Config Id) (σ : SState) (tok : STok) (sup' : List Id) : Prop where
  link : LinkFor σ tok
  fresh : isChar tok = false → FreshL σ.p.stack σ.p.supply sup'
  text : TextHtml cfg σ tok

/-- `foreign` answers "reprocess in HTML content" only by breaking out: the state has a part of the stack, the same
list, form pointer and supply -/
theorem foreign_reprocessHtml {cfg : Config Id} {σ σa : SState} {tok : STok}
    (h : Spec.TreeModes.foreign cfg σ tok = .ok (.reprocessHtml σa)) :
    σa.p.list = σ.p.list ∧ σa.p.formPointer = σ.p.formPointer ∧ σa.p.supply = σ.p.supply ∧
      ∀ e ∈ σa.p.stack, e ∈ σ.p.stack := by
  have hbo : ∀ s0 : SState, s0.p = σ.p → Spec.TreeModes.foreignBreakOut s0 = .reprocessHtml σa →
      σa.p.list = σ.p.list ∧ σa.p.formPointer = σ.p.formPointer ∧ σa.p.supply = σ.p.supply ∧
        ∀ e ∈ σa.p.stack, e ∈ σ.p.stack := by
    intro s0 hp hb
    unfold Spec.TreeModes.foreignBreakOut at hb
    have hb' := Step.reprocessHtml.inj hb
    rw [← hb']
    refine ⟨by rw [← hp]; rfl, by rw [← hp]; rfl, by rw [← hp]; rfl, ?_⟩
    intro e he
    have he' : e ∈ ((s0.err "foreign content: HTML tag breaks out").p.stack.reverse.dropWhile
        (fun e => !Spec.TreeModes.stopsBreakOut (s0.err "foreign content: HTML tag breaks out") e)).reverse := he
    have h1 := List.mem_reverse.mp he'
    have h2 := List.mem_reverse.mp (List.dropWhile_subset _ h1)
    rw [← hp]; exact h2
  unfold Spec.TreeModes.foreign at h
  cases tok with
  | character c =>
    dsimp only at h
    split at h
    · obtain ⟨a, _, ha⟩ := map_ok h; cases ha
    · split at h
      · obtain ⟨a, _, ha⟩ := map_ok h; cases ha
      · obtain ⟨a, _, ha⟩ := bind_ok h; cases pure_ok ha
  | comment d => obtain ⟨a, _, ha⟩ := map_ok h; cases ha
  | doctype _ _ _ _ => cases pure_ok h
  | eof => cases h
  | startTag t =>
    dsimp only at h
    split at h
    · exact hbo σ rfl (pure_ok h)
    · unfold Spec.TreeModes.foreignAnyOtherStartTag at h
      obtain ⟨acn, _, h⟩ := bind_ok h
      obtain ⟨r, _, h⟩ := bind_ok h
      dsimp only at h
      rcases ite_ok h with h | h
      · rcases ite_ok h with h | h
        · unfold Spec.TreeModes.foreignEndSvgScript at h
          obtain ⟨sc, _, h⟩ := bind_ok h
          cases pure_ok h
        · cases pure_ok h
      · cases pure_ok h
  | endTag t =>
    dsimp only at h
    split at h
    · exact hbo σ rfl (pure_ok h)
    · split at h
      · unfold Spec.TreeModes.foreignEndSvgScript at h
        obtain ⟨sc, _, h⟩ := bind_ok h
        cases pure_ok h
      · unfold Spec.TreeModes.foreignAnyOtherEndTag at h
        dsimp only at h
        split at h
        · cases pure_ok h
        · cases pure_ok h
        · exact absurd h (H5V.Lemmas.ModesInv.norh_byMode _ _ _ _)

/-- **one step of the dispatcher** (`foreignFull`: the "reprocess in HTML content" of the foreign-content rules
carried out) from a good state, with the facts the model provides: the step is a step of the UNMODIFIED
specification and keeps the invariant -/
theorem full_post {cfg : Config Id} (hed : cfg.edition = .customizableSelect) {σ : SState} {tok : STok} {st : Step Id}
    (hg : Good σ) (hst : σ.stopped = false) (hside : Side cfg σ tok st.state.p.supply)
    (e : (if Spec.TreeAlgo.useHtmlRules (Spec.TreeModes.adjustedCurrentNode cfg σ) (Spec.TreeModes.tokenKind tok)
          then byModeDev cfg σ tok else foreignFull cfg σ tok) = .ok st) :
    Post st ∧ (∀ σ', st = .done σ' → StdLoops cfg false σ tok σ') ∧
      (∀ σ1 σ', st = .reprocess σ1 → StdLoops cfg false σ1 tok σ' → StdLoops cfg false σ tok σ') := by
  have hfr : FreshFor σ tok st := hside.fresh
  by_cases hu : Spec.TreeAlgo.useHtmlRules (Spec.TreeModes.adjustedCurrentNode cfg σ) (Spec.TreeModes.tokenKind tok) = true
  · rw [if_pos hu, H5V.Lemmas.ModesInv.byModeDev_of_good hg] at e
    have hr : stdRule cfg false σ tok = .ok st := by
      simp only [stdRule, Bool.false_eq_true, if_false, Spec.TreeModes.dispatch, hu, if_true]; exact e
    refine ⟨H5V.Lemmas.ModesInv.keeps_byMode cfg hed σ tok st hg hst hside.link hfr trivial e, ?_, ?_⟩
    · intro σ' h; subst h; exact StdLoops.done hr
    · intro σ1 σ' h h2; subst h; exact StdLoops.reprocess hr h2
  · rw [if_neg hu] at e
    have hu' : Spec.TreeAlgo.useHtmlRules (Spec.TreeModes.adjustedCurrentNode cfg σ) (Spec.TreeModes.tokenKind tok) = false := by
      simpa using hu
    unfold foreignFull at e
    obtain ⟨r, hf, e2⟩ := bind_ok e
    have hrule : stdRule cfg false σ tok = .ok r := by
      simp only [stdRule, Bool.false_eq_true, if_false, Spec.TreeModes.dispatch, hu']; exact hf
    have htext : σ.mode = .text → isChar tok = true := by
      intro hm
      cases hc : isChar tok
      · exact absurd (hside.text hc hm) hu
      · rfl
    cases r with
    | done σa =>
      cases pure_ok e2
      have hp := H5V.Lemmas.ModesInv.post_foreign H5V.Lemmas.ModesInv.keeps_byMode hed hg hst hside.link hfr htext hu' hf
      exact ⟨hp, (fun σ' h => by cases h; exact StdLoops.done hrule), (fun σ1 σ' h _ => by cases h)⟩
    | reprocess σa =>
      cases pure_ok e2
      have hp := H5V.Lemmas.ModesInv.post_foreign H5V.Lemmas.ModesInv.keeps_byMode hed hg hst hside.link hfr htext hu' hf
      exact ⟨hp, (fun σ' h => by cases h), (fun σ1 σ' h h2 => by cases h; exact StdLoops.reprocess hrule h2)⟩
    | reprocessHtml σa =>
      dsimp only at e2
      obtain ⟨hlist, hform, hsup, hsub⟩ := foreign_reprocessHtml hf
      -- the break-out takes no node: its freshness condition is void
      have hfr0 : FreshFor σ tok (.reprocessHtml σa) := by
        intro _ used hu2 n hn
        have h0 : σ.p.supply = used ++ σ.p.supply := by
          have : (Step.reprocessHtml σa).state.p.supply = σ.p.supply := hsup
          rw [this] at hu2; exact hu2
        have hl := congrArg List.length h0
        simp only [List.length_append] at hl
        have : used = [] := List.eq_nil_of_length_eq_zero (by omega)
        rw [this] at hn; cases hn
      have hp := H5V.Lemmas.ModesInv.post_foreign H5V.Lemmas.ModesInv.keeps_byMode hed hg hst hside.link hfr0 htext hu' hf
      obtain ⟨hsta, hga⟩ : σa.stopped = false ∧ Good σa := hp
      -- the facts for the state after the break-out: its stack is a part of the stack of `σ`
      have hla : LinkFor σa tok := by
        intro hc
        obtain ⟨l1, l2⟩ := hside.link hc
        refine ⟨fun e0 he0 t ht => l1 e0 (hsub e0 he0) t (by rw [← hlist]; exact ht),
          fun e0 he0 hfp => l2 e0 (hsub e0 he0) (by rw [← hform]; exact hfp)⟩
      have hfa : FreshFor σa tok st := by
        intro hc used hu2 n hn e0 he0 htd
        exact hside.fresh hc used (by rw [← hsup]; exact hu2) n hn e0 (hsub e0 he0) htd
      rw [H5V.Lemmas.ModesInv.byModeDev_of_good hga] at e2
      have hr2 : stdRule cfg true σa tok = .ok st := by simp only [stdRule, if_true]; exact e2
      refine ⟨H5V.Lemmas.ModesInv.keeps_byMode cfg hed σa tok st hga hsta hla hfa trivial e2, ?_, ?_⟩
      · intro σ' h; subst h; exact StdLoops.reprocessHtml hrule (StdLoops.done hr2)
      · intro σ1 σ' h h2; subst h; exact StdLoops.reprocessHtml hrule (StdLoops.reprocess hr2 h2)

end H5V.Lemmas.HtmlTBModes
