import H5V.Lemmas.HtmlTokOutFields
/-!
Every token a `Tokenizer::step` delivers is stamped with the line the step ends on: the reader
moves the line before anything of that step is emitted, and no transition changes it afterwards.
Together with `step_lines` this gives the per-token reading of C09.
-/
namespace H5V.Model.HtmlTok

theorem OutExt.trans {l : Nat} {a b c : Out} (h1 : OutExt l a b) (h2 : OutExt l b c) : OutExt l a c := by
  induction h2 with
  | refl => exact h1
  | cons t _ ih => exact .cons t ih

theorem Ext.trans {m x y : Mach} (h1 : Ext m x) (h2 : Ext x y) : Ext m y :=
  ⟨by rw [h2.1, h1.1], h1.2.trans (by rw [← h1.1]; exact h2.2)⟩

theorem selfClosing_ext {m x : Mach} (h : Ext m x) : Ext m { x with tagSelfClosing := true } := h.of_eq rfl rfl

theorem applySinkRes_ext {m x : Mach} (h : Ext m x) (r : SinkRes) : Ext m (applySinkRes x r).1 := by
  unfold applySinkRes
  cases r with
  | continue_ => exact h
  | plaintext => exact to_ext h _
  | script => exact emit_ext (to_ext h _) _
  | rawData k => exact to_ext h _
  | indicator => exact emit_ext h _

theorem emitCurrentTag_ext {m x : Mach} (h : Ext m x) (pol : Pol) : Ext m (emitCurrentTag pol x).1 := by
  unfold emitCurrentTag
  exact applySinkRes_ext (emit_ext (takeTag_ext (tagPrologue_ext h)) _) _

theorem emitTag_ext {m x : Mach} (h : Ext m x) (pol : Pol) (s : State) : Ext m (emitTag pol s x).1 := by
  unfold emitTag; exact emitCurrentTag_ext (to_ext h s) pol

theorem consumeCharRef_ext {m x : Mach} (h : Ext m x) : Ext m (consumeCharRef x).1 := by
  unfold consumeCharRef; split
  · exact h
  · exact h.of_eq rfl rfl

@[simp] theorem selfClosing_ext_iff {m x : Mach} : Ext m { x with tagSelfClosing := true } ↔ Ext m x := Iff.rfl

/-- peel the emitting helpers (few), let `simp` strip the silent ones (many) -/
macro "ext_chain" : tactic =>
  `(tactic| (repeat (first
      | exact Ext.refl _
      | (simp only [to_ext_iff, reconsumeTo_ext_iff, discardTag_ext_iff, createTag_ext_iff, pushTag_ext_iff,
          pushTemp_ext_iff, clearTemp_ext_iff, pushName_ext_iff, pushValue_ext_iff, appendValue_ext_iff,
          pushComment_ext_iff, appendComment_ext_iff, clearComment_ext_iff, createDoctype_ext_iff,
          pushDoctypeName_ext_iff, pushDoctypeId_ext_iff, clearDoctypeId_ext_iff, forceQuirks_ext_iff,
          takeTag_ext_iff, selfClosing_ext_iff]; done)
      | (simp only [to_ext_iff, reconsumeTo_ext_iff, discardTag_ext_iff, createTag_ext_iff, pushTag_ext_iff,
          pushTemp_ext_iff, clearTemp_ext_iff, pushName_ext_iff, pushValue_ext_iff, appendValue_ext_iff,
          pushComment_ext_iff, appendComment_ext_iff, clearComment_ext_iff, createDoctype_ext_iff,
          pushDoctypeName_ext_iff, pushDoctypeId_ext_iff, clearDoctypeId_ext_iff, forceQuirks_ext_iff,
          takeTag_ext_iff, selfClosing_ext_iff])
      | apply emitChar_ext | apply emitErr_ext | apply emitChars_ext | apply emit_ext | apply badChar_ext
      | apply badEof_ext | apply emitTempBuf_ext | apply emitComment_ext | apply emitDoctype_ext
      | apply createAttr_ext | apply finishAttribute_ext | apply emitTag_ext | apply emitCurrentTag_ext
      | apply consumeCharRef_ext)))

/-- a `get_char!`-state transition logs only tokens stamped with the current line -/
theorem transChar_ext (o : Opts) (pol : Pol) (m : Mach) (c : Char) : Ext m (transChar o pol m c).1 := by
  unfold transChar
  split <;> (repeat' split) <;> (try dsimp only) <;> ext_chain

theorem transSet_ext (o : Opts) (pol : Pol) (m : Mach) (r : SetRes) : Ext m (transSet o pol m r).1 := by
  unfold transSet
  split <;> (repeat' split) <;> (try dsimp only) <;> ext_chain

/-! ### the reader -/

/-- `x` was reached from `m` logging only tokens stamped with the line `x` is on -/
def ExtTo (m x : Mach) : Prop := OutExt x.line m.out x.out

theorem ExtTo.refl (m : Mach) : ExtTo m m := OutExt.refl

theorem ExtTo.of_eq {m x y : Mach} (h : ExtTo m x) (h1 : y.line = x.line) (h2 : y.out = x.out) : ExtTo m y := by
  unfold ExtTo; rw [h1, h2]; exact h

theorem ExtTo.of_out {m x : Mach} (h : x.out = m.out) : ExtTo m x := by
  unfold ExtTo; rw [h]; exact OutExt.refl

theorem ExtTo.then {m x y : Mach} (h1 : ExtTo m x) (h2 : Ext x y) : ExtTo m y := by
  unfold ExtTo
  rw [h2.1]
  exact OutExt.trans h1 h2.2

theorem Ext.extTo {m x : Mach} (h : Ext m x) : ExtTo m x := by
  unfold ExtTo; rw [h.1]; exact h.2

theorem foldChar_extTo (o : Opts) (m : Mach) (c : Char) : ExtTo m (foldChar o m c).2 := by
  unfold foldChar
  dsimp only
  split <;> split <;> split <;>
    first
    | exact ExtTo.of_out rfl
    | (unfold ExtTo; exact OutExt.cons _ OutExt.refl)

theorem preprocess_extTo (o : Opts) (m : Mach) (c : Char) (rest : Str) : ExtTo m (preprocess o m c rest).2.1 := by
  unfold preprocess
  split
  · split
    · cases rest with
      | nil => exact ExtTo.of_out rfl
      | cons y ys =>
        have := foldChar_extTo o (m.setIgnoreLf false) y
        exact this
    · exact foldChar_extTo o (m.setIgnoreLf false) c
  · exact foldChar_extTo o m c

theorem getChar_extTo (o : Opts) (m : Mach) (inp : Str) : ExtTo m (getChar o m inp).2.1 := by
  unfold getChar
  split
  · exact ExtTo.of_out rfl
  · cases inp with
    | nil => exact ExtTo.refl m
    | cons c rest => exact preprocess_extTo o m c rest

theorem popExceptFrom_extTo (o : Opts) (S : List Char) (m : Mach) (inp : Str) :
    ExtTo m (popExceptFrom o S m inp).2.1 := by
  unfold popExceptFrom
  split
  · exact getChar_extTo o m inp
  · cases inp with
    | nil => exact ExtTo.refl m
    | cons c rest =>
      dsimp only
      split
      · exact preprocess_extTo o m c rest
      · exact ExtTo.refl m

theorem readData_extTo (o : Opts) (m : Mach) (inp : Str) : ExtTo m (readData o m inp).2.1 := by
  unfold readData
  split
  · exact popExceptFrom_extTo o _ m inp
  · cases inp with
    | nil => exact ExtTo.refl m
    | cons c rest =>
      dsimp only
      split
      · exact popExceptFrom_extTo o _ m (c :: rest)
      · split
        · exact ExtTo.of_out rfl
        · exact ExtTo.refl m

/-! ### the character-reference sub-tokenizer -/

theorem discardChar_ext' (m : Mach) (inp : Str) : Ext m (discardChar m inp).1 := by
  unfold discardChar; split
  · exact (Ext.refl m).of_eq (by simp) rfl
  · exact Ext.refl m

theorem emitErr_ext0 (m : Mach) (s : String) : Ext m (emitErr m s) := emitErr_ext (Ext.refl m) s

theorem nameErr_ext0 (o : Opts) (m : Mach) (nb : Str) : Ext m (nameErr o m nb) := by
  unfold nameErr; split
  · exact emit_ext (Ext.refl m) _
  · exact emitErr_ext (Ext.refl m) _

theorem finishNumeric_ext0 (o : Opts) (x m' : Mach) (cr : CharRefSt) (r : Except String Char)
    (h : finishNumeric o x cr = (m', r)) : Ext x m' := by
  unfold finishNumeric numericErr at h
  dsimp only at h
  simp only [Prod.mk.injEq] at h
  obtain ⟨h1, _⟩ := h
  subst h1
  split
  · split
    · exact emit_ext (Ext.refl x) _
    · exact emitErr_ext (Ext.refl x) _
  · exact Ext.refl x

theorem namedDecision_ext0 (m : Mach) (cr : CharRefSt) (nb : Str) (c1 c2 : Nat) (m1 : Mach) (chars : Str)
    (h : namedDecision m cr nb c1 c2 = .ok (some (m1, chars))) : Ext m m1 := by
  unfold namedDecision at h
  dsimp only at h
  repeat' split at h
  all_goals
    first
      | (simp at h; done)
      | (simp only [Except.ok.injEq, Option.some.injEq, Prod.mk.injEq] at h
         obtain ⟨h1, _⟩ := h
         subst h1
         first
           | exact (Ext.refl m).of_eq (by simp) rfl
           | exact (emitErr_ext0 m _).of_eq (by simp) rfl)

theorem ext_ite (c : Prop) [Decidable c] (a b m : Mach) (ha : Ext m a) (hb : Ext m b) :
    Ext m (if c then a else b) := by
  split <;> assumption

/-- brute force: every machine a char-ref step can return was reached by logging only tokens
stamped with the (unchanged) line -/
theorem crStep_ext (o : Opts) (m m1 : Mach) (inp i1 : Str) (cr cr1 : CharRefSt) (st : CRStatus)
    (h : crStep o m inp cr = .ok (m1, i1, cr1, st)) : Ext m m1 := by
  unfold crStep unconsumeNumeric finishNumericStatus finishNamed at h
  dsimp only at h
  repeat' split at h
  all_goals
    first
      | (simp at h; done)
      | (simp only [Except.ok.injEq, Prod.mk.injEq] at h
         obtain ⟨h1, _⟩ := h
         subst h1
         first
           | exact Ext.refl _
           | exact discardChar_ext' _ _
           | exact emitErr_ext0 _ _
           | exact Ext.trans (discardChar_ext' _ _) (emitErr_ext0 _ _)
           | exact Ext.trans (discardChar_ext' _ _) (nameErr_ext0 _ _ _)
           | exact nameErr_ext0 _ _ _
           | exact Ext.trans (discardChar_ext' _ _) (finishNumeric_ext0 _ _ _ _ _ (by assumption))
           | exact Ext.trans (emitErr_ext0 _ _) (finishNumeric_ext0 _ _ _ _ _ (by assumption))
           | exact finishNumeric_ext0 _ _ _ _ _ (by assumption)
           | exact Ext.trans (discardChar_ext' _ _) (namedDecision_ext0 _ _ _ _ _ _ _ (by assumption))
           | exact namedDecision_ext0 _ _ _ _ _ _ _ (by assumption)
           | (apply ext_ite <;> first | exact Ext.refl _ | exact discardChar_ext' _ _ | exact nameErr_ext0 _ _ _ | exact Ext.trans (discardChar_ext' _ _) (nameErr_ext0 _ _ _)))

theorem processCharRef_ext (m : Mach) (chars : Str) : Ext m (processCharRef m chars).1 := by
  have h1 : ∀ (cs : Str) (x : Mach), Ext m x → Ext m (cs.foldl emitChar x) := by
    intro cs; induction cs with
    | nil => intro x hx; exact hx
    | cons c cs ih => intro x hx; simp only [List.foldl_cons]; exact ih _ (emitChar_ext hx c)
  have h2 : ∀ (cs : Str) (x : Mach), Ext m x → Ext m (cs.foldl (fun m c => pushValue c m) x) := by
    intro cs; induction cs with
    | nil => intro x hx; exact hx
    | cons c cs ih => intro x hx; simp only [List.foldl_cons]; exact ih _ (pushValue_ext hx c)
  unfold processCharRef
  dsimp only
  split
  · exact h1 _ m (Ext.refl m)
  · exact h1 _ m (Ext.refl m)
  · exact h2 _ m (Ext.refl m)
  · exact Ext.refl m

theorem stepCharRef_extTo (o : Opts) (m : Mach) (inp : Str) (cr : CharRefSt) (m' : Mach) (i' : Str)
    (h : (stepCharRef o m inp cr).pair? = some (m', i')) : ExtTo m m' := by
  unfold stepCharRef at h
  cases hc : crStep o m inp cr with
  | error x => rw [hc] at h; simp [R.pair?] at h
  | ok v =>
    obtain ⟨m1, i1, cr1, st⟩ := v
    have he := crStep_ext o m m1 inp i1 cr cr1 st hc
    rw [hc] at h
    cases st with
    | stuck =>
      simp only [R.pair?, Option.some.injEq, Prod.mk.injEq] at h
      obtain ⟨h1, _⟩ := h; subst h1
      exact (setCharRef_ext he _).extTo
    | progress =>
      simp only [R.pair?, Option.some.injEq, Prod.mk.injEq] at h
      obtain ⟨h1, _⟩ := h; subst h1
      exact (setCharRef_ext he _).extTo
    | done chars =>
      obtain ⟨h1, _⟩ := ofSig_pair _ _ _ _ h
      subst h1
      exact (setCharRef_ext (he.trans (processCharRef_ext m1 chars)) _).extTo

/-! ### `peek`/`discard_char` and `eat` states -/

theorem stepBav_extTo (o : Opts) (pol : Pol) (m : Mach) (inp : Str) (m' : Mach) (i' : Str)
    (h : (stepBav o pol m inp).pair? = some (m', i')) : ExtTo m m' := by
  unfold stepBav at h
  cases hpk : peek m inp with
  | none =>
    rw [hpk] at h
    simp only [R.pair?, Option.some.injEq, Prod.mk.injEq] at h
    obtain ⟨h1, _⟩ := h; subst h1; exact ExtTo.refl m
  | some c =>
    rw [hpk] at h
    dsimp only at h
    have hma : Ext m (if m.ignoreLf = true then m.setIgnoreLf false else m) ∧
        (if m.ignoreLf = true then m.setIgnoreLf false else m).out = m.out := by
      split
      · exact ⟨setIgnoreLf_ext (Ext.refl m) _, rfl⟩
      · exact ⟨Ext.refl m, rfl⟩
    generalize (if m.ignoreLf = true then m.setIgnoreLf false else m) = ma at h hma
    obtain ⟨hma, hmo⟩ := hma
    have hd : Ext m (discardChar ma inp).1 := hma.trans (discardChar_ext' ma inp)
    split at h
    · simp only [R.pair?, Option.some.injEq, Prod.mk.injEq] at h
      obtain ⟨h1, _⟩ := h; subst h1; exact hd.extTo
    · split at h
      · have hg := getChar_extTo o ma inp
        cases hgc : getChar o ma inp with
        | mk oc r =>
          obtain ⟨m2, i2⟩ := r
          rw [hgc] at h hg
          have hx : ExtTo m m2 := by
            unfold ExtTo at hg ⊢
            rw [← hmo]; exact hg
          cases oc <;>
            (simp only [R.pair?, Option.some.injEq, Prod.mk.injEq] at h
             obtain ⟨h1, _⟩ := h; subst h1; exact hx)
      · repeat' split at h
        all_goals
          first
          | (simp only [R.pair?, Option.some.injEq, Prod.mk.injEq] at h
             obtain ⟨h1, _⟩ := h; subst h1
             first | exact hd.extTo | exact (to_ext hd _).extTo | exact (to_ext hma _).extTo)
          | (obtain ⟨h1, _⟩ := ofSig_pair _ _ _ _ h
             subst h1
             exact (emitTag_ext (badChar_ext hd o) pol _).extTo)

theorem eatSkipLf_ext (m : Mach) (inp : Str) : Ext m (eatSkipLf m inp).1 := by
  unfold eatSkipLf discardChar
  repeat' split
  all_goals exact (Ext.refl m).of_eq (by simp) (by simp [Mach.setIgnoreLf, Mach.setReconsume])

theorem eat_ext (m m1 : Mach) (inp i1 pat : Str) (eq : Char → Char → Bool) (b : Option Bool)
    (h : eat m inp pat eq = (b, m1, i1)) : Ext m m1 := by
  rw [eat_eq_core] at h
  have hs := eatSkipLf_ext m inp
  unfold eatCore at h
  repeat' split at h
  all_goals
    (simp only [Prod.mk.injEq] at h
     obtain ⟨_, h2, _⟩ := h
     subst h2
     exact setTempBuf_ext hs _)

theorem stepMdo_extTo (o : Opts) (pol : Pol) (m : Mach) (inp : Str) (m' : Mach) (i' : Str)
    (h : (stepMdo o pol m inp).pair? = some (m', i')) : ExtTo m m' := by
  unfold stepMdo at h
  cases h1 : eat m inp kwDashDash eqExact with
  | mk b1 r1 =>
    obtain ⟨m1, i1⟩ := r1
    have e1 := eat_ext m m1 inp i1 _ _ b1 h1
    rw [h1] at h
    cases b1 with
    | none =>
      simp only [R.pair?, Option.some.injEq, Prod.mk.injEq] at h
      obtain ⟨x, _⟩ := h; subst x; exact e1.extTo
    | some b1 =>
      cases b1 with
      | true =>
        simp only [R.pair?, Option.some.injEq, Prod.mk.injEq] at h
        obtain ⟨x, _⟩ := h; subst x; exact (to_ext (clearComment_ext e1) _).extTo
      | false =>
        simp only at h
        cases h2 : eat m1 i1 kwDoctype eqCi with
        | mk b2 r2 =>
          obtain ⟨m2, i2⟩ := r2
          have e2 := e1.trans (eat_ext m1 m2 i1 i2 _ _ b2 h2)
          rw [h2] at h
          cases b2 with
          | none =>
            simp only [R.pair?, Option.some.injEq, Prod.mk.injEq] at h
            obtain ⟨x, _⟩ := h; subst x; exact e2.extTo
          | some b2 =>
            cases b2 with
            | true =>
              simp only [R.pair?, Option.some.injEq, Prod.mk.injEq] at h
              obtain ⟨x, _⟩ := h; subst x; exact (to_ext e2 _).extTo
            | false =>
              simp only at h
              split at h
              · cases h3 : eat m2 i2 kwCdata eqExact with
                | mk b3 r3 =>
                  obtain ⟨m3, i3⟩ := r3
                  have e3 := e2.trans (eat_ext m2 m3 i2 i3 _ _ b3 h3)
                  rw [h3] at h
                  cases b3 with
                  | none =>
                    simp only [R.pair?, Option.some.injEq, Prod.mk.injEq] at h
                    obtain ⟨x, _⟩ := h; subst x; exact e3.extTo
                  | some b3 =>
                    cases b3 <;>
                      (simp only [R.pair?, Option.some.injEq, Prod.mk.injEq] at h
                       obtain ⟨x, _⟩ := h; subst x
                       first
                       | exact (to_ext (clearTemp_ext e3) _).extTo
                       | exact (to_ext (clearComment_ext (badChar_ext e3 o)) _).extTo)
              · simp only [R.pair?, Option.some.injEq, Prod.mk.injEq] at h
                obtain ⟨x, _⟩ := h; subst x
                exact (to_ext (clearComment_ext (badChar_ext e2 o)) _).extTo

theorem stepAdn_extTo (o : Opts) (pol : Pol) (m : Mach) (inp : Str) (m' : Mach) (i' : Str)
    (h : (stepAdn o pol m inp).pair? = some (m', i')) : ExtTo m m' := by
  unfold stepAdn at h
  cases h1 : eat m inp kwPublic eqCi with
  | mk b1 r1 =>
    obtain ⟨m1, i1⟩ := r1
    have e1 := eat_ext m m1 inp i1 _ _ b1 h1
    rw [h1] at h
    cases b1 with
    | none =>
      simp only [R.pair?, Option.some.injEq, Prod.mk.injEq] at h
      obtain ⟨x, _⟩ := h; subst x; exact e1.extTo
    | some b1 =>
      cases b1 with
      | true =>
        simp only [R.pair?, Option.some.injEq, Prod.mk.injEq] at h
        obtain ⟨x, _⟩ := h; subst x; exact (to_ext e1 _).extTo
      | false =>
        simp only at h
        cases h2 : eat m1 i1 kwSystem eqCi with
        | mk b2 r2 =>
          obtain ⟨m2, i2⟩ := r2
          have e2 := e1.trans (eat_ext m1 m2 i1 i2 _ _ b2 h2)
          rw [h2] at h
          cases b2 with
          | none =>
            simp only [R.pair?, Option.some.injEq, Prod.mk.injEq] at h
            obtain ⟨x, _⟩ := h; subst x; exact e2.extTo
          | some b2 =>
            cases b2 with
            | true =>
              simp only [R.pair?, Option.some.injEq, Prod.mk.injEq] at h
              obtain ⟨x, _⟩ := h; subst x; exact (to_ext e2 _).extTo
            | false =>
              simp only at h
              have hg := getChar_extTo o m2 i2
              -- nothing was logged before the read: the entries of the read carry the new line
              have ho : m2.out = m.out := by
                have a := eat_ext m m1 inp i1 _ _ _ h1
                have b := eat_ext m1 m2 i1 i2 _ _ _ h2
                -- `eat` never logs
                have ha : m1.out = m.out := by
                  rw [eat_eq_core] at h1; unfold eatCore at h1
                  repeat' split at h1
                  all_goals
                    (simp only [Prod.mk.injEq] at h1
                     obtain ⟨_, x, _⟩ := h1; subst x
                     unfold eatSkipLf discardChar
                     repeat' split
                     all_goals simp [Mach.setTempBuf, Mach.setIgnoreLf, Mach.setReconsume])
                have hb : m2.out = m1.out := by
                  rw [eat_eq_core] at h2; unfold eatCore at h2
                  repeat' split at h2
                  all_goals
                    (simp only [Prod.mk.injEq] at h2
                     obtain ⟨_, x, _⟩ := h2; subst x
                     unfold eatSkipLf discardChar
                     repeat' split
                     all_goals simp [Mach.setTempBuf, Mach.setIgnoreLf, Mach.setReconsume])
                rw [hb, ha]
              cases hgc : getChar o m2 i2 with
              | mk oc r =>
                obtain ⟨m3, i3⟩ := r
                rw [hgc] at h hg
                have hx : ExtTo m m3 := by
                  unfold ExtTo at hg ⊢; rw [← ho]; exact hg
                cases oc with
                | none =>
                  simp only [R.pair?, Option.some.injEq, Prod.mk.injEq] at h
                  obtain ⟨x, _⟩ := h; subst x; exact hx
                | some c =>
                  obtain ⟨x, _⟩ := ofSig_pair _ _ _ _ h
                  subst x
                  exact hx.then (transChar_ext o pol m3 c)

/-- **every token delivered during a step is stamped with the line the step ends on** -/
theorem step_extTo (o : Opts) (pol : Pol) (m : Mach) (inp : Str) (m' : Mach) (i' : Str)
    (h : (step o pol m inp).pair? = some (m', i')) : ExtTo m m' := by
  cases hcr : m.charRef with
  | some cr =>
    rw [step_kind_charRef o pol m inp cr hcr] at h
    exact stepCharRef_extTo o m inp cr m' i' h
  | none =>
    cases hrk : readKind m.state with
    | getChar =>
      rw [step_getChar o pol m inp hcr hrk] at h
      have hg := getChar_extTo o m inp
      cases hgc : getChar o m inp with
      | mk oc r =>
        obtain ⟨m1, i1⟩ := r
        rw [hgc] at h hg
        cases oc with
        | none =>
          simp only [contChar, R.pair?, Option.some.injEq, Prod.mk.injEq] at h
          obtain ⟨x, _⟩ := h; subst x; exact hg
        | some c =>
          simp only [contChar] at h
          obtain ⟨x, _⟩ := ofSig_pair _ _ _ _ h
          subst x
          exact hg.then (transChar_ext o pol m1 c)
    | popExcept =>
      rw [step_popExcept o pol m inp hcr hrk] at h
      have hg := popExceptFrom_extTo o (setOf m.state) m inp
      cases hgc : popExceptFrom o (setOf m.state) m inp with
      | mk oc r =>
        obtain ⟨m1, i1⟩ := r
        rw [hgc] at h hg
        cases oc with
        | none =>
          simp only [contSet, R.pair?, Option.some.injEq, Prod.mk.injEq] at h
          obtain ⟨x, _⟩ := h; subst x; exact hg
        | some sr =>
          simp only [contSet] at h
          obtain ⟨x, _⟩ := ofSig_pair _ _ _ _ h
          subst x
          exact hg.then (transSet_ext o pol m1 sr)
    | dataSimd =>
      rw [step_dataSimd o pol m inp hcr hrk] at h
      have hg := readData_extTo o m inp
      cases hgc : readData o m inp with
      | mk oc r =>
        obtain ⟨m1, i1⟩ := r
        rw [hgc] at h hg
        cases oc with
        | none =>
          simp only [contSet, R.pair?, Option.some.injEq, Prod.mk.injEq] at h
          obtain ⟨x, _⟩ := h; subst x; exact hg
        | some sr =>
          simp only [contSet] at h
          obtain ⟨x, _⟩ := ofSig_pair _ _ _ _ h
          subst x
          exact hg.then (transSet_ext o pol m1 sr)
    | peekBav =>
      rw [step_kind_bav o pol m inp hcr hrk] at h
      exact stepBav_extTo o pol m inp m' i' h
    | eatMdo =>
      rw [step_kind_mdo o pol m inp hcr hrk] at h
      exact stepMdo_extTo o pol m inp m' i' h
    | eatAdn =>
      rw [step_kind_adn o pol m inp hcr hrk] at h
      exact stepAdn_extTo o pol m inp m' i' h

end H5V.Model.HtmlTok
