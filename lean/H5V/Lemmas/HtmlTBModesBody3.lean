import H5V.Lemmas.HtmlTBModesBodyDefs
import H5V.Lemmas.HtmlTBModesPrimPop
import H5V.Lemmas.HtmlTBModesPrimIns2
import H5V.Lemmas.HtmlTBModesPrimFmt2
import H5V.Lemmas.HtmlTBModesSmall2
/-!
"in body", slice 3: the block-level end tags (`</address>` … `</ul>`, `</form>`, `</option>`, `</p>`,
`</li>`/`</dd>`/`</dt>`, `</h1>` … `</h6>`).
-/
namespace H5V.Lemmas.HtmlTBModes
open H5V.Model.HtmlTB
open H5V.Model.Dom (Id SinkOp Output Dom QualName Attr NodeOrText ElementFlags NodeData QuirksMode)
open H5V.Lemmas.HtmlTBAlgo
open H5V.Lemmas.TBSafe (TI HInv SInv Rooted)
open H5V.Spec.TreeAlgo2 (Elem Entry PState Ctx Edit Place)
open H5V.Spec.TreeModes (STok ETok IMode Config Out TokSwitch XOp Op Step Edition)

/-! ### abstract states up to the parse errors -/

/-- `σ` is `τ` up to the list of parse errors -/
def b3_EqE (σ τ : SState) : Prop := ∃ e, σ = { τ with errors := e }

theorem b3_EqE.rfl' (σ : SState) : b3_EqE σ σ := ⟨σ.errors, rfl⟩

theorem b3_EqE.err {σ τ : SState} (h : b3_EqE σ τ) (w : String) : b3_EqE (σ.err w) τ := by
  obtain ⟨e, rfl⟩ := h; exact ⟨_, rfl⟩

theorem b3_EqE.ite {σ1 σ2 τ : SState} (c : Prop) [Decidable c] (h1 : b3_EqE σ1 τ) (h2 : b3_EqE σ2 τ) :
    b3_EqE (if c then σ1 else σ2) τ := by
  split
  · exact h1
  · exact h2

theorem b3_EqE.map {σ τ : SState} (f : SState → SState)
    (hf : ∀ (τ : SState) (e : List String), f { τ with errors := e } = { f τ with errors := e }) (h : b3_EqE σ τ) :
    b3_EqE (f σ) (f τ) := by
  obtain ⟨e, rfl⟩ := h; exact ⟨e, hf τ e⟩

theorem b3_EqE.of_eq {σ τ τ' : SState} (h : b3_EqE σ τ) (e : τ = τ') : b3_EqE σ τ' := e ▸ h

/-- **the end of an arm that answers `Done`**: the specification's result is the final abstract state up
to the parse errors -/
theorem b3_tokPost_done {spec : SState → Spec.TreeModes.M (Step Id)} {s s' : State} {tok : Token} {calls : List Call}
    {R : Aux → Aux → Prop} (htr : Tr s s' calls R)
    (h : ∀ x x', AuxOk s x → AuxOk s' x' → R x x' → ∃ σ, spec (absF s x) = .ok (.done σ) ∧ b3_EqE σ (absF s' x')) :
    TokPost spec s tok .done s' calls := by
  refine tokPost_of_tr htr trivial ?_
  intro x x' hx hx' hr
  obtain ⟨σ, hsp, e, he⟩ := h x x' hx hx' hr
  refine ⟨{ x' with errors := e }, ?_, ⟨rfl, rfl, rfl, rfl, rfl⟩, Or.inl rfl, rfl, rfl⟩
  rw [hsp, he]
  rfl

/-! ### `</address>` … `</ul>` -/

theorem b3_blockEnd {s : State} (hm : MInv s) (t : Tag) (tok : Token) :
    PC (do
        let b ← inScopeNamedS defaultScope t.name
        if (!b) = true then do
            let _ ← unexpected
            pure ProcessResult.done
          else do
            generateImpliedEndTags cursoryImpliedEnd
            expectToCloseS t.name
            pure ProcessResult.done) s
      (TokPost (fun σ => pure (Spec.TreeModes.inBodyBlockEnd (cfgOf s) σ (specTag t))) s tok) := by
  refine pc_seq (pc_inScopeNamedS_default hm t.name) ?_
  rintro b s1 c1 he1 htr1
  cases b with
  | false =>
    simp only [Bool.not_false, if_true]
    refine pc_seq (pc_unexpected htr1.1) ?_
    rintro _ s2 c2 he2 ⟨-, htr2⟩
    refine pc_pure (b3_tokPost_done (by rw [List.append_nil]; exact htr1.trans htr2) ?_)
    rintro x x' hx hx' ⟨x1, ⟨h1, e1, hb⟩, h2, e2⟩
    subst x'; subst x1
    refine ⟨(absF s x).err "in body: end tag without element in scope", ?_,
      ((b3_EqE.rfl' _).err _).of_eq (e1.trans e2)⟩
    simp only [Spec.TreeModes.inBodyBlockEnd, specTag_name, ← hb, Bool.not_false, if_true]
    rfl
  | true =>
    simp only [Bool.not_true, Bool.false_eq_true, if_false]
    refine pc_seq (pc_generateImpliedEndTags_cursory htr1.1) ?_
    rintro _ s2 c2 he2 htr2
    refine pc_seq (pc_expectToCloseS htr2.1 t.name) ?_
    rintro _ s3 c3 he3 htr3
    refine pc_pure (b3_tokPost_done (by rw [List.append_nil, ← List.append_assoc]; exact (htr1.trans htr2).trans htr3) ?_)
    rintro x x' hx hx' ⟨x2, ⟨x1, ⟨h1, e1, hb⟩, h2, e2⟩, h3, e3⟩
    subst x'; subst x2; subst x1
    refine ⟨_, by simp only [Spec.TreeModes.inBodyBlockEnd, specTag_name, ← hb, Bool.not_true, Bool.false_eq_true, if_false]; rfl, ?_⟩
    rw [e3, e2, ← e1]
    refine b3_EqE.map (fun σ => Spec.TreeModes.popUntilPoppedStr σ t.name) (fun _ _ => rfl) ?_
    exact b3_EqE.ite _ (b3_EqE.rfl' _) ((b3_EqE.rfl' _).err _)

/-! ### `</h1>` … `</h6>` -/

/-- the clause for the end tags `h1` … `h6` -/
def b3_specHeading (cfg : Config Id) (σ : SState) (name : Str) : Step Id :=
  if !Spec.TreeModes.hasAnyInScope cfg σ Spec.TreeTables.heading then
    .done (σ.err "in body: heading end tag without heading in scope")
  else
    let σ := Spec.TreeModes.genImplied σ
    let σ := if σ.cur.any (fun e => Spec.TreeModes.isNamed name e.name) then σ
      else σ.err "in body: heading end tag, current node differs"
    .done (Spec.TreeModes.popUntilPoppedAny σ Spec.TreeTables.heading)

theorem b3_headingEnd {s : State} (hm : MInv s) (name : Str) (tok : Token) :
    PC (do
        let b ← inScope defaultScope fun n => elemIn n headingTag
        if b = true then do
            generateImpliedEndTags cursoryImpliedEnd
            let b2 ← currentNodeNamedS name
            if (!b2) = true then do
                parseError "Closing wrong heading tag"
                let _ ← popUntil headingTag
                pure ProcessResult.done
              else do
                let _ ← popUntil headingTag
                pure ProcessResult.done
          else do
            parseError "No heading tag to close"
            pure ProcessResult.done) s
      (TokPost (fun σ => pure (b3_specHeading (cfgOf s) σ name)) s tok) := by
  refine pc_seq (pc_inScope_default_heading hm) ?_
  rintro b s1 c1 he1 htr1
  cases b with
  | false =>
    simp only [Bool.false_eq_true, if_false]
    refine pc_seq (pc_parseError htr1.1 _) ?_
    rintro _ s2 c2 he2 htr2
    refine pc_pure (b3_tokPost_done (by rw [List.append_nil]; exact htr1.trans htr2) ?_)
    rintro x x' hx hx' ⟨x1, ⟨h1, e1, hb⟩, h2, e2⟩
    subst x'; subst x1
    refine ⟨(absF s x).err "in body: heading end tag without heading in scope", ?_,
      ((b3_EqE.rfl' _).err _).of_eq (e1.trans e2)⟩
    simp only [b3_specHeading, ← hb, Bool.not_false, if_true]
    rfl
  | true =>
    simp only [if_true]
    refine pc_seq (pc_generateImpliedEndTags_cursory htr1.1) ?_
    rintro _ s2 c2 he2 htr2
    refine pc_seq (pc_currentNodeNamedS htr2.1 name) ?_
    rintro b2 s3 c3 he3 htr3
    have hfin : ∀ (s4 s5 : State) (c4 c5 : List Call),
        Tr s3 s4 c4 (fun x x' => x' = x ∧ absF s3 x = absF s4 x) →
        Tr s4 s5 c5 (fun x x' => x' = x ∧
          absF s5 x = Spec.TreeModes.popUntilPoppedAny (absF s4 x) Spec.TreeTables.heading) →
        TokPost (fun σ => pure (b3_specHeading (cfgOf s) σ name)) s tok .done s5 (c1 ++ (c2 ++ (c3 ++ (c4 ++ c5)))) := by
      intro s4 s5 c4 c5 htr4 htr5
      refine b3_tokPost_done (htr1.trans (htr2.trans (htr3.trans (htr4.trans htr5)))) ?_
      rintro x x' hx hx' ⟨x1, ⟨h1, e1, hb⟩, x2, ⟨h2, e2⟩, x3, ⟨h3, e3, -⟩, x4, ⟨h4, e4⟩, h5, e5⟩
      subst x'; subst x4; subst x3; subst x2; subst x1
      refine ⟨_, by simp only [b3_specHeading, ← hb, Bool.not_true, Bool.false_eq_true, if_false]; rfl, ?_⟩
      rw [e5, ← e4, ← e3, e2, ← e1]
      refine b3_EqE.map (fun σ => Spec.TreeModes.popUntilPoppedAny σ Spec.TreeTables.heading) (fun _ _ => rfl) ?_
      exact b3_EqE.ite _ (b3_EqE.rfl' _) ((b3_EqE.rfl' _).err _)
    cases b2 with
    | false =>
      simp only [Bool.not_false, if_true]
      refine pc_seq (pc_parseError htr3.1 _) ?_
      rintro _ s4 c4 he4 htr4
      refine pc_seq (pc_popUntil_heading htr4.1) ?_
      rintro _ s5 c5 he5 htr5
      refine pc_pure ?_
      rw [List.append_nil]
      exact hfin s4 s5 c4 c5 htr4 htr5
    | true =>
      simp only [Bool.not_true, Bool.false_eq_true, if_false]
      refine pc_seq (pc_popUntil_heading htr3.1) ?_
      rintro _ s5 c5 he5 htr5
      refine pc_pure ?_
      have := hfin s3 s5 [] c5 ((Tr.refl htr3.1).conseq fun _ _ _ _ h => ⟨h, rfl⟩) htr5
      simpa using this

/-! ### `</li>`, `</dd>`, `</dt>` -/

/-- the clauses for the end tags `li` (list item scope) and `dd`, `dt` (scope) -/
def b3_specItemEnd (g : SState → Bool) (σ : SState) (name : Str) (w1 w2 : String) : Step Id :=
  if !g σ then .done (σ.err w1)
  else
    let σ := Spec.TreeModes.genImpliedExceptStr σ name
    let σ := if σ.cur.any (fun e => Spec.TreeModes.isNamed name e.name) then σ else σ.err w2
    .done (Spec.TreeModes.popUntilPoppedStr σ name)

theorem b3_itemEnd {s : State} (name : Str) (q : M Bool) (g : SState → Bool)
    (hq : PC q s (fun b s' calls => Tr s s' calls (fun x x' => x' = x ∧ absF s x = absF s' x ∧ b = g (absF s x))))
    (w1 w2 : String) (tok : Token) :
    PC (do
        let inSc ← q
        if inSc = true then do
            generateImpliedEndExcept name
            expectToCloseS name
            pure ProcessResult.done
          else do
            parseError "No matching tag to close"
            pure ProcessResult.done) s
      (TokPost (fun σ => pure (b3_specItemEnd g σ name w1 w2)) s tok) := by
  refine pc_seq hq ?_
  rintro b s1 c1 he1 htr1
  cases b with
  | false =>
    simp only [Bool.false_eq_true, if_false]
    refine pc_seq (pc_parseError htr1.1 _) ?_
    rintro _ s2 c2 he2 htr2
    refine pc_pure (b3_tokPost_done (by rw [List.append_nil]; exact htr1.trans htr2) ?_)
    rintro x x' hx hx' ⟨x1, ⟨h1, e1, hb⟩, h2, e2⟩
    subst x'; subst x1
    refine ⟨(absF s x).err w1, ?_, ((b3_EqE.rfl' _).err _).of_eq (e1.trans e2)⟩
    simp only [b3_specItemEnd, ← hb, Bool.not_false, if_true]
    rfl
  | true =>
    simp only [if_true]
    refine pc_seq (pc_generateImpliedEndExcept htr1.1 name) ?_
    rintro _ s2 c2 he2 htr2
    refine pc_seq (pc_expectToCloseS htr2.1 name) ?_
    rintro _ s3 c3 he3 htr3
    refine pc_pure (b3_tokPost_done (by rw [List.append_nil, ← List.append_assoc]; exact (htr1.trans htr2).trans htr3) ?_)
    rintro x x' hx hx' ⟨x2, ⟨x1, ⟨h1, e1, hb⟩, h2, e2⟩, h3, e3⟩
    subst x'; subst x2; subst x1
    refine ⟨_, by simp only [b3_specItemEnd, ← hb, Bool.not_true, Bool.false_eq_true, if_false]; rfl, ?_⟩
    rw [e3, e2, ← e1]
    refine b3_EqE.map (fun σ => Spec.TreeModes.popUntilPoppedStr σ name) (fun _ _ => rfl) ?_
    exact b3_EqE.ite _ (b3_EqE.rfl' _) ((b3_EqE.rfl' _).err _)

/-! ### `</p>` -/

theorem b3_EqE.symm {σ τ : SState} (h : b3_EqE σ τ) : b3_EqE τ σ := by
  obtain ⟨e, rfl⟩ := h; exact ⟨τ.errors, rfl⟩

theorem b3_EqE.trans {σ τ υ : SState} (h1 : b3_EqE σ τ) (h2 : b3_EqE τ υ) : b3_EqE σ υ := by
  obtain ⟨e, rfl⟩ := h1
  obtain ⟨e', rfl⟩ := h2
  exact ⟨e, rfl⟩

theorem b3_EqE.closeP {σ τ : SState} (h : b3_EqE σ τ) : b3_EqE (Spec.TreeModes.closeP σ) (Spec.TreeModes.closeP τ) := by
  obtain ⟨e, rfl⟩ := h
  have h1 : b3_EqE (Spec.TreeModes.closeP { τ with errors := e })
      (({ τ with errors := e } : SState).setStack (Spec.TreeAlgo2.closePElement τ.p.stack)) := ⟨_, closeP_eq _⟩
  have h2 : b3_EqE (Spec.TreeModes.closeP τ) (τ.setStack (Spec.TreeAlgo2.closePElement τ.p.stack)) := ⟨_, closeP_eq _⟩
  have h3 : b3_EqE (({ τ with errors := e } : SState).setStack (Spec.TreeAlgo2.closePElement τ.p.stack))
      (τ.setStack (Spec.TreeAlgo2.closePElement τ.p.stack)) := ⟨e, rfl⟩
  exact (h1.trans h3).trans h2.symm

theorem b3_insertHtml'_err {σ σ' : SState} {t : STag} (w : String) (h : Spec.TreeModes.insertHtml' σ t = .ok σ') :
    Spec.TreeModes.insertHtml' (σ.err w) t = .ok (σ'.err w) := by
  unfold Spec.TreeModes.insertHtml' Spec.TreeModes.insertHtml at h ⊢
  have hp : (σ.err w).p = σ.p := rfl
  rw [hp]
  cases hr : Spec.TreeModes.req (Spec.TreeAlgo2.insertHtmlElement Spec.TreeModes.cx σ.p t.etok)
      "insert an HTML element: no place / no node" with
  | error e => rw [hr] at h; simp [bind, Except.bind] at h
  | ok r =>
    rw [hr] at h
    simp only [bind, Except.bind, pure, Except.pure, Except.ok.injEq] at h
    subst h
    rfl

/-- the clause for the end tag `p` -/
def b3_specEndP (cfg : Config Id) (σ : SState) : Spec.TreeModes.M (Step Id) := do
  let s ← if Spec.TreeModes.hasInButtonScope cfg σ "p" then pure σ
    else Spec.TreeModes.insertHtml' (σ.err "in body: p end tag without p in button scope") (Spec.TreeModes.bareTag "p")
  pure (.done (Spec.TreeModes.closeP s))

theorem b3_endP {s : State} (hm : MInv s) (tok : Token) :
    PC (do
        let b ← inScopeNamed buttonScope "p"
        if (!b) = true then do
            parseError "No <p> tag to close"
            let _ ← insertPhantom "p"
            closePElement
            pure ProcessResult.done
          else do
            closePElement
            pure ProcessResult.done) s
      (TokPost (fun σ => b3_specEndP (cfgOf s) σ) s tok) := by
  refine pc_seq (pc_inScopeNamed_button hm "p") ?_
  rintro b s1 c1 he1 htr1
  cases b with
  | true =>
    simp only [Bool.not_true, Bool.false_eq_true, if_false]
    refine pc_seq (pc_closePElement htr1.1) ?_
    rintro _ s2 c2 he2 htr2
    refine pc_pure (b3_tokPost_done (by rw [List.append_nil]; exact htr1.trans htr2) ?_)
    rintro x x' hx hx' ⟨x1, ⟨h1, e1, hb⟩, h2, e2⟩
    subst x1
    refine ⟨Spec.TreeModes.closeP (absF s x), ?_, (b3_EqE.rfl' _).of_eq (by rw [e2, ← e1])⟩
    simp only [b3_specEndP, ← hb, if_true]
    rfl
  | false =>
    simp only [Bool.not_false, if_true]
    refine pc_seq (pc_parseError htr1.1 _) ?_
    rintro _ s2 c2 he2 htr2
    refine pc_seq (pc_insertPhantom' htr2.1 "p") ?_
    rintro a s3 c3 he3 ⟨-, -, -, -, -, htr3⟩
    refine pc_seq (pc_closePElement htr3.1) ?_
    rintro _ s4 c4 he4 htr4
    refine pc_pure (b3_tokPost_done (by rw [List.append_nil]; exact htr1.trans (htr2.trans (htr3.trans htr4))) ?_)
    rintro x x' hx hx' ⟨x1, ⟨h1, e1, hb⟩, x2, ⟨h2, e2⟩, x3, e3, h4, e4⟩
    subst x2; subst x1
    have e3' : Spec.TreeModes.insertHtml' (absF s x) (Spec.TreeModes.bareTag "p") = .ok (absF s3 x3) := by
      rw [e1, e2]; exact e3
    refine ⟨Spec.TreeModes.closeP ((absF s3 x3).err "in body: p end tag without p in button scope"), ?_, ?_⟩
    · simp only [b3_specEndP, ← hb, Bool.false_eq_true, if_false,
        b3_insertHtml'_err "in body: p end tag without p in button scope" e3']
      rfl
    · rw [e4]
      exact ((b3_EqE.rfl' _).err _).closeP

/-! ### `</option>` -/

theorem b3_tot_findOption (l : List Id) : ∀ s : State,
    Tot (findOption l) s (fun _ s' calls => SameTB s s' ∧ edits calls = []) := by
  induction l with
  | nil => intro s; exact tot_pure ⟨SameTB.refl s, rfl⟩
  | cons e rest ih =>
    intro s
    simp only [findOption]
    refine tot_query_bind (tot_htmlElemNamed s e "option") fun s1 c1 _ hs1 hc1 => ?_
    by_cases hb : (elemOf s.dom e).name.isHtml "option" = true
    · simp only [hb, if_true]
      exact tot_pure ⟨hs1, by simp [hc1]⟩
    · simp only [hb, Bool.false_eq_true, if_false]
      exact tot_conseq (ih s1) fun _ s2 c2 _ ⟨h1, h2⟩ => ⟨hs1.trans h1, by simp [edits_append, hc1, h2]⟩

theorem b3_tot_anySameNode (y : Id) (l : List Id) : ∀ s : State,
    Tot (anySameNode y l) s (fun _ s' calls => SameTB s s' ∧ edits calls = []) := by
  induction l with
  | nil => intro s; exact tot_pure ⟨SameTB.refl s, rfl⟩
  | cons e rest ih =>
    intro s
    simp only [anySameNode]
    refine tot_query_bind (tot_sameNode s e y) fun s1 c1 _ hs1 hc1 => ?_
    by_cases hb : (e == y) = true
    · simp only [hb, if_true]
      exact tot_pure ⟨hs1, by simp [hc1]⟩
    · simp only [hb, Bool.false_eq_true, if_false]
      exact tot_conseq (ih s1) fun _ s2 c2 _ ⟨h1, h2⟩ => ⟨hs1.trans h1, by simp [edits_append, hc1, h2]⟩

/-- a computation that only consults the sink -/
theorem b3_pc_quiet {α : Type} {q : M α} {s : State} (hm : MInv s)
    (h : Tot q s (fun _ s' calls => SameTB s s' ∧ edits calls = [])) :
    PC q s (fun _ s' calls => SameTB s s' ∧ Tr s s' calls (fun x x' => x' = x ∧ absF s x = absF s' x)) :=
  pc_conseq (PC.of_tot h) fun _ _ _ he ⟨hs, hc⟩ => ⟨hs, Tr.of_same hm hs he (by rw [← edits2_edits, hc]; rfl)⟩

/-- `maybe_clone_an_option_into_selectedcontent`: not a call the specification models -/
theorem b3_pc_maybeClone {s : State} (hm : MInv s) (node : Id) :
    PC (sinkUnit (.maybeCloneAnOptionIntoSelectedcontent node)) s (fun _ s' calls => SameTB s s' ∧
      Tr s s' calls (fun x x' => x' = x ∧ absF s x = absF s' x)) := by
  refine pc_conseq (pc_sinkUnit s) ?_
  rintro _ s' calls he ⟨d', out, ha, hs', hc⟩
  have hs : SameTB s s' := hs' ▸ SameTB.afterCall ..
  exact ⟨hs, Tr.of_same hm hs he (by rw [hc]; rfl)⟩

/-- the tail of the `</option>` arm -/
def b3_optionTail : Option Id → M ProcessResult
  | some option => do
    if !(← anySameNode option (← getS).openElems) then
      sinkUnit (.maybeCloneAnOptionIntoSelectedcontent option)
    pure .done
  | none => pure .done

/-- the `</option>` arm -/
def b3_optionM (tag : Tag) : M ProcessResult := do
  let optionInStack ← findOption (← getS).openElems
  processEndTagInBody tag
  b3_optionTail optionInStack

theorem b3_optionEnd {s : State} (hm : MInv s) (t : Tag) (tok : Token) :
    PC (b3_optionM t) s
      (TokPost (fun σ => pure (Step.done (σ.setStack (Spec.TreeAlgo2.anyOtherEndTag t.name σ.p.stack)))) s tok) := by
  simp only [b3_optionM]
  refine pc_getS_bind ?_
  refine pc_seq (b3_pc_quiet hm (b3_tot_findOption s.openElems s)) ?_
  rintro o s1 c1 he1 ⟨-, htr1⟩
  refine pc_seq (pc_processEndTagInBody htr1.1 t) ?_
  rintro _ s2 c2 he2 htr2
  have hfin : ∀ (s3 : State) (c3 : List Call), Tr s2 s3 c3 (fun x x' => x' = x ∧ absF s2 x = absF s3 x) →
      TokPost (fun σ => pure (Step.done (σ.setStack (Spec.TreeAlgo2.anyOtherEndTag t.name σ.p.stack)))) s tok
        .done s3 (c1 ++ (c2 ++ c3)) := by
    intro s3 c3 htr3
    refine b3_tokPost_done (htr1.trans (htr2.trans htr3)) ?_
    rintro x x' hx hx' ⟨x1, ⟨h1, e1⟩, x2, ⟨h2, e2⟩, h3, e3⟩
    subst x'; subst x2; subst x1
    exact ⟨_, rfl, (b3_EqE.rfl' _).of_eq (by rw [← e3, e2, ← e1])⟩
  cases o with
  | none =>
    simp only [b3_optionTail]
    refine pc_pure ?_
    have := hfin s2 [] ((Tr.refl htr2.1).conseq fun _ _ _ _ h => ⟨h, rfl⟩)
    simpa using this
  | some opt =>
    simp only [b3_optionTail]
    refine pc_getS_bind ?_
    refine pc_seq (b3_pc_quiet htr2.1 (b3_tot_anySameNode opt s2.openElems s2)) ?_
    rintro b s3 c3 he3 ⟨-, htr3⟩
    cases b with
    | true =>
      simp only [Bool.not_true, Bool.false_eq_true, if_false]
      refine pc_pure ?_
      rw [List.append_nil]
      exact hfin s3 c3 htr3
    | false =>
      simp only [Bool.not_false, if_true]
      refine pc_seq (b3_pc_maybeClone htr3.1 opt) ?_
      rintro _ s4 c4 he4 ⟨-, htr4⟩
      refine pc_pure ?_
      rw [List.append_nil]
      have := hfin s4 (c3 ++ c4) ((htr3.trans htr4).conseq (by
        rintro x x' _ _ ⟨x1, ⟨h1, e1⟩, h2, e2⟩
        subst x'; subst x1
        exact ⟨rfl, e1.trans e2⟩))
      exact this

/-! ### `</form>` -/

/-- the element the form element pointer is set to is an element other than the root `html` element
(by `TI`, it is a `form` element: `b3_FormOk.of_ti`) -/
def b3_FormOk (s : State) : Prop :=
  ∀ f, s.formElem = some f → s.dom.isElement f = true ∧ nameOf s.dom f ≠ ⟨nsHtml, "html".toList⟩

theorem b3_FormOk.of_ti {s : State} (h : TI s) : b3_FormOk s := by
  intro f hf
  obtain ⟨h1, h2⟩ := h.h.form f hf
  refine ⟨isEl_iff.mp h1, ?_⟩
  rw [← nm_eq_nameOf, h2]
  decide

/-- a query of phase 1, with the fact that the fields of the tree builder are unchanged -/
theorem b3_pc_query {α : Type} {q : M α} {s : State} {v : α} (hm : MInv s) (h : Tot q s (QueryQ s v)) :
    PC q s (fun b s' calls => b = v ∧ SameTB s s' ∧ Tr s s' calls (fun x x' => x' = x ∧ absF s x = absF s' x)) :=
  pc_conseq (PC.of_tot h) fun _ _ _ he ⟨ha, hs, hc⟩ =>
    ⟨ha, hs, Tr.of_same hm hs he (by rw [← edits2_edits, hc]; rfl)⟩

theorem b3_removeFromStack_err (τ : SState) (e : List String) (node : Id) :
    Spec.TreeModes.removeFromStack { τ with errors := e } node
      = { Spec.TreeModes.removeFromStack τ node with errors := e } := by
  unfold Spec.TreeModes.removeFromStack
  show (match Spec.TreeAlgo2.stackPos node τ.p.stack with
    | some i => ({ τ with errors := e } : SState).setStack (τ.p.stack.eraseIdx i)
    | none => { τ with errors := e }) = _
  cases Spec.TreeAlgo2.stackPos node τ.p.stack <;> rfl

/-- `</form>`, no `template` on the stack: after the form element pointer was read -/
def b3_formNoTmpl (s : State) : Option Id → M ProcessResult
  | none => do
    parseError "Null form element pointer on </form>"
    pure .done
  | some node => do
    set { s with formElem := none }
    if !(← inScope defaultScope (fun n => sameNode node n)) then
      parseError "Form element not in scope on </form>"
      pure .done
    else
      generateImpliedEndTags cursoryImpliedEnd
      let current ← currentNode
      removeFromStack node
      if !(← sameNode current node) then parseError "Bad open element on </form>"
      pure .done

/-- the `</form>` arm -/
def b3_formM : M ProcessResult := do
  if !(← inHtmlElemNamed "template") then
    let s ← getS
    b3_formNoTmpl s s.formElem
  else
    if !(← inScopeNamed defaultScope "form") then
      parseError "Form element not in scope on </form>"
      pure .done
    else
      generateImpliedEndTags cursoryImpliedEnd
      if !(← currentNodeNamed "form") then parseError "Bad open element on </form>"
      let _ ← popUntilNamed "form"
      pure .done

theorem b3_pc_setFormNone {s : State} (hm : MInv s) :
    PC (set { s with formElem := none } : M Unit) s (fun _ s' calls => s' = { s with formElem := none } ∧
      Tr s s' calls (fun x x' => x' = x)) :=
  pc_set rfl rfl ⟨rfl, Tr.of_upd hm rfl (fun _ h => h)
    ⟨hm.elems, hm.root, hm.af, hm.afEl, hm.head, hm.ctx, hm.afwf, hm.ip, hm.tmodes, (fun f hf => by cases hf), hm.pend⟩ rfl⟩

theorem b3_formEnd {s : State} (hm : MInv s) (hform : b3_FormOk s) (tok : Token) :
    PC b3_formM s (TokPost (fun σ => pure (Spec.TreeModes.inBodyEndForm (cfgOf s) σ)) s tok) := by
  simp only [b3_formM]
  refine pc_seq (b3_pc_query hm (pop_tot_inHtmlElemNamed s hm.elems "template")) ?_
  rintro b s1 c1 he1 ⟨hb, hs1, htr1⟩
  have hbx : ∀ x, AuxOk s x → (absF s x).templateOnStack = b := by
    intro x hx
    rw [hb]
    unfold Spec.TreeModes.State.templateOnStack
    rw [absF_stack hx]
  have hm1 := htr1.1
  cases b with
  | false =>
    simp only [Bool.not_false, if_true]
    refine pc_getS_bind ?_
    cases hf : s1.formElem with
    | none =>
      simp only [b3_formNoTmpl]
      refine pc_seq (pc_parseError hm1 _) ?_
      rintro _ s2 c2 he2 htr2
      refine pc_pure (b3_tokPost_done (by rw [List.append_nil]; exact htr1.trans htr2) ?_)
      rintro x x' hx hx' ⟨x1, ⟨h1, e1⟩, h2, e2⟩
      subst x'; subst x1
      have hfp : (absF s x).p.formPointer = none := by
        show s.formElem = none
        rw [← hs1.fields.formElem]; exact hf
      refine ⟨((absF s x).setForm none).err "in body: form end tag, no form element pointer", ?_, ?_⟩
      · simp only [Spec.TreeModes.inBodyEndForm, hbx x hx, hfp, Bool.not_false, if_true]
        rfl
      · refine ((b3_EqE.rfl' _).err _).of_eq ?_
        rw [← e2, ← e1]
        show _ = absF s x
        unfold Spec.TreeModes.State.setForm
        rw [← hfp]
    | some node =>
      simp only [b3_formNoTmpl]
      have hfs : s.formElem = some node := by rw [← hs1.fields.formElem]; exact hf
      obtain ⟨hel, hnn⟩ := hform node hfs
      refine pc_seq (b3_pc_setFormNone hm1) ?_
      rintro _ s2 c2 he2 ⟨hs2, htr2⟩
      subst hs2
      have e2' : ∀ x, absF { s1 with formElem := none } x = (absF s1 x).setForm none := fun _ => rfl
      refine pc_seq (pc_inScope_default_sameNode htr2.1 node) ?_
      rintro b2 s3 c3 he3 htr3
      have hspec0 : ∀ x, AuxOk s x → (absF s x).p.formPointer = some node := fun x _ => hfs
      cases b2 with
      | false =>
        simp only [Bool.not_false, if_true]
        refine pc_seq (pc_parseError htr3.1 _) ?_
        rintro _ s4 c4 he4 htr4
        refine pc_pure (b3_tokPost_done (by rw [List.append_nil]; exact htr1.trans (htr2.trans (htr3.trans htr4))) ?_)
        rintro x x' hx hx' ⟨x1, ⟨h1, e1⟩, x2, h2, x3, ⟨h3, e3, hb3⟩, h4, e4⟩
        subst x'; subst x3; subst x2; subst x1
        rw [e2', ← e1] at e3 hb3
        refine ⟨((absF s x).setForm none).err "in body: form end tag, form not in scope", ?_, ?_⟩
        · simp only [Spec.TreeModes.inBodyEndForm, hbx x hx, hspec0 x hx, Bool.not_false, if_true]
          rw [show cfgOf s = cfgOf { s1 with formElem := none } from (htr1.trans htr2).2.1.symm, ← hb3]
          rfl
        · exact ((b3_EqE.rfl' _).err _).of_eq (e3.trans e4)
      | true =>
        simp only [Bool.not_true, Bool.false_eq_true, if_false]
        refine pc_seq (pc_generateImpliedEndTags_cursory htr3.1) ?_
        rintro _ s4 c4 he4 htr4
        refine pc_seq (pc_currentNode htr4.1) ?_
        rintro cur s5 c5 he5 ⟨-, hs5, -, htr5⟩
        subst s5
        have hext : TBSafe.Ext s.dom s4.dom := (htr1.trans (htr2.trans (htr3.trans htr4))).2.2.1
        have hnr : s4.openElems.head? ≠ some node := by
          intro hh
          have := htr4.1.root node hh
          rw [nameOf_ext hext hel] at this
          exact hnn this
        refine pc_seq (pc_removeFromStack htr4.1 node hnr) ?_
        rintro _ s6 c6 he6 htr6
        refine pc_seq (b3_pc_query htr6.1 (tot_sameNode s6 cur node)) ?_
        rintro b7 s7 c7 he7 ⟨-, -, htr7⟩
        have hfin : ∀ (s8 : State) (c8 : List Call), Tr s7 s8 c8 (fun x x' => x' = x ∧ absF s7 x = absF s8 x) →
            TokPost (fun σ => pure (Spec.TreeModes.inBodyEndForm (cfgOf s) σ)) s tok .done s8
              (c1 ++ (c2 ++ (c3 ++ (c4 ++ (c5 ++ (c6 ++ (c7 ++ c8))))))) := by
          intro s8 c8 htr8
          refine b3_tokPost_done (htr1.trans (htr2.trans (htr3.trans (htr4.trans (htr5.trans (htr6.trans (htr7.trans htr8))))))) ?_
          rintro x x' hx hx' ⟨x1, ⟨h1, e1⟩, x2, h2, x3, ⟨h3, e3, hb3⟩, x4, ⟨h4, e4⟩, x5, ⟨h5, e5, -⟩, x6, ⟨h6, e6⟩,
            x7, ⟨h7, e7⟩, h8, e8⟩
          subst x'; subst x7; subst x6; subst x5; subst x4; subst x3; subst x2; subst x1
          rw [e2', ← e1] at e3 hb3
          refine ⟨_, by
            simp only [Spec.TreeModes.inBodyEndForm, hbx x hx, hspec0 x hx, Bool.not_false, if_true]
            rw [show cfgOf s = cfgOf { s1 with formElem := none } from (htr1.trans htr2).2.1.symm, ← hb3]
            simp only [Bool.not_true, Bool.false_eq_true, if_false]
            rfl, ?_⟩
          · rw [← e8, ← e7, e6, e4, ← e3]
            refine b3_EqE.map (fun σ => Spec.TreeModes.removeFromStack σ node)
              (fun τ e => b3_removeFromStack_err τ e node) ?_
            exact b3_EqE.ite _ (b3_EqE.rfl' _) ((b3_EqE.rfl' _).err _)
        cases b7 with
        | false =>
          simp only [Bool.not_false, if_true]
          refine pc_seq (pc_parseError htr7.1 _) ?_
          rintro _ s8 c8 he8 htr8
          refine pc_pure ?_
          rw [List.append_nil]
          exact hfin s8 c8 htr8
        | true =>
          simp only [Bool.not_true, Bool.false_eq_true, if_false]
          refine pc_pure ?_
          have := hfin s7 [] ((Tr.refl htr7.1).conseq fun _ _ _ _ h => ⟨h, rfl⟩)
          simpa using this
  | true =>
    simp only [Bool.not_true, Bool.false_eq_true, if_false]
    refine pc_seq (pc_inScopeNamed_default hm1 "form") ?_
    rintro b2 s2 c2 he2 htr2
    cases b2 with
    | false =>
      simp only [Bool.not_false, if_true]
      refine pc_seq (pc_parseError htr2.1 _) ?_
      rintro _ s3 c3 he3 htr3
      refine pc_pure (b3_tokPost_done (by rw [List.append_nil]; exact htr1.trans (htr2.trans htr3)) ?_)
      rintro x x' hx hx' ⟨x1, ⟨h1, e1⟩, x2, ⟨h2, e2, hb2⟩, h3, e3⟩
      subst x'; subst x2; subst x1
      rw [← e1] at e2 hb2
      refine ⟨(absF s x).err "in body: form end tag, no form in scope", ?_, ((b3_EqE.rfl' _).err _).of_eq (e2.trans e3)⟩
      simp only [Spec.TreeModes.inBodyEndForm, hbx x hx, Bool.not_true, Bool.false_eq_true, if_false]
      rw [show cfgOf s = cfgOf s1 from htr1.2.1.symm, ← hb2]
      rfl
    | true =>
      simp only [Bool.not_true, Bool.false_eq_true, if_false]
      refine pc_seq (pc_generateImpliedEndTags_cursory htr2.1) ?_
      rintro _ s3 c3 he3 htr3
      refine pc_seq (pc_currentNodeNamed htr3.1 "form") ?_
      rintro b4 s4 c4 he4 htr4
      have hfin : ∀ (s5 s6 : State) (c5 c6 : List Call),
          Tr s4 s5 c5 (fun x x' => x' = x ∧ absF s4 x = absF s5 x) →
          Tr s5 s6 c6 (fun x x' => x' = x ∧ absF s6 x = Spec.TreeModes.popUntilPopped (absF s5 x) "form") →
          TokPost (fun σ => pure (Spec.TreeModes.inBodyEndForm (cfgOf s) σ)) s tok .done s6
            (c1 ++ (c2 ++ (c3 ++ (c4 ++ (c5 ++ c6))))) := by
        intro s5 s6 c5 c6 htr5 htr6
        refine b3_tokPost_done (htr1.trans (htr2.trans (htr3.trans (htr4.trans (htr5.trans htr6))))) ?_
        rintro x x' hx hx' ⟨x1, ⟨h1, e1⟩, x2, ⟨h2, e2, hb2⟩, x3, ⟨h3, e3⟩, x4, ⟨h4, e4, -⟩, x5, ⟨h5, e5⟩, h6, e6⟩
        subst x'; subst x5; subst x4; subst x3; subst x2; subst x1
        rw [← e1] at e2 hb2
        refine ⟨_, by
          simp only [Spec.TreeModes.inBodyEndForm, hbx x hx, Bool.not_true, Bool.false_eq_true, if_false]
          rw [show cfgOf s = cfgOf s1 from htr1.2.1.symm, ← hb2]
          simp only [Bool.not_true, Bool.false_eq_true, if_false]
          rfl, ?_⟩
        · rw [e6, ← e5, ← e4, e3, ← e2]
          refine b3_EqE.map (fun σ => Spec.TreeModes.popUntilPopped σ "form") (fun _ _ => rfl) ?_
          exact b3_EqE.ite _ (b3_EqE.rfl' _) ((b3_EqE.rfl' _).err _)
      cases b4 with
      | false =>
        simp only [Bool.not_false, if_true]
        refine pc_seq (pc_parseError htr4.1 _) ?_
        rintro _ s5 c5 he5 htr5
        refine pc_seq (pc_popUntilNamed htr5.1 "form") ?_
        rintro _ s6 c6 he6 htr6
        refine pc_pure ?_
        rw [List.append_nil]
        exact hfin s5 s6 c5 c6 htr5 (htr6.conseq fun _ _ _ _ ⟨a, b, _⟩ => ⟨a, b⟩)
      | true =>
        simp only [Bool.not_true, Bool.false_eq_true, if_false]
        refine pc_seq (pc_popUntilNamed htr4.1 "form") ?_
        rintro _ s6 c6 he6 htr6
        refine pc_pure ?_
        have := hfin s4 s6 [] c6 ((Tr.refl htr4.1).conseq fun _ _ _ _ h => ⟨h, rfl⟩)
          (htr6.conseq fun _ _ _ _ ⟨a, b, _⟩ => ⟨a, b⟩)
        simpa using this

/-! ### navigation -/

theorem b3_isEnd {t : Tag} {l : List String} (h : t.isEnd l = true) :
    t.kind = .endTag ∧ t.name ∈ l.map String.toList := by
  simp only [Tag.isEnd, Bool.and_eq_true, beq_iff_eq] at h
  refine ⟨h.1, ?_⟩
  have h2 := h.2
  simp only [isOneOf, List.any_eq_true, beq_iff_eq] at h2
  obtain ⟨a, ha, e⟩ := h2
  exact List.mem_map.mpr ⟨a, ha, e⟩

theorem b3_edition (s : State) : ((cfgOf s).edition == Edition.customizableSelect) = true := rfl

/-- what the clauses of `inBodyEndTag` before "form" test -/
def b3_before (m : Str) : Bool :=
  decide (m = "template".toList) || decide (m = "body".toList) || decide (m = "html".toList) ||
    Spec.TreeModes.strIsOneOf m Spec.TreeModes.blockEnd || decide (m = "select".toList)

theorem b3_before_false {m : Str} (h : b3_before m = false) :
    decide (m = "template".toList) = false ∧ decide (m = "body".toList) = false ∧ decide (m = "html".toList) = false ∧
    Spec.TreeModes.strIsOneOf m Spec.TreeModes.blockEnd = false ∧ decide (m = "select".toList) = false := by
  simp only [b3_before, Bool.or_eq_false_iff] at h
  obtain ⟨⟨⟨⟨a, b⟩, c⟩, d⟩, e⟩ := h
  exact ⟨a, b, c, d, e⟩

theorem b3_names_block : ∀ m ∈ (["address", "article", "aside", "blockquote", "button", "center", "details", "dialog",
    "dir", "div", "dl", "fieldset", "figcaption", "figure", "footer", "header", "hgroup", "listing", "main", "menu",
    "nav", "ol", "pre", "search", "section", "select", "summary", "ul"].map String.toList),
    decide (m = "template".toList) = false ∧ decide (m = "body".toList) = false ∧ decide (m = "html".toList) = false ∧
    (Spec.TreeModes.strIsOneOf m Spec.TreeModes.blockEnd || decide (m = "select".toList)) = true := by
  decide +kernel

theorem b3_names_form : ∀ m ∈ (["form"].map String.toList),
    b3_before m = false ∧ decide (m = "form".toList) = true := by
  decide +kernel

theorem b3_names_p : ∀ m ∈ (["p"].map String.toList),
    b3_before m = false ∧ decide (m = "form".toList) = false ∧ decide (m = "p".toList) = true := by
  decide +kernel

theorem b3_names_item : ∀ m ∈ (["li", "dd", "dt"].map String.toList),
    b3_before m = false ∧ decide (m = "form".toList) = false ∧ decide (m = "p".toList) = false ∧
    (decide (m = "li".toList) = false → Spec.TreeModes.strIsOneOf m ["dd", "dt"] = true) := by
  decide +kernel

theorem b3_names_heading : ∀ m ∈ (["h1", "h2", "h3", "h4", "h5", "h6"].map String.toList),
    b3_before m = false ∧ decide (m = "form".toList) = false ∧ decide (m = "p".toList) = false ∧
    decide (m = "li".toList) = false ∧ Spec.TreeModes.strIsOneOf m ["dd", "dt"] = false ∧
    Spec.TreeModes.strIsOneOf m Spec.TreeTables.heading = true := by
  decide +kernel

theorem b3_names_option : ∀ m ∈ (["option"].map String.toList),
    b3_before m = false ∧ decide (m = "form".toList) = false ∧ decide (m = "p".toList) = false ∧
    decide (m = "li".toList) = false ∧ Spec.TreeModes.strIsOneOf m ["dd", "dt"] = false ∧
    Spec.TreeModes.strIsOneOf m Spec.TreeTables.heading = false ∧
    Spec.TreeModes.strIsOneOf m Spec.TreeModes.formattingEnd = false ∧
    Spec.TreeModes.strIsOneOf m ["applet", "marquee", "object"] = false ∧ decide (m = "br".toList) = false := by
  decide +kernel

theorem b3_pure_ite {α : Type} (c : Prop) [Decidable c] (a b : α) :
    (if c then (pure a : Spec.TreeModes.M α) else pure b) = pure (if c then a else b) := by
  split <;> rfl

section SpecNav
variable (s : State) (σ : SState) {t : Tag}

theorem b3_spec_block (h : t.isEnd ["address", "article", "aside", "blockquote", "button", "center", "details",
      "dialog", "dir", "div", "dl", "fieldset", "figcaption", "figure", "footer", "header", "hgroup", "listing", "main",
      "menu", "nav", "ol", "pre", "search", "section", "select", "summary", "ul"] = true) :
    Spec.TreeModes.inBody (cfgOf s) σ (stokOf (.tag t)) = pure (Spec.TreeModes.inBodyBlockEnd (cfgOf s) σ (specTag t)) := by
  obtain ⟨hk, hn⟩ := b3_isEnd h
  obtain ⟨n1, n2, n3, n4⟩ := b3_names_block t.name hn
  have n4' : (Spec.TreeModes.strIsOneOf t.name Spec.TreeModes.blockEnd || (true && decide (t.name = "select".toList))) = true := by
    rw [Bool.true_and]; exact n4
  simp only [stokOf, stokOfTag_end hk, Spec.TreeModes.inBody, Spec.TreeModes.inBodyEndTag, Spec.TreeModes.Tag.is,
    Spec.TreeModes.Tag.isOneOf, strIs_eq, specTag_name, n1, n2, n3, b3_edition, n4', Bool.false_eq_true, if_false, if_true]

theorem b3_spec_form (h : t.isEnd ["form"] = true) :
    Spec.TreeModes.inBody (cfgOf s) σ (stokOf (.tag t)) = pure (Spec.TreeModes.inBodyEndForm (cfgOf s) σ) := by
  obtain ⟨hk, hn⟩ := b3_isEnd h
  obtain ⟨hb, n6⟩ := b3_names_form t.name hn
  obtain ⟨n1, n2, n3, n4, n5⟩ := b3_before_false hb
  simp only [stokOf, stokOfTag_end hk, Spec.TreeModes.inBody, Spec.TreeModes.inBodyEndTag, Spec.TreeModes.Tag.is,
    Spec.TreeModes.Tag.isOneOf, strIs_eq, specTag_name, n1, n2, n3, n4, n5, n6, Bool.and_false, Bool.or_false,
    Bool.false_eq_true, if_false, if_true]

theorem b3_spec_p (h : t.isEnd ["p"] = true) :
    Spec.TreeModes.inBody (cfgOf s) σ (stokOf (.tag t)) = b3_specEndP (cfgOf s) σ := by
  obtain ⟨hk, hn⟩ := b3_isEnd h
  obtain ⟨hb, n6, n7⟩ := b3_names_p t.name hn
  obtain ⟨n1, n2, n3, n4, n5⟩ := b3_before_false hb
  simp only [stokOf, stokOfTag_end hk, Spec.TreeModes.inBody, Spec.TreeModes.inBodyEndTag, Spec.TreeModes.Tag.is,
    Spec.TreeModes.Tag.isOneOf, strIs_eq, specTag_name, n1, n2, n3, n4, n5, n6, n7, Bool.and_false, Bool.or_false,
    Bool.false_eq_true, if_false, if_true]
  rfl

theorem b3_spec_option (h : t.isEnd ["option"] = true) :
    Spec.TreeModes.inBody (cfgOf s) σ (stokOf (.tag t))
      = pure (Step.done (σ.setStack (Spec.TreeAlgo2.anyOtherEndTag t.name σ.p.stack))) := by
  obtain ⟨hk, hn⟩ := b3_isEnd h
  obtain ⟨hb, n6, n7, n8, n9, n10, n11, n12, n13⟩ := b3_names_option t.name hn
  obtain ⟨n1, n2, n3, n4, n5⟩ := b3_before_false hb
  simp only [stokOf, stokOfTag_end hk, Spec.TreeModes.inBody, Spec.TreeModes.inBodyEndTag, Spec.TreeModes.Tag.is,
    Spec.TreeModes.Tag.isOneOf, strIs_eq, specTag_name, n1, n2, n3, n4, n5, n6, n7, n8, n9, n10, n11, n12, n13,
    Bool.and_false, Bool.or_false, Bool.false_eq_true, if_false]

theorem b3_spec_heading (h : t.isEnd ["h1", "h2", "h3", "h4", "h5", "h6"] = true) :
    Spec.TreeModes.inBody (cfgOf s) σ (stokOf (.tag t)) = pure (b3_specHeading (cfgOf s) σ t.name) := by
  obtain ⟨hk, hn⟩ := b3_isEnd h
  obtain ⟨hb, n6, n7, n8, n9, n10⟩ := b3_names_heading t.name hn
  obtain ⟨n1, n2, n3, n4, n5⟩ := b3_before_false hb
  simp only [stokOf, stokOfTag_end hk, Spec.TreeModes.inBody, Spec.TreeModes.inBodyEndTag, Spec.TreeModes.Tag.is,
    Spec.TreeModes.Tag.isOneOf, strIs_eq, specTag_name, n1, n2, n3, n4, n5, n6, n7, n8, n9, n10,
    Bool.and_false, Bool.or_false, Bool.false_eq_true, if_false, if_true]
  rw [b3_pure_ite]
  rfl

theorem b3_spec_li (h : t.isEnd ["li", "dd", "dt"] = true) (hli : t.name = "li".toList) :
    Spec.TreeModes.inBody (cfgOf s) σ (stokOf (.tag t))
      = pure (b3_specItemEnd (fun σ => Spec.TreeAlgo.hasInScope (Spec.TreeModes.isNamed t.name)
          (Spec.TreeModes.scopeList (cfgOf s) Spec.TreeAlgo.listItemScopeList) σ.names) σ t.name
          "in body: li end tag without li in list item scope" "in body: li end tag, current node is not li") := by
  obtain ⟨hk, hn⟩ := b3_isEnd h
  obtain ⟨hb, n6, n7, -⟩ := b3_names_item t.name hn
  obtain ⟨n1, n2, n3, n4, n5⟩ := b3_before_false hb
  have n8 : decide (t.name = "li".toList) = true := decide_eq_true hli
  simp only [stokOf, stokOfTag_end hk, Spec.TreeModes.inBody, Spec.TreeModes.inBodyEndTag, Spec.TreeModes.Tag.is,
    Spec.TreeModes.Tag.isOneOf, strIs_eq, specTag_name, n1, n2, n3, n4, n5, n6, n7, n8,
    Bool.and_false, Bool.or_false, Bool.false_eq_true, if_false, if_true]
  rw [b3_pure_ite, hli]
  rfl

theorem b3_spec_ddDt (h : t.isEnd ["li", "dd", "dt"] = true) (hli : t.name ≠ "li".toList) :
    Spec.TreeModes.inBody (cfgOf s) σ (stokOf (.tag t))
      = pure (b3_specItemEnd (fun σ => Spec.TreeModes.hasStrInScope (cfgOf s) σ t.name) σ t.name
          "in body: dd/dt end tag without element in scope" "in body: dd/dt end tag, current node differs") := by
  obtain ⟨hk, hn⟩ := b3_isEnd h
  have hn' : (specTag t).name ∈ List.map String.toList ["li", "dd", "dt"] := hn
  have hli' : (specTag t).name ≠ "li".toList := hli
  obtain ⟨hb, n6, n7, n9⟩ := b3_names_item (specTag t).name hn'
  obtain ⟨n1, n2, n3, n4, n5⟩ := b3_before_false hb
  have n8 : decide ((specTag t).name = "li".toList) = false := decide_eq_false hli'
  have n9' := n9 n8
  simp only [stokOf, stokOfTag_end hk, Spec.TreeModes.inBody, Spec.TreeModes.inBodyEndTag, Spec.TreeModes.Tag.is,
    Spec.TreeModes.Tag.isOneOf, strIs_eq, n1, n2, n3, n4, n5, n6, n7, n8, n9',
    Bool.and_false, Bool.or_false, Bool.false_eq_true, if_false, if_true]
  rw [b3_pure_ite]
  rfl

end SpecNav

/-! ### the slice -/

/-- the block-level end tags of "in body".  `b3_FormOk` (needed for `</form>` only): the form element pointer is
not set to the root of the stack — `remove_from_stack(node)` must not remove the `html` element, or the
invariant `MInv.root` of the final state is lost (model and specification do the same there) -/
theorem b3_slice_core : ∀ t, TagWf t → (bodyC1 t || bodyC2 t) = false → bodyC3 t = true → ∀ s, MInv s →
    (t.isEnd ["form"] = true → b3_FormOk s) →
    PC (stepInBody (.tag t)) s (TokPost (fun σ => Spec.TreeModes.inBody (cfgOf s) σ (stokOf (.tag t))) s (.tag t)) := by
  intro t hwf hpre hc s hm hform
  simp only [bodyC1, bodyC2, Bool.or_eq_false_iff] at hpre
  obtain ⟨⟨⟨⟨⟨⟨a1, a2⟩, a3⟩, a4⟩, a5⟩, a6⟩, ⟨⟨⟨⟨⟨⟨⟨b1, b2⟩, b3⟩, b4⟩, b5⟩, b6⟩, b7⟩, b8⟩⟩ := hpre
  by_cases hA : t.isEnd ["address", "article", "aside", "blockquote", "button", "center", "details",
      "dialog", "dir", "div", "dl", "fieldset", "figcaption", "figure", "footer", "header", "hgroup", "listing", "main",
      "menu", "nav", "ol", "pre", "search", "section", "select", "summary", "ul"] = true
  · simp only [stepInBody, a1, a2, a3, a4, a5, a6, b1, b2, b3, b4, b5, b6, b7, b8, hA, Bool.false_eq_true, if_false, if_true]
    exact pc_tokPost_congr (b3_blockEnd hm t _) fun x _ => b3_spec_block s _ hA
  by_cases hF : t.isEnd ["form"] = true
  · simp only [stepInBody, a1, a2, a3, a4, a5, a6, b1, b2, b3, b4, b5, b6, b7, b8, hA, hF, Bool.false_eq_true, if_false, if_true]
    show PC b3_formM s _
    exact pc_tokPost_congr (b3_formEnd hm (hform hF) _) fun x _ => b3_spec_form s _ hF
  by_cases hO : t.isEnd ["option"] = true
  · simp only [stepInBody, a1, a2, a3, a4, a5, a6, b1, b2, b3, b4, b5, b6, b7, b8, hA, hF, hO, Bool.false_eq_true, if_false, if_true]
    show PC (b3_optionM t) s _
    exact pc_tokPost_congr (b3_optionEnd hm t _) fun x _ => b3_spec_option s _ hO
  by_cases hP : t.isEnd ["p"] = true
  · simp only [stepInBody, a1, a2, a3, a4, a5, a6, b1, b2, b3, b4, b5, b6, b7, b8, hA, hF, hO, hP, Bool.false_eq_true, if_false, if_true]
    exact pc_tokPost_congr (b3_endP hm _) fun x _ => b3_spec_p s _ hP
  by_cases hI : t.isEnd ["li", "dd", "dt"] = true
  · by_cases hli : t.name = "li".toList
    · have hisn : isName t.name "li" = true := by rw [isName_eq]; exact decide_eq_true hli
      simp only [stepInBody, a1, a2, a3, a4, a5, a6, b1, b2, b3, b4, b5, b6, b7, b8, hA, hF, hO, hP, hI, hisn,
        Bool.false_eq_true, if_false, if_true]
      exact pc_tokPost_congr (b3_itemEnd t.name _ (fun σ => Spec.TreeAlgo.hasInScope (Spec.TreeModes.isNamed t.name)
          (Spec.TreeModes.scopeList (cfgOf s) Spec.TreeAlgo.listItemScopeList) σ.names)
        (pc_inScopeNamedS_listItem hm t.name) _ _ _) fun x _ => b3_spec_li s _ hI hli
    · have hisn : isName t.name "li" = false := by rw [isName_eq]; exact decide_eq_false hli
      simp only [stepInBody, a1, a2, a3, a4, a5, a6, b1, b2, b3, b4, b5, b6, b7, b8, hA, hF, hO, hP, hI, hisn,
        Bool.false_eq_true, if_false, if_true]
      exact pc_tokPost_congr (b3_itemEnd t.name _ (fun σ => Spec.TreeModes.hasStrInScope (cfgOf s) σ t.name)
        (pc_inScopeNamedS_default hm t.name) _ _ _) fun x _ => b3_spec_ddDt s _ hI hli
  by_cases hH : t.isEnd ["h1", "h2", "h3", "h4", "h5", "h6"] = true
  · simp only [stepInBody, a1, a2, a3, a4, a5, a6, b1, b2, b3, b4, b5, b6, b7, b8, hA, hF, hO, hP, hI, hH,
      Bool.false_eq_true, if_false, if_true]
    exact pc_tokPost_congr (b3_headingEnd hm t.name _) fun x _ => b3_spec_heading s _ hH
  · exfalso
    simp only [bodyC3, Bool.or_eq_true] at hc
    rcases hc with ((((h | h) | h) | h) | h) | h
    · exact hA h
    · exact hF h
    · exact hO h
    · exact hP h
    · exact hI h
    · exact hH h


/-- **slice 3 of "in body"** (`</address>` … `</ul>`, `</form>`, `</option>`, `</p>`, `</li>`/`</dd>`/`</dt>`,
`</h1>` … `</h6>`), with the extra state invariant `b3_FormOk` (see `b3_FormOk.of_ti`) -/
theorem bodySlice3' : ∀ t, TagWf t → (bodyC1 t || bodyC2 t) = false → bodyC3 t = true → ∀ s, MInv s → b3_FormOk s →
    PC (stepInBody (.tag t)) s (TokPost (fun σ => Spec.TreeModes.inBody (cfgOf s) σ (stokOf (.tag t))) s (.tag t)) :=
  fun t hwf hpre hc s hm hform => b3_slice_core t hwf hpre hc s hm fun _ => hform

/-- slice 3 without `</form>`: no extra hypothesis -/
theorem bodySlice3_noForm : BodySliceSim (fun t => bodyC1 t || bodyC2 t || t.isEnd ["form"]) bodyC3 := by
  intro t hwf hpre hc s hm
  simp only [Bool.or_eq_false_iff] at hpre
  refine b3_slice_core t hwf ?_ hc s hm fun h => ?_
  · simp only [Bool.or_eq_false_iff]; exact hpre.1
  · rw [hpre.2] at h; cases h

/-- slice 3 in the form of `BodySliceSim`, once `MInv` knows about the form element pointer -/
theorem bodySlice3 (hform : ∀ s, MInv s → b3_FormOk s) : BodySliceSim (fun t => bodyC1 t || bodyC2 t) bodyC3 :=
  fun t hwf hpre hc s hm => bodySlice3' t hwf hpre hc s hm (hform s hm)

/-- slice 3, with the form-pointer clause of `MInv` -/
theorem bodySlice3_full : BodySliceSim (fun t => bodyC1 t || bodyC2 t) bodyC3 :=
  bodySlice3 (fun _ hm => hm.form)

end H5V.Lemmas.HtmlTBModes
