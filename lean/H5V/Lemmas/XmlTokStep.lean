import H5V.Model.XmlTok
import H5V.Lemmas.XmlTokFields
import H5V.Lemmas.XmlTokReader
/-!
Step-level lemmas for the XML tokenizer model: `XmlTokenizer::step` is monotone in the unread input
whenever it does not suspend (port of `H5V.Lemmas.HtmlTokStep`).
-/
namespace H5V.Model.XmlTok

/-- a step result with more input appended -/
def R.ext : R → Str → R
  | .cont m i, e => .cont m (i ++ e)
  | .suspend m i, e => .suspend m (i ++ e)
  | .panic x, _ => .panic x

def R.isSuspend : R → Bool
  | .suspend _ _ => true
  | _ => false

theorem ofSig_ext (ms : Mach × Sig) (inp e : Str) : ofSig ms (inp ++ e) = (ofSig ms inp).ext e := by
  unfold ofSig
  split <;> rfl

@[simp] theorem ofSig_not_suspend (ms : Mach × Sig) (inp : Str) : (ofSig ms inp).isSuspend = false := by
  unfold ofSig
  split <;> rfl

theorem stepCharRef_mono (o : Opts) (m : Mach) (inp e : Str) (cr : CharRefSt)
    (h : (stepCharRef o m inp cr).isSuspend = false) :
    stepCharRef o m (inp ++ e) cr = (stepCharRef o m inp cr).ext e := by
  have hns : (crStep o m inp cr).notStuck := by
    unfold stepCharRef at h
    cases hc : crStep o m inp cr with
    | error x => simp [CRRes.notStuck]
    | ok v =>
      obtain ⟨m1, i1, cr1, st⟩ := v
      cases st <;> simp_all [CRRes.notStuck, R.isSuspend]
  unfold stepCharRef
  rw [crStep_mono o m inp e cr hns]
  cases hc : crStep o m inp cr with
  | error x => simp [CRRes.ext, R.ext]
  | ok v =>
    obtain ⟨m1, i1, cr1, st⟩ := v
    cases st with
    | stuck => simp [CRRes.ext, R.ext]
    | progress => simp [CRRes.ext, R.ext]
    | done chars => simp [CRRes.ext, ofSig_ext]

theorem eat_some_EatOk (o : Opts) (m m' : Mach) (inp inp' pat : Str) (b : Bool)
    (h : eat o m inp pat = (some b, m', inp')) : EatOk m' ∧ m'.atEof = m.atEof := by
  rw [eat_eq_core] at h
  unfold eatCore at h
  repeat' split at h
  all_goals
    first
      | (simp at h; done)
      | (simp only [Prod.mk.injEq] at h
         obtain ⟨_, h2, _⟩ := h
         subst h2
         exact ⟨by intro _; simp, by simp⟩)

theorem stepMd_mono (o : Opts) (m : Mach) (inp e : Str)
    (hg : EatOk m) (hat : m.atEof = false)
    (h : (stepMd o m inp).isSuspend = false) :
    stepMd o m (inp ++ e) = (stepMd o m inp).ext e := by
  unfold stepMd at h ⊢
  cases h1 : eat o m inp kwDashDash with
  | mk b1 r1 =>
    obtain ⟨m1, i1⟩ := r1
    cases b1 with
    | none => simp [h1, R.isSuspend] at h
    | some b1 =>
      rw [eat_mono o m m1 inp i1 e _ b1 hg (by decide) hat h1]
      obtain ⟨hg1, hat1⟩ := eat_some_EatOk o m m1 inp i1 _ b1 h1
      cases b1 with
      | true => simp [R.ext]
      | false =>
        simp only [h1] at h ⊢
        cases h2 : eat o m1 i1 kwCdata with
        | mk b2 r2 =>
          obtain ⟨m2, i2⟩ := r2
          cases b2 with
          | none => simp [h2, R.isSuspend] at h
          | some b2 =>
            rw [eat_mono o m1 m2 i1 i2 e _ b2 hg1 (by decide) (by rw [hat1, hat]) h2]
            obtain ⟨hg2, hat2⟩ := eat_some_EatOk o m1 m2 i1 i2 _ b2 h2
            cases b2 with
            | true => simp [R.ext]
            | false =>
              simp only [h2] at h ⊢
              cases h3 : eat o m2 i2 kwDoctype with
              | mk b3 r3 =>
                obtain ⟨m3, i3⟩ := r3
                cases b3 with
                | none => simp [h3, R.isSuspend] at h
                | some b3 =>
                  rw [eat_mono o m2 m3 i2 i3 e _ b3 hg2 (by decide) (by rw [hat2, hat1, hat]) h3]
                  cases b3 <;> simp [R.ext]

theorem stepAdn_mono (o : Opts) (m : Mach) (inp e : Str)
    (hg : EatOk m) (hat : m.atEof = false)
    (h : (stepAdn o m inp).isSuspend = false) :
    stepAdn o m (inp ++ e) = (stepAdn o m inp).ext e := by
  unfold stepAdn at h ⊢
  cases h1 : eat o m inp kwPublic with
  | mk b1 r1 =>
    obtain ⟨m1, i1⟩ := r1
    cases b1 with
    | none => simp [h1, R.isSuspend] at h
    | some b1 =>
      rw [eat_mono o m m1 inp i1 e _ b1 hg (by decide) hat h1]
      obtain ⟨hg1, hat1⟩ := eat_some_EatOk o m m1 inp i1 _ b1 h1
      cases b1 with
      | true => simp [R.ext]
      | false =>
        simp only [h1] at h ⊢
        cases h2 : eat o m1 i1 kwSystem with
        | mk b2 r2 =>
          obtain ⟨m2, i2⟩ := r2
          cases b2 with
          | none => simp [h2, R.isSuspend] at h
          | some b2 =>
            rw [eat_mono o m1 m2 i1 i2 e _ b2 hg1 (by decide) (by rw [hat1, hat]) h2]
            cases b2 with
            | true => simp [R.ext]
            | false =>
              simp only [h2] at h ⊢
              cases h3 : getChar o m2 i2 with
              | mk c3 r3 =>
                obtain ⟨m3, i3⟩ := r3
                cases c3 with
                | none => simp [h3, R.isSuspend] at h
                | some c3 =>
                  rw [getChar_mono o m2 m3 c3 i2 i3 e h3]
                  simp [ofSig_ext]

/-- **`step` is monotone in the unread input**: a step that completes (does not ask for more
input) gives the same result, with the extra input left over, when more input is appended -/
theorem step_mono (o : Opts) (m : Mach) (inp e : Str)
    (hg : (m.state = .markupDecl ∨ m.state = .afterDoctypeName) → EatOk m) (hat : m.atEof = false)
    (h : (step o m inp).isSuspend = false) :
    step o m (inp ++ e) = (step o m inp).ext e := by
  unfold step at h ⊢
  cases hcr : m.charRef with
  | some cr =>
    simp only [hcr] at h ⊢
    exact stepCharRef_mono o m inp e _ h
  | none =>
    simp only [hcr] at h ⊢
    cases hrk : readKind m.state with
    | getChar =>
      simp only [hrk] at h ⊢
      cases hgc : getChar o m inp with
      | mk c r =>
        obtain ⟨m1, i1⟩ := r
        cases c with
        | none => simp [hgc, R.isSuspend] at h
        | some c => rw [getChar_mono o m m1 c inp i1 e hgc]; simp [ofSig_ext]
    | popExcept =>
      simp only [hrk] at h ⊢
      cases hgc : popExceptFrom o (setOf m.state) m inp with
      | mk c r =>
        obtain ⟨m1, i1⟩ := r
        cases c with
        | none => simp [hgc, R.isSuspend] at h
        | some c => rw [popExceptFrom_mono o _ m m1 c inp i1 e hgc]; simp [ofSig_ext]
    | eatMd =>
      simp only [hrk] at h ⊢
      have hs : m.state = .markupDecl := by
        cases hst : m.state <;> simp [hst, readKind] at hrk ⊢
      exact stepMd_mono o m inp e (hg (Or.inl hs)) hat h
    | eatAdn =>
      simp only [hrk] at h ⊢
      have hs : m.state = .afterDoctypeName := by
        cases hst : m.state <;> simp [hst, readKind] at hrk ⊢
      exact stepAdn_mono o m inp e (hg (Or.inr hs)) hat h

end H5V.Model.XmlTok
