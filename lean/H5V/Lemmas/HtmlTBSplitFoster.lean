import H5V.Lemmas.HtmlTBSplitQuery
/-!
C03 lifted to the tree — layer 2c: the queries "is foreign" and "current node in …" do not look at the
`foster_parenting` flag (`FNat`: they commute with setting the flag), so their answers transfer between
states that differ in it.
-/
namespace H5V.Lemmas.TBSplit
open H5V.Model.Dom (Id QualName Attr NodeOrText SinkOp Output ElementFlags QuirksMode Dom)
open H5V.Model.HtmlTok (TagKind RawKind)
open H5V.Model.HtmlTB

/-- set the `foster_parenting` flag -/
@[reducible] def sf (b : Bool) (s : State) : State := { s with fosterParenting := b }

/-- map the state of a result -/
def mapS {α : Type} (g : State → State) : Except String (α × State) → Except String (α × State)
  | .ok (a, s) => .ok (a, g s)
  | .error e => .error e

/-- `m` commutes with setting the flag -/
def FNat {α : Type} (m : M α) : Prop := ∀ s b, m (sf b s) = mapS (sf b) (m s)

theorem fnat_pure {α : Type} (a : α) : FNat (pure a : M α) := fun _ _ => rfl
theorem fnat_throw {α : Type} (e : String) : FNat (throw e : M α) := fun _ _ => rfl

theorem fnat_bind {α β : Type} {m : M α} {f : α → M β} (hm : FNat m) (hf : ∀ a, FNat (f a)) : FNat (m >>= f) := by
  intro s b
  rw [bind_apply, bind_apply, hm s b]
  cases m s with
  | error e => rfl
  | ok v =>
    obtain ⟨a, s'⟩ := v
    exact hf a s' b

theorem fnat_pure_bind {α β : Type} {a : α} {f : α → M β} (h : FNat (f a)) : FNat ((pure a : M α) >>= f) := h
theorem fnat_throw_bind {α β : Type} (e : String) (f : α → M β) : FNat ((throw e : M α) >>= f) := fun _ _ => rfl
theorem fnat_panicAt_bind {α β : Type} (a b c : String) (f : α → M β) : FNat ((panicAt a b c : M α) >>= f) :=
  fnat_throw_bind _ _
theorem fnat_panicAt {α : Type} (a b c : String) : FNat (panicAt a b c : M α) := fnat_throw _

theorem fnat_getS_bind {β : Type} {f : State → M β} (h : ∀ s, FNat (f s)) (hst : ∀ s b, f (sf b s) = f s) :
    FNat (getS >>= f) := by
  intro s b
  rw [bind_apply, bind_apply, getS_apply, getS_apply]
  show f (sf b s) (sf b s) = mapS (sf b) (f s s)
  rw [hst s b]
  exact h s s b

theorem fnat_ite {α : Type} {c : Prop} [Decidable c] {a b : M α} (ha : c → FNat a) (hb : ¬ c → FNat b) :
    FNat (if c then a else b) := by
  split
  · exact ha ‹_›
  · exact hb ‹_›

theorem fnat_sink (op : SinkOp) : FNat (sink op) := by
  intro s b
  rw [sink_apply, sink_apply]
  show (match s.dom.apply op with | .error e => _ | .ok (d, out) => _) = _
  cases s.dom.apply op with
  | error e => rfl
  | ok v => rfl

theorem fnat_sinkBool (op : SinkOp) : FNat (sinkBool op) := by
  unfold sinkBool
  refine fnat_bind (fnat_sink op) (fun o => ?_)
  split
  · exact fnat_pure _
  · exact fnat_throw (α := _) _

theorem fnat_elemName (h : Id) : FNat (elemName h) := by
  unfold elemName
  refine fnat_bind (fnat_sink _) (fun o => ?_)
  split
  · exact fnat_pure _
  · exact fnat_throw (α := _) _

syntax "f_lemma" : tactic
macro_rules | `(tactic| f_lemma) => `(tactic| with_reducible exact fnat_elemName _)
macro_rules | `(tactic| f_lemma) => `(tactic| with_reducible exact fnat_sinkBool _)
macro_rules | `(tactic| f_lemma) => `(tactic| with_reducible exact fnat_panicAt _ _ _)
macro_rules | `(tactic| f_lemma) => `(tactic| with_reducible exact fnat_throw _)
macro_rules | `(tactic| f_lemma) => `(tactic| with_reducible exact fnat_throw_bind _ _)
macro_rules | `(tactic| f_lemma) => `(tactic| with_reducible exact fnat_panicAt_bind _ _ _ _)
macro_rules | `(tactic| f_lemma) => `(tactic| with_reducible exact fnat_pure _)

macro "f_step" : tactic =>
  `(tactic| first
    | f_lemma
    | ((with_reducible refine fnat_getS_bind ?_ ?_); rotate_left; exact fun _ _ => rfl)
    | (with_reducible refine fnat_pure_bind ?_)
    | (with_reducible refine fnat_bind ?_ ?_)
    | (with_reducible intro _)
    | (with_reducible refine fnat_ite (fun _ => ?_) (fun _ => ?_))
    | split
    | assumption
    | (simp (config := { zeta := true }) only [pure_bind]))

macro "f_auto" : tactic => `(tactic| repeat' f_step)

theorem currentNode_f : FNat currentNode := by unfold currentNode; f_auto
macro_rules | `(tactic| f_lemma) => `(tactic| with_reducible exact currentNode_f)
theorem adjustedCurrentNode_f : FNat adjustedCurrentNode := by unfold adjustedCurrentNode; f_auto
macro_rules | `(tactic| f_lemma) => `(tactic| with_reducible exact adjustedCurrentNode_f)
theorem currentNodeIn_f (set : EName → Bool) : FNat (currentNodeIn set) := by unfold currentNodeIn; f_auto
theorem currentNodeNamedS_f (n : Str) : FNat (currentNodeNamedS n) := by
  unfold currentNodeNamedS htmlElemNamedS; f_auto
theorem isForeign_f (t : Token) : FNat (isForeign t) := by unfold isForeign; f_auto

/-- an answer at `sf b s` comes from the same answer at `s` -/
theorem FNat.back {α : Type} {m : M α} (h : FNat m) (hq : QResp m) {s : State} {b : Bool} {a : α} {s' : State}
    (hs : m (sf b s) = .ok (a, s')) : ∃ tr, m s = .ok (a, withTr s tr) := by
  rw [h s b] at hs
  rcases hq.run s with ⟨e, he⟩ | ⟨a', tr, ha⟩
  · rw [he] at hs; cases hs
  · rw [ha] at hs
    simp only [mapS, Except.ok.injEq, Prod.mk.injEq] at hs
    exact ⟨tr, by rw [ha, hs.1]⟩

theorem FNat.fwd {α : Type} {m : M α} (h : FNat m) {s : State} (b : Bool) {a : α} {tr : List (SinkOp × Output)}
    (hs : m s = .ok (a, withTr s tr)) : m (sf b s) = .ok (a, withTr (sf b s) tr) := by
  rw [h s b, hs]; rfl

/-- **transfer of an answer between states that agree up to the flag and up to `QSim`** -/
theorem answer_transfer {α : Type} {m : M α} (hf : FNat m) (hq : QResp m) {s u : State} {a : α}
    {tr : List (SinkOp × Output)} (hs : m s = .ok (a, withTr s tr)) (hsu : QSim (sf false s) (sf false u)) :
    ∃ tr', m u = .ok (a, withTr u tr') := by
  have h1 := hf.fwd false hs
  obtain ⟨tr2, h2⟩ := hq.transfer hsu h1
  exact hf.back hq h2

end H5V.Lemmas.TBSplit
