import H5V.Lemmas.HtmlTokResume
/-!
`step_resume` (all reading kinds assembled), preservation of the `Good` invariant, `step` respects
the dead-`current_char` simulation, and the run-level chunking theorem.
-/
namespace H5V.Model.HtmlTok

theorem Good.setIgnoreLf_false {m : Mach} (hg : Good m) : Good (m.setIgnoreLf false) where
  eatOk := fun _ hil => by simp at hil
  tagOpen := fun hs => by simpa using hg.tagOpen (by simpa using hs)
  unq := fun _ => by simp

theorem step_kind_bav (o : Opts) (pol : Pol) (m : Mach) (inp : Str)
    (hcr : m.charRef = none) (hrk : readKind m.state = .peekBav) :
    step o pol m inp = stepBav o pol m inp := by
  unfold step; simp only [hcr, hrk]

theorem step_kind_mdo (o : Opts) (pol : Pol) (m : Mach) (inp : Str)
    (hcr : m.charRef = none) (hrk : readKind m.state = .eatMdo) :
    step o pol m inp = stepMdo o pol m inp := by
  unfold step; simp only [hcr, hrk]

theorem step_kind_adn (o : Opts) (pol : Pol) (m : Mach) (inp : Str)
    (hcr : m.charRef = none) (hrk : readKind m.state = .eatAdn) :
    step o pol m inp = stepAdn o pol m inp := by
  unfold step; simp only [hcr, hrk]

theorem step_kind_charRef (o : Opts) (pol : Pol) (m : Mach) (inp : Str) (cr : CharRefSt)
    (hcr : m.charRef = some cr) : step o pol m inp = stepCharRef o m inp cr := by
  unfold step; simp only [hcr]

/-- the continuation of a `get_char!` state after its read -/
def contChar (o : Opts) (pol : Pol) (r : Option Char × Mach × Str) : R :=
  match r with
  | (none, m, inp) => .suspend m inp
  | (some c, m, inp) => ofSig (transChar o pol m c) inp

theorem step_getChar (o : Opts) (pol : Pol) (m : Mach) (inp : Str)
    (hcr : m.charRef = none) (hrk : readKind m.state = .getChar) :
    step o pol m inp = contChar o pol (getChar o m inp) := by
  cases hp : getChar o m inp with
  | mk a b =>
    obtain ⟨m1, i1⟩ := b
    cases a <;> simp [step, contChar, hcr, hrk, hp]

theorem readKind_mdo {s : State} (h : readKind s = .eatMdo) : s = .markupDeclarationOpen := by
  cases s <;> simp [readKind] at h ⊢
theorem readKind_adn {s : State} (h : readKind s = .eatAdn) : s = .afterDoctypeName := by
  cases s <;> simp [readKind] at h ⊢

/-- **`step` is resumable.** If a step asks for more input it has consumed everything available;
re-executing it from the suspended machine once `e` has arrived gives the same result as the step
on the concatenated input, up to a dead `current_char`; the invariant survives. -/
theorem step_resume (o : Opts) (pol : Pol) (m m' : Mach) (inp inp' e : Str)
    (hg : Good m) (hat : m.atEof = false)
    (h : step o pol m inp = .suspend m' inp') :
    inp' = [] ∧ RSim (step o pol m (inp ++ e)) (step o pol m' e) ∧ Good m' ∧ m'.atEof = false := by
  cases hcr : m.charRef with
  | some cr =>
    rw [step_kind_charRef o pol m inp cr hcr] at h
    obtain ⟨h1, h2, h3⟩ := stepCharRef_suspend o m m' inp inp' cr hcr h
    subst h1 h2 h3
    exact ⟨rfl, RSim.refl _, hg, hat⟩
  | none =>
    cases hrk : readKind m.state with
    | getChar =>
      rw [step_getChar o pol m inp hcr hrk] at h
      cases hgc : getChar o m inp with
      | mk c r =>
        obtain ⟨m1, i1⟩ := r
        rw [hgc] at h
        cases c with
        | some c => simp only [contChar, ofSig] at h; split at h <;> simp at h
        | none =>
          simp only [contChar, R.suspend.injEq] at h
          obtain ⟨h4, h5⟩ := h
          subst h4 h5
          obtain ⟨hi, hre⟩ := resume_getChar o pol m m1 inp i1 e hcr hrk hgc
          obtain ⟨_, _, h3⟩ := getChar_none o m m1 inp i1 hgc
          refine ⟨hi, RSim.of_eq hre.symm, ?_, ?_⟩
          · rcases h3 with ⟨_, h4⟩ | ⟨_, _, h4⟩ <;> subst h4
            · exact hg
            · exact hg.setIgnoreLf_false
          · rcases h3 with ⟨_, h4⟩ | ⟨_, _, h4⟩ <;> subst h4 <;> simp [hat]
    | popExcept =>
      rw [step_popExcept o pol m inp hcr hrk] at h
      cases hgc : popExceptFrom o (setOf m.state) m inp with
      | mk c r =>
        obtain ⟨m1, i1⟩ := r
        rw [hgc] at h
        cases c with
        | some c => simp only [contSet, ofSig] at h; split at h <;> simp at h
        | none =>
          simp only [contSet, R.suspend.injEq] at h
          obtain ⟨h4, h5⟩ := h
          subst h4 h5
          obtain ⟨hi, hre⟩ := resume_popExcept o pol m m1 inp i1 e hg hcr hrk hgc
          obtain ⟨_, _, h3⟩ := popExceptFrom_none o _ m m1 inp i1 hgc
          refine ⟨hi, hre, ?_, ?_⟩
          · rcases h3 with ⟨_, h4⟩ | ⟨_, _, h4⟩ <;> subst h4
            · exact hg
            · exact hg.setIgnoreLf_false
          · rcases h3 with ⟨_, h4⟩ | ⟨_, _, h4⟩ <;> subst h4 <;> simp [hat]
    | dataSimd =>
      rw [step_dataSimd o pol m inp hcr hrk] at h
      cases hgc : readData o m inp with
      | mk c r =>
        obtain ⟨m1, i1⟩ := r
        rw [hgc] at h
        cases c with
        | some c => simp only [contSet, ofSig] at h; split at h <;> simp at h
        | none =>
          simp only [contSet, R.suspend.injEq] at h
          obtain ⟨h4, h5⟩ := h
          subst h4 h5
          obtain ⟨hi, hre⟩ := resume_dataSimd o pol m m1 inp i1 e hcr hrk hgc
          obtain ⟨_, _, h3⟩ := readData_none o m m1 inp i1 hgc
          refine ⟨hi, hre, ?_, ?_⟩
          · rcases h3 with ⟨_, h4⟩ | ⟨_, _, h4⟩ <;> subst h4
            · exact hg
            · exact hg.setIgnoreLf_false
          · rcases h3 with ⟨_, h4⟩ | ⟨_, _, h4⟩ <;> subst h4 <;> simp [hat]
    | peekBav =>
      rw [step_kind_bav o pol m inp hcr hrk] at h
      obtain ⟨h1, h2, h3⟩ := stepBav_suspend o pol m m' inp inp' h
      subst h1 h2 h3
      exact ⟨rfl, RSim.refl _, hg, hat⟩
    | eatMdo =>
      rw [step_kind_mdo o pol m inp hcr hrk] at h
      have hst := readKind_mdo hrk
      obtain ⟨hi, hok, hre, hs', hc', ha'⟩ := resume_mdo o pol m m' inp inp' e (hg.eatOk (Or.inl hst)) hat h
      refine ⟨hi, ?_, ?_, by rw [ha', hat]⟩
      · rw [step_kind_mdo o pol m _ hcr hrk, step_kind_mdo o pol m' e (by rw [hc', hcr]) (by rw [hs', hrk])]
        exact RSim.of_eq hre.symm
      · exact ⟨fun _ => hok, fun hs => by rw [hs', hst] at hs; simp at hs,
          fun hs => by rw [hs', hst] at hs; simp at hs⟩
    | eatAdn =>
      rw [step_kind_adn o pol m inp hcr hrk] at h
      have hst := readKind_adn hrk
      obtain ⟨hi, hok, hre, hs', hc', ha'⟩ := resume_adn o pol m m' inp inp' e (hg.eatOk (Or.inr hst)) hat h
      refine ⟨hi, ?_, ?_, by rw [ha', hat]⟩
      · rw [step_kind_adn o pol m _ hcr hrk, step_kind_adn o pol m' e (by rw [hc', hcr]) (by rw [hs', hrk])]
        exact RSim.of_eq hre.symm
      · exact ⟨fun _ => hok, fun hs => by rw [hs', hst] at hs; simp at hs,
          fun hs => by rw [hs', hst] at hs; simp at hs⟩

/-! ### what the reader does to the machine registers -/

theorem foldChar_fields (o : Opts) (m : Mach) (c : Char) :
    (foldChar o m c).2.state = m.state ∧ (foldChar o m c).2.tempBuf = m.tempBuf ∧
    (foldChar o m c).2.reconsume = m.reconsume ∧ (foldChar o m c).2.charRef = m.charRef ∧
    (foldChar o m c).2.atEof = m.atEof ∧
    (foldChar o m c).2.ignoreLf = (if c = '\r' then true else m.ignoreLf) ∧
    (foldChar o m c).1 = (if c = '\r' then '\n' else c) := by
  unfold foldChar
  dsimp only
  by_cases h1 : c = '\r'
  · subst h1
    simp only [↓reduceIte]
    split <;> simp
  · simp only [h1, ↓reduceIte]
    split <;> split <;> simp

theorem preprocess_via_fold (o : Opts) (m m1 : Mach) (x c : Char) (xs i1 : Str)
    (h : preprocess o m x xs = (some c, m1, i1)) :
    ∃ m0 c0, m0.ignoreLf = false ∧ (m0 = m ∨ m0 = m.setIgnoreLf false) ∧
      c = (foldChar o m0 c0).1 ∧ m1 = (foldChar o m0 c0).2 := by
  unfold preprocess at h
  split at h
  · split at h
    · cases xs with
      | nil => simp at h
      | cons y ys =>
        simp only [Prod.mk.injEq, Option.some.injEq] at h
        exact ⟨m.setIgnoreLf false, y, by simp, Or.inr rfl, h.1.symm, h.2.1.symm⟩
    · simp only [Prod.mk.injEq, Option.some.injEq] at h
      exact ⟨m.setIgnoreLf false, x, by simp, Or.inr rfl, h.1.symm, h.2.1.symm⟩
  · rename_i hil
    simp only [Prod.mk.injEq, Option.some.injEq] at h
    exact ⟨m, x, by simpa using hil, Or.inl rfl, h.1.symm, h.2.1.symm⟩

/-- registers after a successful `get_char` -/
theorem getChar_fields (o : Opts) (m m1 : Mach) (inp i1 : Str) (c : Char)
    (h : getChar o m inp = (some c, m1, i1)) :
    m1.state = m.state ∧ m1.tempBuf = m.tempBuf ∧ m1.reconsume = false ∧ m1.charRef = m.charRef ∧
    m1.atEof = m.atEof ∧
    (m.reconsume = false → (m1.ignoreLf = true → c = '\n')) ∧
    (m.reconsume = true → m1.ignoreLf = m.ignoreLf) := by
  unfold getChar at h
  split at h
  · rename_i hr
    simp only [Prod.mk.injEq, Option.some.injEq] at h
    obtain ⟨_, h2, _⟩ := h
    subst h2
    simp [hr]
  · rename_i hr
    have hr' : m.reconsume = false := by simpa using hr
    cases inp with
    | nil => simp at h
    | cons x xs =>
      simp only at h
      obtain ⟨m0, c0, hil0, hm0, hc, hm1⟩ := preprocess_via_fold o m m1 x c xs i1 h
      have hf := foldChar_fields o m0 c0
      subst hc hm1
      rcases hm0 with hm0 | hm0 <;> subst hm0
      · refine ⟨hf.1, hf.2.1, by rw [hf.2.2.1, hr'], hf.2.2.2.1, hf.2.2.2.2.1, ?_, by simp [hr']⟩
        intro _ hil
        rw [hf.2.2.2.2.2.1] at hil
        rw [hf.2.2.2.2.2.2]
        split at hil
        · simp_all
        · rw [hil0] at hil; simp at hil
      · refine ⟨by simpa using hf.1, by simpa using hf.2.1, by simpa [hr'] using hf.2.2.1,
          by simpa using hf.2.2.2.1, by simpa using hf.2.2.2.2.1, ?_, by simp [hr']⟩
        intro _ hil
        rw [hf.2.2.2.2.2.1] at hil
        rw [hf.2.2.2.2.2.2]
        split at hil
        · simp_all
        · simp at hil

/-! ### the invariant `Good` is preserved by every step -/

/-- `m'` differs from `m` at most by cleared `ignore_lf` / `reconsume` flags (as far as `Good` can see) -/
def Weaker (m' m : Mach) : Prop :=
  m'.state = m.state ∧ m'.tempBuf = m.tempBuf ∧ (m'.ignoreLf = true → m.ignoreLf = true) ∧
  (m'.reconsume = true → m.reconsume = true) ∧ m'.atEof = m.atEof ∧ m'.charRef = m.charRef

theorem Weaker.refl (m : Mach) : Weaker m m := ⟨rfl, rfl, id, id, rfl, rfl⟩

theorem Weaker.trans {a b c : Mach} (h1 : Weaker a b) (h2 : Weaker b c) : Weaker a c :=
  ⟨h1.1.trans h2.1, h1.2.1.trans h2.2.1, fun h => h2.2.2.1 (h1.2.2.1 h), fun h => h2.2.2.2.1 (h1.2.2.2.1 h),
   h1.2.2.2.2.1.trans h2.2.2.2.2.1, h1.2.2.2.2.2.trans h2.2.2.2.2.2⟩

theorem Good.of_weaker {m' m : Mach} (hg : Good m) (hw : Weaker m' m) : Good m' where
  eatOk := fun hs hil => by
    rw [hw.2.1]; exact hg.eatOk (by rw [← hw.1]; exact hs) (hw.2.2.1 hil)
  tagOpen := fun hs => by
    cases hr : m'.reconsume with
    | false => rfl
    | true => have := hg.tagOpen (by rw [← hw.1]; exact hs); rw [hw.2.2.2.1 hr] at this; exact absurd this (by simp)
  unq := fun hs => by
    cases hi : m'.ignoreLf with
    | false => rfl
    | true => have := hg.unq (by rw [← hw.1]; exact hs); rw [hw.2.2.1 hi] at this; exact absurd this (by simp)

theorem discardChar_weaker (m : Mach) (inp : Str) : Weaker (discardChar m inp).1 m := by
  unfold discardChar
  split
  · exact ⟨by simp, by simp, by simp, by simp, by simp, by simp⟩
  · exact Weaker.refl m

theorem emitErr_weaker (m : Mach) (s : String) : Weaker (emitErr m s) m :=
  ⟨by simp, by simp, by simp, by simp, by simp, by simp⟩

theorem emit_weaker (m : Mach) (t : Token) : Weaker (emit m t) m :=
  ⟨by simp, by simp, by simp, by simp, by simp, by simp⟩

theorem nameErr_weaker (o : Opts) (m : Mach) (nb : Str) : Weaker (nameErr o m nb) m := by
  unfold nameErr; split
  · exact emit_weaker _ _
  · exact emitErr_weaker _ _

theorem finishNumeric_weaker (o : Opts) (m : Mach) (cr : CharRefSt) : Weaker (finishNumeric o m cr).1 m := by
  unfold finishNumeric
  dsimp only
  split
  · unfold numericErr
    split
    · exact emit_weaker _ _
    · exact emitErr_weaker _ _
  · exact Weaker.refl m

/-- the machine component of a char-ref step result -/
def CRRes.machWeaker (r : CRRes) (m : Mach) : Prop :=
  match r with
  | .error _ => True
  | .ok (m1, _, _, _) => Weaker m1 m

theorem unconsumeNumeric_weaker (m : Mach) (inp : Str) (cr : CharRefSt) :
    (unconsumeNumeric m inp cr).machWeaker m := by
  simp only [unconsumeNumeric, CRRes.machWeaker]; exact emitErr_weaker _ _

theorem finishNumericStatus_weaker (o : Opts) (m : Mach) (inp : Str) (cr : CharRefSt) :
    (finishNumericStatus o m inp cr).machWeaker m := by
  have := finishNumeric_weaker o m cr
  unfold finishNumericStatus
  split
  · rename_i heq; simp only [CRRes.machWeaker]; rw [heq] at this; exact this
  · simp [CRRes.machWeaker]

theorem namedDecision_weaker (m : Mach) (cr : CharRefSt) (nb : Str) (c1 c2 : Nat) (m1 : Mach) (chars : Str)
    (h : namedDecision m cr nb c1 c2 = .ok (some (m1, chars))) : Weaker m1 m := by
  unfold namedDecision at h
  dsimp only at h
  repeat' split at h
  all_goals
    first
      | (simp at h; done)
      | (simp only [Except.ok.injEq, Option.some.injEq, Prod.mk.injEq] at h
         obtain ⟨h1, _⟩ := h
         subst h1
         first
           | exact ⟨by simp, by simp, by simp, by simp, by simp, by simp⟩
           | skip)

theorem weaker_ite (c : Prop) [Decidable c] (a b m : Mach) (ha : Weaker a m) (hb : Weaker b m) :
    Weaker (if c then a else b) m := by
  split <;> assumption

theorem finishNumeric_weaker' (o : Opts) (x m' : Mach) (cr : CharRefSt) (r : Except String Char)
    (h : finishNumeric o x cr = (m', r)) : Weaker m' x := by
  have := finishNumeric_weaker o x cr
  rw [h] at this; exact this

/-- brute force: every machine a char-ref step can return is `Weaker` than the one it started from -/
theorem crStep_weaker (o : Opts) (m m1 : Mach) (inp i1 : Str) (cr cr1 : CharRefSt) (st : CRStatus)
    (h : crStep o m inp cr = .ok (m1, i1, cr1, st)) : Weaker m1 m := by
  unfold crStep unconsumeNumeric finishNumericStatus finishNamed at h
  dsimp only at h
  repeat' split at h
  all_goals
    first
      | (simp at h; done)
      | (simp only [Except.ok.injEq, Prod.mk.injEq] at h
         obtain ⟨h1, _⟩ := h
         subst h1
         first
           | exact Weaker.refl _
           | exact discardChar_weaker _ _
           | exact emitErr_weaker _ _
           | exact Weaker.trans (emitErr_weaker _ _) (discardChar_weaker _ _)
           | exact Weaker.trans (nameErr_weaker _ _ _) (discardChar_weaker _ _)
           | exact nameErr_weaker _ _ _
           | exact Weaker.trans (finishNumeric_weaker' _ _ _ _ _ (by assumption)) (discardChar_weaker _ _)
           | exact Weaker.trans (finishNumeric_weaker' _ _ _ _ _ (by assumption)) (emitErr_weaker _ _)
           | exact finishNumeric_weaker' _ _ _ _ _ (by assumption)
           | exact Weaker.trans (namedDecision_weaker _ _ _ _ _ _ _ (by assumption)) (discardChar_weaker _ _)
           | exact namedDecision_weaker _ _ _ _ _ _ _ (by assumption)
           | (apply weaker_ite <;> first | exact Weaker.refl _ | exact discardChar_weaker _ _ | exact nameErr_weaker _ _ _ | exact Weaker.trans (nameErr_weaker _ _ _) (discardChar_weaker _ _)))

/-- the machine in a step result -/
def R.mach? : R → Option Mach
  | .cont m _ | .suspend m _ | .script m _ | .indicator m _ => some m
  | .panic _ => none

theorem Good.of_fields {m' m : Mach} (hg : Good m) (h1 : m'.state = m.state) (h2 : m'.tempBuf = m.tempBuf)
    (h3 : m'.ignoreLf = true → m.ignoreLf = true) (h4 : m'.reconsume = true → m.reconsume = true) :
    Good m' where
  eatOk := fun hs hil => by
    rw [h2]; exact hg.eatOk (by rw [← h1]; exact hs) (h3 hil)
  tagOpen := fun hs => by
    cases hr : m'.reconsume with
    | false => rfl
    | true => have := hg.tagOpen (by rw [← h1]; exact hs); rw [h4 hr] at this; exact absurd this (by simp)
  unq := fun hs => by
    cases hi : m'.ignoreLf with
    | false => rfl
    | true => have := hg.unq (by rw [← h1]; exact hs); rw [h3 hi] at this; exact absurd this (by simp)

theorem foldl_emitChar_fields (chars : Str) (m : Mach) :
    (chars.foldl emitChar m).state = m.state ∧ (chars.foldl emitChar m).tempBuf = m.tempBuf ∧
    (chars.foldl emitChar m).ignoreLf = m.ignoreLf ∧ (chars.foldl emitChar m).reconsume = m.reconsume ∧
    (chars.foldl emitChar m).atEof = m.atEof := by
  induction chars generalizing m with
  | nil => simp
  | cons c cs ih => simp only [List.foldl_cons]; have := ih (emitChar m c); simp_all

theorem foldl_pushValue_fields (chars : Str) (m : Mach) :
    (chars.foldl (fun m c => pushValue c m) m).state = m.state ∧
    (chars.foldl (fun m c => pushValue c m) m).tempBuf = m.tempBuf ∧
    (chars.foldl (fun m c => pushValue c m) m).ignoreLf = m.ignoreLf ∧
    (chars.foldl (fun m c => pushValue c m) m).reconsume = m.reconsume ∧
    (chars.foldl (fun m c => pushValue c m) m).atEof = m.atEof := by
  induction chars generalizing m with
  | nil => simp
  | cons c cs ih => simp only [List.foldl_cons]; have := ih (pushValue c m); simp_all

theorem processCharRef_fields (m : Mach) (chars : Str) :
    (processCharRef m chars).1.state = m.state ∧ (processCharRef m chars).1.tempBuf = m.tempBuf ∧
    (processCharRef m chars).1.ignoreLf = m.ignoreLf ∧ (processCharRef m chars).1.reconsume = m.reconsume ∧
    (processCharRef m chars).1.atEof = m.atEof := by
  unfold processCharRef
  dsimp only
  split
  · exact foldl_emitChar_fields _ m
  · exact foldl_emitChar_fields _ m
  · exact foldl_pushValue_fields _ m
  · simp

theorem ofSig_mach (ms : Mach × Sig) (inp : Str) (m' : Mach) (h : (ofSig ms inp).mach? = some m') :
    m' = ms.1 := by
  unfold ofSig at h
  split at h <;> simp [R.mach?] at h <;> exact h.symm

theorem stepCharRef_good (o : Opts) (m : Mach) (inp : Str) (cr : CharRefSt) (hg : Good m)
    (m' : Mach) (h : (stepCharRef o m inp cr).mach? = some m') : Good m' ∧ m'.atEof = m.atEof := by
  unfold stepCharRef at h
  cases hc : crStep o m inp cr with
  | error x => rw [hc] at h; simp [R.mach?] at h
  | ok v =>
    obtain ⟨m1, i1, cr1, st⟩ := v
    have hw := crStep_weaker o m m1 inp i1 cr cr1 st hc
    rw [hc] at h
    cases st with
    | stuck =>
      simp only [R.mach?, Option.some.injEq] at h
      subst h
      exact ⟨hg.of_fields (by simp [hw.1]) (by simp [hw.2.1]) (by simpa using hw.2.2.1) (by simpa using hw.2.2.2.1),
        by simp [hw.2.2.2.2.1]⟩
    | progress =>
      simp only [R.mach?, Option.some.injEq] at h
      subst h
      exact ⟨hg.of_fields (by simp [hw.1]) (by simp [hw.2.1]) (by simpa using hw.2.2.1) (by simpa using hw.2.2.2.1),
        by simp [hw.2.2.2.2.1]⟩
    | done chars =>
      have := ofSig_mach _ _ _ h
      subst this
      have hp := processCharRef_fields m1 chars
      exact ⟨hg.of_fields (by simp [hp.1, hw.1]) (by simp [hp.2.1, hw.2.1])
        (by simp only [setCharRef_ignoreLf, hp.2.2.1]; exact hw.2.2.1)
        (by simp only [setCharRef_reconsume, hp.2.2.2.1]; exact hw.2.2.2.1),
        by simp [hp.2.2.2.2, hw.2.2.2.2.1]⟩

/-- registers after a successful `pop_except_from` / data-state read -/
def ReadOk (m m1 : Mach) (r : SetRes) : Prop :=
  m1.state = m.state ∧ m1.tempBuf = m.tempBuf ∧ m1.reconsume = false ∧ m1.charRef = m.charRef ∧
  m1.atEof = m.atEof ∧
  ((∃ b, r = .notFromSet b ∧ m1.ignoreLf = m.ignoreLf) ∨
   (∃ c, r = .fromSet c ∧ (m1.ignoreLf = true → c = '\n' ∨ m.ignoreLf = true)))

theorem readOk_of_getChar (o : Opts) (m m1 : Mach) (inp i1 : Str) (c : Char)
    (h : getChar o m inp = (some c, m1, i1)) : ReadOk m m1 (.fromSet c) := by
  obtain ⟨h1, h2, h3, h4, h5, h6, h7⟩ := getChar_fields o m m1 inp i1 c h
  refine ⟨h1, h2, h3, h4, h5, Or.inr ⟨c, rfl, ?_⟩⟩
  intro hil
  cases hr : m.reconsume with
  | false => exact Or.inl (h6 hr hil)
  | true => right; rw [← h7 hr]; exact hil

theorem popExceptFrom_fields (o : Opts) (S : List Char) (m m1 : Mach) (inp i1 : Str) (r : SetRes)
    (h : popExceptFrom o S m inp = (some r, m1, i1)) : ReadOk m m1 r := by
  unfold popExceptFrom at h
  split at h
  · cases hg : getChar o m inp with
    | mk c rest =>
      obtain ⟨m2, i2⟩ := rest
      rw [hg] at h
      cases c with
      | none => simp at h
      | some c =>
        simp only [Option.map_some, Prod.mk.injEq, Option.some.injEq] at h
        obtain ⟨h1, h2, _⟩ := h
        subst h1 h2
        exact readOk_of_getChar o m m2 inp i2 c hg
  · rename_i hs
    have hs' : o.exactErrors = false ∧ m.reconsume = false ∧ m.ignoreLf = false := by
      simpa [and_assoc] using hs
    cases inp with
    | nil => simp at h
    | cons x xs =>
      simp only at h
      split at h
      · -- via preprocess = get_char on a non-reconsuming machine
        have hg : getChar o m (x :: xs) = preprocess o m x xs := by
          unfold getChar; simp [hs'.2.1]
        cases hp : preprocess o m x xs with
        | mk c rest =>
          obtain ⟨m2, i2⟩ := rest
          rw [hp] at h hg
          cases c with
          | none => simp at h
          | some c =>
            simp only [Option.map_some, Prod.mk.injEq, Option.some.injEq] at h
            obtain ⟨h1, h2, _⟩ := h
            subst h1 h2
            exact readOk_of_getChar o m m2 (x :: xs) i2 c hg
      · simp only [Prod.mk.injEq, Option.some.injEq] at h
        obtain ⟨h1, h2, _⟩ := h
        subst h1 h2
        exact ⟨rfl, rfl, hs'.2.1, rfl, rfl, Or.inl ⟨_, rfl, rfl⟩⟩

theorem readData_fields (o : Opts) (m m1 : Mach) (inp i1 : Str) (r : SetRes)
    (h : readData o m inp = (some r, m1, i1)) : ReadOk m m1 r := by
  unfold readData at h
  split at h
  · exact popExceptFrom_fields o _ m m1 inp i1 r h
  · rename_i hs
    have hs' : o.exactErrors = false ∧ m.reconsume = false ∧ m.ignoreLf = false := by
      simpa [and_assoc] using hs
    cases inp with
    | nil => simp at h
    | cons x xs =>
      simp only at h
      split at h
      · exact popExceptFrom_fields o _ m m1 (x :: xs) i1 r h
      · simp only [Prod.mk.injEq, Option.some.injEq] at h
        obtain ⟨h1, h2, _⟩ := h
        subst h1 h2
        refine ⟨?_, ?_, ?_, ?_, ?_, Or.inl ⟨_, rfl, ?_⟩⟩ <;> (split <;> simp [hs'.2.1])

theorem readKind_state_facts {s : State} (h : readKind s = .popExcept ∨ readKind s = .dataSimd) :
    s ≠ .markupDeclarationOpen ∧ s ≠ .afterDoctypeName ∧ s ≠ .tagOpen := by
  cases s <;> simp [readKind] at h ⊢

/-- `Good` after a `pop_except_from`-kind step -/
theorem contSet_good (o : Opts) (pol : Pol) (m m1 : Mach) (r : SetRes) (i1 : Str)
    (hg : Good m) (hk : readKind m.state = .popExcept ∨ readKind m.state = .dataSimd)
    (hro : ReadOk m m1 r) (m' : Mach) (h : (ofSig (transSet o pol m1 r) i1).mach? = some m') :
    Good m' ∧ m'.atEof = m.atEof := by
  have hm' := ofSig_mach _ _ _ h
  subst hm'
  obtain ⟨h1, h2, h3, h4, h5, h6⟩ := hro
  have hsf := readKind_state_facts hk
  have hne := transSet_not_eat o pol m1 r (by rw [h1]; exact ⟨hsf.1, hsf.2.1⟩)
  refine ⟨⟨?_, ?_, ?_⟩, by rw [transSet_atEof, h5]⟩
  · intro hs; rcases hs with hs | hs
    · exact absurd hs hne.1
    · exact absurd hs hne.2
  · intro _; rw [transSet_reconsume, h3]
  · intro hs
    obtain ⟨hs1, hws⟩ := transSet_unq o pol m1 r hs
    rw [transSet_ignoreLf]
    have hmu : m.state = .attributeValue .unquoted := by rw [← h1]; exact hs1
    have hmil := hg.unq hmu
    rcases h6 with ⟨b, hb, hil⟩ | ⟨c, hc, hil⟩
    · rw [hil, hmil]
    · cases hx : m1.ignoreLf with
      | false => rfl
      | true =>
        rcases hil hx with hcn | hmt
        · have := hws c hc
          rw [hcn] at this
          exact absurd this (by decide)
        · rw [hmil] at hmt; exact absurd hmt (by simp)

/-- `Good` after a `get_char!`-kind step (also used for the tail of `after-doctype-name`) -/
theorem contChar_good (o : Opts) (pol : Pol) (m m1 : Mach) (c : Char) (inp i1 : Str)
    (hg : Good m) (hne : m.state ≠ .markupDeclarationOpen ∧ m.state ≠ .attributeValue .unquoted)
    (hadn : m.state = .afterDoctypeName → m.tempBuf = [])
    (hgc : getChar o m inp = (some c, m1, i1))
    (m' : Mach) (h : (ofSig (transChar o pol m1 c) i1).mach? = some m') :
    Good m' ∧ m'.atEof = m.atEof := by
  have hm' := ofSig_mach _ _ _ h
  subst hm'
  obtain ⟨h1, h2, h3, h4, h5, h6, h7⟩ := getChar_fields o m m1 inp i1 c hgc
  obtain ⟨e1, e2, e3, e4⟩ := transChar_enter o pol m1 c
  refine ⟨⟨?_, ?_, ?_⟩, by rw [transChar_atEof, h5]⟩
  · intro hs hil
    rcases hs with hs | hs
    · rcases e1 hs with ⟨hto, hc, htb, _⟩ | heq
      · -- entered from tagOpen on '!': the flag cannot be set after reading '!'
        exfalso
        rw [transChar_ignoreLf] at hil
        have hmr := hg.tagOpen (by rw [← h1]; exact hto)
        have := h6 hmr hil
        rw [hc] at this
        exact absurd this (by decide)
      · rw [heq] at hs; rw [h1] at hs; exact absurd hs hne.1
    · rcases e2 hs with ⟨_, htb⟩ | heq
      · rcases htb with htb | ⟨hst, htb⟩
        · exact htb
        · rw [htb, h2]; exact hadn (by rw [← h1]; exact hst)
      · rw [heq, h2]; rw [heq, h1] at hs; exact hadn hs
  · intro hs
    rw [e3 hs, h3]
  · intro hs
    have heq := e4 hs
    rw [heq, h1] at hs
    exact absurd hs hne.2

theorem readKind_getChar_facts {s : State} (h : readKind s = .getChar) :
    s ≠ .markupDeclarationOpen ∧ s ≠ .attributeValue .unquoted ∧ s ≠ .afterDoctypeName := by
  cases s <;> simp [readKind] at h ⊢
  all_goals (rename_i k; cases k <;> simp [readKind] at h)

/-- `Good` says nothing about states other than the four it mentions -/
theorem Good.of_state {m : Mach}
    (h : m.state ≠ .markupDeclarationOpen ∧ m.state ≠ .afterDoctypeName ∧ m.state ≠ .tagOpen ∧
      m.state ≠ .attributeValue .unquoted) : Good m where
  eatOk := fun hs => by rcases hs with hs | hs <;> simp_all
  tagOpen := fun hs => absurd hs h.2.2.1
  unq := fun hs => absurd hs h.2.2.2

theorem discardChar_fields (m : Mach) (inp : Str) :
    (discardChar m inp).1.state = m.state ∧ (discardChar m inp).1.atEof = m.atEof ∧
    (discardChar m inp).1.ignoreLf = m.ignoreLf := by
  unfold discardChar; split <;> simp

theorem readKind_bav {s : State} (h : readKind s = .peekBav) : s = .beforeAttributeValue := by
  cases s <;> simp [readKind] at h ⊢

theorem stepBav_good (o : Opts) (pol : Pol) (m : Mach) (inp : Str) (hg : Good m)
    (hs : m.state = .beforeAttributeValue)
    (m' : Mach) (h : (stepBav o pol m inp).mach? = some m') : Good m' ∧ m'.atEof = m.atEof := by
  have free : ∀ x : Mach, x.state = .beforeAttributeValue → Good x := fun x hx =>
    Good.of_state (by rw [hx]; simp)
  unfold stepBav at h
  cases hpk : peek m inp with
  | none =>
    simp only [hpk, R.mach?, Option.some.injEq] at h; subst h; exact ⟨hg, rfl⟩
  | some c =>
    simp only [hpk] at h
    have hm2 : (if m.ignoreLf = true then m.setIgnoreLf false else m).state = m.state ∧
        (if m.ignoreLf = true then m.setIgnoreLf false else m).atEof = m.atEof ∧
        (if m.ignoreLf = true then m.setIgnoreLf false else m).ignoreLf = false := by
      split
      · simp
      · rename_i hx; exact ⟨rfl, rfl, by simpa using hx⟩
    generalize (if m.ignoreLf = true then m.setIgnoreLf false else m) = m2 at h hm2
    obtain ⟨hst, hat, hil⟩ := hm2
    have hd := discardChar_fields m2 inp
    cases hsk : (m.ignoreLf && decide (c = '\n')) with
    | true =>
      simp only [hsk, ↓reduceIte, R.mach?, Option.some.injEq] at h
      subst h
      exact ⟨free _ (by rw [hd.1, hst, hs]), by rw [hd.2.1, hat]⟩
    | false =>
      simp only [hsk, Bool.false_eq_true, ↓reduceIte] at h
      cases hnl : (decide (c = '\n') || decide (c = '\r')) with
      | true =>
        simp only [hnl, ↓reduceIte] at h
        cases hgc : getChar o m2 inp with
        | mk c1 rest =>
          obtain ⟨m3, i3⟩ := rest
          rw [hgc] at h
          cases c1 with
          | none =>
            obtain ⟨_, _, g3⟩ := getChar_none o m2 m3 inp i3 hgc
            simp only [R.mach?, Option.some.injEq] at h
            subst h
            rcases g3 with ⟨_, g4⟩ | ⟨_, _, g4⟩ <;> subst g4
            · exact ⟨free _ (by rw [hst, hs]), hat⟩
            · exact ⟨free _ (by simp [hst, hs]), by simp [hat]⟩
          | some c1 =>
            obtain ⟨g1, _, _, _, g5, _, _⟩ := getChar_fields o m2 m3 inp i3 c1 hgc
            simp only [R.mach?, Option.some.injEq] at h
            subst h
            exact ⟨free _ (by rw [g1, hst, hs]), by rw [g5, hat]⟩
      | false =>
        simp only [hnl, Bool.false_eq_true, ↓reduceIte] at h
        split at h
        · simp only [R.mach?, Option.some.injEq] at h
          subst h
          exact ⟨free _ (by rw [hd.1, hst, hs]), by rw [hd.2.1, hat]⟩
        · split at h
          · simp only [R.mach?, Option.some.injEq] at h
            subst h
            exact ⟨Good.of_state (by simp), by simp [hd.2.1, hat]⟩
          · split at h
            · simp only [R.mach?, Option.some.injEq] at h
              subst h
              exact ⟨Good.of_state (by simp), by simp [hd.2.1, hat]⟩
            · split at h
              · have hm' := ofSig_mach _ _ _ h
                subst hm'
                have hss := emitTag_state pol .data (badChar o (discardChar m2 inp).1)
                have h1 := sinkState_data_not_eat hss
                have h2 := sinkState_data_not_unq hss
                exact ⟨Good.of_state ⟨h1.1, h1.2.1, h1.2.2, h2⟩, by simp [hd.2.1, hat]⟩
              · simp only [R.mach?, Option.some.injEq] at h
                subst h
                refine ⟨⟨?_, ?_, ?_⟩, by simp [hat]⟩
                · intro hx; simp at hx
                · intro hx; simp at hx
                · intro _; simp [hil]

theorem Good.of_eat_state {m : Mach}
    (hs : m.state = .markupDeclarationOpen ∨ m.state = .afterDoctypeName) (hok : EatOk m) : Good m where
  eatOk := fun _ => hok
  tagOpen := fun hx => by rcases hs with hs | hs <;> rw [hs] at hx <;> simp at hx
  unq := fun hx => by rcases hs with hs | hs <;> rw [hs] at hx <;> simp at hx

theorem stepMdo_good (o : Opts) (pol : Pol) (m : Mach) (inp : Str) (hg : Good m)
    (hs : m.state = .markupDeclarationOpen) (hat : m.atEof = false)
    (m' : Mach) (h : (stepMdo o pol m inp).mach? = some m') : Good m' ∧ m'.atEof = m.atEof := by
  have hok := hg.eatOk (Or.inl hs)
  cases hr : stepMdo o pol m inp with
  | suspend ms is =>
    rw [hr] at h
    simp only [R.mach?, Option.some.injEq] at h
    subst h
    obtain ⟨_, hok', _, hs', _, ha'⟩ := resume_mdo o pol m ms inp is [] hok hat hr
    exact ⟨Good.of_eat_state (Or.inl (by rw [hs', hs])) hok', ha'⟩
  | panic e => rw [hr] at h; simp [R.mach?] at h
  | script ms is =>
    exfalso
    unfold stepMdo at hr
    repeat' split at hr
    all_goals simp at hr
  | indicator ms is =>
    exfalso
    unfold stepMdo at hr
    repeat' split at hr
    all_goals simp at hr
  | cont ms is =>
    rw [hr] at h
    simp only [R.mach?, Option.some.injEq] at h
    subst h
    unfold stepMdo at hr
    cases h1 : eat m inp kwDashDash eqExact with
    | mk b1 r1 =>
      obtain ⟨m1, i1⟩ := r1
      have f1 := eat_fields m m1 inp i1 _ _ b1 h1
      rw [h1] at hr
      cases b1 with
      | none => simp at hr
      | some b1 =>
        cases b1 with
        | true =>
          simp only [R.cont.injEq] at hr
          rw [← hr.1]
          exact ⟨Good.of_state (by simp), by simp [f1.2.2]⟩
        | false =>
          simp only at hr
          cases h2 : eat m1 i1 kwDoctype eqCi with
          | mk b2 r2 =>
            obtain ⟨m2, i2⟩ := r2
            have f2 := eat_fields m1 m2 i1 i2 _ _ b2 h2
            rw [h2] at hr
            cases b2 with
            | none => simp at hr
            | some b2 =>
              cases b2 with
              | true =>
                simp only [R.cont.injEq] at hr
                rw [← hr.1]
                exact ⟨Good.of_state (by simp), by simp [f2.2.2, f1.2.2]⟩
              | false =>
                simp only at hr
                split at hr
                · cases h3 : eat m2 i2 kwCdata eqExact with
                  | mk b3 r3 =>
                    obtain ⟨m3, i3⟩ := r3
                    have f3 := eat_fields m2 m3 i2 i3 _ _ b3 h3
                    rw [h3] at hr
                    cases b3 with
                    | none => simp at hr
                    | some b3 =>
                      cases b3 <;>
                        (simp only [R.cont.injEq] at hr
                         rw [← hr.1]
                         exact ⟨Good.of_state (by simp), by simp [f3.2.2, f2.2.2, f1.2.2]⟩)
                · simp only [R.cont.injEq] at hr
                  rw [← hr.1]
                  exact ⟨Good.of_state (by simp), by simp [f2.2.2, f1.2.2]⟩

theorem stepAdn_good (o : Opts) (pol : Pol) (m : Mach) (inp : Str) (hg : Good m)
    (hs : m.state = .afterDoctypeName) (hat : m.atEof = false)
    (m' : Mach) (h : (stepAdn o pol m inp).mach? = some m') : Good m' ∧ m'.atEof = m.atEof := by
  have hok := hg.eatOk (Or.inr hs)
  cases hr : stepAdn o pol m inp with
  | suspend ms is =>
    rw [hr] at h
    simp only [R.mach?, Option.some.injEq] at h
    subst h
    obtain ⟨_, hok', _, hs', _, ha'⟩ := resume_adn o pol m ms inp is [] hok hat hr
    exact ⟨Good.of_eat_state (Or.inr (by rw [hs', hs])) hok', ha'⟩
  | panic e => rw [hr] at h; simp [R.mach?] at h
  | _ =>
    -- cont / script / indicator: either a keyword matched, or the get_char tail ran
    rw [hr] at h
    have hm' : (stepAdn o pol m inp).mach? = some m' := by rw [hr]; exact h
    clear h hr
    unfold stepAdn at hm'
    cases h1 : eat m inp kwPublic eqCi with
    | mk b1 r1 =>
      obtain ⟨m1, i1⟩ := r1
      have f1 := eat_fields m m1 inp i1 _ _ b1 h1
      rw [h1] at hm'
      cases b1 with
      | none =>
        simp only [R.mach?, Option.some.injEq] at hm'
        subst hm'
        obtain ⟨_, hok', _, _⟩ := eat_none m m1 inp i1 _ _ hok h1
        exact ⟨Good.of_eat_state (Or.inr (by rw [f1.1, hs])) hok', f1.2.2⟩
      | some b1 =>
        cases b1 with
        | true =>
          simp only [R.mach?, Option.some.injEq] at hm'
          subst hm'
          exact ⟨Good.of_state (by simp), by simp [f1.2.2]⟩
        | false =>
          simp only at hm'
          obtain ⟨hs1, _, hat1⟩ := eat_false_settled m m1 inp i1 _ _ hok kw_ne.2.2.2.1 hat h1
          cases h2 : eat m1 i1 kwSystem eqCi with
          | mk b2 r2 =>
            obtain ⟨m2, i2⟩ := r2
            have f2 := eat_fields m1 m2 i1 i2 _ _ b2 h2
            rw [h2] at hm'
            cases b2 with
            | none =>
              simp only [R.mach?, Option.some.injEq] at hm'
              subst hm'
              obtain ⟨_, hok', _, _⟩ := eat_none m1 m2 i1 i2 _ _ hs1.eatOk h2
              exact ⟨Good.of_eat_state (Or.inr (by rw [f2.1, f1.1, hs])) hok', by rw [f2.2.2, f1.2.2]⟩
            | some b2 =>
              cases b2 with
              | true =>
                simp only [R.mach?, Option.some.injEq] at hm'
                subst hm'
                exact ⟨Good.of_state (by simp), by simp [f2.2.2, f1.2.2]⟩
              | false =>
                simp only at hm'
                obtain ⟨hs2, _, hat2⟩ := eat_false_settled m1 m2 i1 i2 _ _ hs1.eatOk kw_ne.2.2.2.2 hat1 h2
                have hst2 : m2.state = .afterDoctypeName := by rw [f2.1, f1.1, hs]
                have hg2 : Good m2 := Good.of_eat_state (Or.inr hst2) hs2.eatOk
                cases hgc : getChar o m2 i2 with
                | mk c3 r3 =>
                  obtain ⟨m3, i3⟩ := r3
                  rw [hgc] at hm'
                  cases c3 with
                  | none =>
                    obtain ⟨_, _, g3⟩ := getChar_none o m2 m3 i2 i3 hgc
                    simp only [R.mach?, Option.some.injEq] at hm'
                    subst hm'
                    rcases g3 with ⟨_, g4⟩ | ⟨_, _, g4⟩ <;> subst g4
                    · exact ⟨hg2, by rw [f2.2.2, f1.2.2]⟩
                    · exact ⟨hg2.setIgnoreLf_false, by simp [f2.2.2, f1.2.2]⟩
                  | some c3 =>
                    have := contChar_good o pol m2 m3 c3 i2 i3 hg2 (by rw [hst2]; simp)
                      (fun _ => hs2.2) hgc m' hm'
                    exact ⟨this.1, by rw [this.2, f2.2.2, f1.2.2]⟩

/-- **every step preserves the invariant** (and never touches `at_eof`) -/
theorem step_good (o : Opts) (pol : Pol) (m : Mach) (inp : Str) (hg : Good m) (hat : m.atEof = false)
    (m' : Mach) (h : (step o pol m inp).mach? = some m') : Good m' ∧ m'.atEof = m.atEof := by
  cases hcr : m.charRef with
  | some cr =>
    rw [step_kind_charRef o pol m inp cr hcr] at h
    exact stepCharRef_good o m inp cr hg m' h
  | none =>
    cases hrk : readKind m.state with
    | getChar =>
      rw [step_getChar o pol m inp hcr hrk] at h
      have hf := readKind_getChar_facts hrk
      cases hgc : getChar o m inp with
      | mk c r =>
        obtain ⟨m1, i1⟩ := r
        rw [hgc] at h
        cases c with
        | none =>
          obtain ⟨_, _, g3⟩ := getChar_none o m m1 inp i1 hgc
          simp only [contChar, R.mach?, Option.some.injEq] at h
          subst h
          rcases g3 with ⟨_, g4⟩ | ⟨_, _, g4⟩ <;> subst g4
          · exact ⟨hg, rfl⟩
          · exact ⟨hg.setIgnoreLf_false, by simp⟩
        | some c =>
          exact contChar_good o pol m m1 c inp i1 hg ⟨hf.1, hf.2.1⟩ (fun hx => absurd hx hf.2.2) hgc m' h
    | popExcept =>
      rw [step_popExcept o pol m inp hcr hrk] at h
      cases hgc : popExceptFrom o (setOf m.state) m inp with
      | mk c r =>
        obtain ⟨m1, i1⟩ := r
        rw [hgc] at h
        cases c with
        | none =>
          obtain ⟨_, _, g3⟩ := popExceptFrom_none o _ m m1 inp i1 hgc
          simp only [contSet, R.mach?, Option.some.injEq] at h
          subst h
          rcases g3 with ⟨_, g4⟩ | ⟨_, _, g4⟩ <;> subst g4
          · exact ⟨hg, rfl⟩
          · exact ⟨hg.setIgnoreLf_false, by simp⟩
        | some c =>
          exact contSet_good o pol m m1 c i1 hg (Or.inl hrk) (popExceptFrom_fields o _ m m1 inp i1 c hgc) m' h
    | dataSimd =>
      rw [step_dataSimd o pol m inp hcr hrk] at h
      cases hgc : readData o m inp with
      | mk c r =>
        obtain ⟨m1, i1⟩ := r
        rw [hgc] at h
        cases c with
        | none =>
          obtain ⟨_, _, g3⟩ := readData_none o m m1 inp i1 hgc
          simp only [contSet, R.mach?, Option.some.injEq] at h
          subst h
          rcases g3 with ⟨_, g4⟩ | ⟨_, _, g4⟩ <;> subst g4
          · exact ⟨hg, rfl⟩
          · exact ⟨hg.setIgnoreLf_false, by simp⟩
        | some c =>
          exact contSet_good o pol m m1 c i1 hg (Or.inr hrk) (readData_fields o m m1 inp i1 c hgc) m' h
    | peekBav =>
      rw [step_kind_bav o pol m inp hcr hrk] at h
      exact stepBav_good o pol m inp hg (readKind_bav hrk) m' h
    | eatMdo =>
      rw [step_kind_mdo o pol m inp hcr hrk] at h
      exact stepMdo_good o pol m inp hg (readKind_mdo hrk) hat m' h
    | eatAdn =>
      rw [step_kind_adn o pol m inp hcr hrk] at h
      exact stepAdn_good o pol m inp hg (readKind_adn hrk) hat m' h

end H5V.Model.HtmlTok
