import H5V.Lemmas.HtmlTokResume
/-!
`step_resume` (all reading kinds assembled), preservation of the `Good` invariant, `step` respects
the dead-`current_char` simulation, and the run-level chunking theorem.
-/
namespace H5V.Model.HtmlTok

theorem Good.setIgnoreLf_false {m : Mach} (hg : Good m) : Good (m.setIgnoreLf false) where
  eatOk := fun _ hil => by simp at hil
  tagOpen := fun hs => by simpa using hg.tagOpen (by simpa using hs)
  unq := fun _ => by simp

theorem step_kind_bav (o : Opts) (pol : Pol) (m : Mach) (inp : Str)
    (hcr : m.charRef = none) (hrk : readKind m.state = .peekBav) :
    step o pol m inp = stepBav o pol m inp := by
  unfold step; simp only [hcr, hrk]

theorem step_kind_mdo (o : Opts) (pol : Pol) (m : Mach) (inp : Str)
    (hcr : m.charRef = none) (hrk : readKind m.state = .eatMdo) :
    step o pol m inp = stepMdo o pol m inp := by
  unfold step; simp only [hcr, hrk]

theorem step_kind_adn (o : Opts) (pol : Pol) (m : Mach) (inp : Str)
    (hcr : m.charRef = none) (hrk : readKind m.state = .eatAdn) :
    step o pol m inp = stepAdn o pol m inp := by
  unfold step; simp only [hcr, hrk]

theorem step_kind_charRef (o : Opts) (pol : Pol) (m : Mach) (inp : Str) (cr : CharRefSt)
    (hcr : m.charRef = some cr) : step o pol m inp = stepCharRef o m inp cr := by
  unfold step; simp only [hcr]

/-- the continuation of a `get_char!` state after its read -/
def contChar (o : Opts) (pol : Pol) (r : Option Char × Mach × Str) : R :=
  match r with
  | (none, m, inp) => .suspend m inp
  | (some c, m, inp) => ofSig (transChar o pol m c) inp

theorem step_getChar (o : Opts) (pol : Pol) (m : Mach) (inp : Str)
    (hcr : m.charRef = none) (hrk : readKind m.state = .getChar) :
    step o pol m inp = contChar o pol (getChar o m inp) := by
  cases hp : getChar o m inp with
  | mk a b =>
    obtain ⟨m1, i1⟩ := b
    cases a <;> simp [step, contChar, hcr, hrk, hp]

theorem readKind_mdo {s : State} (h : readKind s = .eatMdo) : s = .markupDeclarationOpen := by
  cases s <;> simp [readKind] at h ⊢
theorem readKind_adn {s : State} (h : readKind s = .eatAdn) : s = .afterDoctypeName := by
  cases s <;> simp [readKind] at h ⊢

/-- **`step` is resumable.** If a step asks for more input it has consumed everything available;
re-executing it from the suspended machine once `e` has arrived gives the same result as the step
on the concatenated input, up to a dead `current_char`; the invariant survives. -/
theorem step_resume (o : Opts) (pol : Pol) (m m' : Mach) (inp inp' e : Str)
    (hg : Good m) (hat : m.atEof = false)
    (h : step o pol m inp = .suspend m' inp') :
    inp' = [] ∧ RSim (step o pol m (inp ++ e)) (step o pol m' e) ∧ Good m' ∧ m'.atEof = false := by
  cases hcr : m.charRef with
  | some cr =>
    rw [step_kind_charRef o pol m inp cr hcr] at h
    obtain ⟨h1, h2, h3⟩ := stepCharRef_suspend o m m' inp inp' cr hcr h
    subst h1 h2 h3
    exact ⟨rfl, RSim.refl _, hg, hat⟩
  | none =>
    cases hrk : readKind m.state with
    | getChar =>
      rw [step_getChar o pol m inp hcr hrk] at h
      cases hgc : getChar o m inp with
      | mk c r =>
        obtain ⟨m1, i1⟩ := r
        rw [hgc] at h
        cases c with
        | some c => simp only [contChar, ofSig] at h; split at h <;> simp at h
        | none =>
          simp only [contChar, R.suspend.injEq] at h
          obtain ⟨h4, h5⟩ := h
          subst h4 h5
          obtain ⟨hi, hre⟩ := resume_getChar o pol m m1 inp i1 e hcr hrk hgc
          obtain ⟨_, _, h3⟩ := getChar_none o m m1 inp i1 hgc
          refine ⟨hi, RSim.of_eq hre.symm, ?_, ?_⟩
          · rcases h3 with ⟨_, h4⟩ | ⟨_, _, h4⟩ <;> subst h4
            · exact hg
            · exact hg.setIgnoreLf_false
          · rcases h3 with ⟨_, h4⟩ | ⟨_, _, h4⟩ <;> subst h4 <;> simp [hat]
    | popExcept =>
      rw [step_popExcept o pol m inp hcr hrk] at h
      cases hgc : popExceptFrom o (setOf m.state) m inp with
      | mk c r =>
        obtain ⟨m1, i1⟩ := r
        rw [hgc] at h
        cases c with
        | some c => simp only [contSet, ofSig] at h; split at h <;> simp at h
        | none =>
          simp only [contSet, R.suspend.injEq] at h
          obtain ⟨h4, h5⟩ := h
          subst h4 h5
          obtain ⟨hi, hre⟩ := resume_popExcept o pol m m1 inp i1 e hg hcr hrk hgc
          obtain ⟨_, _, h3⟩ := popExceptFrom_none o _ m m1 inp i1 hgc
          refine ⟨hi, hre, ?_, ?_⟩
          · rcases h3 with ⟨_, h4⟩ | ⟨_, _, h4⟩ <;> subst h4
            · exact hg
            · exact hg.setIgnoreLf_false
          · rcases h3 with ⟨_, h4⟩ | ⟨_, _, h4⟩ <;> subst h4 <;> simp [hat]
    | dataSimd =>
      rw [step_dataSimd o pol m inp hcr hrk] at h
      cases hgc : readData o m inp with
      | mk c r =>
        obtain ⟨m1, i1⟩ := r
        rw [hgc] at h
        cases c with
        | some c => simp only [contSet, ofSig] at h; split at h <;> simp at h
        | none =>
          simp only [contSet, R.suspend.injEq] at h
          obtain ⟨h4, h5⟩ := h
          subst h4 h5
          obtain ⟨hi, hre⟩ := resume_dataSimd o pol m m1 inp i1 e hcr hrk hgc
          obtain ⟨_, _, h3⟩ := readData_none o m m1 inp i1 hgc
          refine ⟨hi, hre, ?_, ?_⟩
          · rcases h3 with ⟨_, h4⟩ | ⟨_, _, h4⟩ <;> subst h4
            · exact hg
            · exact hg.setIgnoreLf_false
          · rcases h3 with ⟨_, h4⟩ | ⟨_, _, h4⟩ <;> subst h4 <;> simp [hat]
    | peekBav =>
      rw [step_kind_bav o pol m inp hcr hrk] at h
      obtain ⟨h1, h2, h3⟩ := stepBav_suspend o pol m m' inp inp' h
      subst h1 h2 h3
      exact ⟨rfl, RSim.refl _, hg, hat⟩
    | eatMdo =>
      rw [step_kind_mdo o pol m inp hcr hrk] at h
      have hst := readKind_mdo hrk
      obtain ⟨hi, hok, hre, hs', hc', ha'⟩ := resume_mdo o pol m m' inp inp' e (hg.eatOk (Or.inl hst)) hat h
      refine ⟨hi, ?_, ?_, by rw [ha', hat]⟩
      · rw [step_kind_mdo o pol m _ hcr hrk, step_kind_mdo o pol m' e (by rw [hc', hcr]) (by rw [hs', hrk])]
        exact RSim.of_eq hre.symm
      · exact ⟨fun _ => hok, fun hs => by rw [hs', hst] at hs; simp at hs,
          fun hs => by rw [hs', hst] at hs; simp at hs⟩
    | eatAdn =>
      rw [step_kind_adn o pol m inp hcr hrk] at h
      have hst := readKind_adn hrk
      obtain ⟨hi, hok, hre, hs', hc', ha'⟩ := resume_adn o pol m m' inp inp' e (hg.eatOk (Or.inr hst)) hat h
      refine ⟨hi, ?_, ?_, by rw [ha', hat]⟩
      · rw [step_kind_adn o pol m _ hcr hrk, step_kind_adn o pol m' e (by rw [hc', hcr]) (by rw [hs', hrk])]
        exact RSim.of_eq hre.symm
      · exact ⟨fun _ => hok, fun hs => by rw [hs', hst] at hs; simp at hs,
          fun hs => by rw [hs', hst] at hs; simp at hs⟩

end H5V.Model.HtmlTok
