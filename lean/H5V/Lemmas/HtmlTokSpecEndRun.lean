import H5V.Lemmas.HtmlTokSpecStepDefs
/-!
# C01 simulation — two facts about the model used at the end of a run

* `step_atEof`: a step never touches `at_eof` (no invariant needed);
* `suspend_clean`: with `at_eof` set and no character reference in progress, a step that asks for more
  input leaves no character reference in progress and nothing stashed.
-/
set_option linter.unusedSimpArgs false
namespace H5V.Lemmas.HtmlTokSpec
open H5V.Model.HtmlTok

/-! ## `at_eof` is never written by a step -/

theorem stepCharRef_atEof (o : Opts) (m : Mach) (inp : Str) (cr : CharRefSt)
    (m' : Mach) (h : (stepCharRef o m inp cr).mach? = some m') : m'.atEof = m.atEof := by
  unfold stepCharRef at h
  cases hc : crStep o m inp cr with
  | error x => rw [hc] at h; simp [R.mach?] at h
  | ok v =>
    obtain ⟨m1, i1, cr1, st⟩ := v
    have hw := crStep_weaker o m m1 inp i1 cr cr1 st hc
    rw [hc] at h
    cases st with
    | stuck =>
      simp only [R.mach?, Option.some.injEq] at h
      subst h
      simp [hw.2.2.2.2.1]
    | progress =>
      simp only [R.mach?, Option.some.injEq] at h
      subst h
      simp [hw.2.2.2.2.1]
    | done chars =>
      have := ofSig_mach _ _ _ h
      subst this
      have hp := processCharRef_fields m1 chars
      simp [hp.2.2.2.2, hw.2.2.2.2.1]

theorem getChar_atEof (o : Opts) (m : Mach) (inp : Str) (c : Option Char) (m1 : Mach) (i1 : Str)
    (h : getChar o m inp = (c, m1, i1)) : m1.atEof = m.atEof := by
  cases c with
  | none =>
    obtain ⟨_, _, g3⟩ := getChar_none o m m1 inp i1 h
    rcases g3 with ⟨_, g4⟩ | ⟨_, _, g4⟩ <;> subst g4 <;> simp
  | some c => exact (getChar_fields o m m1 inp i1 c h).2.2.2.2.1

theorem popExceptFrom_atEof (o : Opts) (S : List Char) (m : Mach) (inp : Str) (r : Option SetRes) (m1 : Mach)
    (i1 : Str) (h : popExceptFrom o S m inp = (r, m1, i1)) : m1.atEof = m.atEof := by
  cases r with
  | none =>
    obtain ⟨_, _, g3⟩ := popExceptFrom_none o S m m1 inp i1 h
    rcases g3 with ⟨_, g4⟩ | ⟨_, _, g4⟩ <;> subst g4 <;> simp
  | some r => exact (popExceptFrom_fields o S m m1 inp i1 r h).2.2.2.2.1

theorem readData_atEof (o : Opts) (m : Mach) (inp : Str) (r : Option SetRes) (m1 : Mach)
    (i1 : Str) (h : readData o m inp = (r, m1, i1)) : m1.atEof = m.atEof := by
  cases r with
  | none =>
    obtain ⟨_, _, g3⟩ := readData_none o m m1 inp i1 h
    rcases g3 with ⟨_, g4⟩ | ⟨_, _, g4⟩ <;> subst g4 <;> simp
  | some r => exact (readData_fields o m m1 inp i1 r h).2.2.2.2.1

theorem stepBav_atEof (o : Opts) (pol : Pol) (m : Mach) (inp : Str)
    (m' : Mach) (h : (stepBav o pol m inp).mach? = some m') : m'.atEof = m.atEof := by
  unfold stepBav at h
  cases hpk : peek m inp with
  | none =>
    simp only [hpk, R.mach?, Option.some.injEq] at h; subst h; rfl
  | some c =>
    simp only [hpk] at h
    have hm2 : (if m.ignoreLf = true then m.setIgnoreLf false else m).atEof = m.atEof := by
      split <;> simp
    generalize (if m.ignoreLf = true then m.setIgnoreLf false else m) = m2 at h hm2
    have hd := (discardChar_fields m2 inp).2.1
    repeat' split at h
    all_goals
      first
        | (simp only [R.mach?, Option.some.injEq] at h
           subst h
           first
             | (simp [hd, hm2]; done)
             | (rename_i hgc; rw [getChar_atEof o m2 inp _ _ _ hgc, hm2]))
        | (have := ofSig_mach _ _ _ h
           subst this
           simp [hd, hm2])

theorem stepMdo_atEof (o : Opts) (pol : Pol) (m : Mach) (inp : Str)
    (m' : Mach) (h : (stepMdo o pol m inp).mach? = some m') : m'.atEof = m.atEof := by
  unfold stepMdo at h
  cases h1 : eat m inp kwDashDash eqExact with
  | mk b1 r1 =>
    obtain ⟨m1, i1⟩ := r1
    have f1 := (eat_fields m m1 inp i1 _ _ b1 h1).2.2
    cases h2 : eat m1 i1 kwDoctype eqCi with
    | mk b2 r2 =>
      obtain ⟨m2, i2⟩ := r2
      have f2 := (eat_fields m1 m2 i1 i2 _ _ b2 h2).2.2
      cases h3 : eat m2 i2 kwCdata eqExact with
      | mk b3 r3 =>
        obtain ⟨m3, i3⟩ := r3
        have f3 := (eat_fields m2 m3 i2 i3 _ _ b3 h3).2.2
        repeat' split at h
        all_goals
          (simp only [R.mach?, Option.some.injEq] at h
           subst h
           simp_all)

theorem stepAdn_atEof (o : Opts) (pol : Pol) (m : Mach) (inp : Str)
    (m' : Mach) (h : (stepAdn o pol m inp).mach? = some m') : m'.atEof = m.atEof := by
  unfold stepAdn at h
  cases h1 : eat m inp kwPublic eqCi with
  | mk b1 r1 =>
    obtain ⟨m1, i1⟩ := r1
    have f1 := (eat_fields m m1 inp i1 _ _ b1 h1).2.2
    rw [h1] at h
    cases b1 with
    | none => simp only [R.mach?, Option.some.injEq] at h; rw [← h, f1]
    | some b1 =>
      cases b1 with
      | true => simp only [R.mach?, Option.some.injEq] at h; rw [← h]; simp [f1]
      | false =>
        dsimp only at h
        cases h2 : eat m1 i1 kwSystem eqCi with
        | mk b2 r2 =>
          obtain ⟨m2, i2⟩ := r2
          have f2 := (eat_fields m1 m2 i1 i2 _ _ b2 h2).2.2
          rw [h2] at h
          cases b2 with
          | none => simp only [R.mach?, Option.some.injEq] at h; rw [← h, f2, f1]
          | some b2 =>
            cases b2 with
            | true => simp only [R.mach?, Option.some.injEq] at h; rw [← h]; simp [f2, f1]
            | false =>
              dsimp only at h
              cases hgc : getChar o m2 i2 with
              | mk c3 r3 =>
                obtain ⟨m3, i3⟩ := r3
                have g := getChar_atEof o m2 i2 c3 m3 i3 hgc
                rw [hgc] at h
                cases c3 with
                | none =>
                  simp only [R.mach?, Option.some.injEq] at h
                  rw [← h, g, f2, f1]
                | some c3 =>
                  have := ofSig_mach _ _ _ h
                  subst this
                  rw [transChar_atEof, g, f2, f1]

theorem step_atEof_mach (o : Opts) (pol : Pol) (m : Mach) (inp : Str) (m' : Mach)
    (h : (step o pol m inp).mach? = some m') : m'.atEof = m.atEof := by
  cases hcr : m.charRef with
  | some cr =>
    rw [step_kind_charRef o pol m inp cr hcr] at h
    exact stepCharRef_atEof o m inp cr m' h
  | none =>
    cases hrk : readKind m.state with
    | getChar =>
      rw [step_getChar o pol m inp hcr hrk] at h
      cases hgc : getChar o m inp with
      | mk c r =>
        obtain ⟨m1, i1⟩ := r
        have g := getChar_atEof o m inp c m1 i1 hgc
        rw [hgc] at h
        cases c with
        | none =>
          simp only [contChar, R.mach?, Option.some.injEq] at h
          rw [← h, g]
        | some c =>
          have := ofSig_mach _ _ _ h
          subst this
          rw [transChar_atEof, g]
    | popExcept =>
      rw [step_popExcept o pol m inp hcr hrk] at h
      cases hgc : popExceptFrom o (setOf m.state) m inp with
      | mk c r =>
        obtain ⟨m1, i1⟩ := r
        have g := popExceptFrom_atEof o _ m inp c m1 i1 hgc
        rw [hgc] at h
        cases c with
        | none =>
          simp only [contSet, R.mach?, Option.some.injEq] at h
          rw [← h, g]
        | some c =>
          have := ofSig_mach _ _ _ h
          subst this
          rw [transSet_atEof, g]
    | dataSimd =>
      rw [step_dataSimd o pol m inp hcr hrk] at h
      cases hgc : readData o m inp with
      | mk c r =>
        obtain ⟨m1, i1⟩ := r
        have g := readData_atEof o m inp c m1 i1 hgc
        rw [hgc] at h
        cases c with
        | none =>
          simp only [contSet, R.mach?, Option.some.injEq] at h
          rw [← h, g]
        | some c =>
          have := ofSig_mach _ _ _ h
          subst this
          rw [transSet_atEof, g]
    | peekBav =>
      rw [step_kind_bav o pol m inp hcr hrk] at h
      exact stepBav_atEof o pol m inp m' h
    | eatMdo =>
      rw [step_kind_mdo o pol m inp hcr hrk] at h
      exact stepMdo_atEof o pol m inp m' h
    | eatAdn =>
      rw [step_kind_adn o pol m inp hcr hrk] at h
      exact stepAdn_atEof o pol m inp m' h

/-- a step never touches `at_eof` -/
theorem step_atEof (o : Opts) (pol : Pol) (m : Mach) (inp : Str) (m' : Mach) (i' : Str)
    (h : (step o pol m inp).pair? = some (m', i')) : m'.atEof = m.atEof :=
  step_atEof_mach o pol m inp m' (pair_mach _ _ _ h)

/-! ## a suspension at the end of the input leaves nothing behind -/

theorem eatSkipLf_atEof (m : Mach) (inp : Str) : (eatSkipLf m inp).1.atEof = m.atEof := by
  unfold eatSkipLf discardChar
  repeat' split
  all_goals simp

/-- with `at_eof` set `eat` always answers, and the answer leaves `temp_buf` empty -/
theorem eat_atEof_some (m m1 : Mach) (inp i1 pat : Str) (eq : Char → Char → Bool) (b : Option Bool)
    (hat : m.atEof = true) (h : eat m inp pat eq = (b, m1, i1)) :
    (∃ b', b = some b') ∧ m1.tempBuf = [] := by
  rw [eat_eq_core] at h
  unfold eatCore at h
  have hsk := eatSkipLf_atEof m inp
  rw [hat] at hsk
  repeat' split at h
  all_goals
    (simp only [Prod.mk.injEq] at h
     obtain ⟨h1, h2, _⟩ := h
     subst h1 h2
     first
       | exact ⟨⟨_, rfl⟩, by simp⟩
       | (exfalso; simp_all))

theorem stepMdo_not_suspend (o : Opts) (pol : Pol) (m : Mach) (inp : Str) (hat : m.atEof = true)
    (m' : Mach) (i' : Str) : stepMdo o pol m inp ≠ .suspend m' i' := by
  intro h
  unfold stepMdo at h
  cases h1 : eat m inp kwDashDash eqExact with
  | mk b1 r1 =>
    obtain ⟨m1, i1⟩ := r1
    have f1 := (eat_fields m m1 inp i1 _ _ b1 h1).2.2
    obtain ⟨⟨b1', e1⟩, _⟩ := eat_atEof_some m m1 inp i1 _ _ b1 hat h1
    subst e1
    rw [h1] at h
    cases b1' with
    | true => simp at h
    | false =>
      dsimp only at h
      have hat1 : m1.atEof = true := by rw [f1, hat]
      cases h2 : eat m1 i1 kwDoctype eqCi with
      | mk b2 r2 =>
        obtain ⟨m2, i2⟩ := r2
        have f2 := (eat_fields m1 m2 i1 i2 _ _ b2 h2).2.2
        obtain ⟨⟨b2', e2⟩, _⟩ := eat_atEof_some m1 m2 i1 i2 _ _ b2 hat1 h2
        subst e2
        rw [h2] at h
        cases b2' with
        | true => simp at h
        | false =>
          dsimp only at h
          have hat2 : m2.atEof = true := by rw [f2, hat1]
          split at h
          · cases h3 : eat m2 i2 kwCdata eqExact with
            | mk b3 r3 =>
              obtain ⟨m3, i3⟩ := r3
              obtain ⟨⟨b3', e3⟩, _⟩ := eat_atEof_some m2 m3 i2 i3 _ _ b3 hat2 h3
              subst e3
              rw [h3] at h
              cases b3' <;> simp at h
          · simp at h

theorem stepAdn_suspend_clean (o : Opts) (pol : Pol) (m : Mach) (inp : Str) (hat : m.atEof = true)
    (m' : Mach) (i' : Str) (h : stepAdn o pol m inp = .suspend m' i') :
    m'.tempBuf = [] ∧ m'.charRef = m.charRef := by
  unfold stepAdn at h
  cases h1 : eat m inp kwPublic eqCi with
  | mk b1 r1 =>
    obtain ⟨m1, i1⟩ := r1
    have f1 := eat_fields m m1 inp i1 _ _ b1 h1
    obtain ⟨⟨b1', e1⟩, _⟩ := eat_atEof_some m m1 inp i1 _ _ b1 hat h1
    subst e1
    rw [h1] at h
    cases b1' with
    | true => simp at h
    | false =>
      dsimp only at h
      have hat1 : m1.atEof = true := by rw [f1.2.2, hat]
      cases h2 : eat m1 i1 kwSystem eqCi with
      | mk b2 r2 =>
        obtain ⟨m2, i2⟩ := r2
        have f2 := eat_fields m1 m2 i1 i2 _ _ b2 h2
        obtain ⟨⟨b2', e2⟩, htb⟩ := eat_atEof_some m1 m2 i1 i2 _ _ b2 hat1 h2
        subst e2
        rw [h2] at h
        cases b2' with
        | true => simp at h
        | false =>
          dsimp only at h
          cases hgc : getChar o m2 i2 with
          | mk c3 r3 =>
            obtain ⟨m3, i3⟩ := r3
            rw [hgc] at h
            cases c3 with
            | some c3 =>
              simp only [ofSig] at h
              split at h <;> simp at h
            | none =>
              simp only [R.suspend.injEq] at h
              obtain ⟨e1, _⟩ := h
              subst e1
              obtain ⟨_, _, g3⟩ := getChar_none o m2 m3 i2 i3 hgc
              rcases g3 with ⟨_, g4⟩ | ⟨_, _, g4⟩ <;> subst g4
              · exact ⟨htb, by rw [f2.2.1, f1.2.1]⟩
              · exact ⟨by simpa using htb, by simp [f2.2.1, f1.2.1]⟩

/-- with `at_eof` set and no character reference in progress, a step that asks for more input leaves
no character reference in progress and nothing stashed -/
theorem suspend_clean (o : Opts) (pol : Pol) (m : Mach) (inp : Str) (hi : TInv m) (hcr : m.charRef = none)
    (hat : m.atEof = true) (m' : Mach) (i' : Str) (h : step o pol m inp = .suspend m' i') :
    m'.charRef = none ∧ stash m' = [] := by
  -- a read that finds nothing changes `ignore_lf` only
  have key : ∀ m1 : Mach, (m1 = m ∨ m1 = m.setIgnoreLf false) → m.state ≠ .markupDeclarationOpen →
      m.state ≠ .afterDoctypeName → m1.charRef = none ∧ stash m1 = [] := by
    intro m1 hm1 n1 n2
    rcases hm1 with e | e <;> subst e
    · exact ⟨hcr, stash_plain hcr n1 n2⟩
    · exact ⟨by simpa using hcr, stash_plain (by simpa using hcr) (by simpa using n1) (by simpa using n2)⟩
  cases hrk : readKind m.state with
  | getChar =>
    have hf := readKind_getChar_facts hrk
    rw [step_getChar o pol m inp hcr hrk] at h
    cases hgc : getChar o m inp with
    | mk c r =>
      obtain ⟨m1, i1⟩ := r
      rw [hgc] at h
      cases c with
      | some c => simp only [contChar, ofSig] at h; split at h <;> simp at h
      | none =>
        simp only [contChar, R.suspend.injEq] at h
        obtain ⟨e1, _⟩ := h
        subst e1
        obtain ⟨_, _, g3⟩ := getChar_none o m m1 inp i1 hgc
        exact key m1 (by rcases g3 with ⟨_, g4⟩ | ⟨_, _, g4⟩ <;> simp [g4]) hf.1 hf.2.2
  | popExcept =>
    have hf := readKind_state_facts (Or.inl hrk)
    rw [step_popExcept o pol m inp hcr hrk] at h
    cases hgc : popExceptFrom o (setOf m.state) m inp with
    | mk c r =>
      obtain ⟨m1, i1⟩ := r
      rw [hgc] at h
      cases c with
      | some c => simp only [contSet, ofSig] at h; split at h <;> simp at h
      | none =>
        simp only [contSet, R.suspend.injEq] at h
        obtain ⟨e1, _⟩ := h
        subst e1
        obtain ⟨_, _, g3⟩ := popExceptFrom_none o _ m m1 inp i1 hgc
        exact key m1 (by rcases g3 with ⟨_, g4⟩ | ⟨_, _, g4⟩ <;> simp [g4]) hf.1 hf.2.1
  | dataSimd =>
    have hf := readKind_state_facts (Or.inr hrk)
    rw [step_dataSimd o pol m inp hcr hrk] at h
    cases hgc : readData o m inp with
    | mk c r =>
      obtain ⟨m1, i1⟩ := r
      rw [hgc] at h
      cases c with
      | some c => simp only [contSet, ofSig] at h; split at h <;> simp at h
      | none =>
        simp only [contSet, R.suspend.injEq] at h
        obtain ⟨e1, _⟩ := h
        subst e1
        obtain ⟨_, _, g3⟩ := readData_none o m m1 inp i1 hgc
        exact key m1 (by rcases g3 with ⟨_, g4⟩ | ⟨_, _, g4⟩ <;> simp [g4]) hf.1 hf.2.1
  | peekBav =>
    rw [step_kind_bav o pol m inp hcr hrk] at h
    have hs := readKind_bav hrk
    obtain ⟨e1, _, _⟩ := stepBav_suspend o pol m m' inp i' h
    exact key m' (Or.inl e1) (by rw [hs]; simp) (by rw [hs]; simp)
  | eatMdo =>
    rw [step_kind_mdo o pol m inp hcr hrk] at h
    exact absurd h (stepMdo_not_suspend o pol m inp hat m' i')
  | eatAdn =>
    rw [step_kind_adn o pol m inp hcr hrk] at h
    obtain ⟨h1, h2⟩ := stepAdn_suspend_clean o pol m inp hat m' i' h
    have hc' : m'.charRef = none := by rw [h2, hcr]
    exact ⟨hc', stash_nil_of hc' (fun _ => h1)⟩

end H5V.Lemmas.HtmlTokSpec
