import H5V.Lemmas.HtmlTBContractIns
import H5V.Lemmas.HtmlTBContractRules0
/-!
# TreeSink contract for the HTML tree builder, part 6: the Initial insertion mode

In the Initial mode nothing but comments has been appended to the document and no element or doctype
node exists in the arena (`CI0.pristine`) — which is what the contract of
`append_doctype_to_document` asks for ("at most once and before any element").
-/
namespace H5V.Lemmas.TBC
open H5V.Model.HtmlTB
open H5V.Model.Dom (Id QualName Attr NodeOrText SinkOp Output ElementFlags QuirksMode Dom NodeData Node Contract)
open H5V.Lemmas.Dom
open H5V.Props.C20 (Inv Run)
open H5V.Lemmas.TBSafe (IsEl nm sigOf Ext apply_ext)

variable {d0 : Dom}

/-- the invariant of the Initial mode (document parsing only) -/
structure CI0 (d0 : Dom) (s : State) : Prop where
  d : DomI d0 s
  mode : s.mode = .initial
  st : s.openElems = []
  af : s.activeFormatting = []
  head : s.headElem = none
  form : s.formElem = none
  ctx : s.contextElem = none
  docH : s.docHandle = 0
  doc0 : s.dom.dataOf 0 = some .document
  orig : s.origMode = none
  tm : s.templateModes = []
  pristine : ∀ x, s.dom.isElement x = false ∧ s.dom.isDoctype x = false

/-- leaving the Initial mode -/
theorem CI0.toCB {s : State} (h : CI0 d0 s) {m : Mode} (hm : m ≠ .initial) :
    CB d0 { s with mode := m } ∧ SAnc ({ s with mode := m } : State).dom ({ s with mode := m } : State).openElems := by
  refine ⟨⟨⟨h.d.inv, h.d.run⟩, ⟨h.docH, h.doc0, ?_, ?_, ?_, ?_, ?_, ?_, ?_⟩, ⟨hm, ?_, ?_⟩⟩, ?_⟩
  · show ∀ x ∈ s.openElems, _; rw [h.st]; intro x hx; cases hx
  · show ∀ x ∈ s.openElems, _; rw [h.st]; intro x hx; cases hx
  · show ∀ x t, _ ∈ s.activeFormatting → _; rw [h.af]; intro x t hx; cases hx
  · show ∀ x, s.headElem = some x → _; rw [h.head]; intro x hx; cases hx
  · show ∀ x, s.formElem = some x → _; rw [h.form]; intro x hx; cases hx
  · show ∀ x, s.contextElem = some x → _; rw [h.ctx]; intro x hx; cases hx
  · show ∀ x, s.headElem = some x → _; rw [h.head]; intro x hx; cases hx
  · show s.origMode ≠ _; rw [h.orig]; intro e; cases e
  · show _ ∉ s.templateModes; rw [h.tm]; intro e; cases e
  · show SAnc s.dom s.openElems; rw [h.st]; exact List.Pairwise.nil

/-- a sink call in the Initial mode that keeps the arena free of elements and doctypes -/
theorem CI0.sink {s : State} (h : CI0 d0 s) {op : SinkOp} (hc : Contract s.dom op)
    (hp : ∀ d' out, s.dom.apply op = .ok (d', out) →
      (∀ x, d'.isElement x = false ∧ d'.isDoctype x = false)) :
    SatC (sink op) s (fun _ s' => CI0 d0 s') := by
  refine satc_sink h.d hc ?_
  intro d' out ha hd
  exact ⟨hd, h.mode, h.st, h.af, h.head, h.form, h.ctx, h.docH, isDoc_kext (apply_kext ha) h.doc0, h.orig, h.tm,
    hp d' out ha⟩

theorem pristine_of_nodes {d d' : Dom} (hn : d'.nodes = d.nodes)
    (h : ∀ x, d.isElement x = false ∧ d.isDoctype x = false) :
    ∀ x, d'.isElement x = false ∧ d'.isDoctype x = false := by
  intro x
  have hd : d'.dataOf x = d.dataOf x := by simp [Dom.dataOf, hn]
  unfold Dom.isElement Dom.isDoctype at *
  rw [hd]; exact h x

theorem CI0.parseError {s : State} (h : CI0 d0 s) {msg : String} :
    SatC (H5V.Model.HtmlTB.parseError msg) s (fun _ s' => CI0 d0 s') := by
  unfold H5V.Model.HtmlTB.parseError sinkUnit
  refine (h.sink (op := .parseError msg.toList) rfl ?_).bind (fun _ _ h' => satc_pure h')
  intro d' out ha
  rw [TBSafe.apply_parseError] at ha; cases ha
  exact pristine_of_nodes rfl h.pristine

theorem CI0.setQuirks {s : State} (h : CI0 d0 s) {m : QuirksMode} :
    SatC (H5V.Model.HtmlTB.setQuirksMode m) s (fun _ s' => CI0 d0 s') := by
  unfold H5V.Model.HtmlTB.setQuirksMode
  refine satc_modS_bind ?_
  have h1 : CI0 d0 { s with quirksMode := m } :=
    ⟨⟨h.d.inv, h.d.run⟩, h.mode, h.st, h.af, h.head, h.form, h.ctx, h.docH, h.doc0, h.orig, h.tm, h.pristine⟩
  unfold sinkUnit
  refine (h1.sink (op := .setQuirksMode m) rfl ?_).bind (fun _ _ h' => satc_pure h')
  intro d' out ha
  rw [TBSafe.apply_setQuirks] at ha; cases ha
  exact pristine_of_nodes rfl h.pristine

theorem CI0.setLine {s : State} (h : CI0 d0 s) {n : Nat} :
    SatC (sinkUnit (.setCurrentLine n)) s (fun _ s' => CI0 d0 s') := by
  unfold sinkUnit
  refine (h.sink (op := .setCurrentLine n) rfl ?_).bind (fun _ _ h' => satc_pure h')
  intro d' out ha
  rw [TBSafe.apply_setLine] at ha; cases ha
  exact h.pristine

theorem pristine_alloc_comment {d : Dom} {t : Str} (h : ∀ x, d.isElement x = false ∧ d.isDoctype x = false) :
    ∀ x, (d.alloc (.comment t)).1.isElement x = false ∧ (d.alloc (.comment t)).1.isDoctype x = false := by
  intro x
  unfold Dom.isElement Dom.isDoctype at *
  rw [dataOf_alloc]
  by_cases hx : x = d.size
  · simp [hx]
  · simp only [hx, if_false]; exact h x

theorem pristine_of_data {d d' : Dom} (hd : ∀ x, d'.dataOf x = d.dataOf x)
    (h : ∀ x, d.isElement x = false ∧ d.isDoctype x = false) :
    ∀ x, d'.isElement x = false ∧ d'.isDoctype x = false := by
  intro x
  unfold Dom.isElement Dom.isDoctype at *
  rw [hd]; exact h x

/-- a comment in the Initial mode: `append_comment_to_doc` -/
theorem CI0.appendCommentToDoc {s : State} (h : CI0 d0 s) {text : Str} :
    SatC (H5V.Model.HtmlTB.appendCommentToDoc text) s (fun res s' => res = .done ∧ CI0 d0 s') := by
  unfold H5V.Model.HtmlTB.appendCommentToDoc sinkNode
  -- create the comment
  refine SatC.bind (Q := fun c s1 => CI0 d0 s1 ∧ FreshNode s1.dom c ∧ c ≠ 0) ?_ ?_
  · refine SatC.bind (Q := fun o s1 => ∃ c, o = .node c ∧ CI0 d0 s1 ∧ FreshNode s1.dom c ∧ c ≠ 0) ?_ ?_
    · refine satc_sink h.d (op := .createComment text) rfl ?_
      intro d' out ha hd
      have ha' := ha
      rw [TBSafe.apply_createComment] at ha; cases ha
      have hpos : 0 < s.dom.size := lt_of_data h.doc0
      refine ⟨s.dom.size, rfl, ⟨hd, h.mode, h.st, h.af, h.head, h.form, h.ctx, h.docH,
        isDoc_kext (apply_kext ha') h.doc0, h.orig, h.tm, pristine_alloc_comment h.pristine⟩, ⟨?_, ?_, ?_⟩,
        Nat.ne_of_gt hpos⟩
      · show (s.dom.alloc (.comment text)).1.isInsertable s.dom.size = true
        unfold Dom.isInsertable; rw [dataOf_alloc]; simp
      · show (s.dom.alloc (.comment text)).1.parentOf s.dom.size = none
        rw [parentOf_alloc]; exact parentOf_none_of_ge (Nat.le_refl _)
      · show (s.dom.alloc (.comment text)).1.childrenOf s.dom.size = []
        rw [childrenOf_alloc]; exact childrenOf_nil_of_ge (Nat.le_refl _)
    · rintro o s1 ⟨c, rfl, h1, h2, h3⟩
      exact satc_pure ⟨h1, h2, h3⟩
  · rintro c s1 ⟨h1, hf, hc0⟩
    refine satc_getS_bind ?_
    rw [h1.docH]
    have hv : IpValid s1.dom (.lastChild 0) := isContainer_of_doc h1.doc0
    have hcontract : Contract s1.dom (.append 0 (.node c)) :=
      contract_ipOp (ip := .lastChild 0) h1.d.inv hv (.node c hf (by
        intro x hx; simp [ipIds] at hx; subst hx; exact fun e => hc0 e.symm))
    unfold sinkUnit
    refine SatC.bind (Q := fun _ s2 => CI0 d0 s2) ?_ (fun _ s2 h2 => satc_pure ⟨rfl, h2⟩)
    refine (h1.sink hcontract ?_).bind (fun _ _ h' => satc_pure h')
    intro d' out ha
    have := TBSafe.appendRaw_data (by rw [← append_node_eq]; exact apply_append_inv ha)
    exact pristine_of_data this h1.pristine

/-- `Initial` rules (rules.rs:101) -/
theorem CI0.stepInitial {s : State} (h : CI0 d0 s) (tok : Token) :
    SatC (H5V.Model.HtmlTB.stepInitial tok) s (fun res s' => CI0 d0 s' ∧
      (res = .reprocess .beforeHtml tok ∨ NoRep res)) := by
  unfold H5V.Model.HtmlTB.stepInitial
  have helse : SatC (do
      if (!(← getS).opts.iframeSrcdoc) = true then do
        let _ ← unexpected
        H5V.Model.HtmlTB.setQuirksMode QuirksMode.quirks
      pure (ProcessResult.reprocess Mode.beforeHtml tok)) s (fun res s' => CI0 d0 s' ∧
        (res = .reprocess .beforeHtml tok ∨ NoRep res)) := by
    refine satc_getS_bind ?_
    refine satc_ite (fun _ => ?_) (fun _ => satc_pure ⟨h, Or.inl rfl⟩)
    unfold H5V.Model.HtmlTB.unexpected
    refine SatC.bind (Q := fun _ s1 => CI0 d0 s1) ?_ ?_
    · exact (h.parseError).bind (fun _ s1 h1 => satc_pure h1)
    · intro _ s1 h1
      exact (h1.setQuirks).bind (fun _ s2 h2 => satc_pure ⟨h2, Or.inl rfl⟩)
  cases tok with
  | chars st text =>
    cases st with
    | notSplit => exact satc_pure ⟨h, Or.inr trivial⟩
    | whitespace => exact satc_pure ⟨h, Or.inr trivial⟩
    | notWhitespace => exact helse
  | comment text => exact (h.appendCommentToDoc).mono (fun res s' ⟨hr, h'⟩ => ⟨h', Or.inr (by rw [hr]; trivial)⟩)
  | tag t => exact helse
  | nullChar => exact helse
  | eof => exact helse

end H5V.Lemmas.TBC
