import H5V.Props.C17
/-!
C17, shape of parsed trees, part 2: the STRUCTURE of every document the tree-builder model builds.

`ShapeC cs s` is an invariant of `XmlTB.step` (`step_shape`, any configuration, any token whose character
data is non-empty): every open frame and the closed root hold element content in the class `nodesOK` (no
doctype, no empty text node, no two adjacent text nodes), every element of the tree was created by a
`create_element` call recorded in `cs` (`s.created`), before the root there are only comments, PIs and at
most one doctype, after it only comments and PIs, and nothing is after the root as long as there is none.
`document_shape` reads the hypotheses of `C17_roundtrip_fixed` off the invariant.
-/
namespace H5V.Lemmas.XmlShape
open H5V.Model.XmlTB H5V.Model.XmlSer H5V.Lemmas.XmlTB H5V.Lemmas.XmlSer H5V.Props.C17

/-! ### the elements of a tree -/

mutual
/-- name and attribute list of every element of the tree, in document order -/
def elemsOf : Node → List Created
  | .elem n as ks => ⟨n, as⟩ :: elemsOfL ks
  | .text _ => []
  | .comment _ => []
  | .pi _ _ => []
  | .doctype _ _ _ => []
def elemsOfL : List Node → List Created
  | [] => []
  | n :: rest => elemsOf n ++ elemsOfL rest
end

theorem elemsOfL_append (a b : List Node) : elemsOfL (a ++ b) = elemsOfL a ++ elemsOfL b := by
  induction a with
  | nil => simp [elemsOfL]
  | cons x xs ih => simp [elemsOfL, ih]

theorem mem_elemsOfL_reverse (l : List Node) (c : Created) : c ∈ elemsOfL l.reverse ↔ c ∈ elemsOfL l := by
  induction l with
  | nil => simp
  | cons x xs ih => simp [elemsOfL_append, elemsOfL, ih, or_comm]

/-! ### the leaves of a tree: text, comment, PI and doctype nodes -/

mutual
def leavesOf : Node → List Node
  | .elem _ _ ks => leavesOfL ks
  | .text s => [.text s]
  | .comment s => [.comment s]
  | .pi t d => [.pi t d]
  | .doctype n p s => [.doctype n p s]
def leavesOfL : List Node → List Node
  | [] => []
  | n :: rest => leavesOf n ++ leavesOfL rest
end

theorem leavesOfL_append (a b : List Node) : leavesOfL (a ++ b) = leavesOfL a ++ leavesOfL b := by
  induction a with
  | nil => simp [leavesOfL]
  | cons x xs ih => simp [leavesOfL, ih]

theorem mem_leavesOfL_reverse (l : List Node) (c : Node) : c ∈ leavesOfL l.reverse ↔ c ∈ leavesOfL l := by
  induction l with
  | nil => simp
  | cons x xs ih => simp [leavesOfL_append, leavesOfL, ih, or_comm]

/-- a predicate on leaves that survives the merging of adjacent character data -/
def TextClosed (Q : Node → Prop) : Prop := ∀ a b, Q (.text a) → Q (.text b) → Q (.text (a ++ b))

/-! ### element content, seen from the end of the child list -/

def isTextB : Node → Bool
  | .text _ => true
  | _ => false

theorem isTextB_eq (n : Node) : (match n with | .text _ => true | _ => false) = isTextB n := by
  cases n <;> rfl

/-- is the last node of the list a text node (`p` for the empty list)? -/
def lastP : Bool → List Node → Bool
  | p, [] => p
  | _, n :: rest => lastP (isTextB n) rest

theorem lastP_snoc (p : Bool) (l : List Node) (x : Node) : lastP p (l ++ [x]) = isTextB x := by
  induction l generalizing p with
  | nil => rfl
  | cons y ys ih => simp only [List.cons_append, lastP]; exact ih _

theorem lastP_reverse (kids : List Node) : lastP false kids.reverse = prevText kids := by
  cases kids with
  | nil => rfl
  | cons x rest =>
    rw [List.reverse_cons, lastP_snoc]
    cases x <;> rfl

theorem nodesOK_snoc (c : SerCfg) (l : List Node) (p : Bool) (x : Node) :
    nodesOK c p (l ++ [x]) ↔ nodesOK c p l ∧ nodeOK c (lastP p l) x := by
  induction l generalizing p with
  | nil => simp [nodesOK, lastP]
  | cons n r ih =>
    simp only [List.cons_append, nodesOK, lastP, isTextB_eq]
    rw [ih]
    exact and_assoc.symm

/-- the children collected so far (most recent first) are good element content, and all their elements
are recorded in `cs` -/
def KidsGood (Q : Node → Prop) (cs : List Created) (kids : List Node) : Prop :=
  nodesOK SerCfg.fixed false kids.reverse ∧ (∀ c ∈ elemsOfL kids, c ∈ cs) ∧ ∀ x ∈ leavesOfL kids, Q x

theorem kidsGood_nil (Q : Node → Prop) (cs : List Created) : KidsGood Q cs [] :=
  ⟨trivial, by simp [elemsOfL], by simp [leavesOfL]⟩

theorem KidsGood.mono {Q : Node → Prop} {cs cs' : List Created} {kids : List Node} (h : KidsGood Q cs kids)
    (hsub : ∀ c ∈ cs, c ∈ cs') : KidsGood Q cs' kids := ⟨h.1, fun c hc => hsub c (h.2.1 c hc), h.2.2⟩

theorem kidsGood_cons {Q : Node → Prop} {cs : List Created} {kids : List Node} (h : KidsGood Q cs kids) (x : Node)
    (hx : nodeOK SerCfg.fixed (prevText kids) x) (he : ∀ c ∈ elemsOf x, c ∈ cs)
    (hq : ∀ y ∈ leavesOf x, Q y) : KidsGood Q cs (x :: kids) := by
  refine ⟨?_, ?_, ?_⟩
  · rw [List.reverse_cons, nodesOK_snoc, lastP_reverse]; exact ⟨h.1, hx⟩
  · intro c hc
    simp only [elemsOfL, List.mem_append] at hc
    rcases hc with hc | hc
    · exact he c hc
    · exact h.2.1 c hc
  · intro y hy
    simp only [leavesOfL, List.mem_append] at hy
    rcases hy with hy | hy
    · exact hq y hy
    · exact h.2.2 y hy

theorem kidsGood_appendText {Q : Node → Prop} (hQ : TextClosed Q) {cs : List Created} {kids : List Node}
    (h : KidsGood Q cs kids) (s : Str) (hs : s ≠ []) (hqs : Q (.text s)) : KidsGood Q cs (appendText kids s) := by
  unfold appendText
  split
  · rename_i t rest
    obtain ⟨h1, h2, h3⟩ := h
    rw [List.reverse_cons, nodesOK_snoc] at h1
    refine ⟨?_, ?_, ?_⟩
    · rw [List.reverse_cons, nodesOK_snoc]
      refine ⟨h1.1, ?_⟩
      have := h1.2
      simp only [nodeOK] at this ⊢
      exact ⟨this.1, by intro e; exact this.2.1 (List.append_eq_nil_iff.mp e).1, Or.inr rfl⟩
    · intro c hc
      apply h2
      simpa [elemsOfL, elemsOf] using hc
    · intro y hy
      simp only [leavesOfL, leavesOf, List.cons_append, List.nil_append, List.mem_cons] at hy
      rcases hy with rfl | hy
      · exact hQ t s (h3 _ (by simp [leavesOfL, leavesOf])) hqs
      · exact h3 y (by simp [leavesOfL, leavesOf, hy])
  · rename_i hno
    apply kidsGood_cons h
    · have hp : prevText kids = false := by
        unfold prevText
        split
        · rename_i t rest; exact absurd rfl (hno t rest)
        · rfl
      simp only [nodeOK]
      exact ⟨hp, hs, Or.inr rfl⟩
    · intro c hc; simp [elemsOf] at hc
    · intro y hy; simp only [leavesOf, List.mem_singleton] at hy; subst hy; exact hqs

/-! ### good elements, good frames -/

/-- an element whose content is in the class, whose elements are all recorded and whose leaves satisfy `Q` -/
def GoodElem (Q : Node → Prop) (cs : List Created) (r : Node) : Prop :=
  ∃ n as ks, r = .elem n as ks ∧ (⟨n, as⟩ : Created) ∈ cs ∧ nodesOK SerCfg.fixed false ks ∧
    (∀ c ∈ elemsOfL ks, c ∈ cs) ∧ ∀ x ∈ leavesOfL ks, Q x

structure FrameGood (Q : Node → Prop) (cs : List Created) (f : Frame) : Prop where
  self : (⟨f.name, f.attrs⟩ : Created) ∈ cs
  kids : KidsGood Q cs f.kids

theorem GoodElem.mono {Q : Node → Prop} {cs cs' : List Created} {r : Node} (h : GoodElem Q cs r)
    (hsub : ∀ c ∈ cs, c ∈ cs') : GoodElem Q cs' r := by
  obtain ⟨n, as, ks, e, h1, h2, h3, h4⟩ := h
  exact ⟨n, as, ks, e, hsub _ h1, h2, fun c hc => hsub c (h3 c hc), h4⟩

theorem FrameGood.mono {Q : Node → Prop} {cs cs' : List Created} {f : Frame} (h : FrameGood Q cs f)
    (hsub : ∀ c ∈ cs, c ∈ cs') : FrameGood Q cs' f := ⟨hsub _ h.self, h.kids.mono hsub⟩

theorem FrameGood.close {Q : Node → Prop} {cs : List Created} {f : Frame} (h : FrameGood Q cs f) :
    GoodElem Q cs f.close :=
  ⟨f.name, f.attrs, f.kids.reverse, rfl, h.self, h.kids.1,
    fun c hc => h.kids.2.1 c ((mem_elemsOfL_reverse _ _).mp hc),
    fun x hx => h.kids.2.2 x ((mem_leavesOfL_reverse _ _).mp hx)⟩

/-- a good element may be appended to good children -/
theorem kidsGood_elem {Q : Node → Prop} {cs : List Created} {kids : List Node} (h : KidsGood Q cs kids) {r : Node}
    (hr : GoodElem Q cs r) : KidsGood Q cs (r :: kids) := by
  obtain ⟨n, as, ks, rfl, h1, h2, h3, h4⟩ := hr
  apply kidsGood_cons h
  · simp only [nodeOK]; exact h2
  · intro c hc
    simp only [elemsOf, List.mem_cons] at hc
    rcases hc with rfl | hc
    · exact h1
    · exact h3 c hc
  · intro y hy; exact h4 y (by simpa [leavesOf] using hy)

theorem goodElem_empty (Q : Node → Prop) (cs : List Created) (n : QName) (as : List Attr)
    (h : (⟨n, as⟩ : Created) ∈ cs) : GoodElem Q cs (.elem n as []) :=
  ⟨n, as, [], rfl, h, trivial, by simp [elemsOfL], by simp [leavesOfL]⟩

/-! ### the prolog: comments, PIs, at most one doctype -/

def isDt : Node → Bool
  | .doctype _ _ _ => true
  | _ => false

theorem preOK_of (l : List Node) (seen : Bool) (hpre : ∀ x ∈ l, isPre x = true)
    (hc : (l.filter isDt).length ≤ (if seen then 0 else 1)) : preOK seen l := by
  induction l generalizing seen with
  | nil => trivial
  | cons x xs ih =>
    have hx := hpre x (by simp)
    have hr : ∀ y ∈ xs, isPre y = true := fun y hy => hpre y (by simp [hy])
    cases x with
    | text s => simp [isPre] at hx
    | elem n as ks => simp [isPre] at hx
    | comment s =>
      simp only [preOK]
      exact ih seen hr (by simpa [List.filter_cons, isDt] using hc)
    | pi t d =>
      simp only [preOK]
      exact ih seen hr (by simpa [List.filter_cons, isDt] using hc)
    | doctype n p sy =>
      simp only [preOK]
      simp only [List.filter_cons, isDt, ↓reduceIte, List.length_cons] at hc
      cases seen with
      | true => simp at hc
      | false =>
        refine ⟨rfl, ih true hr ?_⟩
        simp only [Bool.false_eq_true, ↓reduceIte] at hc ⊢
        omega

/-! ### the invariant -/

/-- invariant of the tree builder's state; `cs` = the `create_element` trace -/
structure ShapeC (Q : Node → Prop) (cs : List Created) (s : State) : Prop where
  frames : ∀ f ∈ s.opened, FrameGood Q cs f
  root : ∀ r, s.root = some r → GoodElem Q cs r
  rootOpened : s.root.isSome = true → s.opened = []
  start : s.phase = .start → s.opened = [] ∧ s.root = none
  before : ∀ x ∈ s.docBefore, isPre x = true ∧ Q x
  dt1 : (s.docBefore.filter isDt).length ≤ 1
  dt0 : s.doctypeSeen = false → s.docBefore.filter isDt = []
  after : ∀ x ∈ s.docAfter, isMisc x = true ∧ Q x
  afterRoot : s.hasRoot = false → s.docAfter = []

theorem shapeC_init (Q : Node → Prop) : ShapeC Q [] State.init :=
  ⟨by simp [State.init], by simp [State.init], by simp [State.init], by simp [State.init],
   by simp [State.init], by simp [State.init], by simp [State.init], by simp [State.init],
   by simp [State.init]⟩

theorem ShapeC.mono {Q : Node → Prop} {cs cs' : List Created} {s : State} (h : ShapeC Q cs s)
    (hsub : ∀ c ∈ cs, c ∈ cs') : ShapeC Q cs' s :=
  ⟨fun f hf => (h.frames f hf).mono hsub, fun r hr => (h.root r hr).mono hsub, h.rootOpened, h.start,
   h.before, h.dt1, h.dt0, h.after, h.afterRoot⟩

/-- the invariant reads six fields only -/
theorem ShapeC.of_eq {Q : Node → Prop} {cs : List Created} {s s' : State} (h : ShapeC Q cs s) (e1 : s'.phase = s.phase)
    (e2 : s'.docBefore = s.docBefore) (e3 : s'.docAfter = s.docAfter) (e4 : s'.root = s.root)
    (e5 : s'.opened = s.opened) (e6 : s'.doctypeSeen = s.doctypeSeen) : ShapeC Q cs s' := by
  have eh : s'.hasRoot = s.hasRoot := by simp [State.hasRoot, e4, e5]
  exact ⟨by rw [e5]; exact h.frames, by rw [e4]; exact h.root, by rw [e4, e5]; exact h.rootOpened,
    by rw [e1, e4, e5]; exact h.start, by rw [e2]; exact h.before, by rw [e2]; exact h.dt1,
    by rw [e2, e6]; exact h.dt0, by rw [e3]; exact h.after, by rw [e3, eh]; exact h.afterRoot⟩

theorem applyNs_fields (cfg : TbCfg) (s : State) (t : Tag) :
    (applyNs cfg s t).1.phase = s.phase ∧ (applyNs cfg s t).1.docBefore = s.docBefore ∧
    (applyNs cfg s t).1.docAfter = s.docAfter ∧ (applyNs cfg s t).1.root = s.root ∧
    (applyNs cfg s t).1.opened = s.opened ∧ (applyNs cfg s t).1.doctypeSeen = s.doctypeSeen ∧
    (applyNs cfg s t).1.created = s.created := by
  unfold applyNs; simp only []; split <;> exact ⟨rfl, rfl, rfl, rfl, rfl, rfl, rfl⟩

theorem shapeC_applyNs {Q : Node → Prop} {cs : List Created} {s : State} (h : ShapeC Q cs s) (cfg : TbCfg)
    (t : Tag) : ShapeC Q cs (applyNs cfg s t).1 := by
  obtain ⟨a, b, c, d, e, f, _⟩ := applyNs_fields cfg s t
  exact h.of_eq a b c d e f

theorem shapeC_err {Q : Node → Prop} {cs : List Created} {s : State} (h : ShapeC Q cs s) (es : List Err) :
    ShapeC Q cs (s.err es) :=
  h.of_eq rfl rfl rfl rfl rfl rfl

theorem appendDoc_noRoot (s : State) (n : Node) (h : s.hasRoot = false) :
    s.appendDoc n = { s with docBefore := n :: s.docBefore } := by
  unfold State.appendDoc; rw [if_neg (by rw [h]; simp)]

/-- a comment or PI appended to the document -/
theorem shapeC_appendDoc {Q : Node → Prop} {cs : List Created} {s : State} (h : ShapeC Q cs s) (n : Node)
    (hn : isMisc n = true) (hq : Q n) : ShapeC Q cs (s.appendDoc n) := by
  have hpre : isPre n = true := by cases n <;> simp_all [isMisc, isPre]
  have hdt : isDt n = false := by cases n <;> simp_all [isMisc, isDt]
  unfold State.appendDoc
  split
  · rename_i hr
    refine ⟨h.frames, h.root, h.rootOpened, h.start, h.before, h.dt1, h.dt0, ?_, ?_⟩
    · intro x hx
      simp only [List.mem_cons] at hx
      rcases hx with rfl | hx
      · exact ⟨hn, hq⟩
      · exact h.after x hx
    · intro hf
      have : s.hasRoot = false := hf
      rw [hr] at this; cases this
  · rename_i hr
    refine ⟨h.frames, h.root, h.rootOpened, h.start, ?_, ?_, ?_, h.after, ?_⟩
    · intro x hx
      simp only [List.mem_cons] at hx
      rcases hx with rfl | hx
      · exact ⟨hpre, hq⟩
      · exact h.before x hx
    · simpa [List.filter_cons, hdt] using h.dt1
    · intro hd; simpa [List.filter_cons, hdt] using h.dt0 hd
    · intro hf; exact h.afterRoot hf

theorem except_map_ok {f : State → State} {x : Except String State} {s' : State}
    (h : x.map f = .ok s') : ∃ s1, x = .ok s1 ∧ s' = f s1 := by
  cases x with
  | error e => simp [Except.map] at h
  | ok s1 => simp only [Except.map, Except.ok.injEq] at h; exact ⟨s1, rfl, h.symm⟩

theorem except_bind_ok {g : State → Except String State} {x : Except String State} {s' : State}
    (h : x.bind g = .ok s') : ∃ s1, x = .ok s1 ∧ g s1 = .ok s' := by
  cases x with
  | error e => simp [Except.bind] at h
  | ok s1 => exact ⟨s1, rfl, h⟩

theorem shapeC_pop {Q : Node → Prop} {cs : List Created} {s s' : State} (h : ShapeC Q cs s) (hp : pop s = .ok s') :
    ShapeC Q cs s' ∧ s'.created = s.created ∧ s'.phase = s.phase := by
  unfold pop at hp
  split at hp
  · cases hp
  · rename_i f ho
    injection hp with hp; subst hp
    have hf := h.frames f (by rw [ho]; simp)
    refine ⟨⟨by simp, ?_, by simp, ?_, h.before, h.dt1, h.dt0, h.after, ?_⟩, rfl, rfl⟩
    · intro r hr
      simp only [Option.some.injEq] at hr; subst hr
      exact hf.close
    · intro hph
      have := (h.start hph).1
      rw [ho] at this; cases this
    · intro hf'; simp [State.hasRoot] at hf'
  · rename_i f g rest ho
    injection hp with hp; subst hp
    have hf := h.frames f (by rw [ho]; simp)
    have hg := h.frames g (by rw [ho]; simp)
    refine ⟨⟨?_, h.root, ?_, ?_, h.before, h.dt1, h.dt0, h.after, ?_⟩, rfl, rfl⟩
    · intro x hx
      simp only [List.mem_cons] at hx
      rcases hx with rfl | hx
      · exact ⟨hg.self, kidsGood_elem hg.kids hf.close⟩
      · exact h.frames x (by rw [ho]; simp [hx])
    · intro hr
      have := h.rootOpened hr
      rw [ho] at this; cases this
    · intro hph
      have := (h.start hph).1
      rw [ho] at this; cases this
    · intro hf'; simp [State.hasRoot] at hf'

theorem shapeC_popUntil {Q : Node → Prop} {cs : List Created} (nm : QName) (fuel : Nat) {s s' : State} (h : ShapeC Q cs s)
    (hp : popUntil nm fuel s = .ok s') : ShapeC Q cs s' ∧ s'.created = s.created ∧ s'.phase = s.phase := by
  induction fuel generalizing s with
  | zero =>
    unfold popUntil at hp
    split at hp
    · cases hp
    · split at hp
      · injection hp with hp; subst hp; exact ⟨h, rfl, rfl⟩
      · cases hp
  | succ n ih =>
    unfold popUntil at hp
    split at hp
    · cases hp
    · split at hp
      · injection hp with hp; subst hp; exact ⟨h, rfl, rfl⟩
      · obtain ⟨s1, h1, h2⟩ := except_bind_ok hp
        obtain ⟨a, b, c⟩ := shapeC_pop h h1
        obtain ⟨a', b', c'⟩ := ih a h2
        exact ⟨a', b'.trans b, c'.trans c⟩

theorem shapeC_closeTag {Q : Node → Prop} {cs : List Created} (nm : QName) {s s' : State} (h : ShapeC Q cs s)
    (hp : closeTag s nm = .ok s') : ShapeC Q cs s' ∧ s'.created = s.created ∧ s'.phase = s.phase := by
  unfold closeTag at hp
  split at hp
  · cases hp
  · rename_i f rest ho
    simp only [] at hp
    generalize hs0 : (if f.name.loc ≠ nm.loc then s.err [Err.currentMismatch] else s) = s0 at hp
    have h0 : ShapeC Q cs s0 ∧ s0.created = s.created ∧ s0.phase = s.phase := by
      subst hs0; split
      · exact ⟨shapeC_err h _, rfl, rfl⟩
      · exact ⟨h, rfl, rfl⟩
    split at hp
    · obtain ⟨s1, h1, h2⟩ := except_bind_ok hp
      obtain ⟨a, b, c⟩ := shapeC_popUntil nm _ h0.1 h1
      obtain ⟨a', b', c'⟩ := shapeC_pop a h2
      exact ⟨a', b'.trans (b.trans h0.2.1), c'.trans (c.trans h0.2.2)⟩
    · injection hp with hp; subst hp; exact h0

theorem shapeC_setEndIfEmpty {Q : Node → Prop} {cs : List Created} {s : State} (h : ShapeC Q cs s) (hp : s.phase ≠ .start) :
    ShapeC Q cs (setEndIfEmpty s) := by
  unfold setEndIfEmpty
  split
  · exact ⟨h.frames, h.root, h.rootOpened, (by intro e; cases e), h.before, h.dt1, h.dt0, h.after, h.afterRoot⟩
  · exact h

theorem shapeC_appendCur {Q : Node → Prop} {cs : List Created} {s s' : State} (h : ShapeC Q cs s) (upd : List Node → List Node)
    (hupd : ∀ kids, KidsGood Q cs kids → KidsGood Q cs (upd kids)) (hp : appendCur s upd = .ok s') :
    ShapeC Q cs s' ∧ s'.created = s.created := by
  unfold appendCur at hp
  split at hp
  · cases hp
  · rename_i f rest ho
    injection hp with hp; subst hp
    have hf := h.frames f (by rw [ho]; simp)
    refine ⟨⟨?_, h.root, ?_, ?_, h.before, h.dt1, h.dt0, h.after, ?_⟩, rfl⟩
    · intro x hx
      simp only [List.mem_cons] at hx
      rcases hx with rfl | hx
      · exact ⟨hf.self, hupd _ hf.kids⟩
      · exact h.frames x (by rw [ho]; simp [hx])
    · intro hr
      have := h.rootOpened hr
      rw [ho] at this; cases this
    · intro hph
      have := (h.start hph).1
      rw [ho] at this; cases this
    · intro hf'; simp [State.hasRoot] at hf'

/-- `insert_tag`: a new frame on a non-empty stack -/
theorem shapeC_insertTag {Q : Node → Prop} {s s' : State} (b : Bound) (h : ShapeC Q s.created s)
    (hp : insertTag s b = .ok s') : ShapeC Q s'.created s' ∧ s'.phase = s.phase := by
  unfold insertTag at hp
  split at hp
  · cases hp
  · rename_i f rest ho
    injection hp with hp; subst hp
    have hsub : ∀ c ∈ s.created, c ∈ (⟨b.name, b.attrs⟩ : Created) :: s.created :=
      fun c hc => List.mem_cons_of_mem _ hc
    have h' := h.mono hsub
    refine ⟨⟨?_, h'.root, ?_, ?_, h.before, h.dt1, h.dt0, h.after, ?_⟩, rfl⟩
    · intro x hx
      simp only [List.mem_cons] at hx
      rcases hx with rfl | hx
      · exact ⟨by simp, kidsGood_nil _ _⟩
      · exact h'.frames x hx
    · intro hr
      have := h.rootOpened hr
      rw [ho] at this; cases this
    · intro hph
      have := (h.start hph).1
      rw [ho] at this; cases this
    · intro hf'; simp [State.hasRoot] at hf'

/-- what `step` needs to know about the token: character data is not empty (the tokenizer never
delivers an empty character token), and the leaf node it may become satisfies `Q` -/
def TokGood (Q : Node → Prop) : Token → Prop
  | .chars cs => cs ≠ [] ∧ Q (.text cs)
  | .comment c => Q (.comment c)
  | .pi t d => Q (.pi t d)
  | .doctype n p sy => Q (.doctype (optStr n) (optStr p) (optStr sy))
  | _ => True

/-- **the invariant is preserved by every step** (any configuration, any token) -/
theorem step_shape {Q : Node → Prop} (hQ : TextClosed Q) (cfg : TbCfg) (s : State) (tok : Token)
    (h : ShapeC Q s.created s) (ht : TokGood Q tok) :
    ∀ s', step cfg s tok = .ok s' → ShapeC Q s'.created s' := by
  unfold step
  match hp : s.phase with
  | .start =>
    obtain ⟨ho, hr⟩ := h.start hp
    have hroot : s.hasRoot = false := by simp [State.hasRoot, ho, hr]
    match tok with
    | .tag ⟨.start, n, as⟩ =>
      intro s' hs
      have e : s' = { (applyNs cfg s ⟨.start, n, as⟩).1 with
          phase := .main,
          opened := ⟨(applyNs cfg s ⟨.start, n, as⟩).2.name, (applyNs cfg s ⟨.start, n, as⟩).2.attrs, []⟩ ::
            (applyNs cfg s ⟨.start, n, as⟩).1.opened,
          created := ⟨(applyNs cfg s ⟨.start, n, as⟩).2.name, (applyNs cfg s ⟨.start, n, as⟩).2.attrs⟩ ::
            (applyNs cfg s ⟨.start, n, as⟩).1.created } := by
        injection hs with hs; exact hs.symm
      subst e
      obtain ⟨e1, e2, e3, e4, e5, e6, e7⟩ := applyNs_fields cfg s ⟨.start, n, as⟩
      have h1 := shapeC_applyNs h cfg ⟨.start, n, as⟩
      simp only [e7]
      have hsub : ∀ c ∈ s.created, c ∈ (⟨(applyNs cfg s ⟨.start, n, as⟩).2.name,
          (applyNs cfg s ⟨.start, n, as⟩).2.attrs⟩ : Created) :: s.created :=
        fun c hc => List.mem_cons_of_mem _ hc
      have h2 := h1.mono hsub
      refine ⟨?_, h2.root, ?_, (by intro e; cases e), h2.before, h2.dt1, h2.dt0, h2.after, ?_⟩
      · intro x hx
        simp only [List.mem_cons] at hx
        rcases hx with rfl | hx
        · exact ⟨by simp, kidsGood_nil _ _⟩
        · exact h2.frames x hx
      · intro hrs
        have hrs' : (applyNs cfg s ⟨.start, n, as⟩).1.root.isSome = true := hrs
        rw [e4, hr] at hrs'; cases hrs'
      · intro hf'; simp [State.hasRoot] at hf'
    | .tag ⟨.empty, n, as⟩ =>
      intro s' hs
      have e : s' = { (applyNs cfg s ⟨.empty, n, as⟩).1 with
          phase := .end_,
          root := some (.elem (applyNs cfg s ⟨.empty, n, as⟩).2.name (applyNs cfg s ⟨.empty, n, as⟩).2.attrs []),
          created := ⟨(applyNs cfg s ⟨.empty, n, as⟩).2.name, (applyNs cfg s ⟨.empty, n, as⟩).2.attrs⟩ ::
            (applyNs cfg s ⟨.empty, n, as⟩).1.created } := by
        injection hs with hs; exact hs.symm
      subst e
      obtain ⟨e1, e2, e3, e4, e5, e6, e7⟩ := applyNs_fields cfg s ⟨.empty, n, as⟩
      have h1 := shapeC_applyNs h cfg ⟨.empty, n, as⟩
      simp only [e7]
      have hsub : ∀ c ∈ s.created, c ∈ (⟨(applyNs cfg s ⟨.empty, n, as⟩).2.name,
          (applyNs cfg s ⟨.empty, n, as⟩).2.attrs⟩ : Created) :: s.created :=
        fun c hc => List.mem_cons_of_mem _ hc
      have h2 := h1.mono hsub
      refine ⟨h2.frames, ?_, ?_, (by intro e; cases e), h2.before, h2.dt1, h2.dt0, h2.after, ?_⟩
      · intro r hr'
        have hr'' : some (Node.elem (applyNs cfg s ⟨.empty, n, as⟩).2.name (applyNs cfg s ⟨.empty, n, as⟩).2.attrs []) = some r := hr'
        simp only [Option.some.injEq] at hr''; subst hr''
        exact goodElem_empty _ _ _ _ (by simp)
      · intro _
        show (applyNs cfg s ⟨.empty, n, as⟩).1.opened = []
        rw [e5]; exact ho
      · intro hf'; simp [State.hasRoot] at hf'
    | .tag ⟨.end_, n, as⟩ => intro s' hs; injection hs with hs; subst hs; exact shapeC_err h _
    | .tag ⟨.short, n, as⟩ => intro s' hs; injection hs with hs; subst hs; exact shapeC_err h _
    | .comment c =>
      intro s' hs; injection hs with hs; subst hs
      have : (s.appendDoc (.comment c)).created = s.created := by unfold State.appendDoc; split <;> rfl
      rw [this]; exact shapeC_appendDoc h _ rfl ht
    | .pi t d =>
      intro s' hs; injection hs with hs; subst hs
      have : (s.appendDoc (.pi t d)).created = s.created := by unfold State.appendDoc; split <;> rfl
      rw [this]; exact shapeC_appendDoc h _ rfl ht
    | .chars cs =>
      intro s' hs
      simp only [] at hs
      split at hs
      · injection hs with hs; subst hs; exact h
      · injection hs with hs; subst hs; exact shapeC_err h _
    | .eof =>
      intro s' hs; injection hs with hs; subst hs
      exact ⟨h.frames, h.root, h.rootOpened, (by intro e; cases e), h.before, h.dt1, h.dt0, h.after, h.afterRoot⟩
    | .nullChar => intro s' hs; injection hs with hs; subst hs; exact shapeC_err h _
    | .doctype n p sy =>
      intro s' hs
      simp only [] at hs
      split at hs
      · injection hs with hs; subst hs; exact shapeC_err h _
      · rename_i hseen
        injection hs with hs; subst hs
        have hseen' : s.doctypeSeen = false := by simpa using hseen
        have h0 := h.dt0 hseen'
        rw [appendDoc_noRoot _ _ (by exact hroot)]
        refine ⟨h.frames, h.root, h.rootOpened, (fun _ => ⟨ho, hr⟩), ?_, ?_, ?_, h.after, h.afterRoot⟩
        · intro x hx
          simp only [List.mem_cons] at hx
          rcases hx with rfl | hx
          · exact ⟨rfl, ht⟩
          · exact h.before x hx
        · simp [List.filter_cons, isDt, h0]
        · intro e; cases e
  | .main =>
    have hnst : s.phase ≠ .start := by rw [hp]; intro e; cases e
    match tok with
    | .chars cs =>
      intro s' hs
      obtain ⟨a, b⟩ := shapeC_appendCur h (fun k => appendText k cs)
        (fun kids hk => kidsGood_appendText hQ hk cs ht.1 ht.2) hs
      rw [b]; exact a
    | .comment c =>
      intro s' hs
      obtain ⟨a, b⟩ := shapeC_appendCur h (fun k => .comment c :: k)
        (fun kids hk => kidsGood_cons hk _ trivial (by intro c hc; simp [elemsOf] at hc)
          (by intro y hy; simp only [leavesOf, List.mem_singleton] at hy; subst hy; exact ht)) hs
      rw [b]; exact a
    | .pi t d =>
      intro s' hs
      obtain ⟨a, b⟩ := shapeC_appendCur h (fun k => .pi t d :: k)
        (fun kids hk => kidsGood_cons hk _ trivial (by intro c hc; simp [elemsOf] at hc)
          (by intro y hy; simp only [leavesOf, List.mem_singleton] at hy; subst hy; exact ht)) hs
      rw [b]; exact a
    | .eof =>
      intro s' hs; injection hs with hs; subst hs
      exact ⟨h.frames, h.root, h.rootOpened, (by intro e; cases e), h.before, h.dt1, h.dt0, h.after, h.afterRoot⟩
    | .nullChar =>
      intro s' hs; injection hs with hs; subst hs
      exact ⟨h.frames, h.root, h.rootOpened, (by intro e; cases e), h.before, h.dt1, h.dt0, h.after, h.afterRoot⟩
    | .doctype _ _ _ => intro s' hs; injection hs with hs; subst hs; exact shapeC_err h _
    | .tag ⟨.start, n, as⟩ =>
      intro s' hs
      simp only [] at hs
      obtain ⟨e1, e2, e3, e4, e5, e6, e7⟩ := applyNs_fields cfg s ⟨.start, n, as⟩
      have h1 := shapeC_applyNs h cfg ⟨.start, n, as⟩
      rw [← e7] at h1
      exact (shapeC_insertTag _ h1 hs).1
    | .tag ⟨.empty, n, as⟩ =>
      intro s' hs
      simp only [] at hs
      obtain ⟨e1, e2, e3, e4, e5, e6, e7⟩ := applyNs_fields cfg s ⟨.empty, n, as⟩
      have h1 := shapeC_applyNs h cfg ⟨.empty, n, as⟩
      split at hs
      · obtain ⟨s1, hs1, hs2⟩ := except_bind_ok hs
        rw [← e7] at h1
        obtain ⟨a, _⟩ := shapeC_insertTag _ h1 hs1
        obtain ⟨a', b', _⟩ := shapeC_closeTag _ a hs2
        rw [b']; exact a'
      · obtain ⟨s1, hs1, rfl⟩ := except_map_ok hs
        have hsub : ∀ c ∈ s.created, c ∈ (⟨(applyNs cfg s ⟨.empty, n, as⟩).2.name,
            (applyNs cfg s ⟨.empty, n, as⟩).2.attrs⟩ : Created) :: s.created :=
          fun c hc => List.mem_cons_of_mem _ hc
        have h2 := h1.mono hsub
        obtain ⟨a, b⟩ := shapeC_appendCur h2
          (fun k => .elem (applyNs cfg s ⟨.empty, n, as⟩).2.name (applyNs cfg s ⟨.empty, n, as⟩).2.attrs [] :: k)
          (fun kids hk => kidsGood_elem hk (goodElem_empty _ _ _ _ (by simp))) hs1
        simp only [b, e7]
        exact a.of_eq rfl rfl rfl rfl rfl rfl
    | .tag ⟨.end_, n, as⟩ =>
      intro s' hs
      simp only [] at hs
      obtain ⟨e1, e2, e3, e4, e5, e6, e7⟩ := applyNs_fields cfg s ⟨.end_, n, as⟩
      have h1 := shapeC_applyNs h cfg ⟨.end_, n, as⟩
      obtain ⟨s1, hs1, rfl⟩ := except_map_ok hs
      obtain ⟨a, b, c⟩ := shapeC_closeTag _ h1 hs1
      have hc : (setEndIfEmpty s1).created = s.created := by
        unfold setEndIfEmpty; split <;> simp [b, e7]
      rw [hc]
      exact shapeC_setEndIfEmpty a (by rw [c, e1]; exact hnst)
    | .tag ⟨.short, _, _⟩ =>
      intro s' hs
      simp only [] at hs
      obtain ⟨s1, hs1, rfl⟩ := except_map_ok hs
      obtain ⟨a, b, c⟩ := shapeC_pop h hs1
      have hc : (setEndIfEmpty s1).created = s.created := by
        unfold setEndIfEmpty; split <;> simp [b]
      rw [hc]
      exact shapeC_setEndIfEmpty a (by rw [c]; exact hnst)
  | .end_ =>
    match tok with
    | .comment c =>
      intro s' hs; injection hs with hs; subst hs
      have : (s.appendDoc (.comment c)).created = s.created := by unfold State.appendDoc; split <;> rfl
      rw [this]; exact shapeC_appendDoc h _ rfl ht
    | .pi t d =>
      intro s' hs; injection hs with hs; subst hs
      have : (s.appendDoc (.pi t d)).created = s.created := by unfold State.appendDoc; split <;> rfl
      rw [this]; exact shapeC_appendDoc h _ rfl ht
    | .chars cs =>
      intro s' hs
      simp only [] at hs
      split at hs
      · injection hs with hs; subst hs; exact h
      · injection hs with hs; subst hs; exact shapeC_err h _
    | .eof => intro s' hs; injection hs with hs; subst hs; exact h
    | .tag _ => intro s' hs; injection hs with hs; subst hs; exact shapeC_err h _
    | .doctype _ _ _ => intro s' hs; injection hs with hs; subst hs; exact shapeC_err h _
    | .nullChar => intro s' hs; injection hs with hs; subst hs; exact shapeC_err h _

theorem run_shape {Q : Node → Prop} (hQ : TextClosed Q) (cfg : TbCfg) (toks : List Token) (s : State)
    (h : ShapeC Q s.created s) (ht : ∀ t ∈ toks, TokGood Q t) :
    ∀ s', run cfg s toks = .ok s' → ShapeC Q s'.created s' := by
  induction toks generalizing s with
  | nil => intro s' hs; simp only [run] at hs; injection hs with hs; subst hs; exact h
  | cons t rest ih =>
    intro s' hs
    simp only [run] at hs
    obtain ⟨s1, h1, h2⟩ := except_bind_ok hs
    exact ih s1 (step_shape hQ cfg s t h (ht t (by simp)) s1 h1) (fun x hx => ht x (by simp [hx])) s' h2

/-! ### reading the document off the invariant -/

theorem closeAll_good (Q : Node → Prop) (cs : List Created) (frames : List Frame)
    (hf : ∀ f ∈ frames, FrameGood Q cs f) :
    ∀ (acc : Option Node), (∀ r, acc = some r → GoodElem Q cs r) →
      (∀ r, frames.foldl (fun acc f =>
          some (.elem f.name f.attrs (match acc with | some n => n :: f.kids | none => f.kids).reverse)) acc = some r →
        GoodElem Q cs r) ∧
      (frames ≠ [] → (frames.foldl (fun acc f =>
          some (Node.elem f.name f.attrs (match acc with | some n => n :: f.kids | none => f.kids).reverse)) acc).isSome = true) := by
  induction frames with
  | nil => intro acc hacc; exact ⟨by simpa using hacc, by intro e; exact absurd rfl e⟩
  | cons f rest ih =>
    intro acc hacc
    have hfg := hf f (by simp)
    have hstep : ∀ r, (some (Node.elem f.name f.attrs
        (match acc with | some n => n :: f.kids | none => f.kids).reverse)) = some r → GoodElem Q cs r := by
      intro r hr
      simp only [Option.some.injEq] at hr; subst hr
      cases acc with
      | none => exact hfg.close
      | some n =>
        have hk := kidsGood_elem hfg.kids (hacc n rfl)
        exact ⟨_, _, _, rfl, hfg.self, hk.1, fun c hc => hk.2.1 c ((mem_elemsOfL_reverse _ _).mp hc),
          fun x hx => hk.2.2 x ((mem_leavesOfL_reverse _ _).mp hx)⟩
    have := ih (fun g hg => hf g (by simp [hg])) _ hstep
    simp only [List.foldl_cons]
    refine ⟨this.1, fun _ => ?_⟩
    cases rest with
    | nil => rfl
    | cons g gs => exact this.2 (by simp)

/-- **the document of a state satisfying the invariant**: either `pre ++ [root] ++ post` with the
hypotheses of `C17_roundtrip_fixed` on `pre`, `post` and the root's content (every element of the tree
recorded in `cs`, every leaf satisfying `Q`), or there is no root element and the document is a prolog
(`preOK`). -/
theorem document_shape (Q : Node → Prop) (cs : List Created) (s : State) (h : ShapeC Q cs s) :
    (s.hasRoot = true ∧ ∃ pre n as ks post, s.document = pre ++ .elem n as ks :: post ∧ preOK false pre ∧
      (∀ x ∈ post, isMisc x = true) ∧ nodesOK SerCfg.fixed false ks ∧
      (⟨n, as⟩ : Created) ∈ cs ∧ (∀ c ∈ elemsOfL ks, c ∈ cs) ∧
      (∀ x ∈ pre, Q x) ∧ (∀ x ∈ post, Q x) ∧ ∀ x ∈ leavesOfL ks, Q x) ∨
    (s.hasRoot = false ∧ preOK false s.document ∧ ∀ x ∈ s.document, isPre x = true ∧ Q x) := by
  have hpre : preOK false s.docBefore.reverse := by
    apply preOK_of
    · intro x hx; exact (h.before x (List.mem_reverse.mp hx)).1
    · rw [List.filter_reverse, List.length_reverse]; exact h.dt1
  have hpost : ∀ x ∈ s.docAfter.reverse, isMisc x = true := fun x hx => (h.after x (List.mem_reverse.mp hx)).1
  have hqb : ∀ x ∈ s.docBefore.reverse, Q x := fun x hx => (h.before x (List.mem_reverse.mp hx)).2
  have hqa : ∀ x ∈ s.docAfter.reverse, Q x := fun x hx => (h.after x (List.mem_reverse.mp hx)).2
  unfold State.document
  cases hr : s.root with
  | some r =>
    left
    obtain ⟨n, as, ks, rfl, h1, h2, h3, h4⟩ := h.root r hr
    exact ⟨by simp [State.hasRoot, hr], s.docBefore.reverse, n, as, ks, s.docAfter.reverse, by simp, hpre, hpost, h2,
      h1, h3, hqb, hqa, h4⟩
  | none =>
    cases ho : s.opened with
    | nil =>
      right
      have hroot : s.hasRoot = false := by simp [State.hasRoot, hr, ho]
      have ha := h.afterRoot hroot
      simp only [closeAll, List.foldl_nil, Option.toList, ha, List.reverse_nil, List.append_nil]
      exact ⟨hroot, hpre, fun x hx => h.before x (List.mem_reverse.mp hx)⟩
    | cons f rest =>
      left
      have hg := closeAll_good Q cs (f :: rest) (by rw [← ho]; exact h.frames) none (by intro r e; cases e)
      have hsome := hg.2 (by simp)
      unfold closeAll
      cases hc : (f :: rest).foldl (fun acc f =>
          some (Node.elem f.name f.attrs (match acc with | some n => n :: f.kids | none => f.kids).reverse)) none with
      | none => rw [hc] at hsome; cases hsome
      | some r =>
        obtain ⟨n, as, ks, rfl, h1, h2, h3, h4⟩ := hg.1 r hc
        exact ⟨by simp [State.hasRoot, ho], s.docBefore.reverse, n, as, ks, s.docAfter.reverse, by simp [Option.toList],
          hpre, hpost, h2, h1, h3, hqb, hqa, h4⟩

end H5V.Lemmas.XmlShape
