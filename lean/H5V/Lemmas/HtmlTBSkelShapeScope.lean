import H5V.Lemmas.HtmlTBSkelShapeBig
/-!
C06, second invariant layer, part 7: pops guarded by a scope test (`in_scope(...)` followed by
`generate_implied_end_tags` / `pop_until…`) and by a test of the current node preserve `Big`.
`PBsc sc P prog`: `prog` preserves `Big` when started in a state where an element satisfying `P` is in
the scope `sc`.
-/
namespace H5V.Props.C06
open H5V.Model.Dom hiding Str
open H5V.Model.HtmlTB hiding Str
open H5V.Lemmas.Dom

/-- an element whose name satisfies `P` is on the stack with no `P`-element and no `sc`-boundary above it -/
def InScP (sc P : EName → Bool) (s : State) : Prop :=
  ∃ below x above, s.openElems = below ++ x :: above ∧ P (nm s.dom x) = true ∧
    ∀ y ∈ above, P (nm s.dom y) = false ∧ sc (nm s.dom y) = false

/-- the scope has `html`, `table`, `template` among its boundaries -/
class ScBase (sc : EName → Bool) : Prop where
  h : ∀ n, htmlIn n ["html", "table", "template"] = true → sc n = true

/-- elements satisfying `P` may be popped -/
class PlainP (P : EName → Bool) : Prop where
  h : ∀ n, P n = true → keepName n = false

/-- the monadic predicate `pred` tests the name with `P` -/
class PredSem (pred : Id → M Bool) (P : outParam (EName → Bool)) : Prop where
  h : ∀ n s b s', pred n s = .ok (b, s') → QS s s' ∧ b = P (nm s.dom n)

instance (name : Str) : PredSem (fun h => htmlElemNamedS h name) (fun n => n.ns == nsHtml && n.loc == name) :=
  ⟨fun n s b s' e => let ⟨q, hb, _⟩ := htmlElemNamedS_sem e; ⟨q, hb⟩⟩
instance (set : EName → Bool) : PredSem (fun h => elemIn h set) set :=
  ⟨fun n s b s' e => elemIn_sem e⟩

theorem scBase_of_special {sc : EName → Bool} (h : ∀ n, htmlDefaultScope n = true → sc n = true)
    (hd : ∀ a, a ∈ ["html", "table", "template"] → htmlDefaultScope (hN a) = true) : ScBase sc :=
  ⟨fun n hn => by obtain ⟨a, ha, rfl⟩ := htmlIn_eq hn; exact h _ (hd a ha)⟩

instance : ScBase tableScope := ⟨fun n h => h⟩

class PBsc {α : Type} (sc P : EName → Bool) (prog : M α) : Prop where
  p : ∀ m r ph s a s', Big m r ph s → InScP sc P s → prog s = .ok (a, s') →
    Big m r ph s' ∧ s'.mode = s.mode ∧ s'.origMode = s.origMode

theorem InScP.qs {sc P : EName → Bool} {s s' : State} (h : InScP sc P s) (q : QS s s') : InScP sc P s' := by
  obtain ⟨below, x, above, h1, h2, h3⟩ := h
  exact ⟨below, x, above, by rw [q.openElems]; exact h1, by rw [q.nm]; exact h2,
    fun y hy => by rw [q.nm]; exact h3 y hy⟩

/-- the fact is not needed -/
instance (priority := low) {α : Type} (sc P : EName → Bool) (prog : M α) [h : PB prog] : PBsc sc P prog :=
  ⟨fun m r ph s a s' hb _ e => h.p m r ph s a s' hb e⟩

theorem PBsc.bindQ {α β : Type} {sc P : EName → Bool} {m : M α} {f : α → M β} (h1 : IsQ m)
    (h2 : ∀ a, PBsc sc P (f a)) : PBsc sc P (m >>= f) :=
  ⟨fun md r ph s b s'' hb hi e => by
    obtain ⟨a, s', e1, e2⟩ := bind_ok.mp e
    have q := h1.q s a s' e1
    obtain ⟨b2, m2, o2⟩ := (h2 a).p md r ph s' b s'' (hb.qs q) (hi.qs q) e2
    exact ⟨b2, m2.trans q.mode, o2.trans (by rw [q.rest])⟩⟩

theorem PBsc.dite {α : Type} {sc P : EName → Bool} {c : Prop} [Decidable c] {a b : M α}
    (h1 : c → PBsc sc P a) (h2 : ¬c → PBsc sc P b) : PBsc sc P (if c then a else b) := by
  by_cases hc : c
  · simp only [hc, if_true]; exact h1 hc
  · simp only [hc, if_false]; exact h2 hc

/-- implied end tags that do not include the element in scope -/
theorem PBsc.bindImplied {β : Type} {sc P set : EName → Bool} {f : Unit → M β}
    (hset : ∀ n, P n = true → set n = false) (hkeep : ∀ n, set n = true → keepName n = false)
    (h2 : ∀ a, PBsc sc P (f a)) : PBsc sc P (generateImpliedEndTags set >>= f) :=
  ⟨fun md r ph s b s'' hb hi e => by
    obtain ⟨a, s', e1, e2⟩ := bind_ok.mp e
    obtain ⟨popped, p, hp1, _⟩ := generateImpliedEndTags_sem e1
    have hb' : Big md r ph s' := hb.pop p (fun x hx => hkeep _ (hp1 x hx))
    obtain ⟨below, x, above, h1, h2', h3⟩ := hi
    -- the element in scope is not popped
    have hst := p.stack
    rw [h1] at hst
    have hxn : x ∉ popped := fun hm => by
      have := hp1 x hm; rw [hset _ h2'] at this; cases this
    -- so the popped elements are a top segment of `above`
    have hsplit : ∃ above', above = above' ++ popped ∧ s'.openElems = below ++ x :: above' := by
      have : (below ++ [x]) ++ above = s'.openElems ++ popped := by rw [← hst]; simp
      -- compare lengths from the right
      rcases List.append_eq_append_iff.mp this with ⟨a', ha1, ha2⟩ | ⟨c', hc1, hc2⟩
      · exact ⟨a', ha2, by rw [ha1]; simp⟩
      · rcases nil_or_concat c' with rfl | ⟨c0, z, rfl⟩
        · simp only [List.append_nil, List.nil_append] at hc1 hc2
          exact ⟨[], by simp [hc2], by rw [← hc1]⟩
        · exfalso
          have : below ++ [x] = (s'.openElems ++ c0) ++ [z] := by rw [hc1]; simp
          obtain ⟨_, hz⟩ := List.append_inj' this rfl
          simp at hz; subst hz
          exact hxn (by rw [hc2]; simp)
    obtain ⟨above', ha, hs'⟩ := hsplit
    have hi' : InScP sc P s' := ⟨below, x, above', hs', by rw [p.nm]; exact h2',
      fun y hy => by rw [p.nm]; exact h3 y (by rw [ha]; exact List.mem_append_left _ hy)⟩
    obtain ⟨b2, m2, o2⟩ := (h2 a).p md r ph s' b s'' hb' hi' e2
    exact ⟨b2, m2.trans (by rw [p.rest]), o2.trans (by rw [p.rest])⟩⟩

/-- the split of a list at its last element satisfying `p` is unique -/
theorem last_split_unique {p : Id → Bool} : ∀ {l1 l2 a1 a2 : List Id} {x m : Id},
    l1 ++ x :: a1 = l2 ++ m :: a2 → p x = true → p m = true → (∀ y ∈ a1, p y = false) → (∀ y ∈ a2, p y = false) →
    l1 = l2 ∧ x = m ∧ a1 = a2 := by
  intro l1 l2 a1 a2 x m h hx hm h1 h2
  rcases List.append_eq_append_iff.mp h with ⟨c, hc1, hc2⟩ | ⟨c, hc1, hc2⟩
  · cases c with
    | nil => simp at hc1 hc2; exact ⟨hc1.symm, hc2.1, hc2.2⟩
    | cons z c' =>
      simp only [List.cons_append, List.cons.injEq] at hc2
      -- m ∈ a1
      have : m ∈ a1 := by rw [hc2.2]; simp
      rw [h1 m this] at hm; cases hm
  · cases c with
    | nil => simp at hc1 hc2; exact ⟨hc1, hc2.1.symm, hc2.2.symm⟩
    | cons z c' =>
      simp only [List.cons_append, List.cons.injEq] at hc2
      have : x ∈ a2 := by rw [hc2.2]; simp
      rw [h2 x this] at hx; cases hx

theorem Big.pop_inScope {m : Mode} {r : Id} {ph : Phase} {sc P : EName → Bool} [hsc : ScBase sc] [hP : PlainP P]
    {s s' : State} {popped : List Id} (h : Big m r ph s) (hi : InScP sc P s) (p : PR s s' popped)
    (hpop : (∃ mm above, popped = mm :: above ∧ P (nm s.dom mm) = true ∧ ∀ x ∈ above, P (nm s.dom x) = false) ∨
      (s'.openElems = [] ∧ ∀ x ∈ popped, P (nm s.dom x) = false)) : Big m r ph s' := by
  obtain ⟨below, x, above, h1, h2, h3⟩ := hi
  have hab : ∀ y ∈ above, htmlIn (nm s.dom y) ["html", "table", "template"] = false := by
    intro y hy
    cases hh : htmlIn (nm s.dom y) ["html", "table", "template"] with
    | false => rfl
    | true => have := hsc.h _ hh; rw [(h3 y hy).2] at this; cases this
  rcases hpop with ⟨mm, ab2, hpo, hm, hab2⟩ | ⟨hem, hall⟩
  · have hst := p.stack
    rw [h1, hpo] at hst
    obtain ⟨_, rfl, rfl⟩ := last_split_unique (p := fun y => P (nm s.dom y)) hst h2 hm (fun y hy => (h3 y hy).1) hab2
    refine h.pop_above h1 (hP.h _ h2) hab p ?_
    intro y hy
    rw [hpo] at hy
    simpa using hy
  · exfalso
    have hst := p.stack
    rw [hem, h1] at hst
    have : x ∈ popped := by
      simp only [List.nil_append] at hst
      rw [← hst]; simp
    rw [hall x this] at h2; cases h2

instance {β : Type} (sc P : EName → Bool) [ScBase sc] [PlainP P] (f : Nat → M β) [h2 : ∀ a, PB (f a)] :
    PBsc sc P (popUntil P >>= f) :=
  ⟨fun md r ph s b s'' hb hi e => by
    obtain ⟨a, s', e1, e2⟩ := bind_ok.mp e
    obtain ⟨popped, p, hp⟩ := popUntil_sem e1
    obtain ⟨b2, m2, o2⟩ := (h2 a).p md r ph s' b s'' (hb.pop_inScope hi p hp) e2
    exact ⟨b2, m2.trans (by rw [p.rest]), o2.trans (by rw [p.rest])⟩⟩

instance (sc P : EName → Bool) [ScBase sc] [PlainP P] : PBsc sc P (popUntil P) :=
  ⟨fun md r ph s b s'' hb hi e => by
    obtain ⟨popped, p, hp⟩ := popUntil_sem e
    exact ⟨hb.pop_inScope hi p hp, by rw [p.rest], by rw [p.rest]⟩⟩

/-- entry: a scope test; its `true` branch may use the fact -/
theorem PB.ofInScope {β : Type} {sc P : EName → Bool} {pred : Id → M Bool} [hs : PredSem pred P] {f : Bool → M β}
    (ht : PBsc sc P (f true)) (hf : PB (f false)) : PB (inScope sc pred >>= f) :=
  ⟨fun md r ph s b s'' hb e => by
    obtain ⟨a, s', e1, e2⟩ := bind_ok.mp e
    unfold inScope at e1
    rw [getS_bind] at e1
    obtain ⟨q, hres⟩ := inScopeLoop_sem sc pred (fun n => P (nm s.dom n)) s
      (fun n s1 b1 s2 q0 e0 => by
        obtain ⟨q1, hb1⟩ := hs.h n s1 b1 s2 e0
        exact ⟨q1, by rw [hb1, q0.nm]⟩) _ s s' a (QS.refl _) e1
    have hmo : s'.mode = s.mode ∧ s'.origMode = s.origMode := ⟨q.mode, by rw [q.rest]⟩
    cases a with
    | false =>
      obtain ⟨b2, m2, o2⟩ := hf.p md r ph s' b s'' (hb.qs q) e2
      exact ⟨b2, m2.trans hmo.1, o2.trans hmo.2⟩
    | true =>
      obtain ⟨pre, x, post, hl, hx, hpre⟩ := hres rfl
      obtain ⟨_, hsplit⟩ := getElem?_of_reverse_split hl
      have hi : InScP sc P s := ⟨post.reverse, x, pre.reverse, hsplit, hx, fun y hy => hpre y (List.mem_reverse.mp hy)⟩
      obtain ⟨b2, m2, o2⟩ := ht.p md r ph s' b s'' (hb.qs q) (hi.qs q) e2
      exact ⟨b2, m2.trans hmo.1, o2.trans hmo.2⟩⟩

/-! ### instances for the walk -/

/-- the name predicate of `html_elem_named(_, X)` -/
abbrev namedP (X : Str) : EName → Bool := fun n => n.ns == nsHtml && n.loc == X

/-- `X` is not one of the protected names -/
class PlainStr (X : Str) : Prop where
  h : keepName ⟨nsHtml, X⟩ = false

theorem namedP_eq {X : Str} {n : EName} (h : namedP X n = true) : n = ⟨nsHtml, X⟩ := by
  simp only [namedP, Bool.and_eq_true, beq_iff_eq] at h
  cases n; simp_all

instance (X : Str) [h : PlainStr X] : PlainP (namedP X) := ⟨fun n hn => by rw [namedP_eq hn]; exact h.h⟩

instance : PlainP headingTag := ⟨fun n hn => by
  obtain ⟨a, ha, rfl⟩ := htmlIn_eq hn
  revert a; decide⟩

/-- `X` is not one of the implied-end names -/
class NotCursory (X : Str) : Prop where
  h : cursoryImpliedEnd ⟨nsHtml, X⟩ = false

instance : ScBase defaultScope := ⟨fun n hn => by
  obtain ⟨a, ha, rfl⟩ := htmlIn_eq hn
  revert a; decide⟩
instance : ScBase buttonScope := ⟨fun n hn => by
  obtain ⟨a, ha, rfl⟩ := htmlIn_eq hn
  revert a; decide⟩
instance : ScBase listItemScope := ⟨fun n hn => by
  obtain ⟨a, ha, rfl⟩ := htmlIn_eq hn
  revert a; decide⟩

instance {α β : Type} (sc P : EName → Bool) (m : M α) (f : α → M β) [h1 : IsQ m] [h2 : ∀ a, PBsc sc P (f a)] :
    PBsc sc P (m >>= f) := PBsc.bindQ h1 h2

instance {β : Type} (sc : EName → Bool) (X : Str) [hn : NotCursory X] (f : Unit → M β)
    [h2 : ∀ a, PBsc sc (namedP X) (f a)] : PBsc sc (namedP X) (generateImpliedEndTags cursoryImpliedEnd >>= f) :=
  PBsc.bindImplied (fun n h => by rw [namedP_eq h]; exact hn.h) (fun n h => keepName_cursory h) h2

instance {β : Type} (sc : EName → Bool) (f : Unit → M β) [h2 : ∀ a, PBsc sc headingTag (f a)] :
    PBsc sc headingTag (generateImpliedEndTags cursoryImpliedEnd >>= f) :=
  PBsc.bindImplied (fun n h => by
    obtain ⟨a, ha, rfl⟩ := htmlIn_eq h
    revert a; decide) (fun n h => keepName_cursory h) h2

instance {β : Type} (sc : EName → Bool) (X : Str) (f : Unit → M β) [h2 : ∀ a, PBsc sc (namedP X) (f a)] :
    PBsc sc (namedP X) (generateImpliedEndExcept X >>= f) := by
  unfold generateImpliedEndExcept
  refine PBsc.bindImplied (fun n h => ?_) (fun n h => ?_) h2
  · unfold impliedExcept
    simp only [namedP, Bool.and_eq_true, beq_iff_eq] at h
    simp [h.1, h.2]
  · unfold impliedExcept at h
    split at h
    · cases h
    · exact keepName_cursory h

instance {β : Type} (sc : EName → Bool) (f : Unit → M β) [h2 : ∀ a, PBsc sc (namedP "p".toList) (f a)] :
    PBsc sc (namedP "p".toList) (generateImpliedEndTags impliedExceptP >>= f) := by
  refine PBsc.bindImplied (fun n h => ?_) (fun n h => ?_) h2
  · rw [namedP_eq h]; decide
  · unfold impliedExceptP at h
    split at h
    · cases h
    · exact keepName_cursory h

instance {β : Type} (sc : EName → Bool) (X : Str) [ScBase sc] [PlainStr X] (f : Nat → M β) [∀ a, PB (f a)] :
    PBsc sc (namedP X) (popUntilNamedS X >>= f) := by unfold popUntilNamedS; infer_instance
instance (sc : EName → Bool) (X : Str) [ScBase sc] [PlainStr X] : PBsc sc (namedP X) (popUntilNamedS X) := by
  unfold popUntilNamedS; infer_instance
instance {β : Type} (sc : EName → Bool) (X : String) [ScBase sc] [PlainStr X.toList] (f : Nat → M β) [∀ a, PB (f a)] :
    PBsc sc (namedP X.toList) (popUntilNamed X >>= f) := by unfold popUntilNamed; infer_instance
instance (sc : EName → Bool) (X : Str) [ScBase sc] [PlainStr X] : PBsc sc (namedP X) (expectToCloseS X) := by
  unfold expectToCloseS; infer_instance
instance {β : Type} (sc : EName → Bool) (X : Str) [ScBase sc] [PlainStr X] (f : Unit → M β) [h : ∀ a, PB (f a)] :
    PBsc sc (namedP X) (expectToCloseS X >>= f) :=
  ⟨fun md r ph s b s'' hb hi e => by
    obtain ⟨a, s', e1, e2⟩ := bind_ok.mp e
    obtain ⟨b1, m1, o1⟩ := (inferInstance : PBsc sc (namedP X) (expectToCloseS X)).p md r ph s a s' hb hi e1
    obtain ⟨b2, m2, o2⟩ := (h a).p md r ph s' b s'' b1 e2
    exact ⟨b2, m2.trans m1, o2.trans o1⟩⟩
instance (sc : EName → Bool) (X : String) [ScBase sc] [PlainStr X.toList] : PBsc sc (namedP X.toList) (expectToClose X) := by
  unfold expectToClose; infer_instance

instance : PlainStr "p".toList := ⟨by decide⟩
instance : PlainStr "button".toList := ⟨by decide⟩
instance : PlainStr "select".toList := ⟨by decide⟩
instance : PlainStr "form".toList := ⟨by decide⟩
instance : NotCursory "button".toList := ⟨by decide⟩
instance : NotCursory "form".toList := ⟨by decide⟩

instance (sc : EName → Bool) [ScBase sc] : PBsc sc (namedP "p".toList) closePElement := by
  unfold closePElement; infer_instance

/-- entry rules: `if ← in_scope… then A else B` and `if !(← in_scope…) then A else B` -/
theorem PB.guardPos {β : Type} {sc P : EName → Bool} {pred : Id → M Bool} [PredSem pred P] {A B : M β}
    (ht : PBsc sc P A) (hf : PB B) : PB (inScope sc pred >>= fun b => if b = true then A else B) :=
  PB.ofInScope (f := fun b => if b = true then A else B) (by simpa using ht) (by simpa using hf)

theorem PB.guardNeg {β : Type} {sc P : EName → Bool} {pred : Id → M Bool} [PredSem pred P] {A B : M β}
    (ht : PB A) (hf : PBsc sc P B) : PB (inScope sc pred >>= fun b => if (!b) = true then A else B) :=
  PB.ofInScope (f := fun b => if (!b) = true then A else B) (by simpa using hf) (by simpa using ht)

theorem PB.guardPosS {β : Type} {sc : EName → Bool} {X : Str} {A B : M β}
    (ht : PBsc sc (namedP X) A) (hf : PB B) : PB (inScopeNamedS sc X >>= fun b => if b = true then A else B) := by
  unfold inScopeNamedS; exact PB.guardPos ht hf
theorem PB.guardNegS {β : Type} {sc : EName → Bool} {X : Str} {A B : M β}
    (ht : PB A) (hf : PBsc sc (namedP X) B) : PB (inScopeNamedS sc X >>= fun b => if (!b) = true then A else B) := by
  unfold inScopeNamedS; exact PB.guardNeg ht hf
theorem PB.guardPosN {β : Type} {sc : EName → Bool} {X : String} {A B : M β}
    (ht : PBsc sc (namedP X.toList) A) (hf : PB B) : PB (inScopeNamed sc X >>= fun b => if b = true then A else B) := by
  unfold inScopeNamed; exact PB.guardPosS ht hf
theorem PB.guardNegN {β : Type} {sc : EName → Bool} {X : String} {A B : M β}
    (ht : PB A) (hf : PBsc sc (namedP X.toList) B) : PB (inScopeNamed sc X >>= fun b => if (!b) = true then A else B) := by
  unfold inScopeNamed; exact PB.guardNegS ht hf

instance : PB closePElementInButtonScope := by
  unfold closePElementInButtonScope
  exact PB.guardPosN (sc := buttonScope) inferInstance inferInstance

end H5V.Props.C06
