import H5V.Lemmas.HtmlTBModesPrimIns
import H5V.Lemmas.HtmlTBModesPrimPop
import H5V.Lemmas.HtmlTBModesSmall
/-!
The small insertion modes: "after frameset", "after after frameset", "after after body", "after body",
"in frameset" — `ModeSim` and `ModeCharSim`.
-/
namespace H5V.Lemmas.HtmlTBModes
open H5V.Model.HtmlTB
open H5V.Model.Dom (Id SinkOp Output Dom QualName Attr NodeOrText ElementFlags NodeData QuirksMode)
open H5V.Lemmas.HtmlTBAlgo
open H5V.Lemmas.TBSafe (TI HInv SInv Rooted)
open H5V.Spec.TreeAlgo2 (Elem Entry PState Ctx Edit Place)
open H5V.Spec.TreeModes (STok ETok IMode Config Out TokSwitch XOp Op Step Edition)

/-! ### whitespace -/

/-- the model's and the specification's whitespace tests agree -/
theorem isWs_eq_ascii (c : Char) : Spec.TreeModes.isWs c = isAsciiWhitespace c := by
  unfold Spec.TreeModes.isWs isAsciiWhitespace
  by_cases h1 : c = ' ' <;> by_cases h2 : c = '\t' <;> by_cases h3 : c = '\n' <;> by_cases h4 : c = '\x0c' <;>
    by_cases h5 : c = '\r' <;> simp [h1, h2, h3, h4, h5]

/-! ### the bridge: `byModeDev` in the five modes -/

section Bridge
variable {cfg : Config Id} {σ : SState}

theorem byModeDev_afterFrameset (h : σ.mode = .afterFrameset) (tok : STok) :
    byModeDev cfg σ tok = Spec.TreeModes.afterFrameset cfg σ tok := by
  simp [byModeDev, h, Spec.TreeModes.byMode]

theorem byModeDev_afterAfterFrameset (h : σ.mode = .afterAfterFrameset) (tok : STok) :
    byModeDev cfg σ tok = Spec.TreeModes.afterAfterFrameset cfg σ tok := by
  simp [byModeDev, h, Spec.TreeModes.byMode]

theorem byModeDev_afterAfterBody (h : σ.mode = .afterAfterBody) (tok : STok) :
    byModeDev cfg σ tok = Spec.TreeModes.afterAfterBody cfg σ tok := by
  simp [byModeDev, h, Spec.TreeModes.byMode]

theorem byModeDev_afterBody (h : σ.mode = .afterBody) (tok : STok) :
    byModeDev cfg σ tok = Spec.TreeModes.afterBody cfg σ tok := by
  simp [byModeDev, h, Spec.TreeModes.byMode]

theorem byModeDev_inFrameset (h : σ.mode = .inFrameset) (tok : STok) :
    byModeDev cfg σ tok = Spec.TreeModes.inFrameset cfg σ tok := by
  simp [byModeDev, h, Spec.TreeModes.byMode]

/-- the dispatcher on a character, when the adjusted current node asks for the HTML rules -/
theorem dispatchDev_char_html (hu : Spec.TreeAlgo.useHtmlRules (Spec.TreeModes.adjustedCurrentNode cfg σ) .character = true)
    (c : Char) : dispatchDev cfg σ (.character c) = byModeDev cfg σ (.character c) := by
  simp [dispatchDev, Spec.TreeModes.tokenKind, hu]

/-- the adjusted current node depends on the stack and the list of integration points only -/
theorem adjustedCurrentNode_congr {σ1 : SState} (h1 : σ1.p.stack = σ.p.stack) (h2 : σ1.annotationHtml = σ.annotationHtml) :
    Spec.TreeModes.adjustedCurrentNode cfg σ1 = Spec.TreeModes.adjustedCurrentNode cfg σ := by
  unfold Spec.TreeModes.adjustedCurrentNode Spec.TreeModes.openElem
  rw [h1, h2]

end Bridge

/-- what the dispatcher looks at is the same in two abstract states -/
structure SameDisp (σ σ1 : SState) : Prop where
  stack : σ1.p.stack = σ.p.stack
  annot : σ1.annotationHtml = σ.annotationHtml
  mode : σ1.mode = σ.mode
  stopped : σ1.stopped = σ.stopped
  ignoreLf : σ1.ignoreLf = σ.ignoreLf

theorem SameDisp.err (σ : SState) (w : String) : SameDisp σ (σ.err w) := ⟨rfl, rfl, rfl, rfl, rfl⟩

theorem SameDisp.insertChar {σ σ1 : SState} {c : Char} (h : Spec.TreeModes.insertChar σ c = .ok σ1) : SameDisp σ σ1 := by
  unfold Spec.TreeModes.insertChar Spec.TreeAlgo2.insertCharacters at h
  cases hp : Spec.TreeAlgo2.appropriatePlace σ.p.stack σ.p.fosterParenting none with
  | none => rw [hp] at h; cases h
  | some pl =>
    rw [hp] at h
    have : σ1 = { σ with p := { σ.p with log := σ.p.log ++ [.insertText pl [c]] } } := by
      cases h; rfl
    subst this
    exact ⟨rfl, rfl, rfl, rfl, rfl⟩

/-- a run of characters each of which is handled by `f` (a step that keeps what the dispatcher looks at) -/
theorem charsRunK_foldlM {cfg : Config Id} {rule : SState → STok → Spec.TreeModes.M (Step Id)}
    (f : SState → Char → Spec.TreeModes.M SState) {text : Str} {m : IMode}
    (hrule : ∀ σ : SState, σ.mode = m → ∀ c ∈ text, rule σ (.character c) = (Step.done <$> f σ c))
    (hf : ∀ σ σ1 c, f σ c = .ok σ1 → SameDisp σ σ1) :
    ∀ {t : Str} {σ σ' : SState}, (∀ c ∈ t, c ∈ text) → σ.mode = m → σ.stopped = false → σ.ignoreLf = false →
      Spec.TreeAlgo.useHtmlRules (Spec.TreeModes.adjustedCurrentNode cfg σ) .character = true →
      t.foldlM f σ = .ok σ' → CharsRunK cfg rule σ t σ' := by
  intro t
  induction t with
  | nil =>
    intro σ σ' _ _ _ _ _ h
    cases h
    exact CharsRunK.nil σ
  | cons c cs ih =>
    intro σ σ' hsub hm hs hl hu h
    rw [List.foldlM_cons] at h
    cases h1 : f σ c with
    | error e => rw [h1] at h; cases h
    | ok σ1 =>
      rw [h1] at h
      have sd := hf σ σ1 c h1
      have hu1 : Spec.TreeAlgo.useHtmlRules (Spec.TreeModes.adjustedCurrentNode cfg σ1) .character = true := by
        rw [adjustedCurrentNode_congr sd.stack sd.annot]; exact hu
      refine CharsRunK.cons ?_ sd.mode (sd.stopped.trans hs) (sd.ignoreLf.trans hl) hu1
        (ih (fun c hc => hsub c (List.mem_cons_of_mem _ hc)) (sd.mode.trans hm) (sd.stopped.trans hs)
          (sd.ignoreLf.trans hl) hu1 h)
      rw [hrule σ hm c (hsub c List.mem_cons_self), h1]
      rfl

/-- a run in which every character is handled by the rules of the current insertion mode -/
theorem specChars_of_byModeRun {cfg : Config Id} {σ σ' : SState} {text : Str}
    (h : CharsRunK cfg (byModeDev cfg) σ text σ') : specChars cfg (byModeDev cfg) σ text = .ok σ' :=
  specChars_of_run h (fun _ _ => rfl) (fun _ c _ _ hu => dispatchDev_char_html hu c)

/-- every parse error of a run of ignored characters -/
theorem foldlM_err (w : String) (text : Str) (σ : SState) :
    text.foldlM (fun σ (_ : Char) => (pure (σ.err w) : Spec.TreeModes.M SState)) σ
      = .ok { σ with errors := σ.errors ++ List.replicate text.length w } := by
  induction text generalizing σ with
  | nil => simp only [List.foldlM_nil, List.length_nil, List.replicate_zero, List.append_nil]; rfl
  | cons c r ih =>
    rw [List.foldlM_cons]
    show List.foldlM _ (σ.err w) r = _
    rw [ih]
    simp [Spec.TreeModes.State.err, List.replicate_succ]

/-! ### the three shapes of an answer to a run of characters -/

/-- `.chars .notSplit text => pure (.splitWhitespace text)` -/
theorem charsPost_split {rule : SState → STok → Spec.TreeModes.M (Step Id)} {s : State} (hm : MInv s) (text : Str) :
    CharsPost rule s .notSplit text (.splitWhitespace text) s [] :=
  ⟨rfl, rfl, rfl, (Tr.refl hm).conseq fun _ _ _ _ h => ⟨h, rfl⟩⟩

/-- `unexpected`, with the fact that nothing of the tree builder changed -/
theorem pc_unexpected_same {s : State} (hm : MInv s) :
    PC unexpected s (fun r s' calls => r = .done ∧ SameTB s s' ∧
      Tr s s' calls (fun x x' => x' = x ∧ absF s x = absF s' x)) := by
  unfold unexpected
  refine pc_seq (PC.of_tot (tot_parseError s _)) ?_
  rintro _ s1 c1 he ⟨-, hs, hc⟩
  refine pc_pure ⟨rfl, hs, ?_⟩
  rw [List.append_nil]
  exact Tr.of_same hm hs he (by rw [← edits2_edits, hc]; rfl)

/-- one more parse error, the junk table text set -/
def Aux.errJunk (x : Aux) (w : String) (junk : Str) : Aux := { x with errors := x.errors ++ [w], pendingJunk := junk }

/-- "stop parsing" reached -/
def Aux.stop (x : Aux) : Aux := { x with stopped := true }

section Chars
variable {s : State} {st : SplitStatus} {text : Str} {m : IMode}

/-- a run of whitespace that the mode inserts: `append_text(text)` -/
theorem pc_chars_insert (hm : MInv s) (hmode : imode s.mode = m) (hlf : s.ignoreLf = false)
    (hdisp : ∀ x, AuxOk s x → Spec.TreeAlgo.useHtmlRules (Spec.TreeModes.adjustedCurrentNode (cfgOf s) (absF s x)) .character = true)
    (hb : ∀ σ1 : SState, σ1.mode = m → ∀ c ∈ text,
      byModeDev (cfgOf s) σ1 (.character c) = (Step.done <$> Spec.TreeModes.insertChar σ1 c)) :
    PC (appendText text) s (CharsPost (byModeDev (cfgOf s)) s st text) := by
  refine pc_conseq (pc_appendText hm text) ?_
  rintro r s' calls he ⟨rfl, hs, htr⟩
  refine ⟨hs.fields.ignoreLf, htr.conseq ?_⟩
  intro x x' hx hx' hr
  exact specChars_of_byModeRun (charsRunK_foldlM (m := m) (fun σ c => Spec.TreeModes.insertChar σ c) hb
    (fun _ _ _ h => SameDisp.insertChar h) (fun _ h => h) hmode hx.live hlf (hdisp x hx) hr)

/-- a run of characters that the mode ignores with a parse error each: `unexpected` -/
theorem pc_chars_ignoredErr (hm : MInv s) (hmode : imode s.mode = m) (hlf : s.ignoreLf = false)
    (hdisp : ∀ x, AuxOk s x → Spec.TreeAlgo.useHtmlRules (Spec.TreeModes.adjustedCurrentNode (cfgOf s) (absF s x)) .character = true)
    (w : String)
    (hb : ∀ σ1 : SState, σ1.mode = m → ∀ c ∈ text,
      byModeDev (cfgOf s) σ1 (.character c) = pure (Step.done (σ1.err w))) :
    PC unexpected s (CharsPost (byModeDev (cfgOf s)) s st text) := by
  refine pc_conseq (pc_unexpected_same hm) ?_
  rintro r s' calls he ⟨rfl, hs, htr⟩
  refine ⟨hs.fields.ignoreLf, htr.reaux (fun _ x' => { x' with errors := x'.errors ++ List.replicate text.length w })
    (fun _ _ => ⟨⟨rfl, rfl, rfl, rfl, rfl⟩, rfl, rfl, rfl⟩) ?_⟩
  rintro x x' hx hx' ⟨hxx, e⟩
  subst x'
  refine specChars_of_byModeRun (charsRunK_foldlM (m := m) (fun σ _ => pure (σ.err w)) hb
    (fun σ _ _ h => ?_) (fun _ h => h) hmode hx.live hlf (hdisp x hx) ?_)
  · cases h; exact SameDisp.err σ w
  · rw [foldlM_err, e]; rfl

/-- a run of characters delegated to the rules of another insertion mode -/
theorem pc_chars_delegate {f : Token → M ProcessResult} {g : Config Id → SState → STok → Spec.TreeModes.M (Step Id)}
    (h : StepSimChars f g) (hwf : TokWf (.chars st text)) (hm : MInv s) (hmode : imode s.mode = m) (hlf : s.ignoreLf = false)
    (hdisp : ∀ x, AuxOk s x → Spec.TreeAlgo.useHtmlRules (Spec.TreeModes.adjustedCurrentNode (cfgOf s) (absF s x)) .character = true)
    (hb : ∀ σ1 : SState, σ1.mode = m → ∀ c ∈ text,
      byModeDev (cfgOf s) σ1 (.character c) = g (cfgOf s) σ1 (.character c)) :
    PC (f (.chars st text)) s (CharsPost (byModeDev (cfgOf s)) s st text) := by
  refine pc_conseq (h st text hwf s hm hlf hdisp) ?_
  intro res s' calls he hp
  cases res with
  | done =>
    refine ⟨hp.1, hp.2.conseq ?_⟩
    intro x x' hx hx' hr
    refine specChars_of_run hr (fun c hc => hb _ hmode c hc) ?_
    intro σ1 c hc hm1 hu
    rw [dispatchDev_char_html hu, hb σ1 (hm1.trans hmode) c hc]
  | splitWhitespace t => exact hp
  | reprocess m' tok' =>
    obtain ⟨h1, h2, c, cs, h3, htr⟩ := hp
    refine ⟨h1, h2, c, cs, h3, htr.conseq ?_⟩
    intro x x' hx hx' hr
    rw [hb _ hmode c (h3 ▸ List.mem_cons_self)]
    exact hr
  | _ => exact hp.elim

/-- "Parse error.  Switch the insertion mode to "in body" and reprocess the token." on a run of
characters: after `unexpected`, the answer `Reprocess(InBody, token)` -/
theorem charsPost_reprocessInBody {s' : State} {calls : List Call} (hs : SameTB s s')
    (htr : Tr s s' calls (fun x x' => x' = x ∧ absF s x = absF s' x)) (hne : text ≠ []) (w : String)
    (hb : ∀ x, AuxOk s x → ∀ c ∈ text, byModeDev (cfgOf s) (absF s x) (.character c)
      = pure (Step.reprocess (((absF s x).err w).setMode .inBody))) :
    CharsPost (byModeDev (cfgOf s)) s st text (.reprocess .inBody (.chars st text)) s' (calls ++ []) := by
  cases text with
  | nil => exact absurd rfl hne
  | cons c cs =>
    refine ⟨rfl, hs.fields.ignoreLf, c, cs, rfl, ?_⟩
    have hm' : MInv s' := htr.1
    have h2 : Tr s' { s' with mode := .inBody } [] (fun x x' => x' = x) :=
      Tr.of_upd hm' rfl (fun _ h => h) (hm'.withMode _) rfl
    refine (htr.trans h2).reaux (fun _ x' => x'.errJunk w (absF s' x').pendingTableChars)
      (fun _ _ => ⟨⟨rfl, rfl, rfl, rfl, rfl⟩, rfl, rfl, rfl⟩) ?_
    rintro x x' hx hx' ⟨x1, ⟨hx1, e⟩, hx2⟩
    subst hx2
    subst hx1
    rw [hb x' hx c List.mem_cons_self, e]
    rfl

end Chars

/-! ### "after frameset" -/

theorem modeSim_afterFrameset (hhead : StepSimTok stepInHead Spec.TreeModes.inHead)
    (hbody : StepSimTok stepInBody Spec.TreeModes.inBody) : ModeSim .afterFrameset := by
  intro tok hch hwf s _ hm hmode _
  refine pc_tokPost_congr (sim_afterFrameset hhead hbody tok hch hwf s hm) ?_
  intro x hx
  exact byModeDev_afterFrameset (by show imode s.mode = _; rw [hmode]; rfl) _

theorem modeCharSim_afterFrameset : ModeCharSim .afterFrameset := by
  intro st text hwf s _ hm hmode hlf hdisp
  obtain ⟨hne, hnul, hcls⟩ := hwf
  have hmσ : imode s.mode = .afterFrameset := by rw [hmode]; rfl
  show PC (stepAfterFrameset (.chars st text)) s _
  cases st with
  | notSplit => simp only [stepAfterFrameset]; exact pc_pure (charsPost_split hm text)
  | whitespace =>
    simp only [stepAfterFrameset]
    refine pc_chars_insert hm hmσ hlf hdisp ?_
    intro σ1 h1 c hc
    rw [byModeDev_afterFrameset h1]
    simp only [Spec.TreeModes.afterFrameset, isWs_eq_ascii, hcls c hc, if_true]
  | notWhitespace =>
    simp only [stepAfterFrameset]
    refine pc_chars_ignoredErr hm hmσ hlf hdisp "after frameset: unexpected token" ?_
    intro σ1 h1 c hc
    rw [byModeDev_afterFrameset h1]
    simp only [Spec.TreeModes.afterFrameset, isWs_eq_ascii, hcls c hc, Bool.false_eq_true, if_false]

/-! ### answers to non-character tokens shared by the modes -/

/-- "Parse error.  Ignore the token." -/
theorem pc_unexpected_err {s : State} (hm : MInv s) (tok : Token) (w : String) :
    PC unexpected s (TokPost (fun σ => pure (Step.done (Spec.TreeModes.State.err σ w))) s tok) := by
  refine pc_conseq (pc_unexpected hm) ?_
  rintro r s' calls _ ⟨rfl, htr⟩
  refine tokPost_of_tr htr trivial ?_
  rintro x x' hx hx' ⟨hr, he⟩
  subst x'
  refine ⟨{ x with errors := x.errors ++ [w] }, ?_, ⟨rfl, rfl, rfl, rfl, rfl⟩, Or.inl rfl, rfl, rfl⟩
  simp only [stepOf, he]
  rfl

/-- "Parse error.  Ignore the token.", as a statement of a `do` block -/
theorem pc_unexpected_done {s : State} (hm : MInv s) (tok : Token) (w : String) :
    PC (unexpected >>= fun _ => pure ProcessResult.done) s
      (TokPost (fun σ => pure (Step.done (Spec.TreeModes.State.err σ w))) s tok) := by
  refine pc_seq (pc_unexpected hm) ?_
  rintro r s' calls _ ⟨-, htr⟩
  refine pc_pure (tokPost_of_tr (by rw [List.append_nil]; exact htr) trivial ?_)
  rintro x x' hx hx' ⟨hr, he⟩
  subst x'
  refine ⟨{ x with errors := x.errors ++ [w] }, ?_, ⟨rfl, rfl, rfl, rfl, rfl⟩, Or.inl rfl, rfl, rfl⟩
  simp only [stepOf, he]
  rfl

/-- "Switch the insertion mode to `m`." (not "in table text") -/
theorem pc_setMode_done {s : State} (hm : MInv s) (m : Mode) (hne : m ≠ .inTableText) (tok : Token) :
    PC (setMode m >>= fun _ => pure ProcessResult.done) s
      (TokPost (fun σ => pure (Step.done (Spec.TreeModes.State.setMode σ (imode m)))) s tok) := by
  refine pc_seq (pc_setMode hm _) ?_
  rintro _ s1 c1 _ ⟨rfl, htr⟩
  refine pc_pure (tokPost_of_tr (by rw [List.append_nil]; exact htr) trivial ?_)
  intro x x' hx hx' hr
  subst x'
  refine ⟨{ x with pendingJunk := (absF s x).pendingTableChars }, ?_, ⟨rfl, rfl, rfl, rfl, rfl⟩, Or.inl rfl, rfl, rfl⟩
  cases m <;> first | exact absurd rfl hne | rfl

/-- "Parse error.  Switch the insertion mode to "in body" and reprocess the token." -/
theorem pc_anythingElse_inBody {s : State} (hm : MInv s) (tok : Token) (w : String) :
    PC (unexpected >>= fun _ => pure (ProcessResult.reprocess .inBody tok)) s
      (TokPost (fun σ => pure (Step.reprocess ((Spec.TreeModes.State.err σ w).setMode .inBody))) s tok) := by
  refine pc_seq (pc_unexpected hm) ?_
  rintro r s' calls _ ⟨-, htr⟩
  refine pc_pure (tokPost_of_tr (by rw [List.append_nil]; exact htr) rfl ?_)
  rintro x x' hx hx' ⟨hr, he⟩
  subst x'
  refine ⟨x.errJunk w (absF s' x).pendingTableChars, ?_, ⟨rfl, rfl, rfl, rfl, rfl⟩, Or.inl rfl, rfl, rfl⟩
  simp only [stepOf, he]
  rfl

/-- "Stop parsing." (the model: `Done`; the driver ends the parse) -/
theorem pc_eof_stop {s : State} (hm : MInv s) :
    PC (pure ProcessResult.done) s (TokPost (fun σ => pure (Step.done (Spec.TreeModes.stopParsing σ))) s .eof) := by
  refine pc_pure (tokPost_of_tr (Tr.refl hm) trivial ?_)
  intro x x' hx hx' hr
  subst x'
  exact ⟨{ x with stopped := true }, rfl, ⟨rfl, rfl, rfl, rfl, rfl⟩, Or.inr ⟨rfl, rfl⟩, rfl, rfl⟩

/-- "Insert a comment as the last child of the Document object." -/
theorem pc_commentToDoc {s : State} (hm : MInv s) (text : Str) :
    PC (appendCommentToDoc text) s (TokPost (fun σ => Step.done <$> Spec.TreeModes.insertCommentIn σ (cfgOf s).document text)
      s (.comment text)) := by
  refine pc_conseq (pc_appendCommentToDoc hm text) ?_
  rintro r s' calls _ ⟨rfl, -, htr⟩
  refine tokPost_of_tr htr trivial ?_
  intro x x' hx hx' hr
  refine ⟨x', ?_, AuxSame.rfl', Or.inl rfl, rfl, rfl⟩
  simp only [hr]
  rfl

/-! ### "after after frameset" -/

theorem sim_afterAfterFrameset (hhead : StepSimTok stepInHead Spec.TreeModes.inHead)
    (hbody : StepSimTok stepInBody Spec.TreeModes.inBody) :
    StepSimTok stepAfterAfterFrameset Spec.TreeModes.afterAfterFrameset := by
  intro tok hch hwf s hm
  cases tok with
  | chars st text => cases hch
  | comment text =>
    simp only [stepAfterAfterFrameset, stokOf, Spec.TreeModes.afterAfterFrameset]
    exact pc_commentToDoc hm text
  | eof =>
    simp only [stepAfterAfterFrameset, stokOf, Spec.TreeModes.afterAfterFrameset]
    exact pc_eof_stop hm
  | nullChar =>
    simp only [stepAfterAfterFrameset, stokOf, Spec.TreeModes.afterAfterFrameset, isWs_nul, Bool.false_eq_true, if_false]
    exact pc_unexpected_err hm _ _
  | tag t =>
    simp only [stepAfterAfterFrameset, Tag.isStart, isOneOf_cons, isOneOf_nil, Bool.or_false]
    cases hk : t.kind with
    | startTag =>
      simp only [stokOf, stokOfTag_start hk, Spec.TreeModes.afterAfterFrameset, Spec.TreeModes.Tag.is, strIs_eq, specTag_name]
      by_cases h1 : t.name = "html".toList
      · simp +decide only [h1, if_true]
        refine pc_tokPost_congr (hbody (.tag t) rfl hwf s hm) ?_
        intro x hx
        simp only [stokOf, stokOfTag_start hk]
      · by_cases h2 : t.name = "noframes".toList
        · simp +decide only [h2, if_true, if_false]
          refine pc_tokPost_congr (hhead (.tag t) rfl hwf s hm) ?_
          intro x hx
          simp only [stokOf, stokOfTag_start hk]
        · simp +decide only [h1, h2, if_false]
          exact pc_unexpected_err hm _ _
    | endTag =>
      simp +decide only [stokOf, stokOfTag_end hk, Spec.TreeModes.afterAfterFrameset]
      exact pc_unexpected_err hm _ _

theorem modeSim_afterAfterFrameset (hhead : StepSimTok stepInHead Spec.TreeModes.inHead)
    (hbody : StepSimTok stepInBody Spec.TreeModes.inBody) : ModeSim .afterAfterFrameset := by
  intro tok hch hwf s _ hm hmode _
  refine pc_tokPost_congr (sim_afterAfterFrameset hhead hbody tok hch hwf s hm) ?_
  intro x hx
  exact byModeDev_afterAfterFrameset (by show imode s.mode = _; rw [hmode]; rfl) _

theorem modeCharSim_afterAfterFrameset (hbodyc : StepSimChars stepInBody Spec.TreeModes.inBody) :
    ModeCharSim .afterAfterFrameset := by
  intro st text hwf s _ hm hmode hlf hdisp
  have hcls := hwf.2.2
  have hmσ : imode s.mode = .afterAfterFrameset := by rw [hmode]; rfl
  show PC (stepAfterAfterFrameset (.chars st text)) s _
  cases st with
  | notSplit => simp only [stepAfterAfterFrameset]; exact pc_pure (charsPost_split hm text)
  | whitespace =>
    simp only [stepAfterAfterFrameset]
    refine pc_chars_delegate hbodyc hwf hm hmσ hlf hdisp ?_
    intro σ1 h1 c hc
    rw [byModeDev_afterAfterFrameset h1]
    simp only [Spec.TreeModes.afterAfterFrameset, isWs_eq_ascii, hcls c hc, if_true]
  | notWhitespace =>
    simp only [stepAfterAfterFrameset]
    refine pc_chars_ignoredErr hm hmσ hlf hdisp "after after frameset: unexpected token" ?_
    intro σ1 h1 c hc
    rw [byModeDev_afterAfterFrameset h1]
    simp only [Spec.TreeModes.afterAfterFrameset, isWs_eq_ascii, hcls c hc, Bool.false_eq_true, if_false]

/-! ### "after after body" -/

theorem sim_afterAfterBody (hbody : StepSimTok stepInBody Spec.TreeModes.inBody) :
    StepSimTok stepAfterAfterBody Spec.TreeModes.afterAfterBody := by
  intro tok hch hwf s hm
  cases tok with
  | chars st text => cases hch
  | comment text =>
    simp only [stepAfterAfterBody, stokOf, Spec.TreeModes.afterAfterBody]
    exact pc_commentToDoc hm text
  | eof =>
    simp only [stepAfterAfterBody, stokOf, Spec.TreeModes.afterAfterBody]
    exact pc_eof_stop hm
  | nullChar =>
    simp only [stepAfterAfterBody, stokOf, Spec.TreeModes.afterAfterBody, isWs_nul, Bool.false_eq_true, if_false]
    exact pc_anythingElse_inBody hm _ _
  | tag t =>
    simp only [stepAfterAfterBody, Tag.isStart, isOneOf_cons, isOneOf_nil, Bool.or_false]
    cases hk : t.kind with
    | startTag =>
      simp only [stokOf, stokOfTag_start hk, Spec.TreeModes.afterAfterBody, Spec.TreeModes.Tag.is, strIs_eq, specTag_name]
      by_cases h1 : t.name = "html".toList
      · simp +decide only [h1, if_true]
        refine pc_tokPost_congr (hbody (.tag t) rfl hwf s hm) ?_
        intro x hx
        simp only [stokOf, stokOfTag_start hk]
      · simp +decide only [h1, if_false]
        exact pc_anythingElse_inBody hm _ _
    | endTag =>
      simp +decide only [stokOf, stokOfTag_end hk, Spec.TreeModes.afterAfterBody]
      exact pc_anythingElse_inBody hm _ _

theorem modeSim_afterAfterBody (hbody : StepSimTok stepInBody Spec.TreeModes.inBody) : ModeSim .afterAfterBody := by
  intro tok hch hwf s _ hm hmode _
  refine pc_tokPost_congr (sim_afterAfterBody hbody tok hch hwf s hm) ?_
  intro x hx
  exact byModeDev_afterAfterBody (by show imode s.mode = _; rw [hmode]; rfl) _

theorem modeCharSim_afterAfterBody (hbodyc : StepSimChars stepInBody Spec.TreeModes.inBody) :
    ModeCharSim .afterAfterBody := by
  intro st text hwf s _ hm hmode hlf hdisp
  have hcls := hwf.2.2
  have hmσ : imode s.mode = .afterAfterBody := by rw [hmode]; rfl
  show PC (stepAfterAfterBody (.chars st text)) s _
  cases st with
  | notSplit => simp only [stepAfterAfterBody]; exact pc_pure (charsPost_split hm text)
  | whitespace =>
    simp only [stepAfterAfterBody]
    refine pc_chars_delegate hbodyc hwf hm hmσ hlf hdisp ?_
    intro σ1 h1 c hc
    rw [byModeDev_afterAfterBody h1]
    simp only [Spec.TreeModes.afterAfterBody, isWs_eq_ascii, hcls c hc, if_true]
  | notWhitespace =>
    simp only [stepAfterAfterBody]
    refine pc_seq (pc_unexpected_same hm) ?_
    rintro r s' calls _ ⟨-, hs, htr⟩
    refine pc_pure (charsPost_reprocessInBody hs htr hwf.1 "after after body: unexpected token" ?_)
    intro x hx c hc
    rw [byModeDev_afterAfterBody hmσ]
    simp only [Spec.TreeModes.afterAfterBody, isWs_eq_ascii, hcls c hc, Bool.false_eq_true, if_false]

/-! ### "after body" -/

theorem sim_afterBody (hbody : StepSimTok stepInBody Spec.TreeModes.inBody) :
    StepSimTok stepAfterBody Spec.TreeModes.afterBody := by
  intro tok hch hwf s hm
  cases tok with
  | chars st text => cases hch
  | comment text =>
    simp only [stepAfterBody, stokOf, Spec.TreeModes.afterBody]
    refine pc_conseq (pc_appendCommentToHtml hm text) ?_
    rintro r s' calls _ ⟨rfl, -, htr⟩
    refine tokPost_of_tr htr trivial ?_
    rintro x x' hx hx' ⟨html, hh, hr⟩
    refine ⟨x', ?_, AuxSame.rfl', Or.inl rfl, rfl, rfl⟩
    simp only [hh, Spec.TreeModes.req]
    show (Step.done <$> Spec.TreeModes.insertCommentIn (absF s x) html.id text) = _
    rw [hr]
    rfl
  | eof =>
    simp only [stepAfterBody, stokOf, Spec.TreeModes.afterBody]
    exact pc_eof_stop hm
  | nullChar =>
    simp only [stepAfterBody, stokOf, Spec.TreeModes.afterBody, isWs_nul, Bool.false_eq_true, if_false]
    exact pc_anythingElse_inBody hm _ _
  | tag t =>
    simp only [stepAfterBody, Tag.isStart, Tag.isEnd, isOneOf_cons, isOneOf_nil, Bool.or_false]
    cases hk : t.kind with
    | startTag =>
      simp only [stokOf, stokOfTag_start hk, Spec.TreeModes.afterBody, Spec.TreeModes.Tag.is, strIs_eq, specTag_name]
      by_cases h1 : t.name = "html".toList
      · simp +decide only [h1, if_true]
        refine pc_tokPost_congr (hbody (.tag t) rfl hwf s hm) ?_
        intro x hx
        simp only [stokOf, stokOfTag_start hk]
      · simp +decide only [h1, if_false]
        exact pc_anythingElse_inBody hm _ _
    | endTag =>
      simp only [stokOf, stokOfTag_end hk, Spec.TreeModes.afterBody, Spec.TreeModes.Tag.is, strIs_eq, specTag_name]
      by_cases h1 : t.name = "html".toList
      · simp +decide only [h1, if_true, if_false]
        refine pc_seq (pc_isFragment hm) ?_
        rintro b s1 c1 _ ⟨rfl, rfl, hb, -⟩
        cases hctx : s1.contextElem with
        | some ce =>
          have hc : (cfgOf s1).context.isSome = true := by simp [cfgOf, hctx]
          simp only [hb, hctx, Option.isSome_some, if_true, hc, List.nil_append]
          exact pc_unexpected_done hm _ _
        | none =>
          have hc : (cfgOf s1).context.isSome = false := by simp [cfgOf, hctx]
          simp only [hb, hctx, Option.isSome_none, Bool.false_eq_true, if_false, hc, List.nil_append]
          exact pc_setMode_done hm _ (by decide) _
      · simp +decide only [h1, if_false]
        exact pc_anythingElse_inBody hm _ _

theorem modeSim_afterBody (hbody : StepSimTok stepInBody Spec.TreeModes.inBody) : ModeSim .afterBody := by
  intro tok hch hwf s _ hm hmode _
  refine pc_tokPost_congr (sim_afterBody hbody tok hch hwf s hm) ?_
  intro x hx
  exact byModeDev_afterBody (by show imode s.mode = _; rw [hmode]; rfl) _

theorem modeCharSim_afterBody (hbodyc : StepSimChars stepInBody Spec.TreeModes.inBody) :
    ModeCharSim .afterBody := by
  intro st text hwf s _ hm hmode hlf hdisp
  have hcls := hwf.2.2
  have hmσ : imode s.mode = .afterBody := by rw [hmode]; rfl
  show PC (stepAfterBody (.chars st text)) s _
  cases st with
  | notSplit => simp only [stepAfterBody]; exact pc_pure (charsPost_split hm text)
  | whitespace =>
    simp only [stepAfterBody]
    refine pc_chars_delegate hbodyc hwf hm hmσ hlf hdisp ?_
    intro σ1 h1 c hc
    rw [byModeDev_afterBody h1]
    simp only [Spec.TreeModes.afterBody, isWs_eq_ascii, hcls c hc, if_true]
  | notWhitespace =>
    simp only [stepAfterBody]
    refine pc_seq (pc_unexpected_same hm) ?_
    rintro r s' calls _ ⟨-, hs, htr⟩
    refine pc_pure (charsPost_reprocessInBody hs htr hwf.1 "after body: unexpected token" ?_)
    intro x hx c hc
    rw [byModeDev_afterBody hmσ]
    simp only [Spec.TreeModes.afterBody, isWs_eq_ascii, hcls c hc, Bool.false_eq_true, if_false]

/-! ### "in frameset" -/

theorem absF_stack_length {s : State} {x : Aux} (hx : AuxOk s x) : (absF s x).p.stack.length = s.openElems.length := by
  rw [absF_stack hx]; simp [absStack]

theorem sim_inFrameset (hhead : StepSimTok stepInHead Spec.TreeModes.inHead)
    (hbody : StepSimTok stepInBody Spec.TreeModes.inBody) :
    StepSimTok stepInFrameset Spec.TreeModes.inFrameset := by
  intro tok hch hwf s hm
  cases tok with
  | chars st text => cases hch
  | comment text =>
    simp only [stepInFrameset]
    refine pc_conseq (pc_appendComment' hm text) ?_
    rintro r s' calls _ ⟨rfl, htr⟩
    refine tokPost_of_tr htr trivial ?_
    intro x x' hx hx' hr
    refine ⟨x', ?_, AuxSame.rfl', Or.inl rfl, rfl, rfl⟩
    simp only [stokOf, Spec.TreeModes.inFrameset, hr]
    rfl
  | eof =>
    simp only [stepInFrameset, stokOf, Spec.TreeModes.inFrameset]
    refine pc_getS_bind ?_
    by_cases hl : s.openElems.length = 1
    · have hne : (s.openElems.length != 1) = false := by simp [hl]
      simp only [hne, Bool.false_eq_true, if_false]
      refine pc_pure (tokPost_of_tr (Tr.refl hm) trivial ?_)
      intro x x' hx hx' hr
      subst x'
      refine ⟨{ x with stopped := true }, ?_, ⟨rfl, rfl, rfl, rfl, rfl⟩, Or.inr ⟨rfl, rfl⟩, rfl, rfl⟩
      have : Spec.TreeModes.curIsRoot (absF s x) = true := by
        simp [Spec.TreeModes.curIsRoot, absF_stack_length hx, hl]
      simp only [this, if_true]
      rfl
    · have hne : (s.openElems.length != 1) = true := by simp [hl]
      simp only [hne, if_true]
      refine pc_seq (pc_unexpected hm) ?_
      rintro r s' calls _ ⟨-, htr⟩
      refine pc_pure (tokPost_of_tr (by rw [List.append_nil]; exact htr) trivial ?_)
      rintro x x' hx hx' ⟨hr, he⟩
      subst x'
      refine ⟨(x.errJunk "in frameset: end of file" x.pendingJunk).stop, ?_, ⟨rfl, rfl, rfl, rfl, rfl⟩, Or.inr ⟨rfl, rfl⟩, rfl, rfl⟩
      have : Spec.TreeModes.curIsRoot (absF s x) = false := by
        simp [Spec.TreeModes.curIsRoot, absF_stack_length hx, hl]
      simp only [this, Bool.false_eq_true, if_false, stepOf]
      rw [he]
      rfl
  | nullChar =>
    simp only [stepInFrameset, stokOf, Spec.TreeModes.inFrameset, isWs_nul, Bool.false_eq_true, if_false]
    exact pc_unexpected_err hm _ _
  | tag t =>
    simp only [stepInFrameset, Tag.isStart, Tag.isEnd, isOneOf_cons, isOneOf_nil, Bool.or_false]
    cases hk : t.kind with
    | startTag =>
      simp only [stokOf, stokOfTag_start hk, Spec.TreeModes.inFrameset, Spec.TreeModes.Tag.is, strIs_eq, specTag_name]
      by_cases h1 : t.name = "html".toList
      · simp +decide only [h1, if_true]
        refine pc_tokPost_congr (hbody (.tag t) rfl hwf s hm) ?_
        intro x hx
        simp only [stokOf, stokOfTag_start hk]
      · by_cases h2 : t.name = "frameset".toList
        · simp +decide only [h2, if_true, if_false]
          refine pc_seq (pc_insertElementFor' hm (hwf : TagWf t).plain) ?_
          rintro a s' calls _ ⟨-, -, -, -, -, htr⟩
          refine pc_pure (tokPost_of_tr (by rw [List.append_nil]; exact htr) trivial ?_)
          intro x x' hx hx' hr
          refine ⟨x', ?_, AuxSame.rfl', Or.inl rfl, rfl, rfl⟩
          simp only [hr]
          rfl
        · by_cases h3 : t.name = "frame".toList
          · simp +decide only [h3, if_true, if_false]
            refine pc_seq (pc_insertVoid hm (hwf : TagWf t).plain) ?_
            rintro a s' calls _ ⟨-, -, -, -, -, htr⟩
            refine pc_pure (tokPost_of_tr (by rw [List.append_nil]; exact htr) trivial ?_)
            intro x x' hx hx' hr
            refine ⟨x', ?_, AuxSame.rfl', Or.inl rfl, rfl, rfl⟩
            simp only [hr]
            rfl
          · by_cases h4 : t.name = "noframes".toList
            · simp +decide only [h4, if_true, if_false]
              refine pc_tokPost_congr (hhead (.tag t) rfl hwf s hm) ?_
              intro x hx
              simp only [stokOf, stokOfTag_start hk]
            · simp +decide only [h1, h2, h3, h4, if_false]
              exact pc_unexpected_err hm _ _
    | endTag =>
      simp only [stokOf, stokOfTag_end hk, Spec.TreeModes.inFrameset, Spec.TreeModes.Tag.is, strIs_eq, specTag_name]
      by_cases h1 : t.name = "frameset".toList
      · simp +decide only [h1, if_true, if_false]
        refine pc_getS_bind ?_
        by_cases hl : s.openElems.length = 1
        · have hb1 : (s.openElems.length == 1) = true := by simp [hl]
          simp only [hb1, if_true]
          refine pc_tokPost_congr (pc_unexpected_done hm _ "in frameset: frameset end tag at the root") ?_
          intro x hx
          have : Spec.TreeModes.curIsRoot (absF s x) = true := by
            simp [Spec.TreeModes.curIsRoot, absF_stack_length hx, hl]
          simp only [this, if_true]
        · have hb1 : (s.openElems.length == 1) = false := by simp [hl]
          have hroot : ∀ x, AuxOk s x → Spec.TreeModes.curIsRoot (absF s x) = false := fun x hx => by
            simp [Spec.TreeModes.curIsRoot, absF_stack_length hx, hl]
          simp only [hb1, Bool.false_eq_true, if_false]
          refine pc_seq (pc_pop hm) ?_
          rintro h s1 c1 _ ⟨-, -, -, htr1⟩
          have hm1 : MInv s1 := htr1.1
          have hc1 : cfgOf s1 = cfgOf s := htr1.2.1
          refine pc_seq (pc_isFragment hm1) ?_
          rintro b s2 c2 _ ⟨rfl, rfl, hb, -⟩
          have hctx : (cfgOf s).context.isNone = !s2.contextElem.isSome := by
            rw [← hc1]; cases hh : s2.contextElem <;> simp [cfgOf, hh]
          cases hfr : s2.contextElem.isSome with
          | true =>
            simp only [hb, hfr, if_true, pure_bind, Bool.false_eq_true, if_false]
            refine pc_pure ?_
            simp only [List.append_nil]
            refine tokPost_of_tr htr1 trivial ?_
            rintro x x' hx hx' ⟨hxx, e, -⟩
            subst x'
            refine ⟨x, ?_, AuxSame.rfl', Or.inl rfl, rfl, rfl⟩
            simp only [hroot x hx, hctx, hfr, Bool.not_true, Bool.false_and, Bool.false_eq_true, if_false, stepOf, e]
            rfl
          | false =>
            simp only [hb, hfr, Bool.false_eq_true, if_false]
            refine pc_seq (pc_currentNodeNamed hm1 "frameset") ?_
            rintro b3 s3 c3 _ htr3
            have hm3 : MInv s3 := htr3.1
            simp only [pure_bind]
            cases b3 with
            | true =>
              simp only [Bool.not_true, Bool.false_eq_true, if_false]
              refine pc_pure ?_
              simp only [List.nil_append, List.append_nil]
              refine tokPost_of_tr (htr1.trans htr3) trivial ?_
              rintro x x'' hx hx'' ⟨x1, ⟨hx1, e1, -⟩, hx3, e3, hb3⟩
              subst hx3
              subst hx1
              refine ⟨x'', ?_, AuxSame.rfl', Or.inl rfl, rfl, rfl⟩
              rw [e1] at hb3
              simp only [hroot x'' hx, hctx, hfr, ← hb3, Bool.not_true, Bool.and_false, Bool.false_eq_true, if_false, stepOf]
              rw [← e3, e1]
              rfl
            | false =>
              simp only [Bool.not_false, if_true]
              refine pc_seq (pc_setMode hm3 _) ?_
              rintro _ s4 c4 _ ⟨rfl, htr4⟩
              refine pc_pure ?_
              simp only [List.nil_append, List.append_nil, ← List.append_assoc]
              refine tokPost_of_tr ((htr1.trans htr3).trans htr4) trivial ?_
              rintro x x'' hx hx'' ⟨x3, ⟨x1, ⟨hx1, e1, -⟩, hx3, e3, hb3⟩, hx4⟩
              subst hx4
              subst hx3
              subst hx1
              refine ⟨{ x'' with pendingJunk := (absF s3 x'').pendingTableChars }, ?_, ⟨rfl, rfl, rfl, rfl, rfl⟩, Or.inl rfl, rfl, rfl⟩
              rw [e1] at hb3
              simp only [hroot x'' hx, hctx, hfr, ← hb3, Bool.not_false, Bool.and_true, Bool.false_eq_true, if_false, if_true, stepOf]
              rw [← e1, e3]
              rfl
      · simp +decide only [h1, if_false]
        exact pc_unexpected_err hm _ _

theorem modeSim_inFrameset (hhead : StepSimTok stepInHead Spec.TreeModes.inHead)
    (hbody : StepSimTok stepInBody Spec.TreeModes.inBody) : ModeSim .inFrameset := by
  intro tok hch hwf s _ hm hmode _
  refine pc_tokPost_congr (sim_inFrameset hhead hbody tok hch hwf s hm) ?_
  intro x hx
  exact byModeDev_inFrameset (by show imode s.mode = _; rw [hmode]; rfl) _

theorem modeCharSim_inFrameset : ModeCharSim .inFrameset := by
  intro st text hwf s _ hm hmode hlf hdisp
  have hcls := hwf.2.2
  have hmσ : imode s.mode = .inFrameset := by rw [hmode]; rfl
  show PC (stepInFrameset (.chars st text)) s _
  cases st with
  | notSplit => simp only [stepInFrameset]; exact pc_pure (charsPost_split hm text)
  | whitespace =>
    simp only [stepInFrameset]
    refine pc_chars_insert hm hmσ hlf hdisp ?_
    intro σ1 h1 c hc
    rw [byModeDev_inFrameset h1]
    simp only [Spec.TreeModes.inFrameset, isWs_eq_ascii, hcls c hc, if_true]
  | notWhitespace =>
    simp only [stepInFrameset]
    refine pc_chars_ignoredErr hm hmσ hlf hdisp "in frameset: unexpected token" ?_
    intro σ1 h1 c hc
    rw [byModeDev_inFrameset h1]
    simp only [Spec.TreeModes.inFrameset, isWs_eq_ascii, hcls c hc, Bool.false_eq_true, if_false]

end H5V.Lemmas.HtmlTBModes
