import H5V.Lemmas.HtmlTBReachActions
/-!
C18, tree-builder side, part 3: the list of active formatting elements, "any other end tag", the
adoption agency, reset-the-insertion-mode, foreign content (`PV` for the second half of `mod.rs`).
-/
namespace H5V.Props.C18
open H5V.Model.Dom (Id QualName Attr NodeOrText SinkOp Output ElementFlags QuirksMode Dom)
open H5V.Model.HtmlTB
open H5V.Lemmas.TBM

theorem pv_rpositionLoop (p : Id → M Bool) (c0 : List Id) (hp : PredOk c0 p) :
    ∀ (c : List Id) (l : List Id) (n : Nat), (∀ x ∈ l, x ∈ c) → (∀ x ∈ c0, x ∈ c) → PV c (rpositionLoop p l n) nil
  | c, [], _, _, _ => by unfold rpositionLoop; pv_walk
  | c, e :: rest, n, hl, h0 => by
    have ih := fun c' => pv_rpositionLoop p c0 hp c' rest
    unfold rpositionLoop
    refine PV.bind (hp c e (hl e (by simp)) h0) fun b => ?_
    pv_walk
    all_goals first | (apply ih <;> mem_tac) | skip

theorem pv_rposition {c : List Id} (p : Id → M Bool) (c0 : List Id) (hp : PredOk c0 p)
    (h0 : ∀ x ∈ c0, x ∈ c) : PV c (rposition p) nil := by
  unfold rposition
  refine PV.getS_bind fun s => PV.at ?_ s
  exact pv_rpositionLoop p c0 hp _ _ _ (by mem_tac) (by mem_tac)

theorem pv_rposition_sameNode_l {c : List Id} (x : Id) (hx : x ∈ c) : PV c (rposition (fun n => sameNode x n)) nil :=
  pv_rposition _ [x] (predOk_sameNode_l x) (by mem_tac)
macro_rules | `(tactic| pv_leaf) => `(tactic| (with_reducible apply pv_rposition_sameNode_l) <;> mem_tac)
theorem pv_rposition_sameNode_r {c : List Id} (x : Id) (hx : x ∈ c) : PV c (rposition (fun n => sameNode n x)) nil :=
  pv_rposition _ [x] (predOk_sameNode_r x) (by mem_tac)
macro_rules | `(tactic| pv_leaf) => `(tactic| (with_reducible apply pv_rposition_sameNode_r) <;> mem_tac)

/-- a state update that changes handle-holding fields: everything held afterwards was held or in flight -/
macro_rules | `(tactic| pv_leaf) => `(tactic| ((with_reducible apply pv_modS); (intro _; rfl); first | held_tac | mem_tac))

theorem pv_removeFromStack {c : List Id} (e : Id) (he : e ∈ c) : PV c (removeFromStack e) nil := by
  unfold removeFromStack; pv_walk
macro_rules | `(tactic| pv_leaf) => `(tactic| (with_reducible apply pv_removeFromStack) <;> mem_tac)

/-! ### the list of active formatting elements -/

/-- the handles of a list of entries are in flight -/
def AfIn (c : List Id) (l : List FormatEntry) : Prop := ∀ x t, FormatEntry.element x t ∈ l → x ∈ c

theorem pv_positionInAFLoop (e : Id) : ∀ (c : List Id) (l : List FormatEntry) (i : Nat), e ∈ c → AfIn c l →
    PV c (positionInAFLoop e l i) nil
  | c, [], _, _, _ => by unfold positionInAFLoop; pv_walk
  | c, .marker :: rest, i, he, hl => by
    unfold positionInAFLoop
    exact pv_positionInAFLoop e c rest _ he (fun x t hm => hl x t (List.mem_cons_of_mem _ hm))
  | c, .element h t :: rest, i, he, hl => by
    have ih := fun c' => pv_positionInAFLoop e c' rest
    have hh : h ∈ c := hl h t (by simp)
    have hr : AfIn c rest := fun x t hm => hl x t (List.mem_cons_of_mem _ hm)
    unfold positionInAFLoop; pv_walk
    all_goals first | (apply ih <;> first | mem_tac | (intro x t hm; have := hr x t hm; mem_tac)) | skip

theorem pv_positionInActiveFormatting {c : List Id} (e : Id) (he : e ∈ c) : PV c (positionInActiveFormatting e) nil := by
  unfold positionInActiveFormatting
  refine PV.getS_bind fun s => PV.at ?_ s
  refine pv_positionInAFLoop e _ _ _ (by mem_tac) ?_
  intro x t hm
  have : x ∈ held s := mem_held.mpr (Or.inr (Or.inr (Or.inl (mem_afIds.mpr ⟨t, hm⟩))))
  mem_tac
macro_rules | `(tactic| pv_leaf) => `(tactic| (with_reducible apply pv_positionInActiveFormatting) <;> mem_tac)

theorem pv_setAF {c : List Id} (af : List FormatEntry) (h : AfIn c af) : PV c (setAF af) nil := by
  unfold setAF
  refine pv_modS (fun _ => rfl) ?_
  intro s x hx
  simp only [mem_held, mem_afIds] at hx ⊢
  rcases hx with hx | hx | ⟨t, hx⟩ | hx
  · exact Or.inl (Or.inl hx)
  · exact Or.inl (Or.inr (Or.inl hx))
  · exact Or.inr (h x t hx)
  · exact Or.inl (Or.inr (Or.inr (Or.inr hx)))

theorem pv_afRemove {c : List Id} (i : Nat) (site : String) : PV c (afRemove i site) nil := by
  unfold afRemove
  refine PV.getS_bind fun s => PV.at ?_ s
  dsimp only
  refine PV.iteH (fun _ => pv_setAF _ ?_) (fun _ => PV.panicAt _ _ _)
  intro x t hm
  have : x ∈ held s := mem_held.mpr (Or.inr (Or.inr (Or.inl (mem_afIds.mpr ⟨t, List.mem_of_mem_eraseIdx hm⟩))))
  mem_tac
macro_rules | `(tactic| pv_leaf) => `(tactic| with_reducible exact pv_afRemove _ _)

theorem pv_anySameNodeRev (node : Id) : ∀ (c : List Id) (l : List Id), node ∈ c → (∀ x ∈ l, x ∈ c) →
    PV c (anySameNodeRev node l) nil
  | c, [], _, _ => by unfold anySameNodeRev; pv_walk
  | c, e :: rest, hn, hl => by
    have ih := fun c' => pv_anySameNodeRev node c' rest
    unfold anySameNodeRev; pv_walk
    all_goals first | (apply ih <;> mem_tac) | skip
macro_rules | `(tactic| pv_leaf) => `(tactic| (with_reducible apply pv_anySameNodeRev) <;> mem_tac)

theorem pv_isMarkerOrOpen {c : List Id} (e : FormatEntry) (he : ∀ x ∈ feH e, x ∈ c) : PV c (isMarkerOrOpen e) nil := by
  cases e <;> (unfold isMarkerOrOpen; pv_walk)
macro_rules | `(tactic| pv_leaf) => `(tactic| (with_reducible apply pv_isMarkerOrOpen) <;> mem_tac)

attribute [pv_mem] AfIn

macro_rules | `(tactic| pv_leaf) => `(tactic| (with_reducible apply pv_setAF) <;> mem_tac)

theorem pv_reconstructRewind : ∀ (c : List Id) (n : Nat), PV c (reconstructRewind n) nil
  | c, 0 => by unfold reconstructRewind; pv_walk
  | c, i + 1 => by
    have ih := fun c' => pv_reconstructRewind c' i
    unfold reconstructRewind; pv_walk
    all_goals first | exact ih _ | skip
macro_rules | `(tactic| pv_leaf) => `(tactic| with_reducible exact pv_reconstructRewind _ _)

theorem pv_reconstructCreate : ∀ (c : List Id) (fuel i : Nat), PV c (reconstructCreate fuel i) nil
  | c, 0, _ => by unfold reconstructCreate; pv_walk
  | c, fuel + 1, i => by
    have ih := fun c' => pv_reconstructCreate c' fuel
    unfold reconstructCreate; pv_walk
    all_goals first | exact ih _ _ | skip
macro_rules | `(tactic| pv_leaf) => `(tactic| with_reducible exact pv_reconstructCreate _ _ _)

theorem pv_reconstructActiveFormattingElements {c : List Id} : PV c reconstructActiveFormattingElements nil := by
  unfold reconstructActiveFormattingElements; pv_walk
macro_rules | `(tactic| pv_leaf) => `(tactic| with_reducible exact pv_reconstructActiveFormattingElements)

theorem pv_createFormattingElementFor {c : List Id} (t : Tag) : PV c (createFormattingElementFor t) one := by
  unfold createFormattingElementFor; pv_walk
macro_rules | `(tactic| pv_leaf) => `(tactic| with_reducible exact pv_createFormattingElementFor _)

theorem mem_clearToMarkerRev {e : FormatEntry} : ∀ {l : List FormatEntry}, e ∈ clearToMarkerRev l → e ∈ l
  | [], h => nomatch h
  | .marker :: rest, h => List.mem_cons_of_mem _ h
  | .element _ _ :: rest, h => List.mem_cons_of_mem _ (mem_clearToMarkerRev (l := rest) h)

theorem pv_clearActiveFormattingToMarker {c : List Id} : PV c clearActiveFormattingToMarker nil := by
  unfold clearActiveFormattingToMarker
  refine pv_modS (fun _ => rfl) ?_
  intro s x hx
  simp only [mem_held, mem_afIds, List.mem_reverse] at hx ⊢
  rcases hx with hx | hx | ⟨t, hx⟩ | hx
  · exact Or.inl (Or.inl hx)
  · exact Or.inl (Or.inr (Or.inl hx))
  · exact Or.inl (Or.inr (Or.inr (Or.inl ⟨t, by simpa using mem_clearToMarkerRev hx⟩)))
  · exact Or.inl (Or.inr (Or.inr (Or.inr hx)))
macro_rules | `(tactic| pv_leaf) => `(tactic| with_reducible exact pv_clearActiveFormattingToMarker)

/-! ### "any other end tag" -/

theorem pv_endTagSearch (name : Str) : ∀ (c : List Id) (l : List Id) (n : Nat), (∀ x ∈ l, x ∈ c) →
    PV c (endTagSearch name l n) nil
  | c, [], _, _ => by unfold endTagSearch; pv_walk
  | c, e :: rest, n, hl => by
    have ih := fun c' => pv_endTagSearch name c' rest
    unfold endTagSearch; pv_walk
    all_goals first | (apply ih; mem_tac) | skip
macro_rules | `(tactic| pv_leaf) => `(tactic| (with_reducible apply pv_endTagSearch) <;> mem_tac)

theorem pv_processEndTagInBody {c : List Id} (t : Tag) : PV c (processEndTagInBody t) nil := by
  unfold processEndTagInBody; pv_walk
macro_rules | `(tactic| pv_leaf) => `(tactic| with_reducible exact pv_processEndTagInBody _)

/-! ### the adoption agency -/

/-- the handle in the answer of `find_furthest_block` -/
abbrev fbH : Option (Nat × Id) → List Id := fun o => (o.map Prod.snd).toList

theorem pv_findFurthestBlock : ∀ (c : List Id) (l : List Id) (i : Nat), (∀ x ∈ l, x ∈ c) →
    PV c (findFurthestBlock l i) fbH
  | c, [], _, _ => by unfold findFurthestBlock; pv_walk
  | c, e :: rest, i, hl => by
    have ih := fun c' => pv_findFurthestBlock c' rest
    unfold findFurthestBlock; pv_walk
    all_goals first | (apply ih; mem_tac) | skip
macro_rules | `(tactic| pv_leaf) => `(tactic| (with_reducible apply pv_findFurthestBlock) <;> mem_tac)

theorem pv_positionSameNode (x : Id) : ∀ (c : List Id) (l : List Id) (i : Nat), x ∈ c → (∀ y ∈ l, y ∈ c) →
    PV c (positionSameNode x l i) nil
  | c, [], _, _, _ => by unfold positionSameNode; pv_walk
  | c, e :: rest, i, hx, hl => by
    have ih := fun c' => pv_positionSameNode x c' rest
    unfold positionSameNode; pv_walk
    all_goals first | (apply ih <;> mem_tac) | skip
macro_rules | `(tactic| pv_leaf) => `(tactic| (with_reducible apply pv_positionSameNode) <;> mem_tac)

/-- the handle of a bookmark -/
def bmH : Bookmark → List Id
  | .replace h => [h]
  | .insertAfter h => [h]
@[pv_mem] theorem bmH_replace (h : Id) : bmH (.replace h) = [h] := rfl
@[pv_mem] theorem bmH_insertAfter (h : Id) : bmH (.insertAfter h) = [h] := rfl

/-- the handles in the answer of the inner loop: `(last_node, bookmark)` -/
abbrev aaH : Id × Bookmark → List Id := fun p => p.1 :: bmH p.2

end H5V.Props.C18
