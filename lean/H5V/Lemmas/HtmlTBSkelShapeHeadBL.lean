import H5V.Lemmas.HtmlTBSkelShapeTmpl
/-!
C06, second invariant layer, part 27: the head-only tags (`base`, `link`, `meta`, `title`, `style`,
`noframes`, `script`, `template`) as the InBody rules delegate them to the InHead rules.
-/
namespace H5V.Props.C06
open H5V.Model.Dom hiding Str
open H5V.Model.HtmlTB hiding Str
open H5V.Lemmas.Dom
set_option synthInstance.maxSize 4096
set_option synthInstance.maxHeartbeats 400000

theorem plainStr_of_mem {name : Str} {l : List String} (hl : ∀ a ∈ l, keepName (hN a) = false)
    (h : ∃ a ∈ l, name = a.toList) : PlainStr name := by
  obtain ⟨a, ha, rfl⟩ := h
  exact ⟨hl a ha⟩

/-- the nodes of an insertion place are on the stack, or template contents -/
theorem ares_cand {s : State} {t x : Id} {ip : InsertionPoint} (hbase : DomBase s.dom) (ha : ARes s t ip)
    (ht : t ∈ s.openElems) (hx : x ∉ s.openElems) (hxe : s.dom.isElement x = true) :
    ∀ p, ip.nodes.1 = p ∨ ip.nodes.2 = some p → p ≠ x := by
  have htc : ∀ t' tc, s.dom.templateContentsOf t' = some tc → tc ≠ x := by
    intro t' tc h1
    rintro rfl
    have hdoc := (hbase.tcOk t' _ h1).2
    unfold Dom.isElement at hxe
    rw [hdoc] at hxe; cases hxe
  intro p hp
  cases ha with
  | plain =>
    simp only [InsertionPoint.nodes] at hp
    rcases hp with rfl | hp
    · rintro rfl; exact hx ht
    · cases hp
  | tmpl tc h1 _ =>
    simp only [InsertionPoint.nodes] at hp
    rcases hp with rfl | hp
    · exact htc _ _ h1
    · cases hp
  | foster ip' _ _ hres =>
    cases hres with
    | tmpl t' tc _ h1 =>
      simp only [InsertionPoint.nodes] at hp
      rcases hp with rfl | hp
      · exact htc _ _ h1
      · cases hp
    | table pre post e p' hl hn =>
      simp only [InsertionPoint.nodes, Option.some.injEq] at hp
      have he : e ∈ s.openElems := by
        rw [← List.mem_reverse, hl]; simp
      have hp' : p' ∈ s.openElems := by
        rw [← List.mem_reverse, hl]; simp
      rcases hp with rfl | rfl
      · rintro rfl; exact hx he
      · rintro rfl; exact hx hp'
    | bottom h hh _ =>
      simp only [InsertionPoint.nodes] at hp
      rcases hp with rfl | hp
      · rintro rfl
        exact hx (List.mem_of_mem_head? hh)
      · cases hp

/-- the nodes of an insertion place are open elements or template contents of open elements -/
theorem ares_nodes {s : State} {t : Id} {ip : InsertionPoint} (ha : ARes s t ip) (ht : t ∈ s.openElems) :
    ∀ p, ip.nodes.1 = p ∨ ip.nodes.2 = some p →
      p ∈ s.openElems ∨ ∃ t' ∈ s.openElems, s.dom.templateContentsOf t' = some p := by
  intro p hp
  cases ha with
  | plain =>
    simp only [InsertionPoint.nodes] at hp
    rcases hp with rfl | hp
    · exact Or.inl ht
    · cases hp
  | tmpl tc h1 _ =>
    simp only [InsertionPoint.nodes] at hp
    rcases hp with rfl | hp
    · exact Or.inr ⟨t, ht, h1⟩
    · cases hp
  | foster ip' _ _ hres =>
    cases hres with
    | tmpl t' tc ht' h1 =>
      simp only [InsertionPoint.nodes] at hp
      rcases hp with rfl | hp
      · exact Or.inr ⟨t', List.mem_reverse.mp ht', h1⟩
      · cases hp
    | table pre post e p' hl hn =>
      simp only [InsertionPoint.nodes, Option.some.injEq] at hp
      have he : e ∈ s.openElems := by
        rw [← List.mem_reverse, hl]; simp
      have hp' : p' ∈ s.openElems := by
        rw [← List.mem_reverse, hl]; simp
      rcases hp with rfl | rfl
      · exact Or.inl he
      · exact Or.inl hp'
    | bottom h hh _ =>
      simp only [InsertionPoint.nodes] at hp
      rcases hp with rfl | hp
      · exact Or.inl (List.mem_of_mem_head? hh)
      · cases hp

/-- the `<script>` arm in a body-like mode -/
theorem rb_script {tag : Tag} (h : tag.isStart ["script"] = true) : RB (stepInHead (.tag tag)) :=
  ⟨fun m r ph s res s' hb hm hbl e => by
    unfold stepInHead at e
    dsimp only at e
    have hs : ∀ l, (∀ a ∈ ["script"], a ∉ l) → ¬ (tag.isStart l = true) := fun l hl => by
      rw [isStart_name h hl]; simp
    rw [if_neg (hs _ (by decide)), if_neg (hs _ (by decide)), if_neg (hs _ (by decide)), if_neg (hs _ (by decide)),
      if_pos h] at e
    obtain ⟨up, hc, hbb, hneed, _⟩ := id hb
    obtain ⟨el, s1, e1, e2⟩ := bind_ok.mp e
    obtain ⟨hc1, hdo1, hchg1, hfresh1, hel1, hnm1, hnol1⟩ := createElement_core hc e1
    obtain ⟨_, hpar1, hkids1, htxt1, htc1, _, _, _, hda1⟩ := createElement_adj hc.late hc.adj e1
    have hsn1 := hc.sameNames hchg1
    have hb1 : Big m r ph s1 := by
      refine ⟨up, hc1, ?_, hneed.congr hsn1, FPok.triv _ _⟩
      have : s1.headElem = s.headElem := by rw [hdo1]
      rw [this]; exact hbb.congr hsn1
    have hfr1 : el ∉ s1.openElems := by
      rw [hdo1]; intro hmem
      exact Nat.lt_irrefl _ (Nat.lt_of_lt_of_le (lt_of_isElement (hc.late.st.oe el hmem)) hfresh1)
    obtain ⟨fr, s2, e3, e4⟩ := bind_ok.mp e2
    obtain ⟨rfl, rfl⟩ := not_fragment hc1.late e3
    simp only [Bool.false_eq_true, if_false] at e4
    obtain ⟨_, s4, e6, e7⟩ := bind_ok.mp e4
    unfold insertAppropriately at e6
    obtain ⟨ip, s3, e8, e9⟩ := bind_ok.mp e6
    obtain ⟨q3, t, ht, hares⟩ := apfi_sem e8
    obtain ⟨_, _, hipok3⟩ := apfi_spec hb1.late e8
    simp only at ht
    have hipr : IpR r s2.dom ip := hb1.ipR (hb1.current ht) hares
    have hc3 := hc1.qs q3
    have hipr3 : IpR r s3.dom ip := hipr.rs (RS.of_nodes q3.nodes)
    have hnol3 : ∀ q, el ∉ s3.dom.childrenOf q := fun q => by
      rw [childrenOf_of_nodes q3.nodes]; exact hnol1 q
    have hel3 : s3.dom.isElement el = true := by rw [isElement_of_nodes q3.nodes]; exact hel1
    obtain ⟨hl5, hext5, hk05, hdo5⟩ := insertAt_spec (child := .node el) hc3.late hipok3
      (Loose.childOk ⟨hel3, hnol3 0⟩) e9
    have hrs : RS r s3.dom s4.dom := by
      refine insertAt_rs (child := .node el) hc3.late.base hc3.rtu hipr3 ⟨hnol3 r, ?_⟩ e9
      exact ares_cand hc1.late.base hares (hb1.current ht).1 hfr1 hel1
    have hcand := ares_cand hc1.late.base hares (hb1.current ht).1 hfr1 hel1
    -- an insertion place consists of old nodes
    have hipn : ∀ p, ip.nodes.1 = p ∨ ip.nodes.2 = some p → p < s.dom.size := by
      intro p hp
      rcases ares_nodes hares (hb1.current ht).1 p hp with h1 | ⟨t', ht', htc'⟩
      · rw [hdo1] at h1
        exact lt_of_isElement (hc.late.st.oe p h1)
      · rw [hdo1] at ht'
        have hlt : t' < s.dom.size := lt_of_isElement (hc.late.st.oe t' ht')
        rw [tc_of_data (hda1 t' hlt)] at htc'
        exact lt_of_data (hc.late.base.tcOk t' p htc').2
    have hst3 : s3.openElems = s.openElems := by rw [q3.openElems, hdo1]
    obtain ⟨hadj5, hadj5p⟩ := insertAt_new_adj (el := el) hc3.late hipok3 hc3.adj
      (by rw [q3.openElems]; exact hfr1)
      (by rw [parentOf_of_nodes q3.nodes]; exact hpar1)
      (by rw [isText_of_data (d := s2.dom) (by unfold Dom.dataOf; rw [q3.nodes])]; exact htxt1)
      (by rw [childrenOf_of_nodes q3.nodes]; exact hkids1)
      (fun tc htc => by
        rw [tc_of_nodes q3.nodes] at htc
        obtain ⟨h1, h2⟩ := htc1 tc htc
        exact ⟨by rw [childrenOf_of_nodes q3.nodes]; exact h1,
          fun p hp => Nat.ne_of_lt (Nat.lt_of_lt_of_le (hipn p hp) h2)⟩)
      hcand
      (fun P a b x hP hpos hxa hxO hxx => by
        refine hb1.no_open_before ht hares P a b x (by rw [← childrenOf_of_nodes q3.nodes]; exact hP)
          (hpos.congr (fun y => (childrenOf_of_nodes q3.nodes y).symm) (fun p _ => (parentOf_of_nodes q3.nodes p).symm))
          hxa (by rw [← q3.openElems]; exact hxO) (by rw [← q3.nm]; exact hxx))
      e9
    have hoe43 : s4.openElems = s3.openElems := by rw [hdo5]
    have hc4 : Core s4 r up ph := hc3.transfer hl5 hext5.chg hrs (by rw [hk05]; exact hc3.rdoc)
      (by rw [hdo5]) (by rw [hdo5]) (by rw [hdo5]) (by rw [hdo5]) (by rw [hdo5]) (by rw [hoe43]; exact hadj5)
    obtain ⟨_, s6, e10, e11⟩ := bind_ok.mp e7
    unfold push at e10
    obtain ⟨_, rfl⟩ := modS_ok.mp e10
    have hst4 : s4.openElems = s.openElems := by
      rw [hdo5]; show s3.openElems = _; rw [q3.openElems, hdo1]
    have hnm4 : nm s4.dom el = hN "script" := by
      rw [nm_chg hext5.chg hel3, q3.nm]; exact hnm1
    have hfr4 : el ∉ s4.openElems := by rw [hst4]; rw [hdo1] at hfr1; exact hfr1
    have hc6 := hc4.push ⟨hext5.chg.isElement hel3, by rw [hk05]; exact hnol3 0⟩ hfr4 (by rw [hnm4]; decide)
      (by rw [hoe43]; exact hadj5p)
    have hchg : Chg s.dom s4.dom := (hchg1.trans (SameSk.of_nodes q3.nodes).chg).trans hext5.chg
    have hfields : s4.headElem = s.headElem ∧ s4.mode = s.mode := by
      have h5 := hdo5; have h3 := q3.rest; have h1 := hdo1
      constructor <;> rw [h5, h3, h1]
    have hsn4 := hc.sameNames hchg
    obtain ⟨hgood, hnr⟩ := toRawTextMode_shape hc6
      (by show s4.mode ≠ _; rw [hfields.2, hm]; rintro rfl; cases hbl)
      (by show s4.mode ≠ _; rw [hfields.2, hm]; rintro rfl; cases hbl)
      (by
        show Fits s4.dom s4.headElem s4.mode up ph
        rw [hfields.1, hfields.2, hm]
        exact (fits_of_bl hbl hbb hneed).congr hsn4)
      (by show htmlIn (nm s4.dom el) _ = false; rw [hnm4]; decide)
      (by show (nm s4.dom el).ns = nsHtml; rw [hnm4]; rfl) e11
    exact Out.of_good hgood hnr⟩


instance (c : Str) : RB (pure (.encodingIndicator c) : M ProcessResult) :=
  RB.pure ⟨(by intro m t h; cases h), (by intro t h; cases h)⟩

/-- `<base>`, `<basefont>`, `<bgsound>`, `<link>`, `<meta>` in a body-like mode -/
theorem rb_headVoid {tag : Tag} (h : tag.isStart ["base", "basefont", "bgsound", "link", "meta"] = true) :
    RB (stepInHead (.tag tag)) := by
  obtain ⟨a, ha, htn, _⟩ := name_of_isStart h
  haveI : PlainStr tag.name := plainStr_of_mem (l := ["base", "basefont", "bgsound", "link", "meta"]) (by decide)
    ⟨a, ha, htn⟩
  have hs : ¬ (tag.isStart ["html"] = true) := by
    rw [isStart_name h (by decide)]; simp
  unfold stepInHead
  dsimp only
  rw [if_neg hs, if_pos h]
  unfold insertAndPopElementFor
  rb_walk

/-- `<title>` in a body-like mode -/
theorem rb_title {tag : Tag} (h : tag.isStart ["title"] = true) : RB (stepInHead (.tag tag)) := by
  obtain ⟨a, ha, htn, _⟩ := name_of_isStart h
  haveI : PlainStr tag.name := plainStr_of_mem (l := ["title"]) (by decide) ⟨a, ha, htn⟩
  have hs : ∀ l, (∀ a ∈ ["title"], a ∉ l) → ¬ (tag.isStart l = true) := fun l hl => by
    rw [isStart_name h hl]; simp
  unfold stepInHead
  dsimp only
  rw [if_neg (hs _ (by decide)), if_neg (hs _ (by decide)), if_pos h]
  exact inferInstance

/-- `<noframes>`, `<style>` in a body-like mode -/
theorem rb_rawtext {tag : Tag} (h : tag.isStart ["noframes", "style"] = true) : RB (stepInHead (.tag tag)) := by
  obtain ⟨a, ha, htn, _⟩ := name_of_isStart h
  haveI : PlainStr tag.name := plainStr_of_mem (l := ["noframes", "style"]) (by decide) ⟨a, ha, htn⟩
  have hs : ∀ l, (∀ a ∈ ["noframes", "style"], a ∉ l) → ¬ (tag.isStart l = true) := fun l hl => by
    rw [isStart_name h hl]; simp
  have hnn : isName tag.name "noscript" = false := by
    simp only [List.mem_cons, List.not_mem_nil, or_false] at ha
    unfold isName
    rcases ha with rfl | rfl <;> (rw [htn]; decide)
  unfold stepInHead
  dsimp only
  rw [if_neg (hs _ (by decide)), if_neg (hs _ (by decide)), if_neg (hs _ (by decide)),
    if_pos (isStart_sub h (by decide))]
  rw [hnn]
  simp only [Bool.and_false, Bool.false_eq_true, if_false]
  exact RB.bindPB inferInstance (fun _ => inferInstance)


theorem isStart_split {tag : Tag} {l : List String} (h : tag.isStart l = true) : ∃ a ∈ l, tag.isStart [a] = true := by
  obtain ⟨a, ha, hn, hk⟩ := name_of_isStart h
  refine ⟨a, ha, ?_⟩
  unfold Tag.isStart isOneOf
  simp only [Bool.and_eq_true, beq_iff_eq, List.any_cons, List.any_nil, Bool.or_false]
  exact ⟨hk, hn.symm⟩

/-- the head-only tags in a body-like mode -/
theorem rb_headTags (tag : Tag) (h : (tag.isStart ["base", "basefont", "bgsound", "link", "meta", "noframes", "script",
    "style", "template", "title"] || tag.isEnd ["template"]) = true) : RB (stepInHead (.tag tag)) := by
  rcases Bool.or_eq_true_iff.mp h with h | h
  · obtain ⟨a, ha, h1⟩ := isStart_split h
    simp only [List.mem_cons, List.not_mem_nil, or_false] at ha
    rcases ha with rfl | rfl | rfl | rfl | rfl | rfl | rfl | rfl | rfl | rfl
    · exact rb_headVoid (isStart_sub h1 (by decide))
    · exact rb_headVoid (isStart_sub h1 (by decide))
    · exact rb_headVoid (isStart_sub h1 (by decide))
    · exact rb_headVoid (isStart_sub h1 (by decide))
    · exact rb_headVoid (isStart_sub h1 (by decide))
    · exact rb_rawtext (isStart_sub h1 (by decide))
    · exact rb_script h1
    · exact rb_rawtext (isStart_sub h1 (by decide))
    · exact rb_tmplStart h1
    · exact rb_title h1
  · exact rb_tmplEnd h

/-- all delegations of the InBody rules -/
theorem bodyDeleg : BodyDeleg := ⟨rb_headTags, fun _ h => framesetArm h, inferInstance⟩

theorem modeOk_inBody' : ModeOk .inBody := modeOk_inBody bodyDeleg
theorem modeOk_inHead' : ModeOk .inHead := modeOk_inHead tmplOk_inHead
theorem modeOk_afterHead' : ModeOk .afterHead := modeOk_afterHead tmplAfterHead

end H5V.Props.C06
