import H5V.Props.C15
import H5V.Lemmas.XmlTokTerm
import H5V.Model.XmlSer
/-!
C17, tokenizer half (the XML tokenizer model on the XML serializer model's output), part 0:
* the conversion from the tokenizer model's tokens to the tree-builder model's tokens (`cvTok`:
  parse errors are forwarded to the sink and change nothing, so they are dropped; everything else is
  mapped field by field) and the merging of adjacent character tokens (`mergeChars`; the tokenizer
  model delivers text one character at a time, the comparison is made on merged tokens as in the
  `xmltok` correspondence, `XmlTokDriver.canon`);
* `Reach`: a finite chain of `Continue` steps;
* what one `XmlTokenizer::step` does in terms of the transition tables, `exact_errors` off, no
  pending reconsume / CR, ordinary character (`step_char`, `step_set_plain`, `step_set_from`,
  `step_reconsume`).
-/
namespace H5V.Lemmas.XmlRT
open H5V.Model.XmlTok

/-! ### tokens of the tokenizer model as tree-builder tokens -/

def cvKind : TagKind → Model.XmlTB.TagKind
  | .startTag => .start | .endTag => .end_ | .emptyTag => .empty | .shortTag => .short

def cvName (q : QName) : Model.XmlTB.RName := ⟨q.pfx, q.loc⟩

def cvAttr (a : Attr) : Model.XmlTB.RAttr := ⟨cvName a.name, a.value⟩

/-- the tree builder's view of a token: `ParseError` tokens go to the sink's `parse_error` and do
not reach `process_token`'s state machine -/
def cvTok : Token → Option Model.XmlTB.Token
  | .doctype d => some (.doctype d.name d.publicId d.systemId)
  | .tag t => some (.tag ⟨cvKind t.kind, cvName t.name, t.attrs.map cvAttr⟩)
  | .pi t d => some (.pi t d)
  | .comment s => some (.comment s)
  | .chars s => some (.chars s)
  | .eof => some .eof
  | .error _ => none

/-- the token log (newest first) in delivery order, as tree-builder tokens -/
def cvOut (out : Out) : List Model.XmlTB.Token := out.reverse.filterMap cvTok

theorem cvOut_cons (t : Token) (out : Out) : cvOut (t :: out) = cvOut out ++ (cvTok t).toList := by
  unfold cvOut
  simp only [List.reverse_cons, List.filterMap_append, List.filterMap_cons, List.filterMap_nil]
  cases cvTok t <;> rfl

theorem cvOut_err (e : Str) (out : Out) : cvOut (.error e :: out) = cvOut out := by
  rw [cvOut_cons]; simp [cvTok]

/-- merge adjacent character tokens (`XmlTokDriver.canon` on tree-builder tokens) -/
def mergeChars : List Model.XmlTB.Token → List Model.XmlTB.Token
  | .chars a :: .chars b :: rest => mergeChars (.chars (a ++ b) :: rest)
  | x :: rest => x :: mergeChars rest
  | [] => []
termination_by l => l.length

/-! ### chains of `Continue` steps -/

inductive Reach (o : Opts) : Mach → Str → Mach → Str → Prop
  | refl (m inp) : Reach o m inp m inp
  | cons {m inp m1 i1 m2 i2} : step o m inp = R.cont m1 i1 → Reach o m1 i1 m2 i2 → Reach o m inp m2 i2

theorem Reach.one {o : Opts} {m : Mach} {inp : Str} {m1 : Mach} {i1 : Str} (h : step o m inp = .cont m1 i1) :
    Reach o m inp m1 i1 := Reach.cons h (Reach.refl _ _)

theorem Reach.trans {o : Opts} {m inp m1 i1 m2 i2} (h1 : Reach o m inp m1 i1) (h2 : Reach o m1 i1 m2 i2) :
    Reach o m inp m2 i2 := by
  induction h1 with
  | refl => exact h2
  | cons hs _ ih => exact Reach.cons hs (ih h2)

theorem Reach.runsTo {o : Opts} {m inp m1 i1 mf} (h1 : Reach o m inp m1 i1) (h2 : RunsTo o m1 i1 mf) :
    RunsTo o m inp mf := by
  induction h1 with
  | refl => exact h2
  | cons hs _ ih => exact RunsTo.cont hs (ih h2)

theorem runsTo_det {o : Opts} {m : Mach} {inp : Str} {a b : Mach} (h1 : RunsTo o m inp a) (h2 : RunsTo o m inp b) :
    a = b := by
  induction h1 with
  | susp hs =>
    cases h2 with
    | susp hs' => rw [hs] at hs'; injection hs'
    | cont hs' _ => rw [hs] at hs'; cases hs'
  | cont hs _ ih =>
    cases h2 with
    | susp hs' => rw [hs] at hs'; cases hs'
    | cont hs' hr' =>
      rw [hs] at hs'
      injection hs' with e1 e2
      subst e1 e2
      exact ih hr'

/-! ### the reader, once and for all -/

/-- the control registers of a machine between two steps of an ordinary run -/
structure Ctl (m : Mach) (st : State) : Prop where
  st : m.state = st
  cr : m.charRef = none
  rc : m.reconsume = false
  ilf : m.ignoreLf = false
  tb : m.tempBuf = []

theorem step_char (o : Opts) (ho : o.exactErrors = false) (m : Mach) (c : Char) (rest : Str)
    (hcr : m.charRef = none) (hk : readKind m.state = .getChar) (hrc : m.reconsume = false)
    (hilf : m.ignoreLf = false) (h1 : c ≠ '\r') (h2 : c ≠ '\x00') :
    step o m (c :: rest) = ofSig (transChar o (m.setCurrentChar c) c) rest := by
  simp [step, hcr, hk, getChar, hrc, preprocess, hilf, foldChar, h1, h2, ho]

theorem step_reconsume (o : Opts) (m : Mach) (inp : Str)
    (hcr : m.charRef = none) (hk : readKind m.state = .getChar) (hrc : m.reconsume = true) :
    step o m inp = ofSig (transChar o (m.setReconsume false) m.currentChar) inp := by
  simp [step, hcr, hk, getChar, hrc]

theorem step_set_plain (o : Opts) (ho : o.exactErrors = false) (m : Mach) (c : Char) (rest : Str)
    (hcr : m.charRef = none) (hk : readKind m.state = .popExcept) (hrc : m.reconsume = false)
    (hilf : m.ignoreLf = false) (hc : c ∉ setOf m.state) :
    step o m (c :: rest) = ofSig (transSet m (.notFromSet [c])) rest := by
  simp [step, hcr, hk, popExceptFrom, ho, hrc, hilf, hc]

theorem step_set_from (o : Opts) (ho : o.exactErrors = false) (m : Mach) (c : Char) (rest : Str)
    (hcr : m.charRef = none) (hk : readKind m.state = .popExcept) (hrc : m.reconsume = false)
    (hilf : m.ignoreLf = false) (hc : c ∈ setOf m.state) (h1 : c ≠ '\r') (h2 : c ≠ '\x00') :
    step o m (c :: rest) = ofSig (transSet (m.setCurrentChar c) (.fromSet c)) rest := by
  simp [step, hcr, hk, popExceptFrom, ho, hrc, hilf, hc, preprocess, foldChar, h1, h2]

end H5V.Lemmas.XmlRT
