import H5V.Lemmas.HtmlTBSafeAF
/-!
# Tree-builder safety, part 7: the builder-state invariant `SInv`

`SInv m s`: what the panic sites rely on, for the (effective) insertion mode `m`:
* before the root exists (`Initial`, `BeforeHtml`) the stack of open elements is empty; afterwards its
  bottom is an HTML `html` element (and is never popped);
* `InHead` has a `head` element on the stack, `InHeadNoscript` has one below the current node, which is
  an HTML element; `InCell` has a `td`/`th`; in `Text` the current node is an HTML element (so the
  foreign-content dispatcher is off);
* `Text` ⇒ `orig_mode` is set (to a mode whose own requirement holds for the stack below the
  raw-text element); `InTableText` ⇒ `orig_mode` is one of the table modes; outside `InTableText` no
  table text is pending;
* the modes that can reach `AfterHead` have the head pointer set; so has every state with a `head`
  element on the stack;
* there are at least as many template insertion modes as `template` elements on the stack (counting a
  `template` context element).
`TI s` := `HInv s ∧ SInv s.mode s`.
-/
namespace H5V.Lemmas.TBSafe
open H5V.Model.HtmlTB
open H5V.Model.Dom (Id QualName Attr NodeOrText SinkOp Output ElementFlags QuirksMode Dom NodeData Node)

variable {al : Allow}

def isTmpl (d : Dom) (h : Id) : Bool := nm d h == tmplName
/-- number of HTML `template` elements on the stack -/
def tcount (d : Dom) (l : List Id) : Nat := l.countP (isTmpl d)
/-- 1 if the context element is an HTML `template` -/
def ctxTmpl (s : State) : Nat :=
  match s.contextElem with
  | some c => if nm s.dom c == tmplName then 1 else 0
  | none => 0

def preRoot (m : Mode) : Bool := m == .initial || m == .beforeHtml
def needsHead (m : Mode) : Bool := m == .inHead || m == .inHeadNoscript || m == .afterHead
/-- the modes `orig_mode` can hold while the builder is in `Text` -/
def origOk (m : Mode) : Bool := !(m == .initial || m == .beforeHtml || m == .text || m == .inTableText)
/-- the modes `orig_mode` can hold while the builder is in `InTableText` -/
def tableMode (m : Mode) : Bool := m == .inTable || m == .inTableBody || m == .inRow
/-- the values of the stack of template insertion modes -/
def tmplModeOk (m : Mode) : Bool :=
  m == .inTemplate || m == .inTable || m == .inColumnGroup || m == .inTableBody || m == .inRow || m == .inBody

/-- the per-mode requirement on the stack of open elements -/
def ModeStack (d : Dom) (m : Mode) (l : List Id) : Prop :=
  match m with
  | .initial => l = []
  | .beforeHtml => l = []
  | .inHead => ∃ x ∈ l, nm d x = headName
  | .inHeadNoscript => (∃ x ∈ l.dropLast, nm d x = headName) ∧ ∃ t, l.getLast? = some t ∧ (nm d t).ns = nsHtml
  | .inCell => ∃ x ∈ l, tdTh (nm d x) = true
  | .text => ∃ t, l.getLast? = some t ∧ (nm d t).ns = nsHtml
  | _ => True

/-- the element names a mode needs on the stack (`ModeStack` of `InHead`/`InCell` is "some element
with such a name is on the stack") -/
def modeNeed (m : Mode) (n : EName) : Bool :=
  match m with
  | .inHead => n == headName
  | .inCell => tdTh n
  | _ => false

structure SInv (m : Mode) (s : State) : Prop where
  root : preRoot m = false → Rooted s.dom s.openElems
  stack : ModeStack s.dom m s.openElems
  head : needsHead m = true → s.headElem.isSome = true
  headIn : (∃ x ∈ s.openElems, nm s.dom x = headName) → s.headElem.isSome = true
  text : m = .text → ∃ om, s.origMode = some om ∧ origOk om = true ∧ 2 ≤ s.openElems.length ∧
    ModeStack s.dom om s.openElems.dropLast ∧ (needsHead om = true → s.headElem.isSome = true)
  tableText : m = .inTableText → ∃ om, s.origMode = some om ∧ tableMode om = true
  pending : m ≠ .inTableText → s.pendingTableText = []
  tmpl : tcount s.dom s.openElems + ctxTmpl s ≤ s.templateModes.length
  tmodes : ∀ x ∈ s.templateModes, tmplModeOk x = true

/-- the invariant of the tree builder -/
structure TI (s : State) : Prop where
  h : HInv s
  s : SInv s.mode s

/-! ### stability of the name-dependent notions -/

theorem tcount_ext {d d' : Dom} {l : List Id} (he : Ext d d') (hel : AllEl d l) : tcount d' l = tcount d l := by
  unfold tcount
  apply List.countP_congr
  intro x hx
  unfold isTmpl
  rw [hel.nm_eq he hx]

theorem ModeStack.ext {d d' : Dom} {m : Mode} {l : List Id} (he : Ext d d') (hel : AllEl d l)
    (h : ModeStack d m l) : ModeStack d' m l := by
  cases m <;> try exact h
  · obtain ⟨x, hx, ht⟩ := h
    exact ⟨x, hx, by rw [hel.nm_eq he hx]; exact ht⟩
  · obtain ⟨⟨x, hx, ht⟩, t, h1, h2⟩ := h
    exact ⟨⟨x, hx, by rw [hel.nm_eq he (List.dropLast_subset _ hx)]; exact ht⟩, t, h1,
      by rw [hel.nm_eq he (getLast?_mem h1)]; exact h2⟩
  · obtain ⟨t, h1, h2⟩ := h
    exact ⟨t, h1, by rw [hel.nm_eq he (getLast?_mem h1)]; exact h2⟩
  · obtain ⟨x, hx, ht⟩ := h
    exact ⟨x, hx, by rw [hel.nm_eq he hx]; exact ht⟩

theorem ctxTmpl_fr {s s' : State} (hi : HInv s) (f : Fr s s') : ctxTmpl s' = ctxTmpl s := by
  unfold ctxTmpl
  rw [f.contextElem]
  cases hc : s.contextElem with
  | none => rfl
  | some c => simp only; rw [nm_ext f.ext (hi.ctx c hc)]

/-- nothing safety-relevant changed (`Same`): the invariant carries over -/
theorem SInv.of_same {m : Mode} {s s' : State} (hi : HInv s) (h : SInv m s) (st : Same s s') : SInv m s' where
  root := fun hm => by rw [st.openElems]; exact (h.root hm).ext st.fr.ext hi.open_el
  stack := by rw [st.openElems]; exact (h.stack).ext st.fr.ext hi.open_el
  head := fun hm => by rw [st.fr.headElem]; exact h.head hm
  headIn := by
    rw [st.openElems, st.fr.headElem]
    rintro ⟨x, hx, hn⟩
    exact h.headIn ⟨x, hx, by rw [← hi.open_el.nm_eq st.fr.ext hx]; exact hn⟩
  text := fun hm => by
    obtain ⟨om, h1, h2, h3, h4, h5⟩ := h.text hm
    rw [st.openElems, st.fr.origMode, st.fr.headElem]
    exact ⟨om, h1, h2, h3, h4.ext st.fr.ext (hi.open_el.sub (fun x hx => List.dropLast_subset _ hx)), h5⟩
  tableText := fun hm => by rw [st.fr.origMode]; exact h.tableText hm
  pending := fun hm => by rw [st.fr.pendingTableText]; exact h.pending hm
  tmpl := by
    rw [st.openElems, st.fr.templateModes, tcount_ext st.fr.ext hi.open_el, ctxTmpl_fr hi st.fr]
    exact h.tmpl
  tmodes := by rw [st.fr.templateModes]; exact h.tmodes

theorem SInv.of_qf {m : Mode} {s s' : State} (hi : HInv s) (h : SInv m s) (q : QF s s') : SInv m s' :=
  h.of_same hi q.same

theorem TI.of_same {s s' : State} (h : TI s) (st : Same s s') : TI s' :=
  ⟨h.h.of_same st, by rw [st.fr.mode]; exact h.s.of_same h.h st⟩

theorem TI.of_qf {s s' : State} (h : TI s) (q : QF s s') : TI s' := h.of_same q.same

/-! ### steps of the body-like rules -/

/-- a new element of the stack is neither a `template` nor a `head` -/
def NewOk (n : EName) : Prop := n ≠ tmplName ∧ n ≠ headName

theorem NewOk.of_fmt {n : EName} (h : isFmtE n = true) : NewOk n := by
  unfold isFmtE at h
  simp only [Bool.and_eq_true, beq_iff_eq] at h
  constructor
  · rintro rfl; revert h; decide
  · rintro rfl; revert h; decide

/-- what an arm of the body-like rules does to the builder: the scalar fields `SInv` looks at are
unchanged (the form pointer may change), the handle invariant holds again, the root is still there,
new stack entries are neither `template` nor `head`, the number of templates has not grown -/
structure BStep (s s' : State) : Prop where
  mode : s'.mode = s.mode
  origMode : s'.origMode = s.origMode
  templateModes : s'.templateModes = s.templateModes
  pendingTableText : s'.pendingTableText = s.pendingTableText
  headElem : s'.headElem = s.headElem
  contextElem : s'.contextElem = s.contextElem
  ext : Ext s.dom s'.dom
  hinv : HInv s'
  rooted : Rooted s'.dom s'.openElems
  news : ∀ x ∈ s'.openElems, x ∈ s.openElems ∨ NewOk (nm s'.dom x)
  tcnt : tcount s'.dom s'.openElems ≤ tcount s.dom s.openElems

/-- no element with a name satisfying `P` was removed from the stack -/
def Keeps (P : EName → Bool) (s s' : State) : Prop :=
  ∀ x ∈ s.openElems, P (nm s.dom x) = true → x ∈ s'.openElems

/-- the modes whose requirement a body-like step preserves -/
def bodyLike (m : Mode) : Bool :=
  !(preRoot m || m == .inHeadNoscript || m == .text)

theorem SInv.of_bstep {m : Mode} {s s' : State} (hi : HInv s) (h : SInv m s) (b : BStep s s')
    (hm : bodyLike m = true) (hk : Keeps (modeNeed m) s s') : SInv m s' where
  root := fun _ => b.rooted
  stack := by
    cases m <;> try trivial
    all_goals first
      | (simp [bodyLike, preRoot] at hm; done)
      | skip
    · obtain ⟨x, hx, ht⟩ := h.stack
      exact ⟨x, hk x hx (by simp [modeNeed, ht]), by rw [nm_ext b.ext (hi.open_el x hx)]; exact ht⟩
    · obtain ⟨x, hx, ht⟩ := h.stack
      exact ⟨x, hk x hx (by simpa [modeNeed] using ht), by rw [nm_ext b.ext (hi.open_el x hx)]; exact ht⟩
  head := fun hn => by rw [b.headElem]; exact h.head hn
  headIn := by
    rw [b.headElem]
    rintro ⟨x, hx, hn⟩
    rcases b.news x hx with hx' | hnew
    · exact h.headIn ⟨x, hx', by rw [← nm_ext b.ext (hi.open_el x hx')]; exact hn⟩
    · exact absurd hn hnew.2
  text := fun hmt => by subst hmt; simp [bodyLike] at hm
  tableText := fun hmt => by rw [b.origMode]; exact h.tableText hmt
  pending := fun hmt => by rw [b.pendingTableText]; exact h.pending hmt
  tmpl := by
    have hc : ctxTmpl s' = ctxTmpl s := by
      unfold ctxTmpl
      rw [b.contextElem]
      cases hc : s.contextElem with
      | none => rfl
      | some c => simp only; rw [nm_ext b.ext (hi.ctx c hc)]
    rw [hc, b.templateModes]
    exact Nat.le_trans (Nat.add_le_add_right b.tcnt _) h.tmpl
  tmodes := by rw [b.templateModes]; exact h.tmodes

/-! ### `countP` under `set` / `insertIdx` -/

theorem countP_set_le {p : Id → Bool} {x : Id} (hx : p x = false) : ∀ (l : List Id) (i : Nat),
    (l.set i x).countP p ≤ l.countP p := by
  intro l
  induction l with
  | nil => intro i; simp
  | cons a t ih =>
    intro i
    cases i with
    | zero =>
      simp only [List.set_cons_zero, List.countP_cons, hx]
      cases p a <;> simp
    | succ i =>
      simp only [List.set_cons_succ, List.countP_cons]
      have := ih i
      omega

theorem countP_insertIdx_le {p : Id → Bool} {x : Id} (hx : p x = false) : ∀ (l : List Id) (i : Nat),
    (l.insertIdx i x).countP p ≤ l.countP p := by
  intro l
  induction l with
  | nil =>
    intro i
    cases i with
    | zero => simp [List.insertIdx, hx]
    | succ i => simp [List.insertIdx]
  | cons a t ih =>
    intro i
    cases i with
    | zero => simp [List.insertIdx, List.countP_cons, hx]
    | succ i =>
      simp only [List.insertIdx_succ_cons, List.countP_cons]
      have := ih i
      omega

end H5V.Lemmas.TBSafe
