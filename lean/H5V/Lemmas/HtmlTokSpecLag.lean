import H5V.Lemmas.HtmlTokSpecStepDefs
/-!
# C01 simulation — the step lemma when the model is re-reading un-consumed text (lag)

The model reads the first character of the lag as plain text of its state; the specification has
already processed it: no step of the specification, the lag gets shorter.
-/
set_option linter.unusedSimpArgs false
namespace H5V.Lemmas.HtmlTokSpec
open H5V.Model.HtmlTok
open H5V.Spec.HtmlTokenizer (St Tok Emit Tree Switch Ctl ReturnSt normalizeNewlinesFrom normalizeNewlines)

/-- the relation does not see how the output is cut into tokens, nor line numbers, nor a dead
`current_char` -/
theorem RelCore.congr_out {m m' : Mach} {inp : Str} {t : Tok} {rest : Str} (h : RelCore m inp t rest)
    (out' : Out) (ln : Nat) (cc : Char) (hrec : m.reconsume = false)
    (hm : m' = { m with out := out', line := ln, currentChar := cc }) (hf : flat out' = flat m.out) :
    RelCore m' inp t rest := by
  subst hm
  obtain ⟨⟨h1, h2, h3, h4, h5⟩, ht, hg⟩ := h
  have ht' : TInv { m with out := out', line := ln, currentChar := cc } := by
    have hstash : stash { m with out := out', line := ln, currentChar := cc } = stash m :=
      stash_congr rfl rfl rfl
    refine ⟨⟨⟨ht.linv.safe.crState, ht.linv.safe.crRegs⟩, ht.linv.eatOk, ht.linv.nr, ht.linv.peekNoRecon, ?_, ?_,
      ht.linv.cr⟩, ht.crt⟩
    · intro a _; rw [hrec] at a; simp at a
    · rw [hstash]; exact ht.linv.stashOk
  refine ⟨⟨h1, h2, h3, ?_, ?_⟩, ht', hg⟩
  · unfold OutRel at h4 ⊢
    simp only [cdataBuf] at h4 ⊢
    rw [hf]; exact h4
  · unfold InpRel at h5 ⊢
    have hstash : stash { m with out := out', line := ln, currentChar := cc } = stash m :=
      stash_congr rfl rfl rfl
    rw [hstash]
    simpa [rc, hrec] using h5

theorem lagCh_facts {c : Char} (h : lagCh c = true) :
    c ≠ '\x00' ∧ c ≠ '\n' ∧ c ≠ '\r' ∧ c ≠ '&' ∧ c ≠ '<' ∧ c ≠ '"' ∧ c ≠ '\'' ∧ c ≠ '\t' ∧ c ≠ '\x0c' ∧
    c ≠ ' ' ∧ c ≠ '>' := by
  refine ⟨?_, ?_, ?_, ?_, ?_, ?_, ?_, ?_, ?_, ?_, ?_⟩ <;> (intro hc; subst hc; revert h; decide)

/-- the fast path of `pop_except_from` on a character outside the set -/
theorem popExceptFrom_fast (o : Opts) (ho : o.exactErrors = false) (S : List Char) (m : Mach) (c : Char)
    (i : Str) (hr : m.reconsume = false) (hil : m.ignoreLf = false) (hc : S.contains c = false) :
    popExceptFrom o S m (c :: i) = (some (.notFromSet [c]), m, i) := by
  unfold popExceptFrom
  simp [ho, hr, hil, hc]
  intro hx; simp [List.contains_iff_mem] at hc; exact absurd hx hc

theorem readData_fast (o : Opts) (ho : o.exactErrors = false) (m : Mach) (c : Char)
    (i : Str) (hr : m.reconsume = false) (hil : m.ignoreLf = false) (hc : simdFirst.contains c = false) :
    readData o m (c :: i) = (some (.notFromSet [c]), m, i) := by
  unfold readData
  have hn : c ≠ '\n' := by intro h; subst h; revert hc; decide
  simp [ho, hr, hil, hc, hn]
  intro hx; simp [List.contains_iff_mem] at hc; exact absurd hx hc

/-- **step lemma with a non-empty lag** -/
theorem step_lag_sim (o : Opts) (ho : o.exactErrors = false) (pol : Pol) (tree : Tree)
    (m : Mach) (t : Tok) (rest : Str) (c : Char) (lag' inp0 : Str)
    (hok : LagOk m (c :: lag')) (hc : RelCore (absorb m (c :: lag')) inp0 t rest) :
    StepOk tree t rest (step o pol m (c :: (lag' ++ inp0))) := by
  rcases hok with hnil | ⟨hlag, hcr, hrec, hil, hall⟩
  · simp at hnil
  have hch := lagCh_facts (hall c (by simp))
  obtain ⟨c1, c2, c3, c4, c5, c6, c7, c8, c9, c10, c11⟩ := hch
  have hall' : ∀ x ∈ lag', lagCh x = true := fun x hx => hall x (by simp [hx])
  -- the result is the machine that has read `c` as plain text
  have fin : ∀ m' : Mach, step o pol m (c :: (lag' ++ inp0)) = .cont m' (lag' ++ inp0) →
      m'.state = m.state → m'.charRef = none → m'.reconsume = false → m'.ignoreLf = false →
      (∃ out' ln cc, absorb m' lag' = { absorb m (c :: lag') with out := out', line := ln, currentChar := cc } ∧
        flat out' = flat (absorb m (c :: lag')).out) →
      StepOk tree t rest (step o pol m (c :: (lag' ++ inp0))) := by
    intro m' hstep h1 h2 h3 h4 ⟨out', ln, cc, hab, hfl⟩
    have hrec' : (absorb m (c :: lag')).reconsume = false := by
      unfold absorb; (repeat' split) <;> exact hrec
    rw [hstep, stepOk_cont]
    refine Reach.done ⟨lag', inp0, rfl, ?_, hc.congr_out out' ln cc hrec' hab hfl⟩
    by_cases hl : lag' = []
    · exact Or.inl hl
    · exact Or.inr ⟨by rw [h1]; exact hlag, h2, h3, h4, hall'⟩
  cases hs : m.state with
  | data =>
    have hstep : step o pol m (c :: (lag' ++ inp0)) = .cont (emitChars m [c]) (lag' ++ inp0) := by
      rw [step_dataSimd o pol m _ hcr (by rw [hs]; rfl),
        readData_fast o ho m c _ hrec hil (by simp [simdFirst, c1, c2, c3, c4, c5])]
      simp [contSet, transSet, hs, ofSig]
    refine fin _ hstep rfl hcr hrec hil ?_
    by_cases hl : lag' = []
    · subst hl
      exact ⟨_, m.line, m.currentChar, by simp [absorb, hs, isAttrValueState, emitChars, emit], rfl⟩
    · refine ⟨(Token.chars lag', m.line) :: (Token.chars [c], m.line) :: m.out, m.line, m.currentChar, ?_, ?_⟩
      · simp [absorb, hs, hl, isAttrValueState, emitChars, emit]
      · simp [absorb, hs, isAttrValueState, emitChars, emit]
  | rawData k =>
    have hk : k = .rcdata := by
      rw [hs] at hlag
      cases k <;> simp [isLagSt] at hlag ⊢
    subst hk
    have hstep : step o pol m (c :: (lag' ++ inp0)) = .cont (emitChars m [c]) (lag' ++ inp0) := by
      rw [step_popExcept o pol m _ hcr (by rw [hs]; rfl),
        popExceptFrom_fast o ho _ m c _ hrec hil (by simp [hs, setOf, c1, c2, c3, c4, c5])]
      simp [contSet, transSet, hs, ofSig]
    refine fin _ hstep rfl hcr hrec hil ?_
    by_cases hl : lag' = []
    · subst hl
      exact ⟨_, m.line, m.currentChar, by simp [absorb, hs, isAttrValueState, emitChars, emit], rfl⟩
    · refine ⟨(Token.chars lag', m.line) :: (Token.chars [c], m.line) :: m.out, m.line, m.currentChar, ?_, ?_⟩
      · simp [absorb, hs, hl, isAttrValueState, emitChars, emit]
      · simp [absorb, hs, isAttrValueState, emitChars, emit]
  | attributeValue k =>
    have hstep : step o pol m (c :: (lag' ++ inp0)) = .cont (appendValue [c] m) (lag' ++ inp0) := by
      rw [step_popExcept o pol m _ hcr (by rw [hs]; rfl),
        popExceptFrom_fast o ho _ m c _ hrec hil (by cases k <;> simp [hs, setOf, c1, c2, c3, c4, c5, c6, c7, c8, c9, c10, c11])]
      cases k <;> simp [contSet, transSet, hs, ofSig]
    refine fin _ hstep rfl hcr hrec hil ?_
    refine ⟨m.out, m.line, m.currentChar, ?_, ?_⟩
    · by_cases hl : lag' = []
      · subst hl; simp [absorb, hs, isAttrValueState, appendValue]
      · simp [absorb, hs, hl, isAttrValueState, appendValue]
    · simp [absorb, hs, isAttrValueState, appendValue]
  | bogusComment =>
    have hstep : step o pol m (c :: (lag' ++ inp0)) =
        .cont (pushComment c (m.setCurrentChar c)) (lag' ++ inp0) := by
      rw [step_getChar o pol m _ hcr (by rw [hs]; rfl)]
      have hg : getChar o m (c :: (lag' ++ inp0)) = (some c, m.setCurrentChar c, lag' ++ inp0) := by
        unfold getChar preprocess
        simp [hrec, hil, foldChar_plain o m c ho c3 c2]
      rw [hg]
      simp [contChar, transChar, hs, ofSig, c11, c1]
    refine fin _ hstep rfl hcr hrec hil ?_
    refine ⟨m.out, m.line, c, ?_, ?_⟩
    · by_cases hl : lag' = []
      · subst hl; simp [absorb, hs, isAttrValueState, pushComment, Mach.setCurrentChar]
      · simp [absorb, hs, hl, isAttrValueState, pushComment, Mach.setCurrentChar]
    · simp [absorb, hs, isAttrValueState]
  | _ => rw [hs] at hlag; simp [isLagSt] at hlag

end H5V.Lemmas.HtmlTokSpec
