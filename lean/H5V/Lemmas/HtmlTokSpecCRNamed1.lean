import H5V.Lemmas.HtmlTokSpecReader
/-!
# C01 simulation — named character references (layer L3b), part 1: the specification's
`longestNamedReference` against the model's prefix-closed table (`entityLookup`, `Walk.Best`)
-/
set_option linter.unusedSimpArgs false
namespace H5V.Lemmas.HtmlTokSpec
open H5V.Model.HtmlTok
open H5V.Spec.HtmlTokenizer (St Tok Emit Tree Switch Ctl ReturnSt normalizeNewlinesFrom normalizeNewlines)
open H5V.Props.C14

/-! ## characters and code points -/

theorem crn_toNat_inj {a b : Char} (h : a.toNat = b.toNat) : a = b := by
  apply Char.ext
  apply UInt32.toNat_inj.mp
  exact h

theorem crn_map_toNat_inj : ∀ {a b : Str}, a.map Char.toNat = b.map Char.toNat → a = b
  | [], [], _ => rfl
  | [], _ :: _, h => by simp at h
  | _ :: _, [], h => by simp at h
  | x :: xs, y :: ys, h => by
    simp only [List.map_cons, List.cons.injEq] at h
    rw [crn_toNat_inj h.1, crn_map_toNat_inj h.2]

theorem crn_isPrefixOfInput_iff (ns : List Nat) (inp : Str) :
    H5V.Spec.HtmlTokenizer.isPrefixOfInput ns inp = true ↔ ns <+: inp.map Char.toNat := by
  induction ns generalizing inp with
  | nil => simp [H5V.Spec.HtmlTokenizer.isPrefixOfInput]
  | cons x xs ih =>
    cases inp with
    | nil => simp [H5V.Spec.HtmlTokenizer.isPrefixOfInput]
    | cons y ys => simp [H5V.Spec.HtmlTokenizer.isPrefixOfInput, ih, List.cons_prefix_cons]

/-- a prefix of the code points of `inp` is the code points of a prefix of `inp` -/
theorem crn_prefix_map {ns : List Nat} {inp : Str} (h : ns <+: inp.map Char.toNat) :
    ns = (inp.take ns.length).map Char.toNat := by
  have := List.prefix_iff_eq_take.mp h
  rw [this, List.map_take]
  simp

theorem crn_prefix_eq_of_length {α : Type} {a b l : List α} (ha : a <+: l) (hb : b <+: l)
    (h : a.length = b.length) : a = b := by
  rw [List.prefix_iff_eq_take.mp ha, List.prefix_iff_eq_take.mp hb, h]

/-! ## generic fold invariant -/

theorem crn_foldl_inv {α β : Type} (f : β → α → β) (I : β → List α → Prop)
    (hstep : ∀ b a seen, I b seen → I (f b a) (seen ++ [a])) :
    ∀ (l seen : List α) (init : β), I init seen → I (l.foldl f init) (seen ++ l) := by
  intro l
  induction l with
  | nil => intro seen init h; simpa using h
  | cons a l ih =>
    intro seen init h
    have := ih (seen ++ [a]) (f init a) (hstep init a seen h)
    simpa using this

/-! ## full matches of the model's table are rows -/

theorem crn_lookup_full {p : Str} {v : Nat × Nat} (h : entityLookup p = some v) (hv : v.1 ≠ 0) :
    ∃ c rest, p.map Char.toNat = c :: rest ∧ ∃ r ∈ Gen.Entities.bucket c, r.1 = c :: rest ∧ r.2 = v := by
  unfold entityLookup entityLookupN at h
  cases hk : p.map Char.toNat with
  | nil => rw [hk] at h; simp at h; rw [← h] at hv; simp at hv
  | cons c rest =>
    rw [hk] at h
    simp only at h
    split at h
    · rename_i r hfind
      simp only [Option.some.injEq] at h
      have hmem := List.mem_of_find?_eq_some hfind
      have heq := List.find?_some hfind
      simp only [beq_iff_eq] at heq
      exact ⟨c, rest, rfl, r, hmem, heq, h⟩
    · split at h
      · simp only [Option.some.injEq] at h; rw [← h] at hv; simp at hv
      · simp at h

theorem crn_row_lookup {c : Nat} {r : Gen.Entities.Row} (hr : r ∈ Gen.Entities.bucket c) :
    entityLookupN r.1 = some r.2 ∧ r.2.1 ≠ 0 ∧ r.1.head? = some c :=
  have hc := bucket_letter c r hr
  ⟨(C14_lookup_exact c hc r hr).1, (C14_lookup_exact c hc r hr).2, (C14_rows_wellformed c hc r hr).1⟩

theorem crn_isKey_ne_nil {q : Str} (h : Walk.isKey q) : q ≠ [] := by
  rintro rfl
  obtain ⟨v, h1, h2⟩ := h
  simp [entityLookup, entityLookupN] at h1
  rw [← h1] at h2; simp at h2

/-! ## `longestNamedReference` -/

/-- what the fold of `longestNamedReference` computes -/
theorem crn_lnr_fold (c : Char) (s : Str) :
    (H5V.Spec.HtmlTokenizer.longestNamedReference (c :: s) = none →
      ∀ r ∈ H5V.Spec.Entities.bucket c.toNat,
        H5V.Spec.HtmlTokenizer.isPrefixOfInput r.1 (c :: s) = false) ∧
    (∀ b, H5V.Spec.HtmlTokenizer.longestNamedReference (c :: s) = some b →
      b ∈ H5V.Spec.Entities.bucket c.toNat ∧
      H5V.Spec.HtmlTokenizer.isPrefixOfInput b.1 (c :: s) = true ∧
      ∀ r ∈ H5V.Spec.Entities.bucket c.toNat,
        H5V.Spec.HtmlTokenizer.isPrefixOfInput r.1 (c :: s) = true → r.1.length ≤ b.1.length) := by
  have key := crn_foldl_inv
    (fun (best : Option H5V.Spec.Entities.Row) (row : H5V.Spec.Entities.Row) =>
      if H5V.Spec.HtmlTokenizer.isPrefixOfInput row.1 (c :: s) = true then
        match best with
        | some b => if b.1.length < row.1.length then some row else best
        | none => some row
      else best)
    (fun best seen =>
      (best = none → ∀ r ∈ seen, H5V.Spec.HtmlTokenizer.isPrefixOfInput r.1 (c :: s) = false) ∧
      (∀ b, best = some b → b ∈ seen ∧ H5V.Spec.HtmlTokenizer.isPrefixOfInput b.1 (c :: s) = true ∧
        ∀ r ∈ seen, H5V.Spec.HtmlTokenizer.isPrefixOfInput r.1 (c :: s) = true → r.1.length ≤ b.1.length))
    (by
      intro best a seen ⟨h1, h2⟩
      by_cases hp : H5V.Spec.HtmlTokenizer.isPrefixOfInput a.1 (c :: s) = true
      · simp only [hp, if_true]
        cases best with
        | none =>
          simp only
          refine ⟨fun h => by simp at h, fun b hb => ?_⟩
          simp only [Option.some.injEq] at hb
          subst hb
          refine ⟨by simp, hp, fun r hr hpr => ?_⟩
          rcases List.mem_append.mp hr with hr | hr
          · have := h1 rfl r hr; rw [this] at hpr; simp at hpr
          · simp only [List.mem_singleton] at hr; subst hr; exact Nat.le_refl _
        | some b0 =>
          obtain ⟨g1, g2, g3⟩ := h2 b0 rfl
          simp only
          by_cases hlt : b0.1.length < a.1.length
          · simp only [hlt, if_true]
            refine ⟨fun h => by simp at h, fun b hb => ?_⟩
            simp only [Option.some.injEq] at hb
            subst hb
            refine ⟨by simp, hp, fun r hr hpr => ?_⟩
            rcases List.mem_append.mp hr with hr | hr
            · have := g3 r hr hpr; omega
            · simp only [List.mem_singleton] at hr; subst hr; exact Nat.le_refl _
          · simp only [hlt, if_false]
            refine ⟨fun h => by simp at h, fun b hb => ?_⟩
            simp only [Option.some.injEq] at hb
            subst hb
            refine ⟨by simp [g1], g2, fun r hr hpr => ?_⟩
            rcases List.mem_append.mp hr with hr | hr
            · exact g3 r hr hpr
            · simp only [List.mem_singleton] at hr; subst hr; omega
      · simp only [hp, if_false]
        have hp' : H5V.Spec.HtmlTokenizer.isPrefixOfInput a.1 (c :: s) = false := by simpa using hp
        refine ⟨fun h r hr => ?_, fun b hb => ?_⟩
        · rcases List.mem_append.mp hr with hr | hr
          · exact h1 h r hr
          · simp only [List.mem_singleton] at hr; subst hr; exact hp'
        · obtain ⟨g1, g2, g3⟩ := h2 b hb
          refine ⟨by simp [g1], g2, fun r hr hpr => ?_⟩
          rcases List.mem_append.mp hr with hr | hr
          · exact g3 r hr hpr
          · simp only [List.mem_singleton] at hr; subst hr; rw [hp'] at hpr; simp at hpr)
    (H5V.Spec.Entities.bucket c.toNat) [] none ⟨fun _ r hr => by simp at hr, fun b hb => by simp at hb⟩
  rw [List.nil_append] at key
  exact key

/-- a key that is a prefix of the input is (the name of) a row of the bucket that matches -/
theorem crn_key_row {c : Char} {s q : Str} (hq : q <+: c :: s) (hk : Walk.isKey q) :
    ∃ r ∈ H5V.Spec.Entities.bucket c.toNat, r.1 = q.map Char.toNat ∧
      H5V.Spec.HtmlTokenizer.isPrefixOfInput r.1 (c :: s) = true := by
  obtain ⟨v, hv1, hv2⟩ := hk
  obtain ⟨c0, rest0, hmap, r, hr, hr1, _⟩ := crn_lookup_full hv1 hv2
  have hc0 : c0 = c.toNat := by
    cases q with
    | nil => simp at hmap
    | cons x xs =>
      have hx : x = c := by
        obtain ⟨t, ht⟩ := hq
        simp at ht; exact ht.1
      subst hx
      simp at hmap; exact hmap.1.symm
  subst hc0
  rw [C14_table] at hr
  refine ⟨r, hr, by rw [hr1, hmap], ?_⟩
  rw [crn_isPrefixOfInput_iff, hr1, ← hmap]
  exact List.IsPrefix.map _ hq

/-- **the key lemma**, first half: nothing matches -/
theorem crn_lnr_none {inp : Str} (h : ∀ q, q <+: inp → ¬ Walk.isKey q) :
    H5V.Spec.HtmlTokenizer.longestNamedReference inp = none := by
  cases inp with
  | nil => rfl
  | cons c s =>
    cases hl : H5V.Spec.HtmlTokenizer.longestNamedReference (c :: s) with
    | none => rfl
    | some b =>
      exfalso
      obtain ⟨g1, g2, _⟩ := (crn_lnr_fold c s).2 b hl
      rw [crn_isPrefixOfInput_iff] at g2
      have hb := crn_prefix_map g2
      rw [← C14_table] at g1
      obtain ⟨e1, e2, _⟩ := crn_row_lookup g1
      refine h ((c :: s).take b.1.length) (List.take_prefix _ _) ⟨b.2, ?_, e2⟩
      unfold entityLookup
      rw [← hb]; exact e1

/-- **the key lemma**, second half: the longest key that is a prefix of the input, with its value -/
theorem crn_lnr_some {inp p : Str} {v : Nat × Nat} (hp : p <+: inp) (hv : entityLookup p = some v)
    (hv0 : v.1 ≠ 0) (hmax : ∀ q, q <+: inp → p.length < q.length → ¬ Walk.isKey q) :
    H5V.Spec.HtmlTokenizer.longestNamedReference inp = some (p.map Char.toNat, v.1, v.2) := by
  have hkey : Walk.isKey p := ⟨v, hv, hv0⟩
  cases inp with
  | nil =>
    have : p = [] := by simpa using hp
    exact absurd this (crn_isKey_ne_nil hkey)
  | cons c s =>
    obtain ⟨r0, hr0, hr0n, hr0p⟩ := crn_key_row hp hkey
    cases hl : H5V.Spec.HtmlTokenizer.longestNamedReference (c :: s) with
    | none =>
      have := (crn_lnr_fold c s).1 hl r0 hr0
      rw [this] at hr0p; simp at hr0p
    | some b =>
      obtain ⟨g1, g2, g3⟩ := (crn_lnr_fold c s).2 b hl
      have hle := g3 r0 hr0 hr0p
      rw [hr0n, List.length_map] at hle
      rw [crn_isPrefixOfInput_iff] at g2
      have hb := crn_prefix_map g2
      rw [← C14_table] at g1
      obtain ⟨e1, e2, _⟩ := crn_row_lookup g1
      have hqk : Walk.isKey ((c :: s).take b.1.length) := by
        refine ⟨b.2, ?_, e2⟩
        unfold entityLookup
        rw [← hb]; exact e1
      have hqlen : ((c :: s).take b.1.length).length = b.1.length := by
        have := congrArg List.length hb
        simp only [List.length_map] at this
        exact this.symm
      have hnlt : ¬ p.length < ((c :: s).take b.1.length).length := fun hlt =>
        hmax _ (List.take_prefix _ _) hlt hqk
      have hpq : p = (c :: s).take b.1.length :=
        crn_prefix_eq_of_length hp (List.take_prefix _ _) (by omega)
      have hb1 : b.1 = p.map Char.toNat := by rw [hb, ← hpq]
      have hb2 : b.2 = v := by
        unfold entityLookup at hv
        rw [← hb1, e1] at hv
        simpa using hv
      obtain ⟨b1, b21, b22⟩ := b
      simp only at hb1 hb2
      subst hb1 hb2
      rfl

/-! ## the model's registers against the specification's decision -/

/-- no key is longer than the buffer once the buffer plus the next character left the map -/
theorem crn_long_of_none {nb : Str} {c : Char} (hn : entityLookup (nb ++ [c]) = none) (s : Str) :
    ∀ q, q <+: nb ++ c :: s → nb.length < q.length → ¬ Walk.isKey q := by
  intro q hq hlen hk
  have hpre : (nb ++ [c]) <+: q := by
    apply List.prefix_of_prefix_length_le (l₃ := nb ++ c :: s) _ hq (by simp; omega)
    exact ⟨s, by simp⟩
  obtain ⟨v, hv1, _⟩ := hk
  have := Walk.lookup_prefix_closed (q.map Char.toNat) ((nb ++ [c]).map Char.toNat) (by simp)
    (List.IsPrefix.map _ hpre) (by unfold entityLookup at hv1; rw [hv1]; rfl)
  unfold entityLookup at hn
  rw [hn] at this
  simp at this

/-- the decision of the specification from the model's match registers -/
theorem crn_lnr_of_best {nb tail : Str} {mt : Option (Nat × Nat)} {len : Nat} (hb : Walk.Best nb mt len)
    (hlong : ∀ q, q <+: nb ++ tail → nb.length < q.length → ¬ Walk.isKey q) :
    H5V.Spec.HtmlTokenizer.longestNamedReference (nb ++ tail) =
      mt.map fun v => ((nb.take len).map Char.toNat, v.1, v.2) := by
  obtain ⟨hb1, hb2⟩ := hb
  have hshort : ∀ q, q <+: nb ++ tail → Walk.bestLen mt len < q.length → ¬ Walk.isKey q := by
    intro q hq hlt
    by_cases hql : q.length ≤ nb.length
    · have hqnb : q = nb.take q.length := by
        have h1 : q <+: nb := List.prefix_of_prefix_length_le hq (List.prefix_append _ _) hql
        exact List.prefix_iff_eq_take.mp h1
      rw [hqnb]
      exact hb2 q.length hlt hql
    · exact hlong q hq (by omega)
  cases mt with
  | none =>
    simp only [Option.map_none]
    apply crn_lnr_none
    intro q hq hk
    have hne := crn_isKey_ne_nil hk
    refine hshort q hq ?_ hk
    simp only [Walk.bestLen]
    cases q with
    | nil => exact absurd rfl hne
    | cons _ _ => simp
  | some v =>
    obtain ⟨c1, c2, c3, c4⟩ := hb1 v rfl
    simp only [Option.map_some]
    apply crn_lnr_some (p := nb.take len)
    · exact List.IsPrefix.trans (List.take_prefix _ _) (List.prefix_append _ _)
    · exact c3
    · exact c4
    · intro q hq hlt
      apply hshort q hq
      simp only [Walk.bestLen]
      simp only [List.length_take] at hlt
      omega

theorem crn_dead_append {nb : Str} (h : Dead nb) (c : Char) : Dead (nb ++ [c]) := by
  intro s
  have := h (c :: s)
  simpa using this

/-- nothing matched so far and the buffer left the map: nothing will ever match -/
theorem crn_dead_of_best {nb : Str} {len : Nat} {c : Char} (hb : Walk.Best nb none len)
    (hn : entityLookup (nb ++ [c]) = none) : Dead (nb ++ [c]) := by
  intro s
  have := crn_lnr_of_best (tail := c :: s) hb (crn_long_of_none hn s)
  simpa using this

/-- a line break is not a table character -/
theorem crn_lookup_fold {nb : Str} {c : Char} (hn : entityLookup (nb ++ [c]) = none) :
    entityLookup (nb ++ [foldCh c]) = none := by
  unfold foldCh
  split
  · cases hl : entityLookup (nb ++ ['\n']) with
    | none => rfl
    | some v =>
      have := lookup_no_break _ v hl '\n' (by simp)
      simp [isBrk] at this
  · exact hn

end H5V.Lemmas.HtmlTokSpec
