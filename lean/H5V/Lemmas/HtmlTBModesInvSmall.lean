import H5V.Lemmas.HtmlTBModesInvPrim2
/-!
C02 (insertion modes), the invariant `Good` of the specification's run: the rules of the ten small modes
"initial", "before html", "before head", "in head noscript", "after head", "after body", "in frameset",
"after frameset", "after after body", "after after frameset".
-/
set_option linter.unusedSectionVars false
set_option linter.unusedSimpArgs false
set_option linter.unusedVariables false
namespace H5V.Lemmas.ModesInv
open H5V.Spec H5V.Spec.TreeModes
open H5V.Spec.TreeAlgo (Str Name nsHtml nsMathml nsSvg inHtml)
open H5V.Spec.TreeAlgo2 (Elem Entry PState)

section
variable {N : Type} [DecidableEq N]

/-! ### helpers -/

/-- "create a node" only changes the node supply -/
theorem sm_newNode_list {st st1 : PState N ETok} {n : N} (h : st.newNode = some (n, st1)) :
    st1.list = st.list ∧ st1.stack = st.stack := by
  unfold PState.newNode at h
  split at h
  · cases h
  · cases h; exact ⟨rfl, rfl⟩

/-- the precondition of "in body" in a mode that is none of "text", "in table text", "in cell" -/
theorem sm_preBody {σ : State N} {tok : STok} {m : IMode} (hm : σ.mode = m) (h1 : m ≠ .text) (h2 : m ≠ .inTableText)
    (h3 : m ≠ .inCell) : PreBody σ tok :=
  ⟨by rw [hm]; exact h1, by rw [hm]; exact h2, fun h => absurd (hm.symm.trans h) h3⟩

/-- the precondition of "in head" -/
theorem sm_preHead {σ : State N} {tok : STok} {m : IMode} (hm : σ.mode = m) (h1 : m ≠ .text) (h2 : m ≠ .inTableText) :
    PreHead σ tok :=
  ⟨by rw [hm]; exact h1, by rw [hm]; exact h2⟩

theorem sm_ite {P : State N → Prop} {c : Prop} [Decidable c] {a b : State N} (ha : P a) (hb : P b) :
    P (if c then a else b) := by split <;> assumption

/-! ### "initial" -/

theorem keeps_initial : Keeps0 (initial (N := N)) (PreMode .initial) := by
  intro cfg hed σ tok r hg hst hm h
  have hm : σ.mode = .initial := hm
  -- "anything else"
  have hany : ∀ s' : State N, Upd σ s' σ.p.stack σ.p.list → Post (.reprocess (s'.setMode .beforeHtml)) := fun s' hu =>
    ⟨by rw [setMode_stopped, hu.stopped]; exact hst,
     Good.plain' (m := .beforeHtml) rfl (by decide) (by rw [setMode_p, hu.list]; exact hg.af)
       (by rw [setMode_tms, hu.tms]; exact hg.tm)⟩
  have hupd : Upd σ (if (!cfg.srcdoc) = true then
        if (!cfg.cannotChangeMode) = true then
          { (σ.err "initial: no doctype").xop (.setDocumentMode .quirks) with quirks := .quirks }
        else σ.err "initial: no doctype"
      else σ) σ.p.stack σ.p.list := by
    split
    · split <;> exact ⟨rfl, rfl, rfl, rfl, rfl, rfl⟩
    · exact Upd.refl σ
  unfold initial at h
  cases tok with
  | character c =>
    dsimp only at h
    split at h
    · cases pure_ok h; exact fun _ => hg
    · cases pure_ok h; exact hany _ hupd
  | comment d =>
    dsimp only at h
    obtain ⟨s1, h1, h2⟩ := map_ok h
    subst h2
    have hu := insertCommentIn_eff h1
    exact fun _ => hg.same hu.mode hu.orig hu.tms hu.stack hu.list
  | doctype name pub sys fq =>
    dsimp only at h
    obtain ⟨r1, h1, h2⟩ := bind_ok h
    have h1' := req_ok h1
    obtain ⟨n1, st1⟩ := r1
    cases pure_ok h2
    have hp : ∀ (c : Prop) [Decidable c] w, (if c then σ.err w else σ).p = σ.p := by
      intro c _ w; split <;> rfl
    rw [hp] at h1'
    have hl := (sm_newNode_list h1').1
    refine fun _ => Good.plain' (m := .beforeHtml) rfl (by decide) ?_ ?_
    · rw [setMode_p]
      refine sm_ite (P := fun s => AFOk s.p.list) ?_ ?_
      · show AFOk st1.list
        rw [hl]; exact hg.af
      · show AFOk st1.list
        rw [hl]; exact hg.af
    · rw [setMode_tms]
      have ht : ∀ (c : Prop) [Decidable c] w, (if c then σ.err w else σ).templateModes = σ.templateModes := by
        intro c _ w; split <;> rfl
      refine sm_ite (P := fun s => ∀ m ∈ s.templateModes, tmOk m) ?_ ?_
      · simp only [xop_tms, ht]; exact hg.tm
      · simp only [xop_tms, ht]; exact hg.tm
  | startTag t => dsimp only at h; cases pure_ok h; exact hany _ hupd
  | endTag t => dsimp only at h; cases pure_ok h; exact hany _ hupd
  | eof => dsimp only at h; cases pure_ok h; exact hany _ hupd

/-! ### "before html" -/

theorem sm_createRootHtml_eff {cfg : Config N} {s s' : State N} {t : Tag} (h : createRootHtml cfg s t = .ok s') :
    ∃ e : Elem N, Upd s s' (s.p.stack ++ [e]) s.p.list := by
  unfold createRootHtml at h
  obtain ⟨r1, h1, h2⟩ := bind_ok h
  have h1' := req_ok h1
  obtain ⟨n1, st1⟩ := r1
  obtain ⟨hl, hs⟩ := sm_newNode_list h1'
  cases pure_ok h2
  exact ⟨_, rfl, rfl, rfl, rfl, by show st1.stack ++ _ = _; rw [hs], hl⟩

theorem keeps_beforeHtml : Keeps0 (beforeHtml (N := N)) (PreMode .beforeHtml) := by
  intro cfg hed σ tok r hg hst hm h
  have hm : σ.mode = .beforeHtml := hm
  have hany : ∀ r, (do
      let s ← createRootHtml cfg σ (bareTag "html")
      pure (.reprocess (s.setMode .beforeHead)) : M (Step N)) = .ok r → Post r := by
    intro r h
    obtain ⟨s1, h1, h2⟩ := bind_ok h
    obtain ⟨e, hu⟩ := sm_createRootHtml_eff h1
    cases pure_ok h2
    exact ⟨by rw [setMode_stopped, hu.stopped]; exact hst,
      Good.plain' (m := .beforeHead) rfl (by decide) (by rw [setMode_p, hu.list]; exact hg.af)
        (by rw [setMode_tms, hu.tms]; exact hg.tm)⟩
  unfold beforeHtml at h
  cases tok with
  | doctype _ _ _ _ => cases pure_ok h; exact fun _ => hg.same
  | comment d =>
    dsimp only at h
    obtain ⟨s1, h1, h2⟩ := map_ok h
    subst h2
    have hu := insertCommentIn_eff h1
    exact fun _ => hg.same hu.mode hu.orig hu.tms hu.stack hu.list
  | character c =>
    dsimp only at h
    split at h
    · cases pure_ok h; exact fun _ => hg
    · exact hany r h
  | startTag t =>
    dsimp only at h
    split at h
    · obtain ⟨s1, h1, h2⟩ := bind_ok h
      obtain ⟨e, hu⟩ := sm_createRootHtml_eff h1
      cases pure_ok h2
      exact fun _ => Good.plain' (m := .beforeHead) rfl (by decide) (by rw [setMode_p, hu.list]; exact hg.af)
        (by rw [setMode_tms, hu.tms]; exact hg.tm)
    · exact hany r h
  | endTag t =>
    dsimp only at h
    split at h
    · exact hany r h
    · cases pure_ok h; exact fun _ => hg.same
  | eof => exact hany r h

/-! ### "before head" -/

theorem keeps_beforeHead (hbody : Keeps (inBody (N := N)) PreBody) :
    Keeps (beforeHead (N := N)) (PreMode .beforeHead) := by
  intro cfg hed σ tok r hg hst hl hfr hm h
  have hm : σ.mode = .beforeHead := hm
  have hany : ∀ r, (do
      let r ← insertHtml σ (bareTag "head")
      pure (.reprocess { r.1 with headPointer := some r.2, mode := .inHead }) : M (Step N)) = .ok r → Post r := by
    intro r h
    obtain ⟨r1, h1, h2⟩ := bind_ok h
    obtain ⟨s1, e⟩ := r1
    obtain ⟨_, _, hu, _⟩ := insertHtml_eff h1
    cases pure_ok h2
    exact ⟨hu.stopped.trans hst,
      Good.plain' (m := .inHead) rfl (by decide) (by show AFOk s1.p.list; rw [hu.list]; exact hg.af)
        (by show ∀ m ∈ s1.templateModes, tmOk m; rw [hu.tms]; exact hg.tm)⟩
  unfold beforeHead at h
  cases tok with
  | character c =>
    dsimp only at h
    split at h
    · cases pure_ok h; exact fun _ => hg
    · exact hany r h
  | comment d =>
    dsimp only at h
    obtain ⟨s1, h1, h2⟩ := map_ok h
    subst h2
    have hu := insertComment_eff h1
    exact fun _ => hg.same hu.mode hu.orig hu.tms hu.stack hu.list
  | doctype _ _ _ _ => cases pure_ok h; exact fun _ => hg.same
  | startTag t =>
    dsimp only at h
    split at h
    · exact hbody cfg hed σ _ r hg hst hl hfr (sm_preBody hm (by decide) (by decide) (by decide)) h
    · split at h
      · obtain ⟨r1, h1, h2⟩ := bind_ok h
        obtain ⟨s1, e⟩ := r1
        obtain ⟨_, _, hu, _⟩ := insertHtml_eff h1
        cases pure_ok h2
        exact fun _ => Good.plain' (m := .inHead) rfl (by decide) (by show AFOk s1.p.list; rw [hu.list]; exact hg.af)
          (by show ∀ m ∈ s1.templateModes, tmOk m; rw [hu.tms]; exact hg.tm)
      · exact hany r h
  | endTag t =>
    dsimp only at h
    split at h
    · exact hany r h
    · cases pure_ok h; exact fun _ => hg.same
  | eof => exact hany r h

/-! ### "in head noscript" -/

theorem keeps_inHeadNoscript (hbody : Keeps (inBody (N := N)) PreBody) (hhead : Keeps0 (inHead (N := N)) PreHead) :
    Keeps (inHeadNoscript (N := N)) (PreMode .inHeadNoscript) := by
  intro cfg hed σ tok r hg hst hl hfr hm h
  have hm : σ.mode = .inHeadNoscript := hm
  have hh : ∀ r, inHead cfg σ tok = .ok r → Post r := fun r h =>
    hhead cfg hed σ tok r hg hst (sm_preHead hm (by decide) (by decide)) h
  have hany : Post (.reprocess ((σ.err "in head noscript: unexpected token").pop.setMode .inHead)) :=
    ⟨hst, hg.toPlain' (m := .inHead) rfl (by decide)⟩
  unfold inHeadNoscript at h
  cases tok with
  | doctype _ _ _ _ => cases pure_ok h; exact fun _ => hg.same
  | character c =>
    dsimp only at h
    split at h
    · exact hh r h
    · cases pure_ok h; exact hany
  | comment d => exact hh r h
  | startTag t =>
    dsimp only at h
    split at h
    · exact hbody cfg hed σ _ r hg hst hl hfr (sm_preBody hm (by decide) (by decide) (by decide)) h
    · split at h
      · exact hh r h
      · split at h
        · cases pure_ok h; exact fun _ => hg.same
        · cases pure_ok h; exact hany
  | endTag t =>
    dsimp only at h
    split at h
    · cases pure_ok h; exact fun _ => hg.toPlain' (m := .inHead) rfl (by decide)
    · split at h
      · cases pure_ok h; exact hany
      · cases pure_ok h; exact fun _ => hg.same
  | eof => cases pure_ok h; exact hany

/-! ### "after head" -/

/-- what "in head", run for a start tag in a state whose insertion mode is "after head", leaves behind -/
def smHeadRes (s s0 : State N) : Prop :=
  AFOk s0.p.list ∧ (∀ m ∈ s0.templateModes, tmOk m) ∧ s0.stopped = s.stopped ∧
    (plainMode s0.mode ∨ (s0.mode = .text ∧ s0.originalMode = .afterHead))

theorem sm_headRes_upd {s s0 : State N} {st l} (hm : s.mode = .afterHead) (haf : AFOk s.p.list)
    (htm : ∀ m ∈ s.templateModes, tmOk m) (hu : Upd s s0 st l) (hl : l = s.p.list) : smHeadRes s s0 :=
  ⟨by rw [hu.list, hl]; exact haf, by rw [hu.tms]; exact htm, hu.stopped,
    Or.inl (by rw [hu.mode, hm]; decide)⟩

theorem sm_inHead_start {cfg : Config N} {s : State N} {t : Tag} {r : Step N} (hm : s.mode = .afterHead)
    (haf : AFOk s.p.list) (htm : ∀ m ∈ s.templateModes, tmOk m) (h : inHead cfg s (.startTag t) = .ok r) :
    smHeadRes s r.state := by
  have hsame : ∀ s0 : State N, s0.mode = s.mode → s0.templateModes = s.templateModes → s0.stopped = s.stopped →
      s0.p.list = s.p.list → smHeadRes s s0 := fun s0 h1 h2 h3 h4 =>
    ⟨by rw [h4]; exact haf, by rw [h2]; exact htm, h3, Or.inl (by rw [h1, hm]; decide)⟩
  have htext : ∀ s0 : State N, genericTextElement s t .rawtext = .ok s0 ∨ genericTextElement s t .rcdata = .ok s0 →
      smHeadRes s s0 := by
    intro s0 h0
    have : ∃ sw, genericTextElement s t sw = .ok s0 := by
      rcases h0 with h0 | h0
      · exact ⟨_, h0⟩
      · exact ⟨_, h0⟩
    obtain ⟨sw, h0⟩ := this
    obtain ⟨e, _, _, h1, h2, h3, h4, _, h6⟩ := genericTextElement_eff h0
    exact ⟨by rw [h6]; exact haf, by rw [h3]; exact htm, h4, Or.inr ⟨h1, h2.trans hm⟩⟩
  unfold inHead at h
  dsimp only at h
  split at h
  · -- <html>
    unfold inBodyStartHtml at h
    dsimp only at h
    split at h
    · cases pure_ok h; exact hsame _ rfl rfl rfl rfl
    · obtain ⟨top, _, h2⟩ := bind_ok h
      cases pure_ok h2; exact hsame _ rfl rfl rfl rfl
  · split at h
    · obtain ⟨s1, h1, h2⟩ := map_ok h
      subst h2
      obtain ⟨_, hu⟩ := insertVoid_eff h1
      exact hsame _ hu.mode hu.tms hu.stopped hu.list
    · split at h
      · obtain ⟨s1, h1, h2⟩ := map_ok h
        subst h2
        obtain ⟨_, hu⟩ := insertVoid_eff h1
        exact hsame _ hu.mode hu.tms hu.stopped hu.list
      · split at h
        · obtain ⟨s1, h1, h2⟩ := map_ok h
          subst h2
          exact htext s1 (Or.inr h1)
        · split at h
          · obtain ⟨s1, h1, h2⟩ := map_ok h
            subst h2
            exact htext s1 (Or.inl h1)
          · split at h
            · -- <noscript>, scripting disabled
              obtain ⟨s1, h1, h2⟩ := bind_ok h
              obtain ⟨e, _, _, hu, _⟩ := insertHtml'_eff h1
              cases pure_ok h2
              exact ⟨by show AFOk s1.p.list; rw [hu.list]; exact haf,
                by show ∀ m ∈ s1.templateModes, tmOk m; rw [hu.tms]; exact htm, hu.stopped,
                Or.inl (by show plainMode IMode.inHeadNoscript; decide)⟩
            · split at h
              · -- <script>
                obtain ⟨s1, h1, h2⟩ := bind_ok h
                obtain ⟨e, _, _, hu, _⟩ := insertHtml'_eff h1
                cases pure_ok h2
                exact ⟨by show AFOk s1.p.list; rw [hu.list]; exact haf,
                  by show ∀ m ∈ s1.templateModes, tmOk m; rw [hu.tms]; exact htm, hu.stopped,
                  Or.inr ⟨rfl, hu.mode.trans hm⟩⟩
              · split at h
                · -- <template>
                  unfold inHeadStartTemplate at h
                  dsimp only at h
                  obtain ⟨s1, h1, h2⟩ := bind_ok h
                  obtain ⟨e, _, _, hu, _⟩ := insertHtml'_eff h1
                  cases pure_ok h2
                  refine ⟨?_, ?_, hu.stopped, Or.inl ?_⟩
                  · show AFOk s1.p.list
                    rw [hu.list]; exact haf.marker
                  · show ∀ m ∈ s1.templateModes, tmOk m
                    rw [hu.tms]
                    intro m hmem
                    rcases List.mem_append.mp hmem with hmem | hmem
                    · exact htm m hmem
                    · rw [List.mem_singleton.mp hmem]; exact Or.inl rfl
                  · show plainMode s1.mode
                    rw [hu.mode]; show plainMode IMode.inTemplate; decide
                · split at h
                  · cases pure_ok h; exact hsame _ rfl rfl rfl rfl
                  · cases pure_ok h
                    exact ⟨haf, htm, rfl, Or.inl (by show plainMode IMode.afterHead; decide)⟩

theorem sm_good_removeHead {s0 : State N} {x : N} (haf : AFOk s0.p.list) (htm : ∀ m ∈ s0.templateModes, tmOk m)
    (hmode : plainMode s0.mode ∨ (s0.mode = .text ∧ s0.originalMode = .afterHead)) : Good (removeFromStack s0 x) := by
  rcases hmode with hp | ⟨h1, h2⟩
  · exact Good.plain (by rw [removeFromStack_mode]; exact hp) (by rw [removeFromStack_list]; exact haf)
      (by rw [removeFromStack_tms]; exact htm)
  · refine ⟨fun h => ?_, fun _ => ?_, fun h => ?_, ?_, ?_, ?_⟩
    · rw [removeFromStack_mode, h1] at h; cases h
    · rw [removeFromStack_orig, h2]
      exact ⟨⟨by decide, by decide, by decide, by decide⟩, fun h => by cases h⟩
    · rw [removeFromStack_mode, h1] at h; cases h
    · rw [removeFromStack_mode, h1]; exact ⟨by decide, by decide⟩
    · rw [removeFromStack_list]; exact haf
    · rw [removeFromStack_tms]; exact htm

theorem keeps_afterHead (hbody : Keeps (inBody (N := N)) PreBody) (hhead : Keeps0 (inHead (N := N)) PreHead) :
    Keeps (afterHead (N := N)) (PreMode .afterHead) := by
  intro cfg hed σ tok r hg hst hl hfr hm h
  have hm : σ.mode = .afterHead := hm
  have hb : ∀ r', r' = r → inBody cfg σ tok = .ok r' → Post r' := fun r' hr h =>
    hbody cfg hed σ tok r' hg hst hl (hr ▸ hfr) (sm_preBody hm (by decide) (by decide) (by decide)) h
  have hh : ∀ r, inHead cfg σ tok = .ok r → Post r := fun r h =>
    hhead cfg hed σ tok r hg hst (sm_preHead hm (by decide) (by decide)) h
  have hany : ∀ r, (do
      let s ← insertHtml' σ (bareTag "body")
      pure (.reprocess (s.setMode .inBody)) : M (Step N)) = .ok r → Post r := by
    intro r h
    obtain ⟨s1, h1, h2⟩ := bind_ok h
    obtain ⟨e, _, _, hu, _⟩ := insertHtml'_eff h1
    cases pure_ok h2
    exact ⟨by rw [setMode_stopped, hu.stopped]; exact hst,
      Good.plain' (m := .inBody) rfl (by decide) (by rw [setMode_p, hu.list]; exact hg.af)
        (by rw [setMode_tms, hu.tms]; exact hg.tm)⟩
  unfold afterHead at h
  cases tok with
  | character c =>
    dsimp only at h
    split at h
    · obtain ⟨s1, h1, h2⟩ := map_ok h
      subst h2
      have hu := insertChar_eff h1
      exact fun _ => hg.same hu.mode hu.orig hu.tms hu.stack hu.list
    · exact hany r h
  | comment d =>
    dsimp only at h
    obtain ⟨s1, h1, h2⟩ := map_ok h
    subst h2
    have hu := insertComment_eff h1
    exact fun _ => hg.same hu.mode hu.orig hu.tms hu.stack hu.list
  | doctype _ _ _ _ => cases pure_ok h; exact fun _ => hg.same
  | startTag t =>
    dsimp only at h
    split at h
    · exact hb r rfl h
    · split at h
      · -- <body>
        obtain ⟨s1, h1, h2⟩ := bind_ok h
        obtain ⟨e, _, _, hu, _⟩ := insertHtml'_eff h1
        cases pure_ok h2
        exact fun _ => Good.plain' (m := .inBody) rfl (by decide)
          (by rw [setMode_p, notOk_p, hu.list]; exact hg.af) (by rw [setMode_tms, notOk_tms, hu.tms]; exact hg.tm)
      · split at h
        · -- <frameset>
          obtain ⟨s1, h1, h2⟩ := bind_ok h
          obtain ⟨e, _, _, hu, _⟩ := insertHtml'_eff h1
          cases pure_ok h2
          exact fun _ => Good.plain' (m := .inFrameset) rfl (by decide)
            (by rw [setMode_p, hu.list]; exact hg.af) (by rw [setMode_tms, hu.tms]; exact hg.tm)
        · split at h
          · -- base … title: "in head" with the head element pushed, then removed
            obtain ⟨head, _, h2⟩ := bind_ok h
            obtain ⟨r0, h3, h4⟩ := bind_ok h2
            cases pure_ok h4
            obtain ⟨qaf, qtm, qst, qm⟩ := sm_inHead_start (s := (σ.err "after head: head content").setStack
              ((σ.err "after head: head content").p.stack ++ [head])) hm hg.af hg.tm h3
            have qst' : r0.state.stopped = false := qst.trans hst
            cases r0 with
            | done s0 => exact fun _ => sm_good_removeHead qaf qtm qm
            | reprocess s0 =>
              exact ⟨by rw [removeFromStack_stopped]; exact qst', sm_good_removeHead qaf qtm qm⟩
            | reprocessHtml s0 =>
              have hgp : Good ((σ.err "after head: head content").setStack
                  ((σ.err "after head: head content").p.stack ++ [head])) :=
                Good.plain' (m := .afterHead) hm (by decide) hg.af hg.tm
              exact (hhead cfg hed _ _ _ hgp hst
                ⟨(by intro hc; have h' : σ.mode = _ := hc; rw [‹σ.mode = IMode.afterHead›] at h'; cases h'),
                 (by intro hc; have h' : σ.mode = _ := hc; rw [‹σ.mode = IMode.afterHead›] at h'; cases h')⟩ h3).elim
          · split at h
            · cases pure_ok h; exact fun _ => hg.same
            · exact hany r h
  | endTag t =>
    dsimp only at h
    split at h
    · exact hh r h
    · split at h
      · exact hany r h
      · cases pure_ok h; exact fun _ => hg.same
  | eof => exact hany r h

/-! ### "after body" -/

theorem keeps_afterBody (hbody : Keeps (inBody (N := N)) PreBody) :
    Keeps (afterBody (N := N)) (PreMode .afterBody) := by
  intro cfg hed σ tok r hg hst hl hfr hm h
  have hm : σ.mode = .afterBody := hm
  have hb : ∀ r', r' = r → inBody cfg σ tok = .ok r' → Post r' := fun r' hr h =>
    hbody cfg hed σ tok r' hg hst hl (hr ▸ hfr) (sm_preBody hm (by decide) (by decide) (by decide)) h
  have hany : Post (.reprocess ((σ.err "after body: unexpected token").setMode .inBody)) :=
    ⟨hst, hg.toPlain' (m := .inBody) rfl (by decide)⟩
  unfold afterBody at h
  cases tok with
  | character c =>
    dsimp only at h
    split at h
    · exact hb r rfl h
    · cases pure_ok h; exact hany
  | comment d =>
    dsimp only at h
    obtain ⟨html, _, h2⟩ := bind_ok h
    obtain ⟨s1, h1, h3⟩ := map_ok h2
    subst h3
    have hu := insertCommentIn_eff h1
    exact fun _ => hg.same hu.mode hu.orig hu.tms hu.stack hu.list
  | doctype _ _ _ _ => cases pure_ok h; exact fun _ => hg.same
  | startTag t =>
    dsimp only at h
    split at h
    · exact hb r rfl h
    · cases pure_ok h; exact hany
  | endTag t =>
    dsimp only at h
    split at h
    · split at h
      · cases pure_ok h; exact fun _ => hg.same
      · cases pure_ok h; exact fun _ => hg.toPlain' (m := .afterAfterBody) rfl (by decide)
    · cases pure_ok h; exact hany
  | eof => cases pure_ok h; exact inv_stopParsing σ

/-! ### "in frameset" -/

theorem keeps_inFrameset (hbody : Keeps (inBody (N := N)) PreBody) (hhead : Keeps0 (inHead (N := N)) PreHead) :
    Keeps (inFrameset (N := N)) (PreMode .inFrameset) := by
  intro cfg hed σ tok r hg hst hl hfr hm h
  have hm : σ.mode = .inFrameset := hm
  have hb : ∀ r', r' = r → inBody cfg σ tok = .ok r' → Post r' := fun r' hr h =>
    hbody cfg hed σ tok r' hg hst hl (hr ▸ hfr) (sm_preBody hm (by decide) (by decide) (by decide)) h
  have hh : ∀ r, inHead cfg σ tok = .ok r → Post r := fun r h =>
    hhead cfg hed σ tok r hg hst (sm_preHead hm (by decide) (by decide)) h
  unfold inFrameset at h
  cases tok with
  | character c =>
    dsimp only at h
    split at h
    · obtain ⟨s1, h1, h2⟩ := map_ok h
      subst h2
      have hu := insertChar_eff h1
      exact fun _ => hg.same hu.mode hu.orig hu.tms hu.stack hu.list
    · cases pure_ok h; exact fun _ => hg.same
  | comment d =>
    dsimp only at h
    obtain ⟨s1, h1, h2⟩ := map_ok h
    subst h2
    have hu := insertComment_eff h1
    exact fun _ => hg.same hu.mode hu.orig hu.tms hu.stack hu.list
  | doctype _ _ _ _ => cases pure_ok h; exact fun _ => hg.same
  | startTag t =>
    dsimp only at h
    split at h
    · exact hb r rfl h
    · split at h
      · obtain ⟨s1, h1, h2⟩ := map_ok h
        subst h2
        obtain ⟨e, _, _, hu, _⟩ := insertHtml'_eff h1
        exact fun _ => Good.plain' (m := .inFrameset) (hu.mode.trans hm) (by decide) (by rw [hu.list]; exact hg.af)
          (by rw [hu.tms]; exact hg.tm)
      · split at h
        · obtain ⟨s1, h1, h2⟩ := map_ok h
          subst h2
          obtain ⟨_, hu⟩ := insertVoid_eff h1
          exact fun _ => hg.same hu.mode hu.orig hu.tms hu.stack hu.list
        · split at h
          · exact hh r h
          · cases pure_ok h; exact fun _ => hg.same
  | endTag t =>
    dsimp only at h
    split at h
    · split at h
      · cases pure_ok h; exact fun _ => hg.same
      · cases pure_ok h
        refine fun _ => sm_ite (P := Good) ?_ ?_
        · exact hg.toPlain' (m := .afterFrameset) rfl (by decide)
        · exact hg.toPlain' (m := .inFrameset) hm (by decide)
    · cases pure_ok h; exact fun _ => hg.same
  | eof => cases pure_ok h; exact inv_stopParsing _

/-! ### "after frameset" -/

theorem keeps_afterFrameset (hbody : Keeps (inBody (N := N)) PreBody) (hhead : Keeps0 (inHead (N := N)) PreHead) :
    Keeps (afterFrameset (N := N)) (PreMode .afterFrameset) := by
  intro cfg hed σ tok r hg hst hl hfr hm h
  have hm : σ.mode = .afterFrameset := hm
  have hb : ∀ r', r' = r → inBody cfg σ tok = .ok r' → Post r' := fun r' hr h =>
    hbody cfg hed σ tok r' hg hst hl (hr ▸ hfr) (sm_preBody hm (by decide) (by decide) (by decide)) h
  have hh : ∀ r, inHead cfg σ tok = .ok r → Post r := fun r h =>
    hhead cfg hed σ tok r hg hst (sm_preHead hm (by decide) (by decide)) h
  unfold afterFrameset at h
  cases tok with
  | character c =>
    dsimp only at h
    split at h
    · obtain ⟨s1, h1, h2⟩ := map_ok h
      subst h2
      have hu := insertChar_eff h1
      exact fun _ => hg.same hu.mode hu.orig hu.tms hu.stack hu.list
    · cases pure_ok h; exact fun _ => hg.same
  | comment d =>
    dsimp only at h
    obtain ⟨s1, h1, h2⟩ := map_ok h
    subst h2
    have hu := insertComment_eff h1
    exact fun _ => hg.same hu.mode hu.orig hu.tms hu.stack hu.list
  | doctype _ _ _ _ => cases pure_ok h; exact fun _ => hg.same
  | startTag t =>
    dsimp only at h
    split at h
    · exact hb r rfl h
    · split at h
      · exact hh r h
      · cases pure_ok h; exact fun _ => hg.same
  | endTag t =>
    dsimp only at h
    split at h
    · cases pure_ok h; exact fun _ => hg.toPlain' (m := .afterAfterFrameset) rfl (by decide)
    · cases pure_ok h; exact fun _ => hg.same
  | eof => cases pure_ok h; exact inv_stopParsing σ

/-! ### "after after body" -/

theorem keeps_afterAfterBody (hbody : Keeps (inBody (N := N)) PreBody) :
    Keeps (afterAfterBody (N := N)) (PreMode .afterAfterBody) := by
  intro cfg hed σ tok r hg hst hl hfr hm h
  have hm : σ.mode = .afterAfterBody := hm
  have hb : ∀ r', r' = r → inBody cfg σ tok = .ok r' → Post r' := fun r' hr h =>
    hbody cfg hed σ tok r' hg hst hl (hr ▸ hfr) (sm_preBody hm (by decide) (by decide) (by decide)) h
  have hany : Post (.reprocess ((σ.err "after after body: unexpected token").setMode .inBody)) :=
    ⟨hst, hg.toPlain' (m := .inBody) rfl (by decide)⟩
  unfold afterAfterBody at h
  cases tok with
  | comment d =>
    dsimp only at h
    obtain ⟨s1, h1, h2⟩ := map_ok h
    subst h2
    have hu := insertCommentIn_eff h1
    exact fun _ => hg.same hu.mode hu.orig hu.tms hu.stack hu.list
  | doctype _ _ _ _ => exact hb r rfl h
  | character c =>
    dsimp only at h
    split at h
    · exact hb r rfl h
    · cases pure_ok h; exact hany
  | startTag t =>
    dsimp only at h
    split at h
    · exact hb r rfl h
    · cases pure_ok h; exact hany
  | eof => cases pure_ok h; exact inv_stopParsing σ
  | endTag t => cases pure_ok h; exact hany

/-! ### "after after frameset" -/

theorem keeps_afterAfterFrameset (hbody : Keeps (inBody (N := N)) PreBody) (hhead : Keeps0 (inHead (N := N)) PreHead) :
    Keeps (afterAfterFrameset (N := N)) (PreMode .afterAfterFrameset) := by
  intro cfg hed σ tok r hg hst hl hfr hm h
  have hm : σ.mode = .afterAfterFrameset := hm
  have hb : ∀ r', r' = r → inBody cfg σ tok = .ok r' → Post r' := fun r' hr h =>
    hbody cfg hed σ tok r' hg hst hl (hr ▸ hfr) (sm_preBody hm (by decide) (by decide) (by decide)) h
  have hh : ∀ r, inHead cfg σ tok = .ok r → Post r := fun r h =>
    hhead cfg hed σ tok r hg hst (sm_preHead hm (by decide) (by decide)) h
  unfold afterAfterFrameset at h
  cases tok with
  | comment d =>
    dsimp only at h
    obtain ⟨s1, h1, h2⟩ := map_ok h
    subst h2
    have hu := insertCommentIn_eff h1
    exact fun _ => hg.same hu.mode hu.orig hu.tms hu.stack hu.list
  | doctype _ _ _ _ => exact hb r rfl h
  | character c =>
    dsimp only at h
    split at h
    · exact hb r rfl h
    · cases pure_ok h; exact fun _ => hg.same
  | startTag t =>
    dsimp only at h
    split at h
    · exact hb r rfl h
    · split at h
      · exact hh r h
      · cases pure_ok h; exact fun _ => hg.same
  | eof => cases pure_ok h; exact inv_stopParsing σ
  | endTag t => cases pure_ok h; exact fun _ => hg.same

end
end H5V.Lemmas.ModesInv
