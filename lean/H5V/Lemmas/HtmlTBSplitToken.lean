import H5V.Lemmas.HtmlTBSplitAdd
/-!
C03 lifted to the tree — layer 7: from `process_to_completion` to `process_token`:
`ignore_lf`, the line number, the fuel.  `processToken_split`: a character token delivered in two
pieces.
-/
namespace H5V.Lemmas.TBSplit
open H5V.Model.Dom (Id QualName Attr NodeOrText SinkOp Output ElementFlags QuirksMode Dom)
open H5V.Model.HtmlTok (TagKind RawKind)
open H5V.Model.HtmlTB

/-! ### `ignore_lf` is not touched while a character token is processed -/

theorem charsFin_ilf {k : CKind} {st : SplitStatus} {z : Str} {s0 s1 : State} {r : ProcessResult}
    (h : charsFin k st z s0 = .ok (r, s1)) : s1.ignoreLf = s0.ignoreLf := by
  have key : fr s1 = fr s0 ∨ fr s1 = fr { s0 with fosterParenting := false } := by
    cases k with
    | split => cases h; exact Or.inl rfl
    | drop => cases h; exact Or.inl rfl
    | re m => cases h; exact Or.inl rfl
    | fa => exact Or.inl (appendText_keeps z _ _ _ h)
    | ffa => exact Or.inl (keeps_bind (fOk_keeps z) (fun _ => appendText_keeps z) _ _ _ h)
    | body f =>
      cases f
      · exact Or.inl (stepInBody_chars_keeps st z _ _ _ h)
      · exact Or.inr (fosterParentInBody_chars_fr st z h)
    | pend => cases h; exact Or.inl rfl
  rcases key with key | key <;> (simp only [fr, Prod.mk.injEq] at key; exact key.2.2.2.2.1)

theorem ptc_chars_ilf : ∀ (f : Nat) (t : Token) (more : List Token) (s : State) (r : SinkResult) (s1 : State),
    Good s → CT t → (∀ t' ∈ more, CT t') → processToCompletion f t more s = .ok (r, s1) →
    s1.ignoreLf = s.ignoreLf
  | 0, _, _, _, _, _, _, _, _, h => by rw [ptc_zero] at h; cases h
  | f + 1, t, more, s, r, s1, hg, ht, hm, h => by
    obtain ⟨st, x, rfl, hx⟩ := ht
    rw [ptc_succ, D_chars_eq, bind_assoc] at h
    obtain ⟨k, s0, hd, h⟩ := bind_ok h
    obtain ⟨_, hg0⟩ := dPre_post hg hd
    have hi0 : s0.ignoreLf = s.ignoreLf := by
      have := dPre_keeps st _ _ _ hd
      simp only [fr, Prod.mk.injEq] at this
      exact this.2.2.2.2.1
    obtain ⟨pr, s2, hf, h⟩ := bind_ok h
    obtain ⟨hr, hg2⟩ := (charsFin_resp k st x hx).post hg0 hf
    have hi2 : s2.ignoreLf = s.ignoreLf := (charsFin_ilf hf).trans hi0
    have hr' := hr.eq
    subst hr'
    cases k with
    | split =>
      simp only [finRes, K] at h
      cases hpop : popFrontCharRun x with
      | none => rw [hpop] at h; cases h; exact hi2
      | some v =>
        obtain ⟨first, isWs, rest⟩ := v
        rw [hpop] at h
        simp only [] at h
        refine (ptc_chars_ilf f _ _ s2 r s1 hg2 ⟨_, first, rfl, H5V.Props.C06.C06_split_run_nonempty hpop⟩ ?_ h).trans hi2
        intro t' ht'
        split at ht'
        · rename_i hrl
          rcases List.mem_append.mp ht' with h' | h'
          · exact hm t' h'
          · simp at h'; subst h'
            exact ⟨_, rest, rfl, by intro h0; subst h0; simp at hrl⟩
        · exact hm t' ht'
    | re m' =>
      simp only [finRes, K, bind_apply, setMode, modS_apply] at h
      have hgm : Good { s2 with mode := m' } := ⟨hg2.af, hg2.pend⟩
      exact (ptc_chars_ilf f _ more { s2 with mode := m' } r s1 hgm ⟨st, x, rfl, hx⟩ hm h).trans hi2
    | drop | fa | ffa | body _ | pend =>
      all_goals
        simp only [finRes, K, Bool.false_eq_true, if_false] at h
        cases more with
        | nil => cases h; exact hi2
        | cons t2 rest =>
          exact (ptc_chars_ilf f t2 rest s2 r s1 hg2 (hm t2 (List.mem_cons_self ..))
            (fun t' h' => hm t' (List.mem_cons_of_mem _ h')) h).trans hi2

/-! ### `process_token` on a character token -/

theorem dropIgnoredLf_append (ilf : Bool) {a : Str} (ha : a ≠ []) (b : Str) :
    dropIgnoredLf ilf (a ++ b) = dropIgnoredLf ilf a ++ b := by
  obtain ⟨c, a', rfl⟩ := List.exists_cons_of_ne_nil ha
  unfold dropIgnoredLf
  cases ilf
  · rfl
  · simp only [if_true, List.cons_append]
    split
    · rename_i rest heq
      cases heq
      rfl
    · rename_i hne
      split
      · rename_i rest heq
        cases heq
        exact (hne _ rfl).elim
      · rfl

/-- the state after `ignore_lf.take()` -/
@[reducible] def clearLf (s : State) : State := { s with ignoreLf := false }

theorem good_clearLf {s : State} (h : Good s) : Good (clearLf s) := ⟨h.af, h.pend⟩

theorem processTokenRest_chars (x : Str) (s : State) :
    processTokenRest (.chars x) s =
      if (dropIgnoredLf s.ignoreLf x).isEmpty then .ok (.continue_, clearLf s)
      else processToCompletion (ptcFuel (clearLf s) (.chars .notSplit (dropIgnoredLf s.ignoreLf x)))
        (.chars .notSplit (dropIgnoredLf s.ignoreLf x)) [] (clearLf s) := by
  unfold processTokenRest
  rw [bind_apply, getS_apply]
  simp only
  rw [bind_apply, modS_apply]
  simp only [pure_bind, charsToken]
  split
  · rfl
  · show (getS >>= fun st => processToCompletion (ptcFuel st _) _ []) _ = _
    rw [bind_apply, getS_apply]

/-- `process_token` on a character token, fuel-free -/
theorem processTokenRest_chars' {x : Str} {s : State} (hg : Good s) :
    processTokenRest (.chars x) s =
      if (dropIgnoredLf s.ignoreLf x).isEmpty then .ok (.continue_, clearLf s)
      else PTC (.chars .notSplit (dropIgnoredLf s.ignoreLf x)) [] (clearLf s) := by
  rw [processTokenRest_chars]
  split
  · rfl
  · rename_i hne
    have hz : dropIgnoredLf s.ignoreLf x ≠ [] := by
      intro h; rw [h] at hne; exact hne rfl
    exact PTC_of_fuel (good_clearLf hg) ⟨_, _, rfl, hz⟩ (by simp) (mu_lt_ptcFuel _ _ _)

theorem PTC_ilf {s s1 : State} (hg : Good s) {z : Str} (hz : z ≠ []) {r : SinkResult}
    (h : PTC (.chars .notSplit z) [] s = .ok (r, s1)) : s1.ignoreLf = s.ignoreLf :=
  ptc_chars_ilf _ _ _ _ _ _ hg ⟨_, z, rfl, hz⟩ (by simp) h

/-- the second piece, delivered by `process_token` to a state whose `ignore_lf` is clear -/
theorem processToken_chars_clear {b : Str} (hb : b ≠ []) (l : Nat) {s : State} (hg : Good s)
    (hi : s.ignoreLf = false) :
    RelR (fun _ => True) (processToken (.chars b) l s) (PTC (.chars .notSplit b) [] s) := by
  rw [processToken_apply, bind_apply]
  obtain ⟨tr, h1⟩ := lineIf_apply l s.currentLine s
  rw [h1]
  simp only
  have hs : Sim s (upd s tr s.currentLine s.dom.errorsRev s.pendingTableText) := sim_upd_self hg.sim tr
  have hg' := hs.symm.good
  rw [processTokenRest_chars' hg']
  have hi' : (upd s tr s.currentLine s.dom.errorsRev s.pendingTableText).ignoreLf = false := hi
  rw [hi']
  have hd : dropIgnoredLf false b = b := rfl
  rw [hd]
  have hne : b.isEmpty = false := by cases b with | nil => exact (hb rfl).elim | cons _ _ => rfl
  simp only [hne, Bool.false_eq_true, if_false]
  have hs2 : Sim (clearLf (upd s tr s.currentLine s.dom.errorsRev s.pendingTableText)) s := by
    have : clearLf (upd s tr s.currentLine s.dom.errorsRev s.pendingTableText) =
        upd s tr s.currentLine s.dom.errorsRev s.pendingTableText := by
      cases s; simp only at hi; subst hi; rfl
    rw [this]; exact hs.symm
  exact PTC_resp' .notSplit hb _ _ hs2

/-- **a character token delivered in two pieces** (`process_token` level, same start state) -/
theorem processTokenRest_split {a b : Str} (ha : a ≠ []) (hb : b ≠ []) (l2 : Nat) {s : State} (hg : Good s) :
    RelR (fun _ => True) (processTokenRest (.chars (a ++ b)) s)
      ((processTokenRest (.chars a) >>= fun _ => processToken (.chars b) l2) s) := by
  have hgc := good_clearLf hg
  rw [bind_apply, processTokenRest_chars' hg, processTokenRest_chars' hg, dropIgnoredLf_append _ ha]
  by_cases hza : dropIgnoredLf s.ignoreLf a = []
  · -- the first piece was the line feed `ignore_lf` asks to drop
    rw [hza]
    simp only [List.nil_append, List.isEmpty_nil, if_true]
    have hne : b.isEmpty = false := by cases b with | nil => exact (hb rfl).elim | cons _ _ => rfl
    simp only [hne, Bool.false_eq_true, if_false]
    exact (relR_self (PTC_resp' .notSplit hb) hgc).trans
      ((processToken_chars_clear hb l2 hgc rfl).symm)
  · have hne : (dropIgnoredLf s.ignoreLf a).isEmpty = false := by
      cases h : dropIgnoredLf s.ignoreLf a with | nil => exact (hza h).elim | cons _ _ => rfl
    have hne2 : (dropIgnoredLf s.ignoreLf a ++ b).isEmpty = false := by
      cases h : dropIgnoredLf s.ignoreLf a with | nil => exact (hza h).elim | cons _ _ => rfl
    simp only [hne, hne2, Bool.false_eq_true, if_false]
    have hadd := ptc_add _ (clearLf s) .notSplit (dropIgnoredLf s.ignoreLf a) b hgc hza hb trivial (Nat.lt_succ_self _)
    unfold AddAt at hadd
    refine hadd.trans ?_
    rw [bind_apply]
    cases h1 : PTC (.chars .notSplit (dropIgnoredLf s.ignoreLf a)) [] (clearLf s) with
    | error e => trivial
    | ok v =>
      obtain ⟨r, s1⟩ := v
      simp only
      have hg1 : Good s1 := (PTC_cont hgc ⟨_, _, rfl, hza⟩ (by simp) h1).2
      have hi1 : s1.ignoreLf = false := PTC_ilf hgc hza h1
      exact (processToken_chars_clear hb l2 hg1 hi1).symm

/-- **a character token delivered in two pieces**, any line numbers, `Sim` start states -/
theorem processToken_split {a b : Str} (ha : a ≠ []) (hb : b ≠ []) (l l1 l2 : Nat) {s t : State} (hst : Sim s t) :
    RelR (fun _ => True) (processToken (.chars (a ++ b)) l s)
      ((processToken (.chars a) l1 >>= fun _ => processToken (.chars b) l2) t) := by
  rw [processToken_apply, bind_apply]
  obtain ⟨tr, h1⟩ := lineIf_apply l s.currentLine s
  rw [h1]
  simp only
  have hs1 : Sim s (upd s tr s.currentLine s.dom.errorsRev s.pendingTableText) := sim_upd_self hst.left tr
  -- the two-piece side
  have h2 : (processToken (.chars a) l1 >>= fun _ => processToken (.chars b) l2) t =
      ((lineIf l1 t.currentLine >>= fun _ => processTokenRest (.chars a)) >>= fun _ => processToken (.chars b) l2) t := by
    rw [bind_apply, bind_apply, processToken_apply]
  rw [h2, bind_assoc, bind_apply]
  obtain ⟨tr', h3⟩ := lineIf_apply l1 t.currentLine t
  rw [h3]
  simp only
  have hs2 : Sim t (upd t tr' t.currentLine t.dom.errorsRev t.pendingTableText) := sim_upd_self hst.right tr'
  have hs12 := (hs1.symm.trans hst).trans hs2
  refine (processTokenRest_resp inTableText_ok flushText_ok (.chars (a ++ b)) _ _ hs12).trans ?_
  exact processTokenRest_split ha hb l2 hs2.symm.good

end H5V.Lemmas.TBSplit
