import H5V.Lemmas.XmlTokResume
/-!
`step_resume` (all reading kinds assembled), the `Good` invariant and its preservation, `step`
respects the dead-`current_char` simulation, and the run-level chunking theorem for the XML tokenizer
model.
-/
namespace H5V.Model.XmlTok

def isEatState (s : State) : Bool := s == .markupDecl || s == .afterDoctypeName

/-- invariant at step boundaries: text is stashed in `temp_buf` only while a look-ahead state is
waiting for more input, with no character reference in progress and no pending "ignore LF" -/
def Good (m : Mach) : Prop :=
  m.tempBuf = [] ∨ (isEatState m.state = true ∧ m.charRef = none ∧ m.ignoreLf = false)

theorem Good.eatOk {m : Mach} (hg : Good m) : EatOk m := by
  intro hil
  rcases hg with h | ⟨_, _, h⟩
  · exact h
  · rw [h] at hil; cases hil

theorem Good.of_tempBuf {m : Mach} (h : m.tempBuf = []) : Good m := Or.inl h

theorem Good.tempBuf_of_not_eat {m : Mach} (hg : Good m) (h : isEatState m.state = false) : m.tempBuf = [] := by
  rcases hg with h' | ⟨h', _, _⟩
  · exact h'
  · rw [h] at h'; cases h'

theorem Good.tempBuf_of_charRef {m : Mach} (hg : Good m) {cr : CharRefSt} (h : m.charRef = some cr) :
    m.tempBuf = [] := by
  rcases hg with h' | ⟨_, h', _⟩
  · exact h'
  · rw [h] at h'; cases h'

theorem readKind_md {s : State} (h : readKind s = .eatMd) : s = .markupDecl := by
  cases s <;> simp [readKind] at h ⊢
theorem readKind_adn {s : State} (h : readKind s = .eatAdn) : s = .afterDoctypeName := by
  cases s <;> simp [readKind] at h ⊢
theorem not_eat_of_getChar {s : State} (h : readKind s = .getChar) : isEatState s = false := by
  cases s <;> simp [readKind, isEatState] at h ⊢
theorem not_eat_of_popExcept {s : State} (h : readKind s = .popExcept) : isEatState s = false := by
  cases s <;> simp [readKind, isEatState] at h ⊢

/-! ### step by reading kind -/

theorem step_kind_md (o : Opts) (m : Mach) (inp : Str)
    (hcr : m.charRef = none) (hrk : readKind m.state = .eatMd) : step o m inp = stepMd o m inp := by
  unfold step; simp only [hcr, hrk]
theorem step_kind_adn (o : Opts) (m : Mach) (inp : Str)
    (hcr : m.charRef = none) (hrk : readKind m.state = .eatAdn) : step o m inp = stepAdn o m inp := by
  unfold step; simp only [hcr, hrk]
theorem step_kind_charRef (o : Opts) (m : Mach) (inp : Str) (cr : CharRefSt)
    (hcr : m.charRef = some cr) : step o m inp = stepCharRef o m inp cr := by
  unfold step; simp only [hcr]

/-- the continuation of a `get_char!` state after its read -/
def contChar (o : Opts) (r : Option Char × Mach × Str) : R :=
  match r with
  | (none, m, inp) => .suspend m inp
  | (some c, m, inp) => ofSig (transChar o m c) inp

theorem step_getChar (o : Opts) (m : Mach) (inp : Str)
    (hcr : m.charRef = none) (hrk : readKind m.state = .getChar) :
    step o m inp = contChar o (getChar o m inp) := by
  cases hp : getChar o m inp with
  | mk a b =>
    obtain ⟨m1, i1⟩ := b
    cases a <;> simp [step, contChar, hcr, hrk, hp]

theorem good_setIgnoreLf_false {m : Mach} (hg : Good m) : Good (m.setIgnoreLf false) := by
  rcases hg with h | ⟨h1, h2, _⟩
  · exact Or.inl (by simpa using h)
  · exact Or.inr ⟨by simpa using h1, by simpa using h2, by simp⟩

/-- **`step` is resumable.** If a step asks for more input it has consumed everything available;
re-executing it from the suspended machine once `e` has arrived gives the same result as the step
on the concatenated input, up to a dead `current_char`; the invariant survives. -/
theorem step_resume (o : Opts) (m m' : Mach) (inp inp' e : Str)
    (hg : Good m) (hat : m.atEof = false)
    (h : step o m inp = .suspend m' inp') :
    inp' = [] ∧ RSim (step o m (inp ++ e)) (step o m' e) ∧ Good m' ∧ m'.atEof = false := by
  cases hcr : m.charRef with
  | some cr =>
    rw [step_kind_charRef o m inp cr hcr] at h
    obtain ⟨h1, h2, h3, h4, h5, h6, _⟩ := resume_charRef o m m' inp inp' e cr hcr h
    refine ⟨h1, RSim.of_eq h2.symm, Or.inl ?_, by rw [h6, hat]⟩
    rw [h5]; exact hg.tempBuf_of_charRef hcr
  | none =>
    cases hrk : readKind m.state with
    | getChar =>
      rw [step_getChar o m inp hcr hrk] at h
      cases hgc : getChar o m inp with
      | mk c r =>
        obtain ⟨m1, i1⟩ := r
        rw [hgc] at h
        cases c with
        | some c => simp only [contChar, ofSig] at h; split at h <;> simp at h
        | none =>
          simp only [contChar, R.suspend.injEq] at h
          obtain ⟨h4, h5⟩ := h
          subst h4 h5
          obtain ⟨hi, hre⟩ := resume_getChar o m m1 inp i1 e hcr hrk hgc
          obtain ⟨_, _, h3⟩ := getChar_none o m m1 inp i1 hgc
          refine ⟨hi, RSim.of_eq hre.symm, ?_, ?_⟩
          · rcases h3 with ⟨_, h4⟩ | ⟨_, _, h4⟩ <;> subst h4
            · exact hg
            · exact good_setIgnoreLf_false hg
          · rcases h3 with ⟨_, h4⟩ | ⟨_, _, h4⟩ <;> subst h4 <;> simp [hat]
    | popExcept =>
      rw [step_popExcept o m inp hcr hrk] at h
      cases hgc : popExceptFrom o (setOf m.state) m inp with
      | mk c r =>
        obtain ⟨m1, i1⟩ := r
        rw [hgc] at h
        cases c with
        | some c => simp only [contSet, ofSig] at h; split at h <;> simp at h
        | none =>
          simp only [contSet, R.suspend.injEq] at h
          obtain ⟨h4, h5⟩ := h
          subst h4 h5
          obtain ⟨hi, hre⟩ := resume_popExcept o m m1 inp i1 e hcr hrk hgc
          obtain ⟨_, _, h3⟩ := popExceptFrom_none o _ m m1 inp i1 hgc
          refine ⟨hi, hre, ?_, ?_⟩
          · rcases h3 with ⟨_, h4⟩ | ⟨_, _, h4⟩ <;> subst h4
            · exact hg
            · exact good_setIgnoreLf_false hg
          · rcases h3 with ⟨_, h4⟩ | ⟨_, _, h4⟩ <;> subst h4 <;> simp [hat]
    | eatMd =>
      rw [step_kind_md o m inp hcr hrk] at h
      have hst := readKind_md hrk
      obtain ⟨hi, hok, hre, hs', hc', ha'⟩ := resume_md o m m' inp inp' e hg.eatOk hat h
      refine ⟨hi, ?_, ?_, by rw [ha', hat]⟩
      · rw [step_kind_md o m _ hcr hrk, step_kind_md o m' e (by rw [hc', hcr]) (by rw [hs', hrk])]
        exact RSim.of_eq hre.symm
      · by_cases ht : m'.tempBuf = []
        · exact Or.inl ht
        · refine Or.inr ⟨by rw [hs', hst]; rfl, by rw [hc', hcr], ?_⟩
          cases hil : m'.ignoreLf with
          | false => rfl
          | true => exact absurd (hok hil) ht
    | eatAdn =>
      rw [step_kind_adn o m inp hcr hrk] at h
      have hst := readKind_adn hrk
      obtain ⟨hi, hok, hre, hs', hc', ha'⟩ := resume_adn o m m' inp inp' e hg.eatOk hat h
      refine ⟨hi, ?_, ?_, by rw [ha', hat]⟩
      · rw [step_kind_adn o m _ hcr hrk, step_kind_adn o m' e (by rw [hc', hcr]) (by rw [hs', hrk])]
        exact RSim.of_eq hre.symm
      · by_cases ht : m'.tempBuf = []
        · exact Or.inl ht
        · refine Or.inr ⟨by rw [hs', hst]; rfl, by rw [hc', hcr], ?_⟩
          cases hil : m'.ignoreLf with
          | false => rfl
          | true => exact absurd (hok hil) ht


/-! ### what the tables and the reader leave alone -/

macro "table_fields" : tactic =>
  `(tactic| (unfold transChar; split <;> (repeat' split) <;> simp))

theorem transChar_tempBuf (o : Opts) (m : Mach) (c : Char) : (transChar o m c).1.tempBuf = m.tempBuf := by
  table_fields
theorem transChar_atEof (o : Opts) (m : Mach) (c : Char) : (transChar o m c).1.atEof = m.atEof := by
  table_fields

theorem transSet_tempBuf (m : Mach) (r : SetRes) : (transSet m r).1.tempBuf = m.tempBuf := by
  unfold transSet; split <;> (repeat' split) <;> simp
theorem transSet_atEof (m : Mach) (r : SetRes) : (transSet m r).1.atEof = m.atEof := by
  unfold transSet; split <;> (repeat' split) <;> simp

theorem foldChar_fields (o : Opts) (m : Mach) (c : Char) :
    (foldChar o m c).2.tempBuf = m.tempBuf ∧ (foldChar o m c).2.atEof = m.atEof ∧
    (foldChar o m c).2.state = m.state ∧ (foldChar o m c).2.charRef = m.charRef ∧
    (foldChar o m c).2.reconsume = m.reconsume := by
  unfold foldChar
  generalize hcm : (if c = '\r' then ('\n', m.setIgnoreLf true) else (c, m)) = cm
  have h2 : cm.2.tempBuf = m.tempBuf ∧ cm.2.atEof = m.atEof ∧ cm.2.state = m.state ∧
      cm.2.charRef = m.charRef ∧ cm.2.reconsume = m.reconsume := by
    rw [← hcm]; split <;> simp
  dsimp only
  generalize (if cm.1 = '\x00' then '�' else cm.1) = c'
  split <;> simp [h2]

theorem getChar_fields (o : Opts) (m m1 : Mach) (inp i1 : Str) (c : Option Char)
    (h : getChar o m inp = (c, m1, i1)) :
    m1.tempBuf = m.tempBuf ∧ m1.atEof = m.atEof ∧ m1.state = m.state ∧ m1.charRef = m.charRef := by
  unfold getChar at h
  split at h
  · simp only [Prod.mk.injEq] at h; obtain ⟨_, h2, _⟩ := h; subst h2; simp
  · cases inp with
    | nil => simp only [Prod.mk.injEq] at h; obtain ⟨_, h2, _⟩ := h; subst h2; simp
    | cons x xs =>
      simp only [preprocess] at h
      repeat' split at h
      all_goals
        (simp only [Prod.mk.injEq] at h
         obtain ⟨_, h2, _⟩ := h
         subst h2
         have := foldChar_fields o (m.setIgnoreLf false)
         have := foldChar_fields o m
         simp_all)

theorem popExceptFrom_fields (o : Opts) (S : List Char) (m m1 : Mach) (inp i1 : Str) (r : Option SetRes)
    (h : popExceptFrom o S m inp = (r, m1, i1)) :
    m1.tempBuf = m.tempBuf ∧ m1.atEof = m.atEof ∧ m1.state = m.state ∧ m1.charRef = m.charRef := by
  unfold popExceptFrom at h
  split at h
  · cases hg : getChar o m inp with
    | mk c rest =>
      obtain ⟨m2, i2⟩ := rest
      simp only [hg, Prod.mk.injEq] at h
      obtain ⟨_, h2, _⟩ := h; subst h2
      exact getChar_fields o m m2 inp i2 c hg
  · cases inp with
    | nil => simp only [Prod.mk.injEq] at h; obtain ⟨_, h2, _⟩ := h; subst h2; simp
    | cons x xs =>
      simp only at h
      rename_i hnot
      split at h
      · cases hp : preprocess o m x xs with
        | mk c rest =>
          obtain ⟨m2, i2⟩ := rest
          simp only [hp, Prod.mk.injEq] at h
          obtain ⟨_, h2, _⟩ := h; subst h2
          have hr : m.reconsume = false := by
            cases hrr : m.reconsume with
            | false => rfl
            | true => simp [hrr] at hnot
          have : getChar o m (x :: xs) = (c, m2, i2) := by simp [getChar, hr, hp]
          exact getChar_fields o m m2 _ i2 c this
      · simp only [Prod.mk.injEq] at h; obtain ⟨_, h2, _⟩ := h; subst h2; simp


/-- registers the character-reference sub-tokenizer never touches -/
def Pres (m' m : Mach) : Prop :=
  m'.tempBuf = m.tempBuf ∧ m'.atEof = m.atEof ∧ m'.state = m.state

theorem Pres.refl (m : Mach) : Pres m m := ⟨rfl, rfl, rfl⟩
theorem Pres.trans {a b c : Mach} (h1 : Pres a b) (h2 : Pres b c) : Pres a c :=
  ⟨h1.1.trans h2.1, h1.2.1.trans h2.2.1, h1.2.2.trans h2.2.2⟩

theorem emitErr_pres (m : Mach) (s : String) : Pres (emitErr m s) m := ⟨by simp, by simp, by simp⟩
theorem emit_pres (m : Mach) (t : Token) : Pres (emit m t) m := ⟨by simp, by simp, by simp⟩
theorem nameErr_pres (o : Opts) (m : Mach) (nb : Str) : Pres (nameErr o m nb) m := by
  unfold nameErr; split
  · exact emit_pres _ _
  · exact emitErr_pres _ _

theorem unconsume_pres (m : Mach) (inp buf : Str) : Pres (unconsume m inp buf).1 m := by
  unfold unconsume; split
  · exact ⟨by simp, by simp, by simp⟩
  · exact Pres.refl _

theorem getChar_pres (o : Opts) (m m1 : Mach) (inp i1 : Str) (c : Option Char)
    (h : getChar o m inp = (c, m1, i1)) : Pres m1 m := by
  obtain ⟨a, b, c', _⟩ := getChar_fields o m m1 inp i1 c h
  exact ⟨a, b, c'⟩

theorem discardChar_pres (o : Opts) (m m1 : Mach) (inp i1 : Str)
    (h : discardChar o m inp = .ok (m1, i1)) : Pres m1 m := by
  unfold discardChar at h
  cases hg : getChar o m inp with
  | mk c r =>
    obtain ⟨m2, i2⟩ := r
    rw [hg] at h
    cases c with
    | none => simp at h
    | some c =>
      simp only [Except.ok.injEq, Prod.mk.injEq] at h
      obtain ⟨h1, _⟩ := h; subst h1
      exact getChar_pres o m m2 inp i2 _ hg

theorem finishNumeric_pres (o : Opts) (m : Mach) (cr : CharRefSt) : Pres (finishNumeric o m cr).1 m := by
  unfold finishNumeric
  dsimp only
  repeat' split
  all_goals first | exact Pres.refl _ | exact emit_pres _ _ | exact emitErr_pres _ _

def CRRes.pres (r : CRRes) (m : Mach) : Prop :=
  match r with
  | .error _ => True
  | .ok (m1, _, _, _) => Pres m1 m

theorem CRRes.pres_trans {r : CRRes} {a b : Mach} (h : r.pres a) (hab : Pres a b) : r.pres b := by
  cases r with
  | error _ => trivial
  | ok v => obtain ⟨m1, _, _, _⟩ := v; exact Pres.trans h hab

theorem unconsumeNumeric_pres (m : Mach) (inp : Str) (cr : CharRefSt) : (unconsumeNumeric m inp cr).pres m := by
  simp only [unconsumeNumeric, CRRes.pres]
  exact Pres.trans (emitErr_pres _ _) (unconsume_pres _ _ _)

theorem finishNumericStatus_pres (o : Opts) (m : Mach) (inp : Str) (cr : CharRefSt) :
    (finishNumericStatus o m inp cr).pres m := by
  unfold finishNumericStatus
  have := finishNumeric_pres o m cr
  split
  · rename_i heq; rw [heq] at this; exact this
  · trivial

theorem unconsumeName_pres (m : Mach) (inp : Str) (cr : CharRefSt) : (unconsumeName m inp cr).pres m := by
  unfold unconsumeName
  split
  · trivial
  · exact unconsume_pres _ _ _

theorem namedDecision_pres (m : Mach) (cr : CharRefSt) (nb : Str) (c1 c2 : Nat) (m1 : Mach) (r : Option Str)
    (h : namedDecision m cr nb c1 c2 = .ok (m1, r)) : Pres m1 m := by
  unfold namedDecision at h
  dsimp only at h
  repeat' split at h
  all_goals
    first
      | (simp at h; done)
      | (simp only [Except.ok.injEq, Prod.mk.injEq] at h
         obtain ⟨h1, _⟩ := h; subst h1
         first | exact Pres.refl _ | exact emitErr_pres _ _)

theorem finishNamed_pres (o : Opts) (m : Mach) (inp : Str) (cr : CharRefSt) (ec : Option Char) :
    (finishNamed o m inp cr ec).pres m := by
  unfold finishNamed
  repeat' split
  all_goals
    first
      | trivial
      | exact Pres.refl _
      | exact unconsumeName_pres _ _ _
      | exact CRRes.pres_trans (unconsumeName_pres _ _ _) (nameErr_pres _ _ _)
      | exact CRRes.pres_trans (unconsumeName_pres _ _ _) (namedDecision_pres _ _ _ _ _ _ _ (by assumption))
      | exact Pres.trans (unconsume_pres _ _ _) (namedDecision_pres _ _ _ _ _ _ _ (by assumption))
      | (dsimp only; split <;>
          first
            | exact Pres.refl _
            | exact unconsumeName_pres _ _ _
            | exact CRRes.pres_trans (unconsumeName_pres _ _ _) (nameErr_pres _ _ _)
            | (refine CRRes.pres_trans (unconsumeName_pres _ _ _) ?_
               split <;> first | exact nameErr_pres _ _ _ | exact Pres.refl _))


theorem crStep_pres (o : Opts) (m : Mach) (inp : Str) (cr : CharRefSt) : (crStep o m inp cr).pres m := by
  unfold crStep
  cases hst : cr.state with
  | named =>
    simp only
    cases hg : getChar o m inp with
    | mk c r =>
      obtain ⟨m2, i2⟩ := r
      have hp := getChar_pres o m m2 inp i2 c hg
      cases c with
      | none => exact hp
      | some c =>
        simp only
        repeat' split
        all_goals first | trivial | exact hp | exact CRRes.pres_trans (finishNamed_pres _ _ _ _ _) hp
  | bogusName =>
    simp only
    cases hg : getChar o m inp with
    | mk c r =>
      obtain ⟨m2, i2⟩ := r
      have hp := getChar_pres o m m2 inp i2 c hg
      cases c with
      | none => exact hp
      | some c =>
        simp only
        repeat' split
        all_goals
          first
            | trivial
            | exact hp
            | exact CRRes.pres_trans (unconsumeName_pres _ _ _) (Pres.trans (nameErr_pres _ _ _) hp)
            | exact CRRes.pres_trans (unconsumeName_pres _ _ _) hp
  | begin =>
    simp only
    repeat' split
    all_goals first | trivial | exact Pres.refl _ | exact discardChar_pres _ _ _ _ _ (by assumption)
  | octothorpe =>
    simp only
    repeat' split
    all_goals first | trivial | exact Pres.refl _ | exact discardChar_pres _ _ _ _ _ (by assumption)
  | numeric base =>
    simp only
    repeat' split
    all_goals
      first
        | trivial
        | exact Pres.refl _
        | exact discardChar_pres _ _ _ _ _ (by assumption)
        | exact unconsumeNumeric_pres _ _ _
  | numericSemicolon =>
    simp only
    repeat' split
    all_goals
      first
        | trivial
        | exact Pres.refl _
        | exact CRRes.pres_trans (finishNumericStatus_pres _ _ _ _) (discardChar_pres _ _ _ _ _ (by assumption))
        | exact CRRes.pres_trans (finishNumericStatus_pres _ _ _ _) (emitErr_pres _ _)

theorem foldl_emitChar_pres (chars : Str) (m : Mach) :
    Pres (chars.foldl emitChar m) m ∧ (chars.foldl emitChar m).charRef = m.charRef := by
  induction chars generalizing m with
  | nil => exact ⟨Pres.refl _, rfl⟩
  | cons c cs ih =>
    have := ih (emitChar m c)
    exact ⟨Pres.trans this.1 ⟨by simp, by simp, by simp⟩, by rw [List.foldl_cons, this.2]; simp⟩

theorem foldl_pushValue_pres (chars : Str) (m : Mach) :
    Pres (chars.foldl (fun m c => pushValue c m) m) m ∧
      (chars.foldl (fun m c => pushValue c m) m).charRef = m.charRef := by
  induction chars generalizing m with
  | nil => exact ⟨Pres.refl _, rfl⟩
  | cons c cs ih =>
    have := ih (pushValue c m)
    exact ⟨Pres.trans this.1 ⟨by simp, by simp, by simp⟩, by rw [List.foldl_cons, this.2]; simp⟩

theorem processCharRef_pres (m : Mach) (chars : Str) : Pres (processCharRef m chars).1 m := by
  unfold processCharRef
  dsimp only
  split
  · exact (foldl_emitChar_pres _ _).1
  · exact (foldl_emitChar_pres _ _).1
  · exact (foldl_pushValue_pres _ _).1
  · exact Pres.refl _

/-- the machine of a step result, if any -/
def R.mach? : R → Option Mach
  | .cont m _ => some m
  | .suspend m _ => some m
  | .panic _ => none

theorem ofSig_mach (ms : Mach × Sig) (inp : Str) (m' : Mach) (h : (ofSig ms inp).mach? = some m') :
    m' = ms.1 := by
  unfold ofSig at h
  split at h <;> simp [R.mach?] at h
  exact h.symm

theorem setCharRef_pres (m : Mach) (cr : Option CharRefSt) : Pres (m.setCharRef cr) m := ⟨by simp, by simp, by simp⟩

theorem stepCharRef_pres (o : Opts) (m : Mach) (inp : Str) (cr : CharRefSt) (m' : Mach)
    (h : (stepCharRef o m inp cr).mach? = some m') : Pres m' m := by
  unfold stepCharRef at h
  have hp := crStep_pres o m inp cr
  cases hc : crStep o m inp cr with
  | error x => rw [hc] at h; simp [R.mach?] at h
  | ok v =>
    obtain ⟨m1, i1, cr1, st⟩ := v
    rw [hc] at h hp
    cases st with
    | stuck =>
      simp only [R.mach?, Option.some.injEq] at h; subst h
      exact Pres.trans (setCharRef_pres _ _) hp
    | progress =>
      simp only [R.mach?, Option.some.injEq] at h; subst h
      exact Pres.trans (setCharRef_pres _ _) hp
    | done chars =>
      have := ofSig_mach _ _ _ h
      subst this
      exact Pres.trans (setCharRef_pres _ _) (Pres.trans (processCharRef_pres _ _) hp)


/-! ### the invariant is preserved -/

theorem eat_some_tempBuf (o : Opts) (m m1 : Mach) (inp i1 pat : Str) (b : Bool)
    (h : eat o m inp pat = (some b, m1, i1)) : m1.tempBuf = [] ∧ m1.atEof = m.atEof := by
  rw [eat_eq_core] at h
  unfold eatCore at h
  repeat' split at h
  all_goals
    first
      | (simp at h; done)
      | (simp only [Prod.mk.injEq] at h
         obtain ⟨_, h2, _⟩ := h
         subst h2
         exact ⟨by simp, by simp⟩)

theorem stepMd_cont (o : Opts) (m m' : Mach) (inp i' : Str) (h : stepMd o m inp = .cont m' i') :
    m'.tempBuf = [] ∧ m'.atEof = m.atEof := by
  unfold stepMd at h
  cases h1 : eat o m inp kwDashDash with
  | mk b1 r1 =>
    obtain ⟨m1, i1⟩ := r1
    rw [h1] at h
    cases b1 with
    | none => simp at h
    | some b1 =>
      obtain ⟨t1, a1⟩ := eat_some_tempBuf o m m1 inp i1 _ b1 h1
      cases b1 with
      | true =>
        simp only [R.cont.injEq] at h; obtain ⟨h, _⟩ := h; subst h
        exact ⟨by simpa using t1, by simpa using a1⟩
      | false =>
        simp only at h
        cases h2 : eat o m1 i1 kwCdata with
        | mk b2 r2 =>
          obtain ⟨m2, i2⟩ := r2
          rw [h2] at h
          cases b2 with
          | none => simp at h
          | some b2 =>
            obtain ⟨t2, a2⟩ := eat_some_tempBuf o m1 m2 i1 i2 _ b2 h2
            cases b2 with
            | true =>
              simp only [R.cont.injEq] at h; obtain ⟨h, _⟩ := h; subst h
              exact ⟨by simpa using t2, by simp [a2, a1]⟩
            | false =>
              simp only at h
              cases h3 : eat o m2 i2 kwDoctype with
              | mk b3 r3 =>
                obtain ⟨m3, i3⟩ := r3
                rw [h3] at h
                cases b3 with
                | none => simp at h
                | some b3 =>
                  obtain ⟨t3, a3⟩ := eat_some_tempBuf o m2 m3 i2 i3 _ b3 h3
                  cases b3 <;>
                    (simp only [R.cont.injEq] at h; obtain ⟨h, _⟩ := h; subst h
                     exact ⟨by simpa using t3, by simp [a3, a2, a1]⟩)

theorem stepAdn_cont (o : Opts) (m : Mach) (inp : Str) (m' : Mach)
    (h : (stepAdn o m inp).mach? = some m') (hs : (stepAdn o m inp).isSuspend = false) :
    m'.tempBuf = [] ∧ m'.atEof = m.atEof := by
  unfold stepAdn at h hs
  cases h1 : eat o m inp kwPublic with
  | mk b1 r1 =>
    obtain ⟨m1, i1⟩ := r1
    rw [h1] at h hs
    cases b1 with
    | none => simp [R.isSuspend] at hs
    | some b1 =>
      obtain ⟨t1, a1⟩ := eat_some_tempBuf o m m1 inp i1 _ b1 h1
      cases b1 with
      | true =>
        simp only [R.mach?, Option.some.injEq] at h; subst h
        exact ⟨by simpa using t1, by simpa using a1⟩
      | false =>
        simp only at h hs
        cases h2 : eat o m1 i1 kwSystem with
        | mk b2 r2 =>
          obtain ⟨m2, i2⟩ := r2
          rw [h2] at h hs
          cases b2 with
          | none => simp [R.isSuspend] at hs
          | some b2 =>
            obtain ⟨t2, a2⟩ := eat_some_tempBuf o m1 m2 i1 i2 _ b2 h2
            cases b2 with
            | true =>
              simp only [R.mach?, Option.some.injEq] at h; subst h
              exact ⟨by simpa using t2, by simp [a2, a1]⟩
            | false =>
              simp only at h hs
              cases h3 : getChar o m2 i2 with
              | mk c3 r3 =>
                obtain ⟨m3, i3⟩ := r3
                rw [h3] at h hs
                obtain ⟨f1, f2, _, _⟩ := getChar_fields o m2 m3 i2 i3 c3 h3
                cases c3 with
                | none => simp [R.isSuspend] at hs
                | some c3 =>
                  have := ofSig_mach _ _ _ h
                  subst this
                  exact ⟨by rw [transChar_tempBuf, f1, t2], by rw [transChar_atEof, f2, a2, a1]⟩

theorem good_of_eatOk {m : Mach} (hok : EatOk m) (hs : isEatState m.state = true) (hc : m.charRef = none) :
    Good m := by
  by_cases ht : m.tempBuf = []
  · exact Or.inl ht
  · refine Or.inr ⟨hs, hc, ?_⟩
    cases hil : m.ignoreLf with
    | false => rfl
    | true => exact absurd (hok hil) ht

/-- **`Good` is an invariant of `step`** (and `at_eof` is not touched) -/
theorem step_good (o : Opts) (m : Mach) (inp : Str) (m' : Mach) (hg : Good m) (hat : m.atEof = false)
    (h : (step o m inp).mach? = some m') : Good m' ∧ m'.atEof = false := by
  cases hcr : m.charRef with
  | some cr =>
    rw [step_kind_charRef o m inp cr hcr] at h
    obtain ⟨p1, p2, _⟩ := stepCharRef_pres o m inp cr m' h
    exact ⟨Or.inl (by rw [p1]; exact hg.tempBuf_of_charRef hcr), by rw [p2, hat]⟩
  | none =>
    cases hrk : readKind m.state with
    | getChar =>
      have ht := hg.tempBuf_of_not_eat (not_eat_of_getChar hrk)
      rw [step_getChar o m inp hcr hrk] at h
      cases hgc : getChar o m inp with
      | mk c r =>
        obtain ⟨m1, i1⟩ := r
        rw [hgc] at h
        obtain ⟨f1, f2, _, _⟩ := getChar_fields o m m1 inp i1 c hgc
        cases c with
        | none =>
          simp only [contChar, R.mach?, Option.some.injEq] at h; subst h
          exact ⟨Or.inl (by rw [f1, ht]), by rw [f2, hat]⟩
        | some c =>
          have := ofSig_mach _ _ _ h
          subst this
          exact ⟨Or.inl (by rw [transChar_tempBuf, f1, ht]), by rw [transChar_atEof, f2, hat]⟩
    | popExcept =>
      have ht := hg.tempBuf_of_not_eat (not_eat_of_popExcept hrk)
      rw [step_popExcept o m inp hcr hrk] at h
      cases hgc : popExceptFrom o (setOf m.state) m inp with
      | mk c r =>
        obtain ⟨m1, i1⟩ := r
        rw [hgc] at h
        obtain ⟨f1, f2, _, _⟩ := popExceptFrom_fields o _ m m1 inp i1 c hgc
        cases c with
        | none =>
          simp only [contSet, R.mach?, Option.some.injEq] at h; subst h
          exact ⟨Or.inl (by rw [f1, ht]), by rw [f2, hat]⟩
        | some c =>
          have := ofSig_mach _ _ _ h
          subst this
          exact ⟨Or.inl (by rw [transSet_tempBuf, f1, ht]), by rw [transSet_atEof, f2, hat]⟩
    | eatMd =>
      rw [step_kind_md o m inp hcr hrk] at h
      have hst := readKind_md hrk
      cases hr : stepMd o m inp with
      | panic x => rw [hr] at h; simp [R.mach?] at h
      | cont m2 i2 =>
        rw [hr] at h; simp only [R.mach?, Option.some.injEq] at h; subst h
        obtain ⟨t, a⟩ := stepMd_cont o m m2 inp i2 hr
        exact ⟨Or.inl t, by rw [a, hat]⟩
      | suspend m2 i2 =>
        rw [hr] at h; simp only [R.mach?, Option.some.injEq] at h; subst h
        obtain ⟨_, hok, _, hs', hc', ha'⟩ := resume_md o m m2 inp i2 [] hg.eatOk hat hr
        exact ⟨good_of_eatOk hok (by rw [hs', hst]; rfl) (by rw [hc', hcr]), by rw [ha', hat]⟩
    | eatAdn =>
      rw [step_kind_adn o m inp hcr hrk] at h
      have hst := readKind_adn hrk
      cases hr : stepAdn o m inp with
      | panic x => rw [hr] at h; simp [R.mach?] at h
      | cont m2 i2 =>
        obtain ⟨t, a⟩ := stepAdn_cont o m inp m' h (by rw [hr]; rfl)
        exact ⟨Or.inl t, by rw [a, hat]⟩
      | suspend m2 i2 =>
        rw [hr] at h; simp only [R.mach?, Option.some.injEq] at h; subst h
        obtain ⟨_, hok, _, hs', hc', ha'⟩ := resume_adn o m m2 inp i2 [] hg.eatOk hat hr
        exact ⟨good_of_eatOk hok (by rw [hs', hst]; rfl) (by rw [hc', hcr]), by rw [ha', hat]⟩

end H5V.Model.XmlTok
