import H5V.Model.HtmlTok
import H5V.Lemmas.HtmlTokFields
import H5V.Lemmas.HtmlTokTable
import H5V.Lemmas.HtmlTokReader
/-!
Step-level lemmas: `Tokenizer::step` is monotone in the unread input whenever it does not suspend.
-/
namespace H5V.Model.HtmlTok

/-- a step result with more input appended -/
def R.ext : R → Str → R
  | .cont m i, e => .cont m (i ++ e)
  | .suspend m i, e => .suspend m (i ++ e)
  | .script m i, e => .script m (i ++ e)
  | .indicator m i, e => .indicator m (i ++ e)
  | .panic x, _ => .panic x

def R.isSuspend : R → Bool
  | .suspend _ _ => true
  | _ => false

theorem ofSig_ext (ms : Mach × Sig) (inp e : Str) : ofSig ms (inp ++ e) = (ofSig ms inp).ext e := by
  unfold ofSig
  split <;> rfl

@[simp] theorem ofSig_not_suspend (ms : Mach × Sig) (inp : Str) : (ofSig ms inp).isSuspend = false := by
  unfold ofSig
  split <;> rfl

theorem stepCharRef_mono (o : Opts) (m : Mach) (inp e : Str) (cr : CharRefSt)
    (h : (stepCharRef o m inp cr).isSuspend = false) :
    stepCharRef o m (inp ++ e) cr = (stepCharRef o m inp cr).ext e := by
  cases hpk : peek m inp with
  | none =>
    unfold stepCharRef at h
    simp [crStep_stuck o m inp cr hpk, R.isSuspend] at h
  | some c =>
    unfold stepCharRef
    rw [crStep_mono o m inp e cr c hpk]
    cases hc : crStep o m inp cr with
    | error x => simp [CRRes.ext, R.ext]
    | ok v =>
      obtain ⟨m1, i1, cr1, st⟩ := v
      cases st with
      | stuck => simp [CRRes.ext, R.ext]
      | progress => simp [CRRes.ext, R.ext]
      | done chars => simp [CRRes.ext, ofSig_ext]

theorem stepBav_mono (o : Opts) (pol : Pol) (m : Mach) (inp e : Str)
    (h : (stepBav o pol m inp).isSuspend = false) :
    stepBav o pol m (inp ++ e) = (stepBav o pol m inp).ext e := by
  cases hpk : peek m inp with
  | none => unfold stepBav at h; simp [hpk, R.isSuspend] at h
  | some c =>
    have hp := peek_mono m inp e c hpk
    unfold stepBav at h ⊢
    simp only [hpk, hp] at h ⊢
    -- the machine after clearing ignore_lf peeks the same character
    have hm2 : peek (if m.ignoreLf = true then m.setIgnoreLf false else m) inp = some c := by
      split
      · simpa [peek] using hpk
      · exact hpk
    generalize (if m.ignoreLf = true then m.setIgnoreLf false else m) = m2 at h hm2 ⊢
    have hd := discardChar_mono m2 inp e c hm2
    cases hs : (m.ignoreLf && decide (c = '\n')) with
    | true => simp [hd, R.ext]
    | false =>
      simp only [hs, Bool.false_eq_true, ↓reduceIte] at h ⊢
      cases hnl : (decide (c = '\n') || decide (c = '\r')) with
      | true =>
        simp only [hnl, ↓reduceIte] at h ⊢
        cases hg : getChar o m2 inp with
        | mk c1 rest =>
          obtain ⟨m3, i3⟩ := rest
          cases c1 with
          | none => simp [hg, R.isSuspend] at h
          | some c1 =>
            rw [getChar_mono o m2 m3 c1 inp i3 e hg]
            simp [R.ext]
      | false =>
        simp only [hnl, Bool.false_eq_true, ↓reduceIte]
        repeat' split
        all_goals simp [hd, R.ext, ofSig_ext]

theorem eat_some_EatOk (m m' : Mach) (inp inp' pat : Str) (eq : Char → Char → Bool) (b : Bool)
    (h : eat m inp pat eq = (some b, m', inp')) : EatOk m' ∧ m'.atEof = m.atEof := by
  rw [eat_eq_core] at h
  unfold eatCore at h
  repeat' split at h
  all_goals
    first
      | (simp at h; done)
      | (simp only [Prod.mk.injEq] at h
         obtain ⟨_, h2, _⟩ := h
         subst h2
         exact ⟨by intro _; simp, by simp⟩)

theorem stepMdo_mono (o : Opts) (pol : Pol) (m : Mach) (inp e : Str)
    (hg : EatOk m) (hat : m.atEof = false)
    (h : (stepMdo o pol m inp).isSuspend = false) :
    stepMdo o pol m (inp ++ e) = (stepMdo o pol m inp).ext e := by
  unfold stepMdo at h ⊢
  cases h1 : eat m inp kwDashDash eqExact with
  | mk b1 r1 =>
    obtain ⟨m1, i1⟩ := r1
    cases b1 with
    | none => simp [h1, R.isSuspend] at h
    | some b1 =>
      rw [eat_mono m m1 inp i1 e _ _ b1 hg (by decide) hat h1]
      obtain ⟨hg1, hat1⟩ := eat_some_EatOk m m1 inp i1 _ _ b1 h1
      cases b1 with
      | true => simp [R.ext]
      | false =>
        simp only [h1] at h ⊢
        cases h2 : eat m1 i1 kwDoctype eqCi with
        | mk b2 r2 =>
          obtain ⟨m2, i2⟩ := r2
          cases b2 with
          | none => simp [h2, R.isSuspend] at h
          | some b2 =>
            rw [eat_mono m1 m2 i1 i2 e _ _ b2 hg1 (by decide) (by rw [hat1, hat]) h2]
            obtain ⟨hg2, hat2⟩ := eat_some_EatOk m1 m2 i1 i2 _ _ b2 h2
            cases b2 with
            | true => simp [R.ext]
            | false =>
              simp only [h2] at h ⊢
              split
              · rename_i hcd
                simp only [hcd, ↓reduceIte] at h
                cases h3 : eat m2 i2 kwCdata eqExact with
                | mk b3 r3 =>
                  obtain ⟨m3, i3⟩ := r3
                  cases b3 with
                  | none => simp [h3, R.isSuspend] at h
                  | some b3 =>
                    rw [eat_mono m2 m3 i2 i3 e _ _ b3 hg2 (by decide) (by rw [hat2, hat1, hat]) h3]
                    cases b3 <;> simp [R.ext]
              · simp [R.ext]

theorem stepAdn_mono (o : Opts) (pol : Pol) (m : Mach) (inp e : Str)
    (hg : EatOk m) (hat : m.atEof = false)
    (h : (stepAdn o pol m inp).isSuspend = false) :
    stepAdn o pol m (inp ++ e) = (stepAdn o pol m inp).ext e := by
  unfold stepAdn at h ⊢
  cases h1 : eat m inp kwPublic eqCi with
  | mk b1 r1 =>
    obtain ⟨m1, i1⟩ := r1
    cases b1 with
    | none => simp [h1, R.isSuspend] at h
    | some b1 =>
      rw [eat_mono m m1 inp i1 e _ _ b1 hg (by decide) hat h1]
      obtain ⟨hg1, hat1⟩ := eat_some_EatOk m m1 inp i1 _ _ b1 h1
      cases b1 with
      | true => simp [R.ext]
      | false =>
        simp only [h1] at h ⊢
        cases h2 : eat m1 i1 kwSystem eqCi with
        | mk b2 r2 =>
          obtain ⟨m2, i2⟩ := r2
          cases b2 with
          | none => simp [h2, R.isSuspend] at h
          | some b2 =>
            rw [eat_mono m1 m2 i1 i2 e _ _ b2 hg1 (by decide) (by rw [hat1, hat]) h2]
            cases b2 with
            | true => simp [R.ext]
            | false =>
              simp only [h2] at h ⊢
              cases h3 : getChar o m2 i2 with
              | mk c3 r3 =>
                obtain ⟨m3, i3⟩ := r3
                cases c3 with
                | none => simp [h3, R.isSuspend] at h
                | some c3 =>
                  rw [getChar_mono o m2 m3 c3 i2 i3 e h3]
                  simp [ofSig_ext]

/-- **`step` is monotone in the unread input**: a step that completes (does not ask for more
input) gives the same result, with the extra input left over, when more input is appended -/
theorem step_mono (o : Opts) (pol : Pol) (m : Mach) (inp e : Str)
    (hg : (m.state = .markupDeclarationOpen ∨ m.state = .afterDoctypeName) → EatOk m) (hat : m.atEof = false)
    (h : (step o pol m inp).isSuspend = false) :
    step o pol m (inp ++ e) = (step o pol m inp).ext e := by
  unfold step at h ⊢
  cases hcr : m.charRef with
  | some cr =>
    simp only [hcr] at h ⊢
    exact stepCharRef_mono o m inp e _ h
  | none =>
    simp only [hcr] at h ⊢
    cases hrk : readKind m.state with
    | getChar =>
      simp only [hrk] at h ⊢
      cases hgc : getChar o m inp with
      | mk c r =>
        obtain ⟨m1, i1⟩ := r
        cases c with
        | none => simp [hgc, R.isSuspend] at h
        | some c => rw [getChar_mono o m m1 c inp i1 e hgc]; simp [ofSig_ext]
    | popExcept =>
      simp only [hrk] at h ⊢
      cases hgc : popExceptFrom o (setOf m.state) m inp with
      | mk c r =>
        obtain ⟨m1, i1⟩ := r
        cases c with
        | none => simp [hgc, R.isSuspend] at h
        | some c => rw [popExceptFrom_mono o _ m m1 c inp i1 e hgc]; simp [ofSig_ext]
    | dataSimd =>
      simp only [hrk] at h ⊢
      cases hgc : readData o m inp with
      | mk c r =>
        obtain ⟨m1, i1⟩ := r
        cases c with
        | none => simp [hgc, R.isSuspend] at h
        | some c => rw [readData_mono o m m1 c inp i1 e hgc]; simp [ofSig_ext]
    | peekBav => simp only [hrk] at h ⊢; exact stepBav_mono o pol m inp e h
    | eatMdo =>
      simp only [hrk] at h ⊢
      have hs : m.state = .markupDeclarationOpen := by
        cases hst : m.state <;> simp [hst, readKind] at hrk ⊢
      exact stepMdo_mono o pol m inp e (hg (Or.inl hs)) hat h
    | eatAdn =>
      simp only [hrk] at h ⊢
      have hs : m.state = .afterDoctypeName := by
        cases hst : m.state <;> simp [hst, readKind] at hrk ⊢
      exact stepAdn_mono o pol m inp e (hg (Or.inr hs)) hat h

/-! ### simulation up to a dead `current_char`

`pop_except_from` does not set `current_char` for a run of non-set characters ("It shouldn't
matter for the codepaths that use this", says the source). It indeed does not: in a state read
with `pop_except_from`, with no pending reconsume and no character reference in progress, the
register is dead — the next read overwrites it before anything looks at it. -/

def deadCC (m : Mach) : Prop :=
  m.reconsume = false ∧ m.charRef = none ∧
  (readKind m.state = .popExcept ∨ readKind m.state = .dataSimd)

/-- equal, or equal up to a dead `current_char` -/
def Sim (m1 m2 : Mach) : Prop := m1 = m2 ∨ (deadCC m1 ∧ ∃ a, m2 = m1.setCurrentChar a)

theorem Sim.refl (m : Mach) : Sim m m := Or.inl rfl

def RSim : R → R → Prop
  | .cont a i, .cont b j => Sim a b ∧ i = j
  | .suspend a i, .suspend b j => Sim a b ∧ i = j
  | .script a i, .script b j => Sim a b ∧ i = j
  | .indicator a i, .indicator b j => Sim a b ∧ i = j
  | .panic x, .panic y => x = y
  | _, _ => False

theorem RSim.refl (r : R) : RSim r r := by
  cases r <;> simp [RSim, Sim.refl]

theorem RSim.of_eq {r1 r2 : R} (h : r1 = r2) : RSim r1 r2 := h ▸ RSim.refl r1

/-! setters commute with `setCurrentChar` -/
@[simp] theorem setCurrentChar_setCurrentChar (m : Mach) (a b : Char) :
    (m.setCurrentChar a).setCurrentChar b = m.setCurrentChar b := rfl
theorem setIgnoreLf_setCurrentChar (m : Mach) (a : Char) (b : Bool) :
    (m.setCurrentChar a).setIgnoreLf b = (m.setIgnoreLf b).setCurrentChar a := rfl
theorem bumpLine_setCurrentChar (m : Mach) (a : Char) :
    (m.setCurrentChar a).bumpLine = m.bumpLine.setCurrentChar a := rfl
theorem emit_setCurrentChar (m : Mach) (a : Char) (t : Token) :
    emit (m.setCurrentChar a) t = (emit m t).setCurrentChar a := rfl

/-- `foldChar` overwrites `current_char`: its previous value is irrelevant -/
theorem foldChar_setCurrentChar (o : Opts) (m : Mach) (a c : Char) :
    foldChar o (m.setCurrentChar a) c = foldChar o m c := by
  unfold foldChar
  simp only [setIgnoreLf_setCurrentChar]
  split <;> split <;> split <;>
    simp [bumpLine_setCurrentChar, emit_setCurrentChar, setCurrentChar_setCurrentChar]

/-- without `exact_errors`, folding an ordinary character only records it as `current_char` -/
theorem foldChar_plain (o : Opts) (m : Mach) (c : Char) (ho : o.exactErrors = false)
    (h1 : c ≠ '\r') (h2 : c ≠ '\n') : foldChar o m c = (c, m.setCurrentChar c) := by
  unfold foldChar
  simp [ho, h1, h2]

end H5V.Model.HtmlTok
