import H5V.Lemmas.HtmlTBSafeInsert
/-!
# Tree-builder safety, part 6: the list of active formatting elements

`position_in_active_formatting`, `Vec::remove`, "reconstruct the active formatting elements"
(rewind + create loops: every index is in range, no marker is met, the fuel suffices), Noah's ark.
-/
namespace H5V.Lemmas.TBSafe
open H5V.Model.HtmlTB
open H5V.Model.Dom (Id QualName Attr NodeOrText SinkOp Output ElementFlags QuirksMode Dom NodeData Node)

variable {al : Allow}

/-- an HTML element with one of the formatting names -/
def isFmtE (n : EName) : Bool := n.ns == nsHtml && isOneOf n.loc fmtNames

/-! ### `position_in_active_formatting` -/

def afPos (element : Id) : List FormatEntry → Nat → Option Nat
  | [], _ => none
  | .marker :: rest, i => afPos element rest (i + 1)
  | .element h _ :: rest, i => if h == element then some i else afPos element rest (i + 1)

theorem sat_positionInAFLoop {element : Id} : ∀ (l : List FormatEntry) (i : Nat) (s : State),
    Sat (positionInAFLoop element l i) s (fun r s' => r = afPos element l i ∧ QF s s') := by
  intro l
  induction l with
  | nil => intro i s; exact sat_pure ⟨rfl, QF.refl s⟩
  | cons e rest ih =>
    intro i s
    cases e with
    | marker =>
      unfold positionInAFLoop
      exact (ih (i + 1) s).mono (fun r s' h => ⟨by rw [h.1]; rfl, h.2⟩)
    | element h t =>
      unfold positionInAFLoop
      refine sat_sameNode.bind ?_
      rintro b s1 ⟨rfl, hq⟩
      by_cases hb : (h == element) = true
      · simp only [hb, if_true]; exact sat_pure ⟨by simp [afPos, hb], hq⟩
      · simp only [hb, if_false, Bool.false_eq_true]
        exact (ih (i + 1) s1).mono (fun r s' h' => ⟨by rw [h'.1]; simp [afPos, hb], hq.trans h'.2⟩)

theorem sat_positionInActiveFormatting {element : Id} {s : State} :
    Sat (positionInActiveFormatting element) s
      (fun r s' => r = afPos element s.activeFormatting 0 ∧ QF s s') := by
  unfold positionInActiveFormatting
  exact sat_getS_bind (sat_positionInAFLoop _ 0 s)

theorem afPos_some {e : Id} : ∀ {l : List FormatEntry} {i j : Nat}, afPos e l i = some j →
    i ≤ j ∧ ∃ t, l[j - i]? = some (.element e t) := by
  intro l
  induction l with
  | nil => intro i j h; simp [afPos] at h
  | cons x rest ih =>
    intro i j h
    cases x with
    | marker =>
      simp only [afPos] at h
      obtain ⟨h1, t, h2⟩ := ih h
      refine ⟨by omega, t, ?_⟩
      have : j - i = (j - (i + 1)) + 1 := by omega
      rw [this, List.getElem?_cons_succ]; exact h2
    | element h' t' =>
      simp only [afPos] at h
      by_cases hb : (h' == e) = true
      · simp only [hb, if_true, Option.some.injEq] at h
        subst h
        refine ⟨Nat.le_refl _, t', ?_⟩
        simp only [Nat.sub_self, List.getElem?_cons_zero]
        rw [beq_iff_eq.mp hb]
      · simp only [hb, if_false, Bool.false_eq_true] at h
        obtain ⟨h1, t, h2⟩ := ih h
        refine ⟨by omega, t, ?_⟩
        have : j - i = (j - (i + 1)) + 1 := by omega
        rw [this, List.getElem?_cons_succ]; exact h2

theorem afPos_none {e : Id} : ∀ {l : List FormatEntry} {i : Nat}, afPos e l i = none →
    ∀ t, FormatEntry.element e t ∉ l := by
  intro l
  induction l with
  | nil => intro i _ t h; simp at h
  | cons x rest ih =>
    intro i h t hm
    cases x with
    | marker =>
      simp only [afPos] at h
      rcases List.mem_cons.mp hm with h1 | h1
      · cases h1
      · exact ih h t h1
    | element h' t' =>
      simp only [afPos] at h
      by_cases hb : (h' == e) = true
      · simp [hb] at h
      · simp only [hb, if_false, Bool.false_eq_true] at h
        rcases List.mem_cons.mp hm with h1 | h1
        · cases h1; simp at hb
        · exact ih h t h1

theorem afPos_zero_lt {e : Id} {l : List FormatEntry} {j : Nat} (h : afPos e l 0 = some j) :
    j < l.length ∧ ∃ t, l[j]? = some (.element e t) := by
  obtain ⟨_, t, ht⟩ := afPos_some h
  simp only [Nat.sub_zero] at ht
  have : j < l.length := by
    by_cases hj : j < l.length
    · exact hj
    · rw [List.getElem?_eq_none (Nat.le_of_not_lt hj)] at ht; cases ht
  exact ⟨this, t, ht⟩

theorem afPos_of_mem {e : Id} {t : Tag} {l : List FormatEntry} (h : FormatEntry.element e t ∈ l) :
    ∃ j, afPos e l 0 = some j := by
  cases hp : afPos e l 0 with
  | some j => exact ⟨j, rfl⟩
  | none => exact absurd h (afPos_none hp t)

/-! ### `Vec::remove` -/

theorem sat_afRemove {i : Nat} {site : String} {s : State} (hi : i < s.activeFormatting.length) :
    Sat (afRemove i site) s (fun _ s' => s' = { s with activeFormatting := s.activeFormatting.eraseIdx i }) := by
  unfold afRemove
  refine sat_getS_bind ?_
  simp only [hi, if_true]
  exact sat_modS rfl

theorem HInv.withAF {s : State} (h : HInv s) (af : List FormatEntry)
    (ha : ∀ x t, FormatEntry.element x t ∈ af →
      IsEl s.dom x ∧ nm s.dom x = ⟨nsHtml, t.name⟩ ∧ isOneOf t.name fmtNames = true) :
    HInv { s with activeFormatting := af } :=
  ⟨h.open_el, h.open_tc, ha, h.head, h.form, h.ctx⟩

theorem HInv.withAF_sub {s : State} (h : HInv s) (af : List FormatEntry)
    (ha : ∀ e ∈ af, e ∈ s.activeFormatting) : HInv { s with activeFormatting := af } :=
  h.withAF af (fun x t hx => h.af x t (ha _ hx))

/-! ### `is_marker_or_open` -/

theorem sat_anySameNodeRev {node : Id} : ∀ (l : List Id) (s : State),
    Sat (anySameNodeRev node l) s (fun _ s' => QF s s') := by
  intro l
  induction l with
  | nil => intro s; exact sat_pure (QF.refl s)
  | cons n rest ih =>
    intro s
    unfold anySameNodeRev
    refine sat_sameNode.bind ?_
    rintro b s1 ⟨-, hq⟩
    split
    · exact sat_pure hq
    · exact (ih s1).mono (fun _ _ h => hq.trans h)

theorem sat_isMarkerOrOpen {e : FormatEntry} {s : State} :
    Sat (isMarkerOrOpen e) s (fun b s' => QF s s' ∧ (e = .marker → b = true)) := by
  cases e with
  | marker => exact sat_pure ⟨QF.refl s, fun _ => rfl⟩
  | element node t =>
    unfold isMarkerOrOpen
    refine sat_getS_bind ?_
    exact (sat_anySameNodeRev _ s).mono (fun _ _ h => ⟨h, fun h' => by cases h'⟩)

/-! ### reconstruct the active formatting elements -/

theorem sat_reconstructRewind : ∀ (i : Nat) (s : State), i ≤ s.activeFormatting.length →
    Sat (reconstructRewind i) s (fun r s' => QF s s' ∧ r ≤ i ∧
      ∀ j, r ≤ j → j < i → ∃ h t, s.activeFormatting[j]? = some (.element h t)) := by
  intro i
  induction i with
  | zero => intro s _; exact sat_pure ⟨QF.refl s, Nat.le_refl _, fun j _ h => absurd h (Nat.not_lt_zero _)⟩
  | succ i ih =>
    intro s hi
    unfold reconstructRewind
    refine sat_getS_bind ?_
    have hlt : i < s.activeFormatting.length := hi
    have hget : s.activeFormatting[i]? = some s.activeFormatting[i] := List.getElem?_eq_getElem hlt
    rw [hget]
    dsimp only
    refine sat_isMarkerOrOpen.bind ?_
    rintro b s1 ⟨hq, hm⟩
    split
    · exact sat_pure ⟨hq, Nat.le_refl _, fun j h1 h2 => absurd h2 (by omega)⟩
    · rename_i hb
      have hi1 : i ≤ s1.activeFormatting.length := by rw [hq.activeFormatting]; omega
      refine (ih s1 hi1).mono ?_
      rintro r s2 ⟨hq2, hr, hrange⟩
      refine ⟨hq.trans hq2, by omega, ?_⟩
      intro j h1 h2
      by_cases hj : j = i
      · subst hj
        cases he : s.activeFormatting[j] with
        | marker => exact absurd (hm he) hb
        | element h t => exact ⟨h, t, by rw [hget, he]⟩
      · have := hrange j h1 (by omega)
        rw [hq.activeFormatting] at this
        exact this

/-- the bottom of the stack is an HTML `html` element -/
def Rooted (d : Dom) (l : List Id) : Prop := ∃ r rest, l = r :: rest ∧ nm d r = htmlName

theorem PlaceOk.of_hinv {s : State} (h : HInv s) (hr : Rooted s.dom s.openElems) : PlaceOk s none where
  ne := by obtain ⟨r, rest, hl, _⟩ := hr; rw [hl]; simp
  el := h.open_el
  tc := h.open_tc
  bottom := by
    obtain ⟨r, rest, hl, hn⟩ := hr
    intro r' rest' hl'
    rw [hl] at hl'; cases hl'
    unfold namedP; rw [hn]; decide
  ov_el := fun t ht => by cases ht

theorem Rooted.append_ext {d d' : Dom} {l news : List Id} (hr : Rooted d l) (he : Ext d d') (hel : AllEl d l) :
    Rooted d' (l ++ news) := by
  obtain ⟨r, rest, rfl, hn⟩ := hr
  exact ⟨r, rest ++ news, rfl, by rw [nm_ext he (hel r List.mem_cons_self)]; exact hn⟩

theorem Rooted.ext {d d' : Dom} {l : List Id} (hr : Rooted d l) (he : Ext d d') (hel : AllEl d l) :
    Rooted d' l := by
  have := hr.append_ext (news := []) he hel
  simpa using this

/-- the stack has grown by fresh elements with formatting names; everything else as `Fr` -/
structure Grown (s s' : State) : Prop where
  fr : Fr s s'
  hinv : HInv s'
  open_ : ∃ news, s'.openElems = s.openElems ++ news ∧ ∀ x ∈ news, isFmtE (nm s'.dom x) = true
  aflen : s'.activeFormatting.length = s.activeFormatting.length

theorem Grown.rooted {s s' : State} (h : Grown s s') (hi : HInv s) (hr : Rooted s.dom s.openElems) :
    Rooted s'.dom s'.openElems := by
  obtain ⟨news, ho, _⟩ := h.open_
  rw [ho]; exact hr.append_ext h.fr.ext hi.open_el

theorem sat_reconstructCreate : ∀ (fuel entryIndex : Nat) (s : State), HInv s → Rooted s.dom s.openElems →
    entryIndex < s.activeFormatting.length →
    (∀ j, entryIndex ≤ j → j < s.activeFormatting.length → ∃ h t, s.activeFormatting[j]? = some (.element h t)) →
    s.activeFormatting.length - entryIndex < fuel →
    Sat (reconstructCreate fuel entryIndex) s (fun _ s' => Grown s s') := by
  intro fuel
  induction fuel with
  | zero => intro e s _ _ _ _ h; exact absurd h (Nat.not_lt_zero _)
  | succ fuel ih =>
    intro entryIndex s hi hr hlt hel hfuel
    unfold reconstructCreate
    refine sat_getS_bind ?_
    obtain ⟨h0, tag, hent⟩ := hel entryIndex (Nat.le_refl _) hlt
    rw [hent]
    dsimp only
    refine Sat.bind (Q := fun t s1 => tag = t ∧ s = s1) (sat_pure ⟨rfl, rfl⟩) ?_
    rintro t0 s0 ⟨rfl, rfl⟩
    refine (sat_insertElement (PlaceOk.of_hinv hi hr)).bind ?_
    intro newElement s1 hins
    refine sat_getS_bind ?_
    have haf1 : s1.activeFormatting = s.activeFormatting := hins.af
    have hlt1 : entryIndex < s1.activeFormatting.length := by rw [haf1]; exact hlt
    simp only [hlt1, if_true]
    unfold setAF
    refine sat_modS_bind ?_
    refine sat_getS_bind ?_
    -- the new state
    have hmem : FormatEntry.element h0 tag ∈ s.activeFormatting := List.mem_of_getElem? hent
    have hi1 : HInv s1 := hins.hinv hi
    have hi2 : HInv { s1 with activeFormatting := s1.activeFormatting.set entryIndex (.element newElement tag) } := by
      refine hi1.withAF _ ?_
      intro x t hx
      rcases List.mem_or_eq_of_mem_set hx with hx | hx
      · exact hi1.af x t hx
      · cases hx
        exact ⟨hins.el, hins.nm, (hi.af h0 tag hmem).2.2⟩
    have hopen : s1.openElems = s.openElems ++ [newElement] := by rw [hins.openElems]; rfl
    have hgrown : Grown s { s1 with activeFormatting := s1.activeFormatting.set entryIndex (.element newElement tag) } := by
      refine ⟨hins.fr.withAF _, hi2, ⟨[newElement], hopen, ?_⟩, by simp [haf1]⟩
      intro x hx
      rw [List.mem_singleton.mp hx]
      show isFmtE (nm s1.dom newElement) = true
      rw [hins.nm]
      simp only [isFmtE, beq_self_eq_true, Bool.true_and]
      exact (hi.af h0 tag hmem).2.2
    have hlen : (s1.activeFormatting.set entryIndex (FormatEntry.element newElement tag)).length
        = s.activeFormatting.length := by simp [haf1]
    show Sat (if ((s1.activeFormatting.set entryIndex (FormatEntry.element newElement tag)).length == 0) = true
      then _ else _) _ _
    rw [hlen]
    have hne : (s.activeFormatting.length == 0) = false := by
      cases hl : s.activeFormatting.length with
      | zero => omega
      | succ n => rfl
    simp only [hne, Bool.false_eq_true, if_false]
    split
    · exact sat_pure hgrown
    · rename_i hnot
      have hnot' : entryIndex ≠ s.activeFormatting.length - 1 := by simpa using hnot
      refine (ih (entryIndex + 1) _ hi2 (hgrown.rooted hi hr) ?_ ?_ ?_).mono ?_
      · show entryIndex + 1 < (s1.activeFormatting.set entryIndex _).length
        rw [hlen]; omega
      · intro j hj1 hj2
        show ∃ h t, (s1.activeFormatting.set entryIndex _)[j]? = _
        rw [List.getElem?_set]
        have : entryIndex ≠ j := by omega
        simp only [this, if_false]
        rw [haf1]
        exact hel j (by omega) (by rw [hlen] at hj2; exact hj2)
      · show (s1.activeFormatting.set entryIndex _).length - (entryIndex + 1) < fuel
        rw [hlen]; omega
      · intro _ s3 hg3
        obtain ⟨news, ho, hn⟩ := hg3.open_
        refine ⟨hgrown.fr.trans hg3.fr, hg3.hinv, ⟨newElement :: news, ?_, ?_⟩, by rw [hg3.aflen]; exact hlen⟩
        · rw [ho]; show s1.openElems ++ news = _; rw [hopen]; simp
        · intro x hx
          rcases List.mem_cons.mp hx with hx | hx
          · subst hx
            have hel2 : IsEl s1.dom x := hins.el
            rw [nm_ext hg3.fr.ext hel2, hins.nm]
            simp only [isFmtE, beq_self_eq_true, Bool.true_and]
            exact (hi.af h0 tag hmem).2.2
          · exact hn x hx

theorem Grown.refl {s : State} (hi : HInv s) : Grown s s :=
  ⟨Fr.refl s, hi, ⟨[], by simp, by simp⟩, rfl⟩

theorem Grown.of_qf {s s' : State} (hi : HInv s) (hq : QF s s') : Grown s s' :=
  ⟨hq.fr, hi.of_qf hq, ⟨[], by simp [hq.openElems], by simp⟩, by rw [hq.activeFormatting]⟩

theorem sat_reconstructActiveFormattingElements {s : State} (hi : HInv s) (hr : Rooted s.dom s.openElems) :
    Sat reconstructActiveFormattingElements s (fun _ s' => Grown s s') := by
  unfold reconstructActiveFormattingElements
  refine sat_getS_bind ?_
  dsimp only
  cases hl : s.activeFormatting.getLast? with
  | none => exact sat_pure (Grown.refl hi)
  | some last =>
    dsimp only
    refine sat_isMarkerOrOpen.bind ?_
    rintro b s1 ⟨hq1, hm⟩
    split
    · exact sat_pure (Grown.of_qf hi hq1)
    · rename_i hb
      have hne : s.activeFormatting ≠ [] := by intro e; rw [e] at hl; cases hl
      have hpos : 0 < s.activeFormatting.length := List.length_pos_iff.mpr hne
      have hlast : s.activeFormatting[s.activeFormatting.length - 1]? = some last := by
        rw [List.getLast?_eq_getElem?] at hl; exact hl
      refine (sat_reconstructRewind (s.activeFormatting.length - 1) s1
        (by rw [hq1.activeFormatting]; omega)).bind ?_
      rintro start s2 ⟨hq2, hst, hrange⟩
      have hq := hq1.trans hq2
      have hi2 : HInv s2 := hi.of_qf hq
      have hr2 : Rooted s2.dom s2.openElems := by rw [hq.openElems]; exact hr.ext hq.ext hi.open_el
      refine (sat_reconstructCreate _ start s2 hi2 hr2 ?_ ?_ ?_).mono ?_
      · rw [hq.activeFormatting]; omega
      · intro j hj1 hj2
        rw [hq.activeFormatting] at hj2 ⊢
        by_cases hj : j < s.activeFormatting.length - 1
        · have := hrange j hj1 hj
          rw [hq1.activeFormatting] at this; exact this
        · have hje : j = s.activeFormatting.length - 1 := by omega
          subst hje
          cases hlast' : last with
          | marker => exact absurd (hm hlast') hb
          | element h t => exact ⟨h, t, by rw [hlast, hlast']⟩
      · rw [hq.activeFormatting]; omega
      · intro _ s3 hg
        obtain ⟨news, ho, hn⟩ := hg.open_
        exact ⟨hq.fr.trans hg.fr, hg.hinv, ⟨news, by rw [ho, hq.openElems], hn⟩,
          by rw [hg.aflen, hq.activeFormatting]⟩

/-! ### Noah's ark, markers -/

theorem mem_afEndToMarkerAux {i : Nat} {h : Id} {t : Tag} : ∀ {l : List (FormatEntry × Nat)},
    (i, h, t) ∈ afEndToMarkerAux l → (FormatEntry.element h t, i) ∈ l := by
  intro l
  induction l with
  | nil => intro hm; simp [afEndToMarkerAux] at hm
  | cons x rest ih =>
    intro hm
    obtain ⟨e, k⟩ := x
    cases e with
    | marker => simp [afEndToMarkerAux] at hm
    | element h' t' =>
      simp only [afEndToMarkerAux] at hm
      rcases List.mem_cons.mp hm with hm | hm
      · cases hm; exact List.mem_cons_self
      · exact List.mem_cons_of_mem _ (ih hm)

theorem mem_afEndToMarker {i : Nat} {h : Id} {t : Tag} {af : List FormatEntry}
    (hm : (i, h, t) ∈ afEndToMarker af) : af[i]? = some (.element h t) := by
  unfold afEndToMarker at hm
  have := mem_afEndToMarkerAux hm
  rw [List.mem_reverse] at this
  obtain ⟨_, h2, h3⟩ := List.mem_zipIdx this
  simp only [Nat.zero_add, Nat.sub_zero] at h2 h3
  rw [List.getElem?_eq_getElem h2, ← h3]

theorem sat_createFormattingElementFor {tag : Tag} {s : State} (hi : HInv s) (hr : Rooted s.dom s.openElems)
    (hfmt : isOneOf tag.name fmtNames = true) :
    Sat (createFormattingElementFor tag) s (fun r s' => Fr s s' ∧ HInv s' ∧
      s'.openElems = s.openElems ++ [r] ∧ nm s'.dom r = ⟨nsHtml, tag.name⟩ ∧ (∀ x, IsEl s.dom x → x ≠ r)) := by
  unfold createFormattingElementFor
  refine sat_getS_bind ?_
  dsimp only
  have htail : ∀ (s1 : State), Fr s s1 → HInv s1 → s1.openElems = s.openElems →
      Sat (do
        let elem ← insertElement true nsHtml tag.name tag.attrs tag.hadDup
        modS fun s => { s with activeFormatting := s.activeFormatting ++ [FormatEntry.element elem tag] }
        pure elem) s1 (fun r s' => Fr s s' ∧ HInv s' ∧
          s'.openElems = s.openElems ++ [r] ∧ nm s'.dom r = ⟨nsHtml, tag.name⟩ ∧ (∀ x, IsEl s.dom x → x ≠ r)) := by
    intro s1 hf1 hi1 ho1
    have hr1 : Rooted s1.dom s1.openElems := by rw [ho1]; exact hr.ext hf1.ext hi.open_el
    refine (sat_insertElement (PlaceOk.of_hinv hi1 hr1)).bind ?_
    intro elem s2 hins
    refine sat_modS_bind ?_
    refine sat_pure ⟨(hf1.trans hins.fr).withAF _, ?_, ?_, ?_, ?_⟩
    · refine (hins.hinv hi1).withAF _ ?_
      intro x t hx
      rcases List.mem_append.mp hx with hx | hx
      · exact (hins.hinv hi1).af x t hx
      · simp only [List.mem_singleton, FormatEntry.element.injEq] at hx
        obtain ⟨rfl, rfl⟩ := hx
        exact ⟨hins.el, hins.nm, hfmt⟩
    · show s2.openElems = _
      rw [hins.openElems, ho1]; rfl
    · exact hins.nm
    · exact fun x hx => hins.fresh x (hx.ext hf1.ext)
  split
  · rename_i hge
    cases hlast : ((afEndToMarker s.activeFormatting).filter
        (fun x => tag.equivModuloAttrOrder x.2.2)).getLast? with
    | none =>
      exfalso
      have := List.getLast?_eq_none_iff.mp hlast
      rw [this] at hge
      simp at hge
    | some x =>
      obtain ⟨i, h, t⟩ := x
      dsimp only
      have hmem : (i, h, t) ∈ afEndToMarker s.activeFormatting :=
        (List.mem_filter.mp (List.mem_of_getLast? hlast)).1
      have hget := mem_afEndToMarker hmem
      have hlt : i < s.activeFormatting.length := by
        by_cases hj : i < s.activeFormatting.length
        · exact hj
        · rw [List.getElem?_eq_none (Nat.le_of_not_lt hj)] at hget; cases hget
      refine (sat_afRemove hlt).bind ?_
      rintro _ s1 rfl
      exact htail _ ((Fr.refl s).withAF _)
        (hi.withAF_sub _ (fun e he => List.mem_of_mem_eraseIdx he)) rfl
  · exact htail s (Fr.refl s) hi rfl

def clearedAF (af : List FormatEntry) : List FormatEntry := (clearToMarkerRev af.reverse).reverse

theorem mem_clearToMarkerRev {e : FormatEntry} : ∀ {l : List FormatEntry}, e ∈ clearToMarkerRev l → e ∈ l := by
  intro l
  induction l with
  | nil => intro h; simp [clearToMarkerRev] at h
  | cons x rest ih =>
    intro h
    cases x with
    | marker => simp only [clearToMarkerRev] at h; exact List.mem_cons_of_mem _ h
    | element a b => simp only [clearToMarkerRev] at h; exact List.mem_cons_of_mem _ (ih h)

theorem mem_clearedAF {e : FormatEntry} {af : List FormatEntry} (h : e ∈ clearedAF af) : e ∈ af := by
  unfold clearedAF at h
  exact List.mem_reverse.mp (mem_clearToMarkerRev (List.mem_reverse.mp h))

theorem sat_clearActiveFormattingToMarker {s : State} :
    Sat clearActiveFormattingToMarker s
      (fun _ s' => s' = { s with activeFormatting := clearedAF s.activeFormatting }) := sat_modS rfl

theorem sat_pushMarker {s : State} :
    Sat pushMarker s (fun _ s' => s' = { s with activeFormatting := s.activeFormatting ++ [.marker] }) :=
  sat_modS rfl

end H5V.Lemmas.TBSafe
