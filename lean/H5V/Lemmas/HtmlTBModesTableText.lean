import H5V.Lemmas.HtmlTBModesTable3
/-!
The table family of insertion modes, part 4: "in table text".

The model collects the character tokens as chunks `(split status, text)` in `pending_table_text`; on the
first other token it flushes them — chunk by chunk through `foster_parent_in_body` when some chunk has a
character that is not whitespace, chunk by chunk with `append_text` otherwise — and reprocesses the token
in the original insertion mode.  The specification keeps the characters and reprocesses them one by one
with "anything else" of "in table", or inserts them all at once.

The chunks must be what the tokenizer delivered (`TbltPendOk`: non-empty, no U+0000, the characters have
the class of the status): the model decides "contains a non-space" by the status alone.
-/
namespace H5V.Lemmas.HtmlTBModes
open H5V.Model.HtmlTB
open H5V.Model.Dom (Id SinkOp Output Dom QualName Attr NodeOrText ElementFlags NodeData QuirksMode)
open H5V.Lemmas.HtmlTBAlgo
open H5V.Lemmas.TBSafe (TI HInv SInv Rooted)
open H5V.Spec.TreeAlgo2 (Elem Entry PState Ctx Edit Place)
open H5V.Spec.TreeModes (STok ETok IMode Config Out TokSwitch XOp Op Step Edition)

/-! ### "in body" on a run of characters, without the dispatcher -/

/-- every character of the run handled by "in body" (as `flushPendingFostered`, with "in body" itself) -/
def tbltBodyRun (cfg : Config Id) : Str → SState → Spec.TreeModes.M SState
  | [], σ => pure σ
  | c :: cs, σ => do
    let r ← Spec.TreeModes.inBody cfg σ (.character c)
    tbltBodyRun cfg cs r.state

/-- what "in body" does with a character once the formatting elements are reconstructed -/
def tbltG (σ : SState) (c : Char) : Spec.TreeModes.M SState := do
  let σ' ← Spec.TreeModes.insertChar σ c
  pure (if Spec.TreeModes.isWs c then σ' else σ'.notOk)

theorem tblt_inBody_char {cfg : Config Id} {σ σ1 : SState} {c : Char} (hc : c ≠ '\x00')
    (hr : Spec.TreeModes.reconstruct σ = .ok σ1) :
    Spec.TreeModes.inBody cfg σ (.character c) = (Step.done <$> tbltG σ1 c) := by
  have h0 : (c == '\x00') = false := by simp [hc]
  simp only [Spec.TreeModes.inBody, h0, Bool.false_eq_true, if_false, tbltG, hr]
  cases hw : Spec.TreeModes.isWs c <;> cases hi : Spec.TreeModes.insertChar σ1 c <;>
    simp [hi, bind, Except.bind, pure, Except.pure, Functor.map, Except.map]

theorem tblt_g_reconDone {σ σ1 : SState} {c : Char} (h : tbltG σ c = .ok σ1) (hd : ReconDone σ) : ReconDone σ1 := by
  unfold tbltG at h
  cases hi : Spec.TreeModes.insertChar σ c with
  | error e => rw [hi] at h; cases h
  | ok σi =>
    rw [hi] at h
    have hdi := reconDone_insertChar hd hi
    cases hw : Spec.TreeModes.isWs c
    · have : σ1 = σi.notOk := by simp only [hw] at h; cases h; rfl
      subst this; exact hdi
    · have : σ1 = σi := by simp only [hw] at h; cases h; rfl
      subst this; exact hdi

/-- the run after the reconstruction -/
theorem tblt_run_of_fold {cfg : Config Id} : ∀ (t : Str) (σ σ' : SState), (∀ c ∈ t, c ≠ '\x00') → ReconDone σ →
    t.foldlM tbltG σ = .ok σ' → tbltBodyRun cfg t σ = .ok σ' := by
  intro t
  induction t with
  | nil => intro σ σ' _ _ h; cases h; rfl
  | cons c cs ih =>
    intro σ σ' hnz hd h
    rw [List.foldlM_cons] at h
    cases h1 : tbltG σ c with
    | error e => rw [h1] at h; cases h
    | ok σ1 =>
      rw [h1] at h
      simp only [tbltBodyRun]
      rw [tblt_inBody_char (hnz c List.mem_cons_self) (reconstruct_of_reconDone hd), h1]
      exact ih σ1 σ' (fun c hc => hnz c (List.mem_cons_of_mem _ hc)) (tblt_g_reconDone h1 hd) h

/-- the first character is handled in the state before the reconstruction -/
theorem tblt_run_first {cfg : Config Id} {σ0 σ1 σ' : SState} {t : Str} (hne : t ≠ []) (hnz : ∀ c ∈ t, c ≠ '\x00')
    (hr : Spec.TreeModes.reconstruct σ0 = .ok σ1) (h : t.foldlM tbltG σ1 = .ok σ') :
    tbltBodyRun cfg t σ0 = .ok σ' := by
  cases t with
  | nil => exact absurd rfl hne
  | cons c cs =>
    rw [List.foldlM_cons] at h
    cases h1 : tbltG σ1 c with
    | error e => rw [h1] at h; cases h
    | ok σ2 =>
      rw [h1] at h
      simp only [tbltBodyRun]
      rw [tblt_inBody_char (hnz c List.mem_cons_self) hr, h1]
      exact tblt_run_of_fold cs σ2 σ' (fun c hc => hnz c (List.mem_cons_of_mem _ hc))
        (tblt_g_reconDone h1 (reconDone_of_reconstruct hr)) h

theorem tblt_fold_notOk : ∀ (t : Str) (σ σ' : SState), t.foldlM (fun σ c => Spec.TreeModes.insertChar σ c) σ = .ok σ' →
    t.foldlM (fun σ c => Spec.TreeModes.insertChar σ c) σ.notOk = .ok σ'.notOk := by
  intro t σ σ' h
  cases t with
  | nil => cases h; rfl
  | cons c cs =>
    cases hp : Spec.TreeAlgo2.appropriatePlace σ.p.stack σ.p.fosterParenting none with
    | none =>
      exfalso
      rw [List.foldlM_cons] at h
      have : Spec.TreeModes.insertChar σ c = .error "insert a character: no place" := by
        simp only [Spec.TreeModes.insertChar, Spec.TreeAlgo2.insertCharacters, hp, Option.map_none, Spec.TreeModes.req]
        rfl
      rw [this] at h
      cases h
    | some pl =>
      rw [foldlM_insertChar σ pl hp] at h
      rw [foldlM_insertChar σ.notOk pl hp]
      cases h
      rfl

theorem tblt_fold_g : ∀ (t : Str) (σ σ' : SState), t.foldlM (fun σ c => Spec.TreeModes.insertChar σ c) σ = .ok σ' →
    t.foldlM tbltG σ = .ok (if t.all Spec.TreeModes.isWs then σ' else σ'.notOk) := by
  intro t
  induction t with
  | nil => intro σ σ' h; cases h; rfl
  | cons c cs ih =>
    intro σ σ' h
    rw [List.foldlM_cons] at h ⊢
    cases hi : Spec.TreeModes.insertChar σ c with
    | error e => rw [hi] at h; cases h
    | ok σi =>
      rw [hi] at h
      have hg : tbltG σ c = .ok (if Spec.TreeModes.isWs c then σi else σi.notOk) := by
        simp only [tbltG, hi]; rfl
      rw [hg]
      cases hw : Spec.TreeModes.isWs c with
      | true =>
        simp only [if_true, List.all_cons, hw, Bool.true_and]
        exact ih σi σ' h
      | false =>
        simp only [Bool.false_eq_true, if_false, List.all_cons, hw, Bool.false_and]
        have := ih σi.notOk σ'.notOk (tblt_fold_notOk cs σi σ' h)
        show List.foldlM tbltG σi.notOk cs = _
        rw [this]
        cases cs.all Spec.TreeModes.isWs <;> rfl

theorem tblt_fold_g_notOk (t : Str) (hne : t ≠ []) (σ σ3 : SState)
    (h : t.foldlM (fun σ c => Spec.TreeModes.insertChar σ c) σ.notOk = .ok σ3)
    (hall : t.all Spec.TreeModes.isWs = false) : t.foldlM tbltG σ = .ok σ3 := by
  cases hp : Spec.TreeAlgo2.appropriatePlace σ.p.stack σ.p.fosterParenting none with
  | none =>
    exfalso
    cases t with
    | nil => exact hne rfl
    | cons c cs =>
      rw [List.foldlM_cons] at h
      have : Spec.TreeModes.insertChar σ.notOk c = .error "insert a character: no place" := by
        simp only [Spec.TreeModes.insertChar, Spec.TreeAlgo2.insertCharacters]
        rw [show σ.notOk.p = σ.p from rfl, hp]
        rfl
      rw [this] at h
      cases h
  | some pl =>
    rw [foldlM_insertChar σ.notOk pl hp] at h
    have := tblt_fold_g t σ _ (foldlM_insertChar σ pl hp t)
    rw [hall] at this
    simp only [Bool.false_eq_true, if_false] at this
    rw [this]
    cases h
    rfl

theorem tblt_all_any (t : Str) : t.all Spec.TreeModes.isWs = !anyNotWhitespace t := by
  unfold anyNotWhitespace
  induction t with
  | nil => rfl
  | cons c cs ih => simp [List.all_cons, List.any_cons, ih, isWs_eq_ascii]

/-- what a step of a rule leaves alone -/
structure TbltFr (s s' : State) : Prop where
  mode : s'.mode = s.mode
  origMode : s'.origMode = s.origMode
  pendingTableText : s'.pendingTableText = s.pendingTableText

theorem TbltFr.refl (s : State) : TbltFr s s := ⟨rfl, rfl, rfl⟩
theorem TbltFr.trans {a b c : State} (h1 : TbltFr a b) (h2 : TbltFr b c) : TbltFr a c :=
  ⟨h2.mode.trans h1.mode, h2.origMode.trans h1.origMode, h2.pendingTableText.trans h1.pendingTableText⟩
theorem TbltFr.of_sameTB {s s' : State} (h : SameTB s s') : TbltFr s s' :=
  ⟨h.fields.mode, h.fields.origMode, h.fields.pendingTableText⟩

/-- **`stepInBody` on a run of characters**: every character handled by "in body" -/
theorem tblt_pc_bodyChars {s : State} (hm : MInv s) (st : SplitStatus) {text : Str} (hne : text ≠ [])
    (hnz : ∀ c ∈ text, c ≠ '\x00') :
    PC (stepInBody (.chars st text)) s (fun r s' calls => r = .done ∧ TbltFr s s' ∧
      Tr s s' calls (fun x x' => tbltBodyRun (cfgOf s) text (absF s x) = .ok (absF s' x'))) := by
  simp only [stepInBody]
  refine pc_seq (pc_reconstruct hm) ?_
  rintro _ s1 c1 _ ⟨hS1, -, htr1⟩
  have hm1 : MInv s1 := htr1.1
  have f1 := sbsl_fields hS1
  have fr1 : TbltFr s s1 := ⟨f1.mode, f1.origMode, f1.pendingTableText⟩
  cases hany : anyNotWhitespace text with
  | false =>
    simp only [Bool.false_eq_true, if_false]
    refine pc_conseq (pc_appendText hm1 text) ?_
    rintro r s3 c3 _ ⟨rfl, hs3, htr3⟩
    refine ⟨rfl, fr1.trans (TbltFr.of_sameTB hs3), (htr1.trans htr3).conseq ?_⟩
    rintro x x3 hx hx3 ⟨x1, r1, r3⟩
    refine tblt_run_first hne hnz r1 ?_
    have := tblt_fold_g text _ _ r3
    rw [tblt_all_any, hany] at this
    exact this
  | true =>
    simp only [if_true]
    refine pc_seq (pc_setFramesetNotOk hm1) ?_
    rintro _ s2 c2 _ ⟨hs2, htr2⟩
    have hm2 : MInv s2 := htr2.1
    refine pc_conseq (pc_appendText hm2 text) ?_
    rintro r s3 c3 _ ⟨rfl, hs3, htr3⟩
    have fr2 : TbltFr s1 s2 := by rw [hs2]; exact ⟨rfl, rfl, rfl⟩
    rw [← List.append_assoc]
    refine ⟨rfl, (fr1.trans fr2).trans (TbltFr.of_sameTB hs3), ((htr1.trans htr2).trans htr3).conseq ?_⟩
    rintro x x3 hx hx3 ⟨x2, ⟨x1, r1, hx2, r2⟩, r3⟩
    subst x2
    refine tblt_run_first hne hnz r1 ?_
    rw [r2] at r3
    refine tblt_fold_g_notOk text hne _ _ r3 ?_
    rw [tblt_all_any, hany]
    rfl

/-! ### the specification's flush of a chunk inside one bracket of the flag -/

theorem tblt_inBody_done {cfg : Config Id} {σ : SState} {c : Char} {r : Step Id} (hc : c ≠ '\x00')
    (h : Spec.TreeModes.inBody cfg σ (.character c) = .ok r) : ∃ σ1, r = .done σ1 := by
  rw [tbl_inBody_char cfg σ hc] at h
  cases h1 : Spec.TreeAlgo2.reconstructActiveFormattingElements Spec.TreeModes.cx σ.p with
  | none => rw [h1] at h; cases h
  | some p1 =>
    rw [h1] at h
    cases h2 : Spec.TreeAlgo2.insertCharacters p1 [c] with
    | none => simp only [Spec.TreeModes.req, bind, Except.bind, pure, Except.pure, h2] at h; cases h
    | some p2 =>
      simp only [Spec.TreeModes.req, bind, Except.bind, pure, Except.pure, h2] at h
      cases h
      exact ⟨_, rfl⟩

theorem tblt_inBody_fp {cfg : Config Id} {σ σ1 : SState} {c : Char} (hc : c ≠ '\x00')
    (h : Spec.TreeModes.inBody cfg σ (.character c) = .ok (.done σ1)) :
    σ1.p.fosterParenting = σ.p.fosterParenting := by
  obtain ⟨p1, p2, h1, h2, rfl⟩ := tbl_inBody_char_ok hc h
  obtain ⟨r1, -, -⟩ := tbl_reconstruct _ _ _ h1
  obtain ⟨-, -, i3⟩ := tbl_insertCharacters_ok h2
  rw [tblBodyCharFin_p, i3, r1]

/-- one character reprocessed by "anything else" of "in table"; `σ` is the state in which the model runs
"in body" (the flag set) -/
theorem tblt_anythingElse_char {cfg : Config Id} {τ σ σ1 : SState} {c : Char} (hc : c ≠ '\x00')
    (hτ : τ.setFoster true = { σ with errors := τ.errors })
    (h : Spec.TreeModes.inBody cfg σ (.character c) = .ok (.done σ1)) :
    Spec.TreeModes.inTableAnythingElse cfg τ (.character c)
      = .ok (.done (tblUnfoster σ1 (τ.errors ++ ["in table: foster parenting"]))) := by
  obtain ⟨p1, p2, h1, h2, rfl⟩ := tbl_inBody_char_ok hc h
  have e0 : ((τ.err "in table: foster parenting").setFoster true)
      = { σ with errors := τ.errors ++ ["in table: foster parenting"] } := by
    show ({ τ.setFoster true with errors := τ.errors ++ ["in table: foster parenting"] } : SState) = _
    rw [hτ]
  simp only [Spec.TreeModes.inTableAnythingElse]
  rw [e0, tbl_inBody_char_of (σ := { σ with errors := τ.errors ++ ["in table: foster parenting"] }) hc h1 h2]
  unfold tblBodyCharFin tblUnfoster
  by_cases hw : Spec.TreeModes.isWs c = true
  · simp only [hw, if_true]; rfl
  · simp only [hw]; rfl

theorem tblt_unfoster_hτ (σ : SState) (E : List String) (hfp : σ.p.fosterParenting = true) :
    (tblUnfoster σ E).setFoster true = { σ with errors := (tblUnfoster σ E).errors } := by
  show ({ σ with errors := E, p := { σ.p with fosterParenting := true } } : SState) = _
  rw [tbl_p_eta σ.p hfp]
  rfl

/-- the characters of a chunk: the model's run of "in body" inside one bracket is the specification's
character-by-character reprocessing -/
theorem tblt_flush_of_bodyRun {cfg : Config Id} : ∀ (text : Str) (τ σ σ' : SState), (∀ c ∈ text, c ≠ '\x00') → text ≠ [] →
    τ.setFoster true = { σ with errors := τ.errors } → σ.p.fosterParenting = true →
    tbltBodyRun cfg text σ = .ok σ' →
    Spec.TreeModes.flushPendingFostered cfg text τ
      = .ok (tblUnfoster σ' (τ.errors ++ List.replicate text.length "in table: foster parenting")) := by
  intro text
  induction text with
  | nil => intro _ _ _ _ hne; exact absurd rfl hne
  | cons c cs ih =>
    intro τ σ σ' hnz _ hτ hfp h
    have hc := hnz c List.mem_cons_self
    simp only [tbltBodyRun] at h
    cases hb : Spec.TreeModes.inBody cfg σ (.character c) with
    | error e => rw [hb] at h; cases h
    | ok r =>
      rw [hb] at h
      obtain ⟨σ1, rfl⟩ := tblt_inBody_done hc hb
      have h' : tbltBodyRun cfg cs σ1 = .ok σ' := h
      have hfp1 : σ1.p.fosterParenting = true := (tblt_inBody_fp hc hb).trans hfp
      simp only [Spec.TreeModes.flushPendingFostered]
      rw [tblt_anythingElse_char hc hτ hb]
      show Spec.TreeModes.flushPendingFostered cfg cs (tblUnfoster σ1 (τ.errors ++ ["in table: foster parenting"])) = _
      cases cs with
      | nil =>
        simp only [tbltBodyRun] at h'
        cases h'
        rfl
      | cons c2 cs' =>
        rw [ih _ σ1 σ' (fun c hc => hnz c (List.mem_cons_of_mem _ hc)) (by simp)
          (tblt_unfoster_hτ σ1 _ hfp1) hfp1 h']
        show Except.ok (tblUnfoster σ' ((τ.errors ++ ["in table: foster parenting"]) ++ _)) = _
        rw [List.append_assoc, List.singleton_append, ← List.replicate_succ]
        rfl

theorem tblt_flush_append {cfg : Config Id} : ∀ (a b : Str) (τ : SState),
    Spec.TreeModes.flushPendingFostered cfg (a ++ b) τ
      = (Spec.TreeModes.flushPendingFostered cfg a τ >>= fun τ1 => Spec.TreeModes.flushPendingFostered cfg b τ1) := by
  intro a
  induction a with
  | nil => intro b τ; rfl
  | cons c cs ih =>
    intro b τ
    simp only [List.cons_append, Spec.TreeModes.flushPendingFostered]
    cases h : Spec.TreeModes.inTableAnythingElse cfg τ (.character c) with
    | error e => rfl
    | ok r =>
      show Spec.TreeModes.flushPendingFostered cfg (cs ++ b) r.state = _
      rw [ih]
      rfl

/-! ### the flush does not look at the pending table character tokens -/

theorem tblt_anythingElse_pend {cfg : Config Id} {σ : SState} {c : Char} {r : Step Id} (hc : c ≠ '\x00') (L : Str)
    (h : Spec.TreeModes.inTableAnythingElse cfg σ (.character c) = .ok r) :
    Spec.TreeModes.inTableAnythingElse cfg { σ with pendingTableChars := L } (.character c)
      = .ok (r.map fun σ' => { σ' with pendingTableChars := L }) := by
  simp only [Spec.TreeModes.inTableAnythingElse] at h ⊢
  have e : ((({ σ with pendingTableChars := L } : SState).err "in table: foster parenting").setFoster true)
      = { ((σ.err "in table: foster parenting").setFoster true) with pendingTableChars := L } := rfl
  rw [e]
  generalize (σ.err "in table: foster parenting").setFoster true = σ2 at h ⊢
  rw [tbl_inBody_char cfg _ hc] at h ⊢
  show (do
      let p1 ← Spec.TreeModes.req (Spec.TreeAlgo2.reconstructActiveFormattingElements Spec.TreeModes.cx σ2.p) _
      let p2 ← Spec.TreeModes.req (Spec.TreeAlgo2.insertCharacters p1 [c]) _
      pure (Step.done (tblBodyCharFin { σ2 with pendingTableChars := L } c p2))) >>= _ = _
  cases h1 : Spec.TreeAlgo2.reconstructActiveFormattingElements Spec.TreeModes.cx σ2.p with
  | none => rw [h1] at h; cases h
  | some p1 =>
    rw [h1] at h
    cases h2 : Spec.TreeAlgo2.insertCharacters p1 [c] with
    | none => simp only [Spec.TreeModes.req, bind, Except.bind, pure, Except.pure, h2] at h; cases h
    | some p2 =>
      simp only [Spec.TreeModes.req, bind, Except.bind, pure, Except.pure, h2] at h ⊢
      cases h
      unfold tblBodyCharFin
      by_cases hw : Spec.TreeModes.isWs c = true
      · simp only [hw, if_true]; rfl
      · simp only [hw]; rfl

theorem tblt_flush_pend {cfg : Config Id} (L : Str) : ∀ (text : Str) (σ σ' : SState), (∀ c ∈ text, c ≠ '\x00') →
    Spec.TreeModes.flushPendingFostered cfg text σ = .ok σ' →
    Spec.TreeModes.flushPendingFostered cfg text { σ with pendingTableChars := L }
      = .ok { σ' with pendingTableChars := L } := by
  intro text
  induction text with
  | nil => intro σ σ' _ h; cases h; rfl
  | cons c cs ih =>
    intro σ σ' hnz h
    simp only [Spec.TreeModes.flushPendingFostered] at h ⊢
    cases h1 : Spec.TreeModes.inTableAnythingElse cfg σ (.character c) with
    | error e => rw [h1] at h; cases h
    | ok r =>
      rw [h1] at h
      rw [tblt_anythingElse_pend (hnz c List.mem_cons_self) L h1]
      have h' : Spec.TreeModes.flushPendingFostered cfg cs r.state = .ok σ' := h
      have := ih r.state σ' (fun c hc => hnz c (List.mem_cons_of_mem _ hc)) h'
      cases r <;> exact this

theorem tblt_insertChars_pend (L : Str) (text : Str) (σ σ' : SState)
    (h : Spec.TreeModes.insertChars σ text = .ok σ') :
    Spec.TreeModes.insertChars { σ with pendingTableChars := L } text = .ok { σ' with pendingTableChars := L } := by
  cases text with
  | nil => cases h; rfl
  | cons c cs =>
    simp only [Spec.TreeModes.insertChars] at h ⊢
    cases h1 : Spec.TreeAlgo2.insertCharacters σ.p (c :: cs) with
    | none => rw [h1] at h; cases h
    | some p =>
      rw [h1] at h
      cases h
      rfl

/-! ### "contains a non-space": the model's test by the split status, the specification's by the characters -/

/-- the chunks are what the tokenizer delivered -/
def TbltPendOk (l : List (SplitStatus × Str)) : Prop := ∀ p ∈ l, TokWf (.chars p.1 p.2)

def tbltChunkNonspace (x : SplitStatus × Str) : Bool :=
  match x.1 with
  | .whitespace => false
  | .notWhitespace => true
  | .notSplit => anyNotWhitespace x.2

theorem tblt_containsNonspace : ∀ (l : List (SplitStatus × Str)), TbltPendOk l →
    l.any tbltChunkNonspace = (pendingChars l).any (fun c => !Spec.TreeModes.isWs c) := by
  intro l
  induction l with
  | nil => intro _; rfl
  | cons p r ih =>
    intro h
    obtain ⟨st, t⟩ := p
    have hp : TokWf (.chars st t) := h (st, t) List.mem_cons_self
    have ih' := ih (fun q hq => h q (List.mem_cons_of_mem _ hq))
    simp only [List.any_cons, pendingChars, List.flatMap_cons, List.any_append] at ih' ⊢
    rw [ih']
    congr 1
    obtain ⟨hne, -, hcls⟩ := hp
    cases st with
    | notSplit =>
      show anyNotWhitespace t = _
      unfold anyNotWhitespace
      congr 1
      funext c
      rw [isWs_eq_ascii]
    | whitespace =>
      show false = _
      symm
      rw [List.any_eq_false]
      intro c hc
      have : isAsciiWhitespace c = true := hcls c hc
      rw [isWs_eq_ascii, this]
      simp
    | notWhitespace =>
      show true = _
      symm
      cases t with
      | nil => exact absurd rfl hne
      | cons c cs =>
        have : isAsciiWhitespace c = false := hcls c List.mem_cons_self
        simp [List.any_cons, isWs_eq_ascii, this]

/-! ### the model's flush loops -/

/-- one chunk, foster-parented -/
theorem tblt_pc_fosterChunk {s : State} (hm : MInv s) {st : SplitStatus} {text : Str} (hwf : TokWf (.chars st text)) :
    PC (fosterParentInBody (.chars st text)) s (fun r s' calls => r = .done ∧ TbltFr s s' ∧
      Tr s s' calls (fun x x' =>
        Spec.TreeModes.flushPendingFostered (cfgOf s) text (absF s x) = .ok (absF s' x'))) := by
  obtain ⟨hne, hnul, -⟩ := hwf
  have hnz : ∀ c ∈ text, c ≠ '\x00' := fun c hc e => hnul (e ▸ hc)
  unfold fosterParentInBody
  refine pc_seq (pc_modS (Q := fun _ s1 c => s1 = { s with fosterParenting := true } ∧ c = []) rfl rfl ⟨rfl, rfl⟩) ?_
  rintro _ s1 c1 _ ⟨rfl, rfl⟩
  have htr1 := tbl_tr_setFoster hm true
  refine pc_seq (tblt_pc_bodyChars htr1.1 st hne hnz) ?_
  rintro res s2 c2 _ ⟨rfl, fr2, htr2⟩
  refine pc_seq (pc_modS (Q := fun _ s3 c => s3 = { s2 with fosterParenting := false } ∧ c = []) rfl rfl ⟨rfl, rfl⟩) ?_
  rintro _ s3 c3 _ ⟨rfl, rfl⟩
  refine pc_pure ?_
  have htr3 := tbl_tr_setFoster htr2.1 false
  have htr := (htr1.trans htr2).trans htr3
  simp only [List.append_nil, List.nil_append] at htr ⊢
  refine ⟨trivial, ⟨fr2.mode, fr2.origMode, fr2.pendingTableText⟩, htr.reaux
    (fun x x' => { x' with errors := x.errors ++ List.replicate text.length "in table: foster parenting" })
    (fun _ _ => ⟨⟨rfl, rfl, rfl, rfl, rfl⟩, rfl, rfl, rfl⟩) ?_⟩
  rintro x x3 hx hx3 ⟨x2, ⟨x1, ⟨hx1, e1⟩, hrun⟩, hx3e, e3⟩
  subst x1
  subst x3
  have hτ : (absF s x).setFoster true
      = { absF { s with fosterParenting := true } x with errors := (absF s x).errors } := by
    rw [e1]; rfl
  exact tblt_flush_of_bodyRun text _ _ _ hnz hne hτ rfl hrun

/-- `flush_pending_foster` -/
theorem tblt_pc_flushFoster : ∀ (pending : List (SplitStatus × Str)) (s : State), MInv s → TbltPendOk pending →
    PC (flushPendingFoster pending) s (fun _ s' calls => TbltFr s s' ∧
      Tr s s' calls (fun x x' =>
        Spec.TreeModes.flushPendingFostered (cfgOf s) (pendingChars pending) (absF s x) = .ok (absF s' x'))) := by
  intro pending
  induction pending with
  | nil =>
    intro s hm _
    simp only [flushPendingFoster]
    exact pc_pure ⟨TbltFr.refl s, (Tr.refl hm).conseq fun x x' _ _ h => by subst h; rfl⟩
  | cons p rest ih =>
    intro s hm hp
    obtain ⟨st, text⟩ := p
    simp only [flushPendingFoster]
    refine pc_seq (tblt_pc_fosterChunk hm (hp (st, text) List.mem_cons_self)) ?_
    rintro res s1 c1 _ ⟨rfl, fr1, htr1⟩
    refine pc_conseq (ih s1 htr1.1 (fun q hq => hp q (List.mem_cons_of_mem _ hq))) ?_
    rintro _ s2 c2 _ ⟨fr2, htr2⟩
    refine ⟨fr1.trans fr2, (htr1.trans htr2).conseq ?_⟩
    rintro x x2 _ _ ⟨x1, r1, r2⟩
    have hcfg : cfgOf s1 = cfgOf s := htr1.2.1
    show Spec.TreeModes.flushPendingFostered (cfgOf s) (text ++ pendingChars rest) (absF s x) = _
    rw [tblt_flush_append, r1, ← hcfg]
    exact r2


/-- `flush_pending_plain`: the calls, up to the splitting of text insertions -/
theorem tblt_pc_flushPlain_flat : ∀ (pending : List (SplitStatus × Str)) (s : State), MInv s →
    PC (flushPendingPlain pending) s (fun _ s' calls => SameTB s s' ∧
      ((pending = [] ∧ calls = []) ∨ ∃ place,
        Spec.TreeAlgo2.appropriatePlace (absStack s.dom s.openElems) s.fosterParenting none = some place ∧
        ∀ tc, TcOk s'.dom tc → flatCalls (edits2 calls)
          = (pendingChars pending).map fun c => (insertOp (ipOf tc place) (.text [c]), Output.unit))) := by
  intro pending
  induction pending with
  | nil =>
    intro s hm
    simp only [flushPendingPlain]
    exact pc_pure ⟨SameTB.refl s, Or.inl ⟨trivial, rfl⟩⟩
  | cons p rest ih =>
    intro s hm
    obtain ⟨st, text⟩ := p
    simp only [flushPendingPlain]
    refine pc_seq (pc_appendText_flat hm text) ?_
    rintro r s1 c1 he1 ⟨-, hs1, place, hplace, hflat1⟩
    have hm1 : MInv s1 := hm.sameTB hs1 he1.ext
    refine pc_conseq (ih s1 hm1) ?_
    rintro _ s2 c2 he2 ⟨hs2, h2⟩
    refine ⟨hs1.trans hs2, Or.inr ⟨place, hplace, ?_⟩⟩
    intro tc htc
    have htc1 : TcOk s1.dom tc := tcOk_of_ext htc he2.ext
    rw [edits2_append, flatCalls_append, hflat1 tc htc1]
    show _ = (text ++ pendingChars rest).map _
    rw [List.map_append]
    congr 1
    rcases h2 with ⟨hr, hc⟩ | ⟨place2, hplace2, hflat2⟩
    · subst hr; subst hc; rfl
    · have : place2 = place := by
        rw [hs1.fields.openElems, hs1.fields.fosterParenting, absStack_ext hm.elems he1.ext, hplace] at hplace2
        cases hplace2; rfl
      subst this
      exact hflat2 tc htc

/-- `flush_pending_plain` — "insert the characters given by the pending table character tokens list" -/
theorem tblt_pc_flushPlain {s : State} (hm : MInv s) (pending : List (SplitStatus × Str)) :
    PC (flushPendingPlain pending) s (fun _ s' calls => SameTB s s' ∧
      Tr s s' calls (fun x x' => Spec.TreeModes.insertChars (absF s x) (pendingChars pending) = .ok (absF s' x'))) := by
  refine pc_conseq (tblt_pc_flushPlain_flat pending s hm) ?_
  rintro _ s' calls he ⟨hs, h⟩
  refine ⟨hs, ?_⟩
  rcases h with ⟨hp, hc⟩ | ⟨place, hplace, hflat⟩
  · subst hp
    subst hc
    refine (Tr.of_same hm hs he rfl).conseq ?_
    rintro x x' _ _ ⟨hx', e⟩
    subst x'
    rw [← e]
    rfl
  · refine (Tr.of_flat (hm.sameTB hs he.ext) (cfgOf_of_same hm hs he.ext) he []
      (charsEdits place (pendingChars pending)) [] (FreshIds.nil _) ?_
      (annot_of_sub he.ext hm (by rw [hs.openElems]; exact fun _ h => h)) (by simp)).conseq ?_
    · intro tc htc
      rw [hflat tc htc]
      cases pendingChars pending with
      | nil => rfl
      | cons c r =>
        simp only [charsEdits, List.map_cons, List.map_nil, editCall, flatCalls, List.flatMap_cons, List.flatMap_nil,
          List.append_nil, flatCall_insertText]
    · rintro x x' hx _ ⟨hx', rest, hsup⟩
      subst hx'
      rw [absF_step_same hm hs he.ext]
      have hpl : Spec.TreeAlgo2.appropriatePlace (absF s x).p.stack (absF s x).p.fosterParenting none = some place := by
        simp only [absF_p, absP, hx.live]; exact hplace
      cases pendingChars pending with
      | nil => simp [Spec.TreeModes.insertChars, absF, absP, pure, Except.pure, charsEdits]
      | cons c r =>
        simp only [Spec.TreeModes.insertChars, Spec.TreeAlgo2.insertCharacters, hpl, Option.map_some, Spec.TreeModes.req]
        simp [absF, absP, Edit.mapTok, bind, Except.bind, pure, Except.pure, charsEdits]


/-! ### the rule -/

/-- `self.orig_mode.take().unwrap()`, `Reprocess(mode, token)` -/
def tbltTail (tok : Token) : M ProcessResult := do
  let s ← getS
  match s.origMode with
  | none => panicAt "unwrap-none" "rules.rs:1172" "orig_mode.take().unwrap()"
  | some m =>
    set { s with origMode := none }
    pure (.reprocess m tok)

/-- the arm of `stepInTableText` for the tokens that are not characters -/
def tbltOther (tok : Token) : M ProcessResult := do
  let pending := (← getS).pendingTableText
  modS fun s => { s with pendingTableText := [] }
  if pending.any tbltChunkNonspace then
    parseError "Non-space table text"
    flushPendingFoster pending
    tbltTail tok
  else
    flushPendingPlain pending
    tbltTail tok

theorem tblt_step_comment (d : Str) : stepInTableText (.comment d) = tbltOther (.comment d) := rfl
theorem tblt_step_eof : stepInTableText .eof = tbltOther .eof := rfl
theorem tblt_step_tag (t : Tag) : stepInTableText (.tag t) = tbltOther (.tag t) := rfl


/-- "anything else" of "in table text" -/
def tbltSpecElse (cfg : Config Id) (σ : SState) : Spec.TreeModes.M (Step Id) := do
  let s ← if σ.pendingTableChars.any (fun c => !Spec.TreeModes.isWs c) then
      Spec.TreeModes.flushPendingFostered cfg σ.pendingTableChars (σ.err "in table text: non-whitespace")
    else Spec.TreeModes.insertChars σ σ.pendingTableChars
  pure (.reprocess (s.setMode s.originalMode))

theorem tblt_spec_other (cfg : Config Id) (σ : SState) {tok : Token} (hch : isCharsTok tok = false)
    (hnn : tok ≠ .nullChar) : Spec.TreeModes.inTableText cfg σ (stokOf tok) = tbltSpecElse cfg σ := by
  cases tok with
  | chars _ _ => cases hch
  | nullChar => exact absurd rfl hnn
  | comment d => rfl
  | eof => rfl
  | tag t =>
    simp only [stokOf, stokOfTag]
    split <;> rfl

theorem tblt_absF_take (sB : State) (xB : Aux) (m : Mode) (P : Str) (ho : sB.origMode = some m) (hne : m ≠ .inTableText) :
    absF { sB with origMode := none, mode := m } { xB with pendingJunk := P, origDefault := imode m }
      = ({ absF sB xB with pendingTableChars := P } : SState).setMode (absF sB xB).originalMode := by
  have hb : (m == Mode.inTableText) = false := by
    cases m <;> first | rfl | exact absurd rfl hne
  simp only [absF, absP, hb, ho, Bool.false_eq_true, if_false, Spec.TreeModes.State.setMode, Option.map_some,
    Option.map_none, Option.getD_some, Option.getD_none]

/-- the end of the rule: `orig_mode.take().unwrap()`, "reprocess" -/
theorem tblt_pc_tail {s sB : State} {c0 : List Call} {R : Aux → Aux → Prop} {spec : SState → Spec.TreeModes.M (Step Id)}
    (h0 : Tr s sB c0 R) (tok : Token) (horigB : ∀ om, sB.origMode = some om → om ≠ .inTableText)
    (hspec : ∀ x xB, AuxOk s x → R x xB → ∃ P, spec (absF s x)
      = .ok (.reprocess (({ absF sB xB with pendingTableChars := P } : SState).setMode (absF sB xB).originalMode))) :
    PC (tbltTail tok) sB (fun res s' c => TokPost spec s tok res s' (c0 ++ c)) := by
  unfold tbltTail
  refine pc_getS_bind ?_
  cases ho : sB.origMode with
  | none => exact pc_panicAt
  | some m =>
    simp only
    have hne := horigB m ho
    have hmC : MInv { sB with origMode := none } := MInv.of_fields h0.1 (TBSafe.Ext.refl _) rfl rfl rfl rfl rfl
    refine pc_seq (pc_set (Q := fun _ s' c => s' = { sB with origMode := none } ∧ c = []) rfl rfl ⟨rfl, rfl⟩) ?_
    rintro _ sC cC _ ⟨rfl, rfl⟩
    refine pc_pure ?_
    have htrC : Tr sB { sB with origMode := none } [] (fun x x' => x' = x) :=
      Tr.of_upd (s' := { sB with origMode := none }) h0.1 rfl (fun _ h => h) hmC rfl
    have htr := h0.trans htrC
    simp only [List.append_nil] at htr ⊢
    refine tokPost_of_tr htr rfl ?_
    rintro x xC hx hxC ⟨xB, r, hxCe⟩
    subst xC
    obtain ⟨P, hP⟩ := hspec x xB hx r
    refine ⟨{ xB with pendingJunk := P, origDefault := imode m }, ?_, ⟨rfl, rfl, rfl, rfl, rfl⟩, Or.inl rfl, rfl, rfl⟩
    rw [hP]
    simp only [stepOf, applyRes]
    rw [tblt_absF_take sB xB m P ho hne]


theorem tblt_pend_nz {l : List (SplitStatus × Str)} (h : TbltPendOk l) : ∀ c ∈ pendingChars l, c ≠ '\x00' := by
  intro c hc e
  unfold pendingChars at hc
  obtain ⟨p, hp, hcp⟩ := List.mem_flatMap.mp hc
  exact (h p hp).2.1 (e ▸ hcp)

theorem tblt_ptc_eta (σ : SState) :
    ({ ({ σ with pendingTableChars := [] } : SState) with pendingTableChars := σ.pendingTableChars } : SState) = σ := by
  cases σ; rfl

/-- the flush started with the pending list cleared (the model) and with the list kept (the specification) -/
theorem tblt_flush_pend' {cfg : Config Id} (text : Str) (σ σ0 σ' : SState) (hnz : ∀ c ∈ text, c ≠ '\x00')
    (hσ0 : σ0 = { σ with pendingTableChars := [] })
    (h : Spec.TreeModes.flushPendingFostered cfg text σ0 = .ok σ') :
    Spec.TreeModes.flushPendingFostered cfg text σ = .ok { σ' with pendingTableChars := σ.pendingTableChars } := by
  subst hσ0
  have := tblt_flush_pend σ.pendingTableChars text _ σ' hnz h
  exact (congrArg (Spec.TreeModes.flushPendingFostered cfg text) (tblt_ptc_eta σ).symm).trans this

theorem tblt_insertChars_pend' (text : Str) (σ σ0 σ' : SState)
    (hσ0 : σ0 = { σ with pendingTableChars := [] })
    (h : Spec.TreeModes.insertChars σ0 text = .ok σ') :
    Spec.TreeModes.insertChars σ text = .ok { σ' with pendingTableChars := σ.pendingTableChars } := by
  subst hσ0
  have := tblt_insertChars_pend σ.pendingTableChars text _ σ' h
  exact (congrArg (fun τ => Spec.TreeModes.insertChars τ text) (tblt_ptc_eta σ).symm).trans this

/-- **the rule of "in table text" for a token that is not a character** -/
theorem tblt_sim_other (tok : Token) {s : State} (hm : MInv s) (hmode : s.mode = .inTableText)
    (hpend : TbltPendOk s.pendingTableText) (horig : ∀ om, s.origMode = some om → om ≠ .inTableText) :
    PC (tbltOther tok) s (TokPost (tbltSpecElse (cfgOf s)) s tok) := by
  unfold tbltOther
  refine pc_getS_bind ?_
  simp only
  have hmA : MInv { s with pendingTableText := [] } :=
    ⟨hm.elems, hm.root, hm.af, hm.afEl, hm.head, hm.ctx, hm.afwf, hm.ip, hm.tmodes, hm.form, fun p hp => by cases hp⟩
  refine pc_seq (pc_modS (Q := fun _ sA c => sA = { s with pendingTableText := [] } ∧ c = []) rfl rfl ⟨rfl, rfl⟩) ?_
  rintro _ sA cA _ ⟨rfl, rfl⟩
  have htrA : Tr s { s with pendingTableText := [] } [] (fun x x' => x' = x) :=
    Tr.of_upd (s' := { s with pendingTableText := [] }) hm rfl (fun _ h => h) hmA rfl
  have hP : ∀ x, (absF s x).pendingTableChars = pendingChars s.pendingTableText := by
    intro x; simp [absF, hmode]
  have hA : ∀ x, absF { s with pendingTableText := [] } x = { absF s x with pendingTableChars := [] } := by
    intro x; simp [absF, absP, hmode, pendingChars]
  have hnz := tblt_pend_nz hpend
  rw [tblt_containsNonspace _ hpend]
  cases hb : (pendingChars s.pendingTableText).any (fun c => !Spec.TreeModes.isWs c) with
  | true =>
    simp only [if_true]
    refine pc_seq (PC.of_tot (tot_parseError _ _)) ?_
    rintro _ sA' c1 he1 ⟨-, hs1, hc1⟩
    have hmA' := hmA.sameTB hs1 he1.ext
    have htr1 := Tr.of_same hmA hs1 he1 (by rw [← edits2_edits, hc1]; rfl)
    refine pc_seq (tblt_pc_flushFoster _ sA' hmA' hpend) ?_
    rintro _ sB c2 _ ⟨frB, htrB⟩
    have htr := (((tbl_tr_err hm "in table text: non-whitespace").trans htrA).trans htr1).trans htrB
    have hcfg : cfgOf sA' = cfgOf s := ((tbl_tr_err hm "in table text: non-whitespace").trans htrA |>.trans htr1).2.1
    have key := tblt_pc_tail (spec := tbltSpecElse (cfgOf s)) htr tok ?_ ?_
    · simp only [List.nil_append, List.append_nil, List.append_assoc] at key ⊢
      exact key
    · intro om ho
      rw [frB.origMode, hs1.fields.origMode] at ho
      exact horig om ho
    · rintro x xB hx ⟨x3, ⟨x2, ⟨x1, hx1, hx2⟩, hx3, e3⟩, hfl⟩
      subst x3
      subst x2
      refine ⟨pendingChars s.pendingTableText, ?_⟩
      unfold tbltSpecElse
      rw [hP x, hb]
      simp only [if_true]
      have hσ0 : absF sA' x1 = { (absF s x).err "in table text: non-whitespace" with pendingTableChars := [] } := by
        rw [← e3, hA, hx1]
        rfl
      rw [hcfg] at hfl
      rw [tblt_flush_pend' _ _ _ _ hnz hσ0 hfl,
        show ((absF s x).err "in table text: non-whitespace").pendingTableChars = pendingChars s.pendingTableText from hP x]
      rfl
  | false =>
    simp only [Bool.false_eq_true, if_false]
    refine pc_seq (tblt_pc_flushPlain hmA _) ?_
    rintro _ sB c2 _ ⟨hsB, htrB⟩
    have htr := htrA.trans htrB
    have key := tblt_pc_tail (spec := tbltSpecElse (cfgOf s)) htr tok ?_ ?_
    · simp only [List.nil_append] at key ⊢
      exact key
    · intro om ho
      rw [hsB.fields.origMode] at ho
      exact horig om ho
    · rintro x xB hx ⟨x1, hx1, hins⟩
      subst x1
      refine ⟨pendingChars s.pendingTableText, ?_⟩
      unfold tbltSpecElse
      rw [hP x, hb]
      simp only [Bool.false_eq_true, if_false]
      rw [tblt_insertChars_pend' _ _ _ _ (hA x) hins, hP x]
      rfl


/-! ### the mode -/

/-- **"in table text", non-character tokens.**  `hpend`: the pending chunks are what the tokenizer delivered
(not part of `TI`/`MInv`; it is kept by the character arm of this mode, which appends a chunk that
satisfies `TokWf`, and holds trivially when the list is empty) -/
theorem modeSim_inTableText
    (hpend : ∀ s, TI s → MInv s → s.mode = .inTableText → TbltPendOk s.pendingTableText) : ModeSim .inTableText := by
  intro tok hch hwf s hti hm hmode _
  have horig : ∀ om, s.origMode = some om → om ≠ .inTableText := by
    intro om ho hom
    obtain ⟨om', ho', htm⟩ := hti.s.tableText hmode
    rw [ho] at ho'
    cases ho'
    subst hom
    revert htm
    decide
  have hmσ : ∀ x, (absF s x).mode = .inTableText := fun x => by show imode s.mode = _; rw [hmode]; rfl
  have hp := hpend s hti hm hmode
  show PC (stepInTableText tok) s _
  cases tok with
  | chars st text => cases hch
  | nullChar =>
    simp only [stepInTableText]
    refine pc_tokPost_congr (pc_unexpected_err hm .nullChar "in table text: U+0000") ?_
    intro x hx
    rw [byModeDev_inTableText (hmσ x)]
    rfl
  | comment d =>
    rw [tblt_step_comment]
    refine pc_tokPost_congr (tblt_sim_other _ hm hmode hp horig) ?_
    intro x hx
    rw [byModeDev_inTableText (hmσ x), tblt_spec_other _ _ rfl (by simp)]
  | eof =>
    rw [tblt_step_eof]
    refine pc_tokPost_congr (tblt_sim_other _ hm hmode hp horig) ?_
    intro x hx
    rw [byModeDev_inTableText (hmσ x), tblt_spec_other _ _ rfl (by simp)]
  | tag t =>
    rw [tblt_step_tag]
    refine pc_tokPost_congr (tblt_sim_other _ hm hmode hp horig) ?_
    intro x hx
    rw [byModeDev_inTableText (hmσ x), tblt_spec_other _ _ rfl (by simp)]

theorem tblt_fold_pend : ∀ (text : Str) (σ : SState),
    text.foldlM (fun (σ : SState) (c : Char) =>
      (pure { σ with pendingTableChars := σ.pendingTableChars ++ [c] } : Spec.TreeModes.M SState)) σ
      = .ok { σ with pendingTableChars := σ.pendingTableChars ++ text } := by
  intro text
  induction text with
  | nil => intro σ; simp only [List.foldlM_nil, List.append_nil]; rfl
  | cons c cs ih =>
    intro σ
    rw [List.foldlM_cons]
    show List.foldlM _ ({ σ with pendingTableChars := σ.pendingTableChars ++ [c] } : SState) cs = _
    rw [ih]
    simp only [List.append_assoc, List.singleton_append]

/-- **"in table text", runs of characters**: the chunk is appended to the pending table text -/
theorem modeCharSim_inTableText : ModeCharSim .inTableText := by
  intro st text hwf s _ hm hmode hlf hdisp
  have hwf0 := hwf
  obtain ⟨hne, hnul, -⟩ := hwf
  show PC (stepInTableText (.chars st text)) s _
  simp only [stepInTableText]
  have hm' : MInv { s with pendingTableText := s.pendingTableText ++ [(st, text)] } :=
    ⟨hm.elems, hm.root, hm.af, hm.afEl, hm.head, hm.ctx, hm.afwf, hm.ip, hm.tmodes, hm.form, fun p hp => by
      rcases List.mem_append.mp hp with h | h
      · exact hm.pend p h
      · simp only [List.mem_singleton] at h; subst h; exact hwf0⟩
  refine pc_seq (pc_modS (Q := fun _ s' c => s' = { s with pendingTableText := s.pendingTableText ++ [(st, text)] } ∧ c = [])
    rfl rfl ⟨rfl, rfl⟩) ?_
  rintro _ s' c' _ ⟨rfl, rfl⟩
  refine pc_pure ?_
  have htr : Tr s { s with pendingTableText := s.pendingTableText ++ [(st, text)] } [] (fun x x' => x' = x) :=
    Tr.of_upd (s' := { s with pendingTableText := s.pendingTableText ++ [(st, text)] }) hm rfl (fun _ h => h) hm' rfl
  refine ⟨rfl, htr.conseq ?_⟩
  rintro x x' hx _ hxx
  subst x'
  have hmσ : (absF s x).mode = .inTableText := by show imode s.mode = _; rw [hmode]; rfl
  refine specChars_of_byModeRun (charsRunK_foldlM (m := .inTableText)
    (fun (σ : SState) (c : Char) => (pure { σ with pendingTableChars := σ.pendingTableChars ++ [c] } : Spec.TreeModes.M SState))
    ?_ ?_ (fun _ h => h) hmσ hx.live hlf (hdisp x hx) ?_)
  · intro σ hσ c hc
    have hc0 : (c == '\x00') = false := by
      have : c ≠ '\x00' := fun e => hnul (e ▸ hc)
      simpa using this
    rw [byModeDev_inTableText hσ]
    simp only [Spec.TreeModes.inTableText, hc0, Bool.false_eq_true, if_false]
    rfl
  · intro σ σ1 c h
    cases h
    exact ⟨rfl, rfl, rfl, rfl, rfl⟩
  · rw [tblt_fold_pend]
    simp [absF, absP, hmode, pendingChars]

/-- "in table text", non-character tokens, with the pending-text clause of `MInv` -/
theorem modeSim_inTableText' : ModeSim .inTableText :=
  modeSim_inTableText (fun _ _ hm _ => hm.pend)

end H5V.Lemmas.HtmlTBModes
