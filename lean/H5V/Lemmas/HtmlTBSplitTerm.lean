import H5V.Lemmas.HtmlTBSplitKeeps
import H5V.Lemmas.HtmlTBSplitFoster
/-!
C03 lifted to the tree — layer 4c: additivity of the text-consuming terminal actions
(`charsFin k st (x ++ y)` against `charsFin k st x` followed, in a `Sim`-related state, by
`charsFin k st' y`), for `k` = append / foreign append / in-body rule (plain and foster parented) /
pending table text.
-/
namespace H5V.Lemmas.TBSplit
open H5V.Model.Dom (Id QualName Attr NodeOrText SinkOp Output ElementFlags QuirksMode Dom)
open H5V.Model.HtmlTok (TagKind RawKind)
open H5V.Model.HtmlTB
open H5V.Lemmas.TBSplitDom

/-- a token with a run status holds characters of that class only -/
def Valid (st : SplitStatus) (z : Str) : Prop :=
  match st with
  | .notSplit => True
  | .whitespace => ∀ c ∈ z, isAsciiWhitespace c = true
  | .notWhitespace => ∀ c ∈ z, isAsciiWhitespace c = false

theorem Valid.left {st : SplitStatus} {x y : Str} (h : Valid st (x ++ y)) : Valid st x := by
  cases st
  · trivial
  · exact fun c hc => h c (List.mem_append_left _ hc)
  · exact fun c hc => h c (List.mem_append_left _ hc)

theorem Valid.right {st : SplitStatus} {x y : Str} (h : Valid st (x ++ y)) : Valid st y := by
  cases st
  · trivial
  · exact fun c hc => h c (List.mem_append_right _ hc)
  · exact fun c hc => h c (List.mem_append_right _ hc)

theorem anyNotWhitespace_false_of {z : Str} (h : ∀ c ∈ z, isAsciiWhitespace c = true) : anyNotWhitespace z = false := by
  unfold anyNotWhitespace
  rw [List.any_eq_false]
  intro c hc
  simp [h c hc]

theorem anyNotWhitespace_true_of {z : Str} (hz : z ≠ []) (h : ∀ c ∈ z, isAsciiWhitespace c = false) :
    anyNotWhitespace z = true := by
  unfold anyNotWhitespace
  cases z with
  | nil => exact (hz rfl).elim
  | cons c t => simp [h c (List.mem_cons_self ..)]

/-! ### `[frameset-ok;] append_text` -/

theorem FA_resp (b : Bool) (z : Str) : RespQ (· = .done) (FA b z) := by
  unfold FA
  refine respQ_bind (P := fun _ => True) ?_ (fun _ _ => appendText_resp z)
  cases b
  · exact resp_pure _
  · exact fOk_resp z

theorem FA_qsim {b : Bool} {z : Str} {s s1 : State} {r : ProcessResult} (h : FA b z s = .ok (r, s1)) : QSim s s1 := by
  rw [FA_apply] at h
  exact (setF_qsim _ s).1.trans (appendText_textStep h).qsim

/-- `fa_add` against any `Sim`-related second state -/
theorem fa_add_sim (b : Bool) {x y : Str} {s : State} (hg : Good s) :
    (∀ e, FA b x s = .error e → ∃ e', FA b (x ++ y) s = .error e') ∧
    (∀ r s1, FA b x s = .ok (r, s1) → r = .done ∧ Good s1 ∧ ∀ u, Sim s1 u →
      RelR (· = .done) (FA b (x ++ y) s) (FA b y u)) := by
  obtain ⟨h1, h2⟩ := fa_add b (x := x) (y := y) hg
  refine ⟨h1, ?_⟩
  intro r s1 hs1
  obtain ⟨hr, hg1, hu⟩ := h2 r s1 hs1
  refine ⟨hr, hg1, ?_⟩
  intro u hsu
  exact (hu s1 (TrEq.refl s1)).trans (FA_resp b y s1 u hsu)

theorem sim_foster {s t : State} (h : Sim s t) (b : Bool) :
    Sim { s with fosterParenting := b } { t with fosterParenting := b } :=
  sim_of_comm (g := fun s => { s with fosterParenting := b }) (fun _ _ _ _ _ => rfl) (fun _ h => h) (fun _ => rfl) h

theorem good_foster {s : State} (h : Good s) (b : Bool) : Good { s with fosterParenting := b } := ⟨h.af, h.pend⟩

theorem qsim_foster {s t : State} (h : QSim s t) (b : Bool) :
    QSim { s with fosterParenting := b } { t with fosterParenting := b } := by
  obtain ⟨m, o, p, f, i, c, tr, d, rfl, hd⟩ := h
  exact ⟨m, o, p, f, i, c, tr, d, rfl, hd⟩

theorem HtmlTop.foster {s : State} (h : HtmlTop s) (b : Bool) : HtmlTop { s with fosterParenting := b } := h

/-! ### the in-body rule -/

theorem stepInBody_chars_FA (st : SplitStatus) (z : Str) :
    stepInBody (.chars st z) = reconstructActiveFormattingElements >>= fun _ => FA true z := by
  rw [stepInBody_chars_eq]
  rfl

/-- after the in-body rule ran on `x` from `s0`, what we know about the new state `s1` for the "is
foreign" / "current node" queries: either no query can tell it from `s0`, or the current node is a
new HTML formatting element -/
def AfterBody (s0 s1 : State) : Prop := QSim (sf false s0) (sf false s1) ∨ HtmlTop s1

theorem body_add_sim {x y : Str} {s0 : State} (hg : Good s0) (st : SplitStatus) :
    (∀ e, stepInBody (.chars st x) s0 = .error e → ∃ e', stepInBody (.chars st (x ++ y)) s0 = .error e') ∧
    (∀ r s1, stepInBody (.chars st x) s0 = .ok (r, s1) → r = .done ∧ Good s1 ∧ AfterBody s0 s1 ∧
      ∀ u st', Sim s1 u → RelR (· = .done) (stepInBody (.chars st (x ++ y)) s0) (stepInBody (.chars st' y) u)) := by
  simp only [stepInBody_chars_FA, bind_apply]
  cases hR : reconstructActiveFormattingElements s0 with
  | error e => exact ⟨fun _ _ => ⟨e, rfl⟩, fun _ _ h => by cases h⟩
  | ok v =>
    obtain ⟨⟨⟩, sR⟩ := v
    simp only
    have hgR : Good sR := (reconstructActiveFormattingElements_resp.post hg hR).2
    obtain ⟨hdone, htop⟩ := reconstruct_post hg hR
    obtain ⟨h1, h2⟩ := fa_add_sim true (x := x) (y := y) hgR
    refine ⟨h1, ?_⟩
    intro r s1 hs1
    obtain ⟨hr, hg1, hu⟩ := h2 r s1 hs1
    have hq1 : QSim sR s1 := FA_qsim hs1
    refine ⟨hr, hg1, ?_, ?_⟩
    · rcases htop with ht | ht
      · exact Or.inl (qsim_foster (ht.qsim.trans hq1) false)
      · exact Or.inr (ht.of_qsim hq1)
    · intro u st' hsu
      -- the second reconstruction does nothing
      have hd1 : RDone s1 := hdone.of_qsim hq1
      obtain ⟨tr1, hr1⟩ := hd1.run
      have hresp := reconstructActiveFormattingElements_resp s1 u hsu
      rw [hr1] at hresp
      cases hRu : reconstructActiveFormattingElements u with
      | error e => rw [hRu] at hresp; exact hresp.elim
      | ok w =>
        obtain ⟨⟨⟩, u'⟩ := w
        rw [hRu] at hresp
        simp only
        have hs1u' : Sim s1 u' := ((TrEq.sim ⟨tr1, rfl⟩ hg1)).trans hresp.2.2
        exact hu u' hs1u'

/-! ### the foster-parented in-body rule -/

theorem fbody_add_sim {x y : Str} {s0 : State} (hg : Good s0) (st : SplitStatus) :
    (∀ e, fosterParentInBody (.chars st x) s0 = .error e →
      ∃ e', fosterParentInBody (.chars st (x ++ y)) s0 = .error e') ∧
    (∀ r s1, fosterParentInBody (.chars st x) s0 = .ok (r, s1) → r = .done ∧ Good s1 ∧ AfterBody s0 s1 ∧
      ∀ u st', Sim s1 u →
        RelR (· = .done) (fosterParentInBody (.chars st (x ++ y)) s0) (fosterParentInBody (.chars st' y) u)) := by
  simp only [fosterParentInBody_apply]
  obtain ⟨h1, h2⟩ := body_add_sim (x := x) (y := y) (good_foster hg true) st
  constructor
  · intro e he
    cases hb : stepInBody (.chars st x) { s0 with fosterParenting := true } with
    | error e1 =>
      obtain ⟨e', he'⟩ := h1 e1 hb
      rw [he']; exact ⟨e', rfl⟩
    | ok v => rw [hb] at he; cases he
  · intro r s1 hs1
    cases hb : stepInBody (.chars st x) { s0 with fosterParenting := true } with
    | error e1 => rw [hb] at hs1; cases hs1
    | ok v =>
      obtain ⟨r', s1'⟩ := v
      rw [hb] at hs1
      simp only [Except.ok.injEq, Prod.mk.injEq] at hs1
      obtain ⟨rfl, rfl⟩ := hs1
      obtain ⟨hr, hg1, hab, hu⟩ := h2 r' s1' hb
      refine ⟨hr, good_foster hg1 false, ?_, ?_⟩
      · rcases hab with hq | ht
        · exact Or.inl hq
        · exact Or.inr (ht.foster false)
      · intro u st' hsu
        have hf1 : s1'.fosterParenting = true := by
          have := stepInBody_chars_keeps st x _ _ _ hb
          simp only [fr, Prod.mk.injEq] at this
          exact this.2.2.2.2.2.1
        have hsu' : Sim s1' { u with fosterParenting := true } := by
          have := sim_foster hsu true
          have h0 : ({ ({ s1' with fosterParenting := false } : State) with fosterParenting := true } : State) = s1' := by
            cases s1'; simp only at hf1; subst hf1; rfl
          rw [h0] at this
          exact this
        have hrel := hu { u with fosterParenting := true } st' hsu'
        cases hL : stepInBody (.chars st (x ++ y)) { s0 with fosterParenting := true } with
        | error e =>
          rw [hL] at hrel
          cases hRt : stepInBody (.chars st' y) { u with fosterParenting := true } with
          | error e' => trivial
          | ok w => rw [hRt] at hrel; exact hrel.elim
        | ok w =>
          obtain ⟨rl, sl⟩ := w
          rw [hL] at hrel
          cases hRt : stepInBody (.chars st' y) { u with fosterParenting := true } with
          | error e' => rw [hRt] at hrel; exact hrel.elim
          | ok w' =>
            obtain ⟨rr, sr⟩ := w'
            rw [hRt] at hrel
            obtain ⟨h1', h2', h3'⟩ := hrel
            exact ⟨h1', h2', sim_foster h3' false⟩

end H5V.Lemmas.TBSplit
