import H5V.Lemmas.HtmlTokTerm
import H5V.Lemmas.HtmlTokOut
/-!
Tokenizer-side facts for the joint (tokenizer + tree builder) chunking argument.

* `step_suspend_out`: a step that asks for more input has delivered nothing to the sink.
* `clr m` (forget the log of delivered tokens): none of the step-boundary invariants, the
  termination measure, the fuel, `Sim`, `feedBom` or the setters look at `out`.
* `step_discardBom`: a step never touches the BOM flag (only `feedBom` does).
-/
namespace H5V.Model.HtmlTok

/-! ### a suspended step has not logged anything -/

theorem eatSkipLf_out (m : Mach) (inp : Str) : (eatSkipLf m inp).1.out = m.out := by
  unfold eatSkipLf discardChar
  repeat' split
  all_goals rfl

/-- `eat` never logs -/
theorem eat_out (m m1 : Mach) (inp i1 pat : Str) (eq : Char → Char → Bool) (b : Option Bool)
    (h : eat m inp pat eq = (b, m1, i1)) : m1.out = m.out := by
  rw [eat_eq_core] at h
  have hs := eatSkipLf_out m inp
  unfold eatCore at h
  repeat' split at h
  all_goals
    (simp only [Prod.mk.injEq] at h
     obtain ⟨_, h2, _⟩ := h
     subst h2
     exact hs)

/-- shape of a suspended read: the machine is `m` or `m` with the `ignore_lf` flag cleared -/
theorem none_shape_out {m m1 : Mach} {inp : Str}
    (h : (inp = [] ∧ m1 = m) ∨ (inp = ['\n'] ∧ m.ignoreLf = true ∧ m1 = m.setIgnoreLf false)) :
    m1.out = m.out := by
  rcases h with ⟨_, h⟩ | ⟨_, _, h⟩ <;> subst h <;> rfl

theorem stepBav_suspend_out (o : Opts) (pol : Pol) (m : Mach) (inp : Str) (m' : Mach) (i' : Str)
    (h : stepBav o pol m inp = .suspend m' i') : m'.out = m.out := by
  rw [(stepBav_suspend o pol m m' inp i' h).1]

theorem stepMdo_suspend_out (o : Opts) (pol : Pol) (m : Mach) (inp : Str) (m' : Mach) (i' : Str)
    (h : stepMdo o pol m inp = .suspend m' i') : m'.out = m.out := by
  unfold stepMdo at h
  cases h1 : eat m inp kwDashDash eqExact with
  | mk b1 r1 =>
    obtain ⟨m1, i1⟩ := r1
    have e1 := eat_out m m1 inp i1 _ _ b1 h1
    rw [h1] at h
    cases b1 with
    | none => simp only [R.suspend.injEq] at h; rw [← h.1]; exact e1
    | some b1 =>
      cases b1 with
      | true => simp at h
      | false =>
        simp only at h
        cases h2 : eat m1 i1 kwDoctype eqCi with
        | mk b2 r2 =>
          obtain ⟨m2, i2⟩ := r2
          have e2 := eat_out m1 m2 i1 i2 _ _ b2 h2
          rw [h2] at h
          cases b2 with
          | none => simp only [R.suspend.injEq] at h; rw [← h.1, e2]; exact e1
          | some b2 =>
            cases b2 with
            | true => simp at h
            | false =>
              simp only at h
              split at h
              · cases h3 : eat m2 i2 kwCdata eqExact with
                | mk b3 r3 =>
                  obtain ⟨m3, i3⟩ := r3
                  have e3 := eat_out m2 m3 i2 i3 _ _ b3 h3
                  rw [h3] at h
                  cases b3 with
                  | none => simp only [R.suspend.injEq] at h; rw [← h.1, e3, e2]; exact e1
                  | some b3 => cases b3 <;> simp at h
              · simp at h

theorem stepAdn_suspend_out (o : Opts) (pol : Pol) (m : Mach) (inp : Str) (m' : Mach) (i' : Str)
    (h : stepAdn o pol m inp = .suspend m' i') : m'.out = m.out := by
  unfold stepAdn at h
  cases h1 : eat m inp kwPublic eqCi with
  | mk b1 r1 =>
    obtain ⟨m1, i1⟩ := r1
    have e1 := eat_out m m1 inp i1 _ _ b1 h1
    rw [h1] at h
    cases b1 with
    | none => simp only [R.suspend.injEq] at h; rw [← h.1]; exact e1
    | some b1 =>
      cases b1 with
      | true => simp at h
      | false =>
        simp only at h
        cases h2 : eat m1 i1 kwSystem eqCi with
        | mk b2 r2 =>
          obtain ⟨m2, i2⟩ := r2
          have e2 := eat_out m1 m2 i1 i2 _ _ b2 h2
          rw [h2] at h
          cases b2 with
          | none => simp only [R.suspend.injEq] at h; rw [← h.1, e2]; exact e1
          | some b2 =>
            cases b2 with
            | true => simp at h
            | false =>
              simp only at h
              cases hg : getChar o m2 i2 with
              | mk oc r =>
                obtain ⟨m3, i3⟩ := r
                rw [hg] at h
                cases oc with
                | none =>
                  simp only [R.suspend.injEq] at h
                  rw [← h.1, none_shape_out (getChar_none o m2 m3 i2 i3 hg).2.2, e2]; exact e1
                | some c => exact absurd h (ofSig_ne_suspend _ _ _ _)

/-- **a step that asks for more input has delivered nothing to the sink** (no invariant needed:
the only `Stuck` answer of the character-reference sub-tokenizer is the one on an empty queue,
which leaves the machine alone) -/
theorem step_suspend_out (o : Opts) (pol : Pol) (m : Mach) (inp : Str) (m' : Mach) (i' : Str)
    (h : step o pol m inp = .suspend m' i') : m'.out = m.out := by
  cases hcr : m.charRef with
  | some cr =>
    rw [step_kind_charRef o pol m inp cr hcr] at h
    rw [(stepCharRef_suspend o m m' inp i' cr hcr h).1]
  | none =>
    cases hrk : readKind m.state with
    | getChar =>
      rw [step_getChar o pol m inp hcr hrk] at h
      cases hgc : getChar o m inp with
      | mk oc r =>
        obtain ⟨m1, i1⟩ := r
        rw [hgc] at h
        cases oc with
        | none =>
          simp only [contChar, R.suspend.injEq] at h
          rw [← h.1]; exact none_shape_out (getChar_none o m m1 inp i1 hgc).2.2
        | some c => exact absurd h (ofSig_ne_suspend _ _ _ _)
    | popExcept =>
      rw [step_popExcept o pol m inp hcr hrk] at h
      cases hgc : popExceptFrom o (setOf m.state) m inp with
      | mk oc r =>
        obtain ⟨m1, i1⟩ := r
        rw [hgc] at h
        cases oc with
        | none =>
          simp only [contSet, R.suspend.injEq] at h
          rw [← h.1]; exact none_shape_out (popExceptFrom_none o _ m m1 inp i1 hgc).2.2
        | some c => exact absurd h (ofSig_ne_suspend _ _ _ _)
    | dataSimd =>
      rw [step_dataSimd o pol m inp hcr hrk] at h
      cases hgc : readData o m inp with
      | mk oc r =>
        obtain ⟨m1, i1⟩ := r
        rw [hgc] at h
        cases oc with
        | none =>
          simp only [contSet, R.suspend.injEq] at h
          rw [← h.1]; exact none_shape_out (readData_none o m m1 inp i1 hgc).2.2
        | some c => exact absurd h (ofSig_ne_suspend _ _ _ _)
    | peekBav =>
      rw [step_kind_bav o pol m inp hcr hrk] at h
      exact stepBav_suspend_out o pol m inp m' i' h
    | eatMdo =>
      rw [step_kind_mdo o pol m inp hcr hrk] at h
      exact stepMdo_suspend_out o pol m inp m' i' h
    | eatAdn =>
      rw [step_kind_adn o pol m inp hcr hrk] at h
      exact stepAdn_suspend_out o pol m inp m' i' h

/-! ### the invariants do not look at `out` -/

/-- forget the log of delivered tokens -/
def clr (m : Mach) : Mach := { m with out := [] }

@[simp] theorem clr_out (m : Mach) : (clr m).out = [] := rfl
@[simp] theorem clr_clr (m : Mach) : clr (clr m) = clr m := rfl

theorem safe_clr {m : Mach} : Safe (clr m) ↔ Safe m :=
  ⟨fun h => ⟨h.crState, h.crRegs⟩, fun h => ⟨h.crState, h.crRegs⟩⟩

theorem linv_clr {m : Mach} : LInv (clr m) ↔ LInv m :=
  ⟨fun h => ⟨safe_clr.mp h.safe, h.eatOk, h.nr, h.peekNoRecon, h.ri, h.stashOk, h.cr⟩,
   fun h => ⟨safe_clr.mpr h.safe, h.eatOk, h.nr, h.peekNoRecon, h.ri, h.stashOk, h.cr⟩⟩

theorem tinv_clr {m : Mach} : TInv (clr m) ↔ TInv m :=
  ⟨fun h => ⟨linv_clr.mp h.linv, h.crt⟩, fun h => ⟨linv_clr.mpr h.linv, h.crt⟩⟩

theorem good_clr {m : Mach} : Good (clr m) ↔ Good m :=
  ⟨fun h => ⟨h.eatOk, h.tagOpen, h.unq⟩, fun h => ⟨h.eatOk, h.tagOpen, h.unq⟩⟩

theorem quiet_clr {m : Mach} : Quiet (clr m) ↔ Quiet m :=
  ⟨fun h => ⟨tinv_clr.mp h.tinv, h.nrec, h.sp⟩, fun h => ⟨tinv_clr.mpr h.tinv, h.nrec, h.sp⟩⟩

theorem mu_clr (m : Mach) (inp : Str) : mu (clr m) inp = mu m inp := rfl

theorem fuelFor_clr (m : Mach) (inp : Str) : fuelFor (clr m) inp = fuelFor m inp := rfl

theorem deadCC_clr {m : Mach} : deadCC (clr m) ↔ deadCC m := Iff.rfl

theorem setCurrentChar_clr (m : Mach) (a : Char) : (clr m).setCurrentChar a = clr (m.setCurrentChar a) := rfl

theorem sim_clr {a b : Mach} (h : Sim a b) : Sim (clr a) (clr b) := by
  rcases h with h | ⟨hd, c, hc⟩
  · subst h; exact Sim.refl _
  · subst hc; exact Or.inr ⟨hd, c, rfl⟩

theorem setDiscardBom_clr (m : Mach) (b : Bool) : (clr m).setDiscardBom b = clr (m.setDiscardBom b) := rfl

theorem feedBom_clr (m : Mach) (inp : Str) : feedBom (clr m) inp = (clr (feedBom m inp).1, (feedBom m inp).2) := by
  unfold feedBom
  cases inp with
  | nil => rfl
  | cons c rest =>
    dsimp only
    have : (clr m).discardBom = m.discardBom := rfl
    rw [this]
    split <;> rfl

theorem setAtEof_clr (m : Mach) (b : Bool) : (clr m).setAtEof b = clr (m.setAtEof b) := rfl

theorem setCharRef_clr (m : Mach) (c : Option CharRefSt) : (clr m).setCharRef c = clr (m.setCharRef c) := rfl

/-! ### a step never touches the BOM flag -/

theorem feedBom_discardBom (m : Mach) (inp : Str) (h : inp ≠ []) : (feedBom m inp).1.discardBom = false := by
  unfold feedBom
  cases inp with
  | nil => exact absurd rfl h
  | cons c rest =>
    dsimp only
    split
    · rfl
    · rename_i hx; simpa using hx

theorem feedBom_id' (m : Mach) (inp : Str) (h : m.discardBom = false) : feedBom m inp = (m, inp) := by
  unfold feedBom
  cases inp with
  | nil => rfl
  | cons c rest => simp [h]

/-- `x` has the BOM flag of `m` -/
def DB (m x : Mach) : Prop := x.discardBom = m.discardBom

theorem DB.refl (m : Mach) : DB m m := rfl
theorem DB.trans {a b c : Mach} (h1 : DB a b) (h2 : DB b c) : DB a c := by
  unfold DB at *; rw [h2, h1]

theorem foldChar_db (o : Opts) (m : Mach) (c : Char) : DB m (foldChar o m c).2 := by
  unfold foldChar DB
  dsimp only
  split <;> split <;> split <;> simp

theorem preprocess_db (o : Opts) (m : Mach) (c : Char) (rest : Str) : DB m (preprocess o m c rest).2.1 := by
  unfold preprocess
  split
  · split
    · cases rest with
      | nil => exact (rfl : DB m (m.setIgnoreLf false))
      | cons y ys => exact foldChar_db o (m.setIgnoreLf false) y
    · exact foldChar_db o (m.setIgnoreLf false) c
  · exact foldChar_db o m c

theorem getChar_db (o : Opts) (m : Mach) (inp : Str) : DB m (getChar o m inp).2.1 := by
  unfold getChar
  split
  · exact (rfl : DB m (m.setReconsume false))
  · cases inp with
    | nil => exact DB.refl m
    | cons c rest => exact preprocess_db o m c rest

theorem popExceptFrom_db (o : Opts) (S : List Char) (m : Mach) (inp : Str) :
    DB m (popExceptFrom o S m inp).2.1 := by
  unfold popExceptFrom
  split
  · exact getChar_db o m inp
  · cases inp with
    | nil => exact DB.refl m
    | cons c rest =>
      dsimp only
      split
      · exact preprocess_db o m c rest
      · exact DB.refl m

theorem readData_db (o : Opts) (m : Mach) (inp : Str) : DB m (readData o m inp).2.1 := by
  unfold readData
  split
  · exact popExceptFrom_db o _ m inp
  · cases inp with
    | nil => exact DB.refl m
    | cons c rest =>
      dsimp only
      split
      · exact popExceptFrom_db o _ m (c :: rest)
      · split
        · exact (rfl : DB m m.bumpLine)
        · exact DB.refl m

theorem discardChar_db (m : Mach) (inp : Str) : DB m (discardChar m inp).1 := by
  unfold discardChar; split
  · exact (rfl : DB m (m.setReconsume false))
  · exact DB.refl m

theorem emitErr_db (m : Mach) (s : String) : DB m (emitErr m s) := emitErr_discardBom m s

theorem nameErr_db (o : Opts) (m : Mach) (nb : Str) : DB m (nameErr o m nb) := by
  unfold nameErr DB; split <;> simp

theorem finishNumeric_db (o : Opts) (x m' : Mach) (cr : CharRefSt) (r : Except String Char)
    (h : finishNumeric o x cr = (m', r)) : DB x m' := by
  unfold finishNumeric numericErr at h
  dsimp only at h
  simp only [Prod.mk.injEq] at h
  obtain ⟨h1, _⟩ := h
  subst h1
  unfold DB
  split
  · split <;> simp
  · rfl

theorem namedDecision_db (m : Mach) (cr : CharRefSt) (nb : Str) (c1 c2 : Nat) (m1 : Mach) (chars : Str)
    (h : namedDecision m cr nb c1 c2 = .ok (some (m1, chars))) : DB m m1 := by
  unfold namedDecision at h
  dsimp only at h
  repeat' split at h
  all_goals
    first
      | (simp at h; done)
      | (simp only [Except.ok.injEq, Option.some.injEq, Prod.mk.injEq] at h
         obtain ⟨h1, _⟩ := h
         subst h1
         unfold DB
         simp)

theorem db_ite (c : Prop) [Decidable c] (a b m : Mach) (ha : DB m a) (hb : DB m b) :
    DB m (if c then a else b) := by
  split <;> assumption

theorem crStep_db (o : Opts) (m m1 : Mach) (inp i1 : Str) (cr cr1 : CharRefSt) (st : CRStatus)
    (h : crStep o m inp cr = .ok (m1, i1, cr1, st)) : DB m m1 := by
  unfold crStep unconsumeNumeric finishNumericStatus finishNamed at h
  dsimp only at h
  repeat' split at h
  all_goals
    first
      | (simp at h; done)
      | (simp only [Except.ok.injEq, Prod.mk.injEq] at h
         obtain ⟨h1, _⟩ := h
         subst h1
         first
           | exact DB.refl _
           | exact discardChar_db _ _
           | exact emitErr_db _ _
           | exact DB.trans (discardChar_db _ _) (emitErr_db _ _)
           | exact DB.trans (discardChar_db _ _) (nameErr_db _ _ _)
           | exact nameErr_db _ _ _
           | exact DB.trans (discardChar_db _ _) (finishNumeric_db _ _ _ _ _ (by assumption))
           | exact DB.trans (emitErr_db _ _) (finishNumeric_db _ _ _ _ _ (by assumption))
           | exact finishNumeric_db _ _ _ _ _ (by assumption)
           | exact DB.trans (discardChar_db _ _) (namedDecision_db _ _ _ _ _ _ _ (by assumption))
           | exact namedDecision_db _ _ _ _ _ _ _ (by assumption)
           | (apply db_ite <;> first | exact DB.refl _ | exact discardChar_db _ _ | exact nameErr_db _ _ _ | exact DB.trans (discardChar_db _ _) (nameErr_db _ _ _)))

theorem processCharRef_db (m : Mach) (chars : Str) : DB m (processCharRef m chars).1 := by
  have h1 : ∀ (cs : Str) (x : Mach), DB m x → DB m (cs.foldl emitChar x) := by
    intro cs; induction cs with
    | nil => intro x hx; exact hx
    | cons c cs ih =>
      intro x hx; simp only [List.foldl_cons]
      exact ih _ (DB.trans hx (emitChar_discardBom x c))
  have h2 : ∀ (cs : Str) (x : Mach), DB m x → DB m (cs.foldl (fun m c => pushValue c m) x) := by
    intro cs; induction cs with
    | nil => intro x hx; exact hx
    | cons c cs ih =>
      intro x hx; simp only [List.foldl_cons]
      exact ih _ (DB.trans hx (pushValue_discardBom x c))
  unfold processCharRef
  dsimp only
  split
  · exact h1 _ m (DB.refl m)
  · exact h1 _ m (DB.refl m)
  · exact h2 _ m (DB.refl m)
  · exact DB.refl m

theorem transChar_db (o : Opts) (pol : Pol) (m : Mach) (c : Char) : DB m (transChar o pol m c).1 :=
  transChar_discardBom o pol m c

theorem transSet_db (o : Opts) (pol : Pol) (m : Mach) (r : SetRes) : DB m (transSet o pol m r).1 :=
  transSet_discardBom o pol m r

theorem stepCharRef_db (o : Opts) (m : Mach) (inp : Str) (cr : CharRefSt) (m' : Mach)
    (h : (stepCharRef o m inp cr).mach? = some m') : DB m m' := by
  unfold stepCharRef at h
  cases hc : crStep o m inp cr with
  | error x => rw [hc] at h; simp [R.mach?] at h
  | ok v =>
    obtain ⟨m1, i1, cr1, st⟩ := v
    have he := crStep_db o m m1 inp i1 cr cr1 st hc
    rw [hc] at h
    cases st with
    | stuck =>
      simp only [R.mach?, Option.some.injEq] at h
      subst h
      exact DB.trans he (setCharRef_discardBom m1 _)
    | progress =>
      simp only [R.mach?, Option.some.injEq] at h
      subst h
      exact DB.trans he (setCharRef_discardBom m1 _)
    | done chars =>
      have := ofSig_mach _ _ _ h
      subst this
      exact DB.trans (DB.trans he (processCharRef_db m1 chars)) (setCharRef_discardBom _ _)

theorem stepBav_db (o : Opts) (pol : Pol) (m : Mach) (inp : Str) (m' : Mach)
    (h : (stepBav o pol m inp).mach? = some m') : DB m m' := by
  unfold stepBav at h
  cases hpk : peek m inp with
  | none =>
    rw [hpk] at h
    simp only [R.mach?, Option.some.injEq] at h
    subst h; exact DB.refl m
  | some c =>
    rw [hpk] at h
    dsimp only at h
    have hma : DB m (if m.ignoreLf = true then m.setIgnoreLf false else m) := by
      split
      · exact (rfl : DB m (m.setIgnoreLf false))
      · exact DB.refl m
    generalize (if m.ignoreLf = true then m.setIgnoreLf false else m) = ma at h hma
    have hd : DB m (discardChar ma inp).1 := hma.trans (discardChar_db ma inp)
    split at h
    · simp only [R.mach?, Option.some.injEq] at h
      subst h; exact hd
    · split at h
      · have hg := getChar_db o ma inp
        cases hgc : getChar o ma inp with
        | mk oc r =>
          obtain ⟨m2, i2⟩ := r
          rw [hgc] at h hg
          cases oc <;>
            (simp only [R.mach?, Option.some.injEq] at h
             subst h; exact hma.trans hg)
      · repeat' split at h
        all_goals
          first
          | (simp only [R.mach?, Option.some.injEq] at h
             subst h
             first | exact hd | exact hd.trans (to_discardBom _ _) | exact hma.trans (to_discardBom _ _))
          | (have hx := ofSig_mach _ _ _ h
             subst hx
             exact hd.trans (show DB _ _ from (emitTag_discardBom pol _ _).trans (badChar_discardBom _ o)))

theorem eatSkipLf_db (m : Mach) (inp : Str) : DB m (eatSkipLf m inp).1 := by
  unfold eatSkipLf discardChar
  repeat' split
  all_goals rfl

theorem eat_db (m m1 : Mach) (inp i1 pat : Str) (eq : Char → Char → Bool) (b : Option Bool)
    (h : eat m inp pat eq = (b, m1, i1)) : DB m m1 := by
  rw [eat_eq_core] at h
  have hs := eatSkipLf_db m inp
  unfold eatCore at h
  repeat' split at h
  all_goals
    (simp only [Prod.mk.injEq] at h
     obtain ⟨_, h2, _⟩ := h
     subst h2
     exact hs)

theorem DB.to {m x : Mach} (h : DB m x) (s : State) : DB m (to s x) := h
theorem DB.clearComment {m x : Mach} (h : DB m x) : DB m (clearComment x) := h
theorem DB.clearTemp {m x : Mach} (h : DB m x) : DB m (clearTemp x) := h
theorem DB.badChar {m x : Mach} (h : DB m x) (o : Opts) : DB m (badChar o x) :=
  h.trans (badChar_discardBom x o)

theorem stepMdo_db (o : Opts) (pol : Pol) (m : Mach) (inp : Str) (m' : Mach)
    (h : (stepMdo o pol m inp).mach? = some m') : DB m m' := by
  unfold stepMdo at h
  cases h1 : eat m inp kwDashDash eqExact with
  | mk b1 r1 =>
    obtain ⟨m1, i1⟩ := r1
    have e1 := eat_db m m1 inp i1 _ _ b1 h1
    rw [h1] at h
    cases b1 with
    | none =>
      simp only [R.mach?, Option.some.injEq] at h
      subst h; exact e1
    | some b1 =>
      cases b1 with
      | true =>
        simp only [R.mach?, Option.some.injEq] at h
        subst h; exact (e1.clearComment).to _
      | false =>
        simp only at h
        cases h2 : eat m1 i1 kwDoctype eqCi with
        | mk b2 r2 =>
          obtain ⟨m2, i2⟩ := r2
          have e2 := e1.trans (eat_db m1 m2 i1 i2 _ _ b2 h2)
          rw [h2] at h
          cases b2 with
          | none =>
            simp only [R.mach?, Option.some.injEq] at h
            subst h; exact e2
          | some b2 =>
            cases b2 with
            | true =>
              simp only [R.mach?, Option.some.injEq] at h
              subst h; exact e2.to _
            | false =>
              simp only at h
              split at h
              · cases h3 : eat m2 i2 kwCdata eqExact with
                | mk b3 r3 =>
                  obtain ⟨m3, i3⟩ := r3
                  have e3 := e2.trans (eat_db m2 m3 i2 i3 _ _ b3 h3)
                  rw [h3] at h
                  cases b3 with
                  | none =>
                    simp only [R.mach?, Option.some.injEq] at h
                    subst h; exact e3
                  | some b3 =>
                    cases b3 <;>
                      (simp only [R.mach?, Option.some.injEq] at h
                       subst h
                       first
                       | exact (e3.clearTemp).to _
                       | exact ((e3.badChar o).clearComment).to _)
              · simp only [R.mach?, Option.some.injEq] at h
                subst h
                exact ((e2.badChar o).clearComment).to _

theorem stepAdn_db (o : Opts) (pol : Pol) (m : Mach) (inp : Str) (m' : Mach)
    (h : (stepAdn o pol m inp).mach? = some m') : DB m m' := by
  unfold stepAdn at h
  cases h1 : eat m inp kwPublic eqCi with
  | mk b1 r1 =>
    obtain ⟨m1, i1⟩ := r1
    have e1 := eat_db m m1 inp i1 _ _ b1 h1
    rw [h1] at h
    cases b1 with
    | none =>
      simp only [R.mach?, Option.some.injEq] at h
      subst h; exact e1
    | some b1 =>
      cases b1 with
      | true =>
        simp only [R.mach?, Option.some.injEq] at h
        subst h; exact e1.to _
      | false =>
        simp only at h
        cases h2 : eat m1 i1 kwSystem eqCi with
        | mk b2 r2 =>
          obtain ⟨m2, i2⟩ := r2
          have e2 := e1.trans (eat_db m1 m2 i1 i2 _ _ b2 h2)
          rw [h2] at h
          cases b2 with
          | none =>
            simp only [R.mach?, Option.some.injEq] at h
            subst h; exact e2
          | some b2 =>
            cases b2 with
            | true =>
              simp only [R.mach?, Option.some.injEq] at h
              subst h; exact e2.to _
            | false =>
              simp only at h
              have hg := getChar_db o m2 i2
              cases hgc : getChar o m2 i2 with
              | mk oc r =>
                obtain ⟨m3, i3⟩ := r
                rw [hgc] at h hg
                cases oc with
                | none =>
                  simp only [R.mach?, Option.some.injEq] at h
                  subst h; exact e2.trans hg
                | some c =>
                  have hx := ofSig_mach _ _ _ h
                  subst hx
                  exact (e2.trans hg).trans (transChar_db o pol m3 c)

/-- **a step never touches the BOM flag** (only `feedBom` does) -/
theorem step_discardBom (o : Opts) (pol : Pol) (m : Mach) (inp : Str) (m' : Mach)
    (h : (step o pol m inp).mach? = some m') : m'.discardBom = m.discardBom := by
  show DB m m'
  cases hcr : m.charRef with
  | some cr =>
    rw [step_kind_charRef o pol m inp cr hcr] at h
    exact stepCharRef_db o m inp cr m' h
  | none =>
    cases hrk : readKind m.state with
    | getChar =>
      rw [step_getChar o pol m inp hcr hrk] at h
      have hg := getChar_db o m inp
      cases hgc : getChar o m inp with
      | mk oc r =>
        obtain ⟨m1, i1⟩ := r
        rw [hgc] at h hg
        cases oc with
        | none =>
          simp only [contChar, R.mach?, Option.some.injEq] at h
          subst h; exact hg
        | some c =>
          simp only [contChar] at h
          have hx := ofSig_mach _ _ _ h
          subst hx
          exact hg.trans (transChar_db o pol m1 c)
    | popExcept =>
      rw [step_popExcept o pol m inp hcr hrk] at h
      have hg := popExceptFrom_db o (setOf m.state) m inp
      cases hgc : popExceptFrom o (setOf m.state) m inp with
      | mk oc r =>
        obtain ⟨m1, i1⟩ := r
        rw [hgc] at h hg
        cases oc with
        | none =>
          simp only [contSet, R.mach?, Option.some.injEq] at h
          subst h; exact hg
        | some sr =>
          simp only [contSet] at h
          have hx := ofSig_mach _ _ _ h
          subst hx
          exact hg.trans (transSet_db o pol m1 sr)
    | dataSimd =>
      rw [step_dataSimd o pol m inp hcr hrk] at h
      have hg := readData_db o m inp
      cases hgc : readData o m inp with
      | mk oc r =>
        obtain ⟨m1, i1⟩ := r
        rw [hgc] at h hg
        cases oc with
        | none =>
          simp only [contSet, R.mach?, Option.some.injEq] at h
          subst h; exact hg
        | some sr =>
          simp only [contSet] at h
          have hx := ofSig_mach _ _ _ h
          subst hx
          exact hg.trans (transSet_db o pol m1 sr)
    | peekBav =>
      rw [step_kind_bav o pol m inp hcr hrk] at h
      exact stepBav_db o pol m inp m' h
    | eatMdo =>
      rw [step_kind_mdo o pol m inp hcr hrk] at h
      exact stepMdo_db o pol m inp m' h
    | eatAdn =>
      rw [step_kind_adn o pol m inp hcr hrk] at h
      exact stepAdn_db o pol m inp m' h

end H5V.Model.HtmlTok
