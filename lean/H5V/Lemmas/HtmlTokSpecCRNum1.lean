import H5V.Lemmas.HtmlTokSpecStepDefs
set_option linter.unusedSimpArgs false
set_option linter.unusedVariables false
/-!
# C01 simulation — layer L3a, character references (start and numeric), part 1: basics

* the reader under `InpRel` while a reference is in progress (`peek`, `discard_char`, newline normalisation);
* `crTok`: the registers of the specification that a character reference touches (state, temporary
  buffer, character reference code) in normal form; one lemma per specification step;
* delivering the result: `process_char_ref` (`delivM`) against "flush code points consumed as a
  character reference" (`crnum_flush_eq`), the relation afterwards (`crnum_deliver`, with lag).
-/
namespace H5V.Lemmas.HtmlTokSpec
open H5V.Model.HtmlTok
open H5V.Spec.HtmlTokenizer (St Tok Emit Tree Switch Ctl ReturnSt normalizeNewlinesFrom)

/-! ## reader -/

theorem crnum_peek {m : Mach} (inp : Str) (hr : m.reconsume = false) : peek m inp = inp.head? := by
  unfold peek; simp [hr]

theorem crnum_discard {m : Mach} (inp : Str) (hr : m.reconsume = false) : discardChar m inp = (m, inp.tail) := by
  unfold discardChar; simp [hr]

@[simp] theorem crnum_norm_nil (b : Bool) : normalizeNewlinesFrom b [] = [] := by
  simp [normalizeNewlinesFrom]

theorem crnum_norm_plain (c : Char) (s : Str) (h1 : c ≠ '\r') (h2 : c ≠ '\n') :
    normalizeNewlinesFrom false (c :: s) = c :: normalizeNewlinesFrom false s := by
  simp [normalizeNewlinesFrom, h1, h2]

/-- the first character the specification sees -/
theorem crnum_norm_head (c : Char) (s : Str) :
    ∃ r, normalizeNewlinesFrom false (c :: s) = foldCh c :: r := by
  unfold foldCh
  by_cases h1 : c = '\r'
  · exact ⟨normalizeNewlinesFrom true s, by simp [normalizeNewlinesFrom, h1]⟩
  · by_cases h2 : c = '\n'
    · exact ⟨normalizeNewlinesFrom false s, by simp [normalizeNewlinesFrom, h1, h2]⟩
    · exact ⟨normalizeNewlinesFrom false s, by simp [normalizeNewlinesFrom, h1, h2]⟩

theorem crnum_foldCh_plain {c : Char} (h1 : c ≠ '\r') : foldCh c = c := by
  unfold foldCh; simp [h1]

theorem crnum_norm_eq_nil {s : Str} (h : normalizeNewlinesFrom false s = []) : s = [] := by
  cases s with
  | nil => rfl
  | cons c s => obtain ⟨r, hr⟩ := crnum_norm_head c s; rw [hr] at h; simp at h

/-! ## the registers of the specification in normal form -/

/-- the registers a character reference touches -/
def crTok (t : Tok) (s : St) (b : Str) (n : Nat) : Tok :=
  { t with state := s, temporaryBuffer := b, characterReferenceCode := n }

theorem crTok_self (t : Tok) : crTok t t.state t.temporaryBuffer t.characterReferenceCode = t := rfl

@[simp] theorem crTok_crTok (t : Tok) (s s' : St) (b b' : Str) (n n' : Nat) :
    crTok (crTok t s b n) s' b' n' = crTok t s' b' n' := rfl
@[simp] theorem crTok_state (t : Tok) (s : St) (b : Str) (n : Nat) : (crTok t s b n).state = s := rfl
@[simp] theorem crTok_buf (t : Tok) (s : St) (b : Str) (n : Nat) : (crTok t s b n).temporaryBuffer = b := rfl
@[simp] theorem crTok_code (t : Tok) (s : St) (b : Str) (n : Nat) : (crTok t s b n).characterReferenceCode = n := rfl
@[simp] theorem crTok_returnState (t : Tok) (s : St) (b : Str) (n : Nat) :
    (crTok t s b n).returnState = t.returnState := rfl
@[simp] theorem crTok_attrs (t : Tok) (s : St) (b : Str) (n : Nat) : (crTok t s b n).attrs = t.attrs := rfl
@[simp] theorem crTok_out (t : Tok) (s : St) (b : Str) (n : Nat) : (crTok t s b n).out = t.out := rfl

theorem crnum_regRel_crTok {m : Mach} {t : Tok} (h : RegRel m t) (hu : usesTemp m.state = false)
    (s : St) (b : Str) (n : Nat) : RegRel m (crTok t s b n) := by
  unfold RegRel at h ⊢
  simp only [hu, Bool.false_eq_true, false_imp_iff, and_false, true_and] at h ⊢
  exact h

theorem crnum_outRel_crTok {m : Mach} {t : Tok} (h : OutRel m t) (s : St) (b : Str) (n : Nat) :
    OutRel m (crTok t s b n) := h

theorem crnum_usesTemp_ret {s : State} (h : isRet s = true) : usesTemp s = false := by
  cases s <;> simp_all [isRet, usesTemp]
  all_goals (rename_i k; cases k <;> simp_all [isRet, usesTemp])

/-! ## the context of a step inside a character reference -/

/-- what the relation gives while a character reference is in progress (without the sub-state) -/
structure CRCtx (m : Mach) (t : Tok) (cr : CharRefSt) : Prop where
  hcr : m.charRef = some cr
  std : Std m.state
  ret : isRet m.state = true
  rs : t.returnState.toSt = stOf m.state
  ia : cr.inAttr = isAttrValueState m.state
  reg : RegRel m t
  out : OutRel m t
  il : m.ignoreLf = false
  rcn : m.reconsume = false
  lines : CRLines cr
  tinv : TInv m

theorem crnum_ctx {m : Mach} {inp : Str} {t : Tok} {rest : Str} (h : RelCore m inp t rest) {cr : CharRefSt}
    (hcr : m.charRef = some cr) : CRCtx m t cr ∧ CRStD cr t rest cr.state ∧
      rest = normalizeNewlinesFrom false (cr.nameBuf.getD [] ++ inp) := by
  obtain ⟨c1, c2, c3, c4⟩ := h.crRel hcr
  obtain ⟨l1, l2, l3⟩ := h.tinv.linv.cr cr hcr
  refine ⟨⟨hcr, h.std, c1, c2, c3, h.reg, h.out, l1, l2, l3, h.tinv⟩, c4, ?_⟩
  have := h.inp
  unfold InpRel at this
  rw [rc_false l2, l1] at this
  simpa [stash, hcr] using this

theorem CRCtx.stash_none {m : Mach} {t : Tok} {cr : CharRefSt} (c : CRCtx m t cr) (m' : Mach)
    (h1 : m'.state = m.state) (h2 : m'.charRef = none) : stash m' = [] := by
  unfold stash
  rw [h2, h1]
  have := c.ret
  cases hs : m.state <;> simp_all [isRet]

/-- the input relation for a machine without a reference in progress in the same (return) state -/
theorem CRCtx.inpRel_none {m : Mach} {t : Tok} {cr : CharRefSt} (c : CRCtx m t cr) (m' : Mach) (inp : Str)
    (h1 : m'.state = m.state) (h2 : m'.charRef = none) (h3 : m'.reconsume = false) (h4 : m'.ignoreLf = false) :
    InpRel m' inp (normalizeNewlinesFrom false inp) := by
  unfold InpRel
  rw [rc_false h3, h4, c.stash_none m' h1 h2]
  rfl

/-- the input relation for a machine with a reference in progress -/
theorem crnum_inpRel_some (m' : Mach) (cr' : CharRefSt) (inp : Str)
    (h2 : m'.charRef = some cr') (h3 : m'.reconsume = false) (h4 : m'.ignoreLf = false) :
    InpRel m' inp (normalizeNewlinesFrom false (cr'.nameBuf.getD [] ++ inp)) := by
  unfold InpRel
  rw [rc_false h3, h4]
  simp [stash, h2]

/-- `Progress`: the new configuration, still inside the reference -/
theorem CRCtx.progress {m : Mach} {t : Tok} {cr : CharRefSt} (c : CRCtx m t cr) (cr' : CharRefSt) (inp' : Str)
    (s : St) (b : Str) (n : Nat) (rest' : Str)
    (hia : cr'.inAttr = cr.inAttr)
    (hst : CRStD cr' (crTok t s b n) rest' cr'.state) (hg : CRStG cr' cr'.state)
    (hi : rest' = normalizeNewlinesFrom false (cr'.nameBuf.getD [] ++ inp'))
    (ht : TInv (m.setCharRef (some cr'))) :
    Rel (m.setCharRef (some cr')) inp' (crTok t s b n) rest' := by
  apply RelCore.toRel
  refine RelCore.ofCR (cr := cr') (by simp) (by simpa using c.std) ?_ hg ?_ ?_ ?_ ht
  · refine ⟨by simpa using c.ret, by simpa using c.rs, by rw [hia]; simpa using c.ia, hst⟩
  · have := crnum_regRel_crTok c.reg (crnum_usesTemp_ret c.ret) s b n
    simpa [RegRel, AttrRel, Mach.setCharRef] using this
  · exact c.out
  · rw [hi]
    exact crnum_inpRel_some _ cr' inp' (by simp) (by simpa using c.rcn) (by simpa using c.il)

/-- the invariant after a step inside a character reference -/
theorem crnum_step_tinv (o : Opts) (pol : Pol) {m : Mach} (inp : Str) {cr : CharRefSt} (ht : TInv m)
    (hcr : m.charRef = some cr) (m' : Mach) (i' : Str)
    (h : (stepCharRef o m inp cr).pair? = some (m', i')) : TInv m' :=
  step_tinv o pol m inp ht m' i' (by rw [step_kind_charRef o pol m inp cr hcr]; exact h)

/-! ## delivering the result -/

/-- the model after `process_char_ref` delivered `cs` (not empty, no U+0000) -/
def delivM (m : Mach) (cs : Str) : Mach :=
  if isAttrValueState m.state then { m with attrValue := m.attrValue ++ cs }
  else { m with out := (cs.map fun c => (Token.chars [c], m.line)).reverse ++ m.out }

theorem crnum_foldl_emitChar (cs : Str) (m : Mach) (h : ∀ c ∈ cs, c ≠ '\x00') :
    cs.foldl emitChar m = { m with out := (cs.map fun c => (Token.chars [c], m.line)).reverse ++ m.out } := by
  induction cs generalizing m with
  | nil => rfl
  | cons c cs ih =>
    have hc : c ≠ '\x00' := h c (by simp)
    rw [List.foldl_cons, ih _ (fun x hx => h x (by simp [hx]))]
    simp [emitChar, hc, emit]

theorem crnum_foldl_pushValue (cs : Str) (m : Mach) :
    cs.foldl (fun m c => pushValue c m) m = { m with attrValue := m.attrValue ++ cs } := by
  induction cs generalizing m with
  | nil => simp
  | cons c cs ih =>
    rw [List.foldl_cons, ih]
    simp [pushValue]

theorem crnum_processCharRef {m : Mach} (hret : isRet m.state = true) (cs : Str) (hne : cs ≠ [])
    (h : ∀ c ∈ cs, c ≠ '\x00') : processCharRef m cs = (delivM m cs, .cont) := by
  have he : cs.isEmpty = false := by cases cs <;> simp_all
  unfold processCharRef delivM
  simp only [he, Bool.false_eq_true, if_false]
  cases hs : m.state <;> simp_all [isRet, isAttrValueState, crnum_foldl_emitChar, crnum_foldl_pushValue]
  rename_i k
  cases k <;> simp_all [isRet, isAttrValueState, crnum_foldl_emitChar, crnum_foldl_pushValue]

theorem crnum_processCharRef_nil {m : Mach} (hret : isRet m.state = true) :
    processCharRef m [] = (delivM m ['&'], .cont) := by
  have : processCharRef m [] = processCharRef m ['&'] := by
    unfold processCharRef; simp
  rw [this]
  exact crnum_processCharRef hret ['&'] (by simp) (by simp)

theorem crnum_flat_map (cs : Str) (l : Nat) (out : Out) :
    flat ((cs.map fun c => (Token.chars [c], l)).reverse ++ out) = (cs.map Emit.char).reverse ++ flat out := by
  induction cs generalizing out with
  | nil => simp
  | cons c cs ih =>
    simp only [List.map_cons, List.reverse_cons, List.append_assoc, List.singleton_append]
    rw [ih]
    simp

/-- appending characters to the current attribute's value, on the attribute list -/
def appL (cs : Str) (A : List Attr) : List Attr :=
  cs.foldl (fun A c => modLast (fun a => { a with value := a.value ++ [c] }) A) A

@[simp] theorem appL_nil (A : List Attr) : appL [] A = A := rfl
@[simp] theorem appL_cons (c : Char) (cs : Str) (A : List Attr) :
    appL (c :: cs) A = appL cs (modLast (fun a => { a with value := a.value ++ [c] }) A) := rfl

theorem crnum_foldl_appendValue (cs : Str) (t : Tok) :
    cs.foldl Tok.appendAttributeValue t = { t with attrs := appL cs t.attrs } := by
  induction cs generalizing t with
  | nil => rfl
  | cons c cs ih =>
    rw [List.foldl_cons, ih, appendAttributeValue_eq]
    rfl

/-- "flush code points consumed as a character reference" in closed form -/
theorem crnum_flush_eq (t : Tok) :
    t.flushCodePoints =
      if t.returnState.inAttribute then { t with attrs := appL t.temporaryBuffer t.attrs }
      else { t with out := (t.temporaryBuffer.map Emit.char).reverse ++ t.out } := by
  unfold Tok.flushCodePoints
  split
  · exact crnum_foldl_appendValue _ _
  · exact emitChars_eq t t.temporaryBuffer

theorem crnum_appL_ne_nil (cs : Str) (A : List Attr) (h : A ≠ []) : appL cs A ≠ [] := by
  induction cs generalizing A with
  | nil => exact h
  | cons c cs ih => exact ih _ (modLast_ne_nil _ _)

theorem crnum_attrR_appL {ta : List Attr} {hd : Bool} {an av : Str} {L : List Attr} (cs : Str)
    (h : AttrR ta hd an av L) (hne : L ≠ []) : AttrR ta hd an (av ++ cs) (appL cs L) := by
  induction cs generalizing av L with
  | nil => simpa using h
  | cons c cs ih =>
    have := ih (attrR_appendValue c h hne) (modLast_ne_nil _ _)
    simpa using this

theorem crnum_inAttr {m : Mach} {t : Tok} (hret : isRet m.state = true) (hrs : t.returnState.toSt = stOf m.state) :
    t.returnState.inAttribute = isAttrValueState m.state := by
  cases hs : m.state <;> simp_all [isRet]
  · cases hr : t.returnState <;> simp_all [ReturnSt.toSt, stOf, ReturnSt.inAttribute, isAttrValueState]
  · rename_i k
    cases k <;> simp_all [isRet]
    cases hr : t.returnState <;> simp_all [ReturnSt.toSt, stOf, ReturnSt.inAttribute, isAttrValueState]
  · rename_i k
    cases k <;> cases hr : t.returnState <;> simp_all [ReturnSt.toSt, stOf, ReturnSt.inAttribute, isAttrValueState]

/-- the specification's configuration after the flush: back in the return state -/
def finT (t : Tok) (b : Str) (n : Nat) : Tok :=
  (crTok t t.state b n).flushCodePoints.setState t.returnState.toSt

/-- **delivery**: the model hands `cs` to `process_char_ref` and will read `lag` again as plain text;
the specification flushes `cs ++ lag` -/
theorem crnum_deliver_regCore {m : Mach} {t : Tok} (hstd : Std m.state) (hret : isRet m.state = true)
    (hrs : t.returnState.toSt = stOf m.state) (hreg : RegRel m t) (hout : OutRel m t)
    (cs lag : Str) (n : Nat) :
    RegCore (absorb ((delivM m cs).setCharRef none) lag) (finT t (cs ++ lag) n) := by
  have hia := crnum_inAttr hret hrs
  have hut := crnum_usesTemp_ret hret
  unfold finT
  rw [crnum_flush_eq]
  simp only [crTok_returnState, crTok_buf, crTok_attrs, crTok_out, hia]
  unfold absorb delivM
  by_cases ha : isAttrValueState m.state = true
  · -- attribute value
    obtain ⟨k, hk⟩ : ∃ k, m.state = .attributeValue k := by
      cases hs : m.state <;> simp_all [isAttrValueState]
    have hreg' := hreg
    simp only [RegRel, AttrRel, hk, isTagSt, needsCur, usesTemp, usesComment, usesDoctype, Bool.false_eq_true,
      false_imp_iff, true_imp_iff, and_true, true_and, and_false, Bool.true_eq_false] at hreg'
    obtain ⟨r1, ⟨r2, r3, r4, r5⟩, r6, r7⟩ := hreg'
    have hA := crnum_attrR_appL (cs ++ lag) r5 r6
    have hne := crnum_appL_ne_nil (cs ++ lag) _ r6
    have ho : t.out = flat m.out := by simpa [OutRel, cdataBuf, isCdata, hk] using hout
    simp only [ha, if_true, Mach.setCharRef, Tok.setState, crTok]
    by_cases hl : lag = []
    · subst hl
      simp only [if_true, List.append_nil] at hA hne ⊢
      refine ⟨by simpa [hk] using hstd, Or.inl (by simpa [hk] using hrs), rfl, ?_, ?_⟩
      · simp only [RegRel, AttrRel, hk, isTagSt, needsCur, usesTemp, usesComment, usesDoctype, Bool.false_eq_true,
          false_imp_iff, true_imp_iff, and_true, true_and, and_false, Bool.true_eq_false]
        exact ⟨r1, ⟨r2, r3, r4, hA⟩, hne, r7⟩
      · simpa [OutRel, cdataBuf, isCdata, hk] using ho
    · simp only [hl, if_false, hk, isAttrValueState, if_true, appendValue]
      refine ⟨by simp [Std], Or.inl (by simpa [hk] using hrs), rfl, ?_, ?_⟩
      · simp only [RegRel, AttrRel, isTagSt, needsCur, usesTemp, usesComment, usesDoctype, Bool.false_eq_true,
          false_imp_iff, true_imp_iff, and_true, true_and, and_false, Bool.true_eq_false]
        refine ⟨r1, ⟨r2, r3, r4, ?_⟩, hne, r7⟩
        simpa [List.append_assoc] using hA
      · simpa [OutRel, cdataBuf, isCdata] using ho
  · -- data / RCDATA
    have ha' : isAttrValueState m.state = false := by simpa using ha
    have hcd : isCdata m.state = false := by cases hs : m.state <;> simp_all [isRet, isCdata]
    have htag : isTagSt m.state = false := by
      cases hs : m.state <;> simp_all [isRet, isTagSt, isAttrValueState]
    have hnc : needsCur m.state = false := by
      cases hs : m.state <;> simp_all [isRet, needsCur, isAttrValueState]
    have hbc : m.state ≠ .bogusComment := by
      intro hs; rw [hs] at hret; simp [isRet] at hret
    have ho : t.out = flat m.out := by simpa [OutRel, cdataBuf, hcd] using hout
    simp only [ha', Bool.false_eq_true, if_false, Mach.setCharRef, Tok.setState, crTok]
    by_cases hl : lag = []
    · subst hl
      simp only [if_true, List.append_nil]
      refine ⟨hstd, Or.inl hrs, rfl, ?_, ?_⟩
      · simpa [RegRel, AttrRel, htag, hnc, hut] using hreg
      · simp only [OutRel, cdataBuf, hcd, Bool.false_eq_true, if_false, List.reverse_nil, List.map_nil,
          List.nil_append, crnum_flat_map, ho]
    · simp only [hl, if_false, ha', Bool.false_eq_true, hbc, emitChars, emit]
      refine ⟨hstd, Or.inl hrs, rfl, ?_, ?_⟩
      · simpa [RegRel, AttrRel, htag, hnc, hut] using hreg
      · simp only [OutRel, cdataBuf, hcd, Bool.false_eq_true, if_false, List.reverse_nil, List.map_nil,
          List.nil_append, flat_cons, flatTok_chars, crnum_flat_map, ho, List.map_append, List.reverse_append,
          List.append_assoc]

/-! ### fields of `delivM` and `absorb` -/

@[simp] theorem delivM_state (m : Mach) (cs : Str) : (delivM m cs).state = m.state := by
  unfold delivM; split <;> rfl
@[simp] theorem delivM_charRef (m : Mach) (cs : Str) : (delivM m cs).charRef = m.charRef := by
  unfold delivM; split <;> rfl
@[simp] theorem delivM_reconsume (m : Mach) (cs : Str) : (delivM m cs).reconsume = m.reconsume := by
  unfold delivM; split <;> rfl
@[simp] theorem delivM_ignoreLf (m : Mach) (cs : Str) : (delivM m cs).ignoreLf = m.ignoreLf := by
  unfold delivM; split <;> rfl

theorem delivM_setCharRef (m : Mach) (cs : Str) (x : Option CharRefSt) :
    delivM (m.setCharRef x) cs = (delivM m cs).setCharRef x := by
  unfold delivM
  simp only [setCharRef_state]
  split <;> rfl

@[simp] theorem crnum_absorb_state (m : Mach) (lag : Str) : (absorb m lag).state = m.state := by
  unfold absorb; split; rfl; split; rfl; split <;> rfl
@[simp] theorem crnum_absorb_charRef (m : Mach) (lag : Str) : (absorb m lag).charRef = m.charRef := by
  unfold absorb; split; rfl; split; rfl; split <;> rfl
@[simp] theorem crnum_absorb_reconsume (m : Mach) (lag : Str) : (absorb m lag).reconsume = m.reconsume := by
  unfold absorb; split; rfl; split; rfl; split <;> rfl
@[simp] theorem crnum_absorb_ignoreLf (m : Mach) (lag : Str) : (absorb m lag).ignoreLf = m.ignoreLf := by
  unfold absorb; split; rfl; split; rfl; split <;> rfl

theorem crnum_isLagSt_ret {s : State} (h : isRet s = true) : isLagSt s = true := by
  cases s <;> simp_all [isRet, isLagSt]
  all_goals (rename_i k; cases k <;> simp_all [isRet, isLagSt])

/-- `Done`: the new configuration, outside the reference, possibly with a lag -/
theorem CRCtx.done {m : Mach} {t : Tok} {cr : CharRefSt} (c : CRCtx m t cr) (cs lag inp : Str) (n : Nat)
    (hlag : ∀ x ∈ lag, lagCh x = true) (ht : TInv ((delivM m cs).setCharRef none)) :
    Rel ((delivM m cs).setCharRef none) (lag ++ inp) (finT t (cs ++ lag) n) (normalizeNewlinesFrom false inp) := by
  refine ⟨lag, inp, rfl, Or.inr ⟨?_, by simp, by simpa using c.rcn, by simpa using c.il, hlag⟩, ?_⟩
  · simpa using crnum_isLagSt_ret c.ret
  · refine RelCore.ofRegCore (crnum_deliver_regCore c.std c.ret c.rs c.reg c.out cs lag n) ?_ (tinv_absorb ht lag)
    exact c.inpRel_none _ inp (by simp) (by simp) (by simpa using c.rcn) (by simpa using c.il)

/-! ### parse errors change nothing -/

/-- `m1` is `m` with parse errors emitted -/
def ErrOnly (m1 m : Mach) : Prop := ∃ out1, m1 = { m with out := out1 } ∧ flat out1 = flat m.out

theorem ErrOnly.refl (m : Mach) : ErrOnly m m := ⟨m.out, rfl, rfl⟩

theorem ErrOnly.emitErr (m : Mach) (s : String) : ErrOnly (emitErr m s) m :=
  ⟨_, rfl, by simp⟩

theorem ErrOnly.trans {m2 m1 m : Mach} (h2 : ErrOnly m2 m1) (h1 : ErrOnly m1 m) : ErrOnly m2 m := by
  obtain ⟨o2, e2, f2⟩ := h2
  obtain ⟨o1, e1, f1⟩ := h1
  subst e1
  exact ⟨o2, e2, by rw [f2]; exact f1⟩

theorem CRCtx.errOnly {m m1 : Mach} {t : Tok} {cr : CharRefSt} (c : CRCtx m t cr) (h : ErrOnly m1 m) :
    CRCtx m1 t cr := by
  obtain ⟨o1, e1, f1⟩ := h
  subst e1
  refine ⟨c.hcr, c.std, c.ret, c.rs, c.ia, ?_, ?_, c.il, c.rcn, c.lines, tinv_congr c.tinv rfl rfl rfl rfl rfl rfl⟩
  · simpa [RegRel, AttrRel] using c.reg
  · have := c.out
    simp only [OutRel, cdataBuf] at this ⊢
    rw [f1]; exact this

theorem crnum_finishNumeric_errOnly (o : Opts) (ho : o.exactErrors = false) (m : Mach) (cr : CharRefSt) :
    ErrOnly (finishNumeric o m cr).1 m := by
  unfold finishNumeric numericErr
  simp only [ho, Bool.false_eq_true, if_false]
  split
  · exact ErrOnly.emitErr m _
  · exact ErrOnly.refl m

end H5V.Lemmas.HtmlTokSpec
