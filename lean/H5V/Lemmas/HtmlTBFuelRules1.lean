import H5V.Lemmas.HtmlTBFuelIns
/-!
# The fuel of `process_to_completion`, part 7: `Reprocess` edges

`WJ m` — every successful run of `m` keeps "all stack entries are elements" and does not increase the
stack part of the measure (helpers that shrink the stack, insertions of elements that are not tables);
`ED f m' t` — every successful run of the arm `f` answers `Reprocess(m', t)` after such steps.
-/
namespace H5V.Lemmas.TBFuel
open H5V.Model.HtmlTB
open H5V.Model.HtmlTok (TagKind)
open H5V.Model.Dom (Id QualName Attr NodeOrText SinkOp Output ElementFlags QuirksMode Dom NodeData Node)
open H5V.Lemmas.TBSafe
open H5V.Lemmas.TBC (ok_bind ok_pure ok_getS_bind ok_modS_bind ok_ite ok_bind_pure)

/-- from a stack of elements: the stack part does not grow, the stack still consists of elements -/
def WA (s s' : State) : Prop := AllEl s.dom s.openElems → WLe s s' ∧ AllEl s'.dom s'.openElems

theorem WA.refl (s : State) : WA s s := fun h => ⟨WLe.refl s, h⟩

theorem WA.trans {a b c : State} (h1 : WA a b) (h2 : WA b c) : WA a c := fun h =>
  have := h1 h
  have h3 := h2 this.2
  ⟨this.1.trans h3.1, h3.2⟩

theorem Shr.wa {s s' : State} (h : Shr s s') : WA s s' := fun hel =>
  ⟨h.wle hel, fun x hx => (hel x (h.stack.subset hx)).ext h.ext⟩

theorem Pushed.wa {s s' : State} {r : Id} {ns name : Str} {pushIt : Bool} (h : Pushed s s' r ns name pushIt)
    (hn : (⟨ns, name⟩ : EName) ≠ tableName) : WA s s' := fun hel => by
  refine ⟨h.wle hel hn, ?_⟩
  rw [h.stack]
  cases pushIt with
  | false => exact fun x hx => (hel x hx).ext h.ext
  | true =>
    intro x hx
    simp only [if_true] at hx
    rcases List.mem_append.mp hx with hx | hx
    · exact (hel x hx).ext h.ext
    · rw [List.mem_singleton.mp hx]; exact h.el

def WJ {α : Type} (m : M α) : Prop := ∀ s a s', m s = .ok (a, s') → WA s s'

theorem wj_of_sh {α : Type} {m : M α} (h : SH m) : WJ m := fun s a s' hr => (h s a s' hr).wa

theorem wj_pure {α : Type} (a : α) : WJ (pure a : M α) := wj_of_sh (sh_pure a)

theorem wj_bind {α β : Type} {m : M α} {f : α → M β} (h1 : WJ m) (h2 : ∀ a, WJ (f a)) : WJ (m >>= f) := by
  intro s b s'' hr
  obtain ⟨a, s', hm, hf⟩ := ok_bind hr
  exact (h1 s a s' hm).trans (h2 a s' b s'' hf)

theorem wj_ite {α : Type} {c : Prop} [Decidable c] {a b : M α} (h1 : c → WJ a) (h2 : ¬c → WJ b) :
    WJ (if c then a else b) := by
  by_cases hc : c
  · rw [if_pos hc]; exact h1 hc
  · rw [if_neg hc]; exact h2 hc

theorem wj_getS_bind {β : Type} {f : State → M β} (h : ∀ s0, WJ (f s0)) : WJ (getS >>= f) := by
  intro s b s' hr
  exact h s s b s' (ok_getS_bind hr)

theorem wj_insertPhantom {name : String} (hn : (⟨nsHtml, name.toList⟩ : EName) ≠ tableName) :
    WJ (insertPhantom name) := fun _ _ _ hr => (ef_insertPhantom hr).wa hn

theorem wj_createRoot {attrs : List Attr} : WJ (createRoot attrs) := by
  intro s a s' hr
  intro hel
  refine ⟨wle_createRoot hel hr, ?_⟩
  obtain ⟨r, fr, ho, _, hr', _, _⟩ := sat_ok (al := anyAl) sat_createRoot hr
  rw [ho]
  intro x hx
  rcases List.mem_append.mp hx with hx | hx
  · exact (hel x hx).ext fr.ext
  · rw [List.mem_singleton.mp hx]; exact hr'

/-- an update of builder fields other than the stack, the arena and the template modes -/
theorem wj_modS_fields {f : State → State} (hd : ∀ s, (f s).dom = s.dom) (ho : ∀ s, (f s).openElems = s.openElems)
    (ht : ∀ s, (f s).templateModes = s.templateModes) : WJ (modS f) := by
  intro s a s' hr
  have : Except.ok ((), f s) = Except.ok (a, s') := hr
  cases this
  intro hel
  refine ⟨⟨by rw [hd, ho]; exact Nat.le_refl _, by rw [ht]; exact Nat.le_refl _⟩, ?_⟩
  rw [hd, ho]; exact hel

/-- leaves of the `WJ` walk (extensible) -/
syntax "wj_leaf" : tactic
macro_rules
  | `(tactic| wj_leaf) => `(tactic|
    first
      | exact wj_of_sh (by sh_leaf)
      | exact wj_insertPhantom (by decide)
      | exact wj_createRoot
      | exact wj_modS_fields (fun _ => rfl) (fun _ => rfl) (fun _ => rfl))

syntax "wj_step" : tactic
macro_rules
  | `(tactic| wj_step) => `(tactic|
    first
      | wj_leaf
      | with_reducible refine wj_getS_bind (fun _ => ?_)
      | with_reducible refine wj_bind ?_ (fun _ => ?_)
      | with_reducible refine wj_ite (fun _ => ?_) (fun _ => ?_)
      | dsimp only)

syntax "wj_walk" : tactic
macro_rules
  | `(tactic| wj_walk) => `(tactic| repeat' wj_step)

/-- the arm answers `Reprocess(m', t)` -/
def ED (f : M ProcessResult) (m' : Mode) (t : Token) : Prop :=
  ∀ s r s', f s = .ok (r, s') → r = .reprocess m' t ∧ WA s s'

theorem ed_pure (m' : Mode) (t : Token) : ED (pure (ProcessResult.reprocess m' t)) m' t := by
  intro s r s' hr
  obtain ⟨e1, e2⟩ := ok_pure hr
  rw [← e1, ← e2]; exact ⟨rfl, WA.refl _⟩

theorem ed_bind {α : Type} {pre : M α} {f : α → M ProcessResult} {m' : Mode} {t : Token} (h1 : WJ pre)
    (h2 : ∀ a, ED (f a) m' t) : ED (pre >>= f) m' t := by
  intro s r s'' hr
  obtain ⟨a, s', hm, hf⟩ := ok_bind hr
  obtain ⟨e, w⟩ := h2 a s' r s'' hf
  exact ⟨e, (h1 s a s' hm).trans w⟩

theorem ed_ite {c : Prop} [Decidable c] {a b : M ProcessResult} {m' : Mode} {t : Token}
    (h1 : c → ED a m' t) (h2 : ¬c → ED b m' t) : ED (if c then a else b) m' t := by
  by_cases hc : c
  · rw [if_pos hc]; exact h1 hc
  · rw [if_neg hc]; exact h2 hc

theorem ed_getS_bind {f : State → M ProcessResult} {m' : Mode} {t : Token} (h : ∀ s0, ED (f s0) m' t) :
    ED (getS >>= f) m' t := by
  intro s r s' hr
  exact h s s r s' (ok_getS_bind hr)

syntax "ed_step" : tactic
macro_rules
  | `(tactic| ed_step) => `(tactic|
    first
      | with_reducible exact ed_pure _ _
      | with_reducible apply ed_getS_bind
      | with_reducible apply ed_ite
      | ((with_reducible apply ed_bind); focus (wj_walk; done))
      | with_reducible intro _
      | dsimp only)

/-- closes `ED f m' t` for arms `helpers…; Reprocess(m', t)` -/
syntax "ed_walk" : tactic
macro_rules
  | `(tactic| ed_walk) => `(tactic| repeat' ed_step)

/-- **a `Reprocess` edge** whose helpers do not increase the stack part and whose rank decreases -/
theorem dj_of_ed {f : M ProcessResult} {m m' : Mode} {tok t : Token} (h : ED f m' t) (hm : m' ≠ .inTemplate)
    (hr : rank m' (cls tok) < rank m (cls tok)) : DJ f m tok := by
  intro s r s' ht _ hrun
  obtain ⟨e, w⟩ := h s r s' hrun
  rw [e]
  exact dec_of_rank (w ht.h.open_el).1 (Or.inl hm) hr

/-- an edge: `ED` by the walker, then the rank -/
syntax "dj_edge_tac" : tactic
macro_rules
  | `(tactic| dj_edge_tac) => `(tactic|
    (apply dj_of_ed
     case h => ed_walk
     case hm => decide
     case hr => rank_tac))

/-- a quiet arm -/
syntax "dj_quiet" : tactic
macro_rules
  | `(tactic| dj_quiet) => `(tactic| exact dj_of_ro (by ro_walk))

end H5V.Lemmas.TBFuel
