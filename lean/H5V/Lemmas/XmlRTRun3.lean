import H5V.Lemmas.XmlRTRun2
/-!
C17, tokenizer half, part 7: a comment, a processing instruction, a doctype — each from the data
state back to the data state, with the token delivered.
-/
namespace H5V.Lemmas.XmlRT
open H5V.Model.XmlTok

/-! ### comment -/

theorem comment_run (o : Opts) (ho : o.exactErrors = false) (m : Mach) (s : Str) (rest : Str)
    (h : Ctl m .data) (hn : Clean m) (hs : CommentLex s) :
    ∃ m', Reach o m ('<' :: '!' :: '-' :: '-' :: (s ++ '-' :: '-' :: '>' :: rest)) m' rest ∧ Ctl m' .data ∧ Clean m' ∧
      cvOut m'.out = cvOut m.out ++ [.comment s] := by
  obtain ⟨m1, e1, c1, n1, o1⟩ := data_lt o ho m _ h hn
  obtain ⟨m2, e2, c2, n2, o2⟩ := tag_bang o ho m1 _ c1 n1
  obtain ⟨m3, e3, c3, n3, k3, o3⟩ := md_comment o m2 (s ++ '-' :: '-' :: '>' :: rest) c2 n2
  obtain ⟨m4, e4, c4, n4, o4⟩ := comment_body o ho m3 s rest c3 n3 k3 hs
  exact ⟨m4, Reach.cons e1 (Reach.cons e2 (Reach.cons e3 e4)), c4, n4, by rw [o4, o3, o2, o1]⟩

/-! ### processing instruction -/

/-- a PI the tokenizer reads back unchanged from `<?target data?>`: non-empty target without blanks
and (after its first character) without `?`; data without `?` that does not start with a blank -/
def PiLex (t d : Str) : Prop :=
  (∃ c t', t = c :: t' ∧ PlainCh c ∧ NoWs3 c ∧ ∀ x ∈ t', PlainCh x ∧ NoWs3 x ∧ x ≠ '?') ∧
  (∀ x ∈ d, PlainCh x ∧ x ≠ '?') ∧ (∀ x, d.head? = some x → NoWs3 x)

theorem piTarget_run (o : Opts) (ho : o.exactErrors = false) (d : Str) (rest : Str) :
    ∀ (u t : Str) (m : Mach), (∀ x ∈ u, PlainCh x ∧ NoWs3 x ∧ x ≠ '?') → Ctl m .piTarget → Clean m → PiRegs m t d →
      ∃ m', Reach o m (u ++ rest) m' rest ∧ Ctl m' .piTarget ∧ Clean m' ∧ PiRegs m' (t ++ u) d ∧ m'.out = m.out := by
  intro u
  induction u with
  | nil => intro t m _ h hn hr; exact ⟨m, Reach.refl _ _, h, hn, by simpa using hr, rfl⟩
  | cons c u ih =>
    intro t m hs h hn hr
    obtain ⟨p1, p2, p3⟩ := hs c (by simp)
    obtain ⟨m1, e1, c1, n1, r1, o1⟩ := piTarget_push o ho m c (u ++ rest) t d h hn hr p1 p2 p3
    obtain ⟨m2, e2, c2, n2, r2, o2⟩ := ih (t ++ [c]) m1 (fun x hx => hs x (by simp [hx])) c1 n1 r1
    exact ⟨m2, Reach.cons e1 e2, c2, n2, by simpa using r2, by rw [o2, o1]⟩

theorem piData_run (o : Opts) (ho : o.exactErrors = false) (t : Str) (rest : Str) :
    ∀ (u d : Str) (m : Mach), (∀ x ∈ u, PlainCh x ∧ x ≠ '?') → Ctl m .piData → Clean m → PiRegs m t d →
      ∃ m', Reach o m (u ++ rest) m' rest ∧ Ctl m' .piData ∧ Clean m' ∧ PiRegs m' t (d ++ u) ∧ m'.out = m.out := by
  intro u
  induction u with
  | nil => intro d m _ h hn hr; exact ⟨m, Reach.refl _ _, h, hn, by simpa using hr, rfl⟩
  | cons c u ih =>
    intro d m hs h hn hr
    obtain ⟨p1, p3⟩ := hs c (by simp)
    obtain ⟨m1, e1, c1, n1, r1, o1⟩ := piData_push o ho m c (u ++ rest) t d h hn hr p1 p3
    obtain ⟨m2, e2, c2, n2, r2, o2⟩ := ih (d ++ [c]) m1 (fun x hx => hs x (by simp [hx])) c1 n1 r1
    exact ⟨m2, Reach.cons e1 e2, c2, n2, by simpa using r2, by rw [o2, o1]⟩

theorem pi_run (o : Opts) (ho : o.exactErrors = false) (m : Mach) (t d : Str) (rest : Str)
    (h : Ctl m .data) (hn : Clean m) (hl : PiLex t d) :
    ∃ m', Reach o m ('<' :: '?' :: (t ++ ' ' :: (d ++ '?' :: '>' :: rest))) m' rest ∧ Ctl m' .data ∧ Clean m' ∧
      cvOut m'.out = cvOut m.out ++ [.pi t d] := by
  obtain ⟨⟨c0, t', rfl, p1, p2, p3⟩, hd, hd0⟩ := hl
  obtain ⟨m1, e1, c1, n1, o1⟩ := data_lt o ho m _ h hn
  obtain ⟨m2, e2, c2, n2, o2⟩ := tag_q o ho m1 _ c1 n1
  obtain ⟨m3, e3, c3, n3, r3, o3⟩ := pi_first o ho m2 c0 (t' ++ ' ' :: (d ++ '?' :: '>' :: rest)) c2 n2 p1 p2
  obtain ⟨m4, e4, c4, n4, r4, o4⟩ := piTarget_run o ho [] (' ' :: (d ++ '?' :: '>' :: rest)) t' [c0] m3 p3 c3 n3 r3
  obtain ⟨m5, e5, c5, n5, r5, o5⟩ := piTarget_sp o ho m4 (d ++ '?' :: '>' :: rest) _ _ c4 n4 r4
  have pre : Reach o m ('<' :: '?' :: (c0 :: t' ++ ' ' :: (d ++ '?' :: '>' :: rest))) m5 (d ++ '?' :: '>' :: rest) :=
    Reach.cons e1 (Reach.cons e2 (Reach.cons (by simpa using e3) (Reach.trans e4 (Reach.one e5))))
  have oo : m5.out = m.out := by rw [o5, o4, o3, o2, o1]
  cases d with
  | nil =>
    obtain ⟨m6, e6, n6, o6, h6⟩ := piTargetAfter_char o ho m5 '?' ('>' :: rest) _ _ c5 n5 r5
      ⟨by decide, by decide⟩ ⟨by decide, by decide, by decide⟩
    rcases h6 with ⟨_, c6, r6⟩ | ⟨hne, _⟩
    · obtain ⟨m7, e7, c7, n7, o7⟩ := piAfter_gt o ho m6 rest _ _ c6 n6 r6
      refine ⟨m7, Reach.trans pre (Reach.trans e6 (Reach.one e7)), c7, n7, ?_⟩
      rw [o7, cvOut_cons, o6, oo]; rfl
    · exact absurd rfl hne
  | cons x d' =>
    obtain ⟨q1, q3⟩ := hd x (by simp)
    have q2 := hd0 x rfl
    obtain ⟨m6, e6, n6, o6, h6⟩ := piTargetAfter_char o ho m5 x (d' ++ '?' :: '>' :: rest) _ _ c5 n5 r5 q1 q2
    rcases h6 with ⟨he, _⟩ | ⟨_, c6, r6⟩
    · exact absurd he q3
    · obtain ⟨m7, e7, c7, n7, r7, o7⟩ := piData_run o ho _ ('?' :: '>' :: rest) d' _ m6
        (fun y hy => hd y (by simp [hy])) c6 n6 r6
      obtain ⟨m8, e8, c8, n8, r8, o8⟩ := piData_q o ho m7 ('>' :: rest) _ _ c7 n7 r7
      obtain ⟨m9, e9, c9, n9, o9⟩ := piAfter_gt o ho m8 rest _ _ c8 n8 r8
      refine ⟨m9, Reach.trans pre (Reach.trans (by simpa using e6) (Reach.trans e7 (Reach.cons e8 (Reach.one e9)))),
        c9, n9, ?_⟩
      rw [o9, cvOut_cons, o8, o7, o6, oo]; rfl

/-! ### doctype -/

theorem dn_run (o : Opts) (ho : o.exactErrors = false) (rest : Str) :
    ∀ (u n : Str) (m : Mach), (∀ x ∈ u, DtCh x) → Ctl m .doctypeName → m.attrName = [] → m.attrValue = [] →
      m.doctype = { name := some n } →
      ∃ m', Reach o m (u ++ rest) m' rest ∧ Ctl m' .doctypeName ∧ m'.attrName = [] ∧ m'.attrValue = [] ∧
        m'.doctype = { name := some (n ++ u) } ∧ m'.out = m.out := by
  intro u
  induction u with
  | nil => intro n m _ h a1 a2 a3; exact ⟨m, Reach.refl _ _, h, a1, a2, by simpa using a3, rfl⟩
  | cons c u ih =>
    intro n m hs h a1 a2 a3
    obtain ⟨m1, e1, c1, b1, b2, b3, o1⟩ := dn_push o ho m c (u ++ rest) n h a1 a2 a3 (hs c (by simp))
    obtain ⟨m2, e2, c2, d1, d2, d3, o2⟩ := ih (n ++ [c]) m1 (fun x hx => hs x (by simp [hx])) c1 b1 b2 b3
    exact ⟨m2, Reach.cons e1 e2, c2, d1, d2, by simpa using d3, by rw [o2, o1]⟩

theorem doctype_run (o : Opts) (ho : o.exactErrors = false) (m : Mach) (n : Str) (rest : Str)
    (h : Ctl m .data) (hn : Clean m) (hl : ∀ x ∈ n, DtCh x) :
    ∃ m', Reach o m ('<' :: '!' :: 'D' :: 'O' :: 'C' :: 'T' :: 'Y' :: 'P' :: 'E' :: ' ' :: (n ++ '>' :: rest)) m' rest ∧
      Ctl m' .data ∧ Clean m' ∧
      cvOut m'.out = cvOut m.out ++ [.doctype (if n = [] then none else some n) none none] := by
  obtain ⟨m1, e1, c1, n1, o1⟩ := data_lt o ho m _ h hn
  obtain ⟨m2, e2, c2, n2, o2⟩ := tag_bang o ho m1 _ c1 n1
  obtain ⟨m3, e3, c3, n3, o3⟩ := md_doctype o m2 (' ' :: (n ++ '>' :: rest)) c2 n2
  obtain ⟨m4, e4, c4, n4, o4⟩ := doctype_sp o ho m3 (n ++ '>' :: rest) c3 n3
  have pre := Reach.cons e1 (Reach.cons e2 (Reach.cons e3 (Reach.one e4)))
  have oo : m4.out = m.out := by rw [o4, o3, o2, o1]
  cases n with
  | nil =>
    obtain ⟨m5, e5, c5, n5, o5⟩ := bdn_gt o ho m4 rest c4 n4
    exact ⟨m5, Reach.trans pre (Reach.one e5), c5, n5, by rw [o5, oo]; rfl⟩
  | cons x n' =>
    obtain ⟨m5, e5, c5, a1, a2, a3, o5⟩ := bdn_first o ho m4 x (n' ++ '>' :: rest) c4 n4 (hl x (by simp))
    obtain ⟨m6, e6, c6, b1, b2, b3, o6⟩ := dn_run o ho ('>' :: rest) n' [x] m5 (fun y hy => hl y (by simp [hy])) c5 a1 a2 a3
    obtain ⟨m7, e7, c7, n7, o7⟩ := dn_gt o ho m6 rest _ c6 b1 b2 b3
    refine ⟨m7, Reach.trans pre (Reach.cons (by simpa using e5) (Reach.trans e6 (Reach.one e7))), c7, n7, ?_⟩
    rw [o7, cvOut_cons, o6, o5, oo]; simp [cvTok]

end H5V.Lemmas.XmlRT
