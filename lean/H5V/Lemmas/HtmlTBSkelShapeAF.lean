import H5V.Lemmas.HtmlTBSkelShapeIns
/-!
C06, second invariant layer, part 9: the list of active formatting elements (entries are HTML
formatting elements, hence disposable and not special), `process_end_tag_in_body`, removal of a
disposable element from the middle of the stack, reconstruction of the formatting elements.
-/
namespace H5V.Props.C06
open H5V.Model.Dom hiding Str
open H5V.Model.HtmlTB hiding Str
open H5V.Lemmas.Dom

theorem keepName_fmt {n : Str} (h : isOneOf n fmtNames = true) : keepName ⟨nsHtml, n⟩ = false := by
  unfold isOneOf at h
  simp only [List.any_eq_true, beq_iff_eq] at h
  obtain ⟨a, ha, rfl⟩ := h
  revert a; decide

theorem special_of_keepName {n : EName} (h : keepName n = true) : specialTag n = true := by
  rcases keepName_cases h with hc | hc
  · obtain ⟨a, ha, rfl⟩ := htmlIn_eq hc
    revert a; decide
  · obtain ⟨a, ha, rfl⟩ := htmlIn_eq hc
    revert a; decide

theorem special_fmt {n : Str} (h : isOneOf n fmtNames = true) : specialTag ⟨nsHtml, n⟩ = false := by
  unfold isOneOf at h
  simp only [List.any_eq_true, beq_iff_eq] at h
  obtain ⟨a, ha, rfl⟩ := h
  revert a; decide

/-- "any other end tag" for a disposable tag name -/
instance (tag : Tag) [hk : PlainStr tag.name] : PB (processEndTagInBody tag) :=
  PB.of_pops fun s a s' e => by
    obtain ⟨popped, p, hp⟩ := processEndTagInBody_sem e
    refine ⟨popped, p, fun x hx => ?_⟩
    rcases hp x hx with h | h | h
    · cases hkn : keepName (nm s.dom x) with
      | false => rfl
      | true => rw [special_of_keepName hkn] at h; cases h
    · have : nm s.dom x = ⟨nsHtml, tag.name⟩ := by
        unfold isHS at h
        simp only [Bool.and_eq_true, beq_iff_eq] at h
        cases hn : nm s.dom x; simp_all
      rw [this]; exact hk.h
    · exact keepName_cursory h

/-! ### removing a disposable element from the middle of the stack -/

theorem TG.erase {name : Id → EName} {pre post : List Id} {x : Id} (h : TG name (pre ++ x :: post))
    (hx : keepName (name x) = false) : TG name (pre ++ post) := by
  intro pre' a b post' hs
  -- where does the pair (a, b) sit?
  rcases List.append_eq_append_iff.mp hs with ⟨c, hc1, hc2⟩ | ⟨c, hc1, hc2⟩
  · -- pre' = pre ++ c, post = c ++ a :: b :: post'
    exact h (pre ++ x :: c) a b post' (by rw [hc2]; simp)
  · -- pre = pre' ++ c, a :: b :: post' = c ++ post
    cases c with
    | nil =>
      simp only [List.nil_append, List.append_nil] at hc1 hc2
      exact h (pre ++ [x]) a b post' (by rw [← hc2]; simp)
    | cons a' c' =>
      simp only [List.cons_append, List.cons.injEq] at hc2
      obtain ⟨rfl, hc2⟩ := hc2
      cases c' with
      | nil =>
        simp only [List.nil_append] at hc2
        -- a is the last of pre, b the first of post: the pair created by the removal
        have hxa := h pre' a x post (by rw [hc1]; simp)
        have hbx := h (pre' ++ [a]) x b post' (by rw [hc1, ← hc2])
        cases hcb : constrained (name b) with
        | false => exact predOk_of_not_constrained hcb
        | true => rw [constrained_pred hcb hbx] at hx; cases hx
      | cons b' c'' =>
        simp only [List.cons_append, List.cons.injEq] at hc2
        obtain ⟨rfl, hc2⟩ := hc2
        exact h pre' a b (c'' ++ x :: post) (by rw [hc1]; simp)

theorem eraseIdx_split {l : List Id} {pos : Nat} {x : Id} (h : l[pos]? = some x) :
    ∃ pre post, l = pre ++ x :: post ∧ pre.length = pos ∧ l.eraseIdx pos = pre ++ post := by
  induction l generalizing pos with
  | nil => simp at h
  | cons a t ih =>
    cases pos with
    | zero => simp at h; subst h; exact ⟨[], t, rfl, rfl, rfl⟩
    | succ n =>
      simp only [List.getElem?_cons_succ] at h
      obtain ⟨pre, post, h1, h2, h3⟩ := ih h
      exact ⟨a :: pre, post, by rw [h1]; rfl, by simp [h2], by simp [h3]⟩

/-- the stack loses one disposable element that is not the root -/
theorem Big.erase {m : Mode} {r : Id} {ph : Phase} {s s' : State} {x : Id} {pos : Nat} (h : Big m r ph s)
    (hse : SE s s') (hget : s.openElems[pos]? = some x) (hst : s'.openElems = s.openElems.eraseIdx pos)
    (hx : keepName (nm s.dom x) = false) : Big m r ph s' := by
  obtain ⟨up, hc, hbb, hneed, hfp⟩ := h
  obtain ⟨pre, post, hsplit, hlen, herase⟩ := eraseIdx_split hget
  have hr := hse.rest
  have hk : ∀ y, s'.dom.childrenOf y = s.dom.childrenOf y := childrenOf_of_nodes hse.nodes
  have hnm : ∀ y, nm s'.dom y = nm s.dom y := nm_of_nodes hse.nodes
  have hel : ∀ y, s'.dom.isElement y = s.dom.isElement y := isElement_of_nodes hse.nodes
  have hdata : ∀ y, s'.dom.dataOf y = s.dom.dataOf y := fun y => by unfold Dom.dataOf; rw [hse.nodes]
  -- x is not the root
  have hpre : ∃ pre', pre = r :: pre' := by
    cases pre with
    | nil =>
      rw [hc.stack] at hsplit
      simp only [List.nil_append, List.cons.injEq] at hsplit
      rw [← hsplit.1, hc.root_name, keepName_html] at hx; cases hx
    | cons a t =>
      rw [hc.stack] at hsplit
      simp only [List.cons_append, List.cons.injEq] at hsplit
      exact ⟨t, by rw [hsplit.1]⟩
  obtain ⟨pre', rfl⟩ := hpre
  have hup : up = pre' ++ x :: post := by
    rw [hc.stack] at hsplit
    simp only [List.cons_append, List.cons.injEq, true_and] at hsplit
    exact hsplit
  have hst' : s'.openElems = r :: (pre' ++ post) := by rw [hst, herase]; rfl
  have hsub : ∀ y, y ∈ pre' ++ post → y ∈ up := by
    intro y hy; rw [hup]
    rcases List.mem_append.mp hy with h1 | h1
    · exact List.mem_append_left _ h1
    · exact List.mem_append_right _ (List.mem_cons_of_mem _ h1)
  have hkeep : ∀ y ∈ up, keepName (nm s.dom y) = true → y ∈ pre' ++ post := by
    intro y hy hky
    rw [hup] at hy
    rcases List.mem_append.mp hy with h1 | h1
    · exact List.mem_append_left _ h1
    · simp only [List.mem_cons] at h1
      rcases h1 with rfl | h1
      · rw [hx] at hky; cases hky
      · exact List.mem_append_right _ h1
  have hsubl : (r :: (pre' ++ post)).Sublist s.openElems := by
    rw [hsplit]
    exact List.Sublist.cons₂ _ (List.Sublist.append (List.Sublist.refl _) (List.sublist_cons_self _ _))
  have hlate : Late s' := by
    refine hc.late.qrel ⟨SameSk.of_nodes hse.nodes, by rw [hst']; exact hsubl, ?_, ?_, ?_, ?_, ?_, ?_, ?_, ?_⟩ ⟨?_, ?_, ?_⟩
    · rw [hr]
    · rw [hr]
    · rw [hr]
    · rw [hr]
    · rw [hr]
    · intro a t ha; rw [hr] at ha; exact ha
    · left; rw [hr]
    · intro ha; rw [hr] at ha; exact ha
    · rw [hr]; exact hc.late.ml.mode
    · rw [hr]; exact hc.late.ml.orig
    · rw [hr]; exact hc.late.ml.tm
  have hcore : Core s' r (pre' ++ post) ph := by
    refine ⟨hlate, hst', by rw [hk]; exact hc.rdoc, ?_, ?_, ?_, ?_, ?_, ?_, (RS.of_nodes hse.nodes).uniq hc.rtu,
      by rw [hk]; exact hc.rnd, ?_, ?_, ?_, (Afx.of_elems hc.elems hbb.notPf).of_nodes hse.nodes,
      by rw [hst']; exact (hc.adj.of_nodes hse.nodes).sub hc.nodup hsubl⟩
    · rw [hst']; exact hsubl.nodup hc.nodup
    · rw [hst']
      have := hc.tg
      rw [hsplit] at this
      exact (this.erase hx).congr (fun y _ => hnm y)
    · intro a t ha
      rw [hr] at ha
      obtain ⟨h1, h2, h3⟩ := hc.afn a t ha
      exact ⟨h1, by rw [hnm]; exact h2, by rw [hel]; exact h3⟩
    · have h1 : s'.templateModes = s.templateModes := by rw [hr]
      rw [h1, hst']
      refine Nat.le_trans ?_ hc.tc
      unfold tcount
      have : (fun y => nm s'.dom y == hN "template") = (fun y => nm s.dom y == hN "template") := by
        funext y; rw [hnm]
      rw [this]
      exact List.Sublist.countP_le hsubl
    · intro md hm; rw [hr] at hm; exact hc.tmm md hm
    · intro f hf
      rw [hr] at hf
      obtain ⟨h1, h2⟩ := hc.form f hf
      exact ⟨by rw [hnm]; exact h1, by rw [hel]; exact h2⟩
    · intro c hcm
      rw [hk] at hcm
      rcases hc.kids c hcm with h1 | ⟨t, h1⟩ | ⟨t, h1, h2⟩
      · exact Or.inl (by rw [hel]; exact h1)
      · exact Or.inr (Or.inl ⟨t, by rw [hdata]; exact h1⟩)
      · exact Or.inr (Or.inr ⟨t, by rw [hdata]; exact h1, h2⟩)
    · have hhead : s'.headElem = s.headElem := by rw [hr]
      rw [hhead]
      exact hc.elems.congr hc.late.base (SameSk.of_nodes hse.nodes).chg (hk r)
    · intro y hy
      rw [hnm]
      refine hc.bh y ?_
      -- the tail of the erased list is a sublist of the old tail
      have : (pre' ++ post).Sublist up := by
        rw [hup]; exact List.Sublist.append (List.Sublist.refl _) (List.sublist_cons_self _ _)
      exact this.tail.subset hy
  have hhead : s'.headElem = s.headElem := by rw [hr]
  have hfl : s'.fosterParenting = s.fosterParenting := by rw [hr]
  refine ⟨pre' ++ post, hcore, ?_, ?_, ?_⟩
  · rw [hhead]
    -- the anchors are kept
    have hbb' : BodyBase s.dom s.headElem (pre' ++ post) ph := by
      rcases hbb with ⟨b, u, h1, h2, h3⟩ | ⟨hh, t, u, h0, h1, h2, h3⟩ | ⟨t, u, h1, h2, h3, h4⟩
      · have hbn : nm s.dom b = hN "body" := by
          subst h2; obtain ⟨_, _, _, _, hb⟩ := hc.elems; exact hb
        -- b is the head of up, and it is not x
        cases pre' with
        | nil =>
          rw [h1] at hup; simp only [List.nil_append, List.cons.injEq] at hup
          rw [← hup.1, hbn, keepName_body] at hx; cases hx
        | cons a t =>
          rw [h1] at hup; simp only [List.cons_append, List.cons.injEq] at hup
          refine Or.inl ⟨a, t ++ post, rfl, by rw [← hup.1]; exact h2, fun y hy hm => h3 y hy (hsub y hm)⟩
      · have hhn : nm s.dom hh = hN "head" := by
          subst h3; obtain ⟨h', e1, _, e3⟩ := hc.elems; rw [h0] at e1; cases e1; exact e3
        cases pre' with
        | nil =>
          rw [h1] at hup; simp only [List.nil_append, List.cons.injEq] at hup
          rw [← hup.1, hhn, keepName_head] at hx; cases hx
        | cons a t' =>
          rw [h1] at hup; simp only [List.cons_append, List.cons.injEq] at hup
          cases t' with
          | nil =>
            simp only [List.nil_append, List.cons.injEq] at hup
            rw [← hup.2.1, h2, keepName_template] at hx; cases hx
          | cons a2 t2 =>
            simp only [List.cons_append, List.cons.injEq] at hup
            exact Or.inr (Or.inl ⟨hh, t, t2 ++ post, h0, by rw [hup.1, hup.2.1]; rfl, h2, h3⟩)
      · cases pre' with
        | nil =>
          rw [h1] at hup; simp only [List.nil_append, List.cons.injEq] at hup
          rw [← hup.1, h2, keepName_template] at hx; cases hx
        | cons a t' =>
          rw [h1] at hup; simp only [List.cons_append, List.cons.injEq] at hup
          exact Or.inr (Or.inr ⟨t, t' ++ post, by rw [hup.1]; rfl, h2, h3, fun y hy hm => h4 y hy (hsub y hm)⟩)
    exact hbb'.congr (fun y _ => hnm y)
  · cases m <;> try trivial
    all_goals
      obtain ⟨y, hy, hh⟩ := hneed
      exact ⟨y, hkeep y hy (keepName_of_htmlIn hh (by decide)), by rw [hnm]; exact hh⟩
  · intro hf
    rw [hfl] at hf
    obtain ⟨y, hy, hh⟩ := hfp hf
    exact ⟨y, hkeep y hy (keepName_of_htmlIn hh (by decide)), by rw [hnm]; exact hh⟩


/-! ### updates of state fields outside the arena and the stack -/

def AFok (d : Dom) (af : List FormatEntry) : Prop :=
  ∀ h t, FormatEntry.element h t ∈ af →
    isOneOf t.name fmtNames = true ∧ nm d h = ⟨nsHtml, t.name⟩ ∧ d.isElement h = true

theorem Big.afok {m : Mode} {r : Id} {ph : Phase} {s : State} (h : Big m r ph s) : AFok s.dom s.activeFormatting := by
  obtain ⟨_, hc, _⟩ := h; exact hc.afn

theorem Big.upd {m : Mode} {r : Id} {ph : Phase} {s s' : State} (h : Big m r ph s)
    (h1 : s'.dom = s.dom) (h2 : s'.openElems = s.openElems) (h3 : s'.headElem = s.headElem)
    (h4 : s'.docHandle = s.docHandle) (h5 : s'.contextElem = s.contextElem)
    (h6 : s'.pendingTableText = s.pendingTableText) (h7 : s'.mode = s.mode) (h8 : s'.origMode = s.origMode)
    (h9 : s'.templateModes = s.templateModes)
    (haf : AFok s.dom s'.activeFormatting)
    (hform : ∀ f, s'.formElem = some f → nm s.dom f = hN "form" ∧ s.dom.isElement f = true)
    (hfp : s'.fosterParenting = true → s.fosterParenting = true) : Big m r ph s' := by
  obtain ⟨up, hc, hbb, hneed, hfpo⟩ := h
  have hl : Late s' := hc.late.free h1 h2 h3 h4 h5 h6 h7 h8 h9
  refine ⟨up, ⟨hl, by rw [h2]; exact hc.stack, by rw [h1]; exact hc.rdoc, by rw [h2]; exact hc.nodup,
    by rw [h1, h2]; exact hc.tg, by rw [h1]; exact haf, by rw [h1, h2, h9]; exact hc.tc, by rw [h9]; exact hc.tmm,
    by rw [h1]; exact hform, by rw [h1]; exact hc.rtu, by rw [h1]; exact hc.rnd, by rw [h1]; exact hc.kids,
    by rw [h1, h3]; exact hc.elems, by rw [h1]; exact hc.bh, by rw [h1]; exact Afx.of_elems hc.elems hbb.notPf,
    by rw [h1, h2]; exact hc.adj⟩,
    by rw [h1, h3]; exact hbb, by rw [h1]; exact hneed, ?_⟩
  intro hf
  rw [h1]
  exact hfpo ⟨hfp hf.1, hf.2⟩

theorem AFok.eraseIdx {d : Dom} {af : List FormatEntry} (h : AFok d af) (i : Nat) : AFok d (af.eraseIdx i) :=
  fun x t hx => h x t ((List.eraseIdx_sublist af i).subset hx)

theorem AFok.set {d : Dom} {af : List FormatEntry} (h : AFok d af) (i : Nat) {x : Id} {t : Tag}
    (ht : isOneOf t.name fmtNames = true) (hn : nm d x = ⟨nsHtml, t.name⟩) (he : d.isElement x = true) :
    AFok d (af.set i (.element x t)) := by
  intro y t' hy
  rcases List.mem_or_eq_of_mem_set hy with h1 | h1
  · exact h y t' h1
  · cases h1; exact ⟨ht, hn, he⟩

theorem AFok.snoc {d : Dom} {af : List FormatEntry} (h : AFok d af) {x : Id} {t : Tag}
    (ht : isOneOf t.name fmtNames = true) (hn : nm d x = ⟨nsHtml, t.name⟩) (he : d.isElement x = true) :
    AFok d (af ++ [.element x t]) := by
  intro y t' hy
  rcases List.mem_append.mp hy with h1 | h1
  · exact h y t' h1
  · simp only [List.mem_singleton] at h1
    cases h1; exact ⟨ht, hn, he⟩

theorem mem_insertIdx_or {α : Type} : ∀ (l : List α) (i : Nat) (a b : α), a ∈ l.insertIdx i b → a = b ∨ a ∈ l
  | l, 0, a, b, h => by simpa using h
  | [], i + 1, a, b, h => by simp at h
  | x :: t, i + 1, a, b, h => by
    simp only [List.insertIdx_succ_cons, List.mem_cons] at h
    rcases h with h | h
    · exact Or.inr (by simp [h])
    · rcases mem_insertIdx_or t i a b h with h | h
      · exact Or.inl h
      · exact Or.inr (List.mem_cons_of_mem _ h)

theorem AFok.insertIdx {d : Dom} {af : List FormatEntry} (h : AFok d af) (i : Nat) {x : Id} {t : Tag}
    (ht : isOneOf t.name fmtNames = true) (hn : nm d x = ⟨nsHtml, t.name⟩) (he : d.isElement x = true) :
    AFok d (af.insertIdx i (.element x t)) := by
  intro y t' hy
  rcases mem_insertIdx_or _ _ _ _ hy with h1 | h1
  · cases h1; exact ⟨ht, hn, he⟩
  · exact h y t' h1

theorem AFok.sub {d : Dom} {af af' : List FormatEntry} (h : AFok d af) (hs : ∀ e ∈ af', e ∈ af) : AFok d af' :=
  fun x t hx => h x t (hs _ hx)

theorem AFok.marker {d : Dom} {af : List FormatEntry} (h : AFok d af) : AFok d (af ++ [.marker]) := by
  intro y t' hy
  rcases List.mem_append.mp hy with h1 | h1
  · exact h y t' h1
  · simp at h1

/-- `setAF` with a good list -/
theorem setAF_big {m : Mode} {r : Id} {ph : Phase} {s s' : State} {af : List FormatEntry} {u : Unit}
    (h : Big m r ph s) (haf : AFok s.dom af) (e : setAF af s = .ok (u, s')) :
    Big m r ph s' ∧ s' = { s with activeFormatting := af } := by
  unfold setAF at e
  obtain ⟨_, rfl⟩ := modS_ok.mp e
  exact ⟨h.upd rfl rfl rfl rfl rfl rfl rfl rfl rfl haf (by obtain ⟨_, hc, _⟩ := h; exact hc.form) (fun hf => hf), rfl⟩

instance (i : Nat) (site : String) : PB (afRemove i site) :=
  ⟨fun m r ph s a s' hb e => by
    unfold afRemove at e
    rw [getS_bind] at e
    by_cases hi : i < s.activeFormatting.length
    · rw [if_pos hi] at e
      obtain ⟨hb', rfl⟩ := setAF_big hb (hb.afok.eraseIdx i) e
      exact ⟨hb', rfl, rfl⟩
    · rw [if_neg hi] at e
      exact absurd e throw_ok⟩

theorem mem_clearToMarkerRev : ∀ (l : List FormatEntry) (e : FormatEntry), e ∈ clearToMarkerRev l → e ∈ l
  | [], _, h => by simp [clearToMarkerRev] at h
  | .marker :: rest, e, h => by
    simp only [clearToMarkerRev] at h; exact List.mem_cons_of_mem _ h
  | .element _ _ :: rest, e, h => by
    simp only [clearToMarkerRev] at h; exact List.mem_cons_of_mem _ (mem_clearToMarkerRev rest e h)

instance : PB clearActiveFormattingToMarker :=
  ⟨fun m r ph s a s' hb e => by
    unfold clearActiveFormattingToMarker at e
    obtain ⟨_, rfl⟩ := modS_ok.mp e
    refine ⟨hb.upd rfl rfl rfl rfl rfl rfl rfl rfl rfl (hb.afok.sub ?_) (by obtain ⟨_, hc, _⟩ := hb; exact hc.form)
      (fun hf => hf), rfl, rfl⟩
    intro x hx
    have := mem_clearToMarkerRev _ _ (List.mem_reverse.mp hx)
    exact List.mem_reverse.mp this⟩

instance : PB pushMarker :=
  ⟨fun m r ph s a s' hb e => by
    unfold pushMarker at e
    obtain ⟨_, rfl⟩ := modS_ok.mp e
    exact ⟨hb.upd rfl rfl rfl rfl rfl rfl rfl rfl rfl hb.afok.marker (by obtain ⟨_, hc, _⟩ := hb; exact hc.form)
      (fun hf => hf), rfl, rfl⟩⟩

instance (b : Bool) : PB (setFramesetOk b) :=
  ⟨fun m r ph s a s' hb e => by
    unfold setFramesetOk at e
    obtain ⟨_, rfl⟩ := modS_ok.mp e
    exact ⟨hb.upd rfl rfl rfl rfl rfl rfl rfl rfl rfl hb.afok (by obtain ⟨_, hc, _⟩ := hb; exact hc.form)
      (fun hf => hf), rfl, rfl⟩⟩

/-! ### `remove_from_stack` of a disposable element -/

theorem removeFromStack_big {m : Mode} {r : Id} {ph : Phase} {s s' : State} {x : Id} {u : Unit}
    (h : Big m r ph s) (hx : keepName (nm s.dom x) = false) (e : removeFromStack x s = .ok (u, s')) :
    Big m r ph s' ∧ s'.mode = s.mode ∧ s'.origMode = s.origMode := by
  obtain ⟨hse, hcase⟩ := removeFromStack_sem e
  have hm : s'.mode = s.mode := by rw [hse.rest]
  have ho : s'.origMode = s.origMode := by rw [hse.rest]
  refine ⟨?_, hm, ho⟩
  rcases hcase with ⟨h1, _⟩ | ⟨pos, hget, _, hst⟩
  · -- nothing removed: a pure query
    have hq : QS s s' := ⟨hse.nodes, by rw [hse.rest, h1]⟩
    exact h.qs hq
  · exact h.erase hse hget hst hx

/-! ### reconstruction of the active formatting elements -/

instance : PB (isMarkerOrOpen e) := by
  cases e <;> unfold isMarkerOrOpen <;> infer_instance


theorem reconstructRewind_pb : ∀ i, PB (reconstructRewind i)
  | 0 => by unfold reconstructRewind; infer_instance
  | i + 1 => by
    unfold reconstructRewind
    with_reducible apply PB.bind inferInstance
    intro s
    cases s.activeFormatting[i]? with
    | none => exact PB.throw _
    | some e =>
      have := reconstructRewind_pb i
      show PB (isMarkerOrOpen e >>= fun b => if b = true then pure (i + 1) else reconstructRewind i)
      infer_instance
instance (i : Nat) : PB (reconstructRewind i) := reconstructRewind_pb i

theorem reconstructCreate_pb : ∀ fuel i, PB (reconstructCreate fuel i)
  | 0, _ => by unfold reconstructCreate; infer_instance
  | fuel + 1, i => ⟨fun m r ph s a s' hb e => by
    unfold reconstructCreate at e
    rw [getS_bind] at e
    cases hget : s.activeFormatting[i]? with
    | none =>
      rw [hget] at e
      dsimp only at e
      obtain ⟨_, _, h1, _⟩ := bind_ok.mp e
      exact absurd h1 throw_ok
    | some ent =>
      rw [hget] at e
      cases ent with
      | marker =>
        dsimp only at e
        obtain ⟨_, _, h1, _⟩ := bind_ok.mp e
        exact absurd h1 throw_ok
      | element x0 tag =>
        dsimp only at e
        simp only [pure_bind] at e
        obtain ⟨el, s1, e1, e2⟩ := bind_ok.mp e
        have hmem : FormatEntry.element x0 tag ∈ s.activeFormatting := List.mem_of_getElem? hget
        obtain ⟨hfn, _, _⟩ := hb.afok x0 tag hmem
        obtain ⟨hb1, hm1, ho1, hn1, he1, _, _, haf1, _⟩ := insertElement_big hb (keepName_fmt hfn) e1
        rw [getS_bind] at e2
        rcases ite_run e2 with ⟨hi, e2⟩ | ⟨hi, e2⟩
        · obtain ⟨u, s2, e3, e4⟩ := bind_ok.mp e2
          obtain ⟨hb2, hs2⟩ := setAF_big hb1 (hb1.afok.set i hfn hn1 he1) e3
          have hm2 : s2.mode = s1.mode := by rw [hs2]
          have ho2 : s2.origMode = s1.origMode := by rw [hs2]
          rw [getS_bind] at e4
          by_cases h0 : (s2.activeFormatting.length == 0) = true
          · rw [if_pos h0] at e4; exact absurd e4 throw_ok
          · rw [if_neg h0] at e4
            by_cases hlast : (i == s2.activeFormatting.length - 1) = true
            · rw [if_pos hlast] at e4
              obtain ⟨_, rfl⟩ := pure_ok.mp e4
              exact ⟨hb2, hm2.trans hm1, ho2.trans ho1⟩
            · rw [if_neg hlast] at e4
              obtain ⟨hb3, hm3, ho3⟩ := (reconstructCreate_pb fuel (i + 1)).p m r ph s2 a s' hb2 e4
              exact ⟨hb3, hm3.trans (hm2.trans hm1), ho3.trans (ho2.trans ho1)⟩
        · obtain ⟨_, _, h1, _⟩ := bind_ok.mp e2
          exact absurd h1 throw_ok⟩
instance (fuel i : Nat) : PB (reconstructCreate fuel i) := reconstructCreate_pb fuel i

instance : PB reconstructActiveFormattingElements := by
  unfold reconstructActiveFormattingElements
  with_reducible apply PB.bind inferInstance
  intro s
  dsimp only
  cases s.activeFormatting.getLast? with
  | none => exact PB.pure _
  | some last =>
    dsimp only
    infer_instance

/-- the tag is one of the formatting elements -/
class FmtTag (tag : Tag) : Prop where
  h : isOneOf tag.name fmtNames = true

theorem cfe_tail {m : Mode} {r : Id} {ph : Phase} {s s' : State} {tag : Tag} {el : Id}
    (hb : Big m r ph s) (hf : isOneOf tag.name fmtNames = true)
    (e : (insertElement true nsHtml tag.name tag.attrs tag.hadDup >>= fun elem =>
      (modS fun s => { s with activeFormatting := s.activeFormatting ++ [.element elem tag] }) >>= fun _ => pure elem) s
        = .ok (el, s')) :
    Big m r ph s' ∧ s'.mode = s.mode ∧ s'.origMode = s.origMode := by
  obtain ⟨el', s2, e3, e4⟩ := bind_ok.mp e
  obtain ⟨hb2, hm2, ho2, hn2, he2, _, _, _, _⟩ := insertElement_big hb (keepName_fmt hf) e3
  obtain ⟨u', s3, e5, e6⟩ := bind_ok.mp e4
  obtain ⟨_, rfl⟩ := modS_ok.mp e5
  obtain ⟨rfl, rfl⟩ := pure_ok.mp e6
  exact ⟨hb2.upd rfl rfl rfl rfl rfl rfl rfl rfl rfl (hb2.afok.snoc hf hn2 he2)
    (by obtain ⟨_, hc, _⟩ := hb2; exact hc.form) (fun h => h), hm2, ho2⟩

theorem createFormattingElementFor_big {m : Mode} {r : Id} {ph : Phase} {s s' : State} {tag : Tag} {el : Id}
    (hb : Big m r ph s) (hf : isOneOf tag.name fmtNames = true) (e : createFormattingElementFor tag s = .ok (el, s')) :
    Big m r ph s' ∧ s'.mode = s.mode ∧ s'.origMode = s.origMode := by
  unfold createFormattingElementFor at e
  rw [getS_bind] at e
  dsimp only at e
  generalize List.filter _ (afEndToMarker s.activeFormatting) = ms at e
  rcases ite_run e with ⟨_, e⟩ | ⟨_, e⟩
  · cases hl : ms.getLast? with
    | none =>
      rw [hl] at e; dsimp only at e
      obtain ⟨_, _, h1, _⟩ := bind_ok.mp e
      exact absurd h1 throw_ok
    | some x =>
      obtain ⟨i, x1, x2⟩ := x
      rw [hl] at e; dsimp only at e
      obtain ⟨u, s1, e1, e2⟩ := bind_ok.mp e
      obtain ⟨hb1, hm1, ho1⟩ := (inferInstance : PB (afRemove i "mod.rs:1530")).p m r ph s u s1 hb e1
      obtain ⟨hb2, hm2, ho2⟩ := cfe_tail hb1 hf e2
      exact ⟨hb2, hm2.trans hm1, ho2.trans ho1⟩
  · exact cfe_tail hb hf e

instance (tag : Tag) [h : FmtTag tag] : PB (createFormattingElementFor tag) :=
  ⟨fun _ _ _ _ _ _ hb e => createFormattingElementFor_big hb h.h e⟩

end H5V.Props.C06
