import H5V.Lemmas.HtmlTBSkelAA
/-!
C06 (skeleton invariant), part 7: every rule of `tree_builder/rules.rs` from "before head" on
preserves `Late` and answers acceptably (`PresR`), one lemma per insertion mode.
-/
namespace H5V.Props.C06
open H5V.Model.Dom hiding Str
open H5V.Model.HtmlTB hiding Str
open H5V.Lemmas.Dom


/-! ### continuing after reset-the-insertion-mode -/

theorem Pres.resetBind {β : Type} {f : Mode → M β} (h : ∀ m, LateMode m → Pres (f m)) :
    Pres (resetInsertionMode >>= f) := by
  constructor
  intro s b s'' hl e
  obtain ⟨a, s', e1, e2⟩ := bind_ok.mp e
  obtain ⟨q1, m1⟩ := (inferInstance : Quiet resetInsertionMode).q s a s' hl.ml e1
  have hlate := lateRet_resetInsertionMode.h s a s' hl.ml e1
  obtain ⟨l2, x2⟩ := (h a ⟨hlate⟩).p s' b s'' (hl.qrel q1 m1) e2
  exact ⟨l2, q1.sk.ext.trans x2⟩

theorem PresR.resetBind {f : Mode → M ProcessResult} (h : ∀ m, LateMode m → PresR (f m)) :
    PresR (resetInsertionMode >>= f) := by
  constructor
  intro s b s'' hl e
  obtain ⟨a, s', e1, e2⟩ := bind_ok.mp e
  obtain ⟨q1, m1⟩ := (inferInstance : Quiet resetInsertionMode).q s a s' hl.ml e1
  have hlate := lateRet_resetInsertionMode.h s a s' hl.ml e1
  obtain ⟨⟨l2, x2⟩, r⟩ := (h a ⟨hlate⟩).p s' b s'' (hl.qrel q1 m1) e2
  exact ⟨⟨l2, q1.sk.ext.trans x2⟩, r⟩

instance (priority := high) {β : Type} (f : Mode → M β) [h : ∀ m, [LateMode m] → Pres (f m)] :
    Pres (resetInsertionMode >>= f) := Pres.resetBind (fun m hm => @h m hm)
instance (priority := high) (f : Mode → M ProcessResult) [h : ∀ m, [LateMode m] → PresR (f m)] :
    PresR (resetInsertionMode >>= f) := PresR.resetBind (fun m hm => @h m hm)

macro_rules
  | `(tactic| tb_step) => `(tactic| first | with_reducible apply Pres.resetBind | with_reducible apply PresR.resetBind)

/-! ### small pieces of rules.rs -/

instance (content : Str) : Quiet (extractEncoding content) := by unfold extractEncoding; tb_walk
instance (tag : Tag) : Quiet (inBodyHtml tag) := by unfold inBodyHtml; tb_walk
instance (tag : Tag) : PresR (inBodyHtml tag) := by unfold inBodyHtml; tb_walk
instance (tag : Tag) : Quiet (shouldAttachDeclarativeShadow tag) := by unfold shouldAttachDeclarativeShadow; tb_walk
instance (tag : Tag) : PresR (inBodyVoid tag) := by unfold inBodyVoid; tb_walk

theorem quiet_listCloseSearch (list : Bool) : ∀ (l : List Id), Quiet (listCloseSearch list l)
  | [] => by unfold listCloseSearch; tb_walk
  | e :: rest => by
    haveI := quiet_listCloseSearch list rest
    unfold listCloseSearch; tb_walk
instance (list : Bool) (l : List Id) : Quiet (listCloseSearch list l) := quiet_listCloseSearch list l

theorem quiet_findOption : ∀ (l : List Id), Quiet (findOption l)
  | [] => by unfold findOption; tb_walk
  | e :: rest => by
    haveI := quiet_findOption rest
    unfold findOption; tb_walk
instance (l : List Id) : Quiet (findOption l) := quiet_findOption l

theorem quiet_anySameNode (x : Id) : ∀ (l : List Id), Quiet (anySameNode x l)
  | [] => by unfold anySameNode; tb_walk
  | e :: rest => by
    haveI := quiet_anySameNode x rest
    unfold anySameNode; tb_walk
instance (x : Id) (l : List Id) : Quiet (anySameNode x l) := quiet_anySameNode x l

instance (site : String) : Quiet (contextIsSelect site) := by unfold contextIsSelect; tb_walk
instance (site : String) : Quiet (popTr site) := by unfold popTr; tb_walk

instance : Quiet (modS fun s => { s with templateModes := s.templateModes.dropLast }) :=
  quiet_modS fun s hml =>
    ⟨⟨SameSk.refl _, List.Sublist.refl _, rfl, rfl, rfl, rfl, rfl, fun _ _ h => h, Or.inl rfl, fun h => h⟩,
     ⟨hml.mode, hml.orig, fun m hm => hml.tm m ((List.dropLast_sublist _).subset hm)⟩⟩

instance (m : Mode) [h : LateMode m] : Quiet (modS fun s => { s with templateModes := s.templateModes ++ [m] }) :=
  quiet_modS fun s hml =>
    ⟨⟨SameSk.refl _, List.Sublist.refl _, rfl, rfl, rfl, rfl, rfl, fun _ _ h => h, Or.inl rfl, fun h => h⟩,
     ⟨hml.mode, hml.orig, fun m' hm' => by
        simp only [List.mem_append, List.mem_singleton] at hm'
        rcases hm' with hm' | rfl
        · exact hml.tm m' hm'
        · exact h.h⟩⟩

instance : Quiet (modS fun s => { s with origMode := some s.mode }) :=
  quiet_modS fun s hml =>
    ⟨⟨SameSk.refl _, List.Sublist.refl _, rfl, rfl, rfl, rfl, rfl, fun _ _ h => h, Or.inl rfl, fun h => h⟩,
     ⟨hml.mode, by intro m hm; cases hm; exact hml.mode, hml.tm⟩⟩

/-- the option → selectedcontent mirror -/
instance (o : Id) : Pres (sinkUnit (.maybeCloneAnOptionIntoSelectedcontent o)) :=
  ⟨fun s a s' hl e => by
    obtain ⟨out, e⟩ := sinkUnit_ok.mp e
    obtain ⟨d, hd, rfl⟩ := sink_ok.mp e
    obtain ⟨hb', hc', hk⟩ := maybeCloneOption_spec hl.base (apply_clone hd)
    exact hl.dom hb' hc' hk⟩

instance : PresR inTemplateEof := by unfold inTemplateEof; tb_walk

instance (k : H5V.Model.HtmlTok.RawKind) : PresR (toRawTextMode k) := by
  constructor
  intro s r s' hl e
  refine ⟨(inferInstance : Pres (toRawTextMode k)).p _ _ _ hl e, ?_⟩
  unfold toRawTextMode at e
  obtain ⟨_, _, _, e3⟩ := bind_ok.mp e
  obtain ⟨rfl, _⟩ := pure_ok.mp e3
  trivial

/-! ### the handle logic with an answer -/

structure PLR (c : Ctx) (m : M ProcessResult) : Prop where
  p : ∀ s a s', Late s → c.ok s.dom → m s = .ok (a, s') → (Late s' ∧ Ext s.dom s'.dom) ∧ ResOk a

theorem PLR.bind {α : Type} {c : Ctx} {m : M α} {f : α → M ProcessResult} {R : α → Ctx}
    (h1 : PL c m R) (h2 : ∀ a, PLR ((R a).app c) (f a)) : PLR c (m >>= f) := by
  constructor
  intro s b s'' hl hc e
  obtain ⟨a, s', e1, e2⟩ := bind_ok.mp e
  obtain ⟨l1, x1, r1⟩ := h1.p s a s' hl hc e1
  obtain ⟨⟨l2, x2⟩, r2⟩ := (h2 a).p s' b s'' l1 (Ctx.ok_app r1 (hc.ext x1)) e2
  exact ⟨⟨l2, x1.trans x2⟩, r2⟩

theorem PLR.of_presR {c : Ctx} {m : M ProcessResult} (h : PresR m) : PLR c m :=
  ⟨fun s a s' hl _ e => h.p s a s' hl e⟩

theorem PLR.dite {c : Ctx} {p : Prop} [Decidable p] {a b : M ProcessResult}
    (h1 : p → PLR c a) (h2 : ¬p → PLR c b) : PLR c (if p then a else b) := by
  by_cases hp : p
  · simp only [hp, if_true]; exact h1 hp
  · simp only [hp, if_false]; exact h2 hp

theorem PLR.toPresR {m : M ProcessResult} (h : PLR Ctx.nil m) : PresR m :=
  ⟨fun s a s' hl e => h.p s a s' hl (Ctx.ok_nil _) e⟩

syntax "plr_walk" : tactic
macro_rules
  | `(tactic| plr_walk) => `(tactic|
    repeat' (first
      | exact PLR.of_presR inferInstance
      | (haveI : NE _ := NE.of_tok (by assumption); exact PLR.of_presR inferInstance)
      | pl_leaf
      | with_reducible apply PLR.bind
      | with_reducible apply PL.bind
      | with_reducible apply PLR.dite
      | with_reducible apply PL.dite
      | intro _
      | split
      | dsimp only))

/-- entry into the handle logic: a rule arm that starts by creating an element -/
theorem PresR.ofCreate {n : QualName} {a : List Attr} {d : Bool} {f : Id → M ProcessResult}
    (h : PLR Ctx.nil (createElementWithFlags n a d >>= f)) : PresR (createElementWithFlags n a d >>= f) := h.toPresR

macro_rules
  | `(tactic| tb_step) => `(tactic| (with_reducible apply PresR.ofCreate; plr_walk))

/-! ### InHead -/

theorem presR_stepInHead (token : Token) [TokOk token] : PresR (stepInHead token) := by
  unfold stepInHead
  tb_walk
instance (token : Token) [TokOk token] : PresR (stepInHead token) := presR_stepInHead token

/-! ### InBody -/

/-- what is known about the answer of `body_elem`: the second open element, hence not a child of the document -/
def bodyCtx : Option Id → Ctx
  | some b => ([], [b])
  | none => Ctx.nil

theorem mem_tail_of_getElem_one {l : List Id} {x : Id} (h : l[1]? = some x) : x ∈ l.tail := by
  cases l with
  | nil => simp at h
  | cons a r =>
    cases r with
    | nil => simp at h
    | cons b r' => simp at h; subst h; simp

theorem PL.bodyElem {c : Ctx} : PL c bodyElem bodyCtx := by
  unfold H5V.Model.HtmlTB.bodyElem
  apply PL.ofGetS
  intro s hl hc a s' e
  by_cases hlen : s.openElems.length ≤ 1
  · simp only [hlen, if_true] at e
    obtain ⟨rfl, rfl⟩ := pure_ok.mp e
    exact ⟨hl, Ext.refl _, Ctx.ok_nil _⟩
  · simp only [hlen, if_false] at e
    cases h1 : s.openElems[1]? with
    | none =>
      simp only [h1] at e
      obtain ⟨rfl, rfl⟩ := pure_ok.mp e
      exact ⟨hl, Ext.refl _, Ctx.ok_nil _⟩
    | some node =>
      simp only [h1] at e
      obtain ⟨b, s1, e1, e2⟩ := bind_ok.mp e
      obtain ⟨q1, m1⟩ := (inferInstance : Quiet (htmlElemNamed node "body")).q _ _ _ hl.ml e1
      have hl1 := hl.qrel q1 m1
      have htail := mem_tail_of_getElem_one h1
      have hloose0 : Loose s.dom node := ⟨hl.st.oe node (List.mem_of_mem_tail htail), hl.st.tail node htail⟩
      have hloose : Loose s1.dom node := hloose0.ext q1.sk.ext
      by_cases hb : b = true
      · simp only [hb, if_true] at e2
        obtain ⟨rfl, rfl⟩ := pure_ok.mp e2
        exact ⟨hl1, q1.sk.ext, ⟨fun _ h => (by cases h), fun y hy => (by simp [bodyCtx] at hy; subst hy; exact hloose)⟩⟩
      · simp only [hb] at e2
        obtain ⟨rfl, rfl⟩ := pure_ok.mp e2
        exact ⟨hl1, q1.sk.ext, Ctx.ok_nil _⟩

macro_rules
  | `(tactic| pl_leaf) => `(tactic| with_reducible exact PL.bodyElem)

macro_rules
  | `(tactic| ctx_mem) => `(tactic| (simp [Ctx.app, Ctx.nil, Ctx.elem, bodyCtx, *]; done))

theorem PresR.ofBodyElem {f : Option Id → M ProcessResult}
    (h : PLR Ctx.nil (H5V.Model.HtmlTB.bodyElem >>= f)) : PresR (H5V.Model.HtmlTB.bodyElem >>= f) := h.toPresR

macro_rules
  | `(tactic| tb_step) => `(tactic| (with_reducible apply PresR.ofBodyElem; plr_walk))

/-! state-aware judgement: needed where the model writes back a state it has read (`set`) -/

structure PresRA (s : State) (m : M ProcessResult) : Prop where
  p : Late s → ∀ a s', m s = .ok (a, s') → (Late s' ∧ Ext s.dom s'.dom) ∧ ResOk a

theorem PresR.ofGetS {F : State → M ProcessResult} (h : ∀ s, PresRA s (F s)) : PresR (getS >>= F) :=
  ⟨fun s a s' hl e => by rw [getS_bind] at e; exact (h s).p hl a s' e⟩

theorem PresRA.of {s : State} {m : M ProcessResult} (h : PresR m) : PresRA s m :=
  ⟨fun hl a s' e => h.p s a s' hl e⟩

theorem PresRA.getS {s : State} {F : State → M ProcessResult} (h : PresRA s (F s)) : PresRA s (getS >>= F) :=
  ⟨fun hl a s' e => by rw [getS_bind] at e; exact h.p hl a s' e⟩

theorem PresRA.bind {α : Type} {s : State} {m : M α} {f : α → M ProcessResult} (h1 : Pres m) (h2 : ∀ a, PresR (f a)) :
    PresRA s (m >>= f) := PresRA.of (PresR.bind h1 h2)

theorem PresRA.ite {s : State} {c : Prop} [Decidable c] {a b : M ProcessResult} (h1 : PresRA s a) (h2 : PresRA s b) :
    PresRA s (if c then a else b) := by
  by_cases hc : c
  · simp only [hc, if_true]; exact h1
  · simp only [hc, if_false]; exact h2

/-- writing back the state just read, with some fields the invariant does not mention changed -/
theorem PresRA.set {s x : State} {f : Unit → M ProcessResult} (hx : Late s → Late x ∧ x.dom = s.dom)
    (h : ∀ u, PresR (f u)) : PresRA s ((set x : M Unit) >>= f) := by
  constructor
  intro hl a s' e
  obtain ⟨u, s1, e1, e2⟩ := bind_ok.mp e
  rw [set_ok.mp e1] at e2
  obtain ⟨hlx, hd⟩ := hx hl
  have := (h u).p x a s' hlx e2
  rw [hd] at this
  exact this

theorem PresRA.split_guard {s : State} {m : M ProcessResult} (h : PresRA s m) : PresRA s m := h

macro_rules
  | `(tactic| tb_step) => `(tactic|
    first
      | with_reducible exact PresRA.of inferInstance
      | exact fun hl => ⟨Late.free hl rfl rfl rfl rfl rfl rfl rfl rfl rfl, rfl⟩
      | with_reducible apply PresR.ofGetS
      | with_reducible apply PresRA.getS
      | with_reducible apply PresRA.set
      | with_reducible apply PresRA.ite
      | (with_reducible apply PresRA.split_guard; split)
      | with_reducible apply PresRA.of)

set_option maxHeartbeats 1600000 in
theorem presR_stepInBody (token : Token) [TokOk token] : PresR (stepInBody token) := by
  unfold stepInBody
  tb_walk
instance (token : Token) [TokOk token] : PresR (stepInBody token) := presR_stepInBody token

/-! ### BeforeHead, InHeadNoscript, AfterHead -/

theorem PL.setHead {c : Ctx} {h : Id} (hh : h ∈ c.2) :
    PL c (modS fun s => { s with headElem := some h }) (fun _ => Ctx.nil) :=
  ⟨fun s a s' hl hc e => by
    rw [modS_ok.mp e]
    refine ⟨⟨hl.base, hl.pat, ⟨hl.st.doc, hl.st.ctx, hl.st.oe, hl.st.tail, ?_, hl.st.ptt⟩,
      ⟨hl.ml.mode, hl.ml.orig, hl.ml.tm⟩⟩, Ext.refl _, Ctx.ok_nil _⟩
    intro x hx
    cases hx
    exact hc.lo _ hh⟩

theorem PL.insertPhantom {c : Ctx} (n : String) : PL c (insertPhantom n) (fun el => ([], [el])) := by
  unfold H5V.Model.HtmlTB.insertPhantom; exact PL.insertElement _ _ _ _ _
theorem PL.insertElementFor {c : Ctx} (t : Tag) : PL c (insertElementFor t) (fun el => ([], [el])) := by
  unfold H5V.Model.HtmlTB.insertElementFor; exact PL.insertElement _ _ _ _ _

macro_rules
  | `(tactic| pl_leaf) => `(tactic|
    with_reducible first
      | exact PL.setHead (by ctx_mem)
      | exact PL.insertPhantom _
      | exact PL.insertElementFor _)

theorem presR_stepBeforeHead (token : Token) [TokOk token] : PresR (stepBeforeHead token) := by
  unfold stepBeforeHead
  apply PLR.toPresR
  plr_walk
instance (token : Token) [TokOk token] : PresR (stepBeforeHead token) := presR_stepBeforeHead token

theorem presR_stepInHeadNoscript (token : Token) [TokOk token] : PresR (stepInHeadNoscript token) := by
  unfold stepInHeadNoscript
  tb_walk
instance (token : Token) [TokOk token] : PresR (stepInHeadNoscript token) := presR_stepInHeadNoscript token

theorem PresR.bindR {m : M ProcessResult} {f : ProcessResult → M ProcessResult} (h1 : PresR m)
    (h2 : ∀ a, ResOk a → PresR (f a)) : PresR (m >>= f) := by
  constructor
  intro s b s'' hl e
  obtain ⟨a, s', e1, e2⟩ := bind_ok.mp e
  obtain ⟨⟨l1, x1⟩, r1⟩ := h1.p s a s' hl e1
  obtain ⟨⟨l2, x2⟩, r2⟩ := (h2 a r1).p s' b s'' l1 e2
  exact ⟨⟨l2, x1.trans x2⟩, r2⟩

/-- pushing the head element pointer (rules.rs:399) -/
theorem PresRA.pushHead {s : State} {head : Id} {f : Unit → M ProcessResult} (hh : s.headElem = some head)
    (h : ∀ u, PresR (f u)) : PresRA s (push head >>= f) := by
  constructor
  intro hl a s' e
  obtain ⟨u, s1, e1, e2⟩ := bind_ok.mp e
  obtain ⟨h1, h2⟩ := hl.st.head head hh
  obtain ⟨hl1, hd1⟩ := push_spec hl ⟨h1, h2⟩ e1
  have := (h u).p s1 a s' hl1 e2
  rw [hd1] at this
  exact this

macro_rules
  | `(tactic| tb_step) => `(tactic|
    first
      | (with_reducible apply PresRA.pushHead; assumption)
      | with_reducible apply PresR.bindR
      | (with_reducible refine PresR.pure _ ⟨?_⟩; assumption))

theorem presR_stepAfterHead (token : Token) [TokOk token] : PresR (stepAfterHead token) := by
  unfold stepAfterHead
  tb_walk
instance (token : Token) [TokOk token] : PresR (stepAfterHead token) := presR_stepAfterHead token

end H5V.Props.C06
