import H5V.Lemmas.HtmlTBSkelQuiet
/-!
C06 (skeleton invariant), part 5: the mutating helpers of `tree_builder/mod.rs` preserve `Late`:
element creation, the appropriate place for insertion (never the document, never next to a child of
the document — also under foster parenting and in the adoption agency), `insert_element`, text and
comment insertion, reconstruction of the active formatting elements, the adoption agency.
-/
namespace H5V.Props.C06
open H5V.Model.Dom hiding Str
open H5V.Model.HtmlTB hiding Str
open H5V.Lemmas.Dom

/-! ### inversion of `Dom.apply` -/

theorem apply_append {d d' : Dom} {p : Id} {c : NodeOrText} {out : Output}
    (h : d.apply (.append p c) = .ok (d', out)) : d.append p c = .ok d' := by
  have h' : d.applyV Dom.cloneVariant Dom.beforeSiblingVariant (.append p c) = .ok (d', out) := h
  simp only [Dom.applyV, bind, Except.bind] at h'
  cases ha : d.append p c with
  | error e => simp [ha] at h'
  | ok d1 => simp [ha] at h'; rw [h'.1]

theorem apply_abopn {d d' : Dom} {e p : Id} {c : NodeOrText} {out : Output}
    (h : d.apply (.appendBasedOnParentNode e p c) = .ok (d', out)) :
    d.appendBasedOnParentNodeV Dom.beforeSiblingVariant e p c = .ok d' := by
  have h' : d.applyV Dom.cloneVariant Dom.beforeSiblingVariant (.appendBasedOnParentNode e p c) = .ok (d', out) := h
  simp only [Dom.applyV, bind, Except.bind] at h'
  cases ha : d.appendBasedOnParentNodeV Dom.beforeSiblingVariant e p c with
  | error e => simp [ha] at h'
  | ok d1 => simp [ha] at h'; rw [h'.1]

theorem apply_abs {d d' : Dom} {sb : Id} {c : NodeOrText} {out : Output}
    (h : d.apply (.appendBeforeSibling sb c) = .ok (d', out)) :
    d.appendBeforeSiblingV Dom.beforeSiblingVariant sb c = .ok d' := by
  have h' : d.applyV Dom.cloneVariant Dom.beforeSiblingVariant (.appendBeforeSibling sb c) = .ok (d', out) := h
  simp only [Dom.applyV, bind, Except.bind] at h'
  cases ha : d.appendBeforeSiblingV Dom.beforeSiblingVariant sb c with
  | error e => simp [ha] at h'
  | ok d1 => simp [ha] at h'; rw [h'.1]

theorem apply_remove {d d' : Dom} {t : Id} {out : Output}
    (h : d.apply (.removeFromParent t) = .ok (d', out)) : d.removeFromParent t = .ok d' := by
  have h' : d.applyV Dom.cloneVariant Dom.beforeSiblingVariant (.removeFromParent t) = .ok (d', out) := h
  simp only [Dom.applyV, bind, Except.bind] at h'
  cases ha : d.removeFromParent t with
  | error e => simp [ha] at h'
  | ok d1 => simp [ha] at h'; rw [h'.1]

theorem apply_reparent {d d' : Dom} {n np : Id} {out : Output}
    (h : d.apply (.reparentChildren n np) = .ok (d', out)) : d.reparentChildren n np = .ok d' := by
  have h' : d.applyV Dom.cloneVariant Dom.beforeSiblingVariant (.reparentChildren n np) = .ok (d', out) := h
  simp only [Dom.applyV, bind, Except.bind] at h'
  cases ha : d.reparentChildren n np with
  | error e => simp [ha] at h'
  | ok d1 => simp [ha] at h'; rw [h'.1]

theorem apply_doctype {d d' : Dom} {n p s : Str} {out : Output}
    (h : d.apply (.appendDoctypeToDocument n p s) = .ok (d', out)) : d.appendDoctypeToDocument n p s = .ok d' := by
  have h' : d.applyV Dom.cloneVariant Dom.beforeSiblingVariant (.appendDoctypeToDocument n p s) = .ok (d', out) := h
  simp only [Dom.applyV, bind, Except.bind] at h'
  cases ha : d.appendDoctypeToDocument n p s with
  | error e => simp [ha] at h'
  | ok d1 => simp [ha] at h'; rw [h'.1]

theorem apply_clone {d d' : Dom} {o : Id} {out : Output}
    (h : d.apply (.maybeCloneAnOptionIntoSelectedcontent o) = .ok (d', out)) :
    d.maybeCloneOption .fixed o = .ok d' := by
  have h' : d.applyV Dom.cloneVariant Dom.beforeSiblingVariant (.maybeCloneAnOptionIntoSelectedcontent o) = .ok (d', out) := h
  simp only [Dom.applyV, bind, Except.bind] at h'
  cases ha : d.maybeCloneOption Dom.cloneVariant o with
  | error e => simp [ha] at h'
  | ok d1 => simp [ha] at h'; rw [← h'.1]; exact ha

theorem apply_createElement {d d' : Dom} {name : QualName} {attrs : List Attr} {flags : ElementFlags} {out : Output}
    (h : d.apply (.createElement name attrs flags) = .ok (d', out)) :
    d' = (d.createElement name attrs flags).1 ∧ out = .node (d.createElement name attrs flags).2 := by
  have h' : d.applyV Dom.cloneVariant Dom.beforeSiblingVariant (.createElement name attrs flags) = .ok (d', out) := h
  simp only [Dom.applyV, Except.ok.injEq, Prod.mk.injEq] at h'
  exact ⟨h'.1.symm, h'.2.symm⟩

theorem apply_createComment {d d' : Dom} {text : Str} {out : Output}
    (h : d.apply (.createComment text) = .ok (d', out)) :
    d' = (d.createComment text).1 ∧ out = .node (d.createComment text).2 := by
  have h' : d.applyV Dom.cloneVariant Dom.beforeSiblingVariant (.createComment text) = .ok (d', out) := h
  simp only [Dom.applyV, Except.ok.injEq, Prod.mk.injEq] at h'
  exact ⟨h'.1.symm, h'.2.symm⟩

theorem apply_getTemplateContents {d d' : Dom} {t tc : Id}
    (h : d.apply (.getTemplateContents t) = .ok (d', .node tc)) : d' = d ∧ d.templateContentsOf t = some tc := by
  have h' : d.applyV Dom.cloneVariant Dom.beforeSiblingVariant (.getTemplateContents t) = .ok (d', .node tc) := h
  simp only [Dom.applyV, bind, Except.bind] at h'
  cases ha : d.getTemplateContents t with
  | error e => simp [ha] at h'
  | ok r =>
    simp [ha] at h'
    refine ⟨h'.1.symm, ?_⟩
    obtain ⟨_, rfl⟩ := h'
    unfold Dom.getTemplateContents at ha
    simp only [bind, Except.bind] at ha
    cases hg : d.get t with
    | error e => simp [hg] at ha
    | ok n =>
      simp only [hg] at ha
      have hn := get_ok.mp hg
      unfold Dom.templateContentsOf
      rw [dataOf_of_node hn]
      cases hd : n.data <;> simp [hd, throw, throwThe, MonadExceptOf.throw] at ha ⊢
      rename_i nm a tco ip
      cases tco <;> simp [throw, throwThe, MonadExceptOf.throw] at ha ⊢
      exact ha

/-! ### states that differ in the arena only -/

theorem Late.dom {s : State} (h : Late s) {d : Dom} {tr : List (SinkOp × Output)} (hb : DomBase d)
    (hc : Chg s.dom d) (hk : d.childrenOf 0 = s.dom.childrenOf 0) :
    Late { s with dom := d, traceRev := tr } ∧ Ext s.dom d := by
  refine ⟨⟨hb, by rw [kinds_eq h.base hc hk]; exact h.pat, ?_, ⟨h.ml.mode, h.ml.orig, h.ml.tm⟩⟩, Ext.of_kids0 hc hk⟩
  refine ⟨h.st.doc, h.st.ctx, ?_, ?_, ?_, h.st.ptt⟩
  · intro e he; exact hc.isElement (h.st.oe e he)
  · intro e he; show e ∉ d.childrenOf 0; rw [hk]; exact h.st.tail e he
  · intro x hx
    obtain ⟨h1, h2⟩ := h.st.head x hx
    exact ⟨hc.isElement h1, by show x ∉ d.childrenOf 0; rw [hk]; exact h2⟩

/-- a place the builder may insert at -/
def IpOk (d : Dom) : InsertionPoint → Prop
  | .lastChild p => p ≠ 0 ∧ d.isContainer p = true
  | .beforeSibling _ => False
  | .tableFosterParenting e p => d.isElement e = true ∧ e ∉ d.childrenOf 0 ∧ d.isElement p = true

theorem IpOk.ext {d d' : Dom} {ip : InsertionPoint} (h : IpOk d ip) (x : Ext d d') : IpOk d' ip := by
  cases ip with
  | lastChild p => exact ⟨h.1, x.chg.isContainer h.2⟩
  | beforeSibling _ => exact h
  | tableFosterParenting e p =>
    exact ⟨x.chg.isElement h.1, fun hm => h.2.1 ((x.kids0 e h.1).mp hm), x.chg.isElement h.2.2⟩

/-- `insert_at` -/
theorem insertAt_spec {s s' : State} {ip : InsertionPoint} {child : NodeOrText} {u : Unit} (h : Late s)
    (hip : IpOk s.dom ip) (hch : ChildOk s.dom child) (e : H5V.Model.HtmlTB.insertAt ip child s = .ok (u, s')) :
    Late s' ∧ Ext s.dom s'.dom ∧ s'.dom.childrenOf 0 = s.dom.childrenOf 0 ∧
      s' = { s with dom := s'.dom, traceRev := s'.traceRev } := by
  cases ip with
  | beforeSibling _ => exact absurd hip id
  | lastChild p =>
    obtain ⟨hp0, hpc⟩ := hip
    unfold H5V.Model.HtmlTB.insertAt at e
    obtain ⟨out, e⟩ := sinkUnit_ok.mp e
    obtain ⟨d, hd, rfl⟩ := sink_ok.mp e
    have ha := apply_append hd
    cases child with
    | node c =>
      obtain ⟨hb', hc', _, hk⟩ := append_node_spec h.base hpc hch.2 ha
      have hk0 := children0_of_ne hp0 hk
      obtain ⟨l, x⟩ := h.dom hb' hc' hk0
      exact ⟨l, x, hk0, rfl⟩
    | text t =>
      obtain ⟨hb', hc', hk⟩ := append_text_spec h.base hpc hch ha
      have hk0 : d.childrenOf 0 = s.dom.childrenOf 0 := by
        rcases hk with hk | ⟨hk, _⟩
        · exact hk 0
        · exact children0_of_ne hp0 hk
      obtain ⟨l, x⟩ := h.dom hb' hc' hk0
      exact ⟨l, x, hk0, rfl⟩
  | tableFosterParenting el p =>
    obtain ⟨_, he0, hpe⟩ := hip
    unfold H5V.Model.HtmlTB.insertAt at e
    obtain ⟨out, e⟩ := sinkUnit_ok.mp e
    obtain ⟨d, hd, rfl⟩ := sink_ok.mp e
    have ha := apply_abopn hd
    obtain ⟨hb', hc', hk0⟩ := appendBasedOnParentNodeV_spec h.base he0 (isContainer_of_isElement hpe)
      (ne_zero_of_isElement h.base hpe) hch ha
    obtain ⟨l, x⟩ := h.dom hb' hc' hk0
    exact ⟨l, x, hk0, rfl⟩

/-! ### the appropriate place for insertion -/

/-- where the foster-parenting loop over `l` (a part of the reversed stack) may end -/
def FSrc (l : List Id) (s : State) : InsertionPoint → Prop
  | .lastChild p => p ∈ s.openElems ∨ ∃ t ∈ l, s.dom.templateContentsOf t = some p
  | .beforeSibling _ => False
  | .tableFosterParenting e p => ∃ pre post, l = pre ++ e :: p :: post

theorem FSrc.cons {l : List Id} {s : State} {ip : InsertionPoint} (x : Id) (h : FSrc l s ip) :
    FSrc (x :: l) s ip := by
  cases ip with
  | lastChild p =>
    rcases h with h | ⟨t, ht, h⟩
    · exact Or.inl h
    · exact Or.inr ⟨t, List.mem_cons_of_mem _ ht, h⟩
  | beforeSibling _ => exact h
  | tableFosterParenting e p =>
    obtain ⟨pre, post, rfl⟩ := h
    exact ⟨x :: pre, post, rfl⟩

theorem FSrc.qrel {l : List Id} {s s' : State} {ip : InsertionPoint} (h : FSrc l s' ip) (q : QRel s s')
    (hlt : ∀ t ∈ l, t < s.dom.size) : FSrc l s ip := by
  cases ip with
  | lastChild p =>
    rcases h with h | ⟨t, ht, h⟩
    · exact Or.inl (q.oe.subset h)
    · exact Or.inr ⟨t, ht, by rw [← q.sk.chg.templateContentsOf (hlt t ht)]; exact h⟩
  | beforeSibling _ => exact h
  | tableFosterParenting e p => exact h

theorem sinkNode_tc {s s' : State} {t tc : Id} (e : sinkNode (.getTemplateContents t) s = .ok (tc, s')) :
    s.dom.templateContentsOf t = some tc ∧ QRel s s' := by
  have e' := sinkNode_ok.mp e
  obtain ⟨d, hd, rfl⟩ := sink_ok.mp e'
  obtain ⟨rfl, h⟩ := apply_getTemplateContents hd
  exact ⟨h, qrel_dom (SameSk.refl _)⟩

theorem fosterLoop_spec : ∀ (l : List Id) (s s' : State) (ip : InsertionPoint), ML s →
    (∀ t ∈ l, t < s.dom.size) → fosterLoop l s = .ok (ip, s') → FSrc l s ip
  | [], s, s', ip, hml, _, e => by
    unfold fosterLoop at e
    obtain ⟨h, s1, e1, e2⟩ := bind_ok.mp e
    obtain ⟨rfl, rfl⟩ := pure_ok.mp e2
    unfold htmlElem at e1
    rw [getS_bind] at e1
    cases hh : s.openElems.head? with
    | none => simp only [hh] at e1; exact absurd e1 panicAt_ok
    | some x =>
      simp only [hh] at e1
      obtain ⟨rfl, _⟩ := pure_ok.mp e1
      exact Or.inl (List.mem_of_mem_head? hh)
  | el :: rest, s, s', ip, hml, hlt, e => by
    unfold fosterLoop at e
    obtain ⟨b1, s1, e1, e2⟩ := bind_ok.mp e
    obtain ⟨q1, m1⟩ := (inferInstance : Quiet (htmlElemNamed el "template")).q _ _ _ hml e1
    by_cases hb1 : b1 = true
    · simp only [hb1, if_true] at e2
      obtain ⟨tc, s2, e3, e4⟩ := bind_ok.mp e2
      obtain ⟨rfl, rfl⟩ := pure_ok.mp e4
      obtain ⟨htc, _⟩ := sinkNode_tc e3
      refine Or.inr ⟨el, by simp, ?_⟩
      rw [← q1.sk.chg.templateContentsOf (hlt el (by simp))]; exact htc
    · simp only [hb1] at e2
      obtain ⟨b2, s2, e3, e4⟩ := bind_ok.mp e2
      obtain ⟨q2, m2⟩ := (inferInstance : Quiet (htmlElemNamed el "table")).q _ _ _ m1 e3
      have q12 := q1.trans q2
      by_cases hb2 : b2 = true
      · simp only [hb2, if_true] at e4
        cases rest with
        | nil => exact absurd e4 panicAt_ok
        | cons prev r =>
          obtain ⟨rfl, rfl⟩ := pure_ok.mp e4
          exact ⟨[], r, rfl⟩
      · simp only [hb2] at e4
        have hlt2 : ∀ t ∈ rest, t < s2.dom.size := by
          intro t ht; rw [q12.sk.size]; exact hlt t (List.mem_cons_of_mem _ ht)
        have := fosterLoop_spec rest s2 s' ip m2 hlt2 e4
        exact (this.qrel q12 (fun t ht => hlt t (List.mem_cons_of_mem _ ht))).cons el

theorem mem_tail_of_reverse {l : List Id} {pre post : List Id} {e p : Id}
    (h : l.reverse = pre ++ e :: p :: post) : e ∈ l.tail ∧ p ∈ l := by
  have hl : l = (post.reverse ++ [p]) ++ e :: pre.reverse := by
    have := congrArg List.reverse h
    simp only [List.reverse_reverse, List.reverse_append, List.reverse_cons, List.append_assoc] at this
    rw [this]; simp
  constructor
  · rw [hl]
    cases hpr : post.reverse with
    | nil => simp
    | cons a b => simp
  · rw [hl]; simp

theorem isElement_of_elemName {d : Dom} {t : Id} {r : Str × Str} (h : d.elemName t = .ok r) : d.isElement t = true := by
  unfold Dom.elemName at h
  simp only [bind, Except.bind] at h
  cases hg : d.get t with
  | error e => simp [hg] at h
  | ok n =>
    simp only [hg] at h
    unfold Dom.isElement
    rw [dataOf_of_node (get_ok.mp hg)]
    cases hd : n.data <;> simp [hd, throw, throwThe, MonadExceptOf.throw] at h ⊢

theorem elemName_run_isElement {s s' : State} {t : Id} {n : EName} (e : elemName t s = .ok (n, s')) :
    s.dom.isElement t = true := by
  obtain ⟨d, hd, _⟩ := sink_ok.mp (elemName_ok.mp e)
  have hd' : s.dom.applyV Dom.cloneVariant Dom.beforeSiblingVariant (.elemName t) = .ok (d, .name n.ns n.loc) := hd
  simp only [Dom.applyV, bind, Except.bind] at hd'
  cases he : s.dom.elemName t with
  | error e => simp [he] at hd'
  | ok r => exact isElement_of_elemName he

theorem htmlElemNamed_run_isElement {s s' : State} {t : Id} {nm : String} {b : Bool}
    (e : htmlElemNamed t nm s = .ok (b, s')) : s.dom.isElement t = true := by
  unfold htmlElemNamed htmlElemNamedS at e
  obtain ⟨n, s1, e1, _⟩ := bind_ok.mp e
  exact elemName_run_isElement e1

/-- `appropriate_place_for_insertion` once the target is known -/
def apfiRest (target : Id) : M InsertionPoint := do
  let foster ← if (← getS).fosterParenting then elemIn target fosterTarget else pure false
  if !foster then
    if ← htmlElemNamed target "template" then
      let contents ← sinkNode (.getTemplateContents target)
      pure (.lastChild contents)
    else pure (.lastChild target)
  else fosterLoop (← getS).openElems.reverse

theorem apfi_eq (o : Option Id) : appropriatePlaceForInsertion o =
    (match o with | some t => pure t | none => currentNode) >>= apfiRest := by
  unfold appropriatePlaceForInsertion apfiRest
  cases o <;> rfl

theorem apfiRest_spec {s s' : State} {target : Id} {ip : InsertionPoint} (h : Late s)
    (e : apfiRest target s = .ok (ip, s')) : IpOk s'.dom ip := by
  unfold apfiRest at e
  rw [getS_bind] at e
  -- the two branches of the foster test share the continuation
  have key : ∀ (foster : Bool) (s2 : State), QRel s s2 → ML s2 →
      (if (!foster) = true then do
          let __do_lift ← htmlElemNamed target "template"
          if __do_lift = true then do
              let contents ← sinkNode (SinkOp.getTemplateContents target)
              pure (InsertionPoint.lastChild contents)
            else pure (InsertionPoint.lastChild target)
        else do
          let __do_lift ← getS
          fosterLoop __do_lift.openElems.reverse) s2 = .ok (ip, s') → IpOk s'.dom ip := by
    intro foster s2 q12 m2 e4
    have hl2 : Late s2 := h.qrel q12 m2
    cases foster with
    | false =>
      simp only [Bool.not_false, if_true] at e4
      obtain ⟨b, s3, e5, e6⟩ := bind_ok.mp e4
      have htel2 : s2.dom.isElement target = true := htmlElemNamed_run_isElement e5
      obtain ⟨q3, m3⟩ := (inferInstance : Quiet (htmlElemNamed target "template")).q _ _ _ m2 e5
      have hl3 : Late s3 := hl2.qrel q3 m3
      by_cases hb : b = true
      · simp only [hb, if_true] at e6
        obtain ⟨tc, s4, e7, e8⟩ := bind_ok.mp e6
        obtain ⟨rfl, rfl⟩ := pure_ok.mp e8
        obtain ⟨htc, q4⟩ := sinkNode_tc e7
        obtain ⟨h0, hdoc⟩ := hl3.base.tcOk _ _ htc
        refine ⟨h0, q4.sk.chg.isContainer ?_⟩
        unfold Dom.isContainer; rw [hdoc]
      · simp only [hb] at e6
        obtain ⟨rfl, rfl⟩ := pure_ok.mp e6
        have := q3.sk.chg.isElement htel2
        exact ⟨ne_zero_of_isElement hl3.base this, isContainer_of_isElement this⟩
    | true =>
      simp only [Bool.not_true, Bool.false_eq_true, if_false] at e4
      rw [getS_bind] at e4
      have hlt : ∀ t ∈ s2.openElems.reverse, t < s2.dom.size := by
        intro t ht; exact lt_of_isElement (hl2.st.oe t (List.mem_reverse.mp ht))
      have hsrc := fosterLoop_spec _ _ _ _ m2 hlt e4
      obtain ⟨q3, m3⟩ := (inferInstance : Quiet (fosterLoop s2.openElems.reverse)).q _ _ _ m2 e4
      have hx : Ext s2.dom s'.dom := q3.sk.ext
      refine IpOk.ext ?_ hx
      cases ip with
      | lastChild p =>
        rcases hsrc with hsrc | ⟨t, ht, hsrc⟩
        · have := hl2.st.oe p hsrc
          exact ⟨ne_zero_of_isElement hl2.base this, isContainer_of_isElement this⟩
        · obtain ⟨h0, hdoc⟩ := hl2.base.tcOk _ _ hsrc
          exact ⟨h0, by unfold Dom.isContainer; rw [hdoc]⟩
      | beforeSibling _ => exact hsrc
      | tableFosterParenting el p =>
        obtain ⟨pre, post, hrev⟩ := hsrc
        obtain ⟨h1, h2⟩ := mem_tail_of_reverse hrev
        exact ⟨hl2.st.oe el (List.mem_of_mem_tail h1), hl2.st.tail el h1, hl2.st.oe p h2⟩
  by_cases hf : s.fosterParenting = true
  · simp only [hf, if_true] at e
    obtain ⟨foster, s2, e3, e4⟩ := bind_ok.mp e
    obtain ⟨q2, m2⟩ := (inferInstance : Quiet (elemIn target fosterTarget)).q _ _ _ h.ml e3
    exact key foster s2 q2 m2 e4
  · simp only [hf] at e
    obtain ⟨foster, s2, e3, e4⟩ := bind_ok.mp e
    obtain ⟨_, rfl⟩ := pure_ok.mp e3
    exact key foster s (QRel.refl _) h.ml e4

/-- `appropriate_place_for_insertion`: never the document, never next to a child of the document -/
theorem apfi_spec {s s' : State} {o : Option Id} {ip : InsertionPoint} (h : Late s)
    (e : appropriatePlaceForInsertion o s = .ok (ip, s')) : QRel s s' ∧ ML s' ∧ IpOk s'.dom ip := by
  obtain ⟨q, ml⟩ := (inferInstance : Quiet (appropriatePlaceForInsertion o)).q _ _ _ h.ml e
  refine ⟨q, ml, ?_⟩
  rw [apfi_eq] at e
  obtain ⟨target, s1, e1, e2⟩ := bind_ok.mp e
  cases o with
  | some t =>
    simp only at e1
    obtain ⟨rfl, rfl⟩ := pure_ok.mp e1
    exact apfiRest_spec h e2
  | none =>
    simp only at e1
    obtain ⟨q1, m1⟩ := (inferInstance : Quiet currentNode).q _ _ _ h.ml e1
    exact apfiRest_spec (h.qrel q1 m1) e2

/-! ### creating nodes, pushing -/

/-- a node the builder has just made or detached: an element that is not a child of the document -/
def Loose (d : Dom) (x : Id) : Prop := d.isElement x = true ∧ x ∉ d.childrenOf 0

theorem not_doc_of_isElement {d : Dom} {x : Id} (h : d.isElement x = true) : d.dataOf x ≠ some .document := by
  intro hd; unfold Dom.isElement at h; rw [hd] at h; cases h

theorem Loose.childOk {d : Dom} {x : Id} (h : Loose d x) : ChildOk d (.node x) := ⟨h.2, not_doc_of_isElement h.1⟩

theorem Loose.ext {d d' : Dom} {x : Id} (h : Loose d x) (e : Ext d d') : Loose d' x :=
  ⟨e.chg.isElement h.1, fun hm => h.2 ((e.kids0 x h.1).mp hm)⟩

theorem createElementWithFlags_spec {s s' : State} {name : QualName} {attrs : List Attr} {dup : Bool} {elem : Id}
    (h : Late s) (e : createElementWithFlags name attrs dup s = .ok (elem, s')) :
    Late s' ∧ Ext s.dom s'.dom ∧ Loose s'.dom elem ∧ s.dom.size ≤ elem ∧
      s' = { s with dom := s'.dom, traceRev := s'.traceRev } := by
  unfold createElementWithFlags at e
  have e' := sinkNode_ok.mp e
  obtain ⟨d, hd, rfl⟩ := sink_ok.mp e'
  obtain ⟨rfl, hout⟩ := apply_createElement hd
  cases hout
  obtain ⟨hb', hc', hk, hfresh, hvalid, tc, hdata⟩ := createElement_spec h.base name attrs _
  obtain ⟨l, x⟩ := h.dom hb' hc' (hk 0)
  refine ⟨l, x, ⟨?_, ?_⟩, hfresh, rfl⟩
  · show Dom.isElement _ _ = true
    unfold Dom.isElement; rw [hdata]
  · show _ ∉ Dom.childrenOf _ 0
    rw [hk 0]
    intro hm
    exact Nat.lt_irrefl _ (Nat.lt_of_lt_of_le (h.base.kidsLt _ hm) hfresh)

instance (name : QualName) (attrs : List Attr) (dup : Bool) : Pres (createElementWithFlags name attrs dup) :=
  ⟨fun _ _ _ hl e => let ⟨a, b, _⟩ := createElementWithFlags_spec hl e; ⟨a, b⟩⟩

theorem mem_tail_append {l : List Id} {x e : Id} (h : e ∈ (l ++ [x]).tail) : e ∈ l.tail ∨ e = x := by
  cases l with
  | nil => simp at h
  | cons a r => simpa using h

theorem Late.push {s : State} (h : Late s) {x : Id} (hx : Loose s.dom x) :
    Late { s with openElems := s.openElems ++ [x] } := by
  refine ⟨h.base, h.pat, ⟨h.st.doc, h.st.ctx, ?_, ?_, h.st.head, h.st.ptt⟩, ⟨h.ml.mode, h.ml.orig, h.ml.tm⟩⟩
  · intro e he
    simp only [List.mem_append, List.mem_singleton] at he
    rcases he with he | rfl
    · exact h.st.oe e he
    · exact hx.1
  · intro e he
    rcases mem_tail_append he with he | rfl
    · exact h.st.tail e he
    · exact hx.2

theorem push_spec {s s' : State} {x : Id} {u : Unit} (h : Late s) (hx : Loose s.dom x)
    (e : push x s = .ok (u, s')) : Late s' ∧ s'.dom = s.dom := by
  unfold push at e
  rw [modS_ok.mp e]
  exact ⟨h.push hx, rfl⟩

instance (af : List FormatEntry) : Pres (setAF af) := by
  unfold setAF
  exact pres_modS fun s hl => ⟨hl.free rfl rfl rfl rfl rfl rfl rfl rfl rfl, rfl⟩
instance (f : List FormatEntry → List FormatEntry) :
    Pres (modS fun s => { s with activeFormatting := f s.activeFormatting }) :=
  pres_modS fun s hl => ⟨hl.free rfl rfl rfl rfl rfl rfl rfl rfl rfl, rfl⟩
instance (x : Option Id) : Pres (modS fun s => { s with formElem := x }) :=
  pres_modS fun s hl => ⟨hl.free rfl rfl rfl rfl rfl rfl rfl rfl rfl, rfl⟩
instance (b : Bool) : Pres (modS fun s => { s with ignoreLf := b }) :=
  pres_modS fun s hl => ⟨hl.free rfl rfl rfl rfl rfl rfl rfl rfl rfl, rfl⟩
instance (b : Bool) : Pres (modS fun s => { s with fosterParenting := b }) :=
  pres_modS fun s hl => ⟨hl.free rfl rfl rfl rfl rfl rfl rfl rfl rfl, rfl⟩
instance (b : Bool) : Pres (setFramesetOk b) := by
  unfold setFramesetOk
  exact pres_modS fun s hl => ⟨hl.free rfl rfl rfl rfl rfl rfl rfl rfl rfl, rfl⟩

/-! ### `insert_element` and friends -/

theorem insertElement_spec {s s' : State} {pushIt : Bool} {ns name : Str} {attrs : List Attr} {dup : Bool} {elem : Id}
    (h : Late s) (e : insertElement pushIt ns name attrs dup s = .ok (elem, s')) :
    Late s' ∧ Ext s.dom s'.dom ∧ Loose s'.dom elem := by
  unfold insertElement at e
  obtain ⟨ip, s1, e1, e2⟩ := bind_ok.mp e
  obtain ⟨q1, m1, hip1⟩ := apfi_spec h e1
  have hl1 : Late s1 := h.qrel q1 m1
  have x1 : Ext s.dom s1.dom := q1.sk.ext
  -- the form-association test is quiet; everything after it is `rest`
  have key : ∀ (fia : Bool) (s2 : State), Late s2 → Ext s1.dom s2.dom →
      (do
        let elem ← createElementWithFlags { ns := ns, loc := name } attrs dup
        have __do_jp : Unit → M Id := fun __r => do
          H5V.Model.HtmlTB.insertAt ip (NodeOrText.node elem)
          have __do_jp : Unit → M Id := fun __r => pure elem
          if pushIt = true then do
              let __r ← push elem
              __do_jp __r
            else __do_jp ()
        if fia = true then do
            let __do_lift ← getS
            match __do_lift.formElem with
              | some form => do
                let __r ← sinkUnit (SinkOp.associateWithForm elem form ip.nodes.1 ip.nodes.2)
                __do_jp __r
              | none => do
                let __r ← panicAt "unwrap-none" "mod.rs:1401" "form_elem unwrap"
                __do_jp __r
          else __do_jp ()) s2 = .ok (elem, s') → Late s' ∧ Ext s1.dom s'.dom ∧ Loose s'.dom elem := by
    intro fia s2 hl2 x2 e3
    obtain ⟨el, s3, e4, e5⟩ := bind_ok.mp e3
    obtain ⟨hl3, x3, hloose3, _, _⟩ := createElementWithFlags_spec hl2 e4
    -- after the optional `associate_with_form`
    have key2 : ∀ (s4 : State), Late s4 → Ext s3.dom s4.dom →
        (do
          H5V.Model.HtmlTB.insertAt ip (NodeOrText.node el)
          have __do_jp : Unit → M Id := fun __r => pure el
          if pushIt = true then do
              let __r ← push el
              __do_jp __r
            else __do_jp ()) s4 = .ok (elem, s') → Late s' ∧ Ext s3.dom s'.dom ∧ Loose s'.dom elem := by
      intro s4 hl4 x4 e6
      obtain ⟨u, s5, e7, e8⟩ := bind_ok.mp e6
      have hip4 : IpOk s4.dom ip := (hip1.ext x2).ext (x3.trans x4)
      have hloose4 := hloose3.ext x4
      obtain ⟨hl5, x5, hk5, _⟩ := insertAt_spec (child := .node el) hl4 hip4 hloose4.childOk e7
      have hloose5 := hloose4.ext x5
      by_cases hp : pushIt = true
      · simp only [hp, if_true] at e8
        obtain ⟨u2, s6, e9, e10⟩ := bind_ok.mp e8
        obtain ⟨rfl, rfl⟩ := pure_ok.mp e10
        obtain ⟨hl6, hd6⟩ := push_spec hl5 hloose5 e9
        exact ⟨hl6, by rw [hd6]; exact x4.trans x5, by rw [hd6]; exact hloose5⟩
      · simp only [hp] at e8
        obtain ⟨rfl, rfl⟩ := pure_ok.mp e8
        exact ⟨hl5, x4.trans x5, hloose5⟩
    by_cases hf : fia = true
    · simp only [hf, if_true] at e5
      rw [getS_bind] at e5
      cases hform : s3.formElem with
      | none =>
        simp only [hform] at e5
        obtain ⟨_, _, e6, _⟩ := bind_ok.mp e5
        exact absurd e6 panicAt_ok
      | some form =>
        simp only [hform] at e5
        obtain ⟨u, s4, e6, e7⟩ := bind_ok.mp e5
        obtain ⟨q4, m4⟩ := (inferInstance : Quiet (sinkUnit (.associateWithForm el form ip.nodes.1 ip.nodes.2))).q _ _ _ hl3.ml e6
        obtain ⟨a, b, c⟩ := key2 s4 (hl3.qrel q4 m4) q4.sk.ext e7
        exact ⟨a, x2.trans (x3.trans b), c⟩
    · simp only [hf] at e5
      obtain ⟨a, b, c⟩ := key2 s3 hl3 (Ext.refl _) e5
      exact ⟨a, x2.trans (x3.trans b), c⟩
  have fin : ∀ (fia : Bool) (s2 : State), QRel s1 s2 → ML s2 → _ → Late s' ∧ Ext s.dom s'.dom ∧ Loose s'.dom elem :=
    fun fia s2 q2 m2 e3 =>
      let ⟨a, b, c⟩ := key fia s2 (hl1.qrel q2 m2) q2.sk.ext e3
      ⟨a, x1.trans b, c⟩
  simp only at e2
  rw [getS_bind] at e2
  by_cases hc : (formAssociatable { ns := ns, loc := name } && s1.formElem.isSome) = true
  · simp only [hc, if_true] at e2
    obtain ⟨b, s2, e3, e4⟩ := bind_ok.mp e2
    obtain ⟨q2, m2⟩ := (inferInstance : Quiet (inHtmlElemNamed "template")).q _ _ _ m1 e3
    by_cases hb : b = true
    · simp only [hb, if_true] at e4
      obtain ⟨fia, s2', e5, e6⟩ := bind_ok.mp e4
      obtain ⟨rfl, rfl⟩ := pure_ok.mp e5
      exact fin _ _ q2 m2 e6
    · simp only [hb] at e4
      obtain ⟨fia, s2', e5, e6⟩ := bind_ok.mp e4
      obtain ⟨rfl, rfl⟩ := pure_ok.mp e5
      exact fin _ _ q2 m2 e6
  · simp only [hc] at e2
    obtain ⟨fia, s2', e5, e6⟩ := bind_ok.mp e2
    obtain ⟨rfl, rfl⟩ := pure_ok.mp e5
    exact fin _ _ (QRel.refl _) m1 e6

instance (pushIt : Bool) (ns name : Str) (attrs : List Attr) (dup : Bool) :
    Pres (insertElement pushIt ns name attrs dup) :=
  ⟨fun _ _ _ hl e => let ⟨a, b, _⟩ := insertElement_spec hl e; ⟨a, b⟩⟩

instance (tag : Tag) : Pres (insertElementFor tag) := by unfold insertElementFor; infer_instance
instance (tag : Tag) : Pres (insertAndPopElementFor tag) := by unfold insertAndPopElementFor; infer_instance
instance (n : String) : Pres (insertPhantom n) := by unfold insertPhantom; infer_instance

theorem insertAppropriately_spec {s s' : State} {child : NodeOrText} {o : Option Id} {u : Unit} (h : Late s)
    (hch : match child with
      | .node c => Loose s.dom c ∨ (c ∉ s.dom.childrenOf 0 ∧ ∃ t, s.dom.dataOf c = some (.comment t))
      | .text t => t ≠ [])
    (e : insertAppropriately child o s = .ok (u, s')) : Late s' ∧ Ext s.dom s'.dom := by
  unfold insertAppropriately at e
  obtain ⟨ip, s1, e1, e2⟩ := bind_ok.mp e
  obtain ⟨q1, m1, hip1⟩ := apfi_spec h e1
  have hl1 : Late s1 := h.qrel q1 m1
  have hch1 : ChildOk s1.dom child := by
    cases child with
    | node c =>
      rcases hch with hch | ⟨hch, t, ht⟩
      · exact (hch.ext q1.sk.ext).childOk
      · refine ⟨by rw [q1.sk.kids]; exact hch, ?_⟩
        have := (q1.sk.chg.data c (lt_of_data ht)).skel
        rw [ht] at this
        intro hd
        rw [hd] at this
        simp [skelT] at this
    | text t => exact hch
  obtain ⟨a, b, _⟩ := insertAt_spec hl1 hip1 hch1 e2
  exact ⟨a, q1.sk.ext.trans b⟩

instance (text : Str) [hne : NE text] : Pres (insertAppropriately (.text text) none) :=
  ⟨fun _ _ _ hl e => insertAppropriately_spec hl hne.h e⟩

instance (text : Str) [NE text] : PresR (appendText text) := by
  unfold appendText; infer_instance

theorem createComment_run {s s' : State} {text : Str} {c : Id} (h : Late s)
    (e : sinkNode (.createComment text) s = .ok (c, s')) :
    Late s' ∧ Ext s.dom s'.dom ∧ c ∉ s'.dom.childrenOf 0 ∧ s'.dom.dataOf c = some (.comment text) ∧
      s.dom.size ≤ c ∧ s' = { s with dom := s'.dom, traceRev := s'.traceRev } := by
  have e' := sinkNode_ok.mp e
  obtain ⟨d, hd, rfl⟩ := sink_ok.mp e'
  obtain ⟨rfl, hout⟩ := apply_createComment hd
  cases hout
  obtain ⟨hb', hc', hk, hid, hs, hdata⟩ := createComment_spec h.base text
  obtain ⟨l, x⟩ := h.dom hb' hc' (hk 0)
  refine ⟨l, x, ?_, hdata, Nat.le_of_eq hid.symm, rfl⟩
  show _ ∉ Dom.childrenOf _ 0
  rw [hk 0, hid]
  intro hm
  exact Nat.lt_irrefl _ (h.base.kidsLt _ hm)

instance (text : Str) : PresR (appendComment text) := by
  constructor
  intro s r s' hl e
  unfold appendComment at e
  obtain ⟨c, s1, e1, e2⟩ := bind_ok.mp e
  obtain ⟨hl1, x1, hc1, hcd1, _, _⟩ := createComment_run hl e1
  obtain ⟨u, s2, e3, e4⟩ := bind_ok.mp e2
  obtain ⟨rfl, rfl⟩ := pure_ok.mp e4
  obtain ⟨a, b⟩ := insertAppropriately_spec (child := .node c) hl1 (Or.inr ⟨hc1, _, hcd1⟩) e3
  exact ⟨⟨a, x1.trans b⟩, trivial⟩

theorem docKid_comment {d : Dom} {c : Id} {t : Str} (h : d.dataOf c = some (.comment t)) : docKid d c = .comment := by
  unfold docKid; rw [h]

theorem not_isElement_of_comment {d : Dom} {c : Id} {t : Str} (h : d.dataOf c = some (.comment t)) :
    d.isElement c = false := by
  unfold Dom.isElement; rw [h]

/-- appending a fresh comment to the document keeps everything but the list of its children -/
theorem appendDocComment_run {s s' : State} {c : Id} {t : Str} {u : Unit} (hb : DomBase s.dom)
    (hc : s.dom.dataOf c = some (.comment t)) (hdoc : s.docHandle = 0)
    (e : sinkUnit (.append s.docHandle (.node c)) s = .ok (u, s')) :
    ∃ d tr, s' = { s with dom := d, traceRev := tr } ∧ DomBase d ∧ Chg s.dom d ∧
      d.childrenOf 0 = s.dom.childrenOf 0 ++ [c] ∧ kinds d = kinds s.dom ++ [.comment] := by
  rw [hdoc] at e
  obtain ⟨out, e⟩ := sinkUnit_ok.mp e
  obtain ⟨d, hd, rfl⟩ := sink_ok.mp e
  obtain ⟨hb', hc', hlt, hk⟩ := append_doc_spec hb (by rw [hc]; simp) (apply_append hd)
  refine ⟨d, _, rfl, hb', hc', hk, ?_⟩
  rw [kinds_snoc hb hc' hk, hc'.docKid_eq hlt, docKid_comment hc]

theorem Late.appendDocComment {s : State} (h : Late s) {d : Dom} {tr : List (SinkOp × Output)} {c : Id} {t : Str}
    (hcd : s.dom.dataOf c = some (.comment t)) (hb : DomBase d) (hc : Chg s.dom d)
    (hk : d.childrenOf 0 = s.dom.childrenOf 0 ++ [c]) (hkinds : kinds d = kinds s.dom ++ [.comment]) :
    Late { s with dom := d, traceRev := tr } ∧ Ext s.dom d := by
  have hne : ∀ x, s.dom.isElement x = true → x ≠ c := by
    intro x hx hxc; subst hxc; rw [not_isElement_of_comment hcd] at hx; cases hx
  have hk0 : ∀ x, s.dom.isElement x = true → (x ∈ d.childrenOf 0 ↔ x ∈ s.dom.childrenOf 0) := by
    intro x hx
    rw [hk]
    simp only [List.mem_append, List.mem_singleton]
    constructor
    · rintro (hm | hm)
      · exact hm
      · exact absurd hm (hne x hx)
    · intro hm; exact Or.inl hm
  refine ⟨⟨hb, by rw [hkinds]; exact docPattern_append_comment h.pat, ?_, ⟨h.ml.mode, h.ml.orig, h.ml.tm⟩⟩, ⟨hc, hk0⟩⟩
  refine ⟨h.st.doc, h.st.ctx, ?_, ?_, ?_, h.st.ptt⟩
  · intro e he; exact hc.isElement (h.st.oe e he)
  · intro e he
    show e ∉ d.childrenOf 0
    rw [hk0 e (h.st.oe e (List.mem_of_mem_tail he))]
    exact h.st.tail e he
  · intro x hx
    obtain ⟨h1, h2⟩ := h.st.head x hx
    exact ⟨hc.isElement h1, by show x ∉ d.childrenOf 0; rw [hk0 x h1]; exact h2⟩

instance (text : Str) : PresR (appendCommentToDoc text) := by
  constructor
  intro s r s' hl e
  unfold appendCommentToDoc at e
  obtain ⟨c, s1, e1, e2⟩ := bind_ok.mp e
  obtain ⟨hl1, x1, _, hcd, _, _⟩ := createComment_run hl e1
  rw [getS_bind] at e2
  obtain ⟨u, s2, e3, e4⟩ := bind_ok.mp e2
  obtain ⟨rfl, rfl⟩ := pure_ok.mp e4
  obtain ⟨d, tr, rfl, hb, hc, hk, hkinds⟩ := appendDocComment_run hl1.base hcd hl1.st.doc e3
  obtain ⟨a, b⟩ := hl1.appendDocComment hcd hb hc hk hkinds
  exact ⟨⟨a, x1.trans b⟩, trivial⟩

instance (text : Str) : PresR (appendCommentToHtml text) := by
  constructor
  intro s r s' hl e
  unfold appendCommentToHtml at e
  obtain ⟨target, s1, e1, e2⟩ := bind_ok.mp e
  obtain ⟨q1, m1⟩ := (inferInstance : Quiet htmlElemFn).q _ _ _ hl.ml e1
  have htel : s.dom.isElement target = true := by
    unfold htmlElemFn at e1
    rw [getS_bind] at e1
    cases hh : s.openElems.head? with
    | none => simp only [hh] at e1; exact absurd e1 panicAt_ok
    | some x =>
      simp only [hh] at e1
      obtain ⟨rfl, _⟩ := pure_ok.mp e1
      exact hl.st.oe _ (List.mem_of_mem_head? hh)
  have hl1 := hl.qrel q1 m1
  obtain ⟨c, s2, e3, e4⟩ := bind_ok.mp e2
  obtain ⟨hl2, x2, hc2, hcd2, _, _⟩ := createComment_run hl1 e3
  obtain ⟨u, s3, e5, e6⟩ := bind_ok.mp e4
  obtain ⟨rfl, rfl⟩ := pure_ok.mp e6
  have htel2 := x2.chg.isElement (q1.sk.chg.isElement htel)
  have hip : IpOk s2.dom (.lastChild target) := ⟨ne_zero_of_isElement hl2.base htel2, isContainer_of_isElement htel2⟩
  have e5' : H5V.Model.HtmlTB.insertAt (.lastChild target) (.node c) s2 = .ok (u, s3) := e5
  obtain ⟨a, b, _⟩ := insertAt_spec (child := .node c) hl2 hip ⟨hc2, by rw [hcd2]; simp⟩ e5'
  exact ⟨⟨a, q1.sk.ext.trans (x2.trans b)⟩, trivial⟩

instance (tag : Tag) (ns : Str) (only : Bool) : Pres (insertForeignElement tag ns only) := by
  constructor
  intro s r s' hl e
  unfold insertForeignElement at e
  obtain ⟨ip, s1, e1, e2⟩ := bind_ok.mp e
  obtain ⟨q1, m1, hip1⟩ := apfi_spec hl e1
  have hl1 := hl.qrel q1 m1
  obtain ⟨el, s2, e3, e4⟩ := bind_ok.mp e2
  obtain ⟨hl2, x2, hloose2, _, _⟩ := createElementWithFlags_spec hl1 e3
  have fin : ∀ s3, Late s3 → Ext s2.dom s3.dom →
      (do push el; pure el : M Id) s3 = .ok (r, s') → Late s' ∧ Ext s.dom s'.dom := by
    intro s3 hl3 x3 e5
    obtain ⟨u, s4, e6, e7⟩ := bind_ok.mp e5
    obtain ⟨_, rfl⟩ := pure_ok.mp e7
    obtain ⟨hl4, hd4⟩ := push_spec hl3 (hloose2.ext x3) e6
    exact ⟨hl4, by rw [hd4]; exact q1.sk.ext.trans (x2.trans x3)⟩
  by_cases ho : (!only) = true
  · simp only [ho, if_true] at e4
    obtain ⟨u, s3, e5, e6⟩ := bind_ok.mp e4
    obtain ⟨hl3, x3, _⟩ := insertAt_spec (child := .node el) hl2 (hip1.ext x2) hloose2.childOk e5
    exact fin s3 hl3 x3 e6
  · simp only [ho] at e4
    exact fin s2 hl2 (Ext.refl _) e4

instance (tag : Tag) (k : H5V.Model.HtmlTok.RawKind) : PresR (parseRawData tag k) := by
  constructor
  intro s r s' hl e
  unfold parseRawData at e
  obtain ⟨el, s1, e1, e2⟩ := bind_ok.mp e
  obtain ⟨hl1, x1⟩ := (inferInstance : Pres (insertElementFor tag)).p _ _ _ hl e1
  obtain ⟨hl2, x2⟩ := (inferInstance : Pres (toRawTextMode k)).p _ _ _ hl1 e2
  refine ⟨⟨hl2, x1.trans x2⟩, ?_⟩
  unfold toRawTextMode at e2
  obtain ⟨_, _, _, e3⟩ := bind_ok.mp e2
  obtain ⟨rfl, _⟩ := pure_ok.mp e3
  trivial

instance : PresR unexpected := by
  constructor
  intro s r s' hl e
  refine ⟨(inferInstance : Pres unexpected).p _ _ _ hl e, ?_⟩
  unfold unexpected at e
  obtain ⟨_, _, _, e3⟩ := bind_ok.mp e
  obtain ⟨rfl, _⟩ := pure_ok.mp e3
  trivial

/-! ### the list of active formatting elements -/

theorem pres_reconstructCreate : ∀ (fuel i : Nat), Pres (reconstructCreate fuel i)
  | 0, _ => by unfold reconstructCreate; infer_instance
  | n + 1, i => by
    haveI := fun k => pres_reconstructCreate n k
    unfold reconstructCreate
    tb_walk
instance (fuel i : Nat) : Pres (reconstructCreate fuel i) := pres_reconstructCreate fuel i

instance : Pres reconstructActiveFormattingElements := by
  unfold reconstructActiveFormattingElements; tb_walk

instance (tag : Tag) : Pres (createFormattingElementFor tag) := by
  unfold createFormattingElementFor; tb_walk

instance (tag : Tag) (ns : Str) : PresR (enterForeign tag ns) := by unfold enterForeign; tb_walk
instance (tag : Tag) : PresR (foreignStartTag tag) := by unfold foreignStartTag; tb_walk

/-! ### a small logic for handles in flight

`PL c m R`: started in a `Late` state in which the handles of `c.1` are elements and those of `c.2`
are loose (elements that are not children of the document), `m` ends in a `Late` state, and the
handles `R a` computed from its answer have the same two properties.  Both properties are stable
under `Ext`, so contexts are simply carried along binds. -/

abbrev Ctx := List Id × List Id

structure Ctx.ok (c : Ctx) (d : Dom) : Prop where
  el : ∀ x ∈ c.1, d.isElement x = true
  lo : ∀ x ∈ c.2, Loose d x

def Ctx.app (a b : Ctx) : Ctx := (a.1 ++ b.1, a.2 ++ b.2)

def Ctx.nil : Ctx := ([], [])

theorem Ctx.ok.ext {c : Ctx} {d d' : Dom} (h : c.ok d) (e : Ext d d') : c.ok d' :=
  ⟨fun x hx => e.chg.isElement (h.el x hx), fun x hx => (h.lo x hx).ext e⟩

theorem Ctx.ok_app {a b : Ctx} {d : Dom} (ha : a.ok d) (hb : b.ok d) : (a.app b).ok d :=
  ⟨fun x hx => by
      rcases List.mem_append.mp hx with h | h
      · exact ha.el x h
      · exact hb.el x h,
   fun x hx => by
      rcases List.mem_append.mp hx with h | h
      · exact ha.lo x h
      · exact hb.lo x h⟩

theorem Ctx.ok_nil (d : Dom) : Ctx.nil.ok d := ⟨fun _ h => (by cases h), fun _ h => (by cases h)⟩

/-- `x` is known to be an element in context `c` -/
def Ctx.elem (c : Ctx) (x : Id) : Prop := x ∈ c.1 ∨ x ∈ c.2

theorem Ctx.ok.elemOk {c : Ctx} {d : Dom} {x : Id} (h : c.ok d) (hx : c.elem x) : d.isElement x = true := by
  rcases hx with hx | hx
  · exact h.el x hx
  · exact (h.lo x hx).1

structure PL {α : Type} (c : Ctx) (m : M α) (R : α → Ctx) : Prop where
  p : ∀ s a s', Late s → c.ok s.dom → m s = .ok (a, s') → Late s' ∧ Ext s.dom s'.dom ∧ (R a).ok s'.dom

theorem PL.bind {α β : Type} {c : Ctx} {m : M α} {f : α → M β} {R : α → Ctx} {R' : β → Ctx}
    (h1 : PL c m R) (h2 : ∀ a, PL ((R a).app c) (f a) R') : PL c (m >>= f) R' := by
  constructor
  intro s b s'' hl hc e
  obtain ⟨a, s', e1, e2⟩ := bind_ok.mp e
  obtain ⟨l1, x1, r1⟩ := h1.p s a s' hl hc e1
  obtain ⟨l2, x2, r2⟩ := (h2 a).p s' b s'' l1 (Ctx.ok_app r1 (hc.ext x1)) e2
  exact ⟨l2, x1.trans x2, r2⟩

theorem PL.of_pres {α : Type} {c : Ctx} {m : M α} (h : Pres m) : PL c m (fun _ => Ctx.nil) :=
  ⟨fun s a s' hl _ e => let ⟨a, b⟩ := h.p s a s' hl e; ⟨a, b, Ctx.ok_nil _⟩⟩

theorem PL.weaken {α : Type} {c : Ctx} {m : M α} {R : α → Ctx} (h : PL c m R) : PL c m (fun _ => Ctx.nil) :=
  ⟨fun s a s' hl hc e => let ⟨a, b, _⟩ := h.p s a s' hl hc e; ⟨a, b, Ctx.ok_nil _⟩⟩

theorem PL.pure {α : Type} {c : Ctx} (a : α) {R : α → Ctx}
    (h : (∀ x ∈ (R a).1, c.elem x) ∧ (∀ x ∈ (R a).2, x ∈ c.2)) : PL c (Pure.pure a : M α) R := by
  constructor
  intro s b s' hl hc e
  obtain ⟨rfl, rfl⟩ := pure_ok.mp e
  exact ⟨hl, Ext.refl _, ⟨fun x hx => hc.elemOk (h.1 x hx), fun x hx => hc.lo x (h.2 x hx)⟩⟩

theorem PL.pure_nil {α : Type} {c : Ctx} (a : α) : PL c (Pure.pure a : M α) (fun _ => Ctx.nil) :=
  PL.of_pres inferInstance

theorem PL.ite {α : Type} {c : Ctx} {p : Prop} [Decidable p] {a b : M α} {R : α → Ctx}
    (h1 : PL c a R) (h2 : PL c b R) : PL c (if p then a else b) R := by
  by_cases hp : p
  · simp only [hp, if_true]; exact h1
  · simp only [hp, if_false]; exact h2

theorem PL.dite {α : Type} {c : Ctx} {p : Prop} [Decidable p] {a b : M α} {R : α → Ctx}
    (h1 : p → PL c a R) (h2 : ¬p → PL c b R) : PL c (if p then a else b) R := by
  by_cases hp : p
  · simp only [hp, if_true]; exact h1 hp
  · simp only [hp, if_false]; exact h2 hp

theorem PL.throw {α : Type} {c : Ctx} (e : String) {R : α → Ctx} : PL c (throw e : M α) R :=
  ⟨fun _ _ _ _ _ h => absurd h throw_ok⟩

theorem PL.toPres {α : Type} {m : M α} {R : α → Ctx} (h : PL Ctx.nil m R) : Pres m :=
  ⟨fun s a s' hl e => let ⟨a, b, _⟩ := h.p s a s' hl (Ctx.ok_nil _) e; ⟨a, b⟩⟩

theorem PL.toPresR {m : M ProcessResult} {R : ProcessResult → Ctx} (h : PL Ctx.nil m R)
    (hr : ∀ s a s', m s = .ok (a, s') → ResOk a) : PresR m :=
  ⟨fun s a s' hl e => let ⟨x, y, _⟩ := h.p s a s' hl (Ctx.ok_nil _) e; ⟨⟨x, y⟩, hr s a s' e⟩⟩

/-- reading the state: the continuation is proved for the very state read, with the invariant at hand -/
theorem PL.ofGetS {β : Type} {c : Ctx} {f : State → M β} {R : β → Ctx}
    (h : ∀ s, Late s → c.ok s.dom → ∀ a s', f s s = .ok (a, s') → Late s' ∧ Ext s.dom s'.dom ∧ (R a).ok s'.dom) :
    PL c (getS >>= f) R :=
  ⟨fun s a s' hl hc e => by rw [getS_bind] at e; exact h s hl hc a s' e⟩

/-! leaves -/

theorem PL.create {c : Ctx} (name : QualName) (attrs : List Attr) (dup : Bool) :
    PL c (createElementWithFlags name attrs dup) (fun el => ([], [el])) :=
  ⟨fun s a s' hl _ e => by
    obtain ⟨l, x, lo, _, _⟩ := createElementWithFlags_spec hl e
    exact ⟨l, x, ⟨fun _ h => (by cases h), fun y hy => (by simp at hy; subst hy; exact lo)⟩⟩⟩

theorem PL.insertElement {c : Ctx} (pushIt : Bool) (ns name : Str) (attrs : List Attr) (dup : Bool) :
    PL c (insertElement pushIt ns name attrs dup) (fun el => ([], [el])) :=
  ⟨fun s a s' hl _ e => by
    obtain ⟨l, x, lo⟩ := insertElement_spec hl e
    exact ⟨l, x, ⟨fun _ h => (by cases h), fun y hy => (by simp at hy; subst hy; exact lo)⟩⟩⟩

theorem PL.removeFromParent {c : Ctx} {x : Id} (hx : x ∈ c.2) :
    PL c (sinkUnit (.removeFromParent x)) (fun _ => Ctx.nil) :=
  ⟨fun s a s' hl hc e => by
    obtain ⟨out, e⟩ := sinkUnit_ok.mp e
    obtain ⟨d, hd, rfl⟩ := sink_ok.mp e
    obtain ⟨hb', hc', _, _, _, hsame⟩ := removeFromParent_spec hl.base (apply_remove hd)
    obtain ⟨l, x⟩ := hl.dom hb' hc' (hsame 0 (hc.lo _ hx).2)
    exact ⟨l, x, Ctx.ok_nil _⟩⟩

theorem PL.appendNode {c : Ctx} {p x : Id} (hp : c.elem p) (hx : x ∈ c.2) :
    PL c (sinkUnit (.append p (.node x))) (fun _ => Ctx.nil) :=
  ⟨fun s a s' hl hc e => by
    have hpe := hc.elemOk hp
    have hip : IpOk s.dom (.lastChild p) := ⟨ne_zero_of_isElement hl.base hpe, isContainer_of_isElement hpe⟩
    have e' : H5V.Model.HtmlTB.insertAt (.lastChild p) (.node x) s = .ok (a, s') := e
    obtain ⟨l, x, _⟩ := insertAt_spec (child := .node x) hl hip (hc.lo _ hx).childOk e'
    exact ⟨l, x, Ctx.ok_nil _⟩⟩

theorem PL.reparent {c : Ctx} {n np : Id} (hn : c.elem n) (hnp : c.elem np) :
    PL c (sinkUnit (.reparentChildren n np)) (fun _ => Ctx.nil) :=
  ⟨fun s a s' hl hc e => by
    have hne := hc.elemOk hn
    have hnpe := hc.elemOk hnp
    obtain ⟨out, e⟩ := sinkUnit_ok.mp e
    obtain ⟨d, hd, rfl⟩ := sink_ok.mp e
    obtain ⟨hb', hc', hk⟩ := reparentChildren_spec hl.base (ne_zero_of_isElement hl.base hne)
      (ne_zero_of_isElement hl.base hnpe) (isContainer_of_isElement hnpe) (apply_reparent hd)
    obtain ⟨l, x⟩ := hl.dom hb' hc' hk
    exact ⟨l, x, Ctx.ok_nil _⟩⟩

theorem PL.insertAppropriatelyNode {c : Ctx} {x : Id} (o : Option Id) (hx : x ∈ c.2) :
    PL c (insertAppropriately (.node x) o) (fun _ => Ctx.nil) :=
  ⟨fun s a s' hl hc e => by
    obtain ⟨l, x⟩ := insertAppropriately_spec (child := .node x) hl (Or.inl (hc.lo _ hx)) e
    exact ⟨l, x, Ctx.ok_nil _⟩⟩

theorem PL.push {c : Ctx} {x : Id} (hx : x ∈ c.2) : PL c (push x) (fun _ => Ctx.nil) :=
  ⟨fun s a s' hl hc e => by
    obtain ⟨l, hd⟩ := push_spec hl (hc.lo _ hx) e
    exact ⟨l, by rw [hd]; exact Ext.refl _, Ctx.ok_nil _⟩⟩

theorem Late.setOpen {s : State} (h : Late s) {l : List Id} {af : List FormatEntry}
    (h1 : ∀ e ∈ l, e ∈ s.openElems ∨ Loose s.dom e) (h2 : ∀ e ∈ l.tail, e ∈ s.openElems.tail ∨ Loose s.dom e) :
    Late { s with openElems := l, activeFormatting := af } := by
  refine ⟨h.base, h.pat, ⟨h.st.doc, h.st.ctx, ?_, ?_, h.st.head, h.st.ptt⟩, ⟨h.ml.mode, h.ml.orig, h.ml.tm⟩⟩
  · intro e he
    rcases h1 e he with h' | h'
    · exact h.st.oe e h'
    · exact h'.1
  · intro e he
    rcases h2 e he with h' | h'
    · exact h.st.tail e h'
    · exact h'.2

theorem mem_set_imp {l : List Id} {i : Nat} {x e : Id} (h : e ∈ l.set i x) : e ∈ l ∨ e = x := by
  rcases List.mem_or_eq_of_mem_set h with h | h
  · exact Or.inl h
  · exact Or.inr h

theorem tail_set (l : List Id) (i : Nat) (x : Id) :
    (l.set i x).tail = match i with | 0 => l.tail | j + 1 => l.tail.set j x := by
  cases l with
  | nil => cases i <;> simp
  | cons a r => cases i <;> simp

/-- `open_elems[i] = new` (and any update of the formatting list) with a loose `new` -/
theorem PL.setOpen {c : Ctx} {x : Id} (hx : x ∈ c.2) (i : Nat) (g : State → List FormatEntry) :
    PL c (modS fun s => { s with openElems := s.openElems.set i x, activeFormatting := g s })
      (fun _ => Ctx.nil) :=
  ⟨fun s a s' hl hc e => by
    rw [modS_ok.mp e]
    refine ⟨hl.setOpen ?_ ?_, Ext.refl _, Ctx.ok_nil _⟩
    · intro e he
      rcases mem_set_imp he with h | rfl
      · exact Or.inl h
      · exact Or.inr (hc.lo _ hx)
    · intro e he
      rw [tail_set] at he
      cases i with
      | zero => exact Or.inl he
      | succ j =>
        rcases mem_set_imp he with h | rfl
        · exact Or.inl h
        · exact Or.inr (hc.lo _ hx)⟩

theorem mem_insertIdx_imp {l : List Id} {i : Nat} {x e : Id} (h : e ∈ l.insertIdx i x) : e ∈ l ∨ e = x := by
  by_cases hi : i ≤ l.length
  · rcases (List.mem_insertIdx hi).mp h with h | h
    · exact Or.inr h
    · exact Or.inl h
  · rw [List.insertIdx_of_length_lt (Nat.lt_of_not_le hi)] at h
    exact Or.inl h

theorem mem_tail_insertIdx_succ {l : List Id} {i : Nat} {x e : Id} (h : e ∈ (l.insertIdx (i + 1) x).tail) :
    e ∈ l.tail ∨ e = x := by
  cases l with
  | nil => simp at h
  | cons a r =>
    simp only [List.insertIdx_succ_cons, List.tail_cons] at h
    exact mem_insertIdx_imp h

/-- `open_elems.insert(i + 1, new)` with a loose `new` -/
theorem PL.insertOpen {c : Ctx} {x : Id} (hx : x ∈ c.2) (i : Nat) :
    PL c (modS fun s => { s with openElems := s.openElems.insertIdx (i + 1) x }) (fun _ => Ctx.nil) :=
  ⟨fun s a s' hl hc e => by
    rw [modS_ok.mp e]
    have := hl.setOpen (l := s.openElems.insertIdx (i + 1) x) (af := s.activeFormatting) ?_ ?_
    · exact ⟨this, Ext.refl _, Ctx.ok_nil _⟩
    · intro e he
      rcases mem_insertIdx_imp he with h | rfl
      · exact Or.inl h
      · exact Or.inr (hc.lo _ hx)
    · intro e he
      rcases mem_tail_insertIdx_succ he with h | rfl
      · exact Or.inl h
      · exact Or.inr (hc.lo _ hx)⟩

/-- `open_elems[i]` is an element -/
theorem PL.readOpen {c : Ctx} (i : Nat) (site1 site2 site3 : String) :
    PL c (do match (← getS).openElems[i]? with
            | some n => Pure.pure n
            | none => panicAt site1 site2 site3 : M Id) (fun n => ([n], [])) := by
  apply PL.ofGetS
  intro s hl hc a s' e
  cases hi : s.openElems[i]? with
  | none => simp only [hi] at e; exact absurd e panicAt_ok
  | some n =>
    simp only [hi] at e
    obtain ⟨rfl, rfl⟩ := pure_ok.mp e
    refine ⟨hl, Ext.refl _, ⟨?_, fun _ h => (by cases h)⟩⟩
    intro x hx
    simp at hx; subst hx
    exact hl.st.oe _ (List.mem_of_getElem? hi)

theorem PL.panic_bind {α β : Type} {c : Ctx} (a b t : String) (f : α → M β) {R : β → Ctx} :
    PL c (panicAt a b t >>= f) R :=
  ⟨fun _ _ _ _ _ e => by obtain ⟨_, _, e1, _⟩ := bind_ok.mp e; exact absurd e1 panicAt_ok⟩

theorem findFurthestBlock_mem : ∀ (l : List Id) (i : Nat) (s s' : State) (j : Nat) (e : Id),
    findFurthestBlock l i s = .ok (some (j, e), s') → e ∈ l
  | [], _, s, s', j, e, h => by
    unfold findFurthestBlock at h
    obtain ⟨h1, _⟩ := pure_ok.mp h
    cases h1
  | x :: rest, i, s, s', j, e, h => by
    unfold findFurthestBlock at h
    obtain ⟨b, s1, e1, e2⟩ := bind_ok.mp h
    by_cases hb : b = true
    · simp only [hb, if_true] at e2
      obtain ⟨h1, _⟩ := pure_ok.mp e2
      cases h1
      simp
    · simp only [hb] at e2
      exact List.mem_cons_of_mem _ (findFurthestBlock_mem rest (i + 1) s1 s' j e e2)

/-- what is known about the furthest block found above stack index `k` -/
def fbCtx (k : Nat) : Option (Nat × Id) → Ctx
  | some (_, e) => if (k == 0) = true then Ctx.nil else ([], [e])
  | none => Ctx.nil

theorem PL.furthest {β : Type} {c : Ctx} {k : Nat} {f : Option (Nat × Id) → M β} {R : β → Ctx}
    (h : ∀ r, PL ((fbCtx k r).app c) (f r) R) :
    PL c (getS >>= fun s => findFurthestBlock (List.drop k s.openElems) k >>= f) R := by
  apply PL.ofGetS
  intro s hl hc a s' e
  obtain ⟨r, s1, e1, e2⟩ := bind_ok.mp e
  obtain ⟨q1, m1⟩ := (inferInstance : Quiet (findFurthestBlock (List.drop k s.openElems) k)).q _ _ _ hl.ml e1
  have hl1 := hl.qrel q1 m1
  have hctx : (fbCtx k r).ok s1.dom := by
    cases r with
    | none => exact Ctx.ok_nil _
    | some p =>
      obtain ⟨j, el⟩ := p
      unfold fbCtx
      by_cases hk : (k == 0) = true
      · simp only [hk, if_true]; exact Ctx.ok_nil _
      · simp only [hk]
        refine ⟨fun _ h => (by cases h), fun y hy => ?_⟩
        simp at hy; subst hy
        have hmem := findFurthestBlock_mem _ _ _ _ _ _ e1
        have hk' : k ≠ 0 := by intro h0; subst h0; simp at hk
        have htail : y ∈ s.openElems.tail := by
          obtain ⟨k', rfl⟩ := Nat.exists_eq_succ_of_ne_zero hk'
          rw [← List.drop_one]
          have hd : List.drop (k' + 1) s.openElems = List.drop k' (List.drop 1 s.openElems) := by
            rw [List.drop_drop, Nat.add_comm]
          rw [hd] at hmem
          exact List.mem_of_mem_drop hmem
        have : Loose s.dom y := ⟨hl.st.oe y (List.mem_of_mem_tail htail), hl.st.tail y htail⟩
        exact this.ext q1.sk.ext
  obtain ⟨l2, x2, r2⟩ := (h r).p s1 a s' hl1 (Ctx.ok_app hctx (hc.ext q1.sk.ext)) e2
  exact ⟨l2, q1.sk.ext.trans x2, r2⟩

end H5V.Props.C06
