import H5V.Lemmas.HtmlTBModesBodyDefs
import H5V.Lemmas.HtmlTBModesPrimPop
import H5V.Lemmas.HtmlTBModesPrimIns2
import H5V.Lemmas.HtmlTBModesPrimFmt2
import H5V.Lemmas.HtmlTBModesSmall2
/-!
"in body", slice 1: the non-tag tokens (comment, U+0000, end of file, runs of characters) and the tag
arms `html`, the start tags handed to "in head" and `</template>`, `body`, `frameset`, `</body>`,
`</html>`.
-/
namespace H5V.Lemmas.HtmlTBModes
open H5V.Model.HtmlTB
open H5V.Model.Dom (Id SinkOp Output Dom QualName Attr NodeOrText ElementFlags NodeData QuirksMode)
open H5V.Lemmas.HtmlTBAlgo
open H5V.Lemmas.TBSafe (TI HInv SInv Rooted)
open H5V.Spec.TreeAlgo2 (Elem Entry PState Ctx Edit Place)
open H5V.Spec.TreeModes (STok ETok IMode Config Out TokSwitch XOp Op Step Edition)

/-! ### (A) the non-tag tokens -/

theorem body_comment (d : Str) : ∀ s, MInv s →
    PC (stepInBody (.comment d)) s (TokPost (fun σ => Spec.TreeModes.inBody (cfgOf s) σ (stokOf (.comment d))) s (.comment d)) := by
  intro s hm
  simp only [stepInBody]
  refine pc_conseq (pc_appendComment' hm d) ?_
  rintro r s' calls _ ⟨rfl, htr⟩
  refine tokPost_of_tr htr trivial ?_
  intro x x' hx hx' hr
  refine ⟨x', ?_, AuxSame.rfl', Or.inl rfl, rfl, rfl⟩
  simp only [stokOf, Spec.TreeModes.inBody, hr]
  rfl

theorem body_nullChar : ∀ s, MInv s →
    PC (stepInBody .nullChar) s (TokPost (fun σ => Spec.TreeModes.inBody (cfgOf s) σ (stokOf .nullChar)) s .nullChar) := by
  intro s hm
  have h0 : ('\x00' == '\x00') = true := by decide
  simp only [stepInBody, stokOf, Spec.TreeModes.inBody, h0, if_true]
  exact pc_unexpected_err hm _ _

/-! #### end of file -/

/-- "pop the current template insertion mode off the stack of template insertion modes" -/
theorem b1_pc_dropTm {s : State} (hm : MInv s) :
    PC (modS fun s => { s with templateModes := s.templateModes.dropLast }) s (fun _ s' calls =>
      s' = { s with templateModes := s.templateModes.dropLast } ∧
      Tr s s' calls (fun x x' => x' = x ∧
        absF s' x' = { absF s x with templateModes := (absF s x).templateModes.dropLast })) := by
  refine pc_modS rfl rfl ⟨rfl, ?_⟩
  refine (Tr.of_upd (s' := { s with templateModes := s.templateModes.dropLast }) hm rfl (fun _ h => h)
    (MInv.of_fields' hm (TBSafe.Ext.refl _) rfl rfl rfl rfl (fun _ h => mem_of_mem_dropLast' h)) rfl).conseq ?_
  rintro x x' _ _ rfl
  refine ⟨rfl, ?_⟩
  simp only [absF, List.map_dropLast]
  rfl

theorem b1_imode_inj {a b : Mode} (h : imode a = imode b) : a = b := by
  cases a <;> cases b <;> first | rfl | cases h

/-- the insertion mode "reset the insertion mode appropriately" switches to -/
def b1_resetMode (cfg : Config Id) (σ : SState) : Spec.TreeModes.M IMode :=
  match cfg.edition with
  | .customizableSelect =>
    Spec.TreeModes.req ((Spec.TreeAlgo.resetInsertionMode (cfg.context.map (fun c : Elem Id => c.name)) σ.headPointer.isNone
      (σ.templateModes.getLast?.bind IMode.toAlgo) σ.names).map IMode.ofAlgo)
      "reset the insertion mode appropriately: no current template insertion mode"
  | .selectModes =>
    Spec.TreeModes.req (Spec.TreeModes.resetLegacy (cfg.context.map (fun c : Elem Id => c.name)) σ.headPointer.isNone
      (σ.templateModes.getLast?.bind IMode.toAlgo) σ.names)
      "reset the insertion mode appropriately: no current template insertion mode"

theorem b1_reset_eq (cfg : Config Id) (σ : SState) :
    Spec.TreeModes.resetInsertionMode cfg σ = (b1_resetMode cfg σ >>= fun m => pure (σ.setMode m)) := by
  unfold Spec.TreeModes.resetInsertionMode b1_resetMode
  cases cfg.edition <;> rfl

/-- "reset the insertion mode appropriately" does not look at the insertion mode -/
theorem b1_reset_idem {cfg : Config Id} {σ σ' : SState} (h : Spec.TreeModes.resetInsertionMode cfg σ = .ok σ') :
    Spec.TreeModes.resetInsertionMode cfg σ' = .ok σ' := by
  rw [b1_reset_eq] at h ⊢
  cases hm : b1_resetMode cfg σ with
  | error e => rw [hm] at h; cases h
  | ok m =>
    rw [hm] at h
    have : σ' = σ.setMode m := by cases h; rfl
    subst this
    have e : b1_resetMode cfg (σ.setMode m) = b1_resetMode cfg σ := rfl
    rw [e, hm]
    rfl

/-- an `Aux` for every state -/
theorem b1_auxOk_exists {s : State} (hm : MInv s) (sup : List Id) : ∃ x, AuxOk s x ∧ x.supply = sup := by
  refine ⟨{ supply := sup, annot := s.openElems.filter (fun h => ipOfDom s.dom h) }, ⟨rfl, ?_, ?_, ?_⟩, rfl⟩
  · intro h hh _
    show (s.openElems.filter (fun h => ipOfDom s.dom h)).contains h = _
    cases hi : ipOfDom s.dom h with
    | true => simp [List.mem_filter, hh, hi]
    | false =>
      have : ¬ h ∈ s.openElems.filter (fun h => ipOfDom s.dom h) := by simp [List.mem_filter, hi]
      simpa [List.contains_iff_mem] using this
  · intro a ha
    exact hm.elems a (List.mem_filter.mp ha).1
  · exact ⟨by simp, by simp⟩

/-- a stretch that keeps the stack of template insertion modes of the abstract state keeps the model's -/
theorem b1_tr_tm {s s' : State} {c : List Call} {R : Aux → Aux → Prop} (hm : MInv s) (h : Tr s s' c R)
    (hR : ∀ x x', AuxOk s x → AuxOk s' x' → R x x' → (absF s' x').templateModes = (absF s x).templateModes) :
    s'.templateModes = s.templateModes := by
  obtain ⟨hm', -, -, ids, hfi, f⟩ := h
  obtain ⟨x, hx, hsup⟩ := b1_auxOk_exists hm ids
  obtain ⟨x', l, r⟩ := f x [] hx (by simp [hsup])
  exact (List.map_inj_right (fun a b => b1_imode_inj)).mp (hR x x' hx l.aux r)

theorem b1_tr_tm_query {s s' : State} {c : List Call} {P : Aux → Prop} (hm : MInv s)
    (h : Tr s s' c (fun x x' => x' = x ∧ absF s x = absF s' x ∧ P x)) : s'.templateModes = s.templateModes :=
  b1_tr_tm hm h (by rintro x x' _ _ ⟨hx, e, -⟩; subst x'; rw [e])

/-- **An end-of-file token** in "in template" (also reached from "in body") -/
theorem b1_inTemplateEof {s : State} (hm : MInv s) (htm : ∀ m ∈ s.templateModes, m ≠ .inTableText) :
    PC inTemplateEof s (TokPost (fun σ => Spec.TreeModes.inTemplateEof (cfgOf s) σ) s .eof) := by
  unfold inTemplateEof
  refine pc_seq (pc_inHtmlElemNamed_template hm) ?_
  rintro b s1 c1 _ htr1
  have hm1 : MInv s1 := htr1.1
  have ht1 : s1.templateModes = s.templateModes := b1_tr_tm_query hm htr1
  cases b with
  | false =>
    simp only [Bool.not_false, if_true]
    refine pc_pure (tokPost_of_tr (by rw [List.append_nil]; exact htr1) trivial ?_)
    rintro x x' hx hx' ⟨hxx, e, hb⟩
    subst x'
    refine ⟨{ x with stopped := true }, ?_, ⟨rfl, rfl, rfl, rfl, rfl⟩, Or.inr ⟨rfl, rfl⟩, rfl, rfl⟩
    simp only [Spec.TreeModes.inTemplateEof, ← hb, Bool.not_false, if_true]
    rw [e]
    rfl
  | true =>
    simp only [Bool.not_true, Bool.false_eq_true, if_false]
    refine pc_seq (pc_unexpected hm1) ?_
    rintro _ s2 c2 _ ⟨-, htr2⟩
    have hm2 : MInv s2 := htr2.1
    have ht2 : s2.templateModes = s1.templateModes :=
      b1_tr_tm hm1 htr2 (by rintro x x' _ _ ⟨hx, e⟩; subst x'; rw [e])
    refine pc_seq (pc_popUntilNamed hm2 "template") ?_
    rintro k s3 c3 _ htr3
    have hm3 : MInv s3 := htr3.1
    have ht3 : s3.templateModes = s2.templateModes :=
      b1_tr_tm hm2 htr3 (by rintro x x' _ _ ⟨hx, e, -⟩; subst x'; rw [e]; rfl)
    refine pc_seq (pc_clearActiveFormattingToMarker hm3) ?_
    rintro _ s4 c4 _ ⟨hs4, htr4⟩
    have hm4 : MInv s4 := htr4.1
    have ht4 : s4.templateModes = s3.templateModes := by rw [hs4]
    refine pc_seq (b1_pc_dropTm hm4) ?_
    rintro _ s5 c5 _ ⟨hs5, htr5⟩
    have hm5 : MInv s5 := htr5.1
    have ht5 : s5.templateModes = s.templateModes.dropLast := by rw [hs5, ← ht1, ← ht2, ← ht3, ← ht4]
    have htm5 : s5.templateModes.getLast? ≠ some .inTableText := by
      rw [ht5]
      intro e
      exact htm _ (List.dropLast_subset _ (List.mem_of_getLast? e)) rfl
    refine pc_seq (pc_resetInsertionMode hm5) ?_
    rintro m1 s5' c5' _ ⟨hs5', hne1, htr5'⟩
    refine pc_seq (pc_setMode_junk htr5'.1 m1 (fun h => htm5 (hne1 h))) ?_
    rintro _ s6 c6' _ ⟨-, htr6'⟩
    have htr6 : Tr s5 s6 (c5' ++ c6') (fun x x' =>
        Spec.TreeModes.resetInsertionMode (cfgOf s5) (absF s5 x) = .ok (absF s6 x')) := by
      refine (htr5'.trans htr6').conseq ?_
      rintro x x2 _ _ ⟨x1, ⟨hx1, e1, r1⟩, _, r2⟩
      subst hx1
      rw [r1, r2, e1]
    have hm6 : MInv s6 := htr6.1
    refine pc_seq (pc_resetInsertionMode hm6) ?_
    rintro m2 s7 c7 _ ⟨hs7, -, htr7⟩
    refine pc_pure ?_
    have hall := ((((((((Tr.err hm "in template: end of file").trans htr1).trans htr2).trans htr3).trans htr4).trans
      htr5).trans htr6).trans htr7)
    simp only [List.nil_append, List.append_nil, List.append_assoc] at hall ⊢
    refine tokPost_of_tr hall rfl ?_
    rintro x x7 hx hx7 ⟨x6, ⟨x5, ⟨x4, ⟨x3, ⟨x2, ⟨x1, ⟨x0, hx0, hx1, e1, hb⟩, hx2, e2⟩, hx3, e3, -⟩, hx4, e4⟩, hx5, e5⟩, e6⟩, hx7', e7, e7'⟩
    subst x7 x5 x4 x3 x2 x1
    have hc5 : cfgOf s5 = cfgOf s :=
      htr5.2.1.trans (htr4.2.1.trans (htr3.2.1.trans (htr2.2.1.trans htr1.2.1)))
    have hid := b1_reset_idem e6
    rw [← htr6.2.1, e7'] at hid
    have hmode : imode m2 = imode s6.mode := by
      have := congrArg Spec.TreeModes.State.mode (Except.ok.inj hid)
      exact this
    have hm2 : m2 = s7.mode := by rw [hs7.fields.mode]; exact b1_imode_inj hmode
    subst hm2
    refine ⟨x6, ?_, AuxSame.rfl', Or.inl rfl, rfl, rfl⟩
    have hb' : (absF s x).templateOnStack = true := by subst hx0; exact hb.symm
    have key : ({ ((Spec.TreeModes.popUntilPopped ((absF s x).err "in template: end of file") "template").clearToLastMarker) with
        templateModes := ((Spec.TreeModes.popUntilPopped ((absF s x).err "in template: end of file") "template").clearToLastMarker).templateModes.dropLast } : SState)
        = absF s5 x0 := by
      subst hx0
      rw [e5, ← e4, e3, ← e2, ← e1]
      rfl
    simp only [Spec.TreeModes.inTemplateEof, hb', Bool.not_true, Bool.false_eq_true, if_false]
    rw [key, ← hc5, e6]
    show _ = Except.ok (Step.reprocess (absF s7 x6))
    rw [← e7]
    rfl

theorem body_eof : ∀ s, MInv s → (∀ m ∈ s.templateModes, m ≠ .inTableText) →
    PC (stepInBody .eof) s (TokPost (fun σ => Spec.TreeModes.inBody (cfgOf s) σ (stokOf .eof)) s .eof) := by
  intro s hm htm
  simp only [stepInBody, stokOf, Spec.TreeModes.inBody]
  refine pc_getS_bind ?_
  have hemp : ∀ x, (absF s x).templateModes.isEmpty = s.templateModes.isEmpty := by
    intro x; simp [absF]
  cases hte : s.templateModes.isEmpty with
  | false =>
    simp only [Bool.not_false, if_true]
    refine pc_tokPost_congr (b1_inTemplateEof hm htm) ?_
    intro x hx
    simp only [hemp, hte, Bool.not_false, if_true]
  | true =>
    simp only [Bool.not_true, Bool.false_eq_true, if_false]
    refine pc_seq (pc_checkBodyEnd hm "in body: end of file with open elements") ?_
    rintro _ s1 c1 _ htr
    refine pc_pure (tokPost_of_tr (by rw [List.append_nil]; exact htr) trivial ?_)
    rintro x x' hx hx' ⟨hxx, e⟩
    refine ⟨{ x' with stopped := true }, ?_, ⟨rfl, rfl, rfl, rfl, rfl⟩, Or.inr ⟨rfl, rfl⟩, rfl, rfl⟩
    simp only [hemp, hte, Bool.not_true, Bool.false_eq_true, if_false]
    rw [← e]
    rfl

/-! #### runs of characters -/

section ReconStack
variable {N T : Type} [DecidableEq N]

omit [DecidableEq N] in
/-- the create loop of "reconstruct the active formatting elements" pushes HTML elements -/
theorem b1_reconstructCreate_stack (cx : Ctx T) : ∀ (n i : Nat) (st st' : PState N T),
    Spec.TreeAlgo2.reconstructCreate cx n i st = some st' →
    ∃ new, st'.stack = st.stack ++ new ∧ (∀ e ∈ new, e.name.ns = Spec.TreeAlgo.nsHtml) ∧ (new ≠ [] → st.stack ≠ []) := by
  intro n
  induction n with
  | zero =>
    intro i st st' h
    simp only [Spec.TreeAlgo2.reconstructCreate, Option.some.injEq] at h
    subst h
    exact ⟨[], by simp, by simp, by simp⟩
  | succ n ih =>
    intro i st st' h
    unfold Spec.TreeAlgo2.reconstructCreate at h
    cases hi : st.list[i]? with
    | none => rw [hi] at h; cases h
    | some e =>
      cases e with
      | marker => rw [hi] at h; cases h
      | element x tok =>
        rw [hi] at h
        simp only [Spec.TreeAlgo2.insertHtmlElement] at h
        cases hins : Spec.TreeAlgo2.insertForeignElement cx st tok Spec.TreeAlgo.nsHtml false with
        | none => rw [hins] at h; cases h
        | some r =>
          obtain ⟨st1, el⟩ := r
          rw [hins] at h
          simp only [Option.bind_some] at h
          obtain ⟨m, L, hsup, hel, hstack, hlist, hlog, hc, hne, _, _⟩ := insertForeignElement_some hins
          have helns : el.name.ns = Spec.TreeAlgo.nsHtml := by rw [hel]
          split at h
          · obtain ⟨new, h1, h2, h3⟩ := ih _ _ _ h
            refine ⟨el :: new, ?_, ?_, fun _ => hne⟩
            · rw [h1]; simp [hstack]
            · intro e he
              rcases List.mem_cons.mp he with he | he
              · rw [he]; exact helns
              · exact h2 e he
          · simp only [Option.some.injEq] at h
            subst h
            refine ⟨[el], by simp [hstack], ?_, fun _ => hne⟩
            intro e he
            rw [List.mem_singleton.mp he]; exact helns

theorem b1_reconstruct_stack (cx : Ctx T) (st st' : PState N T)
    (h : Spec.TreeAlgo2.reconstructActiveFormattingElements cx st = some st') :
    ∃ new, st'.stack = st.stack ++ new ∧ (∀ e ∈ new, e.name.ns = Spec.TreeAlgo.nsHtml) ∧ (new ≠ [] → st.stack ≠ []) := by
  unfold Spec.TreeAlgo2.reconstructActiveFormattingElements at h
  cases hl : st.list.getLast? with
  | none => rw [hl] at h; simp only [Option.some.injEq] at h; subst h; exact ⟨[], by simp, by simp, by simp⟩
  | some last =>
    rw [hl] at h
    simp only [] at h
    split at h
    · simp only [Option.some.injEq] at h; subst h; exact ⟨[], by simp, by simp, by simp⟩
    · exact b1_reconstructCreate_stack cx _ _ _ _ h

end ReconStack

theorem b1_acn_two {α : Type} (a b : α) (l : List α) (ctx : Option α) :
    Spec.TreeAlgo.adjustedCurrentNode (a :: b :: l) ctx = some a := by
  cases ctx <;> rfl

/-- after "reconstruct the active formatting elements": what the dispatcher looks at -/
theorem b1_reconstruct_disp {cfg : Config Id} {σ σ' : SState} (h : Spec.TreeModes.reconstruct σ = .ok σ') :
    σ'.mode = σ.mode ∧ σ'.stopped = σ.stopped ∧ σ'.ignoreLf = σ.ignoreLf ∧
    (Spec.TreeAlgo.useHtmlRules (Spec.TreeModes.adjustedCurrentNode cfg σ) .character = true →
      Spec.TreeAlgo.useHtmlRules (Spec.TreeModes.adjustedCurrentNode cfg σ') .character = true) := by
  unfold Spec.TreeModes.reconstruct at h
  cases hr : Spec.TreeAlgo2.reconstructActiveFormattingElements Spec.TreeModes.cx σ.p with
  | none => rw [hr] at h; cases h
  | some p =>
    rw [hr] at h
    have : σ' = { σ with p := p } := by cases h; rfl
    subst this
    refine ⟨rfl, rfl, rfl, ?_⟩
    obtain ⟨new, hst, hall, hne⟩ := b1_reconstruct_stack _ _ _ hr
    intro hu
    cases hrv : new.reverse with
    | nil =>
      have hn : new = [] := List.reverse_eq_nil_iff.mp hrv
      rw [hn, List.append_nil] at hst
      have := adjustedCurrentNode_congr (cfg := cfg) (σ := σ) (σ1 := { σ with p := p }) hst rfl
      rw [this]
      exact hu
    | cons a r =>
      have hn : new = r.reverse ++ [a] := by
        have := congrArg List.reverse hrv
        simpa using this
      have hane : new ≠ [] := by rw [hn]; simp
      have ha : a.name.ns = Spec.TreeAlgo.nsHtml := hall a (by rw [hn]; simp)
      have hs0 := hne hane
      unfold Spec.TreeModes.adjustedCurrentNode
      show Spec.TreeAlgo.useHtmlRules (Spec.TreeAlgo.adjustedCurrentNode (p.stack.reverse.map _) _) _ = true
      rw [hst, hn]
      simp only [List.reverse_append, List.reverse_cons, List.reverse_nil, List.nil_append, List.reverse_reverse,
        List.cons_append, List.map_cons]
      generalize hq : List.map (Spec.TreeModes.openElem { σ with p := p }) (r ++ σ.p.stack.reverse) = q
      cases q with
      | nil =>
        exfalso
        have : σ.p.stack = [] := by
          have := congrArg List.length hq
          simp at this
          exact this.2
        exact hs0 this
      | cons b l =>
        rw [b1_acn_two]
        simp [Spec.TreeAlgo.useHtmlRules, Spec.TreeModes.openElem, ha]

/-- what "in body" does with a character once the formatting elements are reconstructed -/
def b1_g (σ : SState) (c : Char) : Spec.TreeModes.M SState := do
  let σ' ← Spec.TreeModes.insertChar σ c
  pure (if Spec.TreeModes.isWs c then σ' else σ'.notOk)

theorem b1_inBody_char {cfg : Config Id} {σ σ1 : SState} {c : Char} (hc : c ≠ '\x00')
    (hr : Spec.TreeModes.reconstruct σ = .ok σ1) :
    Spec.TreeModes.inBody cfg σ (.character c) = (Step.done <$> b1_g σ1 c) := by
  have h0 : (c == '\x00') = false := by simp [hc]
  simp only [Spec.TreeModes.inBody, h0, Bool.false_eq_true, if_false, b1_g, hr]
  cases hw : Spec.TreeModes.isWs c <;> cases hi : Spec.TreeModes.insertChar σ1 c <;> simp [hi, bind, Except.bind, pure, Except.pure, Functor.map, Except.map]

theorem b1_g_ok {σ σ1 : SState} {c : Char} (h : b1_g σ c = .ok σ1) :
    ∃ σi, Spec.TreeModes.insertChar σ c = .ok σi ∧ σ1 = (if Spec.TreeModes.isWs c then σi else σi.notOk) := by
  unfold b1_g at h
  cases hi : Spec.TreeModes.insertChar σ c with
  | error e => rw [hi] at h; cases h
  | ok σi =>
    rw [hi] at h
    refine ⟨σi, rfl, ?_⟩
    cases h; rfl

theorem b1_sameDisp_notOk (σ : SState) : SameDisp σ σ.notOk := ⟨rfl, rfl, rfl, rfl, rfl⟩

theorem b1_g_disp {σ σ1 : SState} {c : Char} (h : b1_g σ c = .ok σ1) : SameDisp σ σ1 ∧ (ReconDone σ → ReconDone σ1) := by
  obtain ⟨σi, hi, h1⟩ := b1_g_ok h
  have sd := SameDisp.insertChar hi
  cases hw : Spec.TreeModes.isWs c
  · simp only [hw, Bool.false_eq_true, if_false] at h1
    subst h1
    refine ⟨⟨sd.stack, sd.annot, sd.mode, sd.stopped, sd.ignoreLf⟩, fun hd => ?_⟩
    have := reconDone_insertChar hd hi
    exact this
  · simp only [hw, if_true] at h1
    subst h1
    exact ⟨sd, fun hd => reconDone_insertChar hd hi⟩

/-- a run of characters, each handled by "in body", after the formatting elements were reconstructed -/
theorem b1_run {cfg : Config Id} : ∀ (t : Str) (σ σ' : SState), (∀ c ∈ t, c ≠ '\x00') → ReconDone σ →
    σ.stopped = false → σ.ignoreLf = false →
    Spec.TreeAlgo.useHtmlRules (Spec.TreeModes.adjustedCurrentNode cfg σ) .character = true →
    t.foldlM b1_g σ = .ok σ' → CharsRunK cfg (Spec.TreeModes.inBody cfg) σ t σ' := by
  intro t
  induction t with
  | nil =>
    intro σ σ' _ _ _ _ _ h
    cases h
    exact CharsRunK.nil σ
  | cons c cs ih =>
    intro σ σ' hnz hd hs hl hu h
    rw [List.foldlM_cons] at h
    cases h1 : b1_g σ c with
    | error e => rw [h1] at h; cases h
    | ok σ1 =>
      rw [h1] at h
      obtain ⟨sd, hd1⟩ := b1_g_disp h1
      have hu1 : Spec.TreeAlgo.useHtmlRules (Spec.TreeModes.adjustedCurrentNode cfg σ1) .character = true := by
        rw [adjustedCurrentNode_congr sd.stack sd.annot]; exact hu
      refine CharsRunK.cons ?_ sd.mode (sd.stopped.trans hs) (sd.ignoreLf.trans hl) hu1
        (ih σ1 σ' (fun c hc => hnz c (List.mem_cons_of_mem _ hc)) (hd1 hd) (sd.stopped.trans hs) (sd.ignoreLf.trans hl) hu1 h)
      rw [b1_inBody_char (hnz c List.mem_cons_self) (reconstruct_of_reconDone hd), h1]
      rfl

/-- the first character is handled in the state before the reconstruction -/
theorem b1_run_first {cfg : Config Id} {σ0 σ1 σ' : SState} {t : Str} (hne : t ≠ []) (hnz : ∀ c ∈ t, c ≠ '\x00')
    (hr : Spec.TreeModes.reconstruct σ0 = .ok σ1) (hmode : σ1.mode = σ0.mode)
    (h : CharsRunK cfg (Spec.TreeModes.inBody cfg) σ1 t σ') : CharsRunK cfg (Spec.TreeModes.inBody cfg) σ0 t σ' := by
  cases h with
  | nil => exact absurd rfl hne
  | cons e h2 h3 h4 h5 hrest =>
    refine CharsRunK.cons ?_ (h2.trans hmode) h3 h4 h5 hrest
    rw [b1_inBody_char (hnz _ List.mem_cons_self) hr, ← b1_inBody_char (hnz _ List.mem_cons_self) (reconstruct_idem hr)]
    exact e

theorem b1_fold_notOk : ∀ (t : Str) (σ σ' : SState), t.foldlM (fun σ c => Spec.TreeModes.insertChar σ c) σ = .ok σ' →
    t.foldlM (fun σ c => Spec.TreeModes.insertChar σ c) σ.notOk = .ok σ'.notOk := by
  intro t σ σ' h
  cases t with
  | nil => cases h; rfl
  | cons c cs =>
    cases hp : Spec.TreeAlgo2.appropriatePlace σ.p.stack σ.p.fosterParenting none with
    | none =>
      exfalso
      rw [List.foldlM_cons] at h
      have : Spec.TreeModes.insertChar σ c = .error "insert a character: no place" := by
        simp only [Spec.TreeModes.insertChar, Spec.TreeAlgo2.insertCharacters, hp, Option.map_none, Spec.TreeModes.req]
        rfl
      rw [this] at h
      cases h
    | some pl =>
      rw [foldlM_insertChar σ pl hp] at h
      rw [foldlM_insertChar σ.notOk pl hp]
      cases h
      rfl

theorem b1_fold_g : ∀ (t : Str) (σ σ' : SState), t.foldlM (fun σ c => Spec.TreeModes.insertChar σ c) σ = .ok σ' →
    t.foldlM b1_g σ = .ok (if t.all Spec.TreeModes.isWs then σ' else σ'.notOk) := by
  intro t
  induction t with
  | nil => intro σ σ' h; cases h; rfl
  | cons c cs ih =>
    intro σ σ' h
    rw [List.foldlM_cons] at h ⊢
    cases hi : Spec.TreeModes.insertChar σ c with
    | error e => rw [hi] at h; cases h
    | ok σi =>
      rw [hi] at h
      have hg : b1_g σ c = .ok (if Spec.TreeModes.isWs c then σi else σi.notOk) := by
        simp only [b1_g, hi]; rfl
      rw [hg]
      cases hw : Spec.TreeModes.isWs c with
      | true =>
        simp only [if_true, List.all_cons, hw, Bool.true_and]
        exact ih σi σ' h
      | false =>
        simp only [Bool.false_eq_true, if_false, List.all_cons, hw, Bool.false_and]
        have := ih σi.notOk σ'.notOk (b1_fold_notOk cs σi σ' h)
        show List.foldlM b1_g σi.notOk cs = _
        rw [this]
        cases cs.all Spec.TreeModes.isWs <;> rfl

theorem b1_fold_g_notOk (t : Str) (hne : t ≠ []) (σ σ3 : SState)
    (h : t.foldlM (fun σ c => Spec.TreeModes.insertChar σ c) σ.notOk = .ok σ3)
    (hall : t.all Spec.TreeModes.isWs = false) : t.foldlM b1_g σ = .ok σ3 := by
  cases hp : Spec.TreeAlgo2.appropriatePlace σ.p.stack σ.p.fosterParenting none with
  | none =>
    exfalso
    cases t with
    | nil => exact hne rfl
    | cons c cs =>
      rw [List.foldlM_cons] at h
      have : Spec.TreeModes.insertChar σ.notOk c = .error "insert a character: no place" := by
        simp only [Spec.TreeModes.insertChar, Spec.TreeAlgo2.insertCharacters]
        rw [show σ.notOk.p = σ.p from rfl, hp]
        rfl
      rw [this] at h
      cases h
  | some pl =>
    rw [foldlM_insertChar σ.notOk pl hp] at h
    have := b1_fold_g t σ _ (foldlM_insertChar σ pl hp t)
    rw [hall] at this
    simp only [Bool.false_eq_true, if_false] at this
    rw [this]
    cases h
    rfl

theorem b1_all_any (t : Str) : t.all Spec.TreeModes.isWs = !anyNotWhitespace t := by
  unfold anyNotWhitespace
  induction t with
  | nil => rfl
  | cons c cs ih => simp [List.all_cons, List.any_cons, ih, isWs_eq_ascii]

/-- **runs of characters** in "in body" -/
theorem simChars_inBody : StepSimChars stepInBody Spec.TreeModes.inBody := by
  intro st text hwf s hm hlf hdisp
  obtain ⟨hne, hnul, hcls⟩ := hwf
  have hnz : ∀ c ∈ text, c ≠ '\x00' := fun c hc e => hnul (e ▸ hc)
  simp only [stepInBody]
  refine pc_seq (pc_reconstruct hm) ?_
  rintro _ s1 c1 _ ⟨hS1, -, htr1⟩
  have hm1 : MInv s1 := htr1.1
  have hlf1 : s1.ignoreLf = s.ignoreLf := (sbsl_fields hS1).ignoreLf
  -- the specification's run, from the state after the reconstruction
  have hrun : ∀ x x1 σ3, AuxOk s x → Spec.TreeModes.reconstruct (absF s x) = .ok (absF s1 x1) →
      text.foldlM b1_g (absF s1 x1) = .ok σ3 →
      CharsRunK (cfgOf s) (Spec.TreeModes.inBody (cfgOf s)) (absF s x) text σ3 := by
    intro x x1 σ3 hx r1 hf
    obtain ⟨d1, d2, d3, d4⟩ := b1_reconstruct_disp (cfg := cfgOf s) r1
    exact b1_run_first hne hnz r1 d1 (b1_run text _ _ hnz (reconDone_of_reconstruct r1) (d2.trans hx.live) (d3.trans hlf)
      (d4 (hdisp x hx)) hf)
  cases hany : anyNotWhitespace text with
  | false =>
    simp only [Bool.false_eq_true, if_false]
    refine pc_conseq (pc_appendText hm1 text) ?_
    rintro r s3 c3 _ ⟨rfl, hs3, htr3⟩
    refine ⟨hs3.fields.ignoreLf.trans hlf1, (htr1.trans htr3).conseq ?_⟩
    rintro x x3 hx hx3 ⟨x1, r1, r3⟩
    refine hrun x x1 _ hx r1 ?_
    have := b1_fold_g text _ _ r3
    rw [b1_all_any, hany] at this
    exact this
  | true =>
    simp only [if_true]
    refine pc_seq (pc_setFramesetNotOk hm1) ?_
    rintro _ s2 c2 _ ⟨hs2, htr2⟩
    have hm2 : MInv s2 := htr2.1
    refine pc_conseq (pc_appendText hm2 text) ?_
    rintro r s3 c3 _ ⟨rfl, hs3, htr3⟩
    have hlf2 : s2.ignoreLf = s1.ignoreLf := by rw [hs2]
    rw [← List.append_assoc]
    refine ⟨hs3.fields.ignoreLf.trans (hlf2.trans hlf1), ((htr1.trans htr2).trans htr3).conseq ?_⟩
    rintro x x3 hx hx3 ⟨x2, ⟨x1, r1, hx2, r2⟩, r3⟩
    subst x2
    refine hrun x x1 _ hx r1 ?_
    rw [r2] at r3
    refine b1_fold_g_notOk text hne _ _ r3 ?_
    rw [b1_all_any, hany]
    rfl

/-! ### (B) the tag arms `html`, "in head" tags, `body`, `frameset`, `</body>`, `</html>` -/

/-- **A start tag whose tag name is "html"** -/
theorem body_startHtml {t : Tag} (hwf : TagWf t) (hk : t.kind = .startTag) (hn : t.name = "html".toList) {s : State}
    (hm : MInv s) :
    PC (stepInBody (.tag t)) s (TokPost (fun σ => Spec.TreeModes.inBody (cfgOf s) σ (stokOf (.tag t))) s (.tag t)) := by
  have h1 : t.isStart ["html"] = true := by simp +decide only [Tag.isStart, hk, hn, isOneOf_cons, isOneOf_nil]
  simp only [stepInBody, h1, ↓reduceIte]
  refine pc_tokPost_congr (pc_inBodyHtml hm hwf.plain _) ?_
  intro x hx
  simp only [stokOf, stokOfTag_start hk]
  exact Spec.TreeModes.inBody_startHtml _ _ _ (by simp [Spec.TreeModes.Tag.is, hn])

/-- the tags handed to "in head" -/
theorem body_toHead (hhead : StepSimTok stepInHead Spec.TreeModes.inHead) {t : Tag} (hwf : TagWf t) {s : State} (hm : MInv s)
    (h1 : t.isStart ["html"] = false)
    (h2 : (t.isStart ["base", "basefont", "bgsound", "link", "meta", "noframes", "script", "style", "template", "title"] ||
      t.isEnd ["template"]) = true)
    (hspec : ∀ σ, Spec.TreeModes.inBody (cfgOf s) σ (stokOf (.tag t)) = Spec.TreeModes.inHead (cfgOf s) σ (stokOf (.tag t))) :
    PC (stepInBody (.tag t)) s (TokPost (fun σ => Spec.TreeModes.inBody (cfgOf s) σ (stokOf (.tag t))) s (.tag t)) := by
  simp only [stepInBody, h1, h2, Bool.false_eq_true, ↓reduceIte]
  exact pc_tokPost_congr (hhead (.tag t) rfl hwf s hm) (fun x _ => hspec _)

theorem body_startHead (hhead : StepSimTok stepInHead Spec.TreeModes.inHead) {t : Tag} (hwf : TagWf t)
    (hk : t.kind = .startTag)
    (hn : t.name = "base".toList ∨ t.name = "basefont".toList ∨ t.name = "bgsound".toList ∨ t.name = "link".toList ∨
      t.name = "meta".toList ∨ t.name = "noframes".toList ∨ t.name = "script".toList ∨ t.name = "style".toList ∨
      t.name = "template".toList ∨ t.name = "title".toList) {s : State} (hm : MInv s) :
    PC (stepInBody (.tag t)) s (TokPost (fun σ => Spec.TreeModes.inBody (cfgOf s) σ (stokOf (.tag t))) s (.tag t)) := by
  rcases hn with h | h | h | h | h | h | h | h | h | h <;>
  · refine body_toHead hhead hwf hm ?_ ?_ ?_
    · simp +decide only [Tag.isStart, hk, h, isOneOf_cons, isOneOf_nil]
    · simp +decide only [Tag.isStart, Tag.isEnd, hk, h, isOneOf_cons, isOneOf_nil]
    · intro σ
      simp +decide only [stokOf, stokOfTag_start hk, Spec.TreeModes.inBody, Spec.TreeModes.inBodyStartTag,
        Spec.TreeModes.inBodyStartTagCore, Spec.TreeModes.Tag.is, Spec.TreeModes.Tag.isOneOf, strIs_eq, strIsOneOf_cons,
        strIsOneOf_nil, specTag_name, h, ↓reduceIte]

theorem body_endTemplate (hhead : StepSimTok stepInHead Spec.TreeModes.inHead) {t : Tag} (hwf : TagWf t)
    (hk : t.kind = .endTag) (h : t.name = "template".toList) {s : State} (hm : MInv s) :
    PC (stepInBody (.tag t)) s (TokPost (fun σ => Spec.TreeModes.inBody (cfgOf s) σ (stokOf (.tag t))) s (.tag t)) := by
  refine body_toHead hhead hwf hm ?_ ?_ ?_
  · simp +decide only [Tag.isStart, hk, h, isOneOf_cons, isOneOf_nil]
  · simp +decide only [Tag.isStart, Tag.isEnd, hk, h, isOneOf_cons, isOneOf_nil]
  · intro σ
    simp +decide only [stokOf, stokOfTag_end hk, Spec.TreeModes.inBody, Spec.TreeModes.inBodyEndTag,
      Spec.TreeModes.Tag.is, strIs_eq, specTag_name, h, ↓reduceIte]

/-! #### the `body` start tag -/

/-- the clause for a `body` start tag, after the parse error -/
def b1_specBody (σ : SState) (attrs : List Spec.TreeModes.Attr) : Spec.TreeModes.M (Step Id) :=
  match σ.p.stack[1]? with
  | some body =>
    if !body.name.isHtml "body" || σ.templateOnStack then pure (.done σ)
    else pure (.done (σ.notOk.xop (.addMissingAttributes body.id attrs)))
  | none => pure (.done σ)

theorem b1_inBody_body (cfg : Config Id) (σ : SState) (t : STag) (h : t.name = "body".toList) :
    Spec.TreeModes.inBody cfg σ (.startTag t) = b1_specBody (σ.err "in body: body start tag") t.attrs := by
  simp +decide only [Spec.TreeModes.inBody, Spec.TreeModes.inBodyStartTag,
    Spec.TreeModes.inBodyStartTagCore, Spec.TreeModes.Tag.is, Spec.TreeModes.Tag.isOneOf, strIs_eq, strIsOneOf_cons,
    strIsOneOf_nil, h, ↓reduceIte]
  unfold b1_specBody
  cases (Spec.TreeModes.State.err σ "in body: body start tag").p.stack[1]? <;> rfl

theorem b1_specBody_of_none {σ : SState} (attrs : List Spec.TreeModes.Attr) (h : specBodyElem σ = none) :
    b1_specBody σ attrs = pure (.done σ) := by
  unfold b1_specBody
  cases h1 : σ.p.stack[1]? with
  | none => rfl
  | some e => simp only [specBodyElem_none h e h1, Bool.not_false, Bool.true_or, if_true]

theorem b1_specBody_of_some {σ : SState} (attrs : List Spec.TreeModes.Attr) {n : Id} (h : specBodyElem σ = some n) :
    b1_specBody σ attrs = (if σ.templateOnStack then pure (.done σ)
      else pure (.done (σ.notOk.xop (.addMissingAttributes n attrs)))) := by
  obtain ⟨e, h1, h2, h3⟩ := specBodyElem_some h
  unfold b1_specBody
  simp only [h1, h2, h3, Bool.not_true, Bool.false_or]

/-- **A start tag whose tag name is "body"** -/
theorem body_startBody {t : Tag} (hwf : TagWf t) (hk : t.kind = .startTag) (hn : t.name = "body".toList) {s : State}
    (hm : MInv s) :
    PC (stepInBody (.tag t)) s (TokPost (fun σ => Spec.TreeModes.inBody (cfgOf s) σ (stokOf (.tag t))) s (.tag t)) := by
  have h1 : t.isStart ["html"] = false := by simp +decide only [Tag.isStart, hk, hn, isOneOf_cons, isOneOf_nil]
  have h2 : (t.isStart ["base", "basefont", "bgsound", "link", "meta", "noframes", "script", "style", "template", "title"] ||
      t.isEnd ["template"]) = false := by
    simp +decide only [Tag.isStart, Tag.isEnd, hk, hn, isOneOf_cons, isOneOf_nil]
  have h3 : t.isStart ["body"] = true := by simp +decide only [Tag.isStart, hk, hn, isOneOf_cons, isOneOf_nil]
  simp only [stepInBody, h1, h2, h3, Bool.false_eq_true, ↓reduceIte]
  have hspec : ∀ σ, Spec.TreeModes.inBody (cfgOf s) σ (stokOf (.tag t))
      = b1_specBody (σ.err "in body: body start tag") (specTag t).attrs := by
    intro σ
    simp only [stokOf, stokOfTag_start hk]
    exact b1_inBody_body _ _ _ hn
  refine pc_seq (pc_unexpected hm) ?_
  rintro _ s1 c1 _ ⟨-, htr1⟩
  have hm1 : MInv s1 := htr1.1
  refine pc_seq (pc_bodyElem hm1) ?_
  rintro b s2 c2 _ htr2
  have hm2 : MInv s2 := htr2.1
  have h12 := ((Tr.err hm "in body: body start tag").trans htr1).trans htr2
  cases b with
  | none =>
    simp only []
    refine pc_pure ?_
    simp only [List.nil_append, List.append_nil] at h12 ⊢
    refine tokPost_of_tr h12 trivial ?_
    rintro x x2 hx hx2 ⟨x1, ⟨x0, hx0, hx1, e1⟩, hx2', e2, hb⟩
    subst x2 x1
    refine ⟨x0, ?_, AuxSame.rfl', Or.inl rfl, rfl, rfl⟩
    have e0 : (absF s x).err "in body: body start tag" = absF s x0 := by subst hx0; rfl
    rw [hspec, e0, b1_specBody_of_none _ (by rw [e1]; exact hb.symm), e1, e2]
    rfl
  | some node =>
    simp only []
    refine pc_getS_bind ?_
    by_cases hl : s2.openElems.length = 1
    · have hne : (s2.openElems.length != 1) = false := by simp [hl]
      simp only [hne, Bool.false_eq_true, ↓reduceIte]
      refine pc_pure ?_
      simp only [List.nil_append, List.append_nil] at h12 ⊢
      refine tokPost_of_tr h12 trivial ?_
      rintro x x2 hx hx2 ⟨x1, ⟨x0, hx0, hx1, e1⟩, hx2', e2, hb⟩
      subst x2 x1
      exfalso
      obtain ⟨e, he1, -, -⟩ := specBodyElem_some hb.symm
      have hlen := absF_stack_length hx2
      rw [← e2, hl] at hlen
      obtain ⟨hlt, -⟩ := List.getElem?_eq_some_iff.mp he1
      omega
    · have hne : (s2.openElems.length != 1) = true := by simp [hl]
      simp only [hne, ↓reduceIte]
      refine pc_seq (pc_inHtmlElemNamed_template hm2) ?_
      rintro b3 s3 c3 _ htr3
      have hm3 : MInv s3 := htr3.1
      have h123 := h12.trans htr3
      cases b3 with
      | true =>
        simp only [Bool.not_true, Bool.false_eq_true, ↓reduceIte]
        refine pc_pure ?_
        simp only [List.nil_append, List.append_nil, List.append_assoc] at h123 ⊢
        refine tokPost_of_tr h123 trivial ?_
        rintro x x3 hx hx3 ⟨x2, ⟨x1, ⟨x0, hx0, hx1, e1⟩, hx2', e2, hb⟩, hx3', e3, hb3⟩
        subst x3 x2 x1
        refine ⟨x0, ?_, AuxSame.rfl', Or.inl rfl, rfl, rfl⟩
        have e0 : (absF s x).err "in body: body start tag" = absF s x0 := by subst hx0; rfl
        have ht : (absF s x0).templateOnStack = true := by rw [e1, e2]; exact hb3.symm
        rw [hspec, e0, b1_specBody_of_some _ (by rw [e1]; exact hb.symm), ht]
        simp only [if_true]
        rw [e1, e2, e3]
        rfl
      | false =>
        simp only [Bool.not_false, ↓reduceIte]
        refine pc_seq (pc_setFramesetNotOk hm3) ?_
        rintro _ s4 c4 _ ⟨-, htr4⟩
        refine pc_seq (pc_addAttrsIfMissing htr4.1 node hwf.plain) ?_
        rintro _ s5 c5 _ ⟨-, htr5⟩
        refine pc_pure ?_
        have hall := (h123.trans htr4).trans htr5
        simp only [List.nil_append, List.append_nil, List.append_assoc] at hall ⊢
        refine tokPost_of_tr hall trivial ?_
        rintro x x5 hx hx5 ⟨x4, ⟨x3, ⟨x2, ⟨x1, ⟨x0, hx0, hx1, e1⟩, hx2', e2, hb⟩, hx3', e3, hb3⟩, hx4', e4⟩, e5⟩
        subst x4 x3 x2 x1
        refine ⟨x5, ?_, AuxSame.rfl', Or.inl rfl, rfl, rfl⟩
        have e0 : (absF s x).err "in body: body start tag" = absF s x0 := by subst hx0; rfl
        have ht : (absF s x0).templateOnStack = false := by rw [e1, e2]; exact hb3.symm
        rw [hspec, e0, b1_specBody_of_some _ (by rw [e1]; exact hb.symm), ht]
        simp only [Bool.false_eq_true, if_false]
        show _ = Except.ok (Step.done (absF s5 x5))
        rw [e5, e4, ← e3, ← e2, ← e1]
        rfl

/-! #### the `frameset` start tag -/

/-- the clause for a `frameset` start tag, after the parse error -/
def b1_specFrameset (σ : SState) (t : STag) : Spec.TreeModes.M (Step Id) :=
  match σ.p.stack[1]? with
  | some body =>
    if !body.name.isHtml "body" then pure (.done σ)
    else if !σ.framesetOk then pure (.done σ)
    else do
      let s : SState := { σ with p := { σ.p with log := σ.p.log ++ [Edit.remove body.id] } }
      let s := s.setStack (s.p.stack.take 1)
      let s ← Spec.TreeModes.insertHtml' s t
      pure (.done (s.setMode .inFrameset))
  | none => pure (.done σ)

theorem b1_inBody_frameset (cfg : Config Id) (σ : SState) (t : STag) (h : t.name = "frameset".toList) :
    Spec.TreeModes.inBody cfg σ (.startTag t) = b1_specFrameset (σ.err "in body: frameset start tag") t := by
  simp +decide only [Spec.TreeModes.inBody, Spec.TreeModes.inBodyStartTag,
    Spec.TreeModes.inBodyStartTagCore, Spec.TreeModes.Tag.is, Spec.TreeModes.Tag.isOneOf, strIs_eq, strIsOneOf_cons,
    strIsOneOf_nil, h, ↓reduceIte]
  unfold b1_specFrameset
  cases (Spec.TreeModes.State.err σ "in body: frameset start tag").p.stack[1]? <;> rfl

theorem b1_specFrameset_of_none {σ : SState} (t : STag) (h : specBodyElem σ = none) :
    b1_specFrameset σ t = pure (.done σ) := by
  unfold b1_specFrameset
  cases h1 : σ.p.stack[1]? with
  | none => rfl
  | some e => simp only [specBodyElem_none h e h1, Bool.not_false, if_true]

/-- the state in which the `frameset` element is inserted -/
def b1_fsState (σ : SState) (n : Id) : SState :=
  ({ σ with p := { σ.p with log := σ.p.log ++ [Edit.remove n] } } : SState).setStack (σ.p.stack.take 1)

theorem b1_specFrameset_of_some {σ : SState} (t : STag) {n : Id} (h : specBodyElem σ = some n) :
    b1_specFrameset σ t = (if σ.framesetOk then do
      let s ← Spec.TreeModes.insertHtml' (b1_fsState σ n) t
      pure (.done (s.setMode .inFrameset)) else pure (.done σ)) := by
  obtain ⟨e, h1, h2, h3⟩ := specBodyElem_some h
  unfold b1_specFrameset b1_fsState
  cases hf : σ.framesetOk <;> simp only [h1, h2, h3, Bool.not_true, Bool.not_false, Bool.false_eq_true, if_false, if_true]

/-- `sink.remove_from_parent(node)`: "remove the node from its parent node, if it has one" -/
theorem b1_pc_removeFromParent {s : State} (hm : MInv s) (node : Id) :
    PC (sinkUnit (.removeFromParent node)) s (fun _ s' calls => SameTB s s' ∧
      Tr s s' calls (fun x x' => absF s' x' =
        { absF s x with p := { (absF s x).p with log := (absF s x).p.log ++ [Edit.remove node] } })) := by
  refine pc_conseq (pc_sinkUnit s) ?_
  rintro _ s' calls he ⟨d', out, ha, hs', hc⟩
  have hout : out = .unit := unit_removeFromParent node _ _ _ ha
  subst hout
  have hs : SameTB s s' := hs' ▸ SameTB.afterCall ..
  refine ⟨hs, ?_⟩
  refine (Tr.of_edits (hm.sameTB hs he.ext) (cfgOf_of_same hm hs he.ext) he [] [Edit.remove node] [] (FreshIds.nil _)
    ?_ (annot_of_sub he.ext hm (by rw [hs.openElems]; exact fun _ h => h)) (by simp)).conseq ?_
  · intro tc _
    rw [hc]
    rfl
  · rintro x x' hx _ ⟨hx', rest, hsup⟩
    subst hx'
    rw [absF_step_same hm hs he.ext]
    simp [absF, absP, Edit.mapTok]

/-- "pop all the nodes from the current node up to, but not including, the root `html` element" -/
theorem b1_pc_take1 {s : State} (hm : MInv s) :
    PC (modS fun s => { s with openElems := s.openElems.take 1 }) s (fun _ s' calls =>
      Tr s s' calls (fun x x' => x' = x ∧ absF s' x = (absF s x).setStack ((absF s x).p.stack.take 1))) := by
  refine pc_modS rfl rfl ?_
  refine (Tr.of_prefix (s' := { s with openElems := s.openElems.take 1 }) hm rfl (List.take_prefix 1 _)
    (Ext2.of_eq rfl rfl) rfl).conseq ?_
  rintro x x' hx _ ⟨hxx, e⟩
  refine ⟨hxx, ?_⟩
  rw [e, absF_stack hx]
  simp [absStack, List.map_take]

/-- **A start tag whose tag name is "frameset"** -/
theorem body_startFrameset {t : Tag} (hwf : TagWf t) (hk : t.kind = .startTag) (hn : t.name = "frameset".toList) {s : State}
    (hm : MInv s) :
    PC (stepInBody (.tag t)) s (TokPost (fun σ => Spec.TreeModes.inBody (cfgOf s) σ (stokOf (.tag t))) s (.tag t)) := by
  have h1 : t.isStart ["html"] = false := by simp +decide only [Tag.isStart, hk, hn, isOneOf_cons, isOneOf_nil]
  have h2 : (t.isStart ["base", "basefont", "bgsound", "link", "meta", "noframes", "script", "style", "template", "title"] ||
      t.isEnd ["template"]) = false := by
    simp +decide only [Tag.isStart, Tag.isEnd, hk, hn, isOneOf_cons, isOneOf_nil]
  have h3 : t.isStart ["body"] = false := by simp +decide only [Tag.isStart, hk, hn, isOneOf_cons, isOneOf_nil]
  have h4 : t.isStart ["frameset"] = true := by simp +decide only [Tag.isStart, hk, hn, isOneOf_cons, isOneOf_nil]
  simp only [stepInBody, h1, h2, h3, h4, Bool.false_eq_true, ↓reduceIte]
  have hspec : ∀ σ, Spec.TreeModes.inBody (cfgOf s) σ (stokOf (.tag t))
      = b1_specFrameset (σ.err "in body: frameset start tag") (specTag t) := by
    intro σ
    simp only [stokOf, stokOfTag_start hk]
    exact b1_inBody_frameset _ _ _ hn
  refine pc_seq (pc_unexpected hm) ?_
  rintro _ s1 c1 _ ⟨-, htr1⟩
  have hm1 : MInv s1 := htr1.1
  have h01 := (Tr.err hm "in body: frameset start tag").trans htr1
  refine pc_getS_bind ?_
  cases hfo : s1.framesetOk with
  | false =>
    simp only [Bool.not_false, ↓reduceIte]
    refine pc_pure ?_
    simp only [List.nil_append, List.append_nil] at h01 ⊢
    refine tokPost_of_tr h01 trivial ?_
    rintro x x1 hx hx1 ⟨x0, hx0, hx1', e1⟩
    subst x1
    refine ⟨x0, ?_, AuxSame.rfl', Or.inl rfl, rfl, rfl⟩
    have e0 : (absF s x).err "in body: frameset start tag" = absF s x0 := by subst hx0; rfl
    have hf : (absF s x0).framesetOk = false := by rw [e1]; exact hfo
    rw [hspec, e0]
    cases hb : specBodyElem (absF s x0) with
    | none => rw [b1_specFrameset_of_none _ hb, e1]; rfl
    | some n =>
      rw [b1_specFrameset_of_some _ hb]
      simp only [hf, Bool.false_eq_true, if_false]
      rw [e1]; rfl
  | true =>
    simp only [Bool.not_true, Bool.false_eq_true, ↓reduceIte]
    refine pc_seq (pc_bodyElem hm1) ?_
    rintro b s2 c2 _ htr2
    have hm2 : MInv s2 := htr2.1
    have h12 := h01.trans htr2
    cases b with
    | none =>
      simp only []
      refine pc_pure ?_
      simp only [List.nil_append, List.append_nil] at h12 ⊢
      refine tokPost_of_tr h12 trivial ?_
      rintro x x2 hx hx2 ⟨x1, ⟨x0, hx0, hx1, e1⟩, hx2', e2, hb⟩
      subst x2 x1
      refine ⟨x0, ?_, AuxSame.rfl', Or.inl rfl, rfl, rfl⟩
      have e0 : (absF s x).err "in body: frameset start tag" = absF s x0 := by subst hx0; rfl
      rw [hspec, e0, b1_specFrameset_of_none _ (by rw [e1]; exact hb.symm), e1, e2]
      rfl
    | some body =>
      simp only []
      refine pc_seq (b1_pc_removeFromParent hm2 body) ?_
      rintro _ s3 c3 _ ⟨-, htr3⟩
      have hm3 : MInv s3 := htr3.1
      refine pc_seq (b1_pc_take1 hm3) ?_
      rintro _ s4 c4 _ htr4
      have hm4 : MInv s4 := htr4.1
      refine pc_seq (pc_insertElementFor' hm4 hwf.plain) ?_
      rintro a s5 c5 _ ⟨-, -, -, -, -, htr5⟩
      have hm5 : MInv s5 := htr5.1
      refine pc_seq (pc_setMode_junk hm5 .inFrameset (by decide)) ?_
      rintro _ s6 c6 _ ⟨-, htr6⟩
      refine pc_pure ?_
      have hall := (((h12.trans htr3).trans htr4).trans htr5).trans htr6
      simp only [List.nil_append, List.append_nil, List.append_assoc] at hall ⊢
      refine tokPost_of_tr hall trivial ?_
      rintro x x6 hx hx6 ⟨x5, ⟨x4, ⟨x3, ⟨x2, ⟨x1, ⟨x0, hx0, hx1, e1⟩, hx2', e2, hb⟩, e3⟩, hx4', e4⟩, e5⟩, hx6', e6⟩
      subst x4 x2 x1
      refine ⟨x6, ?_, AuxSame.rfl', Or.inl rfl, rfl, rfl⟩
      have e0 : (absF s x).err "in body: frameset start tag" = absF s x0 := by subst hx0; rfl
      have hf : (absF s x0).framesetOk = true := by rw [e1]; exact hfo
      rw [hspec, e0, b1_specFrameset_of_some _ (by rw [e1]; exact hb.symm)]
      simp only [hf, if_true]
      have key : b1_fsState (absF s x0) body = absF s4 x3 := by
        rw [e4, e3, ← e2, ← e1]
        rfl
      rw [key, e5]
      show _ = Except.ok (Step.done (absF s6 x6))
      rw [e6]
      rfl

/-! #### the `body` and `html` end tags -/

/-- **An end tag whose tag name is "body"** -/
theorem body_endBody {t : Tag} (hk : t.kind = .endTag) (hn : t.name = "body".toList) {s : State} (hm : MInv s) :
    PC (stepInBody (.tag t)) s (TokPost (fun σ => Spec.TreeModes.inBody (cfgOf s) σ (stokOf (.tag t))) s (.tag t)) := by
  have h1 : t.isStart ["html"] = false := by simp +decide only [Tag.isStart, hk, hn, isOneOf_cons, isOneOf_nil]
  have h2 : (t.isStart ["base", "basefont", "bgsound", "link", "meta", "noframes", "script", "style", "template", "title"] ||
      t.isEnd ["template"]) = false := by
    simp +decide only [Tag.isStart, Tag.isEnd, hk, hn, isOneOf_cons, isOneOf_nil]
  have h3 : t.isStart ["body"] = false := by simp +decide only [Tag.isStart, hk, hn, isOneOf_cons, isOneOf_nil]
  have h4 : t.isStart ["frameset"] = false := by simp +decide only [Tag.isStart, hk, hn, isOneOf_cons, isOneOf_nil]
  have h5 : t.isEnd ["body"] = true := by simp +decide only [Tag.isEnd, hk, hn, isOneOf_cons, isOneOf_nil]
  simp only [stepInBody, h1, h2, h3, h4, h5, Bool.false_eq_true, ↓reduceIte]
  have hspec : ∀ σ, Spec.TreeModes.inBody (cfgOf s) σ (stokOf (.tag t))
      = (if !Spec.TreeModes.hasInScope (cfgOf s) σ "body" then
          pure (.done (σ.err "in body: body end tag without body in scope"))
        else pure (.done ((Spec.TreeModes.bodyEndCheck σ "in body: body end tag with open elements").setMode .afterBody))) := by
    intro σ
    simp +decide only [stokOf, stokOfTag_end hk, Spec.TreeModes.inBody, Spec.TreeModes.inBodyEndTag,
      Spec.TreeModes.Tag.is, strIs_eq, specTag_name, hn, ↓reduceIte]
  refine pc_seq (pc_inScopeNamed_default hm "body") ?_
  rintro b s1 c1 _ htr1
  have hm1 : MInv s1 := htr1.1
  cases b with
  | true =>
    simp only [↓reduceIte]
    refine pc_seq (pc_checkBodyEnd hm1 "in body: body end tag with open elements") ?_
    rintro _ s2 c2 _ htr2
    have hm2 : MInv s2 := htr2.1
    refine pc_seq (pc_setMode_junk hm2 .afterBody (by decide)) ?_
    rintro _ s3 c3 _ ⟨-, htr3⟩
    refine pc_pure ?_
    have hall := (htr1.trans htr2).trans htr3
    simp only [List.append_nil, List.append_assoc] at hall ⊢
    refine tokPost_of_tr hall trivial ?_
    rintro x x3 hx hx3 ⟨x2, ⟨x1, ⟨hx1, e1, hb⟩, hx2, e2⟩, hx3', e3⟩
    subst x1
    refine ⟨x3, ?_, AuxSame.rfl', Or.inl rfl, rfl, rfl⟩
    rw [hspec]
    simp only [← hb, Bool.not_true, Bool.false_eq_true, if_false]
    show _ = Except.ok (Step.done (absF s3 x3))
    rw [e3, e2, ← e1]
    rfl
  | false =>
    simp only [Bool.false_eq_true, ↓reduceIte]
    refine pc_seq (pc_parseError hm1 _) ?_
    rintro _ s2 c2 _ htr2
    refine pc_pure ?_
    have hall := htr1.trans htr2
    simp only [List.append_nil] at hall ⊢
    refine tokPost_of_tr hall trivial ?_
    rintro x x2 hx hx2 ⟨x1, ⟨hx1, e1, hb⟩, hx2', e2⟩
    subst x2 x1
    refine ⟨{ x with errors := x.errors ++ ["in body: body end tag without body in scope"] }, ?_, ⟨rfl, rfl, rfl, rfl, rfl⟩,
      Or.inl rfl, rfl, rfl⟩
    rw [hspec]
    simp only [← hb, Bool.not_false, if_true]
    rw [e1, e2]
    rfl

/-- **An end tag whose tag name is "html"** -/
theorem body_endHtml {t : Tag} (hk : t.kind = .endTag) (hn : t.name = "html".toList) {s : State} (hm : MInv s) :
    PC (stepInBody (.tag t)) s (TokPost (fun σ => Spec.TreeModes.inBody (cfgOf s) σ (stokOf (.tag t))) s (.tag t)) := by
  have h1 : t.isStart ["html"] = false := by simp +decide only [Tag.isStart, hk, hn, isOneOf_cons, isOneOf_nil]
  have h2 : (t.isStart ["base", "basefont", "bgsound", "link", "meta", "noframes", "script", "style", "template", "title"] ||
      t.isEnd ["template"]) = false := by
    simp +decide only [Tag.isStart, Tag.isEnd, hk, hn, isOneOf_cons, isOneOf_nil]
  have h3 : t.isStart ["body"] = false := by simp +decide only [Tag.isStart, hk, hn, isOneOf_cons, isOneOf_nil]
  have h4 : t.isStart ["frameset"] = false := by simp +decide only [Tag.isStart, hk, hn, isOneOf_cons, isOneOf_nil]
  have h5 : t.isEnd ["body"] = false := by simp +decide only [Tag.isEnd, hk, hn, isOneOf_cons, isOneOf_nil]
  have h6 : t.isEnd ["html"] = true := by simp +decide only [Tag.isEnd, hk, hn, isOneOf_cons, isOneOf_nil]
  simp only [stepInBody, h1, h2, h3, h4, h5, h6, Bool.false_eq_true, ↓reduceIte]
  have hspec : ∀ σ, Spec.TreeModes.inBody (cfgOf s) σ (stokOf (.tag t))
      = (if !Spec.TreeModes.hasInScope (cfgOf s) σ "body" then
          pure (.done (σ.err "in body: html end tag without body in scope"))
        else pure (.reprocess ((Spec.TreeModes.bodyEndCheck σ "in body: html end tag with open elements").setMode .afterBody))) := by
    intro σ
    simp +decide only [stokOf, stokOfTag_end hk, Spec.TreeModes.inBody, Spec.TreeModes.inBodyEndTag,
      Spec.TreeModes.Tag.is, strIs_eq, specTag_name, hn, ↓reduceIte]
  refine pc_seq (pc_inScopeNamed_default hm "body") ?_
  rintro b s1 c1 _ htr1
  have hm1 : MInv s1 := htr1.1
  cases b with
  | true =>
    simp only [↓reduceIte]
    refine pc_seq (pc_checkBodyEnd hm1 "in body: html end tag with open elements") ?_
    rintro _ s2 c2 _ htr2
    refine pc_pure ?_
    have hall := htr1.trans htr2
    simp only [List.append_nil] at hall ⊢
    refine tokPost_of_tr hall rfl ?_
    rintro x x2 hx hx2 ⟨x1, ⟨hx1, e1, hb⟩, hx2', e2⟩
    subst x1
    refine ⟨{ x2 with pendingJunk := (absF s2 x2).pendingTableChars }, ?_, ⟨rfl, rfl, rfl, rfl, rfl⟩, Or.inl rfl, rfl, rfl⟩
    rw [hspec]
    simp only [← hb, Bool.not_true, Bool.false_eq_true, if_false, stepOf]
    rw [e1, ← e2]
    rfl
  | false =>
    simp only [Bool.false_eq_true, ↓reduceIte]
    refine pc_seq (pc_parseError hm1 _) ?_
    rintro _ s2 c2 _ htr2
    refine pc_pure ?_
    have hall := htr1.trans htr2
    simp only [List.append_nil] at hall ⊢
    refine tokPost_of_tr hall trivial ?_
    rintro x x2 hx hx2 ⟨x1, ⟨hx1, e1, hb⟩, hx2', e2⟩
    subst x2 x1
    refine ⟨{ x with errors := x.errors ++ ["in body: html end tag without body in scope"] }, ?_, ⟨rfl, rfl, rfl, rfl, rfl⟩,
      Or.inl rfl, rfl, rfl⟩
    rw [hspec]
    simp only [← hb, Bool.not_false, if_true]
    rw [e1, e2]
    rfl

/-! #### the slice -/

theorem bodySlice1 (hhead : StepSimTok stepInHead Spec.TreeModes.inHead) : BodySliceSim (fun _ => false) bodyC1 := by
  intro t hwf _ hc s hm
  have k1 : (Model.HtmlTok.TagKind.startTag == Model.HtmlTok.TagKind.startTag) = true := by decide
  have k2 : (Model.HtmlTok.TagKind.startTag == Model.HtmlTok.TagKind.endTag) = false := by decide
  have k3 : (Model.HtmlTok.TagKind.endTag == Model.HtmlTok.TagKind.startTag) = false := by decide
  have k4 : (Model.HtmlTok.TagKind.endTag == Model.HtmlTok.TagKind.endTag) = true := by decide
  cases hk : t.kind with
  | startTag =>
    simp only [bodyC1, Tag.isStart, Tag.isEnd, hk, k1, k2, isOneOf_cons, isOneOf_nil, Bool.or_false, Bool.false_and,
      Bool.true_and, Bool.or_eq_true, decide_eq_true_eq] at hc
    rcases hc with ((h | h) | h) | h
    · exact body_startHtml hwf hk h hm
    · exact body_startHead hhead hwf hk h hm
    · exact body_startBody hwf hk h hm
    · exact body_startFrameset hwf hk h hm
  | endTag =>
    simp only [bodyC1, Tag.isStart, Tag.isEnd, hk, k3, k4, isOneOf_cons, isOneOf_nil, Bool.or_false, Bool.false_and,
      Bool.true_and, Bool.or_eq_true, decide_eq_true_eq, Bool.false_eq_true, false_or] at hc
    rcases hc with (h | h) | h
    · exact body_endTemplate hhead hwf hk h hm
    · exact body_endBody hk h hm
    · exact body_endHtml hk h hm

end H5V.Lemmas.HtmlTBModes
