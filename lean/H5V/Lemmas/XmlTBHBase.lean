import H5V.Model.XmlTBH
/-!
Handle-level XML tree builder (`H5V.Model.XmlTBH`): the run equations of the monad `M`
(`StateT State (Except String)`) and the total-correctness judgement `Sat`.
-/
namespace H5V.Lemmas.XmlTBH
open H5V.Model.Dom (Id SinkOp Output Dom NodeOrText)
open H5V.Model.XmlTBH

/-! ## run equations -/

theorem bind_ok {α β : Type} {m : M α} {f : α → M β} {s s'' : State} {b : β} :
    (m >>= f) s = .ok (b, s'') ↔ ∃ a s', m s = .ok (a, s') ∧ f a s' = .ok (b, s'') := by
  show (StateT.bind m f) s = _ ↔ _
  unfold StateT.bind
  show (Except.bind (m s) _) = _ ↔ _
  cases h : m s with
  | error e => simp [Except.bind]
  | ok p =>
    obtain ⟨a, s'⟩ := p
    simp only [Except.bind, Except.ok.injEq, Prod.mk.injEq]
    constructor
    · intro h; exact ⟨a, s', ⟨rfl, rfl⟩, h⟩
    · rintro ⟨a', s1, ⟨rfl, rfl⟩, h⟩; exact h

theorem bind_run {α β : Type} {m : M α} {f : α → M β} {s s' : State} {a : α} (h : m s = .ok (a, s')) :
    (m >>= f) s = f a s' := by
  show (StateT.bind m f) s = _
  unfold StateT.bind
  show (Except.bind (m s) _) = _
  rw [h]; rfl

theorem pure_run {α : Type} (a : α) (s : State) : (pure a : M α) s = .ok (a, s) := rfl

theorem pure_ok {α : Type} {a b : α} {s s' : State} : (pure a : M α) s = .ok (b, s') ↔ a = b ∧ s = s' := by
  show (Except.ok (a, s) : Except String _) = _ ↔ _
  simp

theorem getS_run (s : State) : getS s = .ok (s, s) := rfl

theorem getS_ok {s s' a : State} : getS s = .ok (a, s') ↔ a = s ∧ s' = s := by
  show (Except.ok (s, s) : Except String _) = _ ↔ _
  simp only [Except.ok.injEq, Prod.mk.injEq]
  constructor <;> (rintro ⟨rfl, rfl⟩; exact ⟨rfl, rfl⟩)

theorem modS_run (f : State → State) (s : State) : modS f s = .ok ((), f s) := rfl

theorem modS_ok {f : State → State} {s s' : State} {u : Unit} : modS f s = .ok (u, s') ↔ s' = f s := by
  show (Except.ok ((), f s) : Except String _) = _ ↔ _
  simp only [Except.ok.injEq, Prod.mk.injEq, true_and]
  exact eq_comm

theorem throw_ok {α : Type} {e : String} {s s' : State} {a : α} : ¬ (throw e : M α) s = .ok (a, s') := by
  show ¬ (Except.error e : Except String _) = _
  simp

theorem sink_ok {op : SinkOp} {s s' : State} {out : Output} :
    sink op s = .ok (out, s') ↔
      ∃ d, s.dom.apply op = .ok (d, out) ∧ s' = { s with dom := d, traceRev := (op, out) :: s.traceRev } := by
  unfold sink
  cases h : s.dom.apply op with
  | error e => simp
  | ok p =>
    obtain ⟨d, o⟩ := p
    simp only [Except.ok.injEq, Prod.mk.injEq]
    constructor
    · rintro ⟨rfl, rfl⟩; exact ⟨d, ⟨rfl, rfl⟩, rfl⟩
    · rintro ⟨d', ⟨rfl, rfl⟩, rfl⟩; exact ⟨rfl, rfl⟩

theorem sink_run {op : SinkOp} {s : State} {d : Dom} {out : Output} (h : s.dom.apply op = .ok (d, out)) :
    sink op s = .ok (out, { s with dom := d, traceRev := (op, out) :: s.traceRev }) :=
  sink_ok.mpr ⟨d, h, rfl⟩

/-! ## total correctness -/

/-- `m`, started in `s`, returns normally with an answer and a state satisfying `Q` -/
def Sat {α : Type} (m : M α) (s : State) (Q : α → State → Prop) : Prop :=
  ∃ a s', m s = .ok (a, s') ∧ Q a s'

theorem Sat.pure {α : Type} {a : α} {s : State} {Q : α → State → Prop} (h : Q a s) : Sat (pure a) s Q :=
  ⟨a, s, rfl, h⟩

theorem Sat.bind {α β : Type} {m : M α} {f : α → M β} {s : State} {Q : β → State → Prop}
    (h : Sat m s (fun a s' => Sat (f a) s' Q)) : Sat (m >>= f) s Q := by
  obtain ⟨a, s', e1, b, s'', e2, hq⟩ := h
  exact ⟨b, s'', bind_ok.mpr ⟨a, s', e1, e2⟩, hq⟩

theorem Sat.mono {α : Type} {m : M α} {s : State} {Q Q' : α → State → Prop} (h : Sat m s Q)
    (hq : ∀ a s', Q a s' → Q' a s') : Sat m s Q' := by
  obtain ⟨a, s', e, h1⟩ := h
  exact ⟨a, s', e, hq a s' h1⟩

/-- `m >>= f` from a specification of `m` -/
theorem Sat.seq {α β : Type} {m : M α} {f : α → M β} {s : State} {P : α → State → Prop}
    {Q : β → State → Prop} (h : Sat m s P) (hf : ∀ a s', P a s' → Sat (f a) s' Q) : Sat (m >>= f) s Q :=
  Sat.bind (h.mono hf)

theorem Sat.read {s : State} {Q : State → State → Prop} (h : Q s s) : Sat getS s Q := ⟨s, s, rfl, h⟩

theorem Sat.modify {f : State → State} {s : State} {Q : Unit → State → Prop} (h : Q () (f s)) :
    Sat (modS f) s Q := ⟨(), f s, rfl, h⟩

theorem Sat.read_bind {β : Type} {f : State → M β} {s : State} {Q : β → State → Prop}
    (h : Sat (f s) s Q) : Sat (getS >>= f) s Q := Sat.bind (Sat.read h)

theorem Sat.modify_bind {β : Type} {g : State → State} {f : Unit → M β} {s : State} {Q : β → State → Prop}
    (h : Sat (f ()) (g s) Q) : Sat (modS g >>= f) s Q := Sat.bind (Sat.modify h)

theorem Sat.ok {α : Type} {m : M α} {s : State} {Q : α → State → Prop} (h : Sat m s Q) {a : α} {s' : State}
    (e : m s = .ok (a, s')) : Q a s' := by
  obtain ⟨a', s1, e', hq⟩ := h
  rw [e] at e'; cases e'; exact hq

end H5V.Lemmas.XmlTBH
