import H5V.Lemmas.HtmlTBSplitBase
/-!
C03 lifted to the tree — layer 2b: the *queries* of the tree builder (current node, "is foreign",
appropriate place for insertion, "is marker or open" …) give the same answer in two states that
agree on the stack-like components (`openElems`, `activeFormatting`, `contextElem`,
`fosterParenting`, …) and whose DOMs answer the element queries (`elem_name`,
`get_template_contents`, `is_mathml_annotation_xml_integration_point`) alike — in particular before
and after a text insertion (`TBSplitDom.textIns_queries`).  They change nothing but the trace.
-/
namespace H5V.Lemmas.TBSplit
open H5V.Model.Dom (Id QualName Attr NodeOrText SinkOp Output ElementFlags QuirksMode Dom)
open H5V.Model.HtmlTok (TagKind RawKind)
open H5V.Model.HtmlTB
open H5V.Lemmas.TBSplitDom

/-- the two DOMs answer the element queries alike (error messages aside) -/
def DQ (d d' : Dom) : Prop :=
  ∀ h : Id, RelE (d.elemName h) (d'.elemName h) ∧ RelE (d.getTemplateContents h) (d'.getTemplateContents h) ∧
    RelE (d.isMathmlAnnotationXmlIntegrationPoint h) (d'.isMathmlAnnotationXmlIntegrationPoint h)

theorem DQ.refl (d : Dom) : DQ d d := fun _ => ⟨RelE.refl _, RelE.refl _, RelE.refl _⟩
theorem DQ.symm {d d' : Dom} (h : DQ d d') : DQ d' d := fun x => ⟨(h x).1.symm, (h x).2.1.symm, (h x).2.2.symm⟩
theorem DQ.trans {d d' d'' : Dom} (h : DQ d d') (h' : DQ d' d'') : DQ d d'' :=
  fun x => ⟨(h x).1.trans (h' x).1, (h x).2.1.trans (h' x).2.1, (h x).2.2.trans (h' x).2.2⟩

theorem DQ.of_textIns {d d' : Dom} {op : SinkOp} {o : Output} (hop : isTextIns op = true)
    (h : Dom.apply d op = .ok (d', o)) : DQ d d' := fun t => textIns_queries hop h t

/-- `s` with the components that no query looks at replaced -/
@[reducible] def qupd (s : State) (mode : Mode) (origMode : Option Mode) (pt : List (SplitStatus × Str))
    (fo : Bool) (il : Bool) (cl : Nat) (tr : List (SinkOp × Output)) (d : Dom) : State :=
  { s with mode := mode, origMode := origMode, pendingTableText := pt, framesetOk := fo, ignoreLf := il,
           currentLine := cl, traceRev := tr, dom := d }

def QSim (s t : State) : Prop :=
  ∃ mode origMode pt fo il cl tr d, t = qupd s mode origMode pt fo il cl tr d ∧ DQ s.dom d

theorem QSim.refl (s : State) : QSim s s := ⟨_, _, _, _, _, _, _, _, rfl, DQ.refl _⟩

theorem QSim.symm {s t : State} (h : QSim s t) : QSim t s := by
  obtain ⟨m, o, p, f, i, c, tr, d, rfl, hd⟩ := h
  exact ⟨s.mode, s.origMode, s.pendingTableText, s.framesetOk, s.ignoreLf, s.currentLine, s.traceRev, s.dom, rfl, hd.symm⟩

theorem QSim.trans {s t u : State} (h : QSim s t) (h' : QSim t u) : QSim s u := by
  obtain ⟨m, o, p, f, i, c, tr, d, rfl, hd⟩ := h
  obtain ⟨m', o', p', f', i', c', tr', d', rfl, hd'⟩ := h'
  exact ⟨m', o', p', f', i', c', tr', d', rfl, hd.trans hd'⟩

/-- only the trace differs -/
@[reducible] def withTr (s : State) (tr : List (SinkOp × Output)) : State := { s with traceRev := tr }

theorem QSim.withTr (s : State) (tr : List (SinkOp × Output)) : QSim s (withTr s tr) :=
  ⟨_, _, _, _, _, _, tr, _, rfl, DQ.refl _⟩

theorem withTr_withTr (s : State) (tr tr' : List (SinkOp × Output)) : withTr (withTr s tr) tr' = withTr s tr' := rfl
theorem withTr_self (s : State) : withTr s s.traceRev = s := rfl

/-- answers agree; each side changed only its trace -/
def QRel {α : Type} (s t : State) : Except String (α × State) → Except String (α × State) → Prop
  | .ok (a, s'), .ok (b, t') => a = b ∧ (∃ tr, s' = withTr s tr) ∧ (∃ tr, t' = withTr t tr)
  | .error _, .error _ => True
  | _, _ => False

/-- `m` is a query: it answers alike in `QSim` states and changes only the trace -/
def QResp {α : Type} (m : M α) : Prop := ∀ s t, QSim s t → QRel s t (m s) (m t)

theorem qresp_pure {α : Type} (a : α) : QResp (pure a : M α) :=
  fun s t _ => ⟨rfl, ⟨s.traceRev, rfl⟩, ⟨t.traceRev, rfl⟩⟩

theorem qresp_throw {α : Type} (e : String) : QResp (throw e : M α) := fun _ _ _ => trivial

theorem qresp_bind {α β : Type} {m : M α} {f : α → M β} (hm : QResp m) (hf : ∀ a, QResp (f a)) :
    QResp (m >>= f) := by
  intro s t hst
  have h := hm s t hst
  rw [bind_apply, bind_apply]
  cases hs : m s with
  | error e =>
    rw [hs] at h
    cases ht : m t with
    | error e' => trivial
    | ok q => rw [ht] at h; exact h.elim
  | ok p =>
    rw [hs] at h
    cases ht : m t with
    | error e' => rw [ht] at h; exact h.elim
    | ok q =>
      rw [ht] at h
      obtain ⟨a, s'⟩ := p; obtain ⟨b, t'⟩ := q
      obtain ⟨h1, ⟨tr1, h2⟩, ⟨tr2, h3⟩⟩ := h
      subst h1; subst h2; subst h3
      have hq : QSim (withTr s tr1) (withTr t tr2) := ((QSim.withTr s tr1).symm.trans hst).trans (QSim.withTr t tr2)
      have h' := hf a _ _ hq
      show QRel s t (f a (withTr s tr1)) (f a (withTr t tr2))
      cases hs' : f a (withTr s tr1) with
      | error e =>
        rw [hs'] at h'
        cases ht' : f a (withTr t tr2) with
        | error e' => trivial
        | ok q => rw [ht'] at h'; exact h'.elim
      | ok p =>
        rw [hs'] at h'
        cases ht' : f a (withTr t tr2) with
        | error e' => rw [ht'] at h'; exact h'.elim
        | ok q =>
          rw [ht'] at h'
          obtain ⟨c, s''⟩ := p; obtain ⟨c', t''⟩ := q
          obtain ⟨h1, ⟨tr3, h2⟩, ⟨tr4, h3⟩⟩ := h'
          subst h1; subst h2; subst h3
          exact ⟨rfl, ⟨tr3, rfl⟩, ⟨tr4, rfl⟩⟩

theorem qresp_pure_bind {α β : Type} {a : α} {f : α → M β} (h : QResp (f a)) : QResp ((pure a : M α) >>= f) := h

theorem qresp_throw_bind {α β : Type} (e : String) (f : α → M β) : QResp ((throw e : M α) >>= f) :=
  fun _ _ _ => trivial
theorem qresp_panicAt_bind {α β : Type} (a b c : String) (f : α → M β) : QResp ((panicAt a b c : M α) >>= f) :=
  qresp_throw_bind _ _
theorem qresp_panicAt {α : Type} (a b c : String) : QResp (panicAt a b c : M α) := qresp_throw _

theorem qresp_getS_bind {β : Type} {f : State → M β}
    (h : ∀ s, QResp (f s)) (hst : ∀ s t, QSim s t → f s = f t) : QResp (getS >>= f) := by
  intro s t hs
  rw [bind_apply, bind_apply, getS_apply, getS_apply]
  show QRel s t (f s s) (f t t)
  rw [← hst s t hs]
  exact h s s t hs

theorem qresp_ite {α : Type} {c : Prop} [Decidable c] {a b : M α}
    (ha : c → QResp a) (hb : ¬ c → QResp b) : QResp (if c then a else b) := by
  split
  · exact ha ‹_›
  · exact hb ‹_›

/-! ### the sink queries -/

theorem sink_elemName_apply (d : Dom) (h : Id) :
    d.apply (.elemName h) = match d.elemName h with
      | .ok (ns, loc) => .ok (d, .name ns loc)
      | .error e => .error e := by
  show d.applyV _ _ (.elemName h) = _
  simp only [Dom.applyV]
  cases d.elemName h <;> rfl

theorem sink_tc_apply (d : Dom) (h : Id) :
    d.apply (.getTemplateContents h) = match d.getTemplateContents h with
      | .ok tc => .ok (d, .node tc)
      | .error e => .error e := by
  show d.applyV _ _ (.getTemplateContents h) = _
  simp only [Dom.applyV]
  cases d.getTemplateContents h <;> rfl

theorem sink_ip_apply (d : Dom) (h : Id) :
    d.apply (.isMathmlAnnotationXmlIntegrationPoint h) = match d.isMathmlAnnotationXmlIntegrationPoint h with
      | .ok b => .ok (d, .bool b)
      | .error e => .error e := by
  show d.applyV _ _ (.isMathmlAnnotationXmlIntegrationPoint h) = _
  simp only [Dom.applyV]
  cases d.isMathmlAnnotationXmlIntegrationPoint h <;> rfl

/-- a sink call whose answer is a function of an element query -/
theorem qresp_sink_of {γ : Type} (op : SinkOp) (q : Dom → Except String γ) (out : γ → Output)
    (hap : ∀ d, d.apply op = match q d with | .ok v => .ok (d, out v) | .error e => .error e)
    (hq : ∀ d d', DQ d d' → RelE (q d) (q d')) : QResp (sink op) := by
  intro s t hst
  obtain ⟨m, o, p, f, i, c, tr, d, rfl, hd⟩ := hst
  rw [sink_apply, sink_apply]
  have h := hq s.dom d hd
  show QRel _ _ (match s.dom.apply op with | .error e => _ | .ok (d, out) => _)
    (match d.apply op with | .error e => _ | .ok (d, out) => _)
  rw [hap s.dom, hap d]
  cases h1 : q s.dom with
  | error e =>
    rw [h1] at h
    cases h2 : q d with
    | error e' => trivial
    | ok v => rw [h2] at h; exact h.elim
  | ok v =>
    rw [h1] at h
    cases h2 : q d with
    | error e' => rw [h2] at h; exact h.elim
    | ok v' =>
      rw [h2] at h
      have : v = v' := h
      subst this
      exact ⟨rfl, ⟨_, rfl⟩, ⟨_, rfl⟩⟩

theorem qresp_sink_elemName (h : Id) : QResp (sink (.elemName h)) :=
  qresp_sink_of _ (fun d => d.elemName h) (fun v => .name v.1 v.2)
    (fun d => by rw [sink_elemName_apply]; cases d.elemName h <;> rfl) (fun _ _ hd => (hd h).1)

theorem qresp_sink_tc (h : Id) : QResp (sink (.getTemplateContents h)) :=
  qresp_sink_of _ (fun d => d.getTemplateContents h) (fun v => .node v)
    (fun d => by rw [sink_tc_apply]; cases d.getTemplateContents h <;> rfl) (fun _ _ hd => (hd h).2.1)

theorem qresp_sink_ip (h : Id) : QResp (sink (.isMathmlAnnotationXmlIntegrationPoint h)) :=
  qresp_sink_of _ (fun d => d.isMathmlAnnotationXmlIntegrationPoint h) (fun v => .bool v)
    (fun d => by rw [sink_ip_apply]; cases d.isMathmlAnnotationXmlIntegrationPoint h <;> rfl) (fun _ _ hd => (hd h).2.2)

theorem qresp_sink_sameNode (x y : Id) : QResp (sink (.sameNode x y)) :=
  qresp_sink_of _ (fun _ => (.ok (x == y) : Except String Bool)) (fun v => .bool v)
    (fun _ => rfl) (fun _ _ _ => RelE.refl _)

theorem elemName_q (h : Id) : QResp (elemName h) := by
  unfold elemName
  refine qresp_bind (qresp_sink_elemName h) (fun o => ?_)
  split
  · exact qresp_pure _
  · exact qresp_throw (α := _) _

theorem sameNode_q (x y : Id) : QResp (sameNode x y) := by
  unfold sameNode sinkBool
  refine qresp_bind (qresp_sink_sameNode x y) (fun o => ?_)
  split
  · exact qresp_pure _
  · exact qresp_throw (α := _) _

theorem sinkNode_tc_q (h : Id) : QResp (sinkNode (.getTemplateContents h)) := by
  unfold sinkNode
  refine qresp_bind (qresp_sink_tc h) (fun o => ?_)
  split
  · exact qresp_pure _
  · exact qresp_throw (α := _) _

theorem sinkBool_ip_q (h : Id) : QResp (sinkBool (.isMathmlAnnotationXmlIntegrationPoint h)) := by
  unfold sinkBool
  refine qresp_bind (qresp_sink_ip h) (fun o => ?_)
  split
  · exact qresp_pure _
  · exact qresp_throw (α := _) _

/-! ### automation (same skeleton as `resp_auto`) -/

syntax "q_lemma" : tactic
macro_rules | `(tactic| q_lemma) => `(tactic| with_reducible exact elemName_q _)
macro_rules | `(tactic| q_lemma) => `(tactic| with_reducible exact sameNode_q _ _)
macro_rules | `(tactic| q_lemma) => `(tactic| with_reducible exact sinkNode_tc_q _)
macro_rules | `(tactic| q_lemma) => `(tactic| with_reducible exact sinkBool_ip_q _)
macro_rules | `(tactic| q_lemma) => `(tactic| with_reducible exact qresp_panicAt _ _ _)
macro_rules | `(tactic| q_lemma) => `(tactic| with_reducible exact qresp_throw _)
macro_rules | `(tactic| q_lemma) => `(tactic| with_reducible exact qresp_throw_bind _ _)
macro_rules | `(tactic| q_lemma) => `(tactic| with_reducible exact qresp_panicAt_bind _ _ _ _)
macro_rules | `(tactic| q_lemma) => `(tactic| with_reducible exact qresp_pure _)

macro "q_stable" : tactic =>
  `(tactic| (intro s t hst; obtain ⟨_, _, _, _, _, _, _, _, heq, _⟩ := hst; subst heq; rfl))

macro "q_step" : tactic =>
  `(tactic| first
    | q_lemma
    | ((with_reducible refine qresp_getS_bind ?_ ?_); rotate_left; q_stable)
    | (with_reducible refine qresp_pure_bind ?_)
    | (with_reducible refine qresp_bind ?_ ?_)
    | (with_reducible intro _)
    | (with_reducible refine qresp_ite (fun _ => ?_) (fun _ => ?_))
    | split
    | assumption
    | (with_reducible exact ‹∀ _, QResp _› _)
    | (with_reducible exact ‹∀ _ _, QResp _› _ _)
    | (simp (config := { zeta := true }) only [pure_bind]))

macro "q_auto" : tactic => `(tactic| repeat' q_step)

/-! ### the queries of the model -/

theorem htmlElemNamedS_q (h : Id) (name : Str) : QResp (htmlElemNamedS h name) := by
  unfold htmlElemNamedS; q_auto
macro_rules | `(tactic| q_lemma) => `(tactic| with_reducible exact htmlElemNamedS_q _ _)
theorem htmlElemNamed_q (h : Id) (name : String) : QResp (htmlElemNamed h name) := htmlElemNamedS_q _ _
macro_rules | `(tactic| q_lemma) => `(tactic| with_reducible exact htmlElemNamed_q _ _)

theorem elemIn_q (h : Id) (set : EName → Bool) : QResp (elemIn h set) := by
  unfold elemIn; q_auto
macro_rules | `(tactic| q_lemma) => `(tactic| with_reducible exact elemIn_q _ _)

theorem currentNode_q : QResp currentNode := by
  unfold currentNode; q_auto
macro_rules | `(tactic| q_lemma) => `(tactic| with_reducible exact currentNode_q)

theorem adjustedCurrentNode_q : QResp adjustedCurrentNode := by
  unfold adjustedCurrentNode; q_auto
macro_rules | `(tactic| q_lemma) => `(tactic| with_reducible exact adjustedCurrentNode_q)

theorem currentNodeIn_q (set : EName → Bool) : QResp (currentNodeIn set) := by
  unfold currentNodeIn; q_auto
macro_rules | `(tactic| q_lemma) => `(tactic| with_reducible exact currentNodeIn_q _)

theorem currentNodeNamedS_q (name : Str) : QResp (currentNodeNamedS name) := by
  unfold currentNodeNamedS; q_auto
macro_rules | `(tactic| q_lemma) => `(tactic| with_reducible exact currentNodeNamedS_q _)
theorem currentNodeNamed_q (name : String) : QResp (currentNodeNamed name) := currentNodeNamedS_q _
macro_rules | `(tactic| q_lemma) => `(tactic| with_reducible exact currentNodeNamed_q _)

theorem htmlElem_q : QResp htmlElem := by
  unfold htmlElem; q_auto
macro_rules | `(tactic| q_lemma) => `(tactic| with_reducible exact htmlElem_q)

theorem fosterLoop_q : ∀ l, QResp (fosterLoop l)
  | [] => by unfold fosterLoop; q_auto
  | e :: rest => by
    have ih := fosterLoop_q rest
    unfold fosterLoop; q_auto
macro_rules | `(tactic| q_lemma) => `(tactic| with_reducible exact fosterLoop_q _)

theorem appropriatePlaceForInsertion_q (o : Option Id) : QResp (appropriatePlaceForInsertion o) := by
  unfold appropriatePlaceForInsertion; q_auto
macro_rules | `(tactic| q_lemma) => `(tactic| with_reducible exact appropriatePlaceForInsertion_q _)

theorem isForeign_q (token : Token) : QResp (isForeign token) := by
  unfold isForeign; q_auto
macro_rules | `(tactic| q_lemma) => `(tactic| with_reducible exact isForeign_q _)

theorem anySameNodeRev_q (node : Id) : ∀ l, QResp (anySameNodeRev node l)
  | [] => by unfold anySameNodeRev; q_auto
  | n :: rest => by
    have ih := anySameNodeRev_q node rest
    unfold anySameNodeRev; q_auto
macro_rules | `(tactic| q_lemma) => `(tactic| with_reducible exact anySameNodeRev_q _ _)

theorem isMarkerOrOpen_q : ∀ e, QResp (isMarkerOrOpen e)
  | .marker => by unfold isMarkerOrOpen; q_auto
  | .element node _ => by unfold isMarkerOrOpen; q_auto
macro_rules | `(tactic| q_lemma) => `(tactic| with_reducible exact isMarkerOrOpen_q _)

theorem anyHtmlElemNamed_q (name : String) : ∀ l, QResp (anyHtmlElemNamed name l)
  | [] => by unfold anyHtmlElemNamed; q_auto
  | e :: rest => by
    have ih := anyHtmlElemNamed_q name rest
    unfold anyHtmlElemNamed; q_auto
macro_rules | `(tactic| q_lemma) => `(tactic| with_reducible exact anyHtmlElemNamed_q _ _)

theorem inHtmlElemNamed_q (name : String) : QResp (inHtmlElemNamed name) := by
  unfold inHtmlElemNamed; q_auto
macro_rules | `(tactic| q_lemma) => `(tactic| with_reducible exact inHtmlElemNamed_q _)

/-! ### using a query lemma -/

/-- a query run in a state: error, or an answer and only the trace changed -/
theorem QResp.run {α : Type} {m : M α} (h : QResp m) (s : State) :
    (∃ e, m s = .error e) ∨ ∃ a tr, m s = .ok (a, withTr s tr) := by
  have := h s s (QSim.refl s)
  cases hs : m s with
  | error e => exact Or.inl ⟨e, rfl⟩
  | ok p =>
    obtain ⟨a, s'⟩ := p
    rw [hs] at this
    obtain ⟨_, ⟨tr, h2⟩, _⟩ := this
    subst h2
    exact Or.inr ⟨a, tr, rfl⟩

/-- the answer transfers to a `QSim` state -/
theorem QResp.transfer {α : Type} {m : M α} (h : QResp m) {s t : State} (hst : QSim s t) {a : α} {s' : State}
    (hs : m s = .ok (a, s')) : ∃ tr, m t = .ok (a, withTr t tr) := by
  have := h s t hst
  rw [hs] at this
  cases ht : m t with
  | error e => rw [ht] at this; exact this.elim
  | ok q =>
    obtain ⟨b, t'⟩ := q
    rw [ht] at this
    obtain ⟨h1, _, ⟨tr, h3⟩⟩ := this
    subst h1; subst h3
    exact ⟨tr, rfl⟩

theorem QResp.transfer_err {α : Type} {m : M α} (h : QResp m) {s t : State} (hst : QSim s t) {e : String}
    (hs : m s = .error e) : ∃ e', m t = .error e' := by
  have := h s t hst
  rw [hs] at this
  cases ht : m t with
  | error e' => exact ⟨e', rfl⟩
  | ok q => rw [ht] at this; exact this.elim

end H5V.Lemmas.TBSplit
