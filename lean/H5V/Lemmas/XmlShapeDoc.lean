import H5V.Lemmas.XmlShapeLexRun
import H5V.Lemmas.XmlShapeTag
import H5V.Props.C17RT
/-!
C17, shape of parsed trees, part 7: from the tokenizer model's token log to the lexical side conditions
`nodesLex` of the document the tree-builder model builds from it.

* `Corner t` (decidable): the token shapes for which `nodesLex` of the resulting tree can fail —
  a start / empty tag whose name or one of whose attribute names has a prefix containing `=`, or one of whose
  attributes has an (unsplit) name starting with `:`; a PI whose data starts with a blank.  Nothing else:
  comments always satisfy `CommentLex` (`XmlShapeCmt`).
* `tokOK`: what `CleanP NN` and `Lex` say about one token; `cv_tok`: a token that is `tokOK` and no
  `Corner` is, seen by the tree builder (`cvTok`), a `TokShape` token satisfying the token-level lexical
  conditions `TokLexTB`; `mergeChars` keeps both.
* `resolve_lex`: every element `S.resolve` creates from such tokens satisfies `ElemLex`;
  `nodesLex_of`: a tree whose elements satisfy `ElemLex` and whose leaves satisfy `LeafLex` satisfies
  `nodesLex`.
-/
namespace H5V.Lemmas.XmlShape
open H5V.Model.XmlTB H5V.Model.XmlSer H5V.Spec.XmlNs H5V.Lemmas.XmlNs H5V.Lemmas.XmlSer H5V.Props.C16
open H5V.Lemmas.XmlSerFixed H5V.Lemmas.XmlRT H5V.Props.C17
open H5V.Lemmas.XmlShapeLex (TokA TagA AttrA ANameA PiTA DtI)

abbrev XTok := Model.XmlTok.Token

/-! ### corners -/

def pfxHasEq (q : Model.XmlTok.QName) : Bool :=
  match q.pfx with
  | some p => p.contains '='
  | none => false

def attrCorner (a : Model.XmlTok.Attr) : Bool :=
  pfxHasEq a.name || (a.name.pfx.isNone && a.name.loc.head? == some ':')

/-- the token shapes that can break the lexical side conditions of the round trip -/
def Corner : XTok → Bool
  | .tag t => (t.kind == .startTag || t.kind == .emptyTag) && (pfxHasEq t.name || t.attrs.any attrCorner)
  | .pi _ d => match d with
    | c :: _ => Model.XmlTok.isWs3 c
    | [] => false
  | _ => false

/-- what the two tokenizer invariants say about one token -/
def tokOK (t : XTok) : Prop := TokA t ∧ Model.XmlTok.Token.Clean Model.XmlTok.NN t

/-! ### token-level lexical conditions, on tree-builder tokens -/

def rawR (n : RName) : Str :=
  match n.pfx with
  | some p => p ++ ':' :: n.loc
  | none => n.loc

def TagLexTB (t : Tag) : Prop :=
  (t.kind = .start ∨ t.kind = .empty) →
    TagNameLex (rawR t.name) ∧ PfxLex t.name.pfx ∧
      ∀ a ∈ t.attrs, AttrNameLex (rawR a.name) ∧ PfxLex a.name.pfx ∧ NoNul a.value

/-- the lexical condition on a leaf of the tree (`nodeLex` without the element case) -/
def LeafLex : Node → Prop
  | .elem _ _ _ => True
  | .text s => NoNul s
  | .comment s => CommentLex s
  | .pi t d => PiLex t d
  | .doctype n _ _ => ∀ x ∈ n, DtCh x

theorem textClosed_leafLex : TextClosed LeafLex := by
  intro a b ha hb c hc
  rcases List.mem_append.mp hc with h | h
  · exact ha c h
  · exact hb c h

def TokLexTB : Token → Prop
  | .tag t => TagLexTB t
  | t => TokLeafQ LeafLex t

/-! ### names -/

theorem rawR_split (raw : Str) : rawR (splitQName raw) = raw := by
  cases hp : (splitQName raw).pfx with
  | none =>
    have h := C16_splitQName_none raw hp
    rw [h]; rfl
  | some p =>
    have h : splitQName raw = ⟨some p, (splitQName raw).loc⟩ := by
      cases hs : splitQName raw with
      | mk a b => rw [hs] at hp; simp only at hp; subst hp; rfl
    obtain ⟨hraw, _⟩ := C16_splitQName_some raw p _ h
    rw [h]; simp only [rawR]; exact hraw.symm

theorem pfx_sub (raw : Str) (q : Str) (h : (splitQName raw).pfx = some q) : ∀ d ∈ q, d ∈ raw := by
  have h' : splitQName raw = ⟨some q, (splitQName raw).loc⟩ := by
    cases hs : splitQName raw with
    | mk a b => rw [hs] at h; simp only at h; subst h; rfl
  obtain ⟨hraw, _⟩ := C16_splitQName_some raw q _ h'
  intro d hd; rw [hraw]; simp [hd]

theorem splitQName_colon (rest : Str) : splitQName (':' :: rest) = ⟨none, ':' :: rest⟩ := by
  unfold splitQName
  split
  · rfl
  · rename_i col hcol
    split at hcol
    · cases hcol
    · simp [qnameRun] at hcol

theorem tagNameLex_all {s : Str} (h : TagNameLex s) : ∀ d ∈ s, NmCh d := by
  obtain ⟨c, t, rfl, h1, _, h3⟩ := h
  intro d hd
  rcases List.mem_cons.mp hd with rfl | hd
  · exact h1
  · exact h3 d hd

theorem aNameA_all {s : Str} (h : ANameA s) : ∀ d ∈ s, NmCh d := by
  obtain ⟨c, t, rfl, h1, h3⟩ := h
  intro d hd
  rcases List.mem_cons.mp hd with rfl | hd
  · exact h1
  · exact (h3 d hd).1

theorem pfxLex_of_noEq (raw : Str) (hall : ∀ d ∈ raw, NmCh d) (q : Model.XmlTok.QName)
    (hq : cvName q = splitQName raw) (hne : pfxHasEq q = false) : PfxLex (splitQName raw).pfx := by
  intro p hp d hd
  refine ⟨hall d (pfx_sub raw p hp d hd), ?_⟩
  have e : q.pfx = some p := by
    have := congrArg RName.pfx hq
    simp only [cvName] at this
    rw [this]; exact hp
  unfold pfxHasEq at hne
  rw [e] at hne
  simp only [List.contains_eq_mem, decide_eq_false_iff_not] at hne
  intro e2; subst e2; exact hne hd

/-! ### one token: from the tokenizer's invariants to the tree builder's view -/

theorem cv_tag (t : Model.XmlTok.Tag) (h : tokOK (.tag t)) (hc : Corner (.tag t) = false) :
    TagShape ⟨cvKind t.kind, cvName t.name, t.attrs.map cvAttr⟩ ∧
    TagLexTB ⟨cvKind t.kind, cvName t.name, t.attrs.map cvAttr⟩ := by
  obtain ⟨⟨hn, ha, hnd⟩, hcl⟩ := h
  have hattr : ∀ a ∈ t.attrs, ∃ raw, ANameA raw ∧ cvName a.name = splitQName raw := by
    intro a ham
    obtain ⟨raw, e, hr⟩ := ha a ham
    exact ⟨raw, hr, by rw [e, cvName_processQName]⟩
  have hkind : (cvKind t.kind = .start ∨ cvKind t.kind = .empty) → (t.kind = .startTag ∨ t.kind = .emptyTag) := by
    intro hk; cases hkk : t.kind <;> simp_all [cvKind]
  refine ⟨⟨?_, ?_, ?_⟩, ?_⟩
  · intro hk
    obtain ⟨raw, e, hr⟩ := hn (hkind hk)
    refine ⟨raw, by simp only [e, cvName_processQName], ?_⟩
    obtain ⟨c, r, rfl, _⟩ := hr
    simp
  · intro a ham
    obtain ⟨a0, ha0, rfl⟩ := List.mem_map.mp ham
    obtain ⟨raw, hr, e⟩ := hattr a0 ha0
    obtain ⟨c, r, rfl, _⟩ := hr
    exact ⟨c :: r, by simp, e⟩
  · rw [List.map_map]
    have : (t.attrs.map ((·.name) ∘ cvAttr)) = (t.attrs.map (·.name)).map cvName := by
      rw [List.map_map]; rfl
    rw [this]
    exact nodup_map_of_inj cvName (fun a b hab => (cvName_inj a b).mp hab) _ hnd
  · intro hk
    have hk' := hkind hk
    obtain ⟨raw, e, hr⟩ := hn hk'
    have hcn : cvName t.name = splitQName raw := by rw [e, cvName_processQName]
    simp only [Corner, Bool.and_eq_false_iff, Bool.or_eq_false_iff] at hc
    have hc' : pfxHasEq t.name = false ∧ t.attrs.any attrCorner = false := by
      rcases hc with hc | hc
      · rcases hk' with e1 | e1 <;> simp [e1] at hc
      · exact hc
    refine ⟨by simp only [hcn, rawR_split]; exact hr, ?_, ?_⟩
    · simp only [hcn]; exact pfxLex_of_noEq raw (tagNameLex_all hr) t.name hcn hc'.1
    · intro a ham
      obtain ⟨a0, ha0, rfl⟩ := List.mem_map.mp ham
      obtain ⟨raw', hr', e'⟩ := hattr a0 ha0
      have hnc : attrCorner a0 = false := by
        have := hc'.2
        simp only [List.any_eq_false] at this
        simpa using this a0 ha0
      simp only [attrCorner, Bool.or_eq_false_iff, Bool.and_eq_false_iff] at hnc
      have hval : NoNul a0.value := fun c hcm => (hcl.2 a0 ha0).2 c hcm
      refine ⟨?_, ?_, hval⟩
      · show AttrNameLex (rawR (cvName a0.name))
        rw [e', rawR_split]
        obtain ⟨c, r, rfl, h1, h2⟩ := hr'
        refine ⟨c, r, rfl, h1, ?_, h2⟩
        intro ec; subst ec
        rw [splitQName_colon] at e'
        have e1 : a0.name.pfx = none := by have := congrArg RName.pfx e'; simpa [cvName] using this
        have e2 : a0.name.loc = ':' :: r := by have := congrArg RName.loc e'; simpa [cvName] using this
        rcases hnc.2 with h | h
        · simp [e1] at h
        · simp [e2] at h
      · show PfxLex (cvName a0.name).pfx
        rw [e']; exact pfxLex_of_noEq raw' (aNameA_all hr') a0.name e' hnc.1

/-- **one token**: a token satisfying the tokenizer's two invariants that is no `Corner` is, as the tree
builder sees it, a `TokShape` token satisfying the token-level lexical conditions -/
theorem cv_tok (t : XTok) (h : tokOK t) (hc : Corner t = false) (t' : Token) (ht : cvTok t = some t') :
    TokShape t' ∧ TokLexTB t' := by
  cases t with
  | tag tg =>
    simp only [cvTok, Option.some.injEq] at ht; subst ht
    exact cv_tag tg h hc
  | doctype d =>
    simp only [cvTok, Option.some.injEq] at ht; subst ht
    refine ⟨trivial, ?_⟩
    show ∀ x ∈ optStr d.name, DtCh x
    intro x hx
    cases hn : d.name with
    | none => rw [hn] at hx; simp [optStr] at hx
    | some s => rw [hn] at hx; exact h.1 s hn x (by simpa [optStr] using hx)
  | pi a b =>
    simp only [cvTok, Option.some.injEq] at ht; subst ht
    refine ⟨trivial, ?_⟩
    obtain ⟨⟨⟨c, r, rfl, h1, h2⟩, h3⟩, hq1, hq2⟩ := h
    show PiLex (c :: r) b
    refine ⟨⟨c, r, rfl, hq1 c (by simp), h1, fun x hx => ⟨hq1 x (by simp [hx]), (h2 x hx).1, (h2 x hx).2⟩⟩,
      fun x hx => ⟨hq2 x hx, h3 x hx⟩, ?_⟩
    intro x hx
    cases b with
    | nil => cases hx
    | cons y ys =>
      simp only [List.head?_cons, Option.some.injEq] at hx; subst hx
      simp only [Corner] at hc
      have : ¬ Model.XmlTok.isWs3 y = true := by simpa using hc
      exact XmlShapeLex.ws3_of this
  | comment s =>
    simp only [cvTok, Option.some.injEq] at ht; subst ht
    refine ⟨trivial, ?_⟩
    show CommentLex s
    exact ⟨fun c hcm => h.2 c hcm, h.1⟩
  | chars s =>
    simp only [cvTok, Option.some.injEq] at ht; subst ht
    exact ⟨h.1, fun c hcm => h.2 c hcm⟩
  | eof =>
    simp only [cvTok, Option.some.injEq] at ht; subst ht
    exact ⟨trivial, trivial⟩
  | error e => simp [cvTok] at ht

theorem cvOut_ok (out : Model.XmlTok.Out) (h : ∀ t ∈ out, tokOK t) (hc : ∀ t ∈ out, Corner t = false) :
    ∀ t' ∈ cvOut out, TokShape t' ∧ TokLexTB t' := by
  intro t' ht'
  unfold cvOut at ht'
  obtain ⟨t, hm, e⟩ := List.mem_filterMap.mp ht'
  have hm' := List.mem_reverse.mp hm
  exact cv_tok t (h t hm') (hc t hm') t' e

/-- `mergeChars` keeps every property of single tokens that survives the concatenation of character data -/
theorem mergeChars_all (P : Token → Prop) (hP : ∀ a b, P (.chars a) → P (.chars b) → P (.chars (a ++ b))) :
    ∀ (n : Nat) (l : List Token), l.length = n → (∀ t ∈ l, P t) → ∀ t ∈ mergeChars l, P t := by
  intro n
  induction n using Nat.strongRecOn with
  | _ n ih =>
    intro l hl h
    match l, hl with
    | [], _ => intro t ht; simp [mergeChars] at ht
    | [x], _ =>
      intro t ht
      have : mergeChars [x] = [x] := by
        cases x with
        | chars a =>
          rw [mergeChars]
          · simp [mergeChars]
          · intro a' b' r h1; simp at h1; intro h2; cases h2
        | _ => rw [mergeChars_nonchars _ _ rfl]; simp [mergeChars]
      rw [this] at ht; exact h t ht
    | x :: y :: rest, hl =>
      cases x with
      | chars a =>
        cases y with
        | chars b =>
          rw [mergeChars]
          apply ih (rest.length + 1) (by simp at hl; omega) _ (by simp)
          intro t ht
          rcases List.mem_cons.mp ht with rfl | ht
          · exact hP a b (h _ (by simp)) (h _ (by simp))
          · exact h t (by simp [ht])
        | _ =>
          rw [mergeChars_chars_stop _ _ _ rfl]
          intro t ht
          rcases List.mem_cons.mp ht with rfl | ht
          · exact h _ (by simp)
          · exact ih (rest.length + 1) (by simp at hl; omega) _ (by simp)
              (fun u hu => h u (List.mem_cons_of_mem _ hu)) t ht
      | _ =>
        rw [mergeChars_nonchars _ _ rfl]
        intro t ht
        rcases List.mem_cons.mp ht with rfl | ht
        · exact h _ (by simp)
        · exact ih (rest.length + 1) (by simp at hl; omega) _ (by simp)
            (fun u hu => h u (List.mem_cons_of_mem _ hu)) t ht

theorem tbTokens_ok (out : Model.XmlTok.Out) (h : ∀ t ∈ out, tokOK t) (hc : ∀ t ∈ out, Corner t = false) :
    ∀ t' ∈ tbTokens out, TokShape t' ∧ TokLexTB t' := by
  unfold tbTokens
  apply mergeChars_all (fun t => TokShape t ∧ TokLexTB t) _ _ _ rfl (cvOut_ok out h hc)
  intro a b ha hb
  refine ⟨?_, textClosed_leafLex a b ha.2 hb.2⟩
  show a ++ b ≠ []
  intro e; exact ha.1 (List.append_eq_nil_iff.mp e).1

/-! ### the resolver: every created element satisfies `ElemLex` -/

/-- every URI a frame binds is NUL-free -/
def FrameNN (f : NsFrame) : Prop := ∀ p u, (p, some u) ∈ f → NoNul u

theorem frameOf_nn (attrs : List RAttr) (h : ∀ a ∈ attrs, NoNul a.value) : FrameNN (frameOf attrs) := by
  intro p u hm
  obtain ⟨a, ha, hd⟩ := List.mem_filterMap.mp hm
  have hv := h a ha
  have hu : optUri a.value = some u → NoNul u := by
    intro e
    unfold optUri at e
    split at e
    · cases e
    · injection e with e; subst e; exact hv
  unfold declOf at hd
  split at hd
  · cases hd
  · split at hd
    · cases hd
    · split at hd
      · split at hd
        · cases hd
        · simp only [Option.some.injEq, Prod.mk.injEq] at hd; exact hu hd.2
      · simp only [Option.some.injEq, Prod.mk.injEq] at hd; exact hu hd.2

theorem lookupNs_nn (env : List NsFrame) (henv : ∀ f ∈ env, FrameNN f) (p : Option Str) :
    NoNul (lookupNs env p) := by
  unfold lookupNs
  split
  · intro c hc; revert c; decide
  · split
    · intro c hc; revert c; decide
    · split
      · rename_i uri hf
        obtain ⟨f, hfm, hfl⟩ := List.exists_of_findSome?_eq_some hf
        exact henv f hfm p uri (mem_of_lookup_some f p (some uri) hfl)
      · intro c hc; cases hc

theorem rawName_eq_rawR (n : QName) : rawName n = rawR ⟨n.pfx, n.loc⟩ := by
  unfold rawName rawR; cases n.pfx <;> rfl

theorem resolveTag_lex (scopes : List Scope) (hs : ∀ f ∈ envOf scopes, FrameNN f) (t : Tag) (ht : TagLexTB t)
    (hk : t.kind = .start ∨ t.kind = .empty) :
    ElemLex (resolveTag scopes t).name (resolveTag scopes t).attrs ∧ FrameNN (frameOf t.attrs) := by
  obtain ⟨h1, h2, h3⟩ := ht hk
  have hfr : FrameNN (frameOf t.attrs) := frameOf_nn t.attrs (fun a ha => (h3 a ha).2.2)
  refine ⟨?_, hfr⟩
  unfold resolveTag
  simp only []
  generalize henv : frameOf t.attrs :: envOf scopes = env
  have hE : ∀ f ∈ env, FrameNN f := by
    intro f hf; subst henv
    simp only [List.mem_cons] at hf
    rcases hf with rfl | hf
    · exact hfr
    · exact hs f hf
  refine ⟨?_, ?_, ?_, ?_⟩
  · rw [rawName_eq_rawR]; exact h1
  · exact h2
  · exact lookupNs_nn env hE _
  · intro a ha
    have hsub : (resolveAttrs env t.attrs).Sublist
        ((t.attrs.filter (fun a => !isDecl a.name)).map (fun a => (⟨resolveAttrName env a.name, a.value⟩ : Attr))) := by
      unfold resolveAttrs; exact dedup_sublist _ _
    obtain ⟨r, hr, rfl⟩ := List.mem_map.mp (hsub.subset ha)
    have hr' := (List.mem_filter.mp hr).1
    obtain ⟨g1, g2, g3⟩ := h3 r hr'
    obtain ⟨e1, e2⟩ := resolveAttrName_pfx env r.name
    refine ⟨?_, ?_, ?_, g3⟩
    · rw [rawName_eq_rawR]; simp only [e1, e2]; exact g1
    · simp only [e1]; exact g2
    · simp only []
      unfold resolveAttrName
      cases hp : r.name.pfx with
      | none => intro c hc; cases hc
      | some q => exact lookupNs_nn env hE _

def WhereNN : Where → Prop
  | .content scopes => ∀ f ∈ envOf scopes, FrameNN f
  | _ => True

theorem whereNN_afterClose (scopes : List Scope) (h : ∀ f ∈ envOf scopes, FrameNN f) : WhereNN (afterClose scopes) := by
  cases scopes with
  | nil => trivial
  | cons sc rest => exact h

/-- **every element `S.resolve` creates from lexically good tags satisfies `ElemLex`** -/
theorem resolve_lex (toks : List Token) : ∀ (w : Where), WhereNN w →
    (∀ t ∈ toks, ∀ tg, t = .tag tg → TagLexTB tg) → ∀ c ∈ resolve w toks, ElemLex c.name c.attrs := by
  induction toks with
  | nil => intro w _ _ c hc; simp [resolve] at hc
  | cons tok rest ih =>
    intro w hw hts c hc
    have hrest : ∀ t ∈ rest, ∀ tg, t = .tag tg → TagLexTB tg := fun t ht => hts t (by simp [ht])
    have hnil : ∀ f ∈ envOf [], FrameNN f := by intro f hf; simp [envOf] at hf
    match w, hw with
    | .epilog, _ => simp only [resolve] at hc; exact ih .epilog trivial hrest c hc
    | .prolog, _ =>
      match tok, hts tok (by simp) with
      | .tag ⟨.start, n, as⟩, htok =>
        obtain ⟨g1, g2⟩ := resolveTag_lex [] hnil _ (htok _ rfl) (Or.inl rfl)
        simp only [resolve, List.mem_cons] at hc
        rcases hc with rfl | hc
        · exact g1
        · refine ih _ ?_ hrest c hc
          intro f hf
          simp only [envOf, scopeOf, List.map_cons, List.map_nil, List.mem_singleton] at hf
          subst hf; exact g2
      | .tag ⟨.empty, n, as⟩, htok =>
        obtain ⟨g1, _⟩ := resolveTag_lex [] hnil _ (htok _ rfl) (Or.inr rfl)
        simp only [resolve, List.mem_cons] at hc
        rcases hc with rfl | hc
        · exact g1
        · exact ih .epilog trivial hrest c hc
      | .tag ⟨.end_, n, as⟩, _ => simp only [resolve] at hc; exact ih .prolog trivial hrest c hc
      | .tag ⟨.short, n, as⟩, _ => simp only [resolve] at hc; exact ih .prolog trivial hrest c hc
      | .eof, _ => simp only [resolve] at hc; exact ih .epilog trivial hrest c hc
      | .doctype _ _ _, _ => simp only [resolve] at hc; exact ih .prolog trivial hrest c hc
      | .comment _, _ => simp only [resolve] at hc; exact ih .prolog trivial hrest c hc
      | .chars _, _ => simp only [resolve] at hc; exact ih .prolog trivial hrest c hc
      | .pi _ _, _ => simp only [resolve] at hc; exact ih .prolog trivial hrest c hc
      | .nullChar, _ => simp only [resolve] at hc; exact ih .prolog trivial hrest c hc
    | .content scopes, hw =>
      have hw' : ∀ f ∈ envOf scopes, FrameNN f := hw
      match tok, hts tok (by simp) with
      | .tag ⟨.start, n, as⟩, htok =>
        obtain ⟨g1, g2⟩ := resolveTag_lex scopes hw' _ (htok _ rfl) (Or.inl rfl)
        simp only [resolve, List.mem_cons] at hc
        rcases hc with rfl | hc
        · exact g1
        · refine ih _ ?_ hrest c hc
          intro f hf
          simp only [envOf, scopeOf, List.map_cons, List.mem_cons] at hf
          rcases hf with rfl | hf
          · exact g2
          · exact hw' f hf
      | .tag ⟨.empty, n, as⟩, htok =>
        obtain ⟨g1, _⟩ := resolveTag_lex scopes hw' _ (htok _ rfl) (Or.inr rfl)
        simp only [resolve, List.mem_cons] at hc
        rcases hc with rfl | hc
        · exact g1
        · exact ih _ hw hrest c hc
      | .tag ⟨.end_, n, as⟩, _ =>
        simp only [resolve] at hc
        split at hc
        · rename_i scopes' hcl
          exact ih _ (whereNN_afterClose scopes' (fun f hf => hw' f (closeScopes_sub _ _ _ _ hcl f hf))) hrest c hc
        · exact ih _ hw hrest c hc
      | .tag ⟨.short, n, as⟩, _ =>
        simp only [resolve] at hc
        refine ih _ (whereNN_afterClose _ ?_) hrest c hc
        intro f hf
        cases scopes with
        | nil => simp [envOf] at hf
        | cons sc r => exact hw' f (by simp only [envOf, List.map_cons, List.mem_cons]; right; exact hf)
      | .eof, _ => simp only [resolve] at hc; exact ih .epilog trivial hrest c hc
      | .nullChar, _ => simp only [resolve] at hc; exact ih .epilog trivial hrest c hc
      | .doctype _ _ _, _ => simp only [resolve] at hc; exact ih _ hw hrest c hc
      | .comment _, _ => simp only [resolve] at hc; exact ih _ hw hrest c hc
      | .chars _, _ => simp only [resolve] at hc; exact ih _ hw hrest c hc
      | .pi _ _, _ => simp only [resolve] at hc; exact ih _ hw hrest c hc

/-! ### from elements and leaves to `nodesLex` -/

mutual
theorem nodeLex_of_parts : ∀ (nd : Node), (∀ c ∈ elemsOf nd, ElemLex c.name c.attrs) →
    (∀ x ∈ leavesOf nd, LeafLex x) → nodeLex nd
  | .elem n as ks, h, hl => by
    simp only [nodeLex]
    exact ⟨h ⟨n, as⟩ (by simp [elemsOf]), nodesLex_of_parts ks (fun c hc => h c (by simp [elemsOf, hc]))
      (fun x hx => hl x (by simpa [leavesOf] using hx))⟩
  | .text s, _, hl => by simp only [nodeLex]; exact hl (.text s) (by simp [leavesOf])
  | .comment s, _, hl => by simp only [nodeLex]; exact hl (.comment s) (by simp [leavesOf])
  | .pi t d, _, hl => by simp only [nodeLex]; exact hl (.pi t d) (by simp [leavesOf])
  | .doctype n p s, _, hl => by simp only [nodeLex]; exact hl (.doctype n p s) (by simp [leavesOf])
theorem nodesLex_of_parts : ∀ (ns : List Node), (∀ c ∈ elemsOfL ns, ElemLex c.name c.attrs) →
    (∀ x ∈ leavesOfL ns, LeafLex x) → nodesLex ns
  | [], _, _ => trivial
  | n :: rest, h, hl => by
    simp only [nodesLex]
    exact ⟨nodeLex_of_parts n (fun c hc => h c (by simp [elemsOfL, hc])) (fun x hx => hl x (by simp [leavesOfL, hx])),
      nodesLex_of_parts rest (fun c hc => h c (by simp [elemsOfL, hc])) (fun x hx => hl x (by simp [leavesOfL, hx]))⟩
end

theorem leavesOfL_pre (l : List Node) (h : ∀ x ∈ l, isPre x = true) : leavesOfL l = l := by
  induction l with
  | nil => rfl
  | cons x xs ih =>
    have hx := h x (by simp)
    have := ih (fun y hy => h y (by simp [hy]))
    cases x <;> simp_all [leavesOfL, leavesOf, isPre]

end H5V.Lemmas.XmlShape
