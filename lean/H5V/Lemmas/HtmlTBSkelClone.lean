import H5V.Lemmas.HtmlTBSkelDom
/-!
C06 (skeleton invariant), part 2: the option → selectedcontent mirror
(`maybe_clone_an_option_into_selectedcontent`) keeps `DomBase`, changes no existing node's data,
and touches the child list of one existing node only — the `selectedcontent` element.
No well-formedness hypothesis.
-/
namespace H5V.Props.C06
open H5V.Model.Dom hiding Str
open H5V.Model.HtmlTB hiding Str
open H5V.Lemmas.Dom

/-- old nodes keep their data and — except `ex` — their children -/
structure FrK (d d' : Dom) (ex : Option Id) : Prop where
  size : d.size ≤ d'.size
  data : ∀ y, y < d.size → d'.dataOf y = d.dataOf y
  kids : ∀ y, y < d.size → some y ≠ ex → d'.childrenOf y = d.childrenOf y

theorem FrK.refl (d : Dom) (ex : Option Id) : FrK d d ex := ⟨Nat.le_refl _, fun _ _ => rfl, fun _ _ _ => rfl⟩

theorem FrK.trans {a b c : Dom} {ex : Option Id} (h1 : FrK a b ex) (h2 : FrK b c ex) : FrK a c ex :=
  ⟨Nat.le_trans h1.size h2.size,
   fun y hy => (h2.data y (Nat.lt_of_lt_of_le hy h1.size)).trans (h1.data y hy),
   fun y hy he => (h2.kids y (Nat.lt_of_lt_of_le hy h1.size) he).trans (h1.kids y hy he)⟩

theorem FrK.weaken {d d' : Dom} {ex : Option Id} (h : FrK d d' none) : FrK d d' ex :=
  ⟨h.size, h.data, fun y hy _ => h.kids y hy (by simp)⟩

theorem FrK.strengthen {d d' : Dom} {i : Id} (h : FrK d d' (some i)) (hi : d.size ≤ i) : FrK d d' none :=
  ⟨h.size, h.data, fun y hy _ => h.kids y hy (by
    intro e; cases e; exact Nat.lt_irrefl _ (Nat.lt_of_lt_of_le hy hi))⟩

theorem FrK.chg {d d' : Dom} {ex : Option Id} (h : FrK d d' ex) : Chg d d' := Chg.of_data_eq h.size h.data

theorem frK_alloc (d : Dom) (v : NodeData) : FrK d (d.alloc v).1 none :=
  ⟨by rw [size_alloc]; exact Nat.le_succ _, fun y hy => by rw [dataOf_alloc]; simp [Nat.ne_of_lt hy],
   fun y _ _ => childrenOf_alloc d v y⟩

theorem frK_appendRaw {d d' : Dom} {p c : Id} (h : d.appendRaw p c = .ok d') : FrK d d' (some p) := by
  obtain ⟨_, _, hk, hd, hs⟩ := appendRaw_eff h
  refine ⟨Nat.le_of_eq hs.symm, fun y _ => hd y, fun y _ he => ?_⟩
  rw [hk]
  have : y ≠ p := fun e => he (by rw [e])
  simp [this]

/-- result of copying a subtree -/
structure CS (d d' : Dom) (x k : Id) : Prop where
  base : DomBase d'
  fr : FrK d d' none
  fresh : d.size ≤ k
  valid : k < d'.size
  data : (d'.dataOf k).map eraseTc = (d.dataOf x).map eraseTc

theorem cloneKids_frame {cl : Dom → Id → Except String (Dom × Id)}
    (hcl : ∀ d c d' k, DomBase d → cl d c = .ok (d', k) → CS d d' c k) {id : Id} :
    ∀ (cs : List Id) (d d' : Dom), DomBase d → (cs ≠ [] → d.isContainer id = true) →
      (∀ c ∈ cs, c < d.size ∧ d.dataOf c ≠ some .document) →
      Dom.cloneKidsWith cl id d cs = .ok d' → DomBase d' ∧ FrK d d' (some id) := by
  intro cs
  induction cs with
  | nil =>
    intro d d' hb _ _ h
    simp [Dom.cloneKidsWith] at h
    subst h
    exact ⟨hb, FrK.refl _ _⟩
  | cons c cs ih =>
    intro d d' hb hcont hcs h
    simp only [Dom.cloneKidsWith, bind, Except.bind] at h
    cases h1 : cl d c with
    | error e => simp [h1] at h
    | ok r =>
      obtain ⟨d1, k⟩ := r
      simp only [h1] at h
      have cs1 := hcl d c d1 k hb h1
      cases h2 : d1.appendRaw id k with
      | error e => simp [h2] at h
      | ok d2 =>
        simp only [h2] at h
        have hidc : d1.isContainer id = true := cs1.fr.chg.isContainer (hcont (by simp))
        have hknd : d1.dataOf k ≠ some .document := not_doc_of_eraseTc cs1.data (hcs c (by simp)).2
        obtain ⟨hb2, hchg2, _, _⟩ := append_node_spec cs1.base hidc hknd (by rw [append_node_eq]; exact h2)
        have hf12 : FrK d d2 (some id) := cs1.fr.weaken.trans (frK_appendRaw h2)
        obtain ⟨hb', hf'⟩ := ih d2 d' hb2 (fun _ => hchg2.isContainer hidc) (by
          intro c' hc'
          obtain ⟨h1', h2'⟩ := hcs c' (List.mem_cons_of_mem _ hc')
          exact ⟨Nat.lt_of_lt_of_le h1' hf12.size, by rw [hf12.data c' h1']; exact h2'⟩) h
        exact ⟨hb', hf12.trans hf'⟩

/-- second half of `clone_with_subtree`: allocate the copy, copy the children below it -/
theorem clone_stage {cl : Dom → Id → Except String (Dom × Id)}
    (hcl : ∀ d c d' k, DomBase d → cl d c = .ok (d', k) → CS d d' c k)
    {d d1 d3 : Dom} {x : Id} {n : Node} {data : NodeData} (hb : DomBase d) (hn : d.node? x = some n)
    (hb1 : DomBase d1) (hf1 : FrK d d1 none) (hdat : eraseTc data = eraseTc n.data)
    (htc : ∀ nm a tc ip, data = .element nm a (some tc) ip → tc ≠ 0 ∧ d1.dataOf tc = some .document)
    (hk : Dom.cloneKidsWith cl d1.size (d1.alloc data).1 n.children = .ok d3) : CS d d3 x d1.size := by
  have hb2 : DomBase (d1.alloc data).1 := by
    refine hb1.alloc data ⟨?_, htc⟩
    intro t ht
    subst ht
    have : n.data = .text t := by
      cases hnd : n.data <;> simp [hnd, eraseTc] at hdat
      rw [hdat]
    exact hb.textNe x t (by rw [dataOf_of_node hn, this])
  have hidc : n.children ≠ [] → (d1.alloc data).1.isContainer d1.size = true := by
    intro hne
    have hc := hb.cont x (by rw [childrenOf_of_node hn]; exact hne)
    unfold Dom.isContainer at hc ⊢
    rw [dataOf_alloc]
    simp only [if_true]
    rw [dataOf_of_node hn] at hc
    cases hnd : n.data <;> simp [hnd] at hc <;> cases data <;> simp [hnd, eraseTc] at hdat <;> rfl
  have hcs : ∀ c ∈ n.children, c < (d1.alloc data).1.size ∧ (d1.alloc data).1.dataOf c ≠ some .document := by
    intro c hc
    have hcx : c ∈ d.childrenOf x := by rw [childrenOf_of_node hn]; exact hc
    have hlt := hb.kidsValid x c hcx
    have hlt1 : c < d1.size := Nat.lt_of_lt_of_le hlt hf1.size
    refine ⟨by rw [size_alloc]; exact Nat.lt_succ_of_lt hlt1, ?_⟩
    rw [dataOf_alloc]
    simp only [Nat.ne_of_lt hlt1, if_false]
    rw [hf1.data c hlt]
    exact hb.kidNotDoc x c hcx
  obtain ⟨hb3, hf3⟩ := cloneKids_frame hcl n.children _ _ hb2 hidc hcs hk
  have hs2 : (d1.alloc data).1.size = d1.size + 1 := size_alloc _ _
  have hf13 : FrK d1 d3 none := by
    refine ⟨by have := hf3.size; omega, ?_, ?_⟩
    · intro y hy
      rw [hf3.data y (by omega), dataOf_alloc]; simp [Nat.ne_of_lt hy]
    · intro y hy _
      rw [hf3.kids y (by omega) (by intro e; cases e; exact Nat.lt_irrefl _ hy), childrenOf_alloc]
  refine ⟨hb3, hf1.trans hf13, hf1.size, Nat.lt_of_lt_of_le (by rw [hs2]; exact Nat.lt_succ_self _) hf3.size, ?_⟩
  rw [hf3.data d1.size (by omega), dataOf_alloc, dataOf_of_node hn]
  simp [hdat]

theorem cloneFixed_frame : ∀ (fuel : Nat) (d : Dom) (x : Id) (d' : Dom) (k : Id), DomBase d →
    Dom.cloneFixed d fuel x = .ok (d', k) → CS d d' x k := by
  intro fuel
  induction fuel with
  | zero => intro d x d' k _ h; simp [Dom.cloneFixed] at h
  | succ fuel ih =>
    intro d x d' k hb h
    simp only [Dom.cloneFixed, bind, Except.bind] at h
    cases hg : d.get x with
    | error e => simp [hg] at h
    | ok n =>
      have hn := get_ok.mp hg
      simp only [hg] at h
      have hcl : ∀ d c d' k, DomBase d → (fun d c => Dom.cloneFixed d fuel c) d c = .ok (d', k) → CS d d' c k :=
        fun d c d' k hb h => ih d c d' k hb h
      cases hnd : n.data with
      | element nm a tco ip =>
        cases tco with
        | some tc =>
          simp only [hnd] at h
          cases h1 : Dom.cloneFixed d fuel tc with
          | error e => simp [h1] at h
          | ok r =>
            obtain ⟨d1, tc'⟩ := r
            simp only [h1, pure, Except.pure] at h
            have cs1 := ih d tc d1 tc' hb h1
            cases hk : Dom.cloneKidsWith (fun d c => Dom.cloneFixed d fuel c) d1.size
                (d1.alloc (.element nm a (some tc') ip)).1 n.children with
            | error e =>
              have : (d1.alloc (.element nm a (some tc') ip)).2 = d1.size := rfl
              simp [this, hk] at h
            | ok d3 =>
              have : (d1.alloc (.element nm a (some tc') ip)).2 = d1.size := rfl
              simp only [this, hk, Except.ok.injEq, Prod.mk.injEq] at h
              obtain ⟨rfl, rfl⟩ := h
              refine clone_stage hcl hb hn cs1.base cs1.fr (by rw [hnd]; rfl) ?_ hk
              intro nm2 a2 tc2 ip2 he
              cases he
              have htcd : d.dataOf tc = some .document :=
                (hb.tcOk x tc (by unfold Dom.templateContentsOf; rw [dataOf_of_node hn, hnd])).2
              refine ⟨Nat.ne_of_gt (Nat.lt_of_lt_of_le hb.size_pos cs1.fresh), ?_⟩
              have := cs1.data
              rw [htcd] at this
              cases hd' : d1.dataOf tc' with
              | none => simp [hd'] at this
              | some v =>
                simp only [hd', Option.map_some, Option.some.injEq] at this
                rw [eraseTc_document this]
        | none =>
          simp only [hnd, pure, Except.pure] at h
          cases hk : Dom.cloneKidsWith (fun d c => Dom.cloneFixed d fuel c) d.size
              (d.alloc (.element nm a none ip)).1 n.children with
          | error e =>
            have : (d.alloc (.element nm a none ip)).2 = d.size := rfl
            simp [this, hk] at h
          | ok d3 =>
            have : (d.alloc (.element nm a none ip)).2 = d.size := rfl
            simp only [this, hk, Except.ok.injEq, Prod.mk.injEq] at h
            obtain ⟨rfl, rfl⟩ := h
            exact clone_stage hcl hb hn hb (FrK.refl _ _) (by rw [hnd]) (by intro _ _ _ _ he; cases he) hk
      | document | doctype _ _ _ | comment _ | text _ | pi _ _ =>
        simp only [hnd, pure, Except.pure] at h
        cases hk : Dom.cloneKidsWith (fun d c => Dom.cloneFixed d fuel c) d.size
            (d.alloc n.data).1 n.children with
        | error e =>
          have : (d.alloc n.data).2 = d.size := rfl
          rw [hnd] at hk this
          simp [this, hk] at h
        | ok d3 =>
          have : (d.alloc n.data).2 = d.size := rfl
          rw [hnd] at hk this
          simp only [this, hk, Except.ok.injEq, Prod.mk.injEq] at h
          obtain ⟨rfl, rfl⟩ := h
          exact clone_stage hcl hb hn hb (FrK.refl _ _) (by rw [hnd]) (by intro _ _ _ _ he; cases he) hk

/-- step 2: the list of copies -/
theorem cloneList_frame {cl : Dom → Id → Except String (Dom × Id)}
    (hcl : ∀ d c d' k, DomBase d → cl d c = .ok (d', k) → CS d d' c k) :
    ∀ (cs : List Id) (d d' : Dom) (ks : List Id), DomBase d →
      (∀ c ∈ cs, c < d.size ∧ d.dataOf c ≠ some .document) → Dom.cloneListWith cl d cs = .ok (d', ks) →
      DomBase d' ∧ FrK d d' none ∧ (∀ k ∈ ks, d.size ≤ k ∧ k < d'.size ∧ d'.dataOf k ≠ some .document) := by
  intro cs
  induction cs with
  | nil =>
    intro d d' ks hb _ h
    simp [Dom.cloneListWith] at h
    obtain ⟨rfl, rfl⟩ := h
    exact ⟨hb, FrK.refl _ _, by intro k hk; cases hk⟩
  | cons c cs ih =>
    intro d d' ks hb hcs h
    simp only [Dom.cloneListWith, bind, Except.bind] at h
    cases h1 : cl d c with
    | error e => simp [h1] at h
    | ok r =>
      obtain ⟨d1, k⟩ := r
      simp only [h1] at h
      have cs1 := hcl d c d1 k hb h1
      cases h2 : Dom.cloneListWith cl d1 cs with
      | error e => simp [h2] at h
      | ok r2 =>
        obtain ⟨d2, ks2⟩ := r2
        simp only [h2, Except.ok.injEq, Prod.mk.injEq] at h
        obtain ⟨rfl, rfl⟩ := h
        obtain ⟨hb2, hf2, hks⟩ := ih d1 d2 ks2 cs1.base (by
          intro c' hc'
          obtain ⟨h1', h2'⟩ := hcs c' (List.mem_cons_of_mem _ hc')
          exact ⟨Nat.lt_of_lt_of_le h1' cs1.fr.size, by rw [cs1.fr.data c' h1']; exact h2'⟩) h2
        refine ⟨hb2, cs1.fr.trans hf2, ?_⟩
        intro k' hk'
        simp only [List.mem_cons] at hk'
        rcases hk' with rfl | hk'
        · refine ⟨cs1.fresh, Nat.lt_of_lt_of_le cs1.valid hf2.size, ?_⟩
          rw [hf2.data k' cs1.valid]
          exact not_doc_of_eraseTc cs1.data (hcs c (by simp)).2
        · exact ⟨Nat.le_trans cs1.fr.size (hks k' hk').1, (hks k' hk').2.1, (hks k' hk').2.2⟩

theorem attachAll_frame {p : Id} : ∀ (ks : List Id) (d d' : Dom), DomBase d → d.isContainer p = true →
    (∀ k ∈ ks, k < d.size ∧ d.dataOf k ≠ some .document) →
    d.attachAll p ks = .ok d' → DomBase d' ∧ FrK d d' (some p) := by
  intro ks
  induction ks with
  | nil => intro d d' hb _ _ h; simp [Dom.attachAll] at h; subst h; exact ⟨hb, FrK.refl _ _⟩
  | cons k ks ih =>
    intro d d' hb hp hks h
    simp only [Dom.attachAll, bind, Except.bind] at h
    cases h1 : d.appendRaw p k with
    | error e => simp [h1] at h
    | ok d1 =>
      simp only [h1] at h
      obtain ⟨hb1, hchg1, _, _⟩ := append_node_spec hb hp (hks k (by simp)).2 (by rw [append_node_eq]; exact h1)
      have hf1 := frK_appendRaw h1
      obtain ⟨hb2, hf2⟩ := ih d1 d' hb1 (hchg1.isContainer hp) (by
        intro k' hk'
        obtain ⟨a, b⟩ := hks k' (List.mem_cons_of_mem _ hk')
        exact ⟨Nat.lt_of_lt_of_le a hf1.size, by rw [hf1.data k' a]; exact b⟩) h
      exact ⟨hb2, hf1.trans hf2⟩

theorem detachChildren_frame {d d' : Dom} {p : Id} (hb : DomBase d) (h : d.detachChildren p = .ok d') :
    DomBase d' ∧ FrK d d' (some p) := by
  obtain ⟨_, _, hk, hd, hs⟩ := detachChildren_ok h
  have hf : FrK d d' (some p) := ⟨Nat.le_of_eq hs.symm, fun y _ => hd y, fun y _ he => by
    rw [hk]; have : y ≠ p := fun e => he (by rw [e]); simp [this]⟩
  refine ⟨hb.step hf.chg (no_new_nodes hs) ?_ ?_ ?_, hf⟩
  · intro x hx
    rw [hk] at hx
    by_cases hxp : x = p
    · simp [hxp] at hx
    · simp only [hxp, if_false] at hx; exact Or.inl hx
  · intro q k hkm
    rw [hk] at hkm
    rw [hs]
    by_cases hxp : q = p
    · simp [hxp] at hkm
    · simp only [hxp, if_false] at hkm; exact hb.kidsValid q k hkm
  · intro q k hkm
    rw [hk] at hkm
    by_cases hxp : q = p
    · simp [hxp] at hkm
    · simp only [hxp, if_false] at hkm; exact Or.inl ⟨q, hkm⟩

theorem cloneOptionInto_frame {d d' : Dom} {o sc : Id} (hb : DomBase d) (hsc : d.isContainer sc = true)
    (h : d.cloneOptionInto .fixed o sc = .ok d') : DomBase d' ∧ FrK d d' (some sc) := by
  unfold Dom.cloneOptionInto at h
  simp only [bind, Except.bind] at h
  cases ho : d.get o with
  | error e => simp [ho] at h
  | ok on =>
    simp only [ho] at h
    cases h1 : Dom.cloneListWith (fun d c => Dom.cloneFixed d (d.size + 1) c) d on.children with
    | error e => simp [h1] at h
    | ok r =>
      obtain ⟨d1, frag⟩ := r
      simp only [h1] at h
      have hon := get_ok.mp ho
      obtain ⟨hb1, hf1, hks⟩ := cloneList_frame (fun d c d' k hb h => cloneFixed_frame _ d c d' k hb h) _ _ _ _ hb
        (by
          intro c hc
          have hcx : c ∈ d.childrenOf o := by rw [childrenOf_of_node hon]; exact hc
          exact ⟨hb.kidsValid o c hcx, hb.kidNotDoc o c hcx⟩) h1
      cases h2 : d1.detachChildren sc with
      | error e => simp [h2] at h
      | ok d2 =>
        simp only [h2] at h
        obtain ⟨hb2, hf2⟩ := detachChildren_frame hb1 h2
        obtain ⟨hb3, hf3⟩ := attachAll_frame frag d2 d' hb2 (hf2.chg.isContainer (hf1.chg.isContainer hsc)) (by
          intro k hk
          obtain ⟨_, a, b⟩ := hks k hk
          exact ⟨Nat.lt_of_lt_of_le a hf2.size, by rw [hf2.data k a]; exact b⟩) h
        exact ⟨hb3, (hf1.weaken.trans hf2).trans hf3⟩

theorem enabledSelectedcontent_fixed_isElement {d : Dom} {select sc : Id}
    (h : d.enabledSelectedcontent .fixed select = .ok (some sc)) : d.isElement sc = true := by
  unfold Dom.enabledSelectedcontent at h
  simp only [bind, Except.bind] at h
  cases hs : d.get select with
  | error e => simp [hs] at h
  | ok sn =>
    simp only [hs] at h
    cases hdata : sn.data with
    | element name attrs tc ip =>
      simp only [hdata] at h
      by_cases hn : name.loc ≠ sSelect
      · simp [hn, throw, throwThe, MonadExceptOf.throw] at h
      · simp only [hn, if_false] at h
        by_cases hm : Dom.hasAttrLocal attrs sMultiple = true
        · simp [hm] at h
        · simp [hm] at h
          have := List.find?_some h
          simp only [beq_iff_eq] at this
          unfold Dom.localNameOf at this
          unfold Dom.isElement
          cases hd : d.dataOf sc with
          | none => simp [hd] at this
          | some v => cases v <;> simp_all
    | document | doctype _ _ _ | comment _ | text _ | pi _ _ =>
      simp [hdata, throw, throwThe, MonadExceptOf.throw] at h

theorem cloneTarget_fixed_isElement {d : Dom} {o sc : Id} (h : d.cloneTarget .fixed o = .ok (some sc)) :
    d.isElement sc = true := by
  unfold Dom.cloneTarget at h
  simp only [bind, Except.bind] at h
  cases ho : d.get o with
  | error e => simp [ho] at h
  | ok on =>
    simp only [ho] at h
    cases hdata : on.data with
    | element name attrs tc ip =>
      simp only [hdata] at h
      by_cases hn : name.loc ≠ sOption
      · simp [hn, throw, throwThe, MonadExceptOf.throw] at h
      · simp only [hn, if_false] at h
        cases hsel : d.nearestAncestorSelect o with
        | error e => simp [hsel] at h
        | ok sel =>
          simp only [hsel] at h
          cases sel with
          | none => simp at h
          | some select =>
            simp only at h
            cases hsc : d.enabledSelectedcontent .fixed select with
            | error e => simp [hsc] at h
            | ok r =>
              simp only [hsc] at h
              cases r with
              | none => simp at h
              | some sc' =>
                simp only at h
                split at h
                · simp at h; subst h; exact enabledSelectedcontent_fixed_isElement hsc
                · simp at h
    | document | doctype _ _ _ | comment _ | text _ | pi _ _ =>
      simp [hdata, throw, throwThe, MonadExceptOf.throw] at h

theorem isContainer_of_isElement {d : Dom} {x : Id} (h : d.isElement x = true) : d.isContainer x = true := by
  unfold Dom.isElement at h
  unfold Dom.isContainer
  cases hd : d.dataOf x with
  | none => simp [hd] at h
  | some v => cases v <;> simp [hd] at h ⊢

theorem ne_zero_of_isElement {d : Dom} (hb : DomBase d) {x : Id} (h : d.isElement x = true) : x ≠ 0 := by
  intro h0; subst h0
  unfold Dom.isElement at h
  rw [hb.doc0] at h
  cases h

/-- `maybe_clone_an_option_into_selectedcontent` -/
theorem maybeCloneOption_spec {d d' : Dom} {o : Id} (hb : DomBase d)
    (h : d.maybeCloneOption .fixed o = .ok d') :
    DomBase d' ∧ Chg d d' ∧ d'.childrenOf 0 = d.childrenOf 0 := by
  unfold Dom.maybeCloneOption at h
  simp only [bind, Except.bind] at h
  cases ht : d.cloneTarget .fixed o with
  | error e => simp [ht] at h
  | ok r =>
    simp only [ht] at h
    cases r with
    | none => simp at h; subst h; exact ⟨hb, Chg.refl _, rfl⟩
    | some sc =>
      simp only at h
      have hel := cloneTarget_fixed_isElement ht
      obtain ⟨hb', hf⟩ := cloneOptionInto_frame hb (isContainer_of_isElement hel) h
      refine ⟨hb', hf.chg, hf.kids 0 hb.size_pos ?_⟩
      intro e; cases e
      exact ne_zero_of_isElement hb hel rfl

end H5V.Props.C06
