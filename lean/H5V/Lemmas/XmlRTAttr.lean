import H5V.Lemmas.XmlRTRun3
/-!
C17, tokenizer half, part 8: the tokenizer model's own name splitting (`process_qname`) and attribute
step (`finish_attribute`) coincide with the tree-builder package's transcription of the same code
(`XmlTB.splitQName`, `XmlTB.finishAttribute` with `TokCfg.fixed` = the code as it is now in /repo), so
the tag the tokenizer model emits is `XmlTB.finishTag TokCfg.fixed` of the raw tag.
-/
namespace H5V.Lemmas.XmlRT
open H5V.Model.XmlTok

theorem utf8Len_eq (s : Str) : utf8Len s = Model.XmlTB.utf8Len s := by
  have : ∀ (s : Str) (a : Nat), s.foldl (fun a c => a + c.utf8Size) a = a + (s.map Char.utf8Size).sum := by
    intro s
    induction s with
    | nil => intro a; simp
    | cons c t ih => intro a; simp only [List.foldl_cons, List.map_cons, List.sum_cons, ih]; omega
  unfold utf8Len Model.XmlTB.utf8Len
  rw [this]; simp

theorem qnameRun_afterColon (l : Str) : ∀ (i n v : Nat), n = i + l.length →
    qnameRun n .afterColon i (some v) l = Model.XmlTB.afterColon v l := by
  induction l with
  | nil => intro i n v _; rfl
  | cons c rest ih =>
    intro i n v hn
    simp only [qnameRun, Model.XmlTB.afterColon]
    by_cases hc : c = ':'
    · simp [hc]
    · simp only [hc, if_false]
      cases rest with
      | nil =>
        have : ¬ (i + 1 < n) := by simp at hn; omega
        simp [this, Model.XmlTB.afterColon]
      | cons d r =>
        have : i + 1 < n := by simp at hn; omega
        simp only [this, if_true]
        exact ih (i + 1) n v (by simp at hn ⊢; omega)

theorem qnameRun_inName (l : Str) : ∀ (i n : Nat), n = i + l.length →
    qnameRun n .inName i none l = Model.XmlTB.inName i l := by
  induction l with
  | nil => intro i n _; rfl
  | cons c rest ih =>
    intro i n hn
    simp only [qnameRun, Model.XmlTB.inName]
    cases rest with
    | nil =>
      have : ¬ (i + 1 < n) := by simp at hn; omega
      simp [this, Model.XmlTB.inName]
    | cons d r =>
      have hlt : i + 1 < n := by simp at hn; omega
      by_cases hc : c = ':'
      · simp only [hc, hlt, and_self, if_true, ne_eq, reduceCtorEq, not_false_eq_true]
        exact qnameRun_afterColon (d :: r) (i + 1) n i (by simp at hn ⊢; omega)
      · simp only [hc, false_and, if_false, hlt, if_true]
        exact ih (i + 1) n (by simp at hn ⊢; omega)

theorem qnameRun_eq (s : Str) : qnameRun s.length .beforeName 0 none s = Model.XmlTB.qnameRun s := by
  cases s with
  | nil => rfl
  | cons c rest =>
    simp only [qnameRun, Model.XmlTB.qnameRun]
    by_cases hc : c = ':'
    · simp [hc]
    · simp only [hc, if_false]
      cases rest with
      | nil => simp [Model.XmlTB.inName]
      | cons d r =>
        have : 0 + 1 < (c :: d :: r).length := by simp
        simp only [this, if_true]
        exact qnameRun_inName (d :: r) 1 _ (by simp; omega)

/-- `process_qname` of the tokenizer model = `process_qname` of the tree-builder package -/
theorem cvName_processQName (s : Str) : cvName (processQName s) = Model.XmlTB.splitQName s := by
  unfold processQName Model.XmlTB.splitQName
  rw [utf8Len_eq, qnameRun_eq]
  generalize (if Model.XmlTB.utf8Len s < 3 then none else Model.XmlTB.qnameRun s) = r
  cases r <;> rfl

theorem cvName_inj (a b : QName) : cvName a = cvName b ↔ a = b := by
  cases a; cases b; simp [cvName]

theorem any_name (as : List Attr) (q : QName) :
    as.any (fun a => a.name == q) = (as.map cvAttr).any (fun b => b.name == cvName q) := by
  induction as with
  | nil => rfl
  | cons a t ih =>
    simp only [List.any_cons, List.map_cons, ih]
    congr 1
    have : (cvAttr a).name = cvName a.name := rfl
    rw [this]
    by_cases h : a.name = q
    · rw [h]; simp
    · have h' : cvName a.name ≠ cvName q := fun e => h ((cvName_inj _ _).mp e)
      rw [beq_eq_false_iff_ne.mpr h, beq_eq_false_iff_ne.mpr h']

/-- `finish_attribute` of the tokenizer model = the tree-builder package's (fixed configuration) -/
theorem finAttr_eq (as : List Attr) (n v : Str) :
    (finAttr as n v).map cvAttr =
      Model.XmlTB.finishAttribute Model.XmlTB.TokCfg.fixed (as.map cvAttr) ⟨n, v⟩ := by
  unfold finAttr Model.XmlTB.finishAttribute
  by_cases h1 : n = []
  · simp [h1]
  · have h1' : n.isEmpty = false := by cases n <;> simp_all
    simp only [h1', Bool.false_eq_true, if_false, h1]
    unfold Model.XmlTB.isDup
    simp only [Model.XmlTB.TokCfg.fixed, if_true]
    rw [any_name, cvName_processQName]
    split
    · rfl
    · unfold Model.XmlTB.pushAttr Model.XmlTB.isDeclName
      have e : (processQName n).pfx = (Model.XmlTB.splitQName n).pfx := by rw [← cvName_processQName]; rfl
      have e' : (processQName n).loc = (Model.XmlTB.splitQName n).loc := by rw [← cvName_processQName]; rfl
      have e'' : cvAttr ⟨processQName n, v⟩ = ⟨Model.XmlTB.splitQName n, v⟩ := by
        simp [cvAttr, cvName_processQName]
      simp only [e, e', Bool.not_true, Bool.false_or]
      have hx : xmlnsName = Model.XmlTB.sXmlns := rfl
      rw [hx]
      have hb : ((Model.XmlTB.splitQName n).pfx.isNone && (Model.XmlTB.splitQName n).loc == Model.XmlTB.sXmlns ||
          (Model.XmlTB.splitQName n).pfx == some Model.XmlTB.sXmlns) =
          ((Model.XmlTB.splitQName n).loc == Model.XmlTB.sXmlns && (Model.XmlTB.splitQName n).pfx == none ||
          (Model.XmlTB.splitQName n).pfx == some Model.XmlTB.sXmlns) := by
        cases (Model.XmlTB.splitQName n).pfx <;> simp [Bool.and_comm]
      rw [hb]
      split
      · simp [e'']
      · simp [e'']

/-- the attribute list of the tag the tokenizer model emits = `XmlTB.tagAttrs` of the raw attributes -/
theorem finAll_eq (ras : List (Str × Str)) :
    (finAll ras).map cvAttr =
      Model.XmlTB.tagAttrs Model.XmlTB.TokCfg.fixed (ras.map (fun a => ⟨a.1, a.2⟩)) := by
  have : ∀ (ras : List (Str × Str)) (acc : List Attr),
      (ras.foldl (fun acc a => finAttr acc a.1 a.2) acc).map cvAttr =
        (ras.map (fun a => (⟨a.1, a.2⟩ : Model.XmlTB.RawAttr))).foldl
          (Model.XmlTB.finishAttribute Model.XmlTB.TokCfg.fixed) (acc.map cvAttr) := by
    intro ras
    induction ras with
    | nil => intro acc; rfl
    | cons a t ih => intro acc; simp only [List.foldl_cons, List.map_cons, ih, finAttr_eq]
  exact this ras []

end H5V.Lemmas.XmlRT
