import H5V.Lemmas.HtmlTBSkelShapeRoot
/-!
C06, second invariant layer, part 18: the modes AfterBody and AfterAfterBody.
-/
namespace H5V.Props.C06
open H5V.Model.Dom hiding Str
open H5V.Model.HtmlTB hiding Str
open H5V.Lemmas.Dom
set_option synthInstance.maxSize 4096

instance (tag : Tag) : PB (inBodyHtml tag) := by unfold inBodyHtml; pb_walk

instance (st : SplitStatus) (text : Str) [NE text] : PB (stepInBody (.chars st text)) := by
  unfold stepInBody
  dsimp only
  pb_walk

theorem stepInBody_html {tag : Tag} (h : tag.isStart ["html"] = true) : stepInBody (.tag tag) = inBodyHtml tag := by
  unfold stepInBody
  simp only [h, if_true]

/-- the modes whose stack is `html body …` with `body` a child of `html` -/
def isAB (m : Mode) : Bool := m == .afterBody || m == .afterAfterBody

theorem Good.ab {r : Id} {s : State} (h : Good r s) (hm : isAB s.mode = true) :
    ∃ b up, ShapeAt s r up (.pb b) ∧ Big .inBody r (.pb b) s := by
  obtain ⟨up, ph, hs, _⟩ := h
  have hf := hs.fits
  unfold FitsM at hf
  have key : ∃ b up', up = b :: up' ∧ ph = .pb b ∧ ∀ h, s.headElem = some h → h ∉ up := by
    unfold isAB at hm
    simp only [Bool.or_eq_true, beq_iff_eq] at hm
    rcases hm with hm | hm <;> (rw [hm] at hf; exact hf)
  obtain ⟨b, up', hu, hph, hh⟩ := key
  subst hph
  exact ⟨b, up, hs, up, hs.core, Or.inl ⟨b, up', hu, rfl, hh⟩, trivial, FPok.triv _ _⟩

theorem good_of_big_pb {r b : Id} {s : State} (h : Big .inBody r (.pb b) s)
    (hm : isAB s.mode = true ∨ s.mode = .inBody) : Good r s := by
  obtain ⟨up, hc, hbb, _, _⟩ := h
  have hd : ∃ b' up', up = b' :: up' ∧ Phase.pb b = .pb b' ∧ ∀ h, s.headElem = some h → h ∉ up := by
    rcases hbb with ⟨b', u, h1, h2, h3⟩ | ⟨_, _, _, _, _, _, h4⟩ | ⟨_, _, _, _, h4, _⟩
    · exact ⟨b', u, h1, h2, h3⟩
    · cases h4
    · cases h4
  refine ⟨up, .pb b, ⟨hc, ?_⟩, fun _ => FPok.triv _ _⟩
  unfold FitsM
  rcases hm with hm | hm
  · unfold isAB at hm
    simp only [Bool.or_eq_true, beq_iff_eq] at hm
    rcases hm with hm | hm <;> (rw [hm]; exact hd)
  · rw [hm]; exact ⟨hbb, trivial⟩

/-- a `Big`-preserving rule run in one of these modes -/
theorem pb_ab {prog : M ProcessResult} (hp : PB prog) {r : Id} {s s' : State} {res : ProcessResult}
    (hg : Good r s) (hm : isAB s.mode = true) (e : prog s = .ok (res, s')) : Good r s' := by
  obtain ⟨b, up, _, hb⟩ := hg.ab hm
  obtain ⟨hb', hm', _⟩ := hp.p .inBody r (.pb b) s res s' hb e
  exact good_of_big_pb hb' (Or.inl (by rw [hm']; exact hm))

theorem done_of_inBodyHtml {tag : Tag} {s s' : State} {res : ProcessResult} (e : inBodyHtml tag s = .ok (res, s')) :
    res = .done := by
  unfold inBodyHtml at e
  obtain ⟨_, s1, _, e2⟩ := bind_ok.mp e
  obtain ⟨b, s2, _, e4⟩ := bind_ok.mp e2
  rcases ite_run e4 with ⟨_, e4⟩ | ⟨_, e4⟩
  · obtain ⟨_, _, _, e5⟩ := bind_ok.mp e4
    obtain ⟨_, _, _, e6⟩ := bind_ok.mp e5
    exact (pure_ok.mp e6).1.symm
  · exact (pure_ok.mp e4).1.symm

theorem done_of_bodyChars {st : SplitStatus} {text : Str} {s s' : State} {res : ProcessResult}
    (e : stepInBody (.chars st text) s = .ok (res, s')) : res = .done := by
  unfold stepInBody at e
  dsimp only at e
  obtain ⟨_, s1, _, e2⟩ := bind_ok.mp e
  rcases ite_run e2 with ⟨_, e2⟩ | ⟨_, e2⟩
  · obtain ⟨_, _, _, e3⟩ := bind_ok.mp e2
    unfold appendText at e3
    obtain ⟨_, _, _, e4⟩ := bind_ok.mp e3
    exact (pure_ok.mp e4).1.symm
  · unfold appendText at e2
    obtain ⟨_, _, _, e4⟩ := bind_ok.mp e2
    exact (pure_ok.mp e4).1.symm

/-- "anything else": back to InBody -/
theorem ab_reprocess {r : Id} {s s' : State} {tok : Token} [ht : TokW tok] {res : ProcessResult} (hg : Good r s)
    (hm : isAB s.mode = true)
    (e : (unexpected >>= fun _ => pure (ProcessResult.reprocess .inBody tok)) s = .ok (res, s')) : Out r s' res := by
  obtain ⟨x, s1, e1, e2⟩ := bind_ok.mp e
  obtain ⟨rfl, rfl⟩ := pure_ok.mp e2
  obtain ⟨q, _⟩ := qs_unexpected e1
  have hg1 := hg.qs q
  obtain ⟨b, up, _, hb⟩ := hg1.ab (by rw [q.mode]; exact hm)
  exact ⟨good_of_big_pb (hb.setMode rfl) (Or.inr rfl), ht⟩

theorem modeOk_afterBody : ModeOk .afterBody := by
  intro tok ht r s res s' hg hm e
  have hab : isAB s.mode = true := by rw [hm]; rfl
  have e' : stepAfterBody tok s = .ok (res, s') := e
  unfold stepAfterBody at e'
  cases tok with
  | chars st text =>
    cases st with
    | notSplit => dsimp only at e'; obtain ⟨rfl, rfl⟩ := pure_ok.mp e'; exact hg
    | whitespace =>
      dsimp only at e'
      haveI : NE text := ⟨ht.ne _ _ rfl⟩
      rw [done_of_bodyChars e']
      exact pb_ab inferInstance hg hab e'
    | notWhitespace => dsimp only at e'; exact ab_reprocess hg hab e'
  | comment text =>
    dsimp only at e'
    obtain ⟨up, ph, hs, hfp⟩ := hg
    obtain ⟨hs', rfl, _⟩ := appendCommentToHtml_shape hs e'
    exact ⟨up, ph, hs', fun _ => FPok.triv _ _⟩
  | eof => dsimp only at e'; obtain ⟨rfl, rfl⟩ := pure_ok.mp e'; exact hg
  | nullChar => dsimp only at e'; exact ab_reprocess hg hab e'
  | tag tag =>
    dsimp only at e'
    rcases ite_run e' with ⟨h1, e'⟩ | ⟨h1, e'⟩
    · rw [stepInBody_html h1] at e'
      rw [done_of_inBodyHtml e']
      exact pb_ab inferInstance hg hab e'
    · rcases ite_run e' with ⟨h2, e'⟩ | ⟨h2, e'⟩
      · obtain ⟨fr, s1, e1, e2⟩ := bind_ok.mp e'
        have q1 : QS s s1 := IsQ.q _ _ _ e1
        have hg1 := hg.qs q1
        rcases ite_run e2 with ⟨_, e2⟩ | ⟨_, e2⟩
        · obtain ⟨x, s2, e3, e4⟩ := bind_ok.mp e2
          obtain ⟨rfl, rfl⟩ := pure_ok.mp e4
          exact hg1.qs (qs_unexpected e3).1
        · obtain ⟨x, s2, e3, e4⟩ := bind_ok.mp e2
          obtain ⟨rfl, rfl⟩ := pure_ok.mp e4
          unfold setMode at e3
          rw [modS_ok.mp e3]
          obtain ⟨b, up, _, hb⟩ := hg1.ab (by rw [q1.mode]; exact hab)
          exact good_of_big_pb (hb.setMode rfl) (Or.inl rfl)
      · exact ab_reprocess hg hab e'

theorem modeOk_afterAfterBody : ModeOk .afterAfterBody := by
  intro tok ht r s res s' hg hm e
  have hab : isAB s.mode = true := by rw [hm]; rfl
  have e' : stepAfterAfterBody tok s = .ok (res, s') := e
  unfold stepAfterAfterBody at e'
  cases tok with
  | chars st text =>
    cases st with
    | notSplit => dsimp only at e'; obtain ⟨rfl, rfl⟩ := pure_ok.mp e'; exact hg
    | whitespace =>
      dsimp only at e'
      haveI : NE text := ⟨ht.ne _ _ rfl⟩
      rw [done_of_bodyChars e']
      exact pb_ab inferInstance hg hab e'
    | notWhitespace => dsimp only at e'; exact ab_reprocess hg hab e'
  | comment text =>
    dsimp only at e'
    obtain ⟨up, ph, hs, hfp⟩ := hg
    obtain ⟨hs', rfl, _⟩ := appendCommentToDoc_shape hs e'
    exact ⟨up, ph, hs', fun _ => FPok.triv _ _⟩
  | eof => dsimp only at e'; obtain ⟨rfl, rfl⟩ := pure_ok.mp e'; exact hg
  | nullChar => dsimp only at e'; exact ab_reprocess hg hab e'
  | tag tag =>
    dsimp only at e'
    rcases ite_run e' with ⟨h1, e'⟩ | ⟨h1, e'⟩
    · rw [stepInBody_html h1] at e'
      rw [done_of_inBodyHtml e']
      exact pb_ab inferInstance hg hab e'
    · exact ab_reprocess hg hab e'

theorem fin_of_ab {r : Id} {s : State} (hg : Good r s) (hm : isAB s.mode = true) : Fin s := by
  obtain ⟨b, up, hs, _⟩ := hg.ab hm
  exact ⟨r, up, .pb b, hs, trivial⟩

theorem eofOk_afterBody : EofOk .afterBody := by
  intro r s res s' hg hm e
  have e' : stepAfterBody .eof s = .ok (res, s') := e
  unfold stepAfterBody at e'
  dsimp only at e'
  obtain ⟨rfl, rfl⟩ := pure_ok.mp e'
  exact Or.inl ⟨rfl, fin_of_ab hg (by rw [hm]; rfl)⟩

theorem eofOk_afterAfterBody : EofOk .afterAfterBody := by
  intro r s res s' hg hm e
  have e' : stepAfterAfterBody .eof s = .ok (res, s') := e
  unfold stepAfterAfterBody at e'
  dsimp only at e'
  obtain ⟨rfl, rfl⟩ := pure_ok.mp e'
  exact Or.inl ⟨rfl, fin_of_ab hg (by rw [hm]; rfl)⟩

end H5V.Props.C06
