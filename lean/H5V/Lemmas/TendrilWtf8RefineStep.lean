import H5V.Props.C11
import H5V.Lemmas.TendrilWtf8RefineHeap
/-!
C11 for formats with a concatenation fix-up: the refinement theorems of `H5V/Props/C11.lean`,
re-proved over `LawsFx F cat` instead of `Laws F`.

* `Spec.stepFx F cat` is `Spec.step F` with the three push operations (`pushBytes`, `pushChar`,
  `pushTendril`) using the format's own concatenation `cat a b` instead of `a ++ b`; every other
  operation *is* `Spec.step F` (`Spec.stepFx_append`: with `cat := (· ++ ·)` it is `Spec.step`).
* `LawsFx F cat` generalises `Laws F`: the fix-up stays inside its operands, what
  `push_bytes_without_validating` builds from `F.fixup` is `cat a b` on valid operands, validity is
  closed under `cat`, between adjacent valid parts of a valid string `cat` is plain append (`seam`),
  and — unchanged — the prefix / suffix / subsequence checks are exact on parts of valid strings and
  characters are cut at valid places.  `Laws.toLawsFx`: every `Laws` format satisfies it with `++`.
* The state invariant gains `DV F st.heap` (the data of every buffer is valid for the format,
  `H5V/Lemmas/TendrilWtf8RefineHeap.lean`): the zero-copy merge of adjacent views in `push_tendril`
  never consults `F.fixup`, and agrees with `cat` only because both views are parts of one valid
  buffer (`LawsFx.seam`).
* `C11_step_refines_fx`, `C11_step_bufvalid_fx`, `C11_format_valid_fx`, `C11_run_refines_fx`,
  `C11_reachable_wf_fx`, `C11_independent_fx`, `C11_no_ub_fx`, `C11_push_checked_fx`.
-/
namespace H5V.Props.C11
open H5V.Model.Tendril H5V.Lemmas.Tendril

set_option linter.unusedSimpArgs false

namespace Spec

/-- the owned-string specification with a format-specific concatenation: as `Spec.step`, the push
operations concatenating with `cat` -/
def stepFx (F : Format) (cat : List UInt8 → List UInt8 → List UInt8) (p : APool) : Op → APool × Out
  | .pushBytes i bs => match p[i]? with
    | some (some a) => if F.validate bs then (p.set i (some (cat a bs)), .ok) else (p, .err)
    | _ => (p, .badop)
  | .pushChar i c => match p[i]? with
    | some (some a) => (match F.encodeChar c with
      | some bs => (p.set i (some (cat a bs)), .ok)
      | none => (p, .err))
    | _ => (p, .badop)
  | .pushTendril i j => match p[i]?, p[j]? with
    | some (some a), some (some b) => if i = j then (p, .badop) else (p.set i (some (cat a b)), .ok)
    | _, _ => (p, .badop)
  | op => Spec.step F p op

def runFx (F : Format) (cat : List UInt8 → List UInt8 → List UInt8) (p : APool) (ops : List Op) : APool :=
  ops.foldl (fun p op => (stepFx F cat p op).1) p

/-- with plain append, `stepFx` is `step` -/
theorem stepFx_append (F : Format) (p : APool) (op : Op) :
    stepFx F (fun a b => a ++ b) p op = step F p op := by
  cases op <;> rfl

end Spec

/-! ## what the theorems need from a format with a fix-up -/

structure LawsFx (F : Format) (cat : List UInt8 → List UInt8 → List UInt8) : Prop where
  /-- the fix-up never reaches outside its operands -/
  fixupOK : FixupOK F
  /-- dropping `drop_left` / `drop_right` bytes and inserting `insert` yields the concatenation -/
  push_eq : ∀ a b, F.validate a = true → F.validate b = true → pushSpec F a b = cat a b
  valid_nil : F.validate [] = true
  /-- validity is closed under the format's concatenation -/
  valid_cat : ∀ a b, F.validate a = true → F.validate b = true → F.validate (cat a b) = true
  /-- between adjacent valid parts of a valid string the concatenation is plain append -/
  seam : ∀ x a b y, F.validate (x ++ (a ++ b) ++ y) = true → F.validate a = true → F.validate b = true →
    cat a b = a ++ b
  suffix_exact : ∀ a b, F.validate (a ++ b) = true → F.validateSuffix b = F.validate b
  prefix_exact : ∀ a b, F.validate (a ++ b) = true → F.validatePrefix a = F.validate a
  subseq_exact : ∀ a b c, F.validate (a ++ (b ++ c)) = true → F.validateSubseq b = F.validate b
  encode_valid : ∀ c bs, F.encodeChar c = some bs → F.validate bs = true
  chars_total : (F.charIndices []).isSome → ∀ a, F.validate a = true → (F.charIndices a).isSome
  chars_cut : ∀ a cs, F.validate a = true → F.charIndices a = some cs →
    ∀ p ∈ cs, p.1 ≤ a.length ∧ F.validate (a.take p.1) = true ∧ F.validate (a.drop p.1) = true

/-- every format without a fix-up that satisfies `Laws` satisfies the generalised laws, with `++` -/
theorem Laws.toLawsFx {F : Format} (L : Laws F) : LawsFx F (fun a b => a ++ b) where
  fixupOK := L.fixupOK
  push_eq a b _ _ := L.pushSpec a b
  valid_nil := L.valid_nil
  valid_cat := L.valid_append
  seam _ _ _ _ _ _ _ := rfl
  suffix_exact := L.suffix_exact
  prefix_exact := L.prefix_exact
  subseq_exact := L.subseq_exact
  encode_valid := L.encode_valid
  chars_total := L.chars_total
  chars_cut := L.chars_cut

/-! ## helper lemmas -/

section
variable {F : Format} {cat : List UInt8 → List UInt8 → List UInt8}

theorem popFront_eq_fx (L : LawsFx F cat) {a : List UInt8} (ha : F.validate a = true) (n : Nat) :
    (if n = 0 then ((none : Option SubErr), a)
     else if n > a.length then (some .outOfBounds, a)
     else if F.validateSuffix (a.drop n) then (none, a.drop n)
     else (some .validationFailed, a)) = Spec.popFront F a n := by
  unfold Spec.popFront
  rw [L.suffix_exact (a.take n) (a.drop n) (by rw [List.take_append_drop]; exact ha)]

theorem popBack_eq_fx (L : LawsFx F cat) {a : List UInt8} (ha : F.validate a = true) (n : Nat) :
    (if n = 0 then ((none : Option SubErr), a)
     else if n > a.length then (some .outOfBounds, a)
     else if F.validatePrefix (a.take (a.length - n)) then (none, a.take (a.length - n))
     else (some .validationFailed, a)) = Spec.popBack F a n := by
  unfold Spec.popBack
  rw [L.prefix_exact (a.take (a.length - n)) (a.drop (a.length - n))
    (by rw [List.take_append_drop]; exact ha)]

theorem sub_eq_inl_fx (L : LawsFx F cat) {a : List UInt8} (ha : F.validate a = true) {off len : Nat}
    {e : SubErr}
    (he : e = (if off > a.length ∨ len > a.length - off then SubErr.outOfBounds else .validationFailed))
    (hn : ¬ (off > a.length ∨ len > a.length - off) → F.validateSubseq ((a.drop off).take len) = false) :
    Spec.sub F a off len = .inl e := by
  unfold Spec.sub
  by_cases hc : off > a.length ∨ len > a.length - off
  · rw [if_pos hc]; rw [if_pos hc] at he; rw [he]
  · rw [if_neg hc]; rw [if_neg hc] at he
    have := L.subseq_exact (a.take off) ((a.drop off).take len) ((a.drop off).drop len)
      (by rw [← split3]; exact ha)
    rw [← this, hn hc, he]; rfl

theorem sub_eq_inr_fx (L : LawsFx F cat) {a : List UInt8} (ha : F.validate a = true) {off len : Nat}
    (hc : ¬ (off > a.length ∨ len > a.length - off))
    (hv : F.validateSubseq ((a.drop off).take len) = true) :
    Spec.sub F a off len = .inr ((a.drop off).take len) := by
  unfold Spec.sub
  rw [if_neg hc]
  have := L.subseq_exact (a.take off) ((a.drop off).take len) ((a.drop off).drop len)
    (by rw [← split3]; exact ha)
  rw [← this, hv]; rfl

end

/-! ## every operation refines the specification -/

theorem stepM_spec_fx (F : Format) (cat : List UInt8 → List UInt8 → List UInt8) (L : LawsFx F cat)
    (st : St) (op : Op) (hwf : StWF st) (hv : AValid F (absPool st)) (hd : DV F st.heap) :
    match stepM F st op with
    | none => Spec.stepFx F cat (absPool st) op = (absPool st, .badop)
    | some m => SatX (mayPanic F (absPool st) op) m
        (fun r => StWF r.1 ∧ (absPool r.1, r.2) = Spec.stepFx F cat (absPool st) op) := by
  cases op with
  | new i =>
    by_cases hi : i < st.pool.length
    · simp only [stepM, Spec.stepFx, Spec.step, absPool_length, hi, ↓reduceIte]
      apply SatX.bindT (store_spec hi (hwf.cons_inline (by simp)))
      rintro st' ⟨w, ha⟩
      exact SatX.ok ⟨w, by simp only [ha, abs]⟩
    · simp only [stepM, Spec.stepFx, Spec.step, absPool_length, hi, ↓reduceIte]
  | fromBytes i bs =>
    by_cases hi : i < st.pool.length
    · simp only [stepM, Spec.stepFx, Spec.step, absPool_length, hi, ↓reduceIte]
      apply SatX.of_sat
      by_cases hb : F.validate bs = true
      · simp only [hb, ↓reduceIte]
        apply (fromBytesUnchecked_spec bs hwf).bind
        rintro ⟨h1, t1⟩ ⟨w1, hab, hat⟩
        simp only at w1 hab hat
        apply (store_spec (st := ⟨h1, st.pool⟩) hi w1).sat.bind
        rintro st' ⟨w, ha⟩
        refine Sat.ok ⟨w, ?_⟩
        simp only [ha, hat]
        rw [absPool_heap (st := st) hab]
      · simp only [hb, ↓reduceIte, Bool.false_eq_true]
        exact Sat.ok ⟨hwf, rfl⟩
    · simp only [stepM, Spec.stepFx, Spec.step, absPool_length, hi, ↓reduceIte]
  | pushBytes i bs =>
    cases hp : st.pool[i]? with
    | none => simp only [stepM, Spec.stepFx, Spec.step, hp, abs_lookup_oob hp]
    | some o => cases o with
      | none => simp only [stepM, Spec.stepFx, Spec.step, hp, abs_lookup_none hp]
      | some t =>
        simp only [stepM, Spec.stepFx, Spec.step, hp, abs_lookup hp]
        have wt := focusWF hwf hp
        apply SatX.of_sat
        by_cases hb : F.validate bs = true
        · simp only [hb, ↓reduceIte]
          apply (pushBytesUnchecked_spec L.fixupOK bs wt).bind
          rintro ⟨h1, t1⟩ ⟨w1, hab, hat⟩
          obtain ⟨a, b⟩ := slot_update hp w1 hab
          exact Sat.ok ⟨a, by simp only [b, hat, L.push_eq _ _ (hv.get hp) hb]⟩
        · simp only [hb, ↓reduceIte, Bool.false_eq_true]
          exact Sat.ok ⟨hwf, rfl⟩
  | pushChar i c =>
    cases hp : st.pool[i]? with
    | none => simp only [stepM, Spec.stepFx, Spec.step, hp, abs_lookup_oob hp]
    | some o => cases o with
      | none => simp only [stepM, Spec.stepFx, Spec.step, hp, abs_lookup_none hp]
      | some t =>
        simp only [stepM, Spec.stepFx, Spec.step, hp, abs_lookup hp]
        have wt := focusWF hwf hp
        apply SatX.of_sat
        cases he : F.encodeChar c with
        | none => exact Sat.ok ⟨hwf, rfl⟩
        | some bs =>
          simp only []
          apply (pushBytesUnchecked_spec L.fixupOK bs wt).bind
          rintro ⟨h1, t1⟩ ⟨w1, hab, hat⟩
          obtain ⟨a, b⟩ := slot_update hp w1 hab
          exact Sat.ok ⟨a, by simp only [b, hat, L.push_eq _ _ (hv.get hp) (L.encode_valid c bs he)]⟩
  | pushTendril i j =>
    cases hp : st.pool[i]? with
    | none => simp only [stepM, Spec.stepFx, Spec.step, hp, abs_lookup_oob hp]
    | some o => cases o with
      | none => simp only [stepM, Spec.stepFx, Spec.step, hp, abs_lookup_none hp]
      | some t =>
        cases hq : st.pool[j]? with
        | none => simp only [stepM, Spec.stepFx, Spec.step, hp, hq, abs_lookup hp, abs_lookup_oob hq]
        | some o2 => cases o2 with
          | none => simp only [stepM, Spec.stepFx, Spec.step, hp, hq, abs_lookup hp, abs_lookup_none hq]
          | some o =>
            simp only [stepM, Spec.stepFx, Spec.step, hp, hq, abs_lookup hp, abs_lookup hq]
            by_cases hij : i = j
            · simp only [hij, ↓reduceIte]
            · simp only [hij, ↓reduceIte]
              have wt := focusWF hwf hp
              apply SatX.of_sat
              apply (pushTendril_spec_fx L.fixupOK wt (others_mem (Ne.symm hij) hq)).bind
              rintro ⟨h1, t1⟩ ⟨w1, hab, hat⟩
              obtain ⟨a, b⟩ := slot_update hp w1 hab
              refine Sat.ok ⟨a, ?_⟩
              have hvo := hv.get hq
              rcases hat with hat | ⟨hat, _, id, bf, x, y, hbf, hdata⟩
              · simp only [b, hat, L.push_eq _ _ (hv.get hp) hvo]
              · have hs := L.seam x _ _ y (by rw [← hdata]; exact hd id bf hbf) (hv.get hp) hvo
                simp only [b, hat, hs]
  | tryPopFront i n =>
    cases hp : st.pool[i]? with
    | none => simp only [stepM, Spec.stepFx, Spec.step, hp, abs_lookup_oob hp]
    | some o => cases o with
      | none => simp only [stepM, Spec.stepFx, Spec.step, hp, abs_lookup_none hp]
      | some t =>
        simp only [stepM, Spec.stepFx, Spec.step, hp, abs_lookup hp]
        have wt := focusWF hwf hp
        apply SatX.bindT (tryPopFront_spec F n wt)
        rintro ⟨h1, t1, e⟩ ⟨w1, hab, heq⟩
        rw [popFront_eq_fx L (hv.get hp)] at heq
        obtain ⟨a, b⟩ := slot_update hp w1 hab
        refine SatX.ok ⟨a, ?_⟩
        simp only [b, ← heq]
  | tryPopBack i n =>
    cases hp : st.pool[i]? with
    | none => simp only [stepM, Spec.stepFx, Spec.step, hp, abs_lookup_oob hp]
    | some o => cases o with
      | none => simp only [stepM, Spec.stepFx, Spec.step, hp, abs_lookup_none hp]
      | some t =>
        simp only [stepM, Spec.stepFx, Spec.step, hp, abs_lookup hp]
        have wt := focusWF hwf hp
        apply SatX.bindT (tryPopBack_spec F n wt)
        rintro ⟨h1, t1, e⟩ ⟨w1, hab, heq⟩
        rw [popBack_eq_fx L (hv.get hp)] at heq
        obtain ⟨a, b⟩ := slot_update hp w1 hab
        refine SatX.ok ⟨a, ?_⟩
        simp only [b, ← heq]
  | popFront i n =>
    cases hp : st.pool[i]? with
    | none => simp only [stepM, Spec.stepFx, Spec.step, hp, abs_lookup_oob hp]
    | some o => cases o with
      | none => simp only [stepM, Spec.stepFx, Spec.step, hp, abs_lookup_none hp]
      | some t =>
        simp only [stepM, mayPanic, Spec.stepFx, Spec.step, hp, abs_lookup hp]
        have wt := focusWF hwf hp
        apply SatX.bindT (tryPopFront_spec F n wt)
        rintro ⟨h1, t1, e⟩ ⟨w1, hab, heq⟩
        rw [popFront_eq_fx L (hv.get hp)] at heq
        obtain ⟨a, b⟩ := slot_update hp w1 hab
        have he1 : (Spec.popFront F (abs st.heap t) n).1 = e := (congrArg Prod.fst heq).symm
        have he2 : (Spec.popFront F (abs st.heap t) n).2 = abs h1 t1 := (congrArg Prod.snd heq).symm
        cases e with
        | none => simp only [he1, he2]; exact SatX.ok ⟨a, by simp only [b]⟩
        | some e' => simp only [he1]; exact trivial
  | popBack i n =>
    cases hp : st.pool[i]? with
    | none => simp only [stepM, Spec.stepFx, Spec.step, hp, abs_lookup_oob hp]
    | some o => cases o with
      | none => simp only [stepM, Spec.stepFx, Spec.step, hp, abs_lookup_none hp]
      | some t =>
        simp only [stepM, mayPanic, Spec.stepFx, Spec.step, hp, abs_lookup hp]
        have wt := focusWF hwf hp
        apply SatX.bindT (tryPopBack_spec F n wt)
        rintro ⟨h1, t1, e⟩ ⟨w1, hab, heq⟩
        rw [popBack_eq_fx L (hv.get hp)] at heq
        obtain ⟨a, b⟩ := slot_update hp w1 hab
        have he1 : (Spec.popBack F (abs st.heap t) n).1 = e := (congrArg Prod.fst heq).symm
        have he2 : (Spec.popBack F (abs st.heap t) n).2 = abs h1 t1 := (congrArg Prod.snd heq).symm
        cases e with
        | none => simp only [he1, he2]; exact SatX.ok ⟨a, by simp only [b]⟩
        | some e' => simp only [he1]; exact trivial
  | trySubtendril i j off len =>
    cases hp : st.pool[i]? with
    | none => simp only [stepM, Spec.stepFx, Spec.step, hp, abs_lookup_oob hp]
    | some o => cases o with
      | none => simp only [stepM, Spec.stepFx, Spec.step, hp, abs_lookup_none hp]
      | some t =>
        by_cases hj : j < st.pool.length
        · simp only [stepM, Spec.stepFx, Spec.step, hp, abs_lookup hp, absPool_length, hj, ↓reduceIte]
          have wt := focusWF hwf hp
          apply SatX.bindT (trySubtendril_spec F off len wt)
          rintro ⟨h1, t1, r⟩ ⟨hab, hat, hr⟩
          simp only at hab hat
          have hp1 : absPool ⟨h1, st.pool.set i (some t1)⟩ = absPool st := by
            rw [absPool_set (some t1) hab]; simp only [Option.map, hat]; exact set_same (abs_lookup hp)
          cases r with
          | inl e =>
            obtain ⟨w1, he, hn⟩ := hr
            rw [sub_eq_inl_fx L (hv.get hp) he hn]
            exact SatX.ok ⟨(slot_update hp w1 hab).1, by simp only [hp1]⟩
          | inr s =>
            obtain ⟨w1, hc, hvs, has⟩ := hr
            rw [sub_eq_inr_fx L (hv.get hp) hc hvs]
            simp only []
            apply SatX.bindT (store_spec (by simpa using hj) (extraWF hp w1))
            rintro st2 ⟨w2, ha2⟩
            exact SatX.ok ⟨w2, by simp only [ha2, hp1, has]⟩
        · simp only [stepM, Spec.stepFx, Spec.step, hp, abs_lookup hp, absPool_length, hj, ↓reduceIte]
  | subtendril i j off len =>
    cases hp : st.pool[i]? with
    | none => simp only [stepM, Spec.stepFx, Spec.step, hp, abs_lookup_oob hp]
    | some o => cases o with
      | none => simp only [stepM, Spec.stepFx, Spec.step, hp, abs_lookup_none hp]
      | some t =>
        by_cases hj : j < st.pool.length
        · simp only [stepM, mayPanic, Spec.stepFx, Spec.step, hp, abs_lookup hp, absPool_length, hj, ↓reduceIte]
          have wt := focusWF hwf hp
          apply SatX.bindT (trySubtendril_spec F off len wt)
          rintro ⟨h1, t1, r⟩ ⟨hab, hat, hr⟩
          simp only at hab hat
          have hp1 : absPool ⟨h1, st.pool.set i (some t1)⟩ = absPool st := by
            rw [absPool_set (some t1) hab]; simp only [Option.map, hat]; exact set_same (abs_lookup hp)
          cases r with
          | inl e =>
            obtain ⟨w1, he, hn⟩ := hr
            rw [sub_eq_inl_fx L (hv.get hp) he hn]
            exact rfl
          | inr s =>
            obtain ⟨w1, hc, hvs, has⟩ := hr
            rw [sub_eq_inr_fx L (hv.get hp) hc hvs]
            simp only []
            apply SatX.bindT (store_spec (by simpa using hj) (extraWF hp w1))
            rintro st2 ⟨w2, ha2⟩
            exact SatX.ok ⟨w2, by simp only [ha2, hp1, has]⟩
        · simp only [stepM, Spec.stepFx, Spec.step, hp, abs_lookup hp, absPool_length, hj, ↓reduceIte]
  | clone i j =>
    cases hp : st.pool[i]? with
    | none => simp only [stepM, Spec.stepFx, Spec.step, hp, abs_lookup_oob hp]
    | some o => cases o with
      | none => simp only [stepM, Spec.stepFx, Spec.step, hp, abs_lookup_none hp]
      | some t =>
        by_cases hj : j < st.pool.length
        · simp only [stepM, Spec.stepFx, Spec.step, hp, abs_lookup hp, absPool_length, hj, ↓reduceIte]
          have wt := focusWF hwf hp
          apply SatX.bindT (cloneT_spec wt)
          rintro ⟨h1, t1, c⟩ ⟨w1, hab, hat, hac⟩
          simp only at w1 hab hat hac
          have hp1 : absPool ⟨h1, st.pool.set i (some t1)⟩ = absPool st := by
            rw [absPool_set (some t1) (fun u _ => hab u)]; simp only [Option.map, hat]
            exact set_same (abs_lookup hp)
          apply SatX.bindT (store_spec (by simpa using hj) (extraWF hp w1))
          rintro st2 ⟨w2, ha2⟩
          exact SatX.ok ⟨w2, by simp only [ha2, hp1, hac]⟩
        · simp only [stepM, Spec.stepFx, Spec.step, hp, abs_lookup hp, absPool_length, hj, ↓reduceIte]
  | clear i =>
    cases hp : st.pool[i]? with
    | none => simp only [stepM, Spec.stepFx, Spec.step, hp, abs_lookup_oob hp]
    | some o => cases o with
      | none => simp only [stepM, Spec.stepFx, Spec.step, hp, abs_lookup_none hp]
      | some t =>
        simp only [stepM, Spec.stepFx, Spec.step, hp, abs_lookup hp]
        have wt := focusWF hwf hp
        apply SatX.bindT (clearT_spec wt)
        rintro ⟨h1, t1⟩ ⟨w1, hab, hat⟩
        obtain ⟨a, b⟩ := slot_update hp w1 hab
        exact SatX.ok ⟨a, by simp only [b, hat]⟩
  | drop i =>
    cases hp : st.pool[i]? with
    | none => simp only [stepM, Spec.stepFx, Spec.step, hp, abs_lookup_oob hp]
    | some o => cases o with
      | none => simp only [stepM, Spec.stepFx, Spec.step, hp, abs_lookup_none hp]
      | some t =>
        simp only [stepM, Spec.stepFx, Spec.step, hp, abs_lookup hp]
        have wt := focusWF hwf hp
        apply SatX.bindT (dropT_spec wt)
        rintro h1 ⟨w1, hab⟩
        refine SatX.ok ⟨?_, ?_⟩
        · show WF h1 (liveTs (st.pool.set i none))
          rw [liveTs_set_none (lt_of_lookup hp)]; exact w1
        · rw [absPool_set none (fun u _ => hab u)]; rfl
  | popFrontChar i =>
    cases hp : st.pool[i]? with
    | none => simp only [stepM, Spec.stepFx, Spec.step, hp, abs_lookup_oob hp]
    | some o => cases o with
      | none => simp only [stepM, Spec.stepFx, Spec.step, hp, abs_lookup_none hp]
      | some t =>
        by_cases hc : (F.charIndices []).isSome = true
        · simp only [stepM, Spec.stepFx, Spec.step, hp, abs_lookup hp, hc, ↓reduceIte]
          have wt := focusWF hwf hp
          have hva := hv.get hp
          obtain ⟨cs, hcs⟩ := Option.isSome_iff_exists.mp (L.chars_total hc _ hva)
          have hb : ∀ p ∈ cs, p.1 ≤ (abs st.heap t).length := fun p hp' => (L.chars_cut _ cs hva hcs p hp').1
          apply SatX.bindT (popFrontChar_spec F wt hcs hb)
          rintro ⟨h1, t1, c⟩ ⟨w1, hab, heq⟩
          obtain ⟨a, b⟩ := slot_update hp w1 hab
          have := popChar_eq heq
          refine SatX.ok ⟨a, ?_⟩
          simp only [b, this]
        · simp only [stepM, Spec.stepFx, Spec.step, hp, abs_lookup hp, hc, ↓reduceIte, Bool.false_eq_true]
  | popFrontCharRun i j k =>
    cases hp : st.pool[i]? with
    | none => simp only [stepM, Spec.stepFx, Spec.step, hp, abs_lookup_oob hp]
    | some o => cases o with
      | none => simp only [stepM, Spec.stepFx, Spec.step, hp, abs_lookup_none hp]
      | some t =>
        by_cases hc : (F.charIndices []).isSome = true ∧ j < st.pool.length ∧ i ≠ j
        · have hc' := hc
          obtain ⟨hc1, hc2, hc3⟩ := hc'
          simp only [stepM, Spec.stepFx, Spec.step, hp, abs_lookup hp, absPool_length, hc1, hc2, hc3, ne_eq,
            not_false_eq_true, and_self, ↓reduceIte]
          have wt := focusWF hwf hp
          have hva := hv.get hp
          obtain ⟨cs, hcs⟩ := Option.isSome_iff_exists.mp (L.chars_total hc.1 _ hva)
          have hb : ∀ p ∈ cs, p.1 ≤ (abs st.heap t).length := fun p hp' => (L.chars_cut _ cs hva hcs p hp').1
          apply SatX.bindT (popFrontCharRun_spec F (classifier k) wt hcs hb)
          rintro ⟨h1, t1, r⟩ ⟨hab, hr⟩
          simp only at hab
          cases r with
          | none =>
            obtain ⟨w1, heq⟩ := hr
            obtain ⟨a, b⟩ := slot_update hp w1 hab
            have := popRun_eq heq
            refine SatX.ok ⟨a, ?_⟩
            simp only [b, this]
          | some sc =>
            obtain ⟨s, cls⟩ := sc
            obtain ⟨w1, heq⟩ := hr
            have := popRun_eq heq
            simp only [this]
            apply SatX.bindT (store_spec (by simpa using hc.2.1) (extraWF hp w1))
            rintro st2 ⟨w2, ha2⟩
            refine SatX.ok ⟨w2, ?_⟩
            simp only [ha2]
            rw [absPool_set (some t1) hab]
            rfl
        · simp only [stepM, Spec.stepFx, Spec.step, hp, abs_lookup hp, absPool_length, hc, ↓reduceIte]
  | sendRoundTrip i =>
    cases hp : st.pool[i]? with
    | none => simp only [stepM, Spec.stepFx, Spec.step, hp, abs_lookup_oob hp]
    | some o => cases o with
      | none => simp only [stepM, Spec.stepFx, Spec.step, hp, abs_lookup_none hp]
      | some t =>
        simp only [stepM, Spec.stepFx, Spec.step, hp, abs_lookup hp]
        have wt := focusWF hwf hp
        apply SatX.of_sat
        apply (makeOwned_spec wt).bind
        rintro ⟨h1, t1⟩ ⟨w1, hab, hat, _⟩
        obtain ⟨a, b⟩ := slot_update hp w1 hab
        refine Sat.ok ⟨a, ?_⟩
        simp only [b, hat]; rw [set_same (abs_lookup hp)]
  | reserve i n =>
    cases hp : st.pool[i]? with
    | none => simp only [stepM, Spec.stepFx, Spec.step, hp, abs_lookup_oob hp]
    | some o => cases o with
      | none => simp only [stepM, Spec.stepFx, Spec.step, hp, abs_lookup_none hp]
      | some t =>
        simp only [stepM, Spec.stepFx, Spec.step, hp, abs_lookup hp]
        have wt := focusWF hwf hp
        apply SatX.of_sat
        apply (reserveT_spec n wt).bind
        rintro ⟨h1, t1⟩ ⟨w1, hab, hat⟩
        obtain ⟨a, b⟩ := slot_update hp w1 hab
        refine Sat.ok ⟨a, ?_⟩
        simp only [b, hat]; rw [set_same (abs_lookup hp)]
  | withCapacity i n =>
    by_cases hi : i < st.pool.length
    · simp only [stepM, Spec.stepFx, Spec.step, absPool_length, hi, ↓reduceIte]
      apply SatX.of_sat
      apply (withCapacity_spec n hwf).bind
      rintro ⟨h1, t1⟩ ⟨w1, hab, hat⟩
      simp only at w1 hab hat
      apply (store_spec (st := ⟨h1, st.pool⟩) hi w1).sat.bind
      rintro st' ⟨w, ha⟩
      refine Sat.ok ⟨w, ?_⟩
      simp only [ha, hat]
      rw [absPool_heap (st := st) hab]
    · simp only [stepM, Spec.stepFx, Spec.step, absPool_length, hi, ↓reduceIte]
  | setByte i k v =>
    cases hp : st.pool[i]? with
    | none => simp only [stepM, Spec.stepFx, Spec.step, hp, abs_lookup_oob hp]
    | some o => cases o with
      | none => simp only [stepM, Spec.stepFx, Spec.step, hp, abs_lookup_none hp]
      | some t =>
        simp only [stepM, Spec.stepFx, Spec.step, hp, abs_lookup hp]
        have wt := focusWF hwf hp
        have hlen := abs_length (wt.twf t (List.mem_cons_self ..))
        apply SatX.of_sat
        apply (derefMut_spec wt).bind
        rintro ⟨h1, t1⟩ ⟨w1, hab, hat, hl1, hns⟩
        simp only at w1 hab hat hl1 hns
        obtain ⟨a, b⟩ := slot_update hp w1 hab
        rw [hlen, ← hl1]
        by_cases hk : k < t1.len32
        · simp only [hk, ↓reduceIte]
          apply (storeByte_spec k v w1 hns hk).sat.bind
          rintro ⟨h2, t2⟩ ⟨w2, hab2, hat2⟩
          simp only at w2 hab2 hat2
          have hp1 : (St.mk h1 (st.pool.set i (some t1))).pool[i]? = some (some t1) := by
            simp [lt_of_lookup hp]
          have w2' : WF h2 (t2 :: others (St.mk h1 (st.pool.set i (some t1))).pool i) := by
            simp only [others_set]; exact w2
          have hab2' : ∀ u ∈ others (St.mk h1 (st.pool.set i (some t1))).pool i,
              abs h2 u = abs (St.mk h1 (st.pool.set i (some t1))).heap u := by
            simp only [others_set]; exact hab2
          obtain ⟨a2, b2⟩ := slot_update hp1 w2' hab2'
          refine Sat.ok ⟨a2, ?_⟩
          simp only [List.set_set] at b2 ⊢
          simp only [b2, b, List.set_set, hat2, hat]
        · simp only [hk, ↓reduceIte]
          refine Sat.ok ⟨a, ?_⟩
          simp only [b, hat]; rw [set_same (abs_lookup hp)]
/-! ## every operation keeps the data of every buffer valid -/

theorem stepM_dv (F : Format) (cat : List UInt8 → List UInt8 → List UInt8) (L : LawsFx F cat)
    (st : St) (op : Op) (hwf : StWF st) (hv : AValid F (absPool st)) (hd : DV F st.heap)
    (hset : ∀ i k v, op = .setByte i k v → ∀ l, F.validate l = true) :
    ∀ m, stepM F st op = some m → PDV F (fun r => r.1.heap) m := by
  intro m hm
  have pushv : ∀ {t : T} {i : Nat} (bs : List UInt8), st.pool[i]? = some (some t) → F.validate bs = true →
      F.validate (pushSpec F (abs st.heap t) bs) = true := by
    intro t i bs hp hb
    rw [L.push_eq _ _ (hv.get hp) hb]; exact L.valid_cat _ _ (hv.get hp) hb
  cases op with
  | new i =>
    simp only [stepM] at hm
    split at hm
    · cases hm
      apply PDV.bind; intro st' e; exact PDV.ok (store_dv i _ hd _ e)
    · cases hm
  | fromBytes i bs =>
    simp only [stepM] at hm
    split at hm
    · cases hm
      apply PDV.ite
      · intro hb
        apply PDV.bind; rintro ⟨h1, t1⟩ e1
        have d1 := fromBytesUnchecked_dv hd hb L.valid_nil _ e1
        apply PDV.bind; intro st' e2
        exact PDV.ok (store_dv (st := ⟨h1, st.pool⟩) i t1 d1 _ e2)
      · intro _; exact PDV.ok hd
    · cases hm
  | pushBytes i bs =>
    cases hp : st.pool[i]? with
    | none => simp [stepM, hp] at hm
    | some o => cases o with
      | none => simp [stepM, hp] at hm
      | some t =>
        simp only [stepM, hp, Option.some.injEq] at hm
        subst hm
        have wt := focusWF hwf hp
        apply PDV.ite
        · intro hb
          apply PDV.bind; rintro ⟨h1, t1⟩ e1
          exact PDV.ok (pushBytesUnchecked_dv L.fixupOK bs wt hd (hv.get hp) L.valid_nil (pushv bs hp hb) _ e1)
        · intro _; exact PDV.ok hd
  | pushChar i c =>
    cases hp : st.pool[i]? with
    | none => simp [stepM, hp] at hm
    | some o => cases o with
      | none => simp [stepM, hp] at hm
      | some t =>
        simp only [stepM, hp, Option.some.injEq] at hm
        subst hm
        have wt := focusWF hwf hp
        cases he : F.encodeChar c with
        | none => exact PDV.ok hd
        | some bs =>
          simp only []
          apply PDV.bind; rintro ⟨h1, t1⟩ e1
          exact PDV.ok (pushBytesUnchecked_dv L.fixupOK bs wt hd (hv.get hp) L.valid_nil
            (pushv bs hp (L.encode_valid c bs he)) _ e1)
  | pushTendril i j =>
    cases hp : st.pool[i]? with
    | none => simp [stepM, hp] at hm
    | some o => cases o with
      | none => simp [stepM, hp] at hm
      | some t =>
        cases hq : st.pool[j]? with
        | none => simp [stepM, hp, hq] at hm
        | some o2 => cases o2 with
          | none => simp [stepM, hp, hq] at hm
          | some o =>
            simp only [stepM, hp, hq] at hm
            split at hm
            · cases hm
            · rename_i hij
              cases hm
              have wt := focusWF hwf hp
              apply PDV.bind; rintro ⟨h1, t1⟩ e1
              exact PDV.ok (pushTendril_dv L.fixupOK wt (others_mem (Ne.symm hij) hq) hd (hv.get hp)
                L.valid_nil (pushv _ hp (hv.get hq)) _ e1)
  | tryPopFront i n =>
    cases hp : st.pool[i]? with
    | none => simp [stepM, hp] at hm
    | some o => cases o with
      | none => simp [stepM, hp] at hm
      | some t =>
        simp only [stepM, hp, Option.some.injEq] at hm
        subst hm
        apply PDV.bind; rintro ⟨h1, t1, e⟩ e1
        exact PDV.ok (tryPopFront_dv t n hd _ e1)
  | tryPopBack i n =>
    cases hp : st.pool[i]? with
    | none => simp [stepM, hp] at hm
    | some o => cases o with
      | none => simp [stepM, hp] at hm
      | some t =>
        simp only [stepM, hp, Option.some.injEq] at hm
        subst hm
        apply PDV.bind; rintro ⟨h1, t1, e⟩ e1
        exact PDV.ok (tryPopBack_dv t n hd _ e1)
  | popFront i n =>
    cases hp : st.pool[i]? with
    | none => simp [stepM, hp] at hm
    | some o => cases o with
      | none => simp [stepM, hp] at hm
      | some t =>
        simp only [stepM, hp, Option.some.injEq] at hm
        subst hm
        apply PDV.bind; rintro ⟨h1, t1, e⟩ e1
        have d1 := tryPopFront_dv t n hd _ e1
        simp only []
        split
        · exact PDV.ok d1
        · exact PDV.err
  | popBack i n =>
    cases hp : st.pool[i]? with
    | none => simp [stepM, hp] at hm
    | some o => cases o with
      | none => simp [stepM, hp] at hm
      | some t =>
        simp only [stepM, hp, Option.some.injEq] at hm
        subst hm
        apply PDV.bind; rintro ⟨h1, t1, e⟩ e1
        have d1 := tryPopBack_dv t n hd _ e1
        simp only []
        split
        · exact PDV.ok d1
        · exact PDV.err
  | trySubtendril i j off len =>
    cases hp : st.pool[i]? with
    | none => simp [stepM, hp] at hm
    | some o => cases o with
      | none => simp [stepM, hp] at hm
      | some t =>
        simp only [stepM, hp] at hm
        split at hm
        · cases hm
          apply PDV.bind; rintro ⟨h1, t1, r⟩ e1
          have d1 := trySubtendril_dv t off len hd _ e1
          simp only []
          split
          · exact PDV.ok d1
          · apply PDV.bind; intro st2 e2
            exact PDV.ok (store_dv (st := ⟨h1, st.pool.set i (some t1)⟩) j _ d1 _ e2)
        · cases hm
  | subtendril i j off len =>
    cases hp : st.pool[i]? with
    | none => simp [stepM, hp] at hm
    | some o => cases o with
      | none => simp [stepM, hp] at hm
      | some t =>
        simp only [stepM, hp] at hm
        split at hm
        · cases hm
          apply PDV.bind; rintro ⟨h1, t1, r⟩ e1
          have d1 := trySubtendril_dv t off len hd _ e1
          simp only []
          split
          · exact PDV.err
          · apply PDV.bind; intro st2 e2
            exact PDV.ok (store_dv (st := ⟨h1, st.pool.set i (some t1)⟩) j _ d1 _ e2)
        · cases hm
  | clone i j =>
    cases hp : st.pool[i]? with
    | none => simp [stepM, hp] at hm
    | some o => cases o with
      | none => simp [stepM, hp] at hm
      | some t =>
        simp only [stepM, hp] at hm
        split at hm
        · cases hm
          apply PDV.bind; rintro ⟨h1, t1, c⟩ e1
          have d1 := cloneT_dv t hd _ e1
          apply PDV.bind; intro st2 e2
          exact PDV.ok (store_dv (st := ⟨h1, st.pool.set i (some t1)⟩) j _ d1 _ e2)
        · cases hm
  | clear i =>
    cases hp : st.pool[i]? with
    | none => simp [stepM, hp] at hm
    | some o => cases o with
      | none => simp [stepM, hp] at hm
      | some t =>
        simp only [stepM, hp, Option.some.injEq] at hm
        subst hm
        apply PDV.bind; rintro ⟨h1, t1⟩ e1
        exact PDV.ok (clearT_dv t hd _ e1)
  | drop i =>
    cases hp : st.pool[i]? with
    | none => simp [stepM, hp] at hm
    | some o => cases o with
      | none => simp [stepM, hp] at hm
      | some t =>
        simp only [stepM, hp, Option.some.injEq] at hm
        subst hm
        apply PDV.bind; intro h1 e1
        exact PDV.ok (dropT_dv t hd _ e1)
  | popFrontChar i =>
    cases hp : st.pool[i]? with
    | none => simp [stepM, hp] at hm
    | some o => cases o with
      | none => simp [stepM, hp] at hm
      | some t =>
        simp only [stepM, hp] at hm
        split at hm
        · cases hm
          apply PDV.bind; rintro ⟨h1, t1, c⟩ e1
          exact PDV.ok (popFrontChar_dv t hd _ e1)
        · cases hm
  | popFrontCharRun i j k =>
    cases hp : st.pool[i]? with
    | none => simp [stepM, hp] at hm
    | some o => cases o with
      | none => simp [stepM, hp] at hm
      | some t =>
        simp only [stepM, hp] at hm
        split at hm
        · cases hm
          apply PDV.bind; rintro ⟨h1, t1, r⟩ e1
          have d1 := popFrontCharRun_dv (classifier k) t hd _ e1
          simp only []
          split
          · exact PDV.ok d1
          · apply PDV.bind; intro st2 e2
            exact PDV.ok (store_dv (st := ⟨h1, st.pool.set i (some t1)⟩) j _ d1 _ e2)
        · cases hm
  | sendRoundTrip i =>
    cases hp : st.pool[i]? with
    | none => simp [stepM, hp] at hm
    | some o => cases o with
      | none => simp [stepM, hp] at hm
      | some t =>
        simp only [stepM, hp, Option.some.injEq] at hm
        subst hm
        apply PDV.bind; rintro ⟨h1, t1⟩ e1
        exact PDV.ok (makeOwned_dv (focusWF hwf hp) hd (hv.get hp) L.valid_nil _ e1)
  | reserve i n =>
    cases hp : st.pool[i]? with
    | none => simp [stepM, hp] at hm
    | some o => cases o with
      | none => simp [stepM, hp] at hm
      | some t =>
        simp only [stepM, hp, Option.some.injEq] at hm
        subst hm
        apply PDV.bind; rintro ⟨h1, t1⟩ e1
        exact PDV.ok (reserveT_dv n (focusWF hwf hp) hd (hv.get hp) L.valid_nil _ e1)
  | withCapacity i n =>
    simp only [stepM] at hm
    split at hm
    · cases hm
      apply PDV.bind; rintro ⟨h1, t1⟩ e1
      have d1 := withCapacity_dv n hwf hd L.valid_nil _ e1
      apply PDV.bind; intro st' e2
      exact PDV.ok (store_dv (st := ⟨h1, st.pool⟩) i t1 d1 _ e2)
    · cases hm
  | setByte i k v =>
    cases hp : st.pool[i]? with
    | none => simp [stepM, hp] at hm
    | some o => cases o with
      | none => simp [stepM, hp] at hm
      | some t =>
        simp only [stepM, hp, Option.some.injEq] at hm
        subst hm
        apply PDV.bind; rintro ⟨h1, t1⟩ e1
        have d1 := derefMut_dv (focusWF hwf hp) hd (hv.get hp) L.valid_nil _ e1
        simp only []
        apply PDV.ite
        · intro _
          apply PDV.bind; rintro ⟨h2, t2⟩ e2
          exact PDV.ok (storeByte_dv t1 k v d1 (hset i k v rfl) _ e2)
        · intro _; exact PDV.ok d1

/-! ## the main theorems -/

/-- the specification has no notion of undefined behaviour -/
theorem Spec.stepFx_ne_ub (F : Format) (cat : List UInt8 → List UInt8 → List UInt8) (p : APool) (op : Op)
    (s : String) : (Spec.stepFx F cat p op).2 ≠ .ub s := by
  cases op <;> simp only [Spec.stepFx] <;>
    first
    | exact Spec.step_ne_ub F p _ s
    | ((repeat' split) <;> (intro h; cases h))

/-- **Refinement, one step**, for a format with a concatenation fix-up: as `C11_step_refines`, with
the push operations of the specification concatenating with `cat`, from a state whose buffers hold
valid data (`DV`). -/
theorem C11_step_refines_fx (F : Format) (cat : List UInt8 → List UInt8 → List UInt8) (L : LawsFx F cat)
    (st : St) (op : Op) (hwf : StWF st) (hv : AValid F (absPool st)) (hd : DV F st.heap) :
    StWF (step F st op).1 ∧ (∀ s, (step F st op).2 ≠ .ub s) ∧
    ((absPool (step F st op).1, (step F st op).2) = Spec.stepFx F cat (absPool st) op ∨
      ((step F st op).2 = .panic ∧ (step F st op).1 = st ∧ mayPanic F (absPool st) op)) := by
  have h := stepM_spec_fx F cat L st op hwf hv hd
  unfold step
  cases hm : stepM F st op with
  | none =>
    rw [hm] at h
    exact ⟨hwf, by simp, Or.inl h.symm⟩
  | some m =>
    rw [hm] at h
    cases m with
    | ok r =>
      refine ⟨h.1, ?_, Or.inl h.2⟩
      intro s
      have := Spec.stepFx_ne_ub F cat (absPool st) op s
      rw [← h.2] at this
      exact this
    | error e =>
      cases e with
      | panic s => exact ⟨hwf, by simp, Or.inr ⟨rfl, rfl, h⟩⟩
      | ub s => exact h.elim

/-- **The buffer invariant is kept**: after any operation the data of every buffer is valid for the
format (byte stores through `DerefMut` only for formats in which every byte string is valid). -/
theorem C11_step_bufvalid_fx (F : Format) (cat : List UInt8 → List UInt8 → List UInt8) (L : LawsFx F cat)
    (st : St) (op : Op) (hwf : StWF st) (hv : AValid F (absPool st)) (hd : DV F st.heap)
    (hset : ∀ i k v, op = .setByte i k v → ∀ l, F.validate l = true) :
    DV F (step F st op).1.heap := by
  have h := stepM_dv F cat L st op hwf hv hd hset
  unfold step
  cases hm : stepM F st op with
  | none => exact hd
  | some m =>
    cases m with
    | ok r => exact h _ hm r rfl
    | error e =>
      cases e with
      | panic s => exact hd
      | ub s => exact hd

/-! ### contents stay valid for the format -/

theorem Spec.popChar_valid_fx {F : Format} {cat : List UInt8 → List UInt8 → List UInt8} (L : LawsFx F cat) {a : List UInt8} (ha : F.validate a = true) :
    F.validate (Spec.popChar F a).2 = true := by
  unfold Spec.popChar
  cases hc : F.charIndices a with
  | none => exact L.valid_nil
  | some cs =>
    match cs, hc with
    | [], _ => exact L.valid_nil
    | [(_, c)], _ => exact L.valid_nil
    | (i, c) :: (n, c2) :: more, hc =>
      simp only []
      split
      · exact L.valid_nil
      · exact (L.chars_cut a _ ha hc (n, c2) (by simp)).2.2

theorem Spec.popRun_valid_fx {F : Format} {cat : List UInt8 → List UInt8 → List UInt8} (L : LawsFx F cat) (cl : Nat → Nat) {a : List UInt8}
    (ha : F.validate a = true) :
    F.validate (Spec.popRun F cl a).2 = true ∧
      ∀ r c, (Spec.popRun F cl a).1 = some (r, c) → F.validate r = true := by
  unfold Spec.popRun
  cases hc : F.charIndices a with
  | none => exact ⟨ha, by intro r c h; cases h⟩
  | some cs =>
    match cs, hc with
    | [], _ => exact ⟨ha, by intro r c h; cases h⟩
    | (i, first) :: more, hc =>
      simp only []
      cases hf : more.find? (fun p => cl p.2 != cl first) with
      | none => exact ⟨L.valid_nil, by intro r c h; cases h; exact ha⟩
      | some p =>
        obtain ⟨idx, c2⟩ := p
        have hmem : (idx, c2) ∈ (i, first) :: more := List.mem_cons_of_mem _ (List.mem_of_find?_eq_some hf)
        have := L.chars_cut a _ ha hc (idx, c2) hmem
        exact ⟨this.2.2, by intro r c h; cases h; exact this.2.1⟩
/-- **Format validity.**  The specification keeps every slot valid for the format. -/
theorem C11_format_valid_fx (F : Format) (cat : List UInt8 → List UInt8 → List UInt8) (L : LawsFx F cat)
    (p : APool) (op : Op) (hv : AValid F p)
    (hset : ∀ i k v, op = .setByte i k v → ∀ l, F.validate l = true) :
    AValid F (Spec.stepFx F cat p op).1 := by
  have hget : ∀ {i a}, p[i]? = some (some a) → F.validate a = true := fun h => hv _ _ h
  cases op with
  | new i => simp only [Spec.stepFx, Spec.step]; split; exact hv.set L.valid_nil; exact hv
  | fromBytes i bs =>
    simp only [Spec.stepFx, Spec.step]; split
    · split
      · exact hv.set (by assumption)
      · exact hv
    · exact hv
  | pushBytes i bs =>
    simp only [Spec.stepFx, Spec.step]; split
    · rename_i a ha
      split
      · exact hv.set (L.valid_cat _ _ (hget ha) (by assumption))
      · exact hv
    · exact hv
  | pushChar i c =>
    simp only [Spec.stepFx, Spec.step]; split
    · rename_i a ha
      split
      · rename_i bs hb
        exact hv.set (L.valid_cat _ _ (hget ha) (L.encode_valid c bs hb))
      · exact hv
    · exact hv
  | pushTendril i j =>
    simp only [Spec.stepFx, Spec.step]; split
    · rename_i a b ha hb
      split
      · exact hv
      · exact hv.set (L.valid_cat _ _ (hget ha) (hget hb))
    · exact hv
  | tryPopFront i n =>
    simp only [Spec.stepFx, Spec.step]; split
    · rename_i a ha; exact hv.set (Spec.popFront_valid (hget ha) n)
    · exact hv
  | tryPopBack i n =>
    simp only [Spec.stepFx, Spec.step]; split
    · rename_i a ha; exact hv.set (Spec.popBack_valid (hget ha) n)
    · exact hv
  | popFront i n =>
    simp only [Spec.stepFx, Spec.step]; split
    · rename_i a ha
      split
      · exact hv.set (Spec.popFront_valid (hget ha) n)
      · exact hv
    · exact hv
  | popBack i n =>
    simp only [Spec.stepFx, Spec.step]; split
    · rename_i a ha
      split
      · exact hv.set (Spec.popBack_valid (hget ha) n)
      · exact hv
    · exact hv
  | trySubtendril i j off len =>
    simp only [Spec.stepFx, Spec.step]; split
    · split
      · split
        · exact hv
        · rename_i s hs; exact hv.set (Spec.sub_valid hs)
      · exact hv
    · exact hv
  | subtendril i j off len =>
    simp only [Spec.stepFx, Spec.step]; split
    · split
      · split
        · exact hv
        · rename_i s hs; exact hv.set (Spec.sub_valid hs)
      · exact hv
    · exact hv
  | clone i j =>
    simp only [Spec.stepFx, Spec.step]; split
    · rename_i a ha
      split
      · exact hv.set (hget ha)
      · exact hv
    · exact hv
  | clear i => simp only [Spec.stepFx, Spec.step]; split; exact hv.set L.valid_nil; exact hv
  | drop i => simp only [Spec.stepFx, Spec.step]; split; exact hv.set_none; exact hv
  | popFrontChar i =>
    simp only [Spec.stepFx, Spec.step]; split
    · rename_i a ha
      split
      · exact hv.set (Spec.popChar_valid_fx L (hget ha))
      · exact hv
    · exact hv
  | popFrontCharRun i j k =>
    simp only [Spec.stepFx, Spec.step]; split
    · rename_i a ha
      have := Spec.popRun_valid_fx L (classifier k) (hget ha)
      split
      · split
        · exact hv.set this.1
        · rename_i r cls hr
          exact (hv.set this.1).set (this.2 r cls hr)
      · exact hv
    · exact hv
  | sendRoundTrip i => simp only [Spec.stepFx, Spec.step]; split <;> exact hv
  | reserve i n => simp only [Spec.stepFx, Spec.step]; split <;> exact hv
  | withCapacity i n => simp only [Spec.stepFx, Spec.step]; split; exact hv.set L.valid_nil; exact hv
  | setByte i k v =>
    simp only [Spec.stepFx, Spec.step]; split
    · split
      · exact hv.set (hset i k v rfl _)
      · exact hv
    · exact hv
/-! ### all histories -/

/-- **Refinement, all histories**, for a format with a concatenation fix-up (induction over the
history): the state stays well-formed, every buffer and every slot holds data valid for the format,
and the abstract pool is what the specification `Spec.runFx` computes for the same history with the
operations deleted on which the model panicked without the specification panicking (`OFLOW`). -/
theorem C11_run_refines_fx (F : Format) (cat : List UInt8 → List UInt8 → List UInt8) (L : LawsFx F cat)
    (ops : List Op) (st : St) (hwf : StWF st) (hv : AValid F (absPool st)) (hd : DV F st.heap)
    (hs : StoresOK F ops) :
    StWF (run F st ops) ∧ AValid F (absPool (run F st ops)) ∧ DV F (run F st ops).heap ∧
    ∃ ops', ops'.Sublist ops ∧ absPool (run F st ops) = Spec.runFx F cat (absPool st) ops' := by
  induction ops generalizing st with
  | nil => exact ⟨hwf, hv, hd, [], List.Sublist.slnil, rfl⟩
  | cons op ops ih =>
    have hs' : StoresOK F ops := fun o ho => hs o (List.mem_cons_of_mem _ ho)
    obtain ⟨w1, _, h1⟩ := C11_step_refines_fx F cat L st op hwf hv hd
    have d1 := C11_step_bufvalid_fx F cat L st op hwf hv hd (hs op (List.mem_cons_self ..))
    simp only [run, List.foldl_cons]
    rcases h1 with h1 | ⟨_, h1, _⟩
    · have hv1 : AValid F (absPool (step F st op).1) := by
        have := C11_format_valid_fx F cat L (absPool st) op hv (hs op (List.mem_cons_self ..))
        rw [← h1] at this; exact this
      obtain ⟨w2, hv2, d2, ops', hsub, he⟩ := ih (step F st op).1 w1 hv1 d1 hs'
      refine ⟨w2, hv2, d2, op :: ops', hsub.cons_cons op, ?_⟩
      simp only [run] at he
      rw [he]
      simp only [Spec.runFx, List.foldl_cons, ← h1]
    · rw [h1]
      obtain ⟨w2, hv2, d2, ops', hsub, he⟩ := ih st hwf hv hd hs'
      exact ⟨w2, hv2, d2, ops', hsub.cons op, he⟩

/-- **Reachable states**: well-formed, valid contents, valid buffers. -/
theorem C11_reachable_wf_fx (F : Format) (cat : List UInt8 → List UInt8 → List UInt8) (L : LawsFx F cat)
    (slots : Nat) (ops : List Op) (hs : StoresOK F ops) :
    StWF (run F (St.init slots) ops) ∧ AValid F (absPool (run F (St.init slots) ops)) ∧
      DV F (run F (St.init slots) ops).heap := by
  have hv : AValid F (absPool (St.init slots)) := by
    intro i a hi
    simp [absPool, St.init, List.getElem?_replicate] at hi
  obtain ⟨a, b, c, _⟩ := C11_run_refines_fx F cat L ops (St.init slots) (init_wf slots) hv (DV.empty F) hs
  exact ⟨a, b, c⟩

/-! ### independence -/

theorem Spec.stepFx_frame (F : Format) (cat : List UInt8 → List UInt8 → List UInt8) (p : APool) (op : Op)
    (m : Nat) (hm : m ∉ targets op) : (Spec.stepFx F cat p op).1[m]? = p[m]? := by
  have key := Spec.step_frame F p op m hm
  cases op <;> simp only [Spec.stepFx] <;>
    first
    | exact key
    | (simp only [targets, List.mem_cons, List.mem_nil_iff, or_false] at hm
       (repeat' split) <;>
        first
        | rfl
        | (rw [List.getElem?_set_ne (Ne.symm hm)]))

/-- **Independence**, for a format with a concatenation fix-up: an operation changes at most its
target slot(s). -/
theorem C11_independent_fx (F : Format) (cat : List UInt8 → List UInt8 → List UInt8) (L : LawsFx F cat)
    (st : St) (op : Op) (hwf : StWF st) (hv : AValid F (absPool st)) (hd : DV F st.heap) (m : Nat)
    (hm : m ∉ targets op) : (absPool (step F st op).1)[m]? = (absPool st)[m]? := by
  obtain ⟨_, _, h⟩ := C11_step_refines_fx F cat L st op hwf hv hd
  rcases h with h | ⟨_, h, _⟩
  · have := Spec.stepFx_frame F cat (absPool st) op m hm
    rw [← h] at this; exact this
  · rw [h]

/-- **No undefined behaviour** on reachable states. -/
theorem C11_no_ub_fx (F : Format) (cat : List UInt8 → List UInt8 → List UInt8) (L : LawsFx F cat)
    (slots : Nat) (ops : List Op) (hs : StoresOK F ops) (op : Op) (s : String) :
    (step F (run F (St.init slots) ops) op).2 ≠ .ub s := by
  obtain ⟨hwf, hv, hd⟩ := C11_reachable_wf_fx F cat L slots ops hs
  exact (C11_step_refines_fx F cat L _ op hwf hv hd).2.1 s

/-- **checked push**: `try_push_bytes` answers `Err` iff the bytes are not valid for the format; then
nothing changes; otherwise (short of the `OFLOW` panic) the tendril is the format's concatenation. -/
theorem C11_push_checked_fx (F : Format) (cat : List UInt8 → List UInt8 → List UInt8) (L : LawsFx F cat)
    (st : St) (i : Nat) (bs : List UInt8) (t : T)
    (hwf : StWF st) (hv : AValid F (absPool st)) (hd : DV F st.heap) (hp : st.pool[i]? = some (some t)) :
    (F.validate bs = false →
      (step F st (.pushBytes i bs)).2 = .err ∧ absPool (step F st (.pushBytes i bs)).1 = absPool st) ∧
    (F.validate bs = true →
      ((step F st (.pushBytes i bs)).2 = .ok ∧
        absPool (step F st (.pushBytes i bs)).1 = (absPool st).set i (some (cat (abs st.heap t) bs))) ∨
      ((step F st (.pushBytes i bs)).2 = .panic ∧ (step F st (.pushBytes i bs)).1 = st)) := by
  obtain ⟨_, _, h⟩ := C11_step_refines_fx F cat L st (.pushBytes i bs) hwf hv hd
  constructor
  · intro hb
    rcases h with h | ⟨h1, h2, _⟩
    · simp only [Spec.stepFx, abs_lookup hp, hb, Bool.false_eq_true, ↓reduceIte] at h
      exact ⟨congrArg Prod.snd h, congrArg Prod.fst h⟩
    · exfalso
      unfold step at h1
      simp only [stepM, hp, hb, Bool.false_eq_true, ↓reduceIte] at h1
      cases h1
  · intro hb
    rcases h with h | ⟨h1, h2, _⟩
    · simp only [Spec.stepFx, abs_lookup hp, hb, ↓reduceIte] at h
      exact Or.inl ⟨congrArg Prod.snd h, congrArg Prod.fst h⟩
    · exact Or.inr ⟨h1, h2⟩

end H5V.Props.C11
