import H5V.Lemmas.HtmlTBModesBodyDefs
import H5V.Lemmas.HtmlTBModesPrimPop
import H5V.Lemmas.HtmlTBModesPrimIns2
import H5V.Lemmas.HtmlTBModesPrimFmt2
import H5V.Lemmas.HtmlTBModesSmall2
/-!
"in body", slice 5: the tag arms of `stepInBody` after the `noembed` arm — `select`, `option`, `optgroup`
(2025 customizable select), `rb`/`rtc`, `rp`/`rt`, `math`, `svg`, the ignored table/head start tags,
"any other start tag" (with `noscript` when scripting is enabled), "any other end tag".
-/
namespace H5V.Lemmas.HtmlTBModes
open H5V.Model.HtmlTB
open H5V.Model.Dom (Id SinkOp Output Dom QualName Attr NodeOrText ElementFlags NodeData QuirksMode)
open H5V.Lemmas.HtmlTBAlgo
open H5V.Lemmas.TBSafe (TI HInv SInv Rooted)
open H5V.Spec.TreeAlgo2 (Elem Entry PState Ctx Edit Place)
open H5V.Spec.TreeModes (STok ETok IMode Config Out TokSwitch XOp Op Step Edition)

/-! ### the arms of the slice as chunks of `stepInBody` -/

def b5_select (tag : Tag) : M ProcessResult := do
  if ← contextIsSelect "rules.rs:903" then
    let _ ← unexpected
  else if ← inScopeNamed defaultScope "select" then
    let _ ← unexpected
    let _ ← popUntilNamed "select"
  else
    reconstructActiveFormattingElements
    let _ ← insertElementFor tag
    setFramesetOk false
  pure .done

def b5_option (tag : Tag) : M ProcessResult := do
  if ← inScopeNamed defaultScope "select" then
    generateImpliedEndExcept "optgroup".toList
    if ← inScopeNamed defaultScope "option" then parseError "nested options"
  else if ← currentNodeNamed "option" then
    let _ ← pop
  reconstructActiveFormattingElements
  let _ ← insertElementFor tag
  pure .done

def b5_optgroup (tag : Tag) : M ProcessResult := do
  if ← inScopeNamed defaultScope "select" then
    generateImpliedEndTags cursoryImpliedEnd
    let nested ← do
      if ← inScopeNamed defaultScope "option" then pure true
      else inScopeNamed defaultScope "optgroup"
    if nested then parseError "nested options"
  else if ← currentNodeNamed "option" then
    let _ ← pop
  reconstructActiveFormattingElements
  let _ ← insertElementFor tag
  pure .done

def b5_rb (tag : Tag) : M ProcessResult := do
  if ← inScopeNamed defaultScope "ruby" then generateImpliedEndTags cursoryImpliedEnd
  if !(← currentNodeNamed "ruby") then
    let _ ← unexpected
  let _ ← insertElementFor tag
  pure .done

def b5_rp (tag : Tag) : M ProcessResult := do
  if ← inScopeNamed defaultScope "ruby" then generateImpliedEndExcept "rtc".toList
  let ok ← do
    if ← currentNodeNamed "rtc" then pure true else currentNodeNamed "ruby"
  if !ok then
    let _ ← unexpected
  let _ ← insertElementFor tag
  pure .done

def b5_foreign (tag : Tag) (ns : Str) : M ProcessResult := do
  reconstructActiveFormattingElements
  enterForeign tag ns

def b5_ignored : M ProcessResult := do
  let _ ← unexpected
  pure .done

def b5_otherStart (tag : Tag) : M ProcessResult := do
  if (← getS).opts.scriptingEnabled && isName tag.name "noscript" then parseRawData tag .rawtext
  else
    reconstructActiveFormattingElements
    let _ ← insertElementFor tag
    pure .done

def b5_otherEnd (tag : Tag) : M ProcessResult := do
  processEndTagInBody tag
  pure .done

/-- the tail of the `if` chain of `stepInBody` -/
def b5_rest (tag : Tag) : M ProcessResult :=
  if tag.isStart ["select"] then b5_select tag
  else if tag.isStart ["option"] then b5_option tag
  else if tag.isStart ["optgroup"] then b5_optgroup tag
  else if tag.isStart ["rb", "rtc"] then b5_rb tag
  else if tag.isStart ["rp", "rt"] then b5_rp tag
  else if tag.isStart ["math"] then b5_foreign tag nsMathml
  else if tag.isStart ["svg"] then b5_foreign tag nsSvg
  else if tag.isStart ["caption", "col", "colgroup", "frame", "head", "tbody", "td", "tfoot", "th",
                        "thead", "tr"] then b5_ignored
  else if tag.kind == .startTag then b5_otherStart tag
  else b5_otherEnd tag

theorem b5_stepInBody_rest (t : Tag) (hpre : (bodyC1 t || bodyC2 t || bodyC3 t || bodyC4 t) = false) :
    stepInBody (.tag t) = b5_rest t := by
  simp only [bodyC1, bodyC2, bodyC3, bodyC4, Bool.or_eq_false_iff] at hpre
  simp only [stepInBody, hpre, Bool.or_self, Bool.false_eq_true, if_false]
  rfl

/-! ### framework: a rule as a chain of stretches, the calls accumulated on the left -/

theorem b5_start {m : M ProcessResult} {s : State} {spec : SState → Spec.TreeModes.M (Step Id)} {tok : Token}
    (h : PC m s (fun r s' c => TokPost spec s tok r s' ([] ++ c))) : PC m s (TokPost spec s tok) :=
  pc_conseq h fun _ _ _ _ hp => by simpa using hp

theorem b5_step {α : Type} {m : M α} {f : α → M ProcessResult} {s0 s : State} {cacc : List Call}
    {spec : SState → Spec.TreeModes.M (Step Id)} {tok : Token} {Q1 : α → State → List Call → Prop} (h : PC m s Q1)
    (hf : ∀ a s1 c1, Q1 a s1 c1 → PC (f a) s1 (fun r s' c => TokPost spec s0 tok r s' ((cacc ++ c1) ++ c))) :
    PC (m >>= f) s (fun r s' c => TokPost spec s0 tok r s' (cacc ++ c)) := by
  refine pc_seq h ?_
  intro a s1 c1 _ hq
  refine pc_conseq (hf a s1 c1 hq) ?_
  intro r s' c _ hp
  rw [← List.append_assoc]; exact hp

theorem b5_done {s0 s : State} {cacc cacc' : List Call} {R : Aux → Aux → Prop}
    {spec : SState → Spec.TreeModes.M (Step Id)} {tok : Token} (htr : Tr s0 s cacc' R)
    (hfin : ∀ x x', AuxOk s0 x → AuxOk s x' → R x x' → spec (absF s0 x) = .ok (.done (absF s x')))
    (hcalls : cacc' = cacc := by simp) :
    PC (pure ProcessResult.done) s (fun r s' c => TokPost spec s0 tok r s' (cacc ++ c)) := by
  subst hcalls
  refine pc_pure (tokPost_of_tr (by rw [List.append_nil]; exact htr) trivial ?_)
  intro x x' hx hx' hr
  exact ⟨x', hfin x x' hx hx' hr, AuxSame.rfl', Or.inl rfl, rfl, rfl⟩

/-- a stretch in which the specification notes a parse error if `b` -/
theorem b5_trErrIf {s : State} (hm : MInv s) (b : Bool) (w : String) :
    Tr s s [] (fun x x' => absF s x' = if b then (absF s x).err w else absF s x) := by
  cases b
  · refine (Tr.refl hm).conseq ?_
    intro x x' _ _ h; subst h; rfl
  · refine (Tr.err hm w).conseq ?_
    intro x x' _ _ h; subst h; rfl

/-- the common tail "reconstruct the active formatting elements; insert an HTML element for the token" -/
theorem b5_recIns {s0 s : State} {cacc cacc' : List Call} {R : Aux → Aux → Prop} {t : Tag} (hp : PlainTag t)
    {spec : SState → Spec.TreeModes.M (Step Id)} {tok : Token} (htr : Tr s0 s cacc' R)
    (hspec : ∀ x x', AuxOk s0 x → R x x' → ∀ σ2 σ3, Spec.TreeModes.reconstruct (absF s x') = .ok σ2 →
      Spec.TreeModes.insertHtml' σ2 (specTag t) = .ok σ3 → spec (absF s0 x) = .ok (.done σ3))
    (hcalls : cacc' = cacc := by simp) :
    PC (do reconstructActiveFormattingElements; let _ ← insertElementFor t; pure ProcessResult.done) s
      (fun r s' c => TokPost spec s0 tok r s' (cacc ++ c)) := by
  subst hcalls
  have hm := htr.1
  refine b5_step (pc_reconstruct hm) ?_
  rintro _ s2 c2 ⟨-, -, htr2⟩
  refine b5_step (pc_insertElementFor' htr2.1 hp) ?_
  rintro a s3 c3 ⟨-, -, -, -, -, htr3⟩
  refine b5_done ((htr.trans htr2).trans htr3) ?_
  rintro x x3 hx hx3 ⟨x2, ⟨x1, r1, r2⟩, r3⟩
  exact hspec x x1 hx r1 _ _ r2 r3

/-- the tail "insert an HTML element for the token" -/
theorem b5_ins {s0 s : State} {cacc cacc' : List Call} {R : Aux → Aux → Prop} {t : Tag} (hp : PlainTag t)
    {spec : SState → Spec.TreeModes.M (Step Id)} {tok : Token} (htr : Tr s0 s cacc' R)
    (hspec : ∀ x x', AuxOk s0 x → R x x' → ∀ σ3,
      Spec.TreeModes.insertHtml' (absF s x') (specTag t) = .ok σ3 → spec (absF s0 x) = .ok (.done σ3))
    (hcalls : cacc' = cacc := by simp) :
    PC (do let _ ← insertElementFor t; pure ProcessResult.done) s
      (fun r s' c => TokPost spec s0 tok r s' (cacc ++ c)) := by
  subst hcalls
  refine b5_step (pc_insertElementFor' htr.1 hp) ?_
  rintro a s3 c3 ⟨-, -, -, -, -, htr3⟩
  refine b5_done (htr.trans htr3) ?_
  rintro x x3 hx hx3 ⟨x1, r1, r3⟩
  exact hspec x x1 hx r1 _ r3

/-! ### `contextIsSelect` -/

theorem b5_pc_contextIsSelect {s : State} (hm : MInv s) (site : String) :
    PC (contextIsSelect site) s (fun b s' calls =>
      Tr s s' calls (fun x x' => x' = x ∧ absF s x = absF s' x ∧ b = Spec.TreeModes.contextIsSelect (cfgOf s))) := by
  unfold contextIsSelect
  refine pc_seq (pc_isFragment hm) ?_
  rintro b s1 c1 _ ⟨rfl, rfl, hb, -⟩
  cases hctx : s1.contextElem with
  | none =>
    simp only [hb, hctx, Option.isSome_none, Bool.false_eq_true, if_false]
    refine pc_pure ((Tr.refl hm).conseq ?_)
    intro x x' _ _ h
    refine ⟨h, rfl, ?_⟩
    simp [Spec.TreeModes.contextIsSelect, cfgOf, hctx]
  | some c =>
    simp only [hb, hctx, Option.isSome_some, if_true]
    refine pc_getS_bind ?_
    simp only [hctx, List.nil_append]
    refine pc_query_spec hm (tot_htmlElemNamed s1 c "select") (fun _ => Spec.TreeModes.contextIsSelect (cfgOf s1)) ?_
    intro x _
    simp [Spec.TreeModes.contextIsSelect, cfgOf, hctx]

/-! ### `select` -/

theorem b5_body_select {t : Tag} (hwf : TagWf t) {s : State} (hm : MInv s) (tok : Token) :
    PC (b5_select t) s (TokPost (fun σ => Spec.TreeModes.inBodyStartSelect2025 (cfgOf s) σ (specTag t)) s tok) := by
  unfold b5_select
  apply b5_start
  refine b5_step (b5_pc_contextIsSelect hm _) ?_
  intro b s1 c1 htr1
  have hm1 := htr1.1
  have hc1 := htr1.2.1
  dsimp only
  cases b with
  | true =>
    simp only [if_true]
    refine b5_step (pc_unexpected hm1) ?_
    rintro _ s2 c2 ⟨-, htr2⟩
    refine b5_done ((htr1.trans htr2).trans (Tr.err htr2.1 "in body: select start tag in a select fragment")) ?_
    rintro x x' hx hx' ⟨x2, ⟨x1, ⟨hx1, e1, hb⟩, hx2, e2⟩, hxe⟩
    subst hx1; subst hx2; subst hxe
    rw [absF_err, ← e2, ← e1]
    simp only [Spec.TreeModes.inBodyStartSelect2025, ← hb, if_true]
    rfl
  | false =>
    simp only [Bool.false_eq_true, if_false]
    refine b5_step (pc_inScopeNamed_default hm1 "select") ?_
    intro b2 s2 c2 htr2
    have hm2 := htr2.1
    cases b2 with
    | true =>
      simp only [if_true]
      refine b5_step (pc_unexpected hm2) ?_
      rintro _ s3 c3 ⟨-, htr3⟩
      have hm3 := htr3.1
      refine b5_step (pc_popUntilNamed hm3 "select") ?_
      intro _ s4 c4 htr4
      refine b5_done ((((htr1.trans htr2).trans htr3).trans (Tr.err hm3 "in body: select start tag inside select")).trans htr4) ?_
      rintro x x' hx hx' ⟨xe, ⟨x3, ⟨x2, ⟨x1, ⟨hx1, e1, hb⟩, hx2, e2, hb2⟩, hx3, e3⟩, hxe⟩, hx4, e4, -⟩
      subst hx1; subst hx2; subst hx3; subst hxe; subst hx4
      rw [hc1, ← e1] at hb2
      rw [e4, absF_err, ← e3, ← e2, ← e1]
      simp only [Spec.TreeModes.inBodyStartSelect2025, ← hb, ← hb2, if_true, Bool.false_eq_true, if_false]
      rfl
    | false =>
      simp only [Bool.false_eq_true, if_false]
      refine b5_step (pc_reconstruct hm2) ?_
      rintro _ s3 c3 ⟨-, -, htr3⟩
      have hm3 := htr3.1
      refine b5_step (pc_insertElementFor' hm3 hwf.plain) ?_
      rintro a s4 c4 ⟨-, -, -, -, -, htr4⟩
      have hm4 := htr4.1
      refine b5_step (pc_setFramesetNotOk hm4) ?_
      rintro _ s5 c5 ⟨-, htr5⟩
      refine b5_done ((((htr1.trans htr2).trans htr3).trans htr4).trans htr5) ?_
      rintro x x' hx hx' ⟨x4, ⟨x3, ⟨x2, ⟨x1, ⟨hx1, e1, hb⟩, hx2, e2, hb2⟩, r3⟩, r4⟩, hx5, e5⟩
      subst hx1; subst hx2; subst hx5
      rw [hc1, ← e1] at hb2
      rw [← e2, ← e1] at r3
      simp only [Spec.TreeModes.inBodyStartSelect2025, ← hb, ← hb2, Bool.false_eq_true, if_false, r3, r4, e5,
        bind, Except.bind, pure, Except.pure]

/-! ### `option` -/

theorem b5_body_option {t : Tag} (hwf : TagWf t) {s : State} (hm : MInv s) (tok : Token) :
    PC (b5_option t) s (TokPost (fun σ => Spec.TreeModes.inBodyStartOption2025 (cfgOf s) σ (specTag t)) s tok) := by
  unfold b5_option
  apply b5_start
  refine b5_step (pc_inScopeNamed_default hm "select") ?_
  intro b1 s1 c1 htr1
  have hm1 := htr1.1
  have hc1 := htr1.2.1
  dsimp only
  cases b1 with
  | true =>
    simp only [if_true]
    refine b5_step (pc_generateImpliedEndExcept_lit hm1 "optgroup") ?_
    intro _ s2 c2 htr2
    have hm2 := htr2.1
    have hc2 := htr2.2.1
    refine b5_step (pc_inScopeNamed_default hm2 "option") ?_
    intro b3 s3 c3 htr3
    have hm3 := htr3.1
    cases b3 with
    | true =>
      simp only [if_true]
      refine b5_step (pc_parseError hm3 "nested options") ?_
      intro _ s4 c4 htr4
      refine b5_recIns hwf.plain ((((htr1.trans htr2).trans htr3).trans htr4).trans
        (Tr.err htr4.1 "in body: option start tag with option in scope")) ?_
      rintro x x' hx ⟨x4, ⟨x3, ⟨x2, ⟨x1, ⟨hx1, e1, hb1⟩, hx2, e2⟩, hx3, e3, hb3⟩, hx4, e4⟩, hxe⟩ σ2 σ3 r2 r3
      subst hx1; subst hx2; subst hx3; subst hx4; subst hxe
      rw [hc2, hc1, e2, ← e1] at hb3
      rw [absF_err, ← e4, ← e3, e2, ← e1] at r2
      simp only [Spec.TreeModes.inBodyStartOption2025, ← hb1, ← hb3, if_true, r2, r3, bind, Except.bind, Functor.map, Except.map]
    | false =>
      simp only [Bool.false_eq_true, if_false]
      refine b5_recIns hwf.plain ((htr1.trans htr2).trans htr3) ?_
      rintro x x' hx ⟨x2, ⟨x1, ⟨hx1, e1, hb1⟩, hx2, e2⟩, hx3, e3, hb3⟩ σ2 σ3 r2 r3
      subst hx1; subst hx2; subst hx3
      rw [hc2, hc1, e2, ← e1] at hb3
      rw [← e3, e2, ← e1] at r2
      simp only [Spec.TreeModes.inBodyStartOption2025, ← hb1, ← hb3, if_true, Bool.false_eq_true, if_false, r2, r3, bind,
        Except.bind, Functor.map, Except.map]
  | false =>
    simp only [Bool.false_eq_true, if_false]
    refine b5_step (pc_currentNodeNamed hm1 "option") ?_
    intro b2 s2 c2 htr2
    have hm2 := htr2.1
    cases b2 with
    | true =>
      simp only [if_true]
      refine b5_step (pc_pop hm2) ?_
      rintro _ s3 c3 ⟨-, -, -, htr3⟩
      refine b5_recIns hwf.plain ((htr1.trans htr2).trans htr3) ?_
      rintro x x' hx ⟨x2, ⟨x1, ⟨hx1, e1, hb1⟩, hx2, e2, hb2⟩, hx3, e3, -⟩ σ2 σ3 r2 r3
      subst hx1; subst hx2; subst hx3
      rw [← e1] at hb2
      rw [e3, ← e2, ← e1] at r2
      simp only [Spec.TreeModes.inBodyStartOption2025, ← hb1, ← hb2, if_true, Bool.false_eq_true, if_false, r2, r3, bind,
        Except.bind, Functor.map, Except.map]
    | false =>
      simp only [Bool.false_eq_true, if_false]
      refine b5_recIns hwf.plain (htr1.trans htr2) ?_
      rintro x x' hx ⟨x1, ⟨hx1, e1, hb1⟩, hx2, e2, hb2⟩ σ2 σ3 r2 r3
      subst hx1; subst hx2
      rw [← e1] at hb2
      rw [← e2, ← e1] at r2
      simp only [Spec.TreeModes.inBodyStartOption2025, ← hb1, ← hb2, Bool.false_eq_true, if_false, r2, r3, bind,
        Except.bind, Functor.map, Except.map]

/-! ### `optgroup` -/

theorem b5_body_optgroup {t : Tag} (hwf : TagWf t) {s : State} (hm : MInv s) (tok : Token) :
    PC (b5_optgroup t) s (TokPost (fun σ => Spec.TreeModes.inBodyStartOptgroup2025 (cfgOf s) σ (specTag t)) s tok) := by
  unfold b5_optgroup
  apply b5_start
  refine b5_step (pc_inScopeNamed_default hm "select") ?_
  intro b1 s1 c1 htr1
  have hm1 := htr1.1
  have hc1 := htr1.2.1
  dsimp only
  cases b1 with
  | true =>
    simp only [if_true]
    refine b5_step (pc_generateImpliedEndTags_cursory hm1) ?_
    intro _ s2 c2 htr2
    have hm2 := htr2.1
    have hc2 := htr2.2.1
    refine b5_step (pc_inScopeNamed_default hm2 "option") ?_
    intro b3 s3 c3 htr3
    have hm3 := htr3.1
    have hc3 := htr3.2.1
    cases b3 with
    | true =>
      simp only [if_true, pure_bind]
      refine b5_step (pc_parseError hm3 "nested options") ?_
      intro _ s4 c4 htr4
      refine b5_recIns hwf.plain ((((htr1.trans htr2).trans htr3).trans htr4).trans
        (Tr.err htr4.1 "in body: optgroup start tag with option/optgroup in scope")) ?_
      rintro x x' hx ⟨x4, ⟨x3, ⟨x2, ⟨x1, ⟨hx1, e1, hb1⟩, hx2, e2⟩, hx3, e3, hb3⟩, hx4, e4⟩, hxe⟩ σ2 σ3 r2 r3
      subst hx1; subst hx2; subst hx3; subst hx4; subst hxe
      rw [hc2, hc1, e2, ← e1] at hb3
      rw [absF_err, ← e4, ← e3, e2, ← e1] at r2
      simp only [Spec.TreeModes.inBodyStartOptgroup2025, ← hb1, ← hb3, Bool.true_or, if_true, r2, r3, bind, Except.bind,
        Functor.map, Except.map]
    | false =>
      simp only [Bool.false_eq_true, if_false]
      refine b5_step (pc_inScopeNamed_default hm3 "optgroup") ?_
      intro b4 s4 c4 htr4
      have hm4 := htr4.1
      cases b4 with
      | true =>
        simp only [if_true]
        refine b5_step (pc_parseError hm4 "nested options") ?_
        intro _ s5 c5 htr5
        refine b5_recIns hwf.plain (((((htr1.trans htr2).trans htr3).trans htr4).trans htr5).trans
          (Tr.err htr5.1 "in body: optgroup start tag with option/optgroup in scope")) ?_
        rintro x x' hx ⟨x5, ⟨x4, ⟨x3, ⟨x2, ⟨x1, ⟨hx1, e1, hb1⟩, hx2, e2⟩, hx3, e3, hb3⟩, hx4, e4, hb4⟩, hx5, e5⟩, hxe⟩ σ2 σ3 r2 r3
        subst hx1; subst hx2; subst hx3; subst hx4; subst hx5; subst hxe
        rw [hc2, hc1, e2, ← e1] at hb3
        rw [hc3, hc2, hc1, ← e3, e2, ← e1] at hb4
        rw [absF_err, ← e5, ← e4, ← e3, e2, ← e1] at r2
        simp only [Spec.TreeModes.inBodyStartOptgroup2025, ← hb1, ← hb3, ← hb4, Bool.or_true, if_true, r2, r3, bind,
          Except.bind, Functor.map, Except.map]
      | false =>
        simp only [Bool.false_eq_true, if_false]
        refine b5_recIns hwf.plain (((htr1.trans htr2).trans htr3).trans htr4) ?_
        rintro x x' hx ⟨x3, ⟨x2, ⟨x1, ⟨hx1, e1, hb1⟩, hx2, e2⟩, hx3, e3, hb3⟩, hx4, e4, hb4⟩ σ2 σ3 r2 r3
        subst hx1; subst hx2; subst hx3; subst hx4
        rw [hc2, hc1, e2, ← e1] at hb3
        rw [hc3, hc2, hc1, ← e3, e2, ← e1] at hb4
        rw [← e4, ← e3, e2, ← e1] at r2
        simp only [Spec.TreeModes.inBodyStartOptgroup2025, ← hb1, ← hb3, ← hb4, Bool.or_false, if_true, Bool.false_eq_true,
          if_false, r2, r3, bind, Except.bind, Functor.map, Except.map]
  | false =>
    simp only [Bool.false_eq_true, if_false]
    refine b5_step (pc_currentNodeNamed hm1 "option") ?_
    intro b2 s2 c2 htr2
    have hm2 := htr2.1
    cases b2 with
    | true =>
      simp only [if_true]
      refine b5_step (pc_pop hm2) ?_
      rintro _ s3 c3 ⟨-, -, -, htr3⟩
      refine b5_recIns hwf.plain ((htr1.trans htr2).trans htr3) ?_
      rintro x x' hx ⟨x2, ⟨x1, ⟨hx1, e1, hb1⟩, hx2, e2, hb2⟩, hx3, e3, -⟩ σ2 σ3 r2 r3
      subst hx1; subst hx2; subst hx3
      rw [← e1] at hb2
      rw [e3, ← e2, ← e1] at r2
      simp only [Spec.TreeModes.inBodyStartOptgroup2025, ← hb1, ← hb2, if_true, Bool.false_eq_true, if_false, r2, r3, bind,
        Except.bind, Functor.map, Except.map]
    | false =>
      simp only [Bool.false_eq_true, if_false]
      refine b5_recIns hwf.plain (htr1.trans htr2) ?_
      rintro x x' hx ⟨x1, ⟨hx1, e1, hb1⟩, hx2, e2, hb2⟩ σ2 σ3 r2 r3
      subst hx1; subst hx2
      rw [← e1] at hb2
      rw [← e2, ← e1] at r2
      simp only [Spec.TreeModes.inBodyStartOptgroup2025, ← hb1, ← hb2, Bool.false_eq_true, if_false, r2, r3, bind,
        Except.bind, Functor.map, Except.map]

/-! ### `rb`, `rtc` -/

/-- the specification's clause for `rb`/`rtc` -/
def b5_specRb (cfg : Config Id) (σ : SState) (t : STag) : Spec.TreeModes.M (Step Id) :=
  let s :=
    if Spec.TreeModes.hasInScope cfg σ "ruby" then
      let s := Spec.TreeModes.genImplied σ
      if s.curIs "ruby" then s else s.err "in body: rb/rtc, current node is not ruby"
    else σ
  .done <$> Spec.TreeModes.insertHtml' s t

theorem b5_body_rb {t : Tag} (hwf : TagWf t) {s : State} (hm : MInv s) (tok : Token) :
    PC (b5_rb t) s (TokPost (fun σ => b5_specRb (cfgOf s) σ (specTag t)) s tok) := by
  unfold b5_rb
  apply b5_start
  refine b5_step (pc_inScopeNamed_default hm "ruby") ?_
  intro b1 s1 c1 htr1
  have hm1 := htr1.1
  dsimp only
  cases b1 with
  | true =>
    simp only [if_true]
    refine b5_step (pc_generateImpliedEndTags_cursory hm1) ?_
    intro _ s2 c2 htr2
    have hm2 := htr2.1
    refine b5_step (pc_currentNodeNamed hm2 "ruby") ?_
    intro b3 s3 c3 htr3
    have hm3 := htr3.1
    cases b3 with
    | true =>
      simp only [Bool.not_true, Bool.false_eq_true, if_false]
      refine b5_ins hwf.plain ((htr1.trans htr2).trans htr3) ?_
      rintro x x' hx ⟨x2, ⟨x1, ⟨hx1, e1, hb1⟩, hx2, e2⟩, hx3, e3, hb3⟩ σ3 r3
      subst hx1; subst hx2; subst hx3
      rw [e2, ← e1] at hb3
      rw [← e3, e2, ← e1] at r3
      simp only [b5_specRb, ← hb1, ← hb3, if_true, r3, Functor.map, Except.map]
    | false =>
      simp only [Bool.not_false, if_true]
      refine b5_step (pc_unexpected hm3) ?_
      rintro _ s4 c4 ⟨-, htr4⟩
      refine b5_ins hwf.plain ((((htr1.trans htr2).trans htr3).trans htr4).trans
        (Tr.err htr4.1 "in body: rb/rtc, current node is not ruby")) ?_
      rintro x x' hx ⟨x4, ⟨x3, ⟨x2, ⟨x1, ⟨hx1, e1, hb1⟩, hx2, e2⟩, hx3, e3, hb3⟩, hx4, e4⟩, hxe⟩ σ3 r3
      subst hx1; subst hx2; subst hx3; subst hx4; subst hxe
      rw [e2, ← e1] at hb3
      rw [absF_err, ← e4, ← e3, e2, ← e1] at r3
      simp only [b5_specRb, ← hb1, ← hb3, if_true, Bool.false_eq_true, if_false, r3, Functor.map, Except.map]
  | false =>
    simp only [Bool.false_eq_true, if_false]
    refine b5_step (pc_currentNodeNamed hm1 "ruby") ?_
    intro b3 s3 c3 htr3
    have hm3 := htr3.1
    cases b3 with
    | true =>
      simp only [Bool.not_true, Bool.false_eq_true, if_false]
      refine b5_ins hwf.plain (htr1.trans htr3) ?_
      rintro x x' hx ⟨x1, ⟨hx1, e1, hb1⟩, hx3, e3, hb3⟩ σ3 r3
      subst hx1; subst hx3
      rw [← e3, ← e1] at r3
      simp only [b5_specRb, ← hb1, Bool.false_eq_true, if_false, r3, Functor.map, Except.map]
    | false =>
      simp only [Bool.not_false, if_true]
      refine b5_step (pc_unexpected hm3) ?_
      rintro _ s4 c4 ⟨-, htr4⟩
      refine b5_ins hwf.plain ((htr1.trans htr3).trans htr4) ?_
      rintro x x' hx ⟨x3, ⟨x1, ⟨hx1, e1, hb1⟩, hx3, e3, hb3⟩, hx4, e4⟩ σ3 r3
      subst hx1; subst hx3; subst hx4
      rw [← e4, ← e3, ← e1] at r3
      simp only [b5_specRb, ← hb1, Bool.false_eq_true, if_false, r3, Functor.map, Except.map]

/-! ### `rp`, `rt` -/

def b5_rpTailM (tag : Tag) : M ProcessResult := do
  let ok ← do
    if ← currentNodeNamed "rtc" then pure true else currentNodeNamed "ruby"
  if !ok then
    let _ ← unexpected
  let _ ← insertElementFor tag
  pure .done

theorem b5_rp_eq (t : Tag) : b5_rp t = (do
    let b ← inScopeNamed defaultScope "ruby"
    if b then do generateImpliedEndExcept "rtc".toList; b5_rpTailM t else b5_rpTailM t) := rfl

/-- "If the current node is not now a `rtc` element or a `ruby` element, this is a parse error.  Insert an
HTML element for the token." (`e`: the specification notes the parse error at all) -/
theorem b5_rpTail {s0 s : State} {cacc cacc' : List Call} {R : Aux → Aux → Prop} {t : Tag} (hp : PlainTag t)
    {spec : SState → Spec.TreeModes.M (Step Id)} {tok : Token} (htr : Tr s0 s cacc' R) (w : String) (e : Bool)
    (hspec : ∀ x x', AuxOk s0 x → R x x' → ∀ σ3,
      Spec.TreeModes.insertHtml'
        (if (e && !((absF s x').curIs "rtc" || (absF s x').curIs "ruby")) = true then (absF s x').err w else absF s x')
        (specTag t) = .ok σ3 → spec (absF s0 x) = .ok (.done σ3))
    (hcalls : cacc' = cacc := by simp) :
    PC (b5_rpTailM t) s (fun r s' c => TokPost spec s0 tok r s' (cacc ++ c)) := by
  subst hcalls
  unfold b5_rpTailM
  have hm := htr.1
  refine b5_step (pc_currentNodeNamed hm "rtc") ?_
  intro b2 s2 c2 htr2
  have hm2 := htr2.1
  dsimp only
  cases b2 with
  | true =>
    simp only [if_true, pure_bind, Bool.not_true, Bool.false_eq_true, if_false]
    refine b5_ins hp (htr.trans htr2) ?_
    rintro x x' hx ⟨x1, r1, hx2, e2, hb2⟩ σ3 r3
    subst hx2
    refine hspec x x' hx r1 σ3 ?_
    rw [← hb2]
    simp only [Bool.true_or, Bool.not_true, Bool.and_false, Bool.false_eq_true, if_false]
    rw [e2]; exact r3
  | false =>
    simp only [Bool.false_eq_true, if_false]
    refine b5_step (pc_currentNodeNamed hm2 "ruby") ?_
    intro b3 s3 c3 htr3
    have hm3 := htr3.1
    cases b3 with
    | true =>
      simp only [Bool.not_true, Bool.false_eq_true, if_false]
      refine b5_ins hp ((htr.trans htr2).trans htr3) ?_
      rintro x x' hx ⟨x2, ⟨x1, r1, hx2, e2, hb2⟩, hx3, e3, hb3⟩ σ3 r3
      subst hx2; subst hx3
      refine hspec x x' hx r1 σ3 ?_
      rw [← e2] at hb3
      rw [← hb2, ← hb3]
      simp only [Bool.or_true, Bool.not_true, Bool.and_false, Bool.false_eq_true, if_false]
      rw [e2, e3]; exact r3
    | false =>
      simp only [Bool.not_false, if_true]
      refine b5_step (pc_unexpected hm3) ?_
      rintro _ s4 c4 ⟨-, htr4⟩
      refine b5_ins hp ((((htr.trans htr2).trans htr3).trans htr4).trans (b5_trErrIf htr4.1 e w)) ?_
      rintro x x' hx ⟨x4, ⟨x3, ⟨x2, ⟨x1, r1, hx2, e2, hb2⟩, hx3, e3, hb3⟩, hx4, e4⟩, ee⟩ σ3 r3
      subst hx2; subst hx3; subst hx4
      refine hspec x x4 hx r1 σ3 ?_
      rw [← e2] at hb3
      rw [← hb2, ← hb3]
      simp only [Bool.or_false, Bool.not_false, Bool.and_true]
      rw [ee, ← e4, ← e3, ← e2] at r3
      exact r3

/-- the specification's clause for `rp`/`rt` -/
def b5_specRp (cfg : Config Id) (σ : SState) (t : STag) : Spec.TreeModes.M (Step Id) :=
  let s :=
    if Spec.TreeModes.hasInScope cfg σ "ruby" then
      let s := Spec.TreeModes.genImplied σ (some "rtc")
      if s.curIs "rtc" || s.curIs "ruby" then s else s.err "in body: rp/rt, current node is not rtc/ruby"
    else σ
  .done <$> Spec.TreeModes.insertHtml' s t

theorem b5_body_rp {t : Tag} (hwf : TagWf t) {s : State} (hm : MInv s) (tok : Token) :
    PC (b5_rp t) s (TokPost (fun σ => b5_specRp (cfgOf s) σ (specTag t)) s tok) := by
  rw [b5_rp_eq]
  apply b5_start
  refine b5_step (pc_inScopeNamed_default hm "ruby") ?_
  intro b1 s1 c1 htr1
  have hm1 := htr1.1
  cases b1 with
  | true =>
    simp only [if_true]
    refine b5_step (pc_generateImpliedEndExcept_lit hm1 "rtc") ?_
    intro _ s2 c2 htr2
    refine b5_rpTail hwf.plain (htr1.trans htr2) "in body: rp/rt, current node is not rtc/ruby" true ?_
    rintro x x' hx ⟨x1, ⟨hx1, e1, hb1⟩, hx2, e2⟩ σ3 r3
    subst hx1; subst hx2
    rw [e2, ← e1] at r3
    simp only [b5_specRp, ← hb1, if_true]
    cases hcur : ((Spec.TreeModes.genImplied (absF s x') (some "rtc")).curIs "rtc" ||
        (Spec.TreeModes.genImplied (absF s x') (some "rtc")).curIs "ruby") with
    | true => simp only [hcur, Bool.not_true, Bool.and_false, Bool.false_eq_true, if_false] at r3; simp only [if_true, r3, Functor.map, Except.map]
    | false =>
      simp only [hcur, Bool.not_false, Bool.and_true, if_true] at r3
      simp only [Bool.false_eq_true, if_false, r3, Functor.map, Except.map]
  | false =>
    simp only [Bool.false_eq_true, if_false]
    refine b5_rpTail hwf.plain htr1 "" false ?_
    rintro x x' hx ⟨hx1, e1, hb1⟩ σ3 r3
    subst hx1
    simp only [Bool.false_and, Bool.false_eq_true, if_false] at r3
    rw [← e1] at r3
    simp only [b5_specRp, ← hb1, Bool.false_eq_true, if_false, r3, Functor.map, Except.map]

/-! ### `math`, `svg` -/

theorem b5_body_foreign {t : Tag} (hwf : TagWf t) {s : State} (hm : MInv s) (tok : Token) (ns : Str) :
    PC (b5_foreign t ns) s
      (TokPost (fun σ => Spec.TreeModes.inBodyStartForeignRoot σ (specTag t) (kindOfNs ns) ns) s tok) := by
  unfold b5_foreign
  refine pc_seq (pc_reconstruct hm) ?_
  rintro _ s1 c1 _ ⟨-, -, htr1⟩
  refine pc_conseq (pc_enterForeign htr1.1 ns hwf.plain hwf.nodup) ?_
  rintro r s2 c2 _ ⟨hr, htr2⟩
  subst hr
  cases hsc : t.selfClosing with
  | true =>
    refine tokPost_of_tr (htr1.trans htr2) trivial ?_
    rintro x x' hx hx' ⟨x1, r1, r', r2, e2⟩
    refine ⟨x', ?_, AuxSame.rfl', Or.inl rfl, rfl, rfl⟩
    simp only [specTag_selfClosing, hsc, if_true] at e2
    simp only [Spec.TreeModes.inBodyStartForeignRoot, r1, r2, bind, Except.bind, specTag_selfClosing, hsc, if_true, e2,
      efResult, stepOf, pure, Except.pure]
  | false =>
    refine tokPost_of_tr (htr1.trans htr2) trivial ?_
    rintro x x' hx hx' ⟨x1, r1, r', r2, e2⟩
    refine ⟨x', ?_, AuxSame.rfl', Or.inl rfl, rfl, rfl⟩
    simp only [specTag_selfClosing, hsc, Bool.false_eq_true, if_false] at e2
    simp only [Spec.TreeModes.inBodyStartForeignRoot, r1, r2, bind, Except.bind, specTag_selfClosing, hsc,
      Bool.false_eq_true, if_false, e2, efResult, stepOf, pure, Except.pure]

/-! ### the ignored start tags -/

theorem b5_body_ignored {s : State} (hm : MInv s) (tok : Token) :
    PC b5_ignored s (TokPost (fun σ => pure (Step.done (Spec.TreeModes.State.err σ "in body: stray table/head start tag"))) s tok) :=
  pc_unexpected_done hm tok _

/-! ### "any other start tag" (and `noscript` when scripting is enabled), "any other end tag" -/

def b5_specOtherStart (cfg : Config Id) (σ : SState) (t : STag) : Spec.TreeModes.M (Step Id) :=
  if t.is "noscript" && cfg.scripting then .done <$> Spec.TreeModes.genericRawText σ t
  else do
    let s ← Spec.TreeModes.reconstruct σ
    .done <$> Spec.TreeModes.insertHtml' s t

theorem b5_body_otherStart {t : Tag} (hwf : TagWf t) {s : State} (hm : MInv s) (tok : Token) :
    PC (b5_otherStart t) s (TokPost (fun σ => b5_specOtherStart (cfgOf s) σ (specTag t)) s tok) := by
  unfold b5_otherStart
  refine pc_getS_bind ?_
  have hsc : (cfgOf s).scripting = s.opts.scriptingEnabled := rfl
  have e1 : isName t.name "noscript" = decide (t.name = "noscript".toList) := isName_eq _ _
  have e2 : (specTag t).is "noscript" = decide (t.name = "noscript".toList) := by
    simp only [Spec.TreeModes.Tag.is, strIs_eq, specTag_name]
  by_cases hc : (s.opts.scriptingEnabled && isName t.name "noscript") = true
  · simp only [hc, if_true]
    refine pc_tokPost_congr (pc_parseRawData_rawtext hm hwf.plain tok) ?_
    intro x _
    have hc' : ((specTag t).is "noscript" && (cfgOf s).scripting) = true := by
      rw [hsc, e2, Bool.and_comm, ← e1]; exact hc
    simp only [b5_specOtherStart, hc', if_true]
  · simp only [hc, Bool.false_eq_true, if_false]
    have hc' : ((specTag t).is "noscript" && (cfgOf s).scripting) = false := by
      rw [hsc, e2, Bool.and_comm, ← e1]; exact Bool.eq_false_iff.mpr hc
    apply b5_start
    refine b5_recIns hwf.plain (Tr.refl hm) ?_
    rintro x x' hx hxx σ2 σ3 r2 r3
    subst hxx
    simp only [b5_specOtherStart, hc', Bool.false_eq_true, if_false, r2, r3, bind, Except.bind, Functor.map, Except.map]

theorem b5_body_otherEnd (t : Tag) {s : State} (hm : MInv s) (tok : Token) :
    PC (b5_otherEnd t) s (TokPost (fun σ =>
      pure (Step.done (σ.setStack (Spec.TreeAlgo2.anyOtherEndTag (specTag t).name σ.p.stack)))) s tok) := by
  unfold b5_otherEnd
  apply b5_start
  refine b5_step (pc_processEndTagInBody hm t) ?_
  intro _ s1 c1 htr1
  refine b5_done htr1 ?_
  rintro x x' hx hx' ⟨hxx, e⟩
  subst hxx
  rw [e]
  rfl

/-! ### the slice -/

theorem b5_kind_ne : (H5V.Model.HtmlTok.TagKind.startTag == H5V.Model.HtmlTok.TagKind.endTag) = false ∧
    (H5V.Model.HtmlTok.TagKind.endTag == H5V.Model.HtmlTok.TagKind.startTag) = false := by decide

@[simp] theorem b5_cfgOf_edition (s : State) : (cfgOf s).edition = Edition.customizableSelect := rfl

/-- evaluate the tag tests of the model's chain for a start tag whose name is the literal of `h` -/
local macro "b5_model_lit" hk:ident h:ident : tactic =>
  `(tactic| simp +decide only [b5_rest, Tag.isStart, $hk:ident, $h:ident, isOneOf_cons, isOneOf_nil, Bool.or_false,
      beq_self_eq_true, Bool.true_and, if_true, if_false])

/-- evaluate the tag tests of the specification's chain for a start tag whose name is the literal of `h` -/
local macro "b5_spec_lit" hk:ident h:ident : tactic =>
  `(tactic| simp +decide only [stokOf, stokOfTag_start $hk, Spec.TreeModes.inBody, Spec.TreeModes.inBodyStartTag,
      Spec.TreeModes.inBodyStartTagCore, Spec.TreeModes.Tag.is, Spec.TreeModes.Tag.isOneOf, strIs_eq, strIsOneOf_cons,
      strIsOneOf_nil, Spec.TreeModes.blockStart, Spec.TreeModes.formattingStart, Spec.TreeTables.heading, specTag_name,
      $h:ident, if_true, if_false, b5_cfgOf_edition, decide_false, decide_true, Bool.false_or, Bool.or_false,
      Bool.false_and, Bool.true_and, Bool.true_or, Bool.or_true, Bool.false_eq_true])

theorem b5_startTags {t : Tag} (hwf : TagWf t) (hpre : (bodyC1 t || bodyC2 t || bodyC3 t || bodyC4 t) = false)
    (hk : t.kind = .startTag) {s : State} (hm : MInv s) :
    PC (b5_rest t) s (TokPost (fun σ => Spec.TreeModes.inBody (cfgOf s) σ (stokOf (.tag t))) s (.tag t)) := by
  by_cases h1 : t.name = "select".toList
  · b5_model_lit hk h1
    refine pc_tokPost_congr (b5_body_select hwf hm _) ?_
    intro x _
    b5_spec_lit hk h1
  by_cases h2 : t.name = "option".toList
  · b5_model_lit hk h2
    refine pc_tokPost_congr (b5_body_option hwf hm _) ?_
    intro x _
    b5_spec_lit hk h2
  by_cases h3 : t.name = "optgroup".toList
  · b5_model_lit hk h3
    refine pc_tokPost_congr (b5_body_optgroup hwf hm _) ?_
    intro x _
    b5_spec_lit hk h3
  by_cases h4 : t.name = "rb".toList
  · b5_model_lit hk h4
    refine pc_tokPost_congr (b5_body_rb hwf hm _) ?_
    intro x _
    b5_spec_lit hk h4
    rfl
  by_cases h5 : t.name = "rtc".toList
  · b5_model_lit hk h5
    refine pc_tokPost_congr (b5_body_rb hwf hm _) ?_
    intro x _
    b5_spec_lit hk h5
    rfl
  by_cases h6 : t.name = "rp".toList
  · b5_model_lit hk h6
    refine pc_tokPost_congr (b5_body_rp hwf hm _) ?_
    intro x _
    b5_spec_lit hk h6
    rfl
  by_cases h7 : t.name = "rt".toList
  · b5_model_lit hk h7
    refine pc_tokPost_congr (b5_body_rp hwf hm _) ?_
    intro x _
    b5_spec_lit hk h7
    rfl
  by_cases h8 : t.name = "math".toList
  · b5_model_lit hk h8
    refine pc_tokPost_congr (b5_body_foreign hwf hm _ nsMathml) ?_
    intro x _
    b5_spec_lit hk h8
    rw [kindOfNs_mathml]
    rfl
  by_cases h9 : t.name = "svg".toList
  · b5_model_lit hk h9
    refine pc_tokPost_congr (b5_body_foreign hwf hm _ nsSvg) ?_
    intro x _
    b5_spec_lit hk h9
    rw [kindOfNs_svg]
    rfl
  by_cases hig : t.name = "caption".toList ∨ t.name = "col".toList ∨ t.name = "colgroup".toList ∨ t.name = "frame".toList ∨ t.name = "head".toList ∨ t.name = "tbody".toList ∨ t.name = "td".toList ∨ t.name = "tfoot".toList ∨ t.name = "th".toList ∨ t.name = "thead".toList ∨ t.name = "tr".toList
  · rcases hig with h | h | h | h | h | h | h | h | h | h | h <;>
    · b5_model_lit hk h
      refine pc_tokPost_congr (b5_body_ignored hm _) ?_
      intro x _
      b5_spec_lit hk h
  simp only [not_or] at hig
  have hne := hpre
  simp only [bodyC1, bodyC2, bodyC3, bodyC4, Tag.isStart, Tag.isEnd, hk, b5_kind_ne, beq_self_eq_true, Bool.true_and,
    Bool.false_and, Bool.or_false, isOneOf_cons, isOneOf_nil, Bool.or_eq_false_iff,
    decide_eq_false_iff_not] at hne
  simp only [b5_rest, Tag.isStart, hk, isOneOf_cons, isOneOf_nil, beq_self_eq_true, Bool.true_and,
    h1, h2, h3, h4, h5, h6, h7, h8, h9, hig, decide_false, Bool.or_self, Bool.false_eq_true, if_false, if_true]
  refine pc_tokPost_congr (b5_body_otherStart hwf hm _) ?_
  intro x _
  simp only [stokOf, stokOfTag_start hk, Spec.TreeModes.inBody, Spec.TreeModes.inBodyStartTag,
    Spec.TreeModes.inBodyStartTagCore, Spec.TreeModes.Tag.is, Spec.TreeModes.Tag.isOneOf, strIs_eq, strIsOneOf_cons,
    strIsOneOf_nil, Spec.TreeModes.blockStart, Spec.TreeModes.formattingStart, Spec.TreeTables.heading, specTag_name,
    hne, h1, h2, h3, h4, h5, h6, h7, h8, h9, hig, decide_false, Bool.or_self, Bool.false_or, Bool.false_eq_true, if_false,
    b5_specOtherStart]

theorem b5_endTags {t : Tag} (hpre : (bodyC1 t || bodyC2 t || bodyC3 t || bodyC4 t) = false)
    (hk : t.kind = .endTag) {s : State} (hm : MInv s) :
    PC (b5_rest t) s (TokPost (fun σ => Spec.TreeModes.inBody (cfgOf s) σ (stokOf (.tag t))) s (.tag t)) := by
  have hne := hpre
  simp only [bodyC1, bodyC2, bodyC3, bodyC4, Tag.isStart, Tag.isEnd, hk, b5_kind_ne, beq_self_eq_true, Bool.true_and,
    Bool.false_and, Bool.or_false, Bool.false_or, isOneOf_cons, isOneOf_nil, Bool.or_eq_false_iff,
    decide_eq_false_iff_not] at hne
  simp only [b5_rest, Tag.isStart, hk, b5_kind_ne, Bool.false_and, Bool.false_eq_true, if_false]
  refine pc_tokPost_congr (b5_body_otherEnd t hm _) ?_
  intro x _
  simp only [stokOf, stokOfTag_end hk, Spec.TreeModes.inBody, Spec.TreeModes.inBodyEndTag,
    Spec.TreeModes.Tag.is, Spec.TreeModes.Tag.isOneOf, strIs_eq, strIsOneOf_cons,
    strIsOneOf_nil, Spec.TreeModes.blockEnd, Spec.TreeModes.formattingEnd, Spec.TreeTables.heading, specTag_name,
    hne, decide_false, Bool.or_self, Bool.and_false, Bool.false_eq_true, if_false]

theorem bodySlice5 : BodySliceSim (fun t => bodyC1 t || bodyC2 t || bodyC3 t || bodyC4 t) (fun _ => true) := by
  intro t hwf hpre _ s hm
  have hpre' : (bodyC1 t || bodyC2 t || bodyC3 t || bodyC4 t) = false := hpre
  rw [b5_stepInBody_rest t hpre']
  cases hk : t.kind with
  | startTag => exact b5_startTags hwf hpre' hk hm
  | endTag => exact b5_endTags hpre' hk hm


#print axioms bodySlice5

end H5V.Lemmas.HtmlTBModes
